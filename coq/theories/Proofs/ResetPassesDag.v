(* Proofs/ResetPassesDag.v — the wire-level models of RemoveFinalReset / ConsolidateResets:
   only resets are deleted, semantics, and agreement with the list passes. *)
From Coq Require Import Lia ZifyBool.
From CKT Require Import Common.Base Common.Circ Common.Herbrand Model.ResetPasses
  Proofs.ResetPassesP Proofs.ResetPassesSem.

(* ------------------------------------------------------------------------------------------ *)
(* circ_beq decides equality *)

Lemma option_beq_nat_eq a b : option_beq Nat.eqb a b = true <-> a = b.
Proof.
  destruct a, b; simpl; split; intros H; try congruence; try discriminate.
  - apply Nat.eqb_eq in H. now subst.
  - inversion H. apply Nat.eqb_refl.
Qed.

Lemma qlabel_beq_eq a b : qlabel_beq a b = true <-> a = b.
Proof.
  unfold qlabel_beq. destruct a as [[a1 a2]|], b as [[b1 b2]|]; simpl; split; intros H;
    try congruence; try discriminate.
  - unfold pair_beq in H. simpl in H. apply andb_prop in H as [H1 H2].
    apply Nat.eqb_eq in H1. apply option_beq_nat_eq in H2. now subst.
  - inversion H; subst. unfold pair_beq; simpl. rewrite Nat.eqb_refl. simpl. now apply option_beq_nat_eq.
Qed.

Lemma op_beq_eq a b : op_beq a b = true <-> a = b.
Proof.
  split.
  - destruct a, b; simpl; intros H; try discriminate; try reflexivity.
    + apply Nat.eqb_eq in H. now subst.
    + apply option_beq_nat_eq in H. now subst.
    + apply andb_prop in H as [H H3]. apply andb_prop in H as [H1 H2].
      apply Nat.eqb_eq in H1. apply option_beq_nat_eq in H2. apply qlabel_beq_eq in H3. now subst.
    + apply andb_prop in H as [H H4]. apply andb_prop in H as [H H3]. apply andb_prop in H as [H1 H2].
      apply Nat.eqb_eq in H1. apply Nat.eqb_eq in H2. apply option_beq_nat_eq in H3.
      apply qlabel_beq_eq in H4. now subst.
  - intros <-. destruct a; simpl; try reflexivity.
    + apply Nat.eqb_refl.
    + now apply option_beq_nat_eq.
    + rewrite Nat.eqb_refl. simpl. rewrite (proj2 (option_beq_nat_eq bid bid) eq_refl). simpl.
      now apply qlabel_beq_eq.
    + rewrite !Nat.eqb_refl. simpl. rewrite (proj2 (option_beq_nat_eq bid bid) eq_refl). simpl.
      now apply qlabel_beq_eq.
Qed.

Lemma list_nat_beq_eq a b : list_beq Nat.eqb a b = true <-> a = b.
Proof.
  split.
  - apply list_beq_eq. intros x y H. now apply Nat.eqb_eq.
  - intros <-. apply list_beq_refl. apply Nat.eqb_refl.
Qed.

Lemma instr_beq_eq a b : instr_beq a b = true <-> a = b.
Proof.
  unfold instr_beq. split.
  - intros H. apply andb_prop in H as [H H3]. apply andb_prop in H as [H1 H2].
    apply op_beq_eq in H1. apply list_nat_beq_eq in H2. apply list_nat_beq_eq in H3.
    destruct a, b; simpl in *. now subst.
  - intros <-. rewrite (proj2 (op_beq_eq _ _) eq_refl), !(proj2 (list_nat_beq_eq _ _) eq_refl). reflexivity.
Qed.

Lemma circ_beq_eq a b : circ_beq a b = true <-> a = b.
Proof.
  unfold circ_beq. split.
  - apply list_beq_eq. intros x y. apply instr_beq_eq.
  - intros <-. apply list_beq_refl. intros x. now apply instr_beq_eq.
Qed.

(* ------------------------------------------------------------------------------------------ *)
(* RemoveFinalReset on one wire, in recursive form *)

Fixpoint low (q : nat) (c : circ) : option nat :=
  match c with
  | [] => None
  | x :: r =>
      match low q r with
      | Some i => Some (S i)
      | None => if on_wire q x then Some 0 else None
      end
  end.

Lemma last_on_wire_from_low q c : forall i acc,
  last_on_wire_from q i c acc = match low q c with Some j => Some (i + j) | None => acc end.
Proof.
  induction c as [|x r IH]; intros i acc; simpl; [reflexivity|].
  rewrite IH. destruct (low q r) as [j|]; [f_equal; lia|].
  destruct (on_wire q x); [f_equal; lia|reflexivity].
Qed.

Lemma last_on_wire_low q c : last_on_wire q c = low q c.
Proof. unfold last_on_wire. rewrite last_on_wire_from_low. now destruct (low q c). Qed.

Fixpoint rfrw (q : nat) (c : circ) : circ :=
  match c with
  | [] => []
  | x :: r =>
      match low q r with
      | Some _ => x :: rfrw q r
      | None => if on_wire q x && is_reset x then r else x :: r
      end
  end.

Lemma rfr_wire_rfrw c q : rfr_wire c q = rfrw q c.
Proof.
  unfold rfr_wire. rewrite last_on_wire_low.
  induction c as [|x r IH]; simpl; [reflexivity|].
  destruct (low q r) as [i|] eqn:E.
  - simpl. rewrite <- IH. destruct (is_reset (nth i r dummy_instr)); reflexivity.
  - destruct (on_wire q x); simpl; [|reflexivity]. destruct (is_reset x); reflexivity.
Qed.

Lemma low_none q c : low q c = None -> forall y, In y c -> on_wire q y = false.
Proof.
  induction c as [|x r IH]; simpl; intros H y I; [destruct I|].
  destruct (low q r); [discriminate|]. destruct (on_wire q x) eqn:O; [discriminate|].
  destruct I as [<-|I]; auto.
Qed.

Lemma rfrw_none q c : low q c = None -> rfrw q c = c.
Proof.
  destruct c as [|x r]; simpl; [reflexivity|].
  destruct (low q r); [discriminate|]. destruct (on_wire q x); [discriminate|reflexivity].
Qed.

Lemma rfrw_only_resets q c : del_resets c (rfrw q c).
Proof.
  induction c as [|x r IH]; simpl; [constructor|].
  destruct (low q r); [now apply dr_keep|].
  destruct (on_wire q x); simpl; [|apply del_resets_refl].
  destruct (is_reset x) eqn:R; [apply dr_drop; [assumption|apply del_resets_refl]|apply del_resets_refl].
Qed.

Lemma fold_rfr_only_resets qs c : del_resets c (fold_left rfr_wire qs c).
Proof.
  revert c; induction qs as [|q qs IH]; intros c; simpl; [apply del_resets_refl|].
  eapply del_resets_trans; [|apply IH]. rewrite rfr_wire_rfrw. apply rfrw_only_resets.
Qed.

Theorem dag_rfr_only_resets nq c : del_resets c (dag_remove_final_reset nq c).
Proof. apply fold_rfr_only_resets. Qed.

Lemma iter_fix_only_resets f : (forall c, del_resets c (f c)) ->
  forall fuel c, del_resets c (iter_fix fuel f c).
Proof.
  intros Hf fuel; induction fuel as [|k IH]; intros c; simpl; [apply del_resets_refl|].
  destruct (circ_beq (f c) c); [apply del_resets_refl|].
  eapply del_resets_trans; [apply Hf|apply IH].
Qed.

Theorem dag_rfr_fix_only_resets nq c : del_resets c (dag_remove_final_reset_fix nq c).
Proof. apply iter_fix_only_resets. intros c'. apply dag_rfr_only_resets. Qed.

(* ---- semantics of one run ---- *)

(* instructions that do not touch wire q preserve "equal except on wire q" *)
Lemma frame q r : (forall y, In y r -> on_wire q y = false) -> forall n s s',
  length (hw s') = length (hw s) -> hc s' = hc s -> (forall j, j <> q -> wire s' j = wire s j) ->
  let t := hrun s (tag_from n r) in let t' := hrun s' (tag_from n r) in
  hc t' = hc t /\ forall j, j <> q -> wire t' j = wire t j.
Proof.
  induction r as [|y r IH]; intros NW n s s' L C A; [split; assumption|].
  cbv zeta. rewrite !tag_from_cons, !hrun_cons.
  assert (Ny : ~ In q (iqs y)) by (apply on_wire_false; apply NW; now left).
  destruct (hstep_cong s' s n y L C) as [Hc Hw].
  { intros p Ip. apply A. intros ->. contradiction. }
  apply IH.
  - intros z Iz. apply NW. now right.
  - now rewrite !hstep_wlen.
  - assumption.
  - intros j Nj. apply Hw. now apply A.
Qed.

Lemma rfrw_sem nq nc q c : wf nq nc c = true -> forall n s,
  let t := hrun s (tag_from n c) in let t' := hrun s (tag_from n (rfrw q c)) in
  hc t' = hc t /\ forall j, j <> q -> wire t' j = wire t j.
Proof.
  induction c as [|x r IH]; intros W n s; [split; reflexivity|].
  apply wf_cons in W as [Wx W]. specialize (IH W). cbv zeta. cbn [rfrw].
  destruct (low q r) eqn:E.
  - rewrite !tag_from_cons, !hrun_cons. apply IH.
  - destruct (on_wire q x && is_reset x) eqn:OR; [|split; reflexivity].
    apply andb_prop in OR as [O R].
    rewrite (wf_reset_on_wire _ _ _ q Wx R) in O. apply Nat.eqb_eq in O. subst q.
    destruct (wf_reset _ _ _ Wx R) as [Eq _].
    assert (N : iqs x <> []) by (rewrite Eq; discriminate).
    rewrite (tag_from_cons n x r), (is_reset_not_creates _ R), hrun_cons.
    apply (frame (rq x) r (low_none _ _ E) n (hstep s (n, x)) s).
    + now rewrite hstep_wlen.
    + now rewrite hstep_reset_hc.
    + intros j Nj. rewrite hstep_reset_wire by assumption.
      destruct (Nat.eqb_spec j (rq x)); [contradiction|reflexivity].
Qed.

Lemma fold_rfr_sem nq nc qs : forall c, wf nq nc c = true ->
  let c' := fold_left rfr_wire qs c in
  hc (denote nq nc c') = hc (denote nq nc c) /\
  forall j, ~ In j (dag_rfr_dropped_from c qs) -> wire (denote nq nc c') j = wire (denote nq nc c) j.
Proof.
  induction qs as [|q qs IH]; intros c W; [split; reflexivity|].
  cbv zeta. cbn [fold_left dag_rfr_dropped_from].
  assert (D : del_resets c (rfr_wire c q)) by (rewrite rfr_wire_rfrw; apply rfrw_only_resets).
  pose proof (del_resets_wf _ _ _ _ D W) as W1.
  destruct (IH _ W1) as [Hc Hw].
  destruct (Nat.eqb_spec (length (rfr_wire c q)) (length c)) as [L|L].
  - rewrite (del_resets_same_length _ _ D L) in *. split; assumption.
  - pose proof (rfrw_sem nq nc q c W 0 (hinit nq nc)) as [Sc Sw].
    rewrite <- rfr_wire_rfrw in Sc, Sw. fold (tagc c) in Sc, Sw. fold (tagc (rfr_wire c q)) in Sc, Sw.
    fold (denote nq nc c) in Sc, Sw. fold (denote nq nc (rfr_wire c q)) in Sc, Sw.
    split; [congruence|]. intros j Nj.
    rewrite Hw by (intros I; apply Nj; now right). apply Sw. intros ->. apply Nj. now left.
Qed.

Theorem dag_rfr_semantics nq nc c : wf nq nc c = true ->
  hc (denote nq nc (dag_remove_final_reset nq c)) = hc (denote nq nc c) /\
  forall q, ~ In q (dag_rfr_dropped nq c) ->
    wire (denote nq nc (dag_remove_final_reset nq c)) q = wire (denote nq nc c) q.
Proof. intros W. apply (fold_rfr_sem nq nc (seq 0 nq) c W). Qed.

Lemma dag_rfr_dropped_from_incl c qs q : In q (dag_rfr_dropped_from c qs) -> In q qs.
Proof.
  revert c; induction qs as [|a qs IH]; intros c H; simpl in *; [assumption|].
  destruct (Nat.eqb _ _); [right; eapply IH; eauto|]. destruct H as [<-|H]; [now left|right; eapply IH; eauto].
Qed.

(* ------------------------------------------------------------------------------------------ *)
(* forward characterisation of _remove_final_resets *)

Definition dead (q : nat) (r : circ) : bool := forallb (fun y => is_reset y || negb (on_wire q y)) r.

Fixpoint FE (f : list bool) (c : circ) : circ :=
  match c with
  | [] => []
  | x :: r => if is_reset x && nth (rq x) f false && dead (rq x) r then FE f r else x :: FE f r
  end.

Lemma dead_app q a b : dead q (a ++ b) = dead q a && dead q b.
Proof. unfold dead. apply forallb_app. Qed.

Lemma FE_snoc_reset f c x : is_reset x = true ->
  FE f (c ++ [x]) = FE f c ++ (if nth (rq x) f false then [] else [x]).
Proof.
  intros R. induction c as [|y c IH]; simpl.
  - rewrite R. simpl. rewrite andb_true_r. destruct (nth (rq x) f false); reflexivity.
  - rewrite IH, dead_app. unfold dead at 2. simpl. rewrite R. simpl. rewrite andb_true_r.
    destruct (is_reset y && nth (rq y) f false && dead (rq y) c); reflexivity.
Qed.

Lemma FE_snoc_other f c x : is_reset x = false ->
  FE f (c ++ [x]) = FE (set_flags f (iqs x) false) c ++ [x].
Proof.
  intros R. induction c as [|y c IH]; simpl.
  - now rewrite R.
  - rewrite IH, dead_app. unfold dead at 2. simpl. rewrite R. simpl. rewrite andb_true_r.
    rewrite set_flags_nth. fold (on_wire (rq y) x).
    assert (E : nth (rq y) f false && (dead (rq y) c && negb (on_wire (rq y) x))
              = (if on_wire (rq y) x && Nat.ltb (rq y) (length f) then false else nth (rq y) f false)
                && dead (rq y) c).
    { destruct (on_wire (rq y) x); simpl.
      - rewrite !andb_false_r. destruct (Nat.ltb_spec (rq y) (length f)); [reflexivity|].
        rewrite nth_overflow by assumption. reflexivity.
      - now rewrite andb_true_r. }
    rewrite <- !andb_assoc, E, !andb_assoc.
    destruct (is_reset y && _ && dead (rq y) c); reflexivity.
Qed.

Lemma FE_no_flags f c : (forall q, nth q f false = false) -> FE f c = c.
Proof.
  intros H. induction c as [|x r IH]; simpl; [reflexivity|].
  rewrite H, andb_false_r. simpl. now rewrite IH.
Qed.

Lemma fmask_FE f rc : rev (drop_mask (fmask f rc) rc) = FE f (rev rc).
Proof.
  revert f; induction rc as [|x r IH]; intros f; [reflexivity|]. cbn [fmask rev].
  destruct (is_reset x) eqn:R.
  - rewrite (FE_snoc_reset _ _ _ R), <- IH.
    destruct (nth (rq x) f false); cbn [drop_mask rev]; [now rewrite app_nil_r|reflexivity].
  - rewrite (FE_snoc_other _ _ _ R). cbv zeta.
    destruct (Nat.eqb _ 0) eqn:Z; cbn [drop_mask rev].
    + rewrite drop_mask_repeat_false. f_equal. symmetry. apply FE_no_flags.
      intros q. apply count_true_0. now apply Nat.eqb_eq.
    + now rewrite IH.
Qed.

Theorem final_as_FE nq c : remove_final_resets nq c = FE (repeat true nq) c.
Proof. rewrite final_as_mask, fmask_FE. now rewrite rev_involutive. Qed.

(* ------------------------------------------------------------------------------------------ *)
(* the fixed point of RemoveFinalReset = _remove_final_resets *)

Lemma del_resets_dead q a b : del_resets a b -> dead q b = dead q a.
Proof.
  unfold dead. intros H; induction H as [|x a b H IH|x a b R H IH]; simpl.
  - reflexivity.
  - now rewrite IH.
  - now rewrite R.
Qed.

Lemma nth_repeat_true n q : nth q (repeat true n) false = Nat.ltb q n.
Proof.
  revert q; induction n as [|n IH]; intros [|q]; try reflexivity. simpl repeat. simpl nth. rewrite IH. reflexivity.
Qed.

Lemma FE_rfrw nq nc q c : wf nq nc c = true -> FE (repeat true nq) (rfrw q c) = FE (repeat true nq) c.
Proof.
  induction c as [|x r IH]; intros W; [reflexivity|].
  apply wf_cons in W as [Wx W]. specialize (IH W). cbn [rfrw].
  destruct (low q r) eqn:E.
  - cbn [FE]. rewrite IH, (del_resets_dead _ _ _ (rfrw_only_resets q r)). reflexivity.
  - destruct (on_wire q x && is_reset x) eqn:OR; [|reflexivity].
    apply andb_prop in OR as [O R].
    rewrite (wf_reset_on_wire _ _ _ q Wx R) in O. apply Nat.eqb_eq in O. subst q.
    destruct (wf_reset _ _ _ Wx R) as [_ [_ Lq]].
    cbn [FE]. rewrite R, nth_repeat_true. apply Nat.ltb_lt in Lq. rewrite Lq. simpl.
    assert (D : dead (rq x) r = true).
    { unfold dead. apply forallb_forall. intros y Iy. rewrite (low_none _ _ E y Iy). simpl. apply orb_true_r. }
    now rewrite D.
Qed.

Lemma FE_fold_rfr nq nc qs : forall c, wf nq nc c = true ->
  FE (repeat true nq) (fold_left rfr_wire qs c) = FE (repeat true nq) c.
Proof.
  induction qs as [|q qs IH]; intros c W; [reflexivity|]. cbn [fold_left].
  assert (D : del_resets c (rfr_wire c q)) by (rewrite rfr_wire_rfrw; apply rfrw_only_resets).
  rewrite IH by (eapply del_resets_wf; eauto). rewrite rfr_wire_rfrw. now apply (FE_rfrw nq nc).
Qed.

Lemma FE_iter nq nc fuel : forall c, wf nq nc c = true ->
  FE (repeat true nq) (iter_fix fuel (dag_remove_final_reset nq) c) = FE (repeat true nq) c.
Proof.
  induction fuel as [|k IH]; intros c W; simpl; [reflexivity|].
  destruct (circ_beq _ c); [reflexivity|].
  rewrite IH by (eapply del_resets_wf; [apply dag_rfr_only_resets|assumption]).
  now apply (FE_fold_rfr nq nc).
Qed.

Lemma iter_fix_fixed f : (forall c, del_resets c (f c)) ->
  forall fuel c, length c < fuel -> f (iter_fix fuel f c) = iter_fix fuel f c.
Proof.
  intros Hf fuel; induction fuel as [|k IH]; intros c L; [lia|]. simpl.
  destruct (circ_beq (f c) c) eqn:B.
  - now apply circ_beq_eq in B.
  - apply IH. pose proof (del_resets_length _ _ (Hf c)) as L1.
    assert (length (f c) <> length c).
    { intros E. apply (del_resets_same_length _ _ (Hf c)) in E. rewrite E in B.
      rewrite (proj2 (circ_beq_eq c c) eq_refl) in B. discriminate. }
    lia.
Qed.

Lemma fold_rfr_fixed qs : forall c, fold_left rfr_wire qs c = c -> forall q, In q qs -> rfrw q c = c.
Proof.
  induction qs as [|a qs IH]; intros c H q I; [destruct I|]. cbn [fold_left] in H.
  assert (D : del_resets c (rfr_wire c a)) by (rewrite rfr_wire_rfrw; apply rfrw_only_resets).
  pose proof (fold_rfr_only_resets qs (rfr_wire c a)) as D2. rewrite H in D2.
  assert (E : rfr_wire c a = c).
  { apply del_resets_same_length; [assumption|].
    apply del_resets_length in D. apply del_resets_length in D2. lia. }
  rewrite E in H. destruct I as [<-|I]; [now rewrite <- rfr_wire_rfrw|now apply IH].
Qed.

Lemma rfrw_shrinks q r : low q r <> None -> dead q r = true -> length (rfrw q r) < length r.
Proof.
  induction r as [|y r IH]; simpl; intros L D; [congruence|].
  apply andb_prop in D as [Dy D].
  destruct (low q r) eqn:E.
  - simpl. apply -> Nat.succ_lt_mono. apply IH; [congruence|assumption].
  - destruct (on_wire q y) eqn:O; [|congruence]. simpl in Dy. rewrite orb_false_r in Dy.
    rewrite Dy. simpl. lia.
Qed.

Lemma FE_fixed nq nc c : wf nq nc c = true -> (forall q, q < nq -> rfrw q c = c) ->
  FE (repeat true nq) c = c.
Proof.
  induction c as [|x r IH]; intros W H; [reflexivity|].
  apply wf_cons in W as [Wx W]. cbn [FE].
  assert (Hr : forall q, q < nq -> rfrw q r = r).
  { intros q Lq. specialize (H q Lq). cbn [rfrw] in H. destruct (low q r) eqn:E.
    - injection H as H'. exact H'.
    - now apply rfrw_none. }
  destruct (is_reset x && nth (rq x) (repeat true nq) false && dead (rq x) r) eqn:C.
  - exfalso. apply andb_prop in C as [C D]. apply andb_prop in C as [R Lq].
    rewrite nth_repeat_true in Lq. apply Nat.ltb_lt in Lq.
    specialize (H (rq x) Lq). cbn [rfrw] in H.
    destruct (low (rq x) r) eqn:E.
    + pose proof (rfrw_shrinks (rq x) r) as S. rewrite E in S.
      specialize (S ltac:(discriminate) D). injection H as H'. rewrite H' in S. lia.
    + rewrite (wf_reset_on_wire _ _ _ (rq x) Wx R), Nat.eqb_refl, R in H. simpl in H.
      apply (f_equal (@length instr)) in H. simpl in H. lia.
  - f_equal. now apply IH.
Qed.

Theorem dag_rfr_fix_is_fixed_point nq c :
  dag_remove_final_reset nq (dag_remove_final_reset_fix nq c) = dag_remove_final_reset_fix nq c.
Proof.
  unfold dag_remove_final_reset_fix. apply iter_fix_fixed; [intros c'; apply dag_rfr_only_resets|lia].
Qed.

Theorem dag_equiv_final nq nc c : wf nq nc c = true ->
  dag_remove_final_reset_fix nq c = remove_final_resets nq c.
Proof.
  intros W. rewrite final_as_FE.
  pose proof (dag_rfr_fix_is_fixed_point nq c) as Fx.
  pose proof (del_resets_wf _ _ _ _ (dag_rfr_fix_only_resets nq c) W) as W'.
  rewrite <- (FE_iter nq nc (S (length c)) c W). fold (dag_remove_final_reset_fix nq c).
  symmetry. apply (FE_fixed nq nc); [assumption|].
  intros q Lq. apply (fold_rfr_fixed (seq 0 nq)); [exact Fx|]. apply in_seq. lia.
Qed.

Theorem dag_rfr_fix_semantics nq nc c : wf nq nc c = true ->
  hc (denote nq nc (dag_remove_final_reset_fix nq c)) = hc (denote nq nc c) /\
  forall q, ~ In q (final_dropped nq c) ->
    wire (denote nq nc (dag_remove_final_reset_fix nq c)) q = wire (denote nq nc c) q.
Proof. intros W. rewrite (dag_equiv_final nq nc c W). now apply final_semantics. Qed.

(* ------------------------------------------------------------------------------------------ *)
(* ConsolidateResets *)

Theorem dag_consolidate_only_resets c : del_resets c (dag_consolidate_resets c).
Proof.
  induction c as [|x r IH]; simpl; [constructor|].
  destruct (is_reset x) eqn:R; simpl; [|now apply dr_keep].
  destruct (next_on_wire (rq x) r) as [y|]; [|now apply dr_keep].
  destruct (is_reset y); [now apply dr_drop|now apply dr_keep].
Qed.

Lemma next_on_wire_cons j x r :
  next_on_wire j (x :: r) = if on_wire j x then Some x else next_on_wire j r.
Proof. reflexivity. Qed.

(* invariant: the two states differ at most on wires whose next instruction is a reset *)
Lemma dagc_sem nq nc c : wf nq nc c = true -> forall n s s',
  length (hw s') = length (hw s) -> hc s' = hc s ->
  (forall j, wire s' j = wire s j \/ exists y, next_on_wire j c = Some y /\ is_reset y = true) ->
  hrun s' (tag_from n (dag_consolidate_resets c)) = hrun s (tag_from n c).
Proof.
  induction c as [|x r IH]; intros W n s s' L C Inv.
  - simpl. apply hstate_ext; [assumption|assumption|].
    intros j. destruct (Inv j) as [E|[y [E _]]]; [assumption|discriminate].
  - apply wf_cons in W as [Wx W]. specialize (IH W). cbn [dag_consolidate_resets].
    destruct (is_reset x) eqn:R.
    + destruct (wf_reset _ _ _ Wx R) as [Eq _].
      assert (N : iqs x <> []) by (rewrite Eq; discriminate).
      assert (Oth : forall j, j <> rq x ->
                wire s' j = wire s j \/ exists y, next_on_wire j r = Some y /\ is_reset y = true).
      { intros j Nj. destruct (Inv j) as [E|[y [E Ry]]]; [now left|right].
        rewrite next_on_wire_cons, (wf_reset_on_wire _ _ _ j Wx R) in E.
        destruct (Nat.eqb_spec j (rq x)); [contradiction|]. now exists y. }
      rewrite (tag_from_cons n x r), (is_reset_not_creates _ R), hrun_cons.
      destruct (match next_on_wire (rq x) r with Some y => is_reset y | None => false end) eqn:Nx; cbn [andb].
      * (* removed: the original resets, the new one waits for the next reset *)
        apply IH; [now rewrite hstep_wlen|now rewrite hstep_reset_hc|].
        intros j. rewrite hstep_reset_wire by assumption.
        destruct (Nat.eqb_spec j (rq x)) as [->|Nj]; [|now apply Oth].
        right. destruct (next_on_wire (rq x) r) as [y|]; [|discriminate]. now exists y.
      * rewrite (tag_from_cons n x _), (is_reset_not_creates _ R), hrun_cons.
        apply IH; [now rewrite !hstep_wlen|now rewrite !hstep_reset_hc|].
        intros j. rewrite !hstep_reset_wire by assumption.
        destruct (Nat.eqb_spec j (rq x)) as [->|Nj]; [now left|now apply Oth].
    + cbn [andb]. rewrite !tag_from_cons, !hrun_cons.
      assert (A : forall q, In q (iqs x) -> wire s' q = wire s q).
      { intros q Iq. destruct (Inv q) as [E|[y [E Ry]]]; [assumption|].
        rewrite next_on_wire_cons, (proj2 (on_wire_In q x) Iq) in E. inversion E; subst. congruence. }
      destruct (hstep_cong s' s n x L C A) as [Hc Hw].
      apply IH; [now rewrite !hstep_wlen|assumption|].
      intros j. destruct (Inv j) as [E|[y [E Ry]]]; [left; now apply Hw|].
      rewrite next_on_wire_cons in E. destruct (on_wire j x) eqn:O.
      * inversion E; subst. congruence.
      * right. now exists y.
Qed.

Theorem dag_consolidate_semantics nq nc c : wf nq nc c = true ->
  denote nq nc (dag_consolidate_resets c) = denote nq nc c.
Proof.
  intros W. unfold denote, tagc. apply (dagc_sem nq nc c W); auto.
Qed.

(* ---- per-wire agreement with _consolidate_resets ---- *)

(* on one wire: keep the first / keep the last reset of every run *)
Fixpoint wcons (b : bool) (l : circ) : circ :=
  match l with
  | [] => []
  | x :: r => if is_reset x then (if b then wcons true r else x :: wcons true r) else x :: wcons false r
  end.

Fixpoint wlast (l : circ) : circ :=
  match l with
  | [] => []
  | x :: r =>
      if is_reset x && match r with y :: _ => is_reset y | [] => false end
      then wlast r else x :: wlast r
  end.

Lemma wcons_wlast rho l : is_reset rho = true -> (forall y, In y l -> is_reset y = true -> y = rho) ->
  wcons false l = wlast l /\ rho :: wcons true l = wlast (rho :: l).
Proof.
  intros Rr. induction l as [|y l IH]; intros A.
  - simpl. rewrite Rr. simpl. auto.
  - destruct IH as [IH1 IH2]; [intros z Iz; apply A; now right|].
    destruct (is_reset y) eqn:Ry.
    + assert (y = rho) by (apply A; [now left|assumption]). subst y. split.
      * cbn [wcons]. rewrite Rr. exact IH2.
      * cbn [wcons]. rewrite Rr. rewrite IH2. cbn [wlast]. rewrite Rr. reflexivity.
    + split.
      * cbn [wcons wlast]. rewrite Ry. simpl. now rewrite IH1.
      * cbn [wcons wlast]. rewrite Ry, Rr. simpl. now rewrite IH1.
Qed.

Lemma find_hd_filter {A} (f : A -> bool) l : find f l = hd_error (filter f l).
Proof. induction l as [|x l IH]; simpl; [reflexivity|]. destruct (f x); [reflexivity|assumption]. Qed.

Lemma dagc_proj nq nc q c : wf nq nc c = true ->
  proj_q q (dag_consolidate_resets c) = wlast (proj_q q c).
Proof.
  induction c as [|x r IH]; intros W; [reflexivity|].
  apply wf_cons in W as [Wx W]. specialize (IH W). cbn [dag_consolidate_resets].
  unfold proj_q in *. cbn [filter].
  destruct (is_reset x) eqn:R.
  - rewrite (wf_reset_on_wire _ _ _ q Wx R). cbn [andb].
    destruct (Nat.eqb_spec q (rq x)) as [->|Nq].
    + unfold next_on_wire. rewrite find_hd_filter. cbn [wlast]. rewrite R. cbn [andb].
      destruct (filter (on_wire (rq x)) r) as [|y l] eqn:F; cbn [hd_error].
      * cbn [filter]. rewrite (wf_reset_on_wire _ _ _ (rq x) Wx R), Nat.eqb_refl. now rewrite IH.
      * destruct (is_reset y); [assumption|].
        cbn [filter]. rewrite (wf_reset_on_wire _ _ _ (rq x) Wx R), Nat.eqb_refl. now rewrite IH.
    + destruct (match next_on_wire (rq x) r with Some y => is_reset y | None => false end); [assumption|].
      cbn [filter]. rewrite (wf_reset_on_wire _ _ _ q Wx R). destruct (Nat.eqb_spec q (rq x)); [contradiction|assumption].
  - cbn [andb filter]. destruct (on_wire q x); [|assumption].
    cbn [wlast]. rewrite R. cbn [andb]. now rewrite IH.
Qed.

Lemma cmask_proj nq nc q c : wf nq nc c = true -> forall f, length f = nq -> q < nq ->
  proj_q q (drop_mask (cmask f c) c) = wcons (nth q f false) (proj_q q c).
Proof.
  induction c as [|x r IH]; intros W f Lf Lq; [reflexivity|].
  apply wf_cons in W as [Wx W]. specialize (IH W). cbn [cmask].
  unfold proj_q in *.
  destruct (is_reset x) eqn:R.
  - destruct (nth (rq x) f false) eqn:F; cbn [drop_mask filter];
      rewrite (wf_reset_on_wire _ _ _ q Wx R); destruct (Nat.eqb_spec q (rq x)) as [->|Nq].
    + cbn [wcons]. rewrite R, F. rewrite IH by assumption. now rewrite F.
    + now apply IH.
    + cbn [wcons]. rewrite R, F. rewrite IH by (rewrite ?upd_length; assumption).
      rewrite nth_upd_same by lia. reflexivity.
    + rewrite IH by (rewrite ?upd_length; assumption). rewrite nth_upd_other by congruence. reflexivity.
  - cbn [drop_mask filter]. rewrite IH by (rewrite ?set_flags_length; assumption).
    rewrite set_flags_nth. fold (on_wire q x).
    destruct (on_wire q x); cbn [andb].
    + cbn [wcons]. rewrite R. apply Nat.ltb_lt in Lq. rewrite Lf, Lq. reflexivity.
    + reflexivity.
Qed.

Theorem dag_equiv_consolidate nq nc c q : wf nq nc c = true -> q < nq ->
  proj_q q (dag_consolidate_resets c) = proj_q q (consolidate_resets nq c).
Proof.
  intros W Lq. rewrite (dagc_proj nq nc q c W), consolidate_as_mask.
  rewrite (cmask_proj nq nc q c W) by (rewrite ?repeat_length; auto).
  rewrite nth_repeat_false. symmetry.
  apply (wcons_wlast (mkI Reset [q] [])); [reflexivity|].
  intros y Iy Ry. unfold proj_q in Iy. apply filter_In in Iy as [Iy Oy].
  assert (Wy : wf_instr nq nc y = true).
  { unfold wf in W. rewrite forallb_forall in W. now apply W. }
  rewrite (wf_reset_on_wire _ _ _ q Wy Ry) in Oy. apply Nat.eqb_eq in Oy. subst q.
  now apply (wf_reset_eq nq nc).
Qed.

Theorem dag_equiv_consolidate_rest nq nc c : wf nq nc c = true ->
  non_resets (dag_consolidate_resets c) = non_resets (consolidate_resets nq c) /\
  forall k, proj_c k (dag_consolidate_resets c) = proj_c k (consolidate_resets nq c).
Proof.
  intros W. split.
  - rewrite (del_resets_non_resets _ _ (dag_consolidate_only_resets c)).
    now rewrite (del_resets_non_resets _ _ (consolidate_only_resets nq c)).
  - intros k. rewrite (del_resets_proj_c nq nc k _ _ W (dag_consolidate_only_resets c)).
    now rewrite (del_resets_proj_c nq nc k _ _ W (consolidate_only_resets nq c)).
Qed.

(* Proofs/BasesKak.v — the KAK path: dressing every map of a basis with local operations dresses the
   decomposed channel (PTM multiplicativity), the model's in-place dressing is that dressing, and the
   nonlocal basis at u = _u_from_thetavec(a,b,c) decomposes exp(i(aXX+bYY+cZZ)). *)
From Coq Require Import String List Bool Arith QArith Reals Lra Lia.
From CKT Require Import Common.Base Common.PolyRing Common.Ptm Model.Bases Proofs.BasesP Proofs.BasesMat.
Import ListNotations.
Close Scope Q_scope.
Open Scope list_scope.
Open Scope R_scope.

(* ---------- one-qubit operation PTMs over R are 4x4 ---------- *)
Section Dress.
  Variable env : nat -> R.
  Variable uenv : nat -> list (list R).
  Hypothesis Huenv : forall k, wf4 (uenv k).
  Let C := RCoef env.

  Lemma ptm_kraus_wf4 dinv ks : wf4 (ptm_kraus C 2 dinv (paulis1 C) ks).
  Proof.
    split; [reflexivity|]. unfold ptm_kraus. apply Forall_forall. intros r Hr.
    apply in_map_iff in Hr as (Pa & <- & _). now rewrite map_length.
  Qed.
  Lemma ptm_op_wf4 o : wf4 (ptm_op C uenv o).
  Proof.
    unfold ptm_op. destruct (op_spec o) as [ks|m|k] eqn:E.
    - apply ptm_kraus_wf4.
    - destruct o as [| | | | | | | | | |a|a|a|a| | |k]; simpl in E; try discriminate;
        destruct a; simpl in E; try discriminate; inversion E; subst;
        (split; [reflexivity|repeat constructor]).
    - apply Huenv.
  Qed.
  Let step := fun (acc : list (list R)) (o : op1) => Rmmul (ptm_op C uenv o) acc.
  Lemma fold_wf4 s X : wf4 X -> wf4 (fold_left step s X).
  Proof. revert X; induction s as [|o s IH]; intros X HX; simpl; auto. apply IH, mmul_wf4; auto. apply ptm_op_wf4. Qed.
  Lemma ptm_seq_wf4 s : wf4 (ptm_seq C uenv s).
  Proof. apply fold_wf4, ident4_wf. Qed.
  Lemma fold_from s X : wf4 X -> fold_left step s X = Rmmul (fold_left step s (ident RRing 4)) X.
  Proof.
    revert X; induction s as [|o s IH]; intros X HX; cbn [fold_left].
    - now rewrite mmul_ident_l.
    - pose proof (ptm_op_wf4 o) as Ho.
      rewrite (IH (step X o)) by (apply mmul_wf4; auto).
      rewrite (IH (step (ident RRing 4) o)) by (apply mmul_wf4; auto using ident4_wf).
      unfold step. rewrite mmul_ident_r by auto.
      rewrite mmul_assoc4; auto. apply fold_wf4, ident4_wf.
  Qed.
  Lemma ptm_seq_dress pre post s :
    ptm_seq C uenv (pre :: s ++ [post])
    = Rmmul (ptm_op C uenv post) (Rmmul (ptm_seq C uenv s) (ptm_op C uenv pre)).
  Proof.
    unfold ptm_seq. cbn [fold_left]. rewrite fold_left_app. cbn [fold_left].
    change (mmul C) with Rmmul. change (ident C 4) with (ident RRing 4).
    change (fun (acc : list (list R)) (o : op1) => Rmmul (ptm_op C uenv o) acc) with step.
    f_equal. rewrite mmul_ident_r by apply ptm_op_wf4.
    apply fold_from, ptm_op_wf4.
  Qed.

  (* dressing of a plain term list, as qpdbasis_from_instruction does on the KAK path *)
  Definition dress_term (t : term) : term :=
    let '(c, s0, s1) := t in (c, OU 0 :: s0 ++ [OU 1], OU 2 :: s1 ++ [OU 3]).
  Definition dress_terms (b : list term) : list term := map dress_term b.

  Let Lm := Rkron (uenv 3) (uenv 1).
  Let Rm := Rkron (uenv 2) (uenv 0).
  Lemma term_dress t : term_ptm C uenv (dress_term t) = Rmmul Lm (Rmmul (term_ptm C uenv t) Rm).
  Proof.
    destruct t as [[c s0] s1]. unfold dress_term, term_ptm. rewrite !ptm_seq_dress.
    change (ptm_op C uenv (OU 0)) with (uenv 0). change (ptm_op C uenv (OU 1)) with (uenv 1).
    change (ptm_op C uenv (OU 2)) with (uenv 2). change (ptm_op C uenv (OU 3)) with (uenv 3).
    pose proof (ptm_seq_wf4 s0) as H0. pose proof (ptm_seq_wf4 s1) as H1.
    rewrite <- !kron_mixed4; auto using mmul_wf4.
    unfold Lm, Rm. now rewrite mmul_mscale_l, mmul_mscale_r.
  Qed.
  Lemma kak_dressing_ne b : b <> [] ->
    channel C uenv (dress_terms b) = Rmmul Lm (Rmmul (channel C uenv b) Rm).
  Proof.
    intros Hb. destruct b as [|t b]; [congruence|]. unfold channel, dress_terms.
    change (msum C) with (msum RRing).
    cbn [map]. rewrite mmul_msum_l. cbn [map]. rewrite mmul_msum_r. cbn [map].
    rewrite !map_map, term_dress. do 2 f_equal. apply map_ext. intros t'. apply term_dress.
  Qed.
End Dress.

Theorem kak_dressing : forall (env : nat -> R) (uenv : nat -> list (list R)) (b : list term),
  (forall k, wf4 (uenv k)) -> b <> [] ->
  channel (RCoef env) uenv (dress_terms b)
  = mmul RRing (kron RRing (uenv 3%nat) (uenv 1%nat))
      (mmul RRing (channel (RCoef env) uenv b) (kron RRing (uenv 2%nat) (uenv 0%nat))).
Proof. intros env uenv b Hu Hb. now apply kak_dressing_ne. Qed.

(* the in-place dressing of the heap cells (each distinct list once) is the term-wise dressing *)
Lemma kak_model_is_dressing : resolve kak_basis = dress_terms (resolve (nonlocal_basis u_from_thetavec)).
Proof. vm_compute. reflexivity. Qed.

(* bases without UnitaryGate placeholders do not depend on the environment of local PTMs *)
Definition is_ou (o : op1) : bool := match o with OU _ => true | _ => false end.
Definition term_no_ou (t : term) : bool :=
  let '(c, s0, s1) := t in negb (existsb is_ou s0) && negb (existsb is_ou s1).
Lemma ptm_op_no_ou {A} (C : Coef A) u1 u2 o : is_ou o = false -> ptm_op C u1 o = ptm_op C u2 o.
Proof.
  destruct o as [| | | | | | | | | |a|a|a|a| | |k]; intros H; try discriminate; try reflexivity;
    destruct a; reflexivity.
Qed.
Lemma ptm_seq_no_ou {A} (C : Coef A) u1 u2 s : existsb is_ou s = false -> ptm_seq C u1 s = ptm_seq C u2 s.
Proof.
  unfold ptm_seq. generalize (ident C 4). induction s as [|o s IH]; intros M H; [reflexivity|].
  cbn [existsb] in H. apply orb_false_elim in H as [H1 H2]. cbn [fold_left].
  now rewrite (ptm_op_no_ou C u1 u2 o H1), IH.
Qed.
Lemma channel_no_ou {A} (C : Coef A) u1 u2 b :
  forallb term_no_ou b = true -> channel C u1 b = channel C u2 b.
Proof.
  intros H. unfold channel. f_equal. apply map_ext_in. intros [[c s0] s1] HIn.
  rewrite forallb_forall in H. specialize (H _ HIn). unfold term_no_ou in H.
  apply andb_prop in H as [H0 H1]. apply negb_true_iff in H0, H1.
  unfold term_ptm. now rewrite (ptm_seq_no_ou C u1 u2 s0 H0), (ptm_seq_no_ou C u1 u2 s1 H1).
Qed.

(* the nonlocal basis at u = _u_from_thetavec decomposes the canonical gate, for all Weyl coordinates *)
Lemma kak_core_keq :
  meqb K3 (channel K3 nou (resolve (nonlocal_basis u_from_thetavec))) (ptm2 K3 [(c1 K3, Uweyl K3)]) = true.
Proof. vm_cast_no_check (eq_refl true). Qed.

Lemma kak_core : forall a b c : R,
  let C := RCoef (env3 a b c) in
  channel C nou (resolve (nonlocal_basis u_from_thetavec)) = ptm2 C [(c1 C, Uweyl C)].
Proof.
  intros a b c C. pose proof (K3_hom a b c) as H.
  pose proof (CoefHomR_CHom _ _ _ H) as HC. pose proof (chh _ _ _ HC) as Hh.
  rewrite <- (mmap_channel K3 _ _ H nou).
  replace (ptm2 C [(c1 C, Uweyl C)]) with (mmap (eval3 a b c) (ptm2 K3 [(c1 K3, Uweyl K3)])).
  - apply (meqb_sound K3 _ (ch_hom _ _ _ H)). exact kak_core_keq.
  - rewrite (mmap_ptm2 _ _ _ HC). unfold kmap. cbn [map fst snd].
    rewrite (mmap_Uweyl K3 _ _ H). unfold emap, c1. cbn [fst snd].
    now rewrite (h1 _ _ _ Hh), (h0 _ _ _ Hh).
Qed.

Lemma nonlocal_thetavec_ne : resolve (nonlocal_basis u_from_thetavec) <> [].
Proof. intros E. apply (f_equal (@length _)) in E. vm_compute in E. discriminate. Qed.
Lemma nonlocal_thetavec_no_ou : forallb term_no_ou (resolve (nonlocal_basis u_from_thetavec)) = true.
Proof. vm_compute. reflexivity. Qed.

Theorem kak_exact : forall (a b c : R) (uenv : nat -> list (list R)),
  (forall k, wf4 (uenv k)) ->
  let C := RCoef (env3 a b c) in
  channel C uenv (resolve kak_basis)
  = mmul RRing (kron RRing (uenv 3%nat) (uenv 1%nat))
      (mmul RRing (ptm2 C [(c1 C, Uweyl C)]) (kron RRing (uenv 2%nat) (uenv 0%nat))).
Proof.
  intros a b c uenv Hu C. rewrite kak_model_is_dressing.
  unfold C. rewrite (kak_dressing _ _ _ Hu nonlocal_thetavec_ne).
  rewrite (channel_no_ou _ uenv nou _ nonlocal_thetavec_no_ou).
  now rewrite (kak_core a b c).
Qed.

(* Proofs/BasesKak.v — the KAK path: dressing every map of a basis with local operations dresses the
   decomposed channel (PTM multiplicativity), the model's in-place dressing is that dressing, and the
   nonlocal basis at u = _u_from_thetavec(a,b,c) decomposes exp(i(aXX+bYY+cZZ)). *)
From Coq Require Import String List Bool Arith QArith Reals Lra Lia.
From CKT Require Import Common.Base Common.PolyRing Common.Ptm Model.Bases Proofs.BasesP Proofs.BasesMat.
Import ListNotations.
Close Scope Q_scope.
Open Scope list_scope.
Open Scope R_scope.

(* ---------- one-qubit operation PTMs over R are 4x4 ---------- *)
Section Dress.
  Variable env : nat -> R.
  Variable uenv : nat -> list (list R).
  Hypothesis Huenv : forall k, wf4 (uenv k).
  Let C := RCoef env.

  Lemma ptm_kraus_wf4 dinv ks : wf4 (ptm_kraus C 2 dinv (paulis1 C) ks).
  Proof.
    split; [reflexivity|]. unfold ptm_kraus. apply Forall_forall. intros r Hr.
    apply in_map_iff in Hr as (Pa & <- & _). now rewrite map_length.
  Qed.
  Lemma ptm_op_wf4 o : wf4 (ptm_op C uenv o).
  Proof.
    unfold ptm_op. destruct (op_spec o) as [ks|m|k] eqn:E.
    - apply ptm_kraus_wf4.
    - destruct o as [| | | | | | | | | |a|a|a|a| | |k]; simpl in E; try discriminate;
        destruct a; simpl in E; try discriminate; inversion E; subst;
        (split; [reflexivity|repeat constructor]).
    - apply Huenv.
  Qed.
  Let step := fun (acc : list (list R)) (o : op1) => Rmmul (ptm_op C uenv o) acc.
  Lemma fold_wf4 s X : wf4 X -> wf4 (fold_left step s X).
  Proof. revert X; induction s as [|o s IH]; intros X HX; simpl; auto. apply IH, mmul_wf4; auto. apply ptm_op_wf4. Qed.
  Lemma ptm_seq_wf4 s : wf4 (ptm_seq C uenv s).
  Proof. apply fold_wf4, ident4_wf. Qed.
  Lemma fold_from s X : wf4 X -> fold_left step s X = Rmmul (fold_left step s (ident RRing 4)) X.
  Proof.
    revert X; induction s as [|o s IH]; intros X HX; cbn [fold_left].
    - now rewrite mmul_ident_l.
    - pose proof (ptm_op_wf4 o) as Ho.
      rewrite (IH (step X o)) by (apply mmul_wf4; auto).
      rewrite (IH (step (ident RRing 4) o)) by (apply mmul_wf4; auto using ident4_wf).
      unfold step. rewrite mmul_ident_r by auto.
      rewrite mmul_assoc4; auto. apply fold_wf4, ident4_wf.
  Qed.
  Lemma ptm_seq_dress pre post s :
    ptm_seq C uenv (pre :: s ++ [post])
    = Rmmul (ptm_op C uenv post) (Rmmul (ptm_seq C uenv s) (ptm_op C uenv pre)).
  Proof.
    unfold ptm_seq. cbn [fold_left]. rewrite fold_left_app. cbn [fold_left].
    change (mmul C) with Rmmul. change (ident C 4) with (ident RRing 4).
    change (fun (acc : list (list R)) (o : op1) => Rmmul (ptm_op C uenv o) acc) with step.
    f_equal. rewrite mmul_ident_r by apply ptm_op_wf4.
    apply fold_from, ptm_op_wf4.
  Qed.

  (* dressing of a plain term list, as qpdbasis_from_instruction does on the KAK path *)
  Definition dress_term (t : term) : term :=
    let '(c, s0, s1) := t in (c, OU 0 :: s0 ++ [OU 1], OU 2 :: s1 ++ [OU 3]).
  Definition dress_terms (b : list term) : list term := map dress_term b.

  Let Lm := Rkron (uenv 3) (uenv 1).
  Let Rm := Rkron (uenv 2) (uenv 0).
  Lemma term_dress t : term_ptm C uenv (dress_term t) = Rmmul Lm (Rmmul (term_ptm C uenv t) Rm).
  Proof.
    destruct t as [[c s0] s1]. unfold dress_term, term_ptm. rewrite !ptm_seq_dress.
    change (ptm_op C uenv (OU 0)) with (uenv 0). change (ptm_op C uenv (OU 1)) with (uenv 1).
    change (ptm_op C uenv (OU 2)) with (uenv 2). change (ptm_op C uenv (OU 3)) with (uenv 3).
    pose proof (ptm_seq_wf4 s0) as H0. pose proof (ptm_seq_wf4 s1) as H1.
    rewrite <- !kron_mixed4; auto using mmul_wf4.
    unfold Lm, Rm. now rewrite mmul_mscale_l, mmul_mscale_r.
  Qed.
  Lemma kak_dressing_ne b : b <> [] ->
    channel C uenv (dress_terms b) = Rmmul Lm (Rmmul (channel C uenv b) Rm).
  Proof.
    intros Hb. destruct b as [|t b]; [congruence|]. unfold channel, dress_terms.
    change (msum C) with (msum RRing).
    cbn [map]. rewrite mmul_msum_l. cbn [map]. rewrite mmul_msum_r. cbn [map].
    rewrite !map_map, term_dress. do 2 f_equal. apply map_ext. intros t'. apply term_dress.
  Qed.
End Dress.

Theorem kak_dressing : forall (env : nat -> R) (uenv : nat -> list (list R)) (b : list term),
  (forall k, wf4 (uenv k)) -> b <> [] ->
  channel (RCoef env) uenv (dress_terms b)
  = mmul RRing (kron RRing (uenv 3%nat) (uenv 1%nat))
      (mmul RRing (channel (RCoef env) uenv b) (kron RRing (uenv 2%nat) (uenv 0%nat))).
Proof. intros env uenv b Hu Hb. now apply kak_dressing_ne. Qed.

(* the in-place dressing of the heap cells (each distinct list once) is the term-wise dressing *)
Lemma kak_model_is_dressing : resolve kak_basis = dress_terms (resolve (nonlocal_basis u_from_thetavec)).
Proof. vm_compute. reflexivity. Qed.

(* bases without UnitaryGate placeholders do not depend on the environment of local PTMs *)
Definition is_ou (o : op1) : bool := match o with OU _ => true | _ => false end.
Definition term_no_ou (t : term) : bool :=
  let '(c, s0, s1) := t in negb (existsb is_ou s0) && negb (existsb is_ou s1).
Lemma ptm_op_no_ou {A} (C : Coef A) u1 u2 o : is_ou o = false -> ptm_op C u1 o = ptm_op C u2 o.
Proof.
  destruct o as [| | | | | | | | | |a|a|a|a| | |k]; intros H; try discriminate; try reflexivity;
    destruct a; reflexivity.
Qed.
Lemma ptm_seq_no_ou {A} (C : Coef A) u1 u2 s : existsb is_ou s = false -> ptm_seq C u1 s = ptm_seq C u2 s.
Proof.
  unfold ptm_seq. generalize (ident C 4). induction s as [|o s IH]; intros M H; [reflexivity|].
  cbn [existsb] in H. apply orb_false_elim in H as [H1 H2]. cbn [fold_left].
  now rewrite (ptm_op_no_ou C u1 u2 o H1), IH.
Qed.
Lemma channel_no_ou {A} (C : Coef A) u1 u2 b :
  forallb term_no_ou b = true -> channel C u1 b = channel C u2 b.
Proof.
  intros H. unfold channel. f_equal. apply map_ext_in. intros [[c s0] s1] HIn.
  rewrite forallb_forall in H. specialize (H _ HIn). unfold term_no_ou in H.
  apply andb_prop in H as [H0 H1]. apply negb_true_iff in H0, H1.
  unfold term_ptm. now rewrite (ptm_seq_no_ou C u1 u2 s0 H0), (ptm_seq_no_ou C u1 u2 s1 H1).
Qed.

(* ---------- substitution of expressions for the named quantities ---------- *)
Fixpoint csubst (sg : nat -> cexpr) (e : cexpr) : cexpr :=
  match e with
  | CQ q => CQ q
  | CV n => sg n
  | CAdd a b => CAdd (csubst sg a) (csubst sg b)
  | CMul a b => CMul (csubst sg a) (csubst sg b)
  | COpp a => COpp (csubst sg a)
  end.
Definition env_subst (env : nat -> R) (sg : nat -> cexpr) : nat -> R := fun n => ceval (RCoef env) (sg n).
Lemma ceval_csubst env sg e : ceval (RCoef env) (csubst sg e) = ceval (RCoef (env_subst env sg)) e.
Proof. induction e as [q|n|a IHa b IHb|a IHa b IHb|a IHa]; simpl; try reflexivity; congruence. Qed.

(* expressions over the quantities 0..2 only (all operation specifications are) *)
Fixpoint cvars_ok (e : cexpr) : bool :=
  match e with
  | CQ _ => true
  | CV n => Nat.leb n 2
  | CAdd a b | CMul a b => cvars_ok a && cvars_ok b
  | COpp a => cvars_ok a
  end.
Definition cx_ok (z : cxe) : bool := cvars_ok (fst z) && cvars_ok (snd z).
Definition spec_ok (sp : opspec) : bool :=
  match sp with
  | SKraus ks => forallb (fun wk => cx_ok (fst wk) && forallb (forallb cx_ok) (snd wk)) ks
  | SDirect m => forallb (forallb cvars_ok) m
  | SEnv _ => true
  end.
Lemma op_spec_ok o : spec_ok (op_spec o) = true.
Proof. destruct o as [| | | | | | | | | |a|a|a|a| | |k]; try reflexivity; destruct a; reflexivity. Qed.

Section EnvExt.
  Variables env env' : nat -> R.
  Hypothesis Hagree : forall n, (n <= 2)%nat -> env n = env' n.
  Lemma ceval_env_ext e : cvars_ok e = true -> ceval (RCoef env) e = ceval (RCoef env') e.
  Proof.
    induction e as [q|n|a IHa b IHb|a IHa b IHb|a IHa]; simpl; intros H; try reflexivity.
    - apply Hagree. now apply Nat.leb_le.
    - apply andb_prop in H as [H1 H2]. now rewrite IHa, IHb.
    - apply andb_prop in H as [H1 H2]. now rewrite IHa, IHb.
    - now rewrite IHa.
  Qed.
  Lemma cxeval_env_ext z : cx_ok z = true -> cxeval (RCoef env) z = cxeval (RCoef env') z.
  Proof. intros H. apply andb_prop in H as [H1 H2]. unfold cxeval. now rewrite !ceval_env_ext. Qed.
  Lemma ptm_ring_only n dinv P (ks : kraus (A:=R)) :
    ptm_kraus (RCoef env) n dinv P ks = ptm_kraus (RCoef env') n dinv P ks.
  Proof. reflexivity. Qed.
  Lemma ptm_op_env_ext u o : ptm_op (RCoef env) u o = ptm_op (RCoef env') u o.
  Proof.
    unfold ptm_op. pose proof (op_spec_ok o) as Hok. destruct (op_spec o) as [ks|m|k]; simpl in Hok.
    - unfold ptm1. change (paulis1 (RCoef env)) with (paulis1 (RCoef env')).
      change (cofQ (RCoef env) (1 # 2)) with (cofQ (RCoef env') (1 # 2)).
      rewrite ptm_ring_only. f_equal.
      unfold kreval. apply map_ext_in. intros [w M] HIn. rewrite forallb_forall in Hok.
      specialize (Hok _ HIn). simpl in Hok. apply andb_prop in Hok as [Hw HM]. simpl. f_equal.
      + now apply cxeval_env_ext.
      + unfold cmeval, mmap. apply map_ext_in. intros row Hrow. rewrite forallb_forall in HM.
        specialize (HM _ Hrow). apply map_ext_in. intros z Hz. rewrite forallb_forall in HM.
        now apply cxeval_env_ext, HM.
    - unfold mmap. apply map_ext_in. intros row Hrow. rewrite forallb_forall in Hok.
      specialize (Hok _ Hrow). apply map_ext_in. intros e He. rewrite forallb_forall in Hok.
      now apply ceval_env_ext, Hok.
    - reflexivity.
  Qed.
  Lemma ptm_seq_env_ext u sq : ptm_seq (RCoef env) u sq = ptm_seq (RCoef env') u sq.
  Proof.
    unfold ptm_seq. change (ident (RCoef env) 4) with (ident (RCoef env') 4).
    generalize (ident (RCoef env') 4). induction sq as [|o sq IH]; intros M; [reflexivity|].
    cbn [fold_left]. rewrite ptm_op_env_ext. apply IH.
  Qed.
End EnvExt.

Definition subst_term (sg : nat -> cexpr) (t : term) : term := (csubst sg (fst (fst t)), snd (fst t), snd t).
Lemma channel_subst env sg u b :
  (forall n, (n <= 2)%nat -> sg n = CV n) ->
  channel (RCoef env) u (map (subst_term sg) b) = channel (RCoef (env_subst env sg)) u b.
Proof.
  intros Hsg. unfold channel. rewrite map_map. f_equal. apply map_ext. intros [[c s0] s1].
  unfold subst_term, term_ptm; cbn [fst snd]. rewrite ceval_csubst.
  assert (Hag : forall n, (n <= 2)%nat -> env n = env_subst env sg n).
  { intros n Hn. unfold env_subst. now rewrite (Hsg n Hn). }
  now rewrite (ptm_seq_env_ext _ _ Hag u s0), (ptm_seq_env_ext _ _ Hag u s1).
Qed.

(* the 58-term theorem for any environment that gives r its value and is zero outside u's components *)
Lemma nonlocal_exact_env (env : nat -> R) :
  env 2%nat = / sqrt 2 ->
  (forall n, n <> 2%nat -> ~ (10 <= n <= 17)%nat -> env n = 0) ->
  channel (RCoef env) nou (resolve (nonlocal_basis uvars)) = ptm_unitary2 (RCoef env) (A_of_u uvars).
Proof.
  intros Hr Hz.
  assert (H : CoefHomR KU (evalU (env 10%nat) (env 11%nat) (env 12%nat) (env 13%nat) (env 14%nat) (env 15%nat) (env 16%nat) (env 17%nat)) env).
  { eapply CoefHomR_ext; [|apply KU_hom]. intros n.
    do 18 (destruct n as [|n]; [cbn; first [reflexivity | symmetry; assumption | symmetry; apply Hz; lia]|]).
    cbn. symmetry. apply Hz; lia. }
  exact (reflect_channel KU _ _ H nou _ [(z1, A_of_u uvars)] nonlocal_keq).
Qed.

(* u := _u_from_thetavec as a substitution for the quantities 10..17 *)
Definition sg_theta (n : nat) : cexpr :=
  match n with
  | 2 => CV 2
  | 10 => fst (nth 0 u_from_thetavec z0) | 11 => snd (nth 0 u_from_thetavec z0)
  | 12 => fst (nth 1 u_from_thetavec z0) | 13 => snd (nth 1 u_from_thetavec z0)
  | 14 => fst (nth 2 u_from_thetavec z0) | 15 => snd (nth 2 u_from_thetavec z0)
  | 16 => fst (nth 3 u_from_thetavec z0) | 17 => snd (nth 3 u_from_thetavec z0)
  | 0 => CV 0 | 1 => CV 1
  | _ => CQ 0
  end.
Lemma nonlocal_theta_subst :
  resolve (nonlocal_basis u_from_thetavec) = map (subst_term sg_theta) (resolve (nonlocal_basis uvars)).
Proof. vm_compute. reflexivity. Qed.
Lemma A_theta_subst :
  A_of_u u_from_thetavec = mmap (fun z => (csubst sg_theta (fst z), csubst sg_theta (snd z))) (A_of_u uvars).
Proof. vm_compute. reflexivity. Qed.

(* the nonlocal basis at u = _u_from_thetavec decomposes the canonical gate, for all Weyl coordinates *)
Lemma kak_core : forall a b c : R,
  let C := RCoef (env3 a b c) in
  channel C nou (resolve (nonlocal_basis u_from_thetavec)) = ptm2 C [(c1 C, Uweyl C)].
Proof.
  intros a b c C. unfold C. rewrite nonlocal_theta_subst.
  rewrite channel_subst by (intros [|[|[|n]]] Hn; try reflexivity; lia).
  set (env' := env_subst (env3 a b c) sg_theta).
  rewrite (nonlocal_exact_env env').
  - unfold ptm_unitary2, ptm2. rewrite <- (thetavec_exact a b c), A_theta_subst.
    change (paulis2 (RCoef env')) with (paulis2 (RCoef (env3 a b c))).
    change (cofQ (RCoef env') (1 # 4)) with (cofQ (RCoef (env3 a b c)) (1 # 4)).
    rewrite (ptm_ring_only env' (env3 a b c)). f_equal.
    unfold kreval. cbn [map fst snd].
    assert (E1 : cxeval (RCoef env') z1 = c1 (RCoef (env3 a b c))).
    { unfold cxeval, c1. cbn. destruct Q2R_consts as (q0 & q1 & _). now rewrite q0, q1. }
    assert (E2 : cmeval (RCoef env') (A_of_u uvars)
                 = cmeval (RCoef (env3 a b c))
                     (mmap (fun z => (csubst sg_theta (fst z), csubst sg_theta (snd z))) (A_of_u uvars))).
    { unfold cmeval, mmap. rewrite map_map. apply map_ext. intros row. rewrite map_map. apply map_ext.
      intros z. unfold cxeval; cbn [fst snd]. now rewrite !ceval_csubst. }
    now rewrite E1, E2.
  - reflexivity.
  - intros n Hn2 Hn. unfold env', env_subst.
    do 18 (destruct n as [|n]; [first [lia | cbn; unfold zenv, Q2R; simpl; lra]|]).
    cbn. unfold Q2R; simpl; lra.
Qed.

Lemma nonlocal_thetavec_ne : resolve (nonlocal_basis u_from_thetavec) <> [].
Proof. intros E. apply (f_equal (@length _)) in E. vm_compute in E. discriminate. Qed.
Lemma nonlocal_thetavec_no_ou : forallb term_no_ou (resolve (nonlocal_basis u_from_thetavec)) = true.
Proof. vm_compute. reflexivity. Qed.

Theorem kak_exact : forall (a b c : R) (uenv : nat -> list (list R)),
  (forall k, wf4 (uenv k)) ->
  let C := RCoef (env3 a b c) in
  channel C uenv (resolve kak_basis)
  = mmul RRing (kron RRing (uenv 3%nat) (uenv 1%nat))
      (mmul RRing (ptm2 C [(c1 C, Uweyl C)]) (kron RRing (uenv 2%nat) (uenv 0%nat))).
Proof.
  intros a b c uenv Hu C. rewrite kak_model_is_dressing.
  unfold C. rewrite (kak_dressing _ _ _ Hu nonlocal_thetavec_ne).
  rewrite (channel_no_ou _ uenv nou _ nonlocal_thetavec_no_ou).
  now rewrite (kak_core a b c).
Qed.

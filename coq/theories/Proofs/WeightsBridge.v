(* Proofs/WeightsBridge.v — one draw: what `populate` returns and with which probability, against `ecount`.
   With num_desired = 1 the sampler asks the oracle once per level; the answers ARE the returned key (count 1), and the
   product of the probabilities it passed to the oracle at the answered indices is ecount of that key.  Hence, under
   O-choice, E[count of ids] = P(answers = ids) = ecount ids 1. *)
From Coq Require Import QArith Lia ZifyBool Lqa.
From CKT Require Import Common.Base Extracted.Facts Model.Weights.
From CKT Require Import Proofs.WeightsP Proofs.WeightsDfs Proofs.WeightsGen Proofs.WeightsTab Proofs.WeightsTotal.
Open Scope Q_scope.

(* probability of the answer sequence ids given the logged calls (each call: one draw from p) *)
Fixpoint logprob (lg : calllog) (ids : key) : Q :=
  match lg, ids with
  | (_, p) :: lg', i :: ids' => nth i p 0 * logprob lg' ids'
  | _, _ => 1
  end.

Lemma draw_one p tape xs t : draw p 1 tape = Some (xs, t) -> exists x, xs = [x] /\ tape = x :: t.
Proof.
  simpl. destruct tape as [|x tp]; [discriminate|].
  destruct (Nat.ltb x (length p) && negb (Qeq_bool (nth x p 0) 0)); [|discriminate].
  intros [= <- <-]. eauto.
Qed.

Lemma take_cols_one : forall ps tape cols t lg, take_cols ps 1 tape = Some (cols, t, lg) ->
  exists c, tape = c ++ t /\ cols = map (fun x => [x]) c /\ length c = length ps /\ lg = map (fun p => (1%nat, p)) ps.
Proof.
  induction ps as [|p ps IH]; intros tape cols t lg H; cbn [take_cols] in H.
  - inversion H; subst. exists []. auto.
  - destruct (draw p 1 tape) as [[c0 t1]|] eqn:D; [|discriminate].
    destruct (take_cols ps 1 t1) as [[[cs t2] lg2]|] eqn:T; [|discriminate]. inversion H; subst.
    destruct (draw_one _ _ _ _ D) as [x [-> ->]]. destruct (IH _ _ _ _ T) as [c [-> [-> [L ->]]]].
    exists (x :: c). simpl. repeat split; auto.
Qed.

Lemma logprob_indep ps : forall c, logprob (map (fun p => (1%nat, p)) ps) c == jointp ps c.
Proof.
  induction ps as [|p ps IH]; intros [|i c]; simpl; try reflexivity. now rewrite IH.
Qed.

Lemma ecount_cons_some cond indep rest' rs nd i ids' v : dget cond rs = Some v ->
  ecount (indep :: rest') cond rs nd (i :: ids') = ecount rest' cond (rs ++ [i]) (nd * nth i v 0) ids'.
Proof. intros G. simpl. now rewrite G. Qed.

Lemma ecount_none cond rest rs nd ids : dget cond rs = None -> ecount rest cond rs nd ids = nd * jointp rest ids.
Proof. intros G. destruct rest; simpl; now rewrite G. Qed.

Section OneDraw.
Variable probs : list (list Q).
Variable cond : list (key * list Q).
Hypothesis Hfull : forall st v, dget cond st = Some v -> (length st < length probs)%nat.

Theorem populate_one_draw : forall rest done rs tape s t lg,
  probs = done ++ rest -> length done = length rs -> rest <> [] ->
  populate rest cond rs 1 tape = Some (s, t, lg) ->
  exists c, tape = c ++ t /\ length c = length rest /\ s = [(rs ++ c, 1%nat)] /\
            length lg = length rest /\ Forall (fun e => fst e = 1%nat) lg /\
            logprob lg c == ecount rest cond rs 1 c.
Proof.
  induction rest as [|indep rest' IH]; intros done rs tape s t lg E L Ne H; [contradiction|].
  cbn [populate] in H. destruct (dget cond rs) as [v|] eqn:G.
  - destruct (draw v 1 tape) as [[outs t1]|] eqn:D; [|discriminate].
    destruct (draw_one _ _ _ _ D) as [o [-> ->]].
    change (counter Nat.eqb [o]) with [(o, 1%nat)] in H.
    destruct rest' as [|i2 rest''].
    + (* the new outcome is a full state *)
      cbn [pop_loop] in H. injection H as <- <- <-.
      exists [o]. split; [reflexivity|]. split; [reflexivity|]. split; [reflexivity|]. split; [reflexivity|].
      split; [repeat constructor|].
      cbn [logprob ecount]. rewrite G. cbn [ecount].
        destruct (dget cond (rs ++ [o])) as [u|] eqn:Gu.
      { apply Hfull in Gu. rewrite E, !app_length in Gu. simpl in Gu. lia. }
      simpl. ring.
    + cbn [pop_loop] in H.
      destruct (populate (i2 :: rest'') cond (rs ++ [o]) 1 t1) as [[[s1 t2] lg1]|] eqn:R1; [|discriminate].
      injection H as <- <- <-.
      destruct (IH (done ++ [indep]) (rs ++ [o]) t1 s1 t2 lg1) as [c' [Et [Lc [Es [Ll [Fl Pl]]]]]]; auto.
      * now rewrite <- app_assoc.
      * rewrite !app_length. simpl. lia.
      * discriminate.
      * exists (o :: c'). subst t1 s1. rewrite !app_nil_r, <- app_assoc.
        split; [reflexivity|]. split; [simpl in *; lia|]. split; [reflexivity|].
        split; [simpl in *; lia|]. split; [constructor; auto|].
        cbn [logprob]. rewrite Pl. rewrite (ecount_cons_some cond indep (i2 :: rest'') rs 1 o c' v G).
        rewrite (ecount_lin cond (i2 :: rest'') (rs ++ [o]) (1 * nth o v 0)). ring.
  - destruct (take_cols (indep :: rest') 1 tape) as [[[cols t1] lg1]|] eqn:T; [|discriminate].
    injection H as <- <- <-.
    destruct (take_cols_one _ _ _ _ _ T) as [c [-> [-> [Lc ->]]]].
    exists c. split; auto. split; auto.
    assert (rows 1 (map (fun x => [x]) c) = [c]) as ->.
    { unfold rows. destruct c as [|x c']; [discriminate|]. cbn [map seq]. f_equal.
      rewrite map_map. simpl. now rewrite map_id. }
    split; [reflexivity|]. split; [now rewrite map_length|]. split.
    + rewrite Forall_forall. intros e I. apply in_map_iff in I. destruct I as [p [<- _]]. reflexivity.
    + rewrite logprob_indep. rewrite (ecount_none cond _ rs 1 c G). ring.
Qed.
End OneDraw.

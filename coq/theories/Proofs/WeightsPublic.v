(* Proofs/WeightsPublic.v — the public wrapper generate_qpd_weights: probabilities from the coefficients, final sort. *)
From Coq Require Import QArith Qabs Lia ZifyBool Lqa Permutation Sorted.
From CKT Require Import Common.Base Extracted.Facts Model.Weights.
From CKT Require Import Proofs.WeightsP Proofs.WeightsDfs Proofs.WeightsGen Proofs.WeightsTab Proofs.WeightsSum
                        Proofs.WeightsCount Proofs.WeightsSort.
Open Scope Q_scope.

Lemma qsum_abs_nonneg l : 0 <= qsum (map Qabs l).
Proof. induction l as [|c l IH]; simpl; [lra|]. pose proof (Qabs_nonneg c). lra. Qed.

Lemma qsum_div l k : qsum (map (fun x => x / k) l) == qsum l / k.
Proof. induction l as [|a l IH]; simpl; [unfold Qdiv; ring|]. rewrite IH. unfold Qdiv. ring. Qed.

(* kappa <> 0 : the basis has a non-zero coefficient *)
Lemma basis_probs_valid coeffs : ~ qsum (map Qabs coeffs) == 0 ->
  Forall (fun x => 0 <= x) (basis_probs coeffs) /\ qsum (basis_probs coeffs) == 1.
Proof.
  intros Nz. unfold basis_probs. pose proof (qsum_abs_nonneg coeffs) as K0.
  set (k := qsum (map Qabs coeffs)) in *. assert (0 < k) as Kp by (destruct (Qlt_le_dec 0 k); auto; exfalso; apply Nz; lra).
  split.
  - rewrite Forall_forall. intros x I. apply in_map_iff in I. destruct I as [c [<- _]].
    pose proof (Qabs_nonneg c). apply Qle_shift_div_l; lra.
  - rewrite <- (map_map Qabs (fun a => a / k)), qsum_div. fold k. field. lra.
Qed.

Lemma bases_valid bases : Forall (fun c => ~ qsum (map Qabs c) == 0) bases -> valid (map basis_probs bases).
Proof.
  intros H. unfold valid. rewrite Forall_forall. intros v I. apply in_map_iff in I. destruct I as [c [<- Ic]].
  rewrite Forall_forall in H. now apply basis_probs_valid, H.
Qed.

Lemma wsum_perm (a b : wdict) : Permutation a b -> wsum a == wsum b.
Proof. intros P. unfold wsum. apply qsum_perm. now apply Permutation_map. Qed.

(* what the public function returns is the core's dictionary, rearranged: every statement about lookups, the sum of
   the weights and the number of entries transfers *)
Theorem public_wrapper bases perms N tape r :
  Forall (fun c => ~ qsum (map Qabs c) == 0) bases ->
  generate_qpd_weights bases perms N tape = Some (Ok r) ->
  valid (map basis_probs bases) /\
  exists r0, gen_weights (map basis_probs bases) perms N tape = Some (Ok r0) /\ r = final_sort r0 /\
    Permutation r r0 /\ StronglySorted sle r /\ NoDup (map fst r0) /\
    (forall k, dget r k = dget r0 k) /\ wsum r == wsum r0 /\ length r = length r0.
Proof.
  intros Hk G. split; [now apply bases_valid|].
  unfold generate_qpd_weights in G.
  destruct (gen_weights (map basis_probs bases) perms N tape) as [[r0| |]|] eqn:E; try discriminate.
  simpl in G. inversion G; subst r. exists r0.
  pose proof (result_nodup _ _ _ _ _ E) as ND. pose proof (final_sort_perm r0) as P.
  repeat split; auto.
  - apply final_sort_sorted.
  - intros k. now apply final_sort_dget.
  - now apply wsum_perm.
  - now apply Permutation_length.
Qed.

Theorem public_refuses bases perms tape N :
  (N = NaN \/ N = NInf \/ exists q, N = Fin q /\ q < 1) -> generate_qpd_weights bases perms N tape = Some Refused.
Proof. intros H. unfold generate_qpd_weights. now rewrite (gen_refuses _ perms tape N H). Qed.

(* Proofs/ReconstructGroupingP.v — bridge between C11's model of ObservableCollection
   (Model/Grouping.v, Proofs/GroupingP.v) and the C06 reconstruction model. *)
From Coq Require Import QArith Ascii String Lia ZifyBool.
From CKT Require Import Common.Base Model.Observables Model.Grouping Proofs.GroupingP
                        Model.Reconstruct Proofs.ReconstructP Model.ReconstructExt Proofs.ReconstructExtP
                        Model.ReconstructGrouping.
Close Scope Q_scope.
Open Scope nat_scope.

Lemma indices_from_bridge l : forall i, pauli_indices_from i l = nonid_from i l.
Proof. induction l as [|x r IH]; intros i; cbn; [reflexivity|]. rewrite IH. reflexivity. Qed.

Lemma indices_bridge l : pauli_indices_of l = nonid_positions l.
Proof. apply indices_from_bridge. Qed.

(* a mask with C11's bit specification is the C06 mask *)
Lemma mask_bridge idx lets v :
  (forall i, N.testbit v (N.of_nat i) = true <-> i < length idx /\ nth (nth i idx 0) lets 0 <> 0) ->
  v = bitmask_of idx lets.
Proof.
  intros S. apply N.bits_inj. intros n. rewrite <- (N2Nat.id n).
  fold (bit (bitmask_of idx lets) (N.to_nat n)). rewrite bitmask_of_bit.
  specialize (S (N.to_nat n)). unfold acts_on.
  destruct (N.testbit v (N.of_nat (N.to_nat n))) eqn:E.
  - destruct (proj1 S eq_refl) as [A B]. symmetry. apply andb_true_intro. split.
    + apply Nat.ltb_lt, A.
    + apply negb_true_iff, Nat.eqb_neq, B.
  - symmetry. apply not_true_is_false. intros H. apply andb_prop in H as [A B].
    apply Nat.ltb_lt in A. apply negb_true_iff, Nat.eqb_neq in B.
    assert (T : false = true) by (apply S; split; assumption). discriminate.
Qed.

(* CommutingObservableGroup.__post_init__ as C11 models it computes the C06 cog *)
Lemma post_init_bridge g members idx masks :
  cog_post_init g members = Ok (idx, masks) ->
  (length idx, masks) = cog_of_letters (plets g, map plets members) /\
  forall m, In m members -> pphase m = 0.
Proof.
  intros H. pose proof (cog_post_init_spec _ _ _ _ H) as (_ & _ & _ & L & S).
  assert (I : idx = pauli_indices_of (plets g)).
  { unfold cog_post_init in H. destruct (masks_loop _ members); cbn in H; try discriminate.
    inversion H. symmetry. apply indices_bridge. }
  split.
  - unfold cog_of_letters. cbn [fst snd]. rewrite <- I. f_equal.
    apply (nth_ext _ _ 0%N 0%N); [rewrite !map_length; exact L|].
    intros j Hj. rewrite L in Hj.
    destruct (nth_error members j) as [m|] eqn:Em; [|apply nth_error_None in Em; lia].
    destruct (S j m Em) as [_ [v [Hv [_ Sv]]]].
    rewrite (nth_error_nth _ _ _ Hv), map_map.
    rewrite (nth_map_lt (fun x => bitmask_of idx (plets x)) members j m) by exact Hj.
    rewrite (nth_error_nth _ _ _ Em). apply mask_bridge, Sv.
  - intros m Hm. apply In_nth_error in Hm as [j Hj]. exact (proj1 (S j m Hj)).
Qed.

(* ---- lookup ---- *)
Lemma list_beq_nat_sym a : forall b, list_beq Nat.eqb a b = list_beq Nat.eqb b a.
Proof.
  induction a as [|x r IH]; intros [|y s]; cbn; try reflexivity. rewrite IH, Nat.eqb_sym. reflexivity.
Qed.

Lemma pauli_beq_sym a b : pauli_beq a b = pauli_beq b a.
Proof. unfold pauli_beq. rewrite Nat.eqb_sym, list_beq_nat_sym. reflexivity. Qed.

Lemma lookup_get_add p q ij : forall l,
  lookup_get p (lookup_add q ij l) = lookup_get p l ++ (if pauli_beq p q then [ij] else []).
Proof.
  induction l as [|[p' locs] r IH].
  - unfold lookup_get. cbn [lookup_add lookup_find]. destruct (pauli_beq p q); reflexivity.
  - cbn [lookup_add]. destruct (pauli_beq q p') eqn:E.
    + apply pauli_beq_eq in E. subst p'. unfold lookup_get. cbn [lookup_find].
      destruct (pauli_beq p q); [reflexivity|]. rewrite app_nil_r. reflexivity.
    + unfold lookup_get in *. cbn [lookup_find]. destruct (pauli_beq p p') eqn:E2.
      * apply pauli_beq_eq in E2. subst p'. rewrite pauli_beq_sym, E, app_nil_r. reflexivity.
      * exact IH.
Qed.

Lemma lookup_get_group p i : forall members j l,
  (forall m, In m members -> pphase m = pphase p) ->
  lookup_get p (lookup_group i j members l)
  = lookup_get p l ++ lookup_in_group i j (map plets members) (plets p).
Proof.
  induction members as [|m r IH]; intros j l H; cbn [lookup_group map lookup_in_group].
  - rewrite app_nil_r. reflexivity.
  - rewrite IH by (intros x Hx; apply H; right; exact Hx). rewrite lookup_get_add, <- app_assoc. f_equal.
    assert (E : pauli_beq p m = letters_eqb (plets m) (plets p)).
    { unfold pauli_beq, letters_eqb. rewrite (H m (or_introl eq_refl)), Nat.eqb_refl. cbn [andb].
      apply list_beq_nat_sym. }
    rewrite E. destruct (letters_eqb (plets m) (plets p)); reflexivity.
Qed.

Lemma lookup_get_groups p : forall cogs i l,
  (forall c m, In c cogs -> In m (cg_members c) -> pphase m = pphase p) ->
  lookup_get p (lookup_groups i cogs l)
  = lookup_get p l ++ lookup_from i (map lgroup_of_c11 cogs) (plets p).
Proof.
  induction cogs as [|c r IH]; intros i l H; cbn [lookup_groups map lookup_from].
  - rewrite app_nil_r. reflexivity.
  - rewrite IH by (intros c' m Hc Hm; apply (H c' m); [right; exact Hc|exact Hm]).
    rewrite lookup_get_group by (intros m Hm; apply (H c m); [left; reflexivity|exact Hm]).
    rewrite <- app_assoc. reflexivity.
Qed.

Lemma collection_lookup obs o cogs lk :
  collection obs o = Ok (cogs, lk) -> lk = lookup_groups 0 cogs [].
Proof.
  unfold collection. destruct obs; [discriminate|].
  destruct (generals_loop (o_groups o)); cbn; try discriminate.
  destruct (cogs_loop _ (o_groups o)); cbn; try discriminate.
  intros H; inversion H. reflexivity.
Qed.

(* THE BRIDGE: reading groups / masks / lookup off C11's model of ObservableCollection gives
   exactly the partition the C06 model builds from the Pauli letters *)
Lemma collection_bridge label subobs o cogs lk :
  collection subobs o = Ok (cogs, lk) ->
  (forall p, In p subobs -> pphase p = 0) ->
  part_of_collection label subobs (cogs, lk)
  = part_of_letters label (map pphase subobs) (map lgroup_of_c11 cogs) (map plets subobs).
Proof.
  intros H PH. pose proof (collection_spec _ _ _ _ H) as (_ & _ & B & _).
  assert (PI : forall c, In c cogs ->
             cog_of_c11 c = cog_of_letters (lgroup_of_c11 c) /\ forall m, In m (cg_members c) -> pphase m = 0).
  { intros c Hc. apply In_nth_error in Hc as [i Hi]. destruct (B i c Hi) as [_ P].
    apply post_init_bridge in P. exact P. }
  unfold part_of_collection, part_of_letters. cbn [fst snd]. f_equal.
  - rewrite map_map. apply map_ext_in. intros c Hc. apply (PI c Hc).
  - rewrite map_map. apply map_ext_in. intros p Hp.
    rewrite (collection_lookup _ _ _ _ H). unfold lookup_of.
    rewrite lookup_get_groups.
    + reflexivity.
    + intros c m Hc Hm. rewrite (PH p Hp). apply (proj2 (PI c Hc) m Hm).
Qed.

(* hence the shape hypotheses of the estimator theorem hold for every collection C11's model builds *)
Lemma collection_shape label subobs o cogs lk :
  collection subobs o = Ok (cogs, lk) ->
  (forall p, In p subobs -> pphase p = 0) ->
  length (plookup (part_of_collection label subobs (cogs, lk))) = length subobs /\
  locs_ok (part_of_collection label subobs (cogs, lk)).
Proof.
  intros H PH. rewrite (collection_bridge label _ _ _ _ H PH).
  destruct (part_of_letters_ok label (map pphase subobs) (map lgroup_of_c11 cogs) (map plets subobs)) as [A B].
  split; [rewrite A; apply map_length|exact B].
Qed.

(* under C11's grouping contract no lookup list is empty (no 0/0 mean) *)
Lemma collection_lookup_nonempty label subobs o cogs lk :
  collection subobs o = Ok (cogs, lk) -> grouping_contract subobs o = true ->
  forall locs, In locs (plookup (part_of_collection label subobs (cogs, lk))) -> locs <> [].
Proof.
  intros H K locs HL. cbn [part_of_collection plookup snd] in HL.
  apply in_map_iff in HL as [p [<- Hp]].
  destruct (collection_cover _ _ _ _ H K p Hp) as [l [F [NE _]]].
  unfold lookup_get. rewrite F. exact NE.
Qed.

Lemma part_from_collection_shape nobs p : part_from_collection nobs p ->
  length (plookup p) = nobs /\ locs_ok_ne p /\ forall x, In x (pphases p) -> x = 0.
Proof.
  intros (label & subobs & o & [cogs lk] & H & K & PH & L & ->).
  destruct (collection_shape label subobs o cogs lk H PH) as [A B].
  split; [rewrite A; exact L|]. split; [split; [exact B|apply (collection_lookup_nonempty label subobs o cogs lk H K)]|].
  intros x Hx. cbn [part_of_collection pphases] in Hx. apply in_map_iff in Hx as [q [<- Hq]]. apply PH, Hq.
Qed.

(* END TO END: masks / measured qubits / lookup produced by the grouping code (C11's model, oracle answer
   satisfying the grouping contract), keys read by the executable parser: only the count and "every key
   is accepted" remain as hypotheses *)
Lemma estimator_grouping nobs coeffs pds :
  (forall pd, In pd pds -> from_collection nobs pd) ->
  (forall pd, In pd pds -> data_len (snd pd) = length coeffs * length (pgroups (fst pd))) ->
  (forall pd k, In pd pds -> In k (keys_of (snd pd)) -> outcome_to_int pyint0_ref k <> None) ->
  res_Qeq (reconstruct_parts pyint0_ref nobs coeffs pds)
          (Ok (map (estimator ref_den coeffs pds) (seq 0 nobs))).
Proof.
  intros FC C K. apply estimator_parser; [exact C| |exact K].
  intros pd Hpd. destruct (part_from_collection_shape nobs (fst pd) (FC pd Hpd)) as [A [[B _] _]]. split; assumption.
Qed.

Lemma v1_v2_estimator_grouping nobs coeffs pds :
  (forall pd, In pd pds -> from_collection nobs pd) ->
  (forall pd, In pd pds -> data_len (snd pd) = length coeffs * length (pgroups (fst pd))) ->
  (forall pd k, In pd pds -> In k (keys_of (snd pd)) -> outcome_to_int pyint0_ref k <> None) ->
  (forall pd, In pd pds -> obs_in_range (fst pd) (snd pd)) ->
  let twin := map (fun pd => merge_pd pyint0_ref (fst pd, pack (fst pd) (snd pd))) pds in
  res_Qeq (reconstruct_parts pyint0_ref nobs coeffs twin) (reconstruct_parts pyint0_ref nobs coeffs pds) /\
  (forall pd, In pd twin -> dict_shaped (snd pd) /\ exists q, snd pd = DV1 q) /\
  res_Qeq (reconstruct_parts pyint0_ref nobs coeffs pds)
          (Ok (map (estimator ref_den coeffs pds) (seq 0 nobs))).
Proof.
  intros FC C K R twin.
  assert (S : forall pd, In pd pds -> length (plookup (fst pd)) = nobs /\ locs_ok (fst pd)).
  { intros pd Hpd. destruct (part_from_collection_shape nobs (fst pd) (FC pd Hpd)) as [A [[B _] _]]. split; assumption. }
  destruct (v1_v2_dict pyint0_ref nobs coeffs pds C S K R) as [A B].
  split; [exact A|]. split; [exact B|]. apply estimator_grouping; assumption.
Qed.

(* the PUBLIC function on partitions built by the grouping code, executable parser *)
Lemma public_estimator_grouping m coeffs p0 ps :
  (forall l, In l (map plabel (p0 :: ps)) <-> In l (map fst m)) ->
  (forall p, In p (p0 :: ps) -> part_from_collection (length (plookup p0)) p) ->
  (forall p d, In p (p0 :: ps) -> assoc m (plabel p) = Some d ->
     data_len d = length coeffs * length (pgroups p) /\
     forall k, In k (keys_of d) -> outcome_to_int pyint0_ref k <> None) ->
  exists pds, map fst pds = p0 :: ps /\
    (forall pd, In pd pds -> assoc m (plabel (fst pd)) = Some (snd pd)) /\
    res_Qeq (reconstruct pyint0_ref (RMap m) coeffs (OMap (p0 :: ps)))
            (Ok (map (estimator ref_den coeffs pds) (seq 0 (length (plookup p0))))).
Proof.
  intros K FC DA. apply public_estimator; [exact K| | |].
  - intros p x Hp Hx. destruct (part_from_collection_shape _ p (FC p Hp)) as [_ [_ PH]]. apply PH, Hx.
  - intros p Hp. destruct (part_from_collection_shape _ p (FC p Hp)) as [A [[B _] _]]. split; assumption.
  - intros p d Hp Hd. destruct (DA p d Hp Hd) as [A B]. split; [exact A|].
    intros k Hk. apply ref_den_ok, B, Hk.
Qed.

(* Proofs/HeapP.v — lemmas about Model/Heap.v (property C16).
   Part 0: heap basics, soundness of the computed reachability.
   Part A: frame logic  (which OLD addresses a transformer may write)      -> frame / in-place theorems, every mode.
   Part B: clean-set logic (ghost set C of new objects that reference only C) -> freshness theorem, mode Repaired. *)
From Coq Require Import QArith Lia.
From CKT Require Import Common.Base Model.Heap.
Close Scope Q_scope.

(* ------------------------------------------------------------------ Part 0 *)
Lemma get_app_old (h : heap) l a : a < length h -> get (h ++ l) a = get h a.
Proof. intros H. unfold get. now rewrite app_nth1. Qed.

Lemma get_app_new (h : heap) o : get (h ++ [o]) (length h) = o.
Proof. unfold get. rewrite app_nth2 by lia. now rewrite Nat.sub_diag. Qed.

Lemma get_upd_same (h : heap) a o : a < length h -> get (upd h a o) a = o.
Proof. intros H. unfold get. now apply nth_upd_same. Qed.

Lemma get_upd_other (h : heap) a b o : a <> b -> get (upd h a o) b = get h b.
Proof. intros H. unfold get. now apply nth_upd_other. Qed.

Lemma get_dangling (h : heap) a : length h <= a -> get h a = ONull.
Proof. intros H. unfold get. now apply nth_overflow. Qed.

Lemma upd_dangling {A} (l : list A) i v : length l <= i -> upd l i v = l.
Proof.
  revert i; induction l as [|x xs IH]; intros [|i] H; simpl in *; auto; try lia.
  f_equal. apply IH. lia.
Qed.

Lemma incl_upd (l : list addr) i g : incl (upd l i g) (g :: l).
Proof.
  revert i; induction l as [|x xs IH]; intros [|i]; simpl.
  - apply incl_nil_l. - apply incl_nil_l.
  - intros y [E|I]; [left; auto | right; right; auto].
  - intros y [E|I]; [right; left; auto|]. destruct (IH i y I) as [E|I']; [left; auto | right; right; auto].
Qed.

Lemma incl_insert (l : list addr) i g : incl (firstn i l ++ g :: skipn i l) (g :: l).
Proof.
  intros y I. apply in_app_or in I as [I|[E|I]].
  - right. rewrite <- (firstn_skipn i l). apply in_or_app; left; auto.
  - left; auto.
  - right. rewrite <- (firstn_skipn i l). apply in_or_app; right; auto.
Qed.

Lemma flat_map_single {A} (l : list A) : flat_map (fun y => [y]) l = l.
Proof. induction l; simpl; congruence. Qed.

Lemma flat_map_id {A} (l : list (list A)) : flat_map (fun y => y) l = concat l.
Proof. induction l; simpl; congruence. Qed.

(* soundness of the depth-first reachability used by the checker *)
Lemma dfs_sound h roots : forall fuel stack visited,
  (forall x, In x visited -> reachable h roots x) ->
  (forall x, In x stack -> x < length h -> reachable h roots x) ->
  forall a, In a (dfs h fuel stack visited) -> reachable h roots a.
Proof.
  induction fuel as [|f IH]; intros stack visited HV HS a Ha; simpl in Ha; [auto|].
  destruct stack as [|x st]; [auto|].
  destruct ((x <? length h) && negb (mem x visited)) eqn:E.
  - apply andb_prop in E as [E1 _]. apply Nat.ltb_lt in E1.
    assert (Rx : reachable h roots x) by (apply HS; [left; auto|auto]).
    eapply IH; [| |exact Ha].
    + intros y [<-|I]; auto.
    + intros y I Hy. apply in_app_or in I as [I|I].
      * eapply reach_step; eauto.
      * apply HS; [right; auto|auto].
  - eapply IH; [exact HV| |exact Ha]. intros y I. apply HS; right; auto.
Qed.

Lemma reach_sound h roots a : In a (reach h roots) -> reachable h roots a.
Proof.
  unfold reach. apply dfs_sound.
  - intros x [].
  - intros x I L. now apply reach_root.
Qed.

Lemma mem_In a l : mem a l = true -> In a l.
Proof.
  unfold mem. intros H. apply existsb_exists in H as (x & Ix & E). apply Nat.eqb_eq in E. now subst.
Qed.

(* completeness of a certified reachable set *)
Lemma reach_closed_complete h roots R : reach_closed h roots R = true ->
  forall a, reachable h roots a -> In a R.
Proof.
  unfold reach_closed. intros H. apply andb_prop in H as [H1 H2].
  rewrite forallb_forall in H1, H2.
  intros a Ra. induction Ra as [a Ia La | a b Ra IH Ib Lb].
  - specialize (H1 a Ia). apply Nat.ltb_lt in La. rewrite La in H1. simpl in H1. now apply mem_In.
  - specialize (H2 a IH). rewrite forallb_forall in H2. specialize (H2 b Ib).
    apply Nat.ltb_lt in Lb. rewrite Lb in H2. simpl in H2. now apply mem_In.
Qed.

Lemma reachable_lt h roots a : reachable h roots a -> a < length h.
Proof. induction 1; auto. Qed.

(* ------------------------------------------------------------------ Part A : frame logic *)
Section FrameA.
Variable h0 : heap.
Variable W : addr -> Prop.     (* old addresses that may be written *)

Definition tgt (a : addr) : Prop := length h0 <= a \/ W a.

Definition invA (h1 : heap) : Prop :=
  length h0 <= length h1 /\ forall a, a < length h0 -> ~ W a -> get h1 a = get h0 a.

Definition okA {A} (fr : A -> Prop) (m : M A) : Prop :=
  forall h1, invA h1 -> invA (fst (m h1)) /\ fr (snd (m h1)).

Lemma invA_refl : invA h0.
Proof. split; auto. Qed.

Lemma okA_ret {A} (fr : A -> Prop) x : fr x -> okA fr (ret x).
Proof. intros H h1 I. simpl. auto. Qed.

Lemma okA_bind {A B} (fa : A -> Prop) (fb : B -> Prop) (m : M A) (k : A -> M B) :
  okA fa m -> (forall x, fa x -> okA fb (k x)) -> okA fb (bind m k).
Proof.
  intros Hm Hk h1 I. unfold bind. cbv zeta.
  destruct (Hm h1 I) as [I2 F]. exact (Hk _ F _ I2).
Qed.

Lemma okA_weaken {A} (f1 f2 : A -> Prop) m : (forall x, f1 x -> f2 x) -> okA f1 m -> okA f2 m.
Proof. intros H Hm h1 I. destruct (Hm h1 I); auto. Qed.

Lemma okA_alloc o : okA tgt (alloc o).
Proof.
  intros h1 [L F]. unfold alloc; simpl. split; [split|].
  - rewrite app_length; simpl; lia.
  - intros a La Wa. rewrite get_app_old by lia. auto.
  - left; auto.
Qed.

Lemma okA_write a o : tgt a -> okA (fun _ => True) (write a o).
Proof.
  intros T h1 [L F]. unfold write; simpl. split; [split|auto].
  - now rewrite upd_length.
  - intros b Lb Wb. rewrite get_upd_other; [auto|].
    intros ->. destruct T as [T|T]; [lia|auto].
Qed.

Lemma okA_read a : okA (fun _ => True) (read a).
Proof. intros h1 I. simpl. auto. Qed.

Lemma okA_mapM {A B} (fr : B -> Prop) (f : A -> M B) l :
  (forall x, In x l -> okA fr (f x)) -> okA (Forall fr) (mapM f l).
Proof.
  induction l as [|x r IH]; intros H; simpl.
  - apply okA_ret; constructor.
  - eapply okA_bind; [apply H; left; auto|]. intros y Fy.
    eapply okA_bind; [apply IH; intros; apply H; right; auto|]. intros ys Fys.
    apply okA_ret. constructor; auto.
Qed.

Lemma okA_true {A} (fr : A -> Prop) m : okA fr m -> okA (fun _ => True) m.
Proof. apply okA_weaken; auto. Qed.

Ltac abind := eapply okA_bind; [|intros ? ?; cbv beta in *].

Lemma copy_leaf_A a : okA tgt (copy_leaf a).
Proof. unfold copy_leaf. abind; [apply okA_read|]. apply okA_alloc. Qed.

Lemma copy_list_A a : okA tgt (copy_list a).
Proof.
  unfold copy_list. abind; [apply okA_read|]. destruct x; try apply okA_alloc.
  abind; [apply okA_mapM; intros; apply copy_leaf_A|]. apply okA_alloc.
Qed.

Lemma copy_basis_A b : okA tgt (copy_basis b).
Proof.
  unfold copy_basis. abind; [apply okA_read|]. destruct x; try apply okA_alloc.
  abind; [apply okA_mapM; intros; apply copy_list_A|]. apply okA_alloc.
Qed.

Lemma copy_op_A deep a : okA tgt (copy_op deep a).
Proof.
  unfold copy_op. abind; [apply okA_read|]. destruct x; try apply okA_alloc.
  destruct basis; [|apply okA_alloc]. destruct deep; [|apply okA_alloc].
  abind; [apply copy_basis_A|]. apply okA_alloc.
Qed.

Lemma ops_of_A c : okA (fun _ => True) (ops_of c).
Proof. unfold ops_of. abind; [apply okA_read|]. now apply okA_ret. Qed.

Lemma cregs_of_A c : okA (fun _ => True) (cregs_of c).
Proof. unfold cregs_of. abind; [apply okA_read|]. now apply okA_ret. Qed.

Definition tgt_co (co : addr * list addr) : Prop := tgt (fst co) /\ Forall tgt (snd co).

Lemma circuit_copy_A deep c : okA tgt_co (circuit_copy deep c).
Proof.
  unfold circuit_copy. abind; [apply ops_of_A|]. abind; [apply cregs_of_A|].
  abind; [apply okA_mapM; intros; apply copy_op_A|].
  abind; [apply okA_alloc|]. apply okA_ret. split; auto.
Qed.

Lemma new_gate_A : okA tgt new_gate.
Proof. apply okA_alloc. Qed.

Lemma new_list_A n : okA tgt (new_list n).
Proof. unfold new_list. abind; [apply okA_mapM; intros; apply new_gate_A|]. apply okA_alloc. Qed.

Lemma new_basis_A : okA tgt new_basis.
Proof. unfold new_basis. abind; [apply okA_mapM; intros; apply new_list_A|]. apply okA_alloc. Qed.

Lemma new_qpd2_A l : okA (fun gb => tgt (fst gb) /\ tgt (snd gb)) (new_qpd2 l).
Proof.
  unfold new_qpd2. abind; [apply new_basis_A|]. abind; [apply okA_alloc|]. apply okA_ret; auto.
Qed.

Lemma set_op_A c i g : tgt c -> okA (fun _ => True) (set_op c i g).
Proof. intros T. unfold set_op. abind; [apply ops_of_A|]. abind; [apply cregs_of_A|]. now apply okA_write. Qed.

Lemma insert_op_A c i g : tgt c -> okA (fun _ => True) (insert_op c i g).
Proof. intros T. unfold insert_op. abind; [apply ops_of_A|]. abind; [apply cregs_of_A|]. now apply okA_write. Qed.

Lemma pcq_loop_A c spans (P : addr -> Prop) : tgt c -> (forall a, tgt a -> P a) ->
  forall ops i, Forall P ops -> okA (Forall P) (pcq_loop c i ops spans).
Proof.
  intros T TP. induction ops as [|a r IH]; intros i F; simpl.
  - apply okA_ret; constructor.
  - inversion F as [|? ? Ta Fr]; subst.
    abind; [apply okA_read|].
    eapply okA_bind with (fa := P).
    + destruct (nth i spans false && negb (is_qpd2 x)).
      * abind; [apply new_qpd2_A|]. abind; [apply set_op_A; auto|]. apply okA_ret. apply TP. tauto.
      * now apply okA_ret.
    + intros a' Ta'. abind; [apply IH; auto|]. apply okA_ret. constructor; auto.
Qed.

(* the part of partition_circuit_qubits after `target` *)
Lemma pcq_core_A c ops spans (P : addr -> Prop) : tgt c -> (forall a, tgt a -> P a) -> Forall P ops ->
  okA (fun co => tgt (fst co) /\ Forall P (snd co)) (ops' <- pcq_loop c 0 ops spans ;; ret (c, ops')).
Proof. intros T TP F. abind; [apply pcq_loop_A; eauto|]. apply okA_ret. split; auto. Qed.

Lemma target_copy_A deep c : okA tgt_co (target deep false c).
Proof. apply circuit_copy_A. Qed.

Lemma pcq_A m c spans : okA tgt_co (partition_circuit_qubits m false c spans).
Proof.
  unfold partition_circuit_qubits. abind; [apply target_copy_A|].
  destruct H as [T F]. apply pcq_core_A; auto.
Qed.

Lemma cut_one_A c gid : tgt c -> okA (fun _ => True) (cut_one c gid).
Proof.
  intros T. unfold cut_one. abind; [apply new_qpd2_A|]. abind; [apply set_op_A; auto|]. now apply okA_ret.
Qed.

Lemma cut_core_A c gids : tgt c ->
  okA (fun cb => tgt (fst cb)) (bases <- mapM (cut_one c) gids ;; bl <- alloc (OList bases) ;; ret (c, bl)).
Proof.
  intros T. abind; [apply okA_mapM; intros; apply cut_one_A; auto|].
  abind; [apply okA_alloc|]. now apply okA_ret.
Qed.

Lemma cut_gates_A m c gids : okA (fun cb => tgt (fst cb)) (cut_gates m false c gids).
Proof.
  unfold cut_gates. abind; [apply target_copy_A|]. destruct H as [T F]. apply cut_core_A; auto.
Qed.

Lemma relabel_loop_A : forall ops i, Forall tgt ops -> okA (fun _ => True) (relabel_loop ops i).
Proof.
  induction ops as [|a r IH]; intros i F; simpl.
  - now apply okA_ret.
  - inversion F as [|? ? Ta Fr]; subst.
    abind; [apply okA_read|].
    destruct x; try (apply IH; auto).
    destruct k; try (apply IH; auto). destruct basis; try (apply IH; auto).
    abind; [apply okA_write; auto|]. abind; [apply IH; auto|]. now apply okA_ret.
Qed.

Lemma sub_piece_A l a s : okA (fun _ => True) (sub_piece l a s).
Proof.
  unfold sub_piece. abind; [apply okA_read|].
  assert (D : okA (fun _ : list addr => True) (if Nat.eqb (fst s) l then (x0 <- copy_op false a ;; ret [x0]) else ret [])).
  { destruct (Nat.eqb (fst s) l); [|now apply okA_ret]. abind; [apply copy_op_A|]. now apply okA_ret. }
  destruct x; auto. destruct k; auto. destruct basis; auto.
  abind.
  - destruct (Nat.eqb (fst s) l); [|now apply (okA_ret (fun _ => True))].
    abind; [apply okA_alloc|]. now apply (okA_ret (fun _ => True)).
  - abind.
    + destruct (Nat.eqb (snd s) l); [|now apply (okA_ret (fun _ => True))].
      abind; [apply okA_alloc|]. now apply (okA_ret (fun _ => True)).
    + now apply okA_ret.
Qed.

Lemma build_sub_A ops sides l : okA (fun _ => True) (build_sub ops sides l).
Proof.
  unfold build_sub. abind; [apply okA_mapM with (fr := fun _ => True); intros; apply sub_piece_A|].
  eapply okA_true. apply okA_alloc.
Qed.

Lemma sub_obs_A p l : okA (fun _ => True) (sub_obs p l).
Proof. unfold sub_obs. abind; [apply okA_read|]. eapply okA_true. apply okA_alloc. Qed.

Lemma partition_problem_A m c spans sides nl obs :
  okA (fun _ => True) (partition_problem m c spans sides nl obs).
Proof.
  unfold partition_problem. abind; [apply pcq_A|]. destruct H as [T F].
  abind; [apply relabel_loop_A; auto|].
  abind; [apply okA_mapM with (fr := fun _ => True); intros; apply build_sub_A|].
  abind; [apply okA_alloc|]. abind; [apply okA_alloc|].
  destruct obs; [|now apply okA_ret].
  abind; [apply okA_mapM with (fr := fun _ => True); intros; apply sub_obs_A|].
  abind; [apply okA_alloc|]. now apply okA_ret.
Qed.

Lemma wire_piece_A m a : okA (fun _ => True) (wire_piece m a).
Proof.
  unfold wire_piece. abind; [apply okA_read|].
  assert (D : okA (fun _ : addr => True) (if fix10 m then copy_op true a else ret a)).
  { destruct (fix10 m); [eapply okA_true; apply copy_op_A|now apply okA_ret]. }
  destruct x; auto. destruct k; auto.
  - eapply okA_true; apply okA_alloc.
  - abind; [apply new_qpd2_A|]. now apply okA_ret.
Qed.

Lemma cut_wires_A m c : okA (fun _ => True) (cut_wires m c).
Proof.
  unfold cut_wires. abind; [apply ops_of_A|]. abind; [apply cregs_of_A|].
  abind; [apply okA_mapM with (fr := fun _ => True); intros; apply wire_piece_A|].
  eapply okA_true; apply okA_alloc.
Qed.

Lemma expand_A o c1 c2 : okA (fun _ => True) (expand_observables o c1 c2).
Proof. unfold expand_observables. abind; [apply okA_read|]. eapply okA_true; apply okA_alloc. Qed.

Lemma insert_markers_A c : tgt c -> forall wires, okA (fun _ => True) (insert_markers c wires).
Proof.
  intros T. induction wires as [|p r IH]; simpl; [now apply okA_ret|].
  abind; [apply okA_alloc|]. abind; [apply insert_op_A; auto|]. apply IH.
Qed.

Lemma find_cuts_A m c gids wires : okA (fun _ => True) (find_cuts m c gids wires).
Proof.
  unfold find_cuts. abind; [apply cut_gates_A|].
  abind; [apply insert_markers_A; auto|]. abind; [apply okA_alloc|]. now apply okA_ret.
Qed.

Lemma set_bid_A a j : tgt a -> okA (fun _ => True) (set_bid a j).
Proof.
  intros T. unfold set_bid. abind; [apply okA_read|].
  destruct x; try now apply okA_ret. now apply okA_write.
Qed.

Lemma set_bids_A ops : Forall tgt ops -> forall ids mids, okA (fun _ => True) (set_bids ops ids mids).
Proof.
  intros F. induction ids as [|g ir IH]; intros [|j jr]; simpl; try now apply okA_ret.
  abind.
  - destruct (nth_error ops g) as [a|] eqn:E; [|now apply (okA_ret (fun _ => True))].
    apply set_bid_A. rewrite Forall_forall in F. apply F. eapply nth_error_In; eauto.
  - apply IH.
Qed.

Lemma slot_item_A m a : okA (fun _ => True) (slot_item m a).
Proof.
  unfold slot_item. abind; [apply okA_read|].
  assert (D : okA (fun _ : addr => True) (if fix11 m then copy_leaf a else ret a)).
  { destruct (fix11 m); [eapply okA_true; apply copy_leaf_A|now apply okA_ret]. }
  destruct x; auto. destruct k; auto. eapply okA_true; apply okA_alloc.
Qed.

Lemma slot_ops_A m maps i : okA (fun _ => True) (slot_ops m maps i).
Proof.
  unfold slot_ops. destruct (nth_error maps i); [|now apply okA_ret].
  abind; [apply okA_read|]. destruct x; try now apply okA_ret.
  eapply okA_true. apply okA_mapM with (fr := fun _ => True). intros; apply slot_item_A.
Qed.

Lemma splice_piece_A m a : okA (fun _ => True) (splice_piece m a).
Proof.
  unfold splice_piece. abind; [apply okA_read|].
  destruct x; try now apply okA_ret.
  destruct bid, basis; try now apply okA_ret.
  abind; [apply okA_read|].
  destruct x; try now apply okA_ret.
  destruct k; try now apply okA_ret.
  - abind; [apply slot_ops_A|]. abind; [apply slot_ops_A|]. now apply okA_ret.
  - apply slot_ops_A.
Qed.

Lemma dqi_body_A m c ops ids mids : tgt c -> Forall tgt ops -> okA (fun _ => True) (dqi_body m c ops ids mids).
Proof.
  intros T F. unfold dqi_body. abind; [apply set_bids_A; auto|].
  abind; [apply okA_mapM with (fr := fun _ => True); intros; apply splice_piece_A|].
  abind; [apply cregs_of_A|]. now apply okA_write.
Qed.

Lemma dqi_A m c ids mids : okA (fun _ => True) (decompose_qpd_instructions m false c ids mids).
Proof.
  unfold decompose_qpd_instructions. abind; [apply target_copy_A|]. destruct H as [T F].
  abind; [apply dqi_body_A; auto|]. now apply okA_ret.
Qed.

Lemma qpd_ids_of_A ops : okA (fun _ => True) (qpd_ids_of ops).
Proof. intros h1 I. simpl. auto. Qed.

Lemma one_experiment_A m c mids : okA (fun _ => True) (one_experiment m c mids).
Proof.
  unfold one_experiment. abind; [apply circuit_copy_A|]. destruct H as [T F].
  abind; [apply qpd_ids_of_A|]. abind; [apply dqi_body_A; auto|]. now apply okA_ret.
Qed.

Lemma experiments_for_sample_A m circs ng ci sample :
  okA (fun _ => True) (experiments_for_sample m circs ng ci sample).
Proof.
  unfold experiments_for_sample. abind; [|now apply okA_ret].
  apply okA_mapM with (fr := fun _ => True).
  intros [[c g] cidx] _. eapply okA_true. apply okA_mapM with (fr := fun _ => True).
  intros; apply one_experiment_A.
Qed.

Lemma generate_A m circs obs samples ng ci :
  okA (fun _ => True) (generate_cutting_experiments m circs obs samples ng ci).
Proof.
  unfold generate_cutting_experiments.
  abind; [apply okA_mapM with (fr := fun _ => True); intros; apply experiments_for_sample_A|].
  abind; [apply okA_alloc|]. abind; [apply okA_alloc|]. now apply okA_ret.
Qed.

Lemma reconstruct_A rs co obs : okA (fun _ => True) (reconstruct rs co obs).
Proof. unfold reconstruct. eapply okA_true; apply okA_alloc. Qed.

Lemma separate_A m c sides nl : okA (fun _ => True) (separate_circuit m c sides nl).
Proof.
  unfold separate_circuit. abind; [apply ops_of_A|]. abind; [apply cregs_of_A|].
  abind.
  - apply okA_mapM with (fr := fun _ => True). intros l _. unfold sep_sub.
    abind; [|eapply okA_true; apply okA_alloc].
    apply okA_mapM with (fr := fun _ => True). intros [a s] _. unfold sep_piece; simpl.
    destruct (Nat.eqb (fst s) l); [|now apply okA_ret].
    abind; [apply copy_op_A|]. now apply okA_ret.
  - abind; [apply okA_alloc|]. abind; [apply okA_alloc|]. now apply okA_ret.
Qed.

Lemma run_A m cl : in_place cl = false -> okA (fun _ => True) (run m cl).
Proof.
  intros NI. destruct cl; simpl in NI; subst; simpl.
  - abind; [apply pcq_A|]. now apply okA_ret.
  - abind; [apply cut_gates_A|]. now apply okA_ret.
  - apply partition_problem_A.
  - abind; [apply cut_wires_A|]. now apply okA_ret.
  - abind; [apply expand_A|]. now apply okA_ret.
  - abind; [apply find_cuts_A|]. now apply okA_ret.
  - apply generate_A.
  - abind; [apply dqi_A|]. now apply okA_ret.
  - abind; [apply reconstruct_A|]. now apply okA_ret.
  - apply separate_A.
Qed.

End FrameA.

(* ---- Part A, final statements *)
Lemma frame_noninplace m h cl : in_place cl = false ->
  length h <= length (fst (run m cl h)) /\
  forall a, a < length h -> get (fst (run m cl h)) a = get h a.
Proof.
  intros NI.
  destruct (run_A h (fun _ => False) m cl NI h (invA_refl h _)) as [[L F] _].
  split; auto.
Qed.


Lemma pcq_inplace_eq m c spans h :
  partition_circuit_qubits m true c spans h = (ops' <- pcq_loop c 0 (ops_at h c) spans ;; ret (c, ops')) h.
Proof. reflexivity. Qed.

Lemma cut_gates_inplace_eq m c gids h :
  cut_gates m true c gids h = (bases <- mapM (cut_one c) gids ;; bl <- alloc (OList bases) ;; ret (c, bl)) h.
Proof. reflexivity. Qed.

Lemma dqi_inplace_eq m c ids mids h :
  decompose_qpd_instructions m true c ids mids h = (_ <- dqi_body m c (ops_at h c) ids mids ;; ret c) h.
Proof. reflexivity. Qed.

Lemma frame_inplace m h cl : in_place cl = true ->
  length h <= length (fst (run m cl h)) /\
  forall a, a < length h -> ~ In a (own h cl) -> get (fst (run m cl h)) a = get h a.
Proof.
  intros IP. destruct cl; simpl in IP; try discriminate; subst inplace.
  - assert (E : fst (run m (CPcq true c spans) h) = fst (partition_circuit_qubits m true c spans h)) by reflexivity.
    rewrite E, pcq_inplace_eq.
    destruct (pcq_core_A h (fun a => In a (own h (CPcq true c spans))) c (ops_at h c) spans (fun _ => True)) with (h1 := h)
      as [[L F] _]; auto.
    + right; simpl; auto.
    + clear. induction (ops_at h c); constructor; auto.
    + apply invA_refl.
  - assert (E : fst (run m (CCutGates true c gate_ids) h) = fst (cut_gates m true c gate_ids h)) by reflexivity.
    rewrite E, cut_gates_inplace_eq.
    destruct (cut_core_A h (fun a => In a (own h (CCutGates true c gate_ids))) c gate_ids) with (h1 := h) as [[L F] _]; auto.
    + right; simpl; auto.
    + apply invA_refl.
  - assert (E : fst (run m (CDqi true c ids mids) h) = fst (decompose_qpd_instructions m true c ids mids h)) by reflexivity.
    rewrite E, dqi_inplace_eq.
    assert (OK : okA h (fun a => In a (own h (CDqi true c ids mids))) (fun _ => True)
                   (_ <- dqi_body m c (ops_at h c) ids mids ;; ret c)).
    { eapply okA_bind; [apply dqi_body_A|intros; now apply okA_ret].
      - right; simpl; auto.
      - apply Forall_forall. intros a Ia. right. simpl. right. exact Ia. }
    destruct (OK h (invA_refl h _)) as [[L F] _]. auto.
Qed.

(* ------------------------------------------------------------------ Part B : clean-set logic *)
Section CleanB.
Variable h0 : heap.

(* C is a set of NEW addresses whose objects reference only members of C *)
Definition invB (h1 : heap) (C : list addr) : Prop :=
  length h0 <= length h1 /\
  forall a, In a C -> length h0 <= a /\ a < length h1 /\ incl (refs (get h1 a)) C.

Definition facts := (list addr * list addr)%type.        (* (addresses known clean, addresses known live-new) *)
Definition live (n : nat) (a : addr) : Prop := length h0 <= a /\ a < n.
Definition holds (f : facts) (n : nat) (C : list addr) : Prop := incl (fst f) C /\ Forall (live n) (snd f).
Definition fadd (f g : facts) : facts := (fst f ++ fst g, snd f ++ snd g).
Definition fincl (f g : facts) : Prop := incl (fst f) (fst g) /\ incl (snd f) (snd g).

Definition okB {A} (Ph : heap -> Prop) (pre : facts) (m : M A) (post : A -> facts) : Prop :=
  forall h1 C, invB h1 C -> Ph h1 -> holds pre (length h1) C ->
  exists C', incl C C' /\ invB (fst (m h1)) C' /\ length h1 <= length (fst (m h1)) /\
             holds (post (snd (m h1))) (length (fst (m h1))) C'.

Lemma holds_mono f n n' C C' : n <= n' -> incl C C' -> holds f n C -> holds f n' C'.
Proof.
  intros Hn HC [H1 H2]. split.
  - eapply incl_tran; eauto.
  - eapply Forall_impl; [|exact H2]. intros a [X Y]. split; lia.
Qed.

Lemma holds_fincl f g n C : fincl f g -> holds g n C -> holds f n C.
Proof.
  intros [I1 I2] [H1 H2]. split.
  - eapply incl_tran; eauto.
  - rewrite Forall_forall in *. intros x Ix. apply H2. apply I2. exact Ix.
Qed.

Lemma holds_fadd f g n C : holds f n C -> holds g n C -> holds (fadd f g) n C.
Proof.
  intros [A1 A2] [B1 B2]. split; simpl.
  - apply incl_app; auto.
  - apply Forall_app; auto.
Qed.

Lemma fincl_refl f : fincl f f.
Proof. split; apply incl_refl. Qed.

Lemma fincl_fadd_l f g : fincl f (fadd f g).
Proof. split; simpl; apply incl_appl; apply incl_refl. Qed.

Lemma fincl_fadd_r f g : fincl g (fadd f g).
Proof. split; simpl; apply incl_appr; apply incl_refl. Qed.

Lemma fincl_tran f g k : fincl f g -> fincl g k -> fincl f k.
Proof. intros [A1 A2] [B1 B2]. split; eapply incl_tran; eauto. Qed.

Lemma okB_ret {A} Ph pre (x : A) post : fincl (post x) pre -> okB Ph pre (ret x) post.
Proof.
  intros F h1 C I _ H. exists C. simpl.
  split; [apply incl_refl|]. split; [exact I|]. split; [lia|]. eapply holds_fincl; eauto.
Qed.

Lemma okB_bind {A B} Ph pre (m : M A) (k : A -> M B) q1 q2 :
  okB Ph pre m q1 -> (forall x, okB (fun _ => True) (fadd pre (q1 x)) (k x) q2) -> okB Ph pre (bind m k) q2.
Proof.
  intros Hm Hk h1 C I P H. unfold bind. cbv zeta.
  destruct (Hm h1 C I P H) as (C1 & IC1 & I1 & L1 & H1).
  assert (Hp : holds pre (length (fst (m h1))) C1) by (eapply holds_mono; eauto).
  destruct (Hk (snd (m h1)) (fst (m h1)) C1 I1 Logic.I (holds_fadd _ _ _ _ Hp H1)) as (C2 & IC2 & I2 & L2 & H2).
  exists C2. split; [eapply incl_tran; eauto|]. split; [exact I2|]. split; [lia|]. exact H2.
Qed.

Lemma okB_drop {A} Ph pre (m : M A) post : okB (fun _ => True) pre m post -> okB Ph pre m post.
Proof. intros H h1 C I _ Hp. now apply H. Qed.

Lemma okB_pre {A} Ph pre pre' (m : M A) post : fincl pre pre' -> okB Ph pre m post -> okB Ph pre' m post.
Proof. intros F H h1 C I P Hp. apply H; auto. eapply holds_fincl; eauto. Qed.

Lemma okB_post {A} Ph pre (m : M A) post post' :
  (forall x, fincl (post' x) (fadd pre (post x))) -> okB Ph pre m post -> okB Ph pre m post'.
Proof.
  intros F H h1 C I P Hp. destruct (H h1 C I P Hp) as (C1 & IC1 & I1 & L1 & H1).
  exists C1. split; [auto|]. split; [exact I1|]. split; [auto|].
  eapply holds_fincl; [apply F|]. apply holds_fadd; [|exact H1]. eapply holds_mono; eauto.
Qed.

Lemma okB_alloc_clean Ph pre o : incl (refs o) (fst pre) -> okB Ph pre (alloc o) (fun x => ([x], [x])).
Proof.
  intros R h1 C [L F] _ [Hc Hl]. exists (length h1 :: C). unfold alloc; simpl.
  assert (LL : length (h1 ++ [o]) = S (length h1)) by (rewrite app_length; simpl; lia).
  split; [apply incl_tl, incl_refl|]. split; [split|split].
  - lia.
  - intros a [<-|Ia].
    + split; [lia|]. split; [lia|]. rewrite get_app_new.
      apply incl_tl. eapply incl_tran; eauto.
    + destruct (F a Ia) as (X & Y & Z). split; [auto|]. split; [lia|].
      rewrite get_app_old by auto. now apply incl_tl.
  - lia.
  - split; simpl.
    + intros x [<-|[]]. left; auto.
    + constructor; [|constructor]. split; lia.
Qed.

Lemma okB_alloc_any Ph pre o : okB Ph pre (alloc o) (fun x => ([], [x])).
Proof.
  intros h1 C [L F] _ [Hc Hl]. exists C. unfold alloc; simpl.
  assert (LL : length (h1 ++ [o]) = S (length h1)) by (rewrite app_length; simpl; lia).
  split; [apply incl_refl|]. split; [split|split].
  - lia.
  - intros a Ia. destruct (F a Ia) as (X & Y & Z). split; [auto|]. split; [lia|].
    now rewrite get_app_old by auto.
  - lia.
  - split; simpl; [apply incl_nil_l|]. constructor; [|constructor]. split; lia.
Qed.

Lemma okB_read_clean {B} Ph pre a (k : obj -> M B) post : In a (fst pre) ->
  (forall o, okB (fun h => get h a = o) (fadd pre (refs o, [])) (k o) post) ->
  okB Ph pre (bind (read a) k) post.
Proof.
  intros Ia H h1 C I _ Hp. unfold bind, read. cbv zeta. simpl.
  apply (H (get h1 a) h1 C I eq_refl).
  apply holds_fadd; auto. split; simpl; [|constructor].
  destruct I as [_ F]. destruct Hp as [Hc _]. destruct (F a (Hc a Ia)) as (_ & _ & Z). exact Z.
Qed.

Lemma okB_read_any {B} Ph pre a (k : obj -> M B) post :
  (forall o, okB (fun h => get h a = o) pre (k o) post) -> okB Ph pre (bind (read a) k) post.
Proof. intros H h1 C I _ Hp. unfold bind, read. cbv zeta. simpl. now apply (H (get h1 a) h1 C I eq_refl). Qed.

Lemma okB_write_gen (Ph : heap -> Prop) pre a o :
  (forall h1 C, Ph h1 -> invB h1 C -> holds pre (length h1) C -> In a C -> incl (refs o) C) ->
  okB Ph pre (write a o) (fun _ => ([], [])).
Proof.
  intros R h1 C I P Hp. exists C. unfold write; simpl. destruct I as [L F].
  split; [apply incl_refl|]. split; [split|split].
  - now rewrite upd_length.
  - intros b Ib. destruct (F b Ib) as (X & Y & Z). rewrite upd_length. split; [auto|]. split; [auto|].
    destruct (Nat.eq_dec a b) as [->|N].
    + rewrite get_upd_same by auto. eapply R; eauto. split; auto.
    + now rewrite get_upd_other by auto.
  - rewrite upd_length; lia.
  - split; simpl; [apply incl_nil_l|constructor].
Qed.

Lemma okB_write_clean Ph pre a o : incl (refs o) (fst pre) -> okB Ph pre (write a o) (fun _ => ([], [])).
Proof.
  intros R. apply (okB_write_gen Ph pre a o).
  intros h1 C _ _ [Hc _] _. eapply incl_tran; eauto.
Qed.

Lemma okB_write_same pre a o : okB (fun h => incl (refs o) (refs (get h a))) pre (write a o) (fun _ => ([], [])).
Proof.
  apply (okB_write_gen _ pre a o).
  intros h1 C P [_ F] _ Ia. destruct (F a Ia) as (_ & _ & Z). eapply incl_tran; eauto.
Qed.

Lemma okB_write_promote Ph pre a o : In a (snd pre) -> incl (refs o) (fst pre) ->
  okB Ph pre (write a o) (fun _ => ([a], [])).
Proof.
  intros La R h1 C [L F] _ [Hc Hl]. exists (a :: C). unfold write; simpl.
  rewrite Forall_forall in Hl. destruct (Hl a La) as [A1 A2].
  split; [apply incl_tl, incl_refl|]. split; [split|split].
  - now rewrite upd_length.
  - intros b Ib. rewrite upd_length.
    destruct (Nat.eq_dec a b) as [<-|N].
    + split; [auto|]. split; [auto|]. rewrite get_upd_same by auto.
      apply incl_tl. eapply incl_tran; eauto.
    + destruct Ib as [E|Ib]; [congruence|]. destruct (F b Ib) as (X & Y & Z).
      split; [auto|]. split; [auto|]. rewrite get_upd_other by auto. now apply incl_tl.
  - rewrite upd_length; lia.
  - split; simpl; [|constructor]. intros x [<-|[]]. left; auto.
Qed.

Lemma okB_ret_promote {A} pre a (x : A) post : In a (snd pre) -> fincl (post x) (fadd pre ([a], [])) ->
  okB (fun h => refs (get h a) = []) pre (ret x) post.
Proof.
  intros La Fi h1 C [L F] P [Hc Hl]. exists (a :: C). simpl.
  rewrite Forall_forall in Hl. destruct (Hl a La) as [A1 A2].
  split; [apply incl_tl, incl_refl|]. split; [split|split]; auto.
  - intros b [<-|Ib].
    + split; [auto|]. split; [auto|]. rewrite P. apply incl_nil_l.
    + destruct (F b Ib) as (X & Y & Z). split; [auto|]. split; [auto|]. now apply incl_tl.
  - eapply holds_fincl; [exact Fi|]. apply holds_fadd.
    + split; [now apply incl_tl|]. rewrite Forall_forall. exact Hl.
    + split; simpl; [|constructor]. intros y [<-|[]]. left; auto.
Qed.

Definition mpost {B} (q : B -> facts) (ys : list B) : facts :=
  (flat_map (fun y => fst (q y)) ys, flat_map (fun y => snd (q y)) ys).

Lemma okB_mapM_gen {A B} pre (f : A -> M B) (q : B -> facts) l :
  (forall x, In x l -> okB (fun _ => True) pre (f x) q) ->
  forall Ph pre', fincl pre pre' -> okB Ph pre' (mapM f l) (mpost q).
Proof.
  induction l as [|x r IH]; intros H Ph pre' Fi; simpl.
  - apply okB_ret. split; simpl; apply incl_nil_l.
  - eapply okB_bind.
    + apply okB_drop. eapply okB_pre; [exact Fi|]. apply H. left; auto.
    + intros y. eapply okB_bind.
      * apply IH; [intros; apply H; right; auto|].
        eapply fincl_tran; [exact Fi|apply fincl_fadd_l].
      * intros ys. apply okB_ret. unfold mpost, fadd; simpl. split; simpl.
        -- apply incl_app; [apply incl_appl, incl_appr, incl_refl | apply incl_appr, incl_refl].
        -- apply incl_app; [apply incl_appl, incl_appr, incl_refl | apply incl_appr, incl_refl].
Qed.

Lemma okB_mapM {A B} Ph pre (f : A -> M B) (q : B -> facts) l :
  (forall x, In x l -> okB (fun _ => True) pre (f x) q) -> okB Ph pre (mapM f l) (mpost q).
Proof. intros H. eapply okB_mapM_gen; eauto. apply fincl_refl. Qed.

(* the three shapes of per-element post-conditions used below *)
Lemma okB_mapM_cl {A} Ph pre (f : A -> M addr) l :       (* each result clean and live *)
  (forall x, In x l -> okB (fun _ => True) pre (f x) (fun y => ([y], [y]))) ->
  okB Ph pre (mapM f l) (fun ys => (ys, ys)).
Proof.
  intros H. eapply okB_post; [|apply okB_mapM; exact H].
  intros ys. unfold mpost; simpl. rewrite flat_map_single. apply fincl_fadd_r.
Qed.

Lemma okB_mapM_c {A} Ph pre (f : A -> M addr) l :        (* each result clean *)
  (forall x, In x l -> okB (fun _ => True) pre (f x) (fun y => ([y], []))) ->
  okB Ph pre (mapM f l) (fun ys => (ys, [])).
Proof.
  intros H. eapply okB_post; [|apply okB_mapM; exact H].
  intros ys. unfold mpost; simpl. rewrite flat_map_single. split; simpl; [apply incl_appr, incl_refl|apply incl_nil_l].
Qed.

Lemma okB_mapM_l {A} Ph pre (f : A -> M addr) l :        (* each result live *)
  (forall x, In x l -> okB (fun _ => True) pre (f x) (fun y => ([], [y]))) ->
  okB Ph pre (mapM f l) (fun ys => ([], ys)).
Proof.
  intros H. eapply okB_post; [|apply okB_mapM; exact H].
  intros ys. unfold mpost; simpl. rewrite flat_map_single. split; simpl; [apply incl_nil_l|apply incl_appr, incl_refl].
Qed.

Lemma okB_mapM_cc {A} Ph pre (f : A -> M (list addr)) l : (* each result a list of clean addresses *)
  (forall x, In x l -> okB (fun _ => True) pre (f x) (fun ys => (ys, []))) ->
  okB Ph pre (mapM f l) (fun yss => (concat yss, [])).
Proof.
  intros H. eapply okB_post; [|apply okB_mapM; exact H].
  intros ys. unfold mpost; simpl. rewrite flat_map_id. split; simpl; [apply incl_appr, incl_refl|apply incl_nil_l].
Qed.

Lemma okB_mapM_u {A} Ph pre (f : A -> M unit) l :
  (forall x, In x l -> okB (fun _ => True) pre (f x) (fun _ => ([], []))) ->
  okB Ph pre (mapM f l) (fun _ => ([], [])).
Proof.
  intros H. eapply okB_post; [|apply okB_mapM; exact H].
  intros ys. split; simpl; apply incl_nil_l.
Qed.


Lemma okB_Ph {A} (Ph Ph' : heap -> Prop) pre (m : M A) post :
  (forall h, Ph h -> Ph' h) -> okB Ph' pre m post -> okB Ph pre m post.
Proof. intros Hi H h1 C I P Hp. apply H; auto. Qed.

Ltac inc := let z := fresh "z" in let Hz := fresh "Hz" in
  intros z Hz; simpl in *; repeat rewrite in_app_iff in *; simpl in *; intuition (subst; auto).
Ltac fin := unfold fincl, fadd; simpl; split; inc.
Ltac bbind := eapply okB_bind; [|intros ?].

Lemma copy_leaf_B Ph pre a : okB Ph pre (copy_leaf a) (fun x => ([x], [x])).
Proof.
  unfold copy_leaf. apply okB_read_any. intros o. apply okB_alloc_clean.
  destruct o; simpl; apply incl_nil_l.
Qed.

Lemma copy_list_B Ph pre a : okB Ph pre (copy_list a) (fun x => ([x], [x])).
Proof.
  unfold copy_list. apply okB_read_any. intros o.
  destruct o; try (apply okB_alloc_clean; apply incl_nil_l).
  bbind; [apply okB_mapM_cl; intros; apply copy_leaf_B|].
  apply okB_alloc_clean. unfold fadd; simpl. apply incl_appr, incl_refl.
Qed.

Lemma copy_basis_B Ph pre b : okB Ph pre (copy_basis b) (fun x => ([x], [x])).
Proof.
  unfold copy_basis. apply okB_read_any. intros o.
  destruct o; try (apply okB_alloc_clean; apply incl_nil_l).
  bbind; [apply okB_mapM_cl; intros; apply copy_list_B|].
  apply okB_alloc_clean. unfold fadd; simpl. apply incl_appr, incl_refl.
Qed.

Lemma copy_op_deep_B Ph pre a : okB Ph pre (copy_op true a) (fun x => ([x], [x])).
Proof.
  unfold copy_op. apply okB_read_any. intros o.
  destruct o; try (apply okB_alloc_clean; apply incl_nil_l).
  destruct basis as [b|]; [|apply okB_alloc_clean; apply incl_nil_l].
  bbind; [apply copy_basis_B|]. apply okB_alloc_clean. unfold fadd; simpl. inc.
Qed.

Lemma copy_op_sh_clean_B Ph pre a : In a (fst pre) -> okB Ph pre (copy_op false a) (fun x => ([x], [x])).
Proof.
  intros Ia. unfold copy_op. apply okB_read_clean; [exact Ia|]. intros o.
  destruct o; try (apply okB_alloc_clean; apply incl_nil_l).
  destruct basis as [b|]; [|apply okB_alloc_clean; apply incl_nil_l].
  apply okB_alloc_clean. unfold fadd; simpl. inc.
Qed.

Lemma copy_op_sh_any_B Ph pre a : okB Ph pre (copy_op false a) (fun x => ([], [x])).
Proof.
  unfold copy_op. apply okB_read_any. intros o.
  destruct o; try apply okB_alloc_any. destruct basis; apply okB_alloc_any.
Qed.

Lemma ops_of_clean_B Ph pre c : In c (fst pre) -> okB Ph pre (ops_of c) (fun ops => (ops, [])).
Proof.
  intros Ic. unfold ops_of. apply okB_read_clean; [exact Ic|]. intros o.
  apply okB_ret. destruct o; fin.
Qed.

Lemma ops_of_any_B Ph pre c : okB Ph pre (ops_of c) (fun _ => ([], [])).
Proof. unfold ops_of. apply okB_read_any. intros o. apply okB_ret. fin. Qed.

Lemma cregs_of_B Ph pre c : okB Ph pre (cregs_of c) (fun _ => ([], [])).
Proof. unfold cregs_of. apply okB_read_any. intros o. apply okB_ret. fin. Qed.

Lemma circuit_copy_deep_B Ph pre c : okB Ph pre (circuit_copy true c) (fun co => (fst co :: snd co, [])).
Proof.
  unfold circuit_copy. bbind; [apply ops_of_any_B|]. bbind; [apply cregs_of_B|].
  bbind; [apply okB_mapM_cl; intros; apply copy_op_deep_B|].
  bbind; [apply okB_alloc_clean; unfold fadd; simpl; inc|].
  apply okB_ret. fin.
Qed.

Lemma circuit_copy_sh_B Ph pre c : okB Ph pre (circuit_copy false c) (fun co => ([], fst co :: snd co)).
Proof.
  unfold circuit_copy. bbind; [apply ops_of_any_B|]. bbind; [apply cregs_of_B|].
  bbind; [apply okB_mapM_l; intros; apply copy_op_sh_any_B|].
  bbind; [apply okB_alloc_any|].
  apply okB_ret. fin.
Qed.

Lemma new_gate_B Ph pre : okB Ph pre new_gate (fun x => ([x], [x])).
Proof. apply okB_alloc_clean. apply incl_nil_l. Qed.

Lemma new_list_B Ph pre n : okB Ph pre (new_list n) (fun x => ([x], [x])).
Proof.
  unfold new_list. bbind; [apply okB_mapM_cl; intros; apply new_gate_B|].
  apply okB_alloc_clean. unfold fadd; simpl. inc.
Qed.

Lemma new_basis_B Ph pre : okB Ph pre new_basis (fun x => ([x], [x])).
Proof.
  unfold new_basis. bbind; [apply okB_mapM_cl; intros; apply new_list_B|].
  apply okB_alloc_clean. unfold fadd; simpl. inc.
Qed.

Lemma new_qpd2_B Ph pre l : okB Ph pre (new_qpd2 l) (fun gb => ([fst gb; snd gb], [])).
Proof.
  unfold new_qpd2. bbind; [apply new_basis_B|].
  bbind; [apply okB_alloc_clean; unfold fadd; simpl; inc|].
  apply okB_ret. fin.
Qed.

Lemma set_op_B Ph pre c i g : In c (fst pre) -> In g (fst pre) -> okB Ph pre (set_op c i g) (fun _ => ([], [])).
Proof.
  intros Ic Ig. unfold set_op. bbind; [apply ops_of_clean_B; exact Ic|]. bbind; [apply cregs_of_B|].
  apply okB_write_clean. simpl. intros z Hz. apply incl_upd in Hz. unfold fadd; simpl.
  repeat rewrite in_app_iff. destruct Hz as [<-|Hz]; auto.
Qed.

Lemma insert_op_B Ph pre c i g : In c (fst pre) -> In g (fst pre) -> okB Ph pre (insert_op c i g) (fun _ => ([], [])).
Proof.
  intros Ic Ig. unfold insert_op. bbind; [apply ops_of_clean_B; exact Ic|]. bbind; [apply cregs_of_B|].
  apply okB_write_clean. simpl. intros z Hz. apply incl_insert in Hz. unfold fadd; simpl.
  repeat rewrite in_app_iff. destruct Hz as [<-|Hz]; auto.
Qed.

Lemma pcq_loop_B c spans : forall ops i Ph pre, In c (fst pre) -> incl ops (fst pre) ->
  okB Ph pre (pcq_loop c i ops spans) (fun r => (r, [])).
Proof.
  induction ops as [|a r IH]; intros i Ph pre Ic Io; simpl.
  - apply okB_ret. fin.
  - apply okB_read_any. intros o.
    eapply okB_bind with (q1 := fun a' => ([a'], [])).
    + destruct (nth i spans false && negb (is_qpd2 o)).
      * bbind; [apply new_qpd2_B|].
        bbind; [apply set_op_B; unfold fadd; simpl; rewrite in_app_iff; simpl; auto|].
        apply okB_ret. fin.
      * apply okB_ret. split; simpl; [|apply incl_nil_l]. intros z [<-|[]]. apply Io. left; auto.
    + intros a'. bbind.
      * apply IH; unfold fadd; simpl.
        -- rewrite in_app_iff; auto.
        -- intros z Hz. rewrite in_app_iff. left. apply Io. right; auto.
      * apply okB_ret. fin.
Qed.

Lemma pcq_B Ph pre c spans :
  okB Ph pre (partition_circuit_qubits Repaired false c spans) (fun co => (fst co :: snd co, [])).
Proof.
  unfold partition_circuit_qubits, target. simpl.
  bbind; [apply circuit_copy_deep_B|].
  bbind; [apply pcq_loop_B; unfold fadd; simpl; [rewrite in_app_iff; simpl; auto | inc]|].
  apply okB_ret. fin.
Qed.

Lemma cut_one_B Ph pre c gid : In c (fst pre) -> okB Ph pre (cut_one c gid) (fun b => ([b], [])).
Proof.
  intros Ic. unfold cut_one. bbind; [apply new_qpd2_B|].
  bbind; [apply set_op_B; unfold fadd; simpl; rewrite in_app_iff; simpl; auto|].
  apply okB_ret. fin.
Qed.

Lemma cut_gates_B Ph pre c gids :
  okB Ph pre (cut_gates Repaired false c gids) (fun cb => ([fst cb; snd cb], [])).
Proof.
  unfold cut_gates, target. simpl.
  bbind; [apply circuit_copy_deep_B|].
  bbind; [apply okB_mapM_c; intros; apply cut_one_B; unfold fadd; simpl; rewrite in_app_iff; simpl; auto|].
  bbind; [apply okB_alloc_clean; unfold fadd; simpl; inc|].
  apply okB_ret. fin.
Qed.


Lemma relabel_loop_B : forall ops i Ph pre, incl ops (fst pre) ->
  okB Ph pre (relabel_loop ops i) (fun bs => (bs, [])).
Proof.
  induction ops as [|a r IH]; intros i Ph pre Io; simpl.
  - apply okB_ret. fin.
  - apply okB_read_clean; [apply Io; left; auto|]. intros o.
    assert (Ir : incl r (fst (fadd pre (refs o, [])))).
    { intros z Hz. unfold fadd; simpl. rewrite in_app_iff. left. apply Io. right; auto. }
    destruct o; try (eapply okB_post; [|apply IH; exact Ir]; intros; fin).
    destruct k; try (eapply okB_post; [|apply IH; exact Ir]; intros; fin).
    destruct basis as [b|]; try (eapply okB_post; [|apply IH; exact Ir]; intros; fin).
    bbind; [apply okB_write_clean; unfold fadd; simpl; inc|].
    bbind.
    + apply IH. intros z Hz. unfold fadd; simpl. repeat rewrite in_app_iff. left. left. apply Io. right; auto.
    + apply okB_ret. fin.
Qed.

Lemma sub_piece_B Ph pre l a s : In a (fst pre) -> okB Ph pre (sub_piece l a s) (fun xs => (xs, [])).
Proof.
  intros Ia. unfold sub_piece. apply okB_read_clean; [exact Ia|]. intros o.
  assert (D : okB (fun h => get h a = o) (fadd pre (refs o, []))
                (if Nat.eqb (fst s) l then (x0 <- copy_op false a ;; ret [x0]) else ret []) (fun xs => (xs, []))).
  { destruct (Nat.eqb (fst s) l); [|apply okB_ret; fin].
    bbind; [apply copy_op_sh_clean_B; unfold fadd; simpl; rewrite in_app_iff; auto|].
    apply okB_ret. fin. }
  destruct o; auto. destruct k; auto. destruct basis as [b|]; auto.
  eapply okB_bind with (q1 := fun xs => (xs, [])).
  - destruct (Nat.eqb (fst s) l); [|apply okB_ret; fin].
    bbind; [apply okB_alloc_clean; unfold fadd; simpl; inc|]. apply okB_ret. fin.
  - intros p0. eapply okB_bind with (q1 := fun xs => (xs, [])).
    + destruct (Nat.eqb (snd s) l); [|apply okB_ret; fin].
      bbind; [apply okB_alloc_clean; unfold fadd; simpl; inc|]. apply okB_ret. fin.
    + intros p1. apply okB_ret. fin.
Qed.

Lemma build_sub_B Ph pre ops sides l : incl ops (fst pre) ->
  okB Ph pre (build_sub ops sides l) (fun x => ([x], [])).
Proof.
  intros Io. unfold build_sub.
  bbind; [apply okB_mapM_cc; intros [a s] Ias; apply sub_piece_B; apply Io; eapply in_combine_l; eauto|].
  eapply okB_post; [|apply okB_alloc_clean; unfold fadd; simpl; inc]. intros; fin.
Qed.

Lemma sub_obs_B Ph pre p l : okB Ph pre (sub_obs p l) (fun x => ([x], [x])).
Proof.
  unfold sub_obs. apply okB_read_any. intros o. apply okB_alloc_clean. destruct o; simpl; apply incl_nil_l.
Qed.

Lemma partition_problem_B Ph pre c spans sides nl obs :
  okB Ph pre (partition_problem Repaired c spans sides nl obs) (fun r => (r, [])).
Proof.
  unfold partition_problem. bbind; [apply pcq_B|]. cbv zeta.
  bbind; [apply relabel_loop_B; unfold fadd; simpl; inc|].
  bbind; [apply okB_mapM_c; intros; apply build_sub_B; unfold fadd; simpl; inc|].
  bbind; [apply okB_alloc_clean; unfold fadd; simpl; inc|].
  bbind; [apply okB_alloc_clean; unfold fadd; simpl; inc|].
  destruct obs as [p|].
  - bbind; [apply okB_mapM_cl; intros; apply sub_obs_B|].
    bbind; [apply okB_alloc_clean; unfold fadd; simpl; inc|].
    apply okB_ret. fin.
  - apply okB_ret. fin.
Qed.

Lemma wire_piece_B Ph pre a : okB Ph pre (wire_piece Repaired a) (fun x => ([x], [])).
Proof.
  unfold wire_piece. apply okB_read_any. intros o. simpl.
  assert (D : okB (fun h => get h a = o) pre (copy_op true a) (fun x => ([x], []))).
  { eapply okB_post; [|apply copy_op_deep_B]. intros; fin. }
  destruct o; auto. destruct k; auto.
  - eapply okB_post; [|apply okB_alloc_clean; apply incl_nil_l]. intros; fin.
  - bbind; [apply new_qpd2_B|]. apply okB_ret. fin.
Qed.

Lemma cut_wires_B Ph pre c : okB Ph pre (cut_wires Repaired c) (fun x => ([x], [])).
Proof.
  unfold cut_wires. bbind; [apply ops_of_any_B|]. bbind; [apply cregs_of_B|].
  bbind; [apply okB_mapM_c; intros; apply wire_piece_B|].
  eapply okB_post; [|apply okB_alloc_clean; unfold fadd; simpl; inc]. intros; fin.
Qed.

Lemma expand_B Ph pre o c1 c2 : okB Ph pre (expand_observables o c1 c2) (fun x => ([x], [])).
Proof.
  unfold expand_observables. apply okB_read_any. intros ob.
  eapply okB_post; [|apply okB_alloc_clean; destruct ob; simpl; apply incl_nil_l]. intros; fin.
Qed.

Lemma insert_markers_B c : forall wires Ph pre, In c (fst pre) ->
  okB Ph pre (insert_markers c wires) (fun _ => ([], [])).
Proof.
  induction wires as [|p r IH]; intros Ph pre Ic; simpl.
  - apply okB_ret. fin.
  - bbind; [apply okB_alloc_clean; apply incl_nil_l|].
    bbind; [apply insert_op_B; unfold fadd; simpl; rewrite in_app_iff; simpl; auto|].
    apply IH. unfold fadd; simpl. repeat rewrite in_app_iff. auto.
Qed.

Lemma find_cuts_B Ph pre c gids wires :
  okB Ph pre (find_cuts Repaired c gids wires) (fun cm => ([fst cm; snd cm], [])).
Proof.
  unfold find_cuts. bbind; [apply cut_gates_B|].
  bbind; [apply insert_markers_B; unfold fadd; simpl; rewrite in_app_iff; simpl; auto|].
  bbind; [apply okB_alloc_clean; apply incl_nil_l|].
  apply okB_ret. fin.
Qed.


Lemma set_bid_B Ph pre a j : okB Ph pre (set_bid a j) (fun _ => ([], [])).
Proof.
  unfold set_bid. apply okB_read_any. intros o.
  destruct o; try solve [apply okB_ret; fin].
  eapply okB_Ph; cycle 1; [apply okB_write_same|]. intros h E. simpl in *. rewrite E. simpl. apply incl_refl.
Qed.

Lemma set_bids_B ops : forall ids mids Ph pre, okB Ph pre (set_bids ops ids mids) (fun _ => ([], [])).
Proof.
  induction ids as [|g ir IH]; intros [|j jr] Ph pre; simpl; try solve [apply okB_ret; fin].
  bbind.
  - destruct (nth_error ops g) as [a|]; [apply set_bid_B|apply okB_ret; fin].
  - apply IH.
Qed.

Lemma slot_item_B Ph pre a : okB Ph pre (slot_item Repaired a) (fun x => ([x], [])).
Proof.
  unfold slot_item. apply okB_read_any. intros o. simpl.
  assert (D : okB (fun h => get h a = o) pre (copy_leaf a) (fun x => ([x], []))).
  { eapply okB_post; [|apply copy_leaf_B]. intros; fin. }
  destruct o; auto. destruct k; auto.
  eapply okB_post; [|apply okB_alloc_clean; apply incl_nil_l]. intros; fin.
Qed.

Lemma slot_ops_B Ph pre maps i : okB Ph pre (slot_ops Repaired maps i) (fun xs => (xs, [])).
Proof.
  unfold slot_ops. destruct (nth_error maps i) as [la|]; [|apply okB_ret; fin].
  apply okB_read_any. intros o. destruct o; try solve [apply okB_ret; fin].
  apply okB_mapM_c; intros; apply slot_item_B.
Qed.

Lemma splice_piece_B Ph pre a : In a (snd pre) -> okB Ph pre (splice_piece Repaired a) (fun xs => (xs, [])).
Proof.
  intros La. unfold splice_piece. apply okB_read_any. intros o.
  destruct o; try solve [apply okB_ret; fin].
  destruct bid as [j|], basis as [b|]; try solve [apply okB_ret; fin].
  - apply okB_read_any. intros ob.
    destruct ob; try solve [apply okB_ret; fin].
    destruct k; try solve [apply okB_ret; fin].
    + bbind; [apply slot_ops_B|]. bbind; [apply slot_ops_B|]. apply okB_ret. fin.
    + apply slot_ops_B.
  - eapply okB_Ph; cycle 1; [apply okB_ret_promote with (a := a); [exact La|fin]|].
    intros h E. simpl in *. now rewrite E.
  - eapply okB_Ph; cycle 1; [apply okB_ret_promote with (a := a); [exact La|fin]|].
    intros h E. simpl in *. now rewrite E.
Qed.

Lemma dqi_body_B Ph pre c ops ids mids : In c (snd pre) -> incl ops (snd pre) ->
  okB Ph pre (dqi_body Repaired c ops ids mids) (fun _ => ([c], [])).
Proof.
  intros Lc Lo. unfold dqi_body. bbind; [apply set_bids_B|].
  bbind; [apply okB_mapM_cc; intros a Ia; apply splice_piece_B; unfold fadd; simpl; rewrite in_app_iff; left; apply Lo; exact Ia|].
  bbind; [apply cregs_of_B|].
  apply okB_write_promote.
  - unfold fadd; simpl. repeat rewrite in_app_iff. auto.
  - unfold fadd; simpl. inc.
Qed.

Lemma dqi_B Ph pre c ids mids :
  okB Ph pre (decompose_qpd_instructions Repaired false c ids mids) (fun x => ([x], [])).
Proof.
  unfold decompose_qpd_instructions, target.
  bbind; [apply circuit_copy_sh_B|].
  bbind; [apply dqi_body_B; unfold fadd; simpl; [rewrite in_app_iff; simpl; auto | inc]|].
  apply okB_ret. fin.
Qed.

Lemma qpd_ids_of_B Ph pre ops : okB Ph pre (qpd_ids_of ops) (fun _ => ([], [])).
Proof.
  intros h1 C I _ Hp. exists C. simpl.
  split; [apply incl_refl|]. split; [exact I|]. split; [lia|]. split; simpl; [apply incl_nil_l|constructor].
Qed.

Lemma one_experiment_B Ph pre m' c mids : m' = Repaired ->
  okB Ph pre (one_experiment m' c mids) (fun e => ([e], [])).
Proof.
  intros ->. unfold one_experiment. bbind; [apply circuit_copy_sh_B|].
  bbind; [apply qpd_ids_of_B|].
  bbind; [apply dqi_body_B; unfold fadd; simpl; [repeat rewrite in_app_iff; simpl; auto | inc]|].
  apply okB_ret. fin.
Qed.

Lemma experiments_for_sample_B Ph pre circs ng ci sample :
  okB Ph pre (experiments_for_sample Repaired circs ng ci sample) (fun es => (es, [])).
Proof.
  unfold experiments_for_sample.
  bbind; [apply okB_mapM_cc; intros [[c g] cidx] _; apply okB_mapM_c; intros; now apply one_experiment_B|].
  apply okB_ret. fin.
Qed.

Lemma generate_B Ph pre circs obs samples ng ci :
  okB Ph pre (generate_cutting_experiments Repaired circs obs samples ng ci) (fun r => (r, [])).
Proof.
  unfold generate_cutting_experiments.
  bbind; [apply okB_mapM_cc; intros; apply experiments_for_sample_B|].
  bbind; [apply okB_alloc_clean; unfold fadd; simpl; inc|].
  bbind; [apply okB_alloc_clean; apply incl_nil_l|].
  apply okB_ret. fin.
Qed.

Lemma reconstruct_B Ph pre rs co obs : okB Ph pre (reconstruct rs co obs) (fun x => ([x], [])).
Proof.
  unfold reconstruct. eapply okB_post; [|apply okB_alloc_clean; apply incl_nil_l]. intros; fin.
Qed.

Lemma separate_B Ph pre c sides nl : okB Ph pre (separate_circuit Repaired c sides nl) (fun r => (r, [])).
Proof.
  unfold separate_circuit. simpl. bbind; [apply ops_of_any_B|]. bbind; [apply cregs_of_B|].
  bbind.
  - apply okB_mapM_c. intros l _. unfold sep_sub.
    bbind.
    + apply okB_mapM_cc. intros [a s] _. unfold sep_piece; simpl.
      destruct (Nat.eqb (fst s) l); [|apply okB_ret; fin].
      bbind; [apply copy_op_deep_B|]. apply okB_ret. fin.
    + eapply okB_post; [|apply okB_alloc_clean; unfold fadd; simpl; inc]. intros; fin.
  - bbind; [apply okB_alloc_clean; unfold fadd; simpl; inc|].
    bbind; [apply okB_alloc_clean; apply incl_nil_l|].
    apply okB_ret. fin.
Qed.

Lemma run_B cl : in_place cl = false -> okB (fun _ => True) ([], []) (run Repaired cl) (fun r => (r, [])).
Proof.
  intros NI. destruct cl; simpl in NI; subst; unfold run.
  - bbind; [apply pcq_B|]. apply okB_ret. fin.
  - bbind; [apply cut_gates_B|]. apply okB_ret. fin.
  - apply partition_problem_B.
  - bbind; [apply cut_wires_B|]. apply okB_ret. fin.
  - bbind; [apply expand_B|]. apply okB_ret. fin.
  - bbind; [apply find_cuts_B|]. apply okB_ret. fin.
  - apply generate_B.
  - bbind; [apply dqi_B|]. apply okB_ret. fin.
  - bbind; [apply reconstruct_B|]. apply okB_ret. fin.
  - apply separate_B.
Qed.

Lemma reach_in_clean h1 C roots a : invB h1 C -> incl roots C -> reachable h1 roots a -> In a C.
Proof.
  intros [_ F] Hr R. induction R as [a Ia La | a b Ra IH Ib Lb]; [auto|].
  destruct (F a IH) as (_ & _ & Z). auto.
Qed.

End CleanB.

(* ---- Part B, final statements: in mode Repaired everything reachable from a result is a NEW object *)
Lemma result_reach_new h cl : in_place cl = false ->
  forall a, reachable (fst (run Repaired cl h)) (snd (run Repaired cl h)) a -> length h <= a.
Proof.
  intros NI a Rout.
  destruct (run_B h cl NI h []) as (C & _ & I & _ & [Hc _]).
  - split; [lia|]. intros x [].
  - exact Logic.I.
  - split; simpl; [apply incl_nil_l|constructor].
  - simpl in Hc. pose proof (reach_in_clean h _ C _ a I Hc Rout) as Ia.
    destruct I as [_ F]. destruct (F a Ia) as (X & _ & _). exact X.
Qed.

(* ... hence nothing reachable from the result was reachable from ANY roots before the call *)
Lemma fresh_repaired_gen h cl roots : in_place cl = false ->
  forall a, reachable (fst (run Repaired cl h)) (snd (run Repaired cl h)) a -> reachable h roots a -> False.
Proof.
  intros NI a Rout Rin. apply result_reach_new in Rout; auto. apply reachable_lt in Rin. lia.
Qed.

Lemma fresh_repaired h cl : in_place cl = false ->
  forall a, reachable (fst (run Repaired cl h)) (snd (run Repaired cl h)) a ->
            reachable h (args_of cl) a -> In a (documented_shared cl).
Proof. intros NI a Rout Rin. exfalso. eapply fresh_repaired_gen; eauto. Qed.

(* destructive edits: arbitrary overwrites of objects that were reachable from the result when it was returned *)

Lemma apply_edits_old n : forall es h1, (forall e, In e es -> n <= fst e) ->
  forall a, a < n -> get (apply_edits h1 es) a = get h1 a.
Proof.
  induction es as [|e r IH]; intros h1 H a La; simpl; [reflexivity|].
  rewrite IH; [|intros; apply H; right; auto|auto].
  apply get_upd_other. specialize (H e (or_introl eq_refl)). lia.
Qed.

Lemma edits_leave_old h cl : in_place cl = false ->
  forall es, (forall e, In e es -> reachable (fst (run Repaired cl h)) (snd (run Repaired cl h)) (fst e)) ->
  forall a, a < length h -> get (apply_edits (fst (run Repaired cl h)) es) a = get h a.
Proof.
  intros NI es H a La.
  rewrite (apply_edits_old (length h)); auto.
  - apply frame_noninplace; auto.
  - intros e Ie. eapply result_reach_new; eauto.
Qed.

(* the computed reachability also stays inside the heap it is computed on *)
Lemma frame_reachable m h cl : in_place cl = false ->
  forall a, reachable h (args_of cl) a -> get (fst (run m cl h)) a = get h a.
Proof. intros NI a R. apply frame_noninplace; auto. eapply reachable_lt; eauto. Qed.

Lemma nth_firstn_lt {A} (l : list A) d : forall k n, n < k -> nth n (firstn k l) d = nth n l d.
Proof.
  induction l as [|x xs IH]; intros [|k] [|n] H; simpl; auto; try lia. apply IH. lia.
Qed.

Lemma grows_by_append m h cl : in_place cl = false -> exists new, fst (run m cl h) = h ++ new.
Proof.
  intros NI. destruct (frame_noninplace m h cl NI) as [L F].
  exists (skipn (length h) (fst (run m cl h))).
  rewrite <- (firstn_skipn (length h) (fst (run m cl h))) at 1. f_equal.
  apply nth_ext with (d := ONull) (d' := ONull).
  - rewrite firstn_length. lia.
  - intros n Hn. rewrite firstn_length in Hn. rewrite nth_firstn_lt by lia.
    apply F. lia.
Qed.

(* ---- later calls: after arbitrary edits of a result the arguments span exactly the same object graph *)

Lemma reachable_same h h' roots :
  (forall a, a < length h -> get h' a = get h a) -> length h <= length h' -> wf h ->
  (forall r, In r roots -> r < length h) ->
  forall a, reachable h' roots a <-> reachable h roots a.
Proof.
  intros F L W V a. split; intros R.
  - induction R as [a Ia La | a b Ra IH Ib Lb].
    + apply reach_root; auto.
    + pose proof (reachable_lt _ _ _ IH) as La. rewrite F in Ib by auto.
      eapply reach_step; eauto.
  - induction R as [a Ia La | a b Ra IH Ib Lb].
    + apply reach_root; auto. lia.
    + pose proof (reachable_lt _ _ _ Ra) as La. eapply reach_step; [exact IH| |lia].
      rewrite F by auto. exact Ib.
Qed.

Lemma apply_edits_length : forall es h, length (apply_edits h es) = length h.
Proof.
  induction es as [|e r IH]; intros h; simpl; [reflexivity|]. unfold apply_edits in *. simpl. rewrite IH. apply upd_length.
Qed.

Lemma later_call_same_arguments h cl : in_place cl = false -> wf h -> (forall r, In r (args_of cl) -> r < length h) ->
  forall es, (forall e, In e es -> reachable (fst (run Repaired cl h)) (snd (run Repaired cl h)) (fst e)) ->
  let h2 := apply_edits (fst (run Repaired cl h)) es in
  (forall a, reachable h2 (args_of cl) a <-> reachable h (args_of cl) a) /\
  (forall a, reachable h (args_of cl) a -> get h2 a = get h a).
Proof.
  intros NI W V es H h2.
  assert (F : forall a, a < length h -> get h2 a = get h a) by (intros; now apply edits_leave_old).
  split.
  - apply reachable_same; auto. unfold h2. rewrite apply_edits_length. apply frame_noninplace; auto.
  - intros a R. apply F. eapply reachable_lt; eauto.
Qed.

(* ------------------------------------------------------------------ Part C : confinement logic (every mode)
   Every NEW object references only new objects or objects that were reachable from the arguments; old objects are
   not written (calls that are not in place).  Hence whatever is reachable from a result is new or was reachable
   from the arguments: no other pre-existing state (module level or unrelated) can leak into a result. *)
Section ConfineR.
Variable h0 : heap.
(* SO = the OLD objects a new object may reference; it must be closed under the references of the old heap.
   SO := reachable h0 args  gives confinement (every mode);  SO := nothing  gives freshness (clean inputs). *)
Variable SO : addr -> Prop.
Hypothesis S_closed : forall a, SO a -> a < length h0 /\ (forall b, In b (refs (get h0 a)) -> b < length h0 -> SO b).

Definition freshR (a : addr) : Prop := length h0 <= a.
Definition QR (a : addr) : Prop := length h0 <= a \/ SO a.

Definition invR (h1 : heap) : Prop :=
  length h0 <= length h1 /\
  (forall a, a < length h0 -> get h1 a = get h0 a) /\
  (forall a, length h0 <= a -> Forall QR (refs (get h1 a))).

Definition okR {A} (fr : A -> Prop) (m : M A) : Prop :=
  forall h1, invR h1 -> invR (fst (m h1)) /\ fr (snd (m h1)).

Lemma fresh_QR a : freshR a -> QR a.
Proof. intros H; left; exact H. Qed.

Lemma Forall_fresh_QR l : Forall freshR l -> Forall QR l.
Proof. apply Forall_impl. exact fresh_QR. Qed.

Lemma invR_refl : (forall a, length h0 <= a -> Forall QR (refs (get h0 a))) -> invR h0.
Proof. intros H. split; [lia|]. split; auto. Qed.

Lemma QR_refs h1 a : invR h1 -> QR a -> Forall QR (refs (get h1 a)).
Proof.
  intros (L & F & C) [Fa|Sa]; [now apply C|].
  destruct (S_closed a Sa) as [La Hc]. rewrite F by auto.
  apply Forall_forall. intros b Ib.
  destruct (Nat.lt_ge_cases b (length h0)) as [Lb|Lb]; [right; now apply Hc | left; exact Lb].
Qed.

Lemma okR_ret {A} (fr : A -> Prop) x : fr x -> okR fr (ret x).
Proof. intros H h1 I. simpl. auto. Qed.

Lemma okR_bind {A B} (fa : A -> Prop) (fb : B -> Prop) (m : M A) (k : A -> M B) :
  okR fa m -> (forall x, fa x -> okR fb (k x)) -> okR fb (bind m k).
Proof.
  intros Hm Hk h1 I. unfold bind. cbv zeta. destruct (Hm h1 I) as [I2 F]. exact (Hk _ F _ I2).
Qed.

Lemma okR_weaken {A} (f1 f2 : A -> Prop) m : (forall x, f1 x -> f2 x) -> okR f1 m -> okR f2 m.
Proof. intros H Hm h1 I. destruct (Hm h1 I); auto. Qed.

Lemma okR_true {A} (fr : A -> Prop) m : okR fr m -> okR (fun _ => True) m.
Proof. apply okR_weaken; auto. Qed.

Lemma okR_alloc o : Forall QR (refs o) -> okR freshR (alloc o).
Proof.
  intros R h1 (L & F & C). unfold alloc; simpl.
  assert (LL : length (h1 ++ [o]) = S (length h1)) by (rewrite app_length; simpl; lia).
  split; [split; [lia|split]|exact L].
  - intros a La. rewrite get_app_old by lia. auto.
  - intros a La. destruct (Nat.lt_ge_cases a (length h1)) as [X|X].
    + rewrite get_app_old by auto. auto.
    + destruct (Nat.eq_dec a (length h1)) as [->|N]; [now rewrite get_app_new|].
      rewrite get_dangling by lia. constructor.
Qed.

Lemma okR_write a o : freshR a -> Forall QR (refs o) -> okR (fun _ => True) (write a o).
Proof.
  intros Fa R h1 (L & F & C). unfold write; simpl. split; [split; [now rewrite upd_length|split]|auto].
  - intros b Lb. rewrite get_upd_other; [auto|]. unfold freshR in Fa. lia.
  - intros b Lb. destruct (Nat.eq_dec a b) as [<-|N].
    + destruct (Nat.lt_ge_cases a (length h1)) as [X|X]; [now rewrite get_upd_same|].
      rewrite upd_dangling by auto. auto.
    + rewrite get_upd_other by auto. auto.
Qed.

Lemma okR_read a : QR a -> okR (fun o => Forall QR (refs o)) (read a).
Proof. intros Qa h1 I. simpl. split; [exact I|]. now apply QR_refs. Qed.

Lemma okR_read_any a : okR (fun _ => True) (read a).
Proof. intros h1 I. simpl. auto. Qed.

Lemma okR_mapM {A B} (fr : B -> Prop) (f : A -> M B) l :
  (forall x, In x l -> okR fr (f x)) -> okR (Forall fr) (mapM f l).
Proof.
  induction l as [|x r IH]; intros H; simpl.
  - apply okR_ret; constructor.
  - eapply okR_bind; [apply H; left; auto|]. intros y Fy.
    eapply okR_bind; [apply IH; intros; apply H; right; auto|]. intros ys Fys.
    apply okR_ret. constructor; auto.
Qed.

Ltac rbind := eapply okR_bind; [|intros ? ?; cbv beta in *].

Lemma Forall_concat {A} (P : A -> Prop) (ls : list (list A)) : Forall (Forall P) ls -> Forall P (concat ls).
Proof. induction 1; simpl; [constructor|apply Forall_app; auto]. Qed.

Lemma Forall_incl {A} (P : A -> Prop) (l l' : list A) : incl l l' -> Forall P l' -> Forall P l.
Proof. intros I F. rewrite Forall_forall in *. auto. Qed.

Lemma copy_leaf_R a : okR freshR (copy_leaf a).
Proof. unfold copy_leaf. rbind; [apply okR_read_any|]. apply okR_alloc. destruct x; simpl; constructor. Qed.

Lemma copy_list_R a : okR freshR (copy_list a).
Proof.
  unfold copy_list. rbind; [apply okR_read_any|].
  destruct x; try (apply okR_alloc; constructor).
  rbind; [apply okR_mapM; intros; apply copy_leaf_R|]. apply okR_alloc. simpl. now apply Forall_fresh_QR.
Qed.

Lemma copy_basis_R b : okR freshR (copy_basis b).
Proof.
  unfold copy_basis. rbind; [apply okR_read_any|].
  destruct x; try (apply okR_alloc; constructor).
  rbind; [apply okR_mapM; intros; apply copy_list_R|]. apply okR_alloc. simpl. now apply Forall_fresh_QR.
Qed.

Lemma copy_op_R deep a : QR a -> okR freshR (copy_op deep a).
Proof.
  intros Qa. unfold copy_op. rbind; [apply okR_read; exact Qa|].
  destruct x; try (apply okR_alloc; constructor).
  destruct basis as [b|]; [|apply okR_alloc; constructor].
  destruct deep.
  - rbind; [apply copy_basis_R|]. apply okR_alloc. simpl. constructor; [now apply fresh_QR|constructor].
  - apply okR_alloc. simpl in *. exact H.
Qed.

Lemma ops_of_R c : QR c -> okR (Forall QR) (ops_of c).
Proof.
  intros Qc. unfold ops_of. rbind; [apply okR_read; exact Qc|]. apply okR_ret.
  destruct x; simpl in *; auto; constructor.
Qed.

Lemma cregs_of_R c : okR (fun _ => True) (cregs_of c).
Proof. unfold cregs_of. rbind; [apply okR_read_any|]. now apply okR_ret. Qed.

Definition fresh_co (co : addr * list addr) : Prop := freshR (fst co) /\ Forall freshR (snd co).

Lemma circuit_copy_R deep c : QR c -> okR fresh_co (circuit_copy deep c).
Proof.
  intros Qc. unfold circuit_copy. rbind; [apply ops_of_R; exact Qc|]. rbind; [apply cregs_of_R|].
  rbind; [apply okR_mapM; intros a Ia; apply copy_op_R; rewrite Forall_forall in H; auto|].
  rbind; [apply okR_alloc; simpl; now apply Forall_fresh_QR|].
  apply okR_ret. split; auto.
Qed.

Lemma new_gate_R : okR freshR new_gate.
Proof. apply okR_alloc. constructor. Qed.

Lemma new_list_R n : okR freshR (new_list n).
Proof.
  unfold new_list. rbind; [apply okR_mapM; intros; apply new_gate_R|]. apply okR_alloc. simpl. now apply Forall_fresh_QR.
Qed.

Lemma new_basis_R : okR freshR new_basis.
Proof.
  unfold new_basis. rbind; [apply okR_mapM; intros; apply new_list_R|]. apply okR_alloc. simpl. now apply Forall_fresh_QR.
Qed.

Lemma new_qpd2_R l : okR (fun gb => freshR (fst gb) /\ freshR (snd gb)) (new_qpd2 l).
Proof.
  unfold new_qpd2. rbind; [apply new_basis_R|].
  rbind; [apply okR_alloc; simpl; constructor; [now apply fresh_QR|constructor]|].
  apply okR_ret; auto.
Qed.

Lemma set_op_R c i g : freshR c -> QR g -> okR (fun _ => True) (set_op c i g).
Proof.
  intros Fc Qg. unfold set_op. rbind; [apply ops_of_R; now apply fresh_QR|]. rbind; [apply cregs_of_R|].
  apply okR_write; auto. simpl. eapply Forall_incl; [apply incl_upd|]. constructor; auto.
Qed.

Lemma insert_op_R c i g : freshR c -> QR g -> okR (fun _ => True) (insert_op c i g).
Proof.
  intros Fc Qg. unfold insert_op. rbind; [apply ops_of_R; now apply fresh_QR|]. rbind; [apply cregs_of_R|].
  apply okR_write; auto. simpl. eapply Forall_incl; [apply incl_insert|]. constructor; auto.
Qed.

Lemma pcq_loop_R c spans (P : addr -> Prop) : freshR c -> (forall a, freshR a -> P a) -> (forall a, P a -> QR a) ->
  forall ops i, Forall P ops -> okR (Forall P) (pcq_loop c i ops spans).
Proof.
  intros Fc FP PQ. induction ops as [|a r IH]; intros i F; simpl.
  - apply okR_ret; constructor.
  - inversion F as [|? ? Pa Fr]; subst.
    rbind; [apply okR_read_any|].
    eapply okR_bind with (fa := P).
    + destruct (nth i spans false && negb (is_qpd2 x)).
      * rbind; [apply new_qpd2_R|]. destruct H0 as [G1 G2]. rbind; [apply set_op_R; [auto|now apply fresh_QR]|]. apply okR_ret. now apply FP.
      * now apply okR_ret.
    + intros a' Pa'. rbind; [apply IH; auto|]. apply okR_ret. constructor; auto.
Qed.

Lemma pcq_R m c spans : okR fresh_co (circuit_copy (fix6 m) c) -> okR fresh_co (partition_circuit_qubits m false c spans).
Proof.
  intros Qc. unfold partition_circuit_qubits, target. rbind; [exact Qc|].
  destruct H as [Fc Fo].
  rbind; [apply (pcq_loop_R (fst x) spans freshR); auto using fresh_QR|].
  apply okR_ret. split; auto.
Qed.

Lemma cut_one_R c gid : freshR c -> okR freshR (cut_one c gid).
Proof.
  intros Fc. unfold cut_one. rbind; [apply new_qpd2_R|]. destruct H as [G1 G2].
  rbind; [apply set_op_R; [auto|now apply fresh_QR]|]. now apply okR_ret.
Qed.

Lemma cut_gates_R m c gids : okR fresh_co (circuit_copy (fix6 m) c) ->
  okR (fun cb => freshR (fst cb) /\ freshR (snd cb)) (cut_gates m false c gids).
Proof.
  intros Qc. unfold cut_gates, target. rbind; [exact Qc|]. destruct H as [Fc Fo].
  rbind; [apply okR_mapM; intros; apply cut_one_R; auto|].
  rbind; [apply okR_alloc; simpl; now apply Forall_fresh_QR|]. apply okR_ret. auto.
Qed.

Lemma relabel_loop_R : forall ops i, Forall freshR ops -> okR (Forall QR) (relabel_loop ops i).
Proof.
  induction ops as [|a r IH]; intros i F; simpl.
  - apply okR_ret; constructor.
  - inversion F as [|? ? Fa Fr]; subst.
    rbind; [apply okR_read; now apply fresh_QR|].
    destruct x; try (apply IH; auto).
    destruct k; try (apply IH; auto). destruct basis as [b|]; try (apply IH; auto).
    simpl in H. inversion H as [|? ? Qb _]; subst.
    rbind; [apply okR_write; auto; simpl; constructor; auto|].
    rbind; [apply IH; auto|]. apply okR_ret. constructor; auto.
Qed.

Lemma sub_piece_R l a s : QR a -> okR (Forall QR) (sub_piece l a s).
Proof.
  intros Qa. unfold sub_piece. rbind; [apply okR_read; exact Qa|].
  assert (D : okR (Forall QR) (if Nat.eqb (fst s) l then (x0 <- copy_op false a ;; ret [x0]) else ret [])).
  { destruct (Nat.eqb (fst s) l); [|apply okR_ret; constructor].
    rbind; [apply copy_op_R; exact Qa|]. apply okR_ret. constructor; [now apply fresh_QR|constructor]. }
  destruct x; auto. destruct k; auto. destruct basis as [b|]; auto.
  simpl in H. inversion H as [|? ? Qb _]; subst.
  eapply okR_bind with (fa := Forall QR).
  - destruct (Nat.eqb (fst s) l); [|apply okR_ret; constructor].
    rbind; [apply okR_alloc; simpl; constructor; auto|]. apply okR_ret. constructor; [now apply fresh_QR|constructor].
  - intros p0 F0. eapply okR_bind with (fa := Forall QR).
    + destruct (Nat.eqb (snd s) l); [|apply okR_ret; constructor].
      rbind; [apply okR_alloc; simpl; constructor; auto|]. apply okR_ret. constructor; [now apply fresh_QR|constructor].
    + intros p1 F1. apply okR_ret. apply Forall_app; auto.
Qed.

Lemma build_sub_R ops sides l : Forall QR ops -> okR freshR (build_sub ops sides l).
Proof.
  intros Fo. unfold build_sub.
  rbind; [apply okR_mapM; intros [a s] Ias; apply sub_piece_R; rewrite Forall_forall in Fo; apply Fo; eapply in_combine_l; eauto|].
  apply okR_alloc. simpl. now apply Forall_concat.
Qed.

Lemma sub_obs_R p l : okR freshR (sub_obs p l).
Proof. unfold sub_obs. rbind; [apply okR_read_any|]. apply okR_alloc. destruct x; simpl; constructor. Qed.

Lemma partition_problem_R m c spans sides nl obs : okR fresh_co (circuit_copy (fix6 m) c) ->
  okR (Forall QR) (partition_problem m c spans sides nl obs).
Proof.
  intros Qc. unfold partition_problem. rbind; [apply pcq_R; exact Qc|]. destruct H as [Fc Fo]. cbv zeta.
  rbind; [apply relabel_loop_R; auto|].
  rbind; [apply okR_mapM; intros; apply build_sub_R; now apply Forall_fresh_QR|].
  rbind; [apply okR_alloc; simpl; now apply Forall_fresh_QR|].
  rbind; [apply okR_alloc; simpl; auto|].
  destruct obs as [p|].
  - rbind; [apply okR_mapM; intros; apply sub_obs_R|].
    rbind; [apply okR_alloc; simpl; now apply Forall_fresh_QR|].
    apply okR_ret. repeat (apply Forall_cons; [now apply fresh_QR|]); apply Forall_nil.
  - apply okR_ret. repeat (apply Forall_cons; [now apply fresh_QR|]); apply Forall_nil.
Qed.

Lemma wire_piece_R m a : QR a -> okR QR (wire_piece m a).
Proof.
  intros Qa. unfold wire_piece. rbind; [apply okR_read_any|].
  assert (D : okR QR (if fix10 m then copy_op true a else ret a)).
  { destruct (fix10 m); [eapply okR_weaken; [apply fresh_QR|apply copy_op_R; exact Qa]|now apply okR_ret]. }
  destruct x; auto. destruct k; auto.
  - eapply okR_weaken; [apply fresh_QR|]. apply okR_alloc. constructor.
  - rbind; [apply new_qpd2_R|]. destruct H0 as [G1 G2]. apply okR_ret. now apply fresh_QR.
Qed.

Lemma cut_wires_R m c : okR (Forall (fun a => okR QR (wire_piece m a))) (ops_of c) -> okR freshR (cut_wires m c).
Proof.
  intros Qc. unfold cut_wires. rbind; [exact Qc|]. rbind; [apply cregs_of_R|].
  rbind; [apply okR_mapM; intros a Ia; rewrite Forall_forall in H; auto|].
  apply okR_alloc. simpl. exact H1.
Qed.

Lemma expand_R o c1 c2 : okR freshR (expand_observables o c1 c2).
Proof. unfold expand_observables. rbind; [apply okR_read_any|]. apply okR_alloc. destruct x; simpl; constructor. Qed.

Lemma insert_markers_R c : freshR c -> forall wires, okR (fun _ => True) (insert_markers c wires).
Proof.
  intros Fc. induction wires as [|p r IH]; simpl; [now apply okR_ret|].
  rbind; [apply okR_alloc; constructor|]. rbind; [apply insert_op_R; [auto|now apply fresh_QR]|]. apply IH.
Qed.

Lemma find_cuts_R m c gids wires : okR fresh_co (circuit_copy (fix6 m) c) ->
  okR (fun cm => freshR (fst cm) /\ freshR (snd cm)) (find_cuts m c gids wires).
Proof.
  intros Qc. unfold find_cuts. rbind; [apply cut_gates_R; exact Qc|]. destruct H as [Fc Fb].
  rbind; [apply insert_markers_R; auto|]. rbind; [apply okR_alloc; constructor|]. apply okR_ret. auto.
Qed.

Lemma set_bid_R a j : freshR a -> okR (fun _ => True) (set_bid a j).
Proof.
  intros Fa. unfold set_bid. rbind; [apply okR_read; now apply fresh_QR|].
  destruct x; try now apply okR_ret. apply okR_write; auto.
Qed.

Lemma set_bids_R ops : Forall freshR ops -> forall ids mids, okR (fun _ => True) (set_bids ops ids mids).
Proof.
  intros F. induction ids as [|g ir IH]; intros [|j jr]; simpl; try now apply okR_ret.
  rbind.
  - destruct (nth_error ops g) as [a|] eqn:E; [|now apply (okR_ret (fun _ => True))].
    apply set_bid_R. rewrite Forall_forall in F. apply F. eapply nth_error_In; eauto.
  - apply IH.
Qed.

Lemma slot_item_R m a : QR a -> okR QR (slot_item m a).
Proof.
  intros Qa. unfold slot_item. rbind; [apply okR_read_any|].
  assert (D : okR QR (if fix11 m then copy_leaf a else ret a)).
  { destruct (fix11 m); [eapply okR_weaken; [apply fresh_QR|apply copy_leaf_R]|now apply okR_ret]. }
  destruct x; auto. destruct k; auto.
  eapply okR_weaken; [apply fresh_QR|]. apply okR_alloc. constructor.
Qed.

Lemma slot_ops_R m maps i : Forall QR maps -> okR (Forall QR) (slot_ops m maps i).
Proof.
  intros Fm. unfold slot_ops. destruct (nth_error maps i) as [la|] eqn:E; [|apply okR_ret; constructor].
  assert (Ql : QR la) by (rewrite Forall_forall in Fm; apply Fm; eapply nth_error_In; eauto).
  rbind; [apply okR_read; exact Ql|].
  destruct x; try (apply okR_ret; constructor).
  apply okR_mapM. intros a Ia. apply slot_item_R. simpl in H. rewrite Forall_forall in H. auto.
Qed.

Lemma splice_piece_R m a : QR a -> okR (Forall QR) (splice_piece m a).
Proof.
  intros Qa. unfold splice_piece. rbind; [apply okR_read; exact Qa|].
  destruct x; try (apply okR_ret; constructor).
  destruct bid as [j|], basis as [b|].
  - simpl in H. inversion H as [|? ? Qb _]; subst.
    rbind; [apply okR_read; exact Qb|].
    destruct x; try (apply okR_ret; constructor).
    destruct k; try (apply okR_ret; constructor).
    + rbind; [apply slot_ops_R; exact H0|]. rbind; [apply slot_ops_R; exact H0|]. apply okR_ret. apply Forall_app; auto.
    + apply slot_ops_R. exact H0.
  - apply okR_ret. apply Forall_cons; [exact Qa|apply Forall_nil].
  - apply okR_ret. apply Forall_nil.
  - apply okR_ret. apply Forall_cons; [exact Qa|apply Forall_nil].
Qed.

Lemma dqi_body_R m c ops ids mids : freshR c -> Forall freshR ops -> okR (fun _ => True) (dqi_body m c ops ids mids).
Proof.
  intros Fc Fo. unfold dqi_body. rbind; [apply set_bids_R; auto|].
  rbind; [apply okR_mapM; intros a Ia; apply splice_piece_R; apply fresh_QR; rewrite Forall_forall in Fo; auto|].
  rbind; [apply cregs_of_R|]. apply okR_write; auto. simpl. now apply Forall_concat.
Qed.

Lemma dqi_R m c ids mids : okR fresh_co (circuit_copy false c) -> okR freshR (decompose_qpd_instructions m false c ids mids).
Proof.
  intros Qc. unfold decompose_qpd_instructions, target. rbind; [exact Qc|]. destruct H as [Fc Fo].
  rbind; [apply dqi_body_R; auto|]. now apply okR_ret.
Qed.

Lemma qpd_ids_of_R ops : okR (fun _ => True) (qpd_ids_of ops).
Proof. intros h1 I. simpl. auto. Qed.

Lemma one_experiment_R m c mids : okR fresh_co (circuit_copy false c) -> okR freshR (one_experiment m c mids).
Proof.
  intros Qc. unfold one_experiment. rbind; [exact Qc|]. destruct H as [Fc Fo].
  rbind; [apply qpd_ids_of_R|]. rbind; [apply dqi_body_R; auto|]. now apply okR_ret.
Qed.

Lemma experiments_for_sample_R m circs ng ci sample : Forall (fun c => okR fresh_co (circuit_copy false c)) circs ->
  okR (Forall QR) (experiments_for_sample m circs ng ci sample).
Proof.
  intros Fc. unfold experiments_for_sample. rbind.
  - apply okR_mapM with (fr := Forall QR). intros [[c g] cidx] I.
    assert (Qc : okR fresh_co (circuit_copy false c)).
    { rewrite Forall_forall in Fc. apply Fc. apply in_combine_l in I. apply in_combine_l in I. exact I. }
    eapply okR_weaken; [apply Forall_fresh_QR|]. apply okR_mapM. intros; now apply one_experiment_R.
  - apply okR_ret. now apply Forall_concat.
Qed.

Lemma generate_R m circs obs samples ng ci : Forall (fun c => okR fresh_co (circuit_copy false c)) circs ->
  okR (Forall QR) (generate_cutting_experiments m circs obs samples ng ci).
Proof.
  intros Fc. unfold generate_cutting_experiments.
  rbind; [apply okR_mapM; intros; now apply experiments_for_sample_R|].
  rbind; [apply okR_alloc; simpl; now apply Forall_concat|].
  rbind; [apply okR_alloc; constructor|].
  apply okR_ret. repeat (apply Forall_cons; [now apply fresh_QR|]); apply Forall_nil.
Qed.

Lemma reconstruct_R rs co obs : okR freshR (reconstruct rs co obs).
Proof. unfold reconstruct. apply okR_alloc. constructor. Qed.

Lemma separate_R m c sides nl : okR (Forall (fun a => okR freshR (copy_op (fix6 m) a))) (ops_of c) ->
  okR (Forall QR) (separate_circuit m c sides nl).
Proof.
  intros Qc. unfold separate_circuit. rbind; [exact Qc|]. rbind; [apply cregs_of_R|].
  rbind.
  - apply okR_mapM with (fr := freshR). intros l _. unfold sep_sub.
    rbind; [|apply okR_alloc; simpl; apply Forall_concat; exact H1].
    apply okR_mapM with (fr := Forall QR). intros [a s] Ias. unfold sep_piece; simpl.
    destruct (Nat.eqb (fst s) l); [|apply okR_ret; constructor].
    rbind; [rewrite Forall_forall in H; apply H; eapply in_combine_l; eauto|].
    apply okR_ret. constructor; [now apply fresh_QR|constructor].
  - rbind; [apply okR_alloc; simpl; now apply Forall_fresh_QR|].
    rbind; [apply okR_alloc; constructor|].
    apply okR_ret. repeat (apply Forall_cons; [now apply fresh_QR|]); apply Forall_nil.
Qed.

(* ---- reading OLD objects whose content is known (frame): the boundary used for clean inputs *)
Lemma okR_read_old a : a < length h0 -> okR (fun o => o = get h0 a) (read a).
Proof. intros La h1 I. simpl. split; [exact I|]. destruct I as (_ & F & _). now apply F. Qed.

Lemma ops_of_old c (P : addr -> Prop) : c < length h0 -> Forall P (ops_at h0 c) -> okR (Forall P) (ops_of c).
Proof.
  intros Lc FP. unfold ops_of. rbind; [apply okR_read_old; exact Lc|]. hnf in H; subst x. apply okR_ret.
  unfold ops_at in FP. destruct (get h0 c); auto.
Qed.

Lemma copy_op_old deep a : a < length h0 -> op_nobasis (get h0 a) = true -> okR freshR (copy_op deep a).
Proof.
  intros La NB. unfold copy_op. rbind; [apply okR_read_old; exact La|]. hnf in H; subst x.
  destruct (get h0 a); try (apply okR_alloc; constructor).
  destruct basis as [b|]; [discriminate|apply okR_alloc; constructor].
Qed.

Lemma circuit_copy_old deep c : circ_clean h0 c = true -> okR fresh_co (circuit_copy deep c).
Proof.
  unfold circ_clean, valid. intros CC. apply andb_prop in CC as [Lc Fo]. apply Nat.ltb_lt in Lc.
  rewrite forallb_forall in Fo.
  unfold circuit_copy.
  rbind; [apply (ops_of_old c (fun a => a < length h0 /\ op_nobasis (get h0 a) = true)); [exact Lc|]|].
  - apply Forall_forall. intros a Ia. specialize (Fo a Ia). apply andb_prop in Fo as [X Y]. apply Nat.ltb_lt in X. auto.
  - rbind; [apply cregs_of_R|].
    rbind; [apply okR_mapM; intros a Ia; rewrite Forall_forall in H; destruct (H a Ia); now apply copy_op_old|].
    rbind; [apply okR_alloc; simpl; now apply Forall_fresh_QR|].
    apply okR_ret. split; auto.
Qed.

Lemma ops_copy_old deep c : circ_clean h0 c = true -> okR (Forall (fun a => okR freshR (copy_op deep a))) (ops_of c).
Proof.
  unfold circ_clean, valid. intros CC. apply andb_prop in CC as [Lc Fo]. apply Nat.ltb_lt in Lc.
  rewrite forallb_forall in Fo. apply ops_of_old; [exact Lc|].
  apply Forall_forall. intros a Ia. specialize (Fo a Ia). apply andb_prop in Fo as [X Y]. apply Nat.ltb_lt in X.
  now apply copy_op_old.
Qed.

Lemma wire_piece_old m a : a < length h0 -> op_wireclean (get h0 a) = true -> okR QR (wire_piece m a).
Proof.
  intros La WC. unfold wire_piece. rbind; [apply okR_read_old; exact La|]. hnf in H; subst x.
  destruct (get h0 a); try discriminate. destruct k; try discriminate.
  - eapply okR_weaken; [apply fresh_QR|]. apply okR_alloc. constructor.
  - rbind; [apply new_qpd2_R|]. destruct H as [G1 G2]. apply okR_ret. now apply fresh_QR.
Qed.

Lemma ops_wire_old m c : wires_clean h0 c = true -> okR (Forall (fun a => okR QR (wire_piece m a))) (ops_of c).
Proof.
  unfold wires_clean, valid. intros CC. apply andb_prop in CC as [Lc Fo]. apply Nat.ltb_lt in Lc.
  rewrite forallb_forall in Fo. apply ops_of_old; [exact Lc|].
  apply Forall_forall. intros a Ia. specialize (Fo a Ia). apply andb_prop in Fo as [X Y]. apply Nat.ltb_lt in X.
  now apply wire_piece_old.
Qed.

End ConfineR.

(* ---- Part C, final statements *)
Lemma reach_S_closed h roots : forall a, reachable h roots a ->
  a < length h /\ (forall b, In b (refs (get h a)) -> b < length h -> reachable h roots b).
Proof. intros a R. split; [eapply reachable_lt; eauto|]. intros b Ib Lb. eapply reach_step; eauto. Qed.

Lemma args_QR h roots : Forall (QR h (reachable h roots)) roots.
Proof.
  apply Forall_forall. intros a Ia.
  destruct (Nat.lt_ge_cases a (length h)) as [L|L]; [right; now apply reach_root | left; exact L].
Qed.

(* the shape shared by the confinement proof (arguments readable because reachable) and the freshness proof
   (arguments readable because clean): every entry point only needs its argument circuits to be readable *)
(* the argument circuits that a call copies with QuantumCircuit.copy() *)
Definition circ_args (cl : call) : list addr :=
  match cl with
  | CPcq _ c _ | CCutGates _ c _ | CPartition c _ _ _ _ | CFindCuts c _ _ | CDqi _ c _ _ => [c]
  | CGenerate circs _ _ _ _ => circs
  | _ => []
  end.

Lemma circ_args_args cl c : In c (circ_args cl) -> In c (args_of cl).
Proof. destruct cl; simpl; intuition. Qed.

Lemma run_R_gen h (SO : addr -> Prop) (SC : forall a, SO a -> a < length h /\ (forall b, In b (refs (get h a)) -> b < length h -> SO b)) m cl :
  in_place cl = false ->
  (forall deep c, In c (circ_args cl) -> okR h SO (fresh_co h) (circuit_copy deep c)) ->
  (forall c, cl = CCutWires c -> okR h SO (Forall (fun a => okR h SO (QR h SO) (wire_piece m a))) (ops_of c)) ->
  (forall c sides nl, cl = CSeparate c sides nl -> okR h SO (Forall (fun a => okR h SO (freshR h) (copy_op (fix6 m) a))) (ops_of c)) ->
  okR h SO (Forall (QR h SO)) (run m cl).
Proof.
  intros NI RC RW RS.
  destruct cl; simpl in NI; subst; unfold run.
  - eapply okR_bind; [apply pcq_R; first [exact SC | apply (RC (fix6 m) c); simpl; auto]|]. intros x [Fc _]. apply okR_ret.
    apply Forall_cons; [now apply fresh_QR|apply Forall_nil].
  - eapply okR_bind; [apply cut_gates_R; first [exact SC | apply (RC (fix6 m) c); simpl; auto]|]. intros x [F1 F2]. apply okR_ret.
    apply Forall_cons; [now apply fresh_QR|]. apply Forall_cons; [now apply fresh_QR|apply Forall_nil].
  - apply partition_problem_R; first [exact SC | apply (RC (fix6 m) c); simpl; auto].
  - eapply okR_bind; [apply cut_wires_R; first [exact SC | now apply RW]|]. intros x Fx. apply okR_ret.
    apply Forall_cons; [now apply fresh_QR|apply Forall_nil].
  - eapply okR_bind; [apply expand_R|]. intros x Fx. apply okR_ret.
    apply Forall_cons; [now apply fresh_QR|apply Forall_nil].
  - eapply okR_bind; [apply find_cuts_R; first [exact SC | apply (RC (fix6 m) c); simpl; auto]|]. intros x [F1 F2]. apply okR_ret.
    apply Forall_cons; [now apply fresh_QR|]. apply Forall_cons; [now apply fresh_QR|apply Forall_nil].
  - apply generate_R; try exact SC. apply Forall_forall. intros c Ic.
    apply (RC false c). exact Ic.
  - eapply okR_bind; [apply dqi_R; first [exact SC | apply (RC false c); simpl; auto]|]. intros x Fx. apply okR_ret.
    apply Forall_cons; [now apply fresh_QR|apply Forall_nil].
  - eapply okR_bind; [apply reconstruct_R|]. intros x Fx. apply okR_ret.
    apply Forall_cons; [now apply fresh_QR|apply Forall_nil].
  - apply separate_R; try exact SC. eapply RS; reflexivity.
Qed.

Lemma run_R h m cl : in_place cl = false ->
  okR h (reachable h (args_of cl)) (Forall (QR h (reachable h (args_of cl)))) (run m cl).
Proof.
  intros NI. pose proof (args_QR h (args_of cl)) as QA. rewrite Forall_forall in QA.
  pose proof (reach_S_closed h (args_of cl)) as SC.
  apply run_R_gen; auto.
  - intros deep c Ic. apply circuit_copy_R; [exact SC|]. apply QA. now apply circ_args_args.
  - intros c ->. eapply okR_weaken; [|apply ops_of_R; [exact SC|apply QA; simpl; auto]].
    intros ops F. eapply Forall_impl; [|exact F]. intros a Qa. now apply wire_piece_R.
  - intros c sides nl ->. eapply okR_weaken; [|apply ops_of_R; [exact SC|apply QA; simpl; auto]].
    intros ops F. eapply Forall_impl; [|exact F]. intros a Qa. now apply copy_op_R.
Qed.

(* whatever is reachable from a result - in EVERY mode, in particular on the model of the current tree - is a new
   object or was reachable from the arguments of the call *)
Lemma result_confined m h cl : in_place cl = false ->
  forall a, reachable (fst (run m cl h)) (snd (run m cl h)) a ->
            length h <= a \/ reachable h (args_of cl) a.
Proof.
  intros NI.
  assert (I0 : invR h (reachable h (args_of cl)) h).
  { apply invR_refl. intros a La. rewrite get_dangling by exact La. constructor. }
  destruct (run_R h m cl NI h I0) as [I F].
  intros a R. induction R as [a Ia La | a b Ra IH Ib Lb].
  - rewrite Forall_forall in F. exact (F a Ia).
  - pose proof (QR_refs h _ (reach_S_closed h (args_of cl)) _ a I IH) as Fr. rewrite Forall_forall in Fr. exact (Fr b Ib).
Qed.

(* ---- Part D: clean inputs.  With S = nothing every new object references only new objects, in EVERY mode:
   on inputs outside the sharing classes the model of the current tree shares nothing either *)
Lemma run_D h m cl : in_place cl = false -> clean h cl = true ->
  okR h (fun _ => False) (Forall (QR h (fun _ => False))) (run m cl).
Proof.
  intros NI CL.
  assert (SC : forall a, (fun _ : addr => False) a -> a < length h /\ (forall b, In b (refs (get h a)) -> b < length h -> False))
    by (intros a []).
  apply run_R_gen; auto.
  - intros deep c Ic. apply circuit_copy_old.
    destruct cl; simpl in CL, Ic; try contradiction; try (destruct Ic as [<-|[]]; exact CL).
    rewrite forallb_forall in CL. now apply CL.
  - intros c ->. simpl in CL. now apply ops_wire_old.
  - intros c sides nl ->. simpl in CL. now apply ops_copy_old.
Qed.

Lemma result_reach_new_clean m h cl : in_place cl = false -> clean h cl = true ->
  forall a, reachable (fst (run m cl h)) (snd (run m cl h)) a -> length h <= a.
Proof.
  intros NI CL.
  assert (SC : forall a, (fun _ : addr => False) a -> a < length h /\ (forall b, In b (refs (get h a)) -> b < length h -> False))
    by (intros a []).
  assert (I0 : invR h (fun _ => False) h).
  { apply invR_refl. intros a La. rewrite get_dangling by exact La. constructor. }
  destruct (run_D h m cl NI CL h I0) as [I F].
  assert (G : forall a, reachable (fst (run m cl h)) (snd (run m cl h)) a -> QR h (fun _ => False) a).
  { intros a R. induction R as [a Ia La | a b Ra IH Ib Lb].
    - rewrite Forall_forall in F. exact (F a Ia).
    - pose proof (QR_refs h _ SC _ a I IH) as Fr. rewrite Forall_forall in Fr. exact (Fr b Ib). }
  intros a R. destruct (G a R) as [X|[]]. exact X.
Qed.

(* edits of a result can only hit new objects or objects that were reachable from the arguments (every mode) *)
Lemma apply_edits_other a : forall es h1, (forall e, In e es -> fst e <> a) -> get (apply_edits h1 es) a = get h1 a.
Proof.
  induction es as [|e r IH]; intros h1 H; simpl; [reflexivity|].
  unfold apply_edits in *. simpl. rewrite IH by (intros; apply H; right; auto).
  apply get_upd_other. apply H. left; auto.
Qed.

Lemma edits_confined m h cl : in_place cl = false ->
  forall es, (forall e, In e es -> reachable (fst (run m cl h)) (snd (run m cl h)) (fst e)) ->
  forall a, a < length h -> ~ reachable h (args_of cl) a -> get (apply_edits (fst (run m cl h)) es) a = get h a.
Proof.
  intros NI es H a La NR.
  rewrite apply_edits_other.
  - now apply frame_noninplace.
  - intros e Ie E. destruct (result_confined m h cl NI _ (H e Ie)) as [X|X]; [lia|]. apply NR. now rewrite <- E.
Qed.

(* two calls on disjoint argument graphs: their results share nothing old (no hidden common state in the model) *)
Lemma results_share_only_arguments m m' h cl cl' : in_place cl = false -> in_place cl' = false ->
  let h1 := fst (run m cl h) in
  forall a, a < length h ->
    reachable h1 (snd (run m cl h)) a -> reachable (fst (run m' cl' h1)) (snd (run m' cl' h1)) a ->
    reachable h (args_of cl) a /\ reachable h1 (args_of cl') a.
Proof.
  intros NI NI' h1 a La R1 R2. split.
  - destruct (result_confined m h cl NI a R1) as [X|X]; [lia|exact X].
  - destruct (result_confined m' h1 cl' NI' a R2) as [X|X]; [|exact X].
    pose proof (proj1 (frame_noninplace m h cl NI)). unfold h1 in X. lia.
Qed.

Lemma wfb_wf h : wfb h = true -> wf h.
Proof.
  unfold wfb, wf, get. intros H a La b Ib. rewrite forallb_forall in H.
  specialize (H (nth a h ONull) (nth_In h ONull La)). rewrite forallb_forall in H.
  apply Nat.ltb_lt. now apply H.
Qed.

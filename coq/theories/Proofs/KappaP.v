(* Proofs/KappaP.v — lemmas about Model/Kappa.v (property C15). *)
From Coq Require Import String Ascii QArith Qabs Reals Qreals Lra Lia.
From CKT Require Import Common.Base Extracted.Facts Model.Kappa.
Close Scope Q_scope.
Local Open Scope R_scope.

(* ------------------------------------------------------------------------------------ *)
(* the extracted lists, decoded                                                           *)
(* ------------------------------------------------------------------------------------ *)

Lemma rot_exprs_eq :
  rot_exprs = [CSq CCos; CSq CSin; CNeg (CMul CCos CSin); CMul CCos CSin;
               CNeg (CMul CCos CSin); CMul CCos CSin].
Proof. vm_compute. reflexivity. Qed.

Definition RE2 j k := CMul (CConst (2#1)) (CRe j k).
Definition REh j k := CMul (CConst (1#2)) (CRe j k).
Definition REmh j k := CMul (CConst (-1#2)) (CRe j k).
Definition REm2 j k := CMul (CConst (-2#1)) (CRe j k).
Definition IMp j k := CIm j k.
Definition IMm j k := CNeg (CIm j k).

Lemma nonlocal_exprs_eq :
  nonlocal_exprs =
  [CAbs2 0; CAbs2 1; CAbs2 2; CAbs2 3;
   RE2 0 1; RE2 0 2; RE2 0 3;
   REh 1 2; REmh 1 2; REmh 1 2; REh 1 2;
   REh 2 3; REmh 2 3; REmh 2 3; REh 2 3;
   REh 3 1; REmh 3 1; REmh 3 1; REh 3 1;
   REmh 0 1; REh 0 1; REh 0 1; REmh 0 1;
   REmh 0 2; REh 0 2; REh 0 2; REmh 0 2;
   REmh 0 3; REh 0 3; REh 0 3; REmh 0 3;
   REm2 1 2; REm2 2 3; REm2 3 1;
   IMp 0 1; IMm 0 1; IMp 0 1; IMm 0 1;
   IMp 0 2; IMm 0 2; IMp 0 2; IMm 0 2;
   IMp 0 3; IMm 0 3; IMp 0 3; IMm 0 3;
   IMp 1 2; IMm 1 2; IMp 1 2; IMm 1 2;
   IMp 2 3; IMm 2 3; IMp 2 3; IMm 2 3;
   IMp 3 1; IMm 3 1; IMp 3 1; IMm 3 1]%nat.
Proof. vm_compute. reflexivity. Qed.

(* ------------------------------------------------------------------------------------ *)
(* Q -> R                                                                                 *)
(* ------------------------------------------------------------------------------------ *)

Lemma Q2R_abs (x : Q) : Rabs (Q2R x) = Q2R (Qabs x).
Proof.
  apply Qabs_case; intros H.
  - apply Rabs_pos_eq. replace 0 with (Q2R 0) by (unfold Q2R; simpl; lra). now apply Qle_Rle.
  - rewrite Q2R_opp. apply Rabs_left1. replace 0 with (Q2R 0) by (unfold Q2R; simpl; lra). now apply Qle_Rle.
Qed.

Lemma Q2R_0 : Q2R (0#1) = 0.
Proof. unfold Q2R; simpl; lra. Qed.

Lemma Q2R_red q : Q2R (Qred q) = Q2R q.
Proof. apply Qeq_eqR, Qred_correct. Qed.

Lemma Q2R_qadd a b : Q2R (qadd a b) = Q2R a + Q2R b.
Proof. unfold qadd. now rewrite Q2R_red, Q2R_plus. Qed.

Lemma qadd_eq a b : (qadd a b == a + b)%Q.
Proof. apply Qred_correct. Qed.

Lemma qmul_eq a b : (qmul a b == a * b)%Q.
Proof. apply Qred_correct. Qed.

Lemma kappaR_Q2R (l : list Q) : kappaR (map Q2R l) = Q2R (kappaQ l).
Proof.
  induction l as [|x l IH]; simpl.
  - now rewrite Q2R_0.
  - rewrite Q2R_qadd, IH, Q2R_abs. reflexivity.
Qed.

Lemma kappaR_nonneg (l : list R) : 0 <= kappaR l.
Proof. induction l as [|x l IH]; simpl; [lra|]. pose proof (Rabs_pos x). lra. Qed.

Lemma kappaQ_nonneg (l : list Q) : (0 <= kappaQ l)%Q.
Proof.
  induction l as [|x l IH]; simpl; [apply Qle_refl|].
  rewrite qadd_eq. pose proof (Qabs_nonneg x) as H.
  replace (0#1)%Q with ((0#1) + (0#1))%Q by reflexivity. now apply Qplus_le_compat.
Qed.

(* kappa is the plain sum of the absolute values *)
Lemma kappaQ_sum (l : list Q) : (kappaQ l == sumQ (map Qabs l))%Q.
Proof. induction l as [|x l IH]; simpl; [reflexivity|]. now rewrite qadd_eq, IH. Qed.

(* ------------------------------------------------------------------------------------ *)
(* Q(sqrt 2) -> R is a ring homomorphism; evaluation commutes with it                     *)
(* ------------------------------------------------------------------------------------ *)

Lemma sqrt2_sq : sqrt 2 * sqrt 2 = 2.
Proof. apply sqrt_def; lra. Qed.

Lemma q2R_ofQ q : q2R (q2_ofQ q) = Q2R q.
Proof. unfold q2R, q2_ofQ; simpl. rewrite Q2R_0. lra. Qed.

Lemma q2R_add x y : q2R (q2_add x y) = q2R x + q2R y.
Proof. unfold q2R, q2_add; simpl. rewrite !Q2R_plus. lra. Qed.

Lemma q2R_neg x : q2R (q2_neg x) = - q2R x.
Proof. unfold q2R, q2_neg; simpl. rewrite !Q2R_opp. lra. Qed.

Lemma q2R_mul x y : q2R (q2_mul x y) = q2R x * q2R y.
Proof.
  unfold q2R, q2_mul; simpl. rewrite !Q2R_plus, !Q2R_mult.
  replace (Q2R (2#1)) with 2 by (unfold Q2R; simpl; lra).
  pose proof sqrt2_sq as H.
  set (s := sqrt 2) in *.
  replace ((Q2R (fst x) + Q2R (snd x) * s) * (Q2R (fst y) + Q2R (snd y) * s))
    with (Q2R (fst x) * Q2R (fst y) + Q2R (snd x) * Q2R (snd y) * (s * s)
          + (Q2R (fst x) * Q2R (snd y) + Q2R (snd x) * Q2R (fst y)) * s) by ring.
  rewrite H. ring.
Qed.

Definition env_q2R (E : env q2) : env R :=
  {| e_cos := q2R (e_cos E); e_sin := q2R (e_sin E);
     e_u := fun k => (q2R (fst (e_u E k)), q2R (snd (e_u E k))) |}.

Lemma evalR_q2 (E : env q2) (e : cexp) : evalR (env_q2R E) e = q2R (evalQ2 E e).
Proof.
  unfold evalR, evalQ2.
  induction e as [q| | |e IH|a IHa b IHb|e IH|k|j k|j k]; cbn [eval env_q2R e_cos e_sin e_u fst snd].
  - now rewrite q2R_ofQ.
  - reflexivity.
  - reflexivity.
  - now rewrite q2R_neg, IH.
  - now rewrite q2R_mul, IHa, IHb.
  - now rewrite q2R_mul, IH.
  - now rewrite q2R_add, !q2R_mul.
  - now rewrite q2R_add, !q2R_mul.
  - now rewrite q2R_add, q2R_neg, !q2R_mul.
Qed.

Lemma rationals_sound (l : list q2) (r : list Q) : rationals l = Some r -> map q2R l = map Q2R r.
Proof.
  revert r; induction l as [|[a b] l IH]; intros r H; simpl in H.
  - now inversion H.
  - destruct (Qeq_bool b (0#1)) eqn:Eb; [|discriminate].
    destruct (rationals l) as [t|]; [|discriminate]. inversion H; subst. simpl.
    rewrite (IH t eq_refl). f_equal.
    unfold q2R; simpl. apply Qeq_bool_eq in Eb. rewrite (Qeq_eqR _ _ Eb), Q2R_0. lra.
Qed.

Lemma evalR_ext (E E' : env R) (e : cexp) :
  e_cos E = e_cos E' -> e_sin E = e_sin E' -> (forall k, e_u E k = e_u E' k) ->
  evalR E e = evalR E' e.
Proof.
  intros Hc Hs Hu. unfold evalR.
  induction e as [q| | |e IH|a IHa b IHb|e IH|k|j k|j k]; cbn [eval]; rewrite ?Hu; congruence.
Qed.

Lemma nonlocal_lit_R (u : list (Q * Q * Q * Q)) :
  nonlocal_coeffsR (lit_uR u) = map q2R (nonlocal_lit_q2 u).
Proof.
  unfold nonlocal_coeffsR, nonlocal_lit_q2. rewrite map_map. apply map_ext. intros e.
  rewrite <- evalR_q2. apply evalR_ext; cbn [env_q2R env_uQ2 env_uR e_cos e_sin e_u].
  - now rewrite q2R_ofQ, Q2R_0.
  - now rewrite q2R_ofQ, Q2R_0.
  - intros k. reflexivity.
Qed.

(* ------------------------------------------------------------------------------------ *)
(* rotation list:  kappa = 1 + 2 |sin (2 theta')|                                          *)
(* ------------------------------------------------------------------------------------ *)

Lemma kappa_rot (x : R) : kappaR (rot_coeffsR x) = 1 + 2 * Rabs (sin (2 * x)).
Proof.
  unfold rot_coeffsR. rewrite rot_exprs_eq.
  cbn [map evalR eval env_rotR e_cos e_sin kappaR fold_right].
  pose proof (sin2_cos2 x) as H. unfold Rsqr in H.
  rewrite sin_2a.
  set (c := cos x) in *. set (s := sin x) in *.
  replace (2 * s * c) with (2 * (c * s)) by ring.
  rewrite (Rabs_mult 2 (c * s)), (Rabs_pos_eq 2) by lra.
  rewrite !Rabs_Ropp.
  rewrite (Rabs_pos_eq (c * c)) by nra. rewrite (Rabs_pos_eq (s * s)) by nra.
  lra.
Qed.

Lemma rot_length (x : R) : length (rot_coeffsR x) = 6%nat.
Proof. unfold rot_coeffsR. rewrite rot_exprs_eq. reflexivity. Qed.

Lemma coeffsR_rot name p q theta :
  family_of_name name = FRot p q ->
  kappaR (coeffsR name theta) = 1 + 2 * Rabs (sin (2 * (Q2R p * theta + Q2R q * PI))).
Proof. intros F. unfold coeffsR. rewrite F. apply kappa_rot. Qed.

Ltac fam name :=
  let f := eval vm_compute in (family_of_name name) in
  assert (family_of_name name = f) by (vm_compute; reflexivity).

Lemma Rabs_sin_neg x : Rabs (sin (- x)) = Rabs (sin x).
Proof. now rewrite sin_neg, Rabs_Ropp. Qed.

Lemma kappa_rxx_family name theta :
  In name ["rxx"; "ryy"; "rzz"]%string -> kappaR (coeffsR name theta) = 1 + 2 * Rabs (sin theta).
Proof.
  intros [<-|[<-|[<-|[]]]].
  all: match goal with |- context [coeffsR ?n _] => fam n end.
  all: erewrite coeffsR_rot by eassumption.
  all: unfold Q2R; simpl.
  all: replace (2 * (-1 * / 2 * theta + 0 * / 2 * PI)) with (- theta) by lra.
  all: now rewrite Rabs_sin_neg.
Qed.

Lemma kappa_controlled name theta :
  In name ["crx"; "cry"; "crz"; "cp"]%string -> kappaR (coeffsR name theta) = 1 + 2 * Rabs (sin (theta / 2)).
Proof.
  intros [<-|[<-|[<-|[<-|[]]]]].
  all: match goal with |- context [coeffsR ?n _] => fam n end.
  all: erewrite coeffsR_rot by eassumption.
  all: unfold Q2R; simpl.
  all: replace (2 * (1 * / 4 * theta + 0 * / 4 * PI)) with (theta / 2) by lra.
  all: reflexivity.
Qed.

Lemma two_sin_PI4 : 2 * sin (PI / 4) = sqrt 2.
Proof.
  rewrite sin_PI4. pose proof sqrt2_sq as H.
  assert (0 < sqrt 2) by (apply sqrt_lt_R0; lra).
  field_simplify; [|lra]. rewrite <- H at 1. field. lra.
Qed.

Lemma sin_PI4_pos : 0 <= sin (PI / 4).
Proof. rewrite sin_PI4. assert (0 < sqrt 2) by (apply sqrt_lt_R0; lra). apply Rlt_le. apply Rdiv_lt_0_compat; lra. Qed.

Lemma kappa_cs_family name theta :
  In name ["cs"; "csdg"; "csx"; "csxdg"]%string -> kappaR (coeffsR name theta) = 1 + sqrt 2.
Proof.
  intros [<-|[<-|[<-|[<-|[]]]]].
  all: match goal with |- context [coeffsR ?n _] => fam n end.
  all: erewrite coeffsR_rot by eassumption.
  all: unfold Q2R; simpl.
  1,3: replace (2 * (0 * / 4 * theta + 1 * / 8 * PI)) with (PI / 4) by lra.
  3,4: replace (2 * (0 * / 4 * theta + -1 * / 8 * PI)) with (- (PI / 4)) by lra.
  3,4: rewrite Rabs_sin_neg.
  all: rewrite (Rabs_pos_eq _ sin_PI4_pos), two_sin_PI4; reflexivity.
Qed.

(* ------------------------------------------------------------------------------------ *)
(* literal families                                                                       *)
(* ------------------------------------------------------------------------------------ *)

Lemma coeffsR_const name l theta :
  family_of_name name = FConst l -> kappaR (coeffsR name theta) = Q2R (kappaQ l).
Proof. intros F. unfold coeffsR. rewrite F. apply kappaR_Q2R. Qed.

Lemma Q2R_nat_lit (z : Z) : Q2R (z # 1) = IZR z.
Proof. unfold Q2R; simpl. lra. Qed.

Lemma kappa_cx_family name theta :
  In name ["cx"; "cy"; "cz"; "ch"; "ecr"]%string -> kappaR (coeffsR name theta) = 3.
Proof.
  intros [<-|[<-|[<-|[<-|[<-|[]]]]]].
  all: match goal with |- context [coeffsR ?n _] => fam n end.
  all: erewrite coeffsR_const by eassumption.
  all: rewrite <- (Q2R_nat_lit 3); apply Qeq_eqR; vm_compute; reflexivity.
Qed.

Lemma kappa_move theta : kappaR (coeffsR "move" theta) = 4.
Proof.
  fam "move"%string. erewrite coeffsR_const by eassumption.
  rewrite <- (Q2R_nat_lit 4); apply Qeq_eqR; vm_compute; reflexivity.
Qed.

Lemma coeffsR_lit name u r theta :
  family_of_name name = FNonlocal u -> rationals (nonlocal_lit_q2 u) = Some r ->
  coeffsR name theta = map Q2R r.
Proof.
  intros F H. unfold coeffsR. rewrite F, nonlocal_lit_R. now apply rationals_sound.
Qed.

Lemma kappa_swap_family name theta :
  In name ["swap"; "iswap"; "dcx"]%string -> kappaR (coeffsR name theta) = 7.
Proof.
  intros [<-|[<-|[<-|[]]]].
  all: match goal with |- context [coeffsR ?n _] => fam n end.
  all: match goal with H : family_of_name _ = FNonlocal ?u |- _ =>
         let r := eval vm_compute in (rationals (nonlocal_lit_q2 u)) in
         match r with Some ?l =>
           assert (R : rationals (nonlocal_lit_q2 u) = Some l) by (vm_compute; reflexivity);
           rewrite (coeffsR_lit _ _ _ theta H R)
         end
       end.
  all: rewrite kappaR_Q2R, <- (Q2R_nat_lit 7); apply Qeq_eqR; vm_compute; reflexivity.
Qed.

(* ------------------------------------------------------------------------------------ *)
(* the 58-term list, for ANY vector u                                                     *)
(* ------------------------------------------------------------------------------------ *)

Definition abs2P (u : nat -> R * R) (k : nat) : R := fst (u k) * fst (u k) + snd (u k) * snd (u k).
Definition reP (u : nat -> R * R) (j k : nat) : R := fst (u j) * fst (u k) + snd (u j) * snd (u k).
Definition imP (u : nat -> R * R) (j k : nat) : R := snd (u j) * fst (u k) + - (fst (u j) * snd (u k)).
Definition norm2P (u : nat -> R * R) : R := abs2P u 0 + abs2P u 1 + abs2P u 2 + abs2P u 3.
Definition cross (u : nat -> R * R) : R :=
  Rabs (reP u 0 1) + Rabs (imP u 0 1) + Rabs (reP u 0 2) + Rabs (imP u 0 2) +
  Rabs (reP u 0 3) + Rabs (imP u 0 3) + Rabs (reP u 1 2) + Rabs (imP u 1 2) +
  Rabs (reP u 2 3) + Rabs (imP u 2 3) + Rabs (reP u 3 1) + Rabs (imP u 3 1).

Lemma Rabs_c2 : Rabs (Q2R (2#1)) = 2.
Proof. unfold Q2R; simpl. rewrite Rabs_pos_eq; lra. Qed.
Lemma Rabs_ch : Rabs (Q2R (1#2)) = / 2.
Proof. unfold Q2R; simpl. rewrite Rabs_pos_eq; lra. Qed.
Lemma Rabs_cmh : Rabs (Q2R (-1#2)) = / 2.
Proof. unfold Q2R; simpl. rewrite Rabs_left1; lra. Qed.
Lemma Rabs_cm2 : Rabs (Q2R (-2#1)) = 2.
Proof. unfold Q2R; simpl. rewrite Rabs_left1; lra. Qed.

Lemma abs2P_nonneg u k : 0 <= abs2P u k.
Proof. unfold abs2P. nra. Qed.

Lemma kappa_nonlocal (u : nat -> R * R) :
  kappaR (nonlocal_coeffsR u) = norm2P u + 4 * cross u.
Proof.
  unfold nonlocal_coeffsR. rewrite nonlocal_exprs_eq.
  unfold RE2, REh, REmh, REm2, IMp, IMm.
  cbn [map evalR eval env_uR e_u kappaR fold_right].
  fold (abs2P u 0) (abs2P u 1) (abs2P u 2) (abs2P u 3).
  fold (reP u 0 1) (reP u 0 2) (reP u 0 3) (reP u 1 2) (reP u 2 3) (reP u 3 1).
  fold (imP u 0 1) (imP u 0 2) (imP u 0 3) (imP u 1 2) (imP u 2 3) (imP u 3 1).
  rewrite !Rabs_mult, !Rabs_Ropp, !Rabs_c2, !Rabs_ch, !Rabs_cmh, !Rabs_cm2.
  rewrite !(Rabs_pos_eq _ (abs2P_nonneg u _)).
  unfold norm2P, cross. lra.
Qed.

Lemma nonlocal_length u : length (nonlocal_coeffsR u) = 58%nat.
Proof. unfold nonlocal_coeffsR. rewrite nonlocal_exprs_eq. reflexivity. Qed.

Lemma cross_nonneg u : 0 <= cross u.
Proof.
  unfold cross.
  repeat match goal with |- context [Rabs ?x] =>
    let H := fresh in pose proof (Rabs_pos x) as H; generalize dependent (Rabs x); intros end.
  lra.
Qed.

Lemma kappa_nonlocal_ge u : norm2P u <= kappaR (nonlocal_coeffsR u).
Proof. rewrite kappa_nonlocal. pose proof (cross_nonneg u). lra. Qed.

(* ------------------------------------------------------------------------------------ *)
(* _u_from_thetavec: the eigen-decomposition formula equals the product form              *)
(*   exp(i(a XX + b YY + c ZZ)) = sum_k u_k s_k (x) s_k                                    *)
(* ------------------------------------------------------------------------------------ *)

Ltac unfold_u :=
  cbv [u_from_thetavecR u_from_cs fold_right ev_entry nth c15_eigvecs c15_eigvals map eigvalR fst snd
       Qmult Qnum Qden Z.mul Pos.mul Q2R].
Ltac trig :=
  repeat match goal with
  | |- context [-1 * ?x] => replace (-1 * x) with (- x) by ring
  | |- context [1 * ?x] => replace (1 * x) with x by ring
  end;
  repeat (rewrite cos_plus || rewrite sin_plus || rewrite cos_neg || rewrite sin_neg).

Definition u_prod (a b c : R) (j : nat) : R * R :=
  match j with
  | 0%nat => (cos a * cos b * cos c, sin a * sin b * sin c)
  | 1%nat => (cos a * sin b * sin c, sin a * cos b * cos c)
  | 2%nat => (sin a * cos b * sin c, cos a * sin b * cos c)
  | 3%nat => (sin a * sin b * cos c, cos a * cos b * sin c)
  | _ => (0, 0)
  end.

Lemma u_product a b c j : (j < 4)%nat -> u_from_thetavecR a b c j = u_prod a b c j.
Proof.
  intros Hj. destruct j as [|[|[|[|j]]]]; try lia.
  all: unfold_u; trig; cbn [u_prod]; f_equal; field.
Qed.

Lemma kappa_kak_prod a b c :
  kappaR (kak_coeffsR a b c) = norm2P (u_prod a b c) + 4 * cross (u_prod a b c).
Proof.
  unfold kak_coeffsR. rewrite kappa_nonlocal.
  unfold norm2P, cross, abs2P, reP, imP. rewrite !u_product by lia. reflexivity.
Qed.

Lemma norm_u_prod a b c : norm2P (u_prod a b c) = 1.
Proof.
  unfold norm2P, abs2P; cbn [u_prod fst snd].
  pose proof (sin2_cos2 a) as Ha. pose proof (sin2_cos2 b) as Hb. pose proof (sin2_cos2 c) as Hc.
  unfold Rsqr in *.
  set (ca := cos a) in *; set (sa := sin a) in *; set (cb := cos b) in *; set (sb := sin b) in *;
  set (cc := cos c) in *; set (sc := sin c) in *.
  match goal with |- ?l = _ =>
    replace l with ((sa * sa + ca * ca) * (sb * sb + cb * cb) * (sc * sc + cc * cc)) by ring end.
  rewrite Ha, Hb, Hc. ring.
Qed.

Lemma weyl_terms a b c :
  let u := u_prod a b c in
  (reP u 0 1 = sin (2 * b) * sin (2 * c) / 4 /\
   reP u 0 2 = sin (2 * a) * sin (2 * c) / 4 /\
   reP u 0 3 = sin (2 * a) * sin (2 * b) / 4 /\
   reP u 1 2 = sin (2 * a) * sin (2 * b) / 4 /\
   reP u 2 3 = sin (2 * b) * sin (2 * c) / 4 /\
   reP u 3 1 = sin (2 * a) * sin (2 * c) / 4) /\
  (imP u 0 1 = - (sin (2 * a) * (cos (b + c) * cos (b - c))) / 2 /\
   imP u 0 2 = - (sin (2 * b) * (cos (a + c) * cos (a - c))) / 2 /\
   imP u 0 3 = - (sin (2 * c) * (cos (a + b) * cos (a - b))) / 2 /\
   imP u 1 2 = sin (2 * c) * (sin (a + b) * sin (a - b)) / 2 /\
   imP u 2 3 = sin (2 * a) * (sin (b + c) * sin (b - c)) / 2 /\
   imP u 3 1 = - (sin (2 * b) * (sin (a + c) * sin (a - c))) / 2).
Proof.
  cbv zeta. unfold reP, imP; cbn [u_prod fst snd].
  rewrite !sin_2a, !cos_plus, !cos_minus, !sin_plus, !sin_minus.
  pose proof (sin2_cos2 a) as Ha. pose proof (sin2_cos2 b) as Hb. pose proof (sin2_cos2 c) as Hc.
  unfold Rsqr in *.
  set (ca := cos a) in *; set (sa := sin a) in *; set (cb := cos b) in *; set (sb := sin b) in *;
  set (cc := cos c) in *; set (sc := sin c) in *.
  split; [|repeat split; field].
  repeat split.
  - match goal with |- ?l = _ => replace l with (sb * cb * sc * cc * (sa * sa + ca * ca)) by ring end.
    rewrite Ha; field.
  - match goal with |- ?l = _ => replace l with (sa * ca * sc * cc * (sb * sb + cb * cb)) by ring end.
    rewrite Hb; field.
  - match goal with |- ?l = _ => replace l with (sa * ca * sb * cb * (sc * sc + cc * cc)) by ring end.
    rewrite Hc; field.
  - match goal with |- ?l = _ => replace l with (sa * ca * sb * cb * (sc * sc + cc * cc)) by ring end.
    rewrite Hc; field.
  - match goal with |- ?l = _ => replace l with (sb * cb * sc * cc * (sa * sa + ca * ca)) by ring end.
    rewrite Ha; field.
  - match goal with |- ?l = _ => replace l with (sa * ca * sc * cc * (sb * sb + cb * cb)) by ring end.
    rewrite Hb; field.
Qed.

Lemma Rabs_div4 x : Rabs (x / 4) = Rabs x / 4.
Proof. unfold Rdiv. rewrite Rabs_mult, (Rabs_pos_eq (/ 4)) by lra. reflexivity. Qed.
Lemma Rabs_div2 x : Rabs (x / 2) = Rabs x / 2.
Proof. unfold Rdiv. rewrite Rabs_mult, (Rabs_pos_eq (/ 2)) by lra. reflexivity. Qed.
Lemma Rabs_ndiv2 x : Rabs (- x / 2) = Rabs x / 2.
Proof. rewrite Rabs_div2, Rabs_Ropp. reflexivity. Qed.

(* the closed form of the KAK path's kappa in the Weyl coordinates *)
Definition weyl_kappa (a b c : R) : R :=
  1 + 2 * (Rabs (sin (2 * b) * sin (2 * c)) + Rabs (sin (2 * a) * sin (2 * c)) + Rabs (sin (2 * a) * sin (2 * b)))
    + 2 * Rabs (sin (2 * a)) * (Rabs (cos (b + c) * cos (b - c)) + Rabs (sin (b + c) * sin (b - c)))
    + 2 * Rabs (sin (2 * b)) * (Rabs (cos (a + c) * cos (a - c)) + Rabs (sin (a + c) * sin (a - c)))
    + 2 * Rabs (sin (2 * c)) * (Rabs (cos (a + b) * cos (a - b)) + Rabs (sin (a + b) * sin (a - b))).

Lemma kappa_weyl a b c : kappaR (kak_coeffsR a b c) = weyl_kappa a b c.
Proof.
  rewrite kappa_kak_prod, norm_u_prod.
  destruct (weyl_terms a b c) as [(R01 & R02 & R03 & R12 & R23 & R31) (I01 & I02 & I03 & I12 & I23 & I31)].
  unfold cross. rewrite R01, R02, R03, R12, R23, R31, I01, I02, I03, I12, I23, I31.
  rewrite !Rabs_div4, !Rabs_ndiv2, !Rabs_div2.
  rewrite (Rabs_mult (sin (2 * a)) (_ * _)), (Rabs_mult (sin (2 * b)) (cos _ * _)), (Rabs_mult (sin (2 * c)) (cos _ * _)).
  rewrite (Rabs_mult (sin (2 * a)) (sin (b + c) * _)), (Rabs_mult (sin (2 * b)) (sin (a + c) * _)),
          (Rabs_mult (sin (2 * c)) (sin (a + b) * _)).
  unfold weyl_kappa. lra.
Qed.

(* corollaries *)
Lemma kappa_weyl_t00 t : kappaR (kak_coeffsR t 0 0) = 1 + 2 * Rabs (sin (2 * t)).
Proof.
  rewrite kappa_weyl. unfold weyl_kappa.
  replace (2 * 0) with 0 by ring. replace (0 + 0) with 0 by ring. replace (0 - 0) with 0 by ring.
  rewrite sin_0, cos_0, ?Rmult_0_r, ?Rmult_0_l, ?Rabs_R0, ?Rmult_1_r, ?Rabs_R1. lra.
Qed.

Lemma kappa_weyl_tt0 t :
  kappaR (kak_coeffsR t t 0) = 1 + 4 * Rabs (sin (2 * t)) + 2 * (sin (2 * t) * sin (2 * t)).
Proof.
  rewrite kappa_weyl. unfold weyl_kappa.
  replace (2 * 0) with 0 by ring. rewrite !Rplus_0_r, !Rminus_0_r, sin_0.
  replace (t - t) with 0 by ring. rewrite sin_0, cos_0.
  rewrite !Rmult_0_r, !Rabs_R0.
  pose proof (sin2_cos2 t) as H. unfold Rsqr in H.
  rewrite (Rabs_pos_eq (cos t * cos t)) by nra. rewrite (Rabs_pos_eq (sin t * sin t)) by nra.
  rewrite (Rabs_pos_eq (sin (2 * t) * sin (2 * t))) by nra.
  replace (cos t * cos t + sin t * sin t) with 1 by lra. lra.
Qed.

(* ------------------------------------------------------------------------------------ *)
(* the closed form does not depend on the chamber representative: Weyl-group moves         *)
(* ------------------------------------------------------------------------------------ *)

Lemma Rabs_mul_comm x y : Rabs (x * y) = Rabs (y * x).
Proof. now rewrite Rmult_comm. Qed.
Lemma Rabs_mul_negr x y : Rabs (x * - y) = Rabs (x * y).
Proof. now rewrite Ropp_mult_distr_r_reverse, Rabs_Ropp. Qed.
Lemma Rabs_mul_negl x y : Rabs (- x * y) = Rabs (x * y).
Proof. now rewrite Ropp_mult_distr_l_reverse, Rabs_Ropp. Qed.
Lemma Rabs_mul_neg2 x y : Rabs (- x * - y) = Rabs (x * y).
Proof. now rewrite Rmult_opp_opp. Qed.

Lemma weyl_swap_ab a b c : weyl_kappa b a c = weyl_kappa a b c.
Proof.
  unfold weyl_kappa.
  replace (b + a) with (a + b) by ring.
  replace (b - a) with (- (a - b)) by ring. rewrite cos_neg, sin_neg, Rabs_mul_negr.
  rewrite (Rabs_mul_comm (sin (2 * b)) (sin (2 * a))). lra.
Qed.

Lemma weyl_swap_bc a b c : weyl_kappa a c b = weyl_kappa a b c.
Proof.
  unfold weyl_kappa.
  replace (c + b) with (b + c) by ring.
  replace (c - b) with (- (b - c)) by ring. rewrite cos_neg, sin_neg, Rabs_mul_negr.
  rewrite (Rabs_mul_comm (sin (2 * c)) (sin (2 * b))). lra.
Qed.

Lemma weyl_neg_a a b c : weyl_kappa (- a) b c = weyl_kappa a b c.
Proof.
  unfold weyl_kappa.
  replace (2 * - a) with (- (2 * a)) by ring. rewrite sin_neg, !Rabs_mul_negl, Rabs_Ropp.
  replace (- a + c) with (- (a - c)) by ring. replace (- a - c) with (- (a + c)) by ring.
  replace (- a + b) with (- (a - b)) by ring. replace (- a - b) with (- (a + b)) by ring.
  rewrite !cos_neg, !sin_neg, !Rabs_mul_neg2.
  rewrite (Rabs_mul_comm (cos (a - c))), (Rabs_mul_comm (sin (a - c))), (Rabs_mul_comm (cos (a - b))), (Rabs_mul_comm (sin (a - b))).
  lra.
Qed.

Lemma cos_PI2_plus y : cos (PI / 2 + y) = - sin y.
Proof. rewrite cos_plus, cos_PI2, sin_PI2. ring. Qed.
Lemma sin_PI2_plus y : sin (PI / 2 + y) = cos y.
Proof. rewrite sin_plus, cos_PI2, sin_PI2. ring. Qed.

Lemma weyl_shift_a a b c : weyl_kappa (a + PI / 2) b c = weyl_kappa a b c.
Proof.
  unfold weyl_kappa.
  replace (2 * (a + PI / 2)) with (2 * a + PI) by field. rewrite neg_sin, !Rabs_mul_negl, Rabs_Ropp.
  replace (a + PI / 2 + c) with (PI / 2 + (a + c)) by ring. replace (a + PI / 2 - c) with (PI / 2 + (a - c)) by ring.
  replace (a + PI / 2 + b) with (PI / 2 + (a + b)) by ring. replace (a + PI / 2 - b) with (PI / 2 + (a - b)) by ring.
  rewrite !cos_PI2_plus, !sin_PI2_plus, !Rabs_mul_neg2. lra.
Qed.

Lemma kappa_weyl_symmetry a b c :
  kappaR (kak_coeffsR b a c) = kappaR (kak_coeffsR a b c) /\
  kappaR (kak_coeffsR a c b) = kappaR (kak_coeffsR a b c) /\
  kappaR (kak_coeffsR (- a) b c) = kappaR (kak_coeffsR a b c) /\
  kappaR (kak_coeffsR (a + PI / 2) b c) = kappaR (kak_coeffsR a b c).
Proof.
  rewrite !kappa_weyl. repeat split;
    [apply weyl_swap_ab|apply weyl_swap_bc|apply weyl_neg_a|apply weyl_shift_a].
Qed.

(* ------------------------------------------------------------------------------------ *)
(* kappa >= 1                                                                             *)
(* ------------------------------------------------------------------------------------ *)

Lemma kappa_kak_ge_1 a b c : 1 <= kappaR (kak_coeffsR a b c).
Proof. rewrite kappa_kak_prod, norm_u_prod. pose proof (cross_nonneg (u_prod a b c)). lra. Qed.

Lemma kappa_nonlocal_ge_1 u : norm2P u = 1 -> 1 <= kappaR (nonlocal_coeffsR u).
Proof. intros H. rewrite <- H. apply kappa_nonlocal_ge. Qed.

Lemma kappa_registered_ge_1 name theta : In name registry_names -> 1 <= kappaR (coeffsR name theta).
Proof.
  unfold registry_names. intros H.
  assert (S2 : 0 <= sqrt 2) by apply sqrt_pos.
  pose proof (Rabs_pos (sin theta)). pose proof (Rabs_pos (sin (theta / 2))).
  repeat (destruct H as [<-|H]); try contradiction.
  all: first [ rewrite kappa_swap_family by (simpl; tauto); lra
             | rewrite kappa_rxx_family by (simpl; tauto); lra
             | rewrite kappa_controlled by (simpl; tauto); lra
             | rewrite kappa_cs_family by (simpl; tauto); lra
             | rewrite kappa_cx_family by (simpl; tauto); lra
             | rewrite kappa_move; lra ].
Qed.

(* ------------------------------------------------------------------------------------ *)
(* local invariance                                                                       *)
(* ------------------------------------------------------------------------------------ *)

Lemma kak_local_invariance {L} (d d' : weyl L) :
  w_a d = w_a d' -> w_b d = w_b d' -> w_c d = w_c d' -> kak_basis_coeffsR d = kak_basis_coeffsR d'.
Proof. intros Ha Hb Hc. unfold kak_basis_coeffsR. now rewrite Ha, Hb, Hc. Qed.

Lemma Rabs_sin_2abs x : Rabs (sin (2 * Rabs x)) = Rabs (sin (2 * x)).
Proof.
  unfold Rabs at 2. destruct (Rcase_abs x); [|reflexivity].
  replace (2 * - x) with (- (2 * x)) by ring. apply Rabs_sin_neg.
Qed.

(* the documented "KAK decomposition angles" reproduce the documented kappa of each family *)
Lemma kappa_kak_doc_rot theta : kappaR (kak_coeffsR (Rabs (theta / 2)) 0 0) = 1 + 2 * Rabs (sin theta).
Proof. rewrite kappa_weyl_t00, Rabs_sin_2abs. now replace (2 * (theta / 2)) with theta by field. Qed.

Lemma kappa_kak_doc_ctrl theta : kappaR (kak_coeffsR (Rabs (theta / 4)) 0 0) = 1 + 2 * Rabs (sin (theta / 2)).
Proof. rewrite kappa_weyl_t00, Rabs_sin_2abs. now replace (2 * (theta / 4)) with (theta / 2) by field. Qed.

Lemma kappa_kak_doc_xxyy theta :
  kappaR (kak_coeffsR (Rabs (theta / 4)) (Rabs (theta / 4)) 0)
  = 1 + 4 * Rabs (sin (theta / 2)) + 2 * (sin (theta / 2) * sin (theta / 2)).
Proof.
  rewrite kappa_weyl_tt0, Rabs_sin_2abs.
  replace (sin (2 * Rabs (theta / 4)) * sin (2 * Rabs (theta / 4)))
    with (Rabs (sin (2 * Rabs (theta / 4))) * Rabs (sin (2 * Rabs (theta / 4))))
    by (rewrite <- Rabs_mult; apply Rabs_pos_eq; nra).
  rewrite Rabs_sin_2abs, <- Rabs_mult, (Rabs_pos_eq (_ * _)) by nra.
  now replace (2 * (theta / 4)) with (theta / 2) by field.
Qed.

Lemma kappa_kak_doc_cx : kappaR (kak_coeffsR (PI / 4) 0 0) = 3.
Proof.
  rewrite kappa_weyl_t00. replace (2 * (PI / 4)) with (PI / 2) by field.
  rewrite sin_PI2, Rabs_R1. lra.
Qed.

Lemma kappa_kak_doc_cs : kappaR (kak_coeffsR (PI / 8) 0 0) = 1 + sqrt 2.
Proof.
  rewrite kappa_weyl_t00. replace (2 * (PI / 8)) with (PI / 4) by field.
  rewrite (Rabs_pos_eq _ sin_PI4_pos), two_sin_PI4. reflexivity.
Qed.

Lemma kappa_kak_doc_iswap : kappaR (kak_coeffsR (PI / 4) (PI / 4) 0) = 7.
Proof.
  rewrite kappa_weyl_tt0. replace (2 * (PI / 4)) with (PI / 2) by field.
  rewrite sin_PI2, Rabs_R1. lra.
Qed.

Lemma kappa_kak_doc_swap : kappaR (kak_coeffsR (PI / 4) (PI / 4) (PI / 4)) = 7.
Proof.
  rewrite kappa_weyl. unfold weyl_kappa.
  replace (2 * (PI / 4)) with (PI / 2) by field.
  replace (PI / 4 + PI / 4) with (PI / 2) by field.
  replace (PI / 4 - PI / 4) with 0 by field.
  rewrite sin_PI2, cos_PI2, sin_0, cos_0, ?Rmult_0_l, ?Rmult_0_r, ?Rmult_1_l, ?Rabs_R0, ?Rabs_R1. lra.
Qed.

(* ------------------------------------------------------------------------------------ *)
(* basis invariants                                                                       *)
(* ------------------------------------------------------------------------------------ *)

Lemma sumQ_div (l : list Q) (k : Q) : (sumQ (map (fun c => Qred (Qabs c / k)) l) == kappaQ l / k)%Q.
Proof.
  induction l as [|x l IH]; cbn [map sumQ kappaQ fold_right].
  - unfold Qdiv. ring.
  - fold (sumQ (map (fun c => Qred (Qabs c / k)) l)). fold (kappaQ l).
    rewrite Qred_correct, IH, qadd_eq. unfold Qdiv. ring.
Qed.

Lemma probsQ_sum (l : list Q) : ~ (kappaQ l == 0)%Q -> (sumQ (probsQ l) == 1)%Q.
Proof. intros H. unfold probsQ. cbv zeta. rewrite sumQ_div. now field. Qed.

Lemma probsQ_spec (l : list Q) : Forall2 Qeq (probsQ l) (map (fun c => (Qabs c / kappaQ l)%Q) l).
Proof.
  unfold probsQ. cbv zeta. generalize (kappaQ l) as k. intros k.
  induction l as [|x l IH]; cbn [map]; [constructor|]. constructor; [apply Qred_correct|exact IH].
Qed.

Lemma probsQ_nonneg (l : list Q) : Forall (fun p => (0 <= p)%Q) (probsQ l).
Proof.
  unfold probsQ. cbv zeta. apply Forall_forall. intros p Hp. apply in_map_iff in Hp as (c & <- & _).
  rewrite Qred_correct.
  pose proof (kappaQ_nonneg l) as Hk. pose proof (Qabs_nonneg c) as Hc.
  destruct (Qeq_dec (kappaQ l) 0) as [E|N].
  - unfold Qdiv. rewrite E. unfold Qinv; simpl. rewrite Qmult_0_r. apply Qle_refl.
  - apply Qle_shift_div_l.
    + destruct (Qle_lt_or_eq _ _ Hk) as [L|L]; [exact L|]. exfalso; apply N; now symmetry.
    + now rewrite Qmult_0_l.
Qed.

Lemma probsQ_length l : length (probsQ l) = length l.
Proof. unfold probsQ. cbv zeta. apply map_length. Qed.

Lemma sumR_div (l : list R) (k : R) : sumR (map (fun c => Rabs c / k) l) = kappaR l / k.
Proof. induction l as [|x l IH]; simpl; [unfold Rdiv; ring|]. rewrite IH. unfold Rdiv. ring. Qed.

Lemma probsR_sum (l : list R) : kappaR l <> 0 -> sumR (probsR l) = 1.
Proof. intros H. unfold probsR. rewrite sumR_div. now field. Qed.

Definition inv (p : bphase) : Prop :=
  match p with
  | Unset _ => True
  | Ready n s => length (st_coeffs s) = n /\ st_kappa s = kappaQ (st_coeffs s) /\ st_probs s = probsQ (st_coeffs s)
  end.

Lemma set_coeffs_ok p coeffs :
  length coeffs = nmaps_of p ->
  set_coeffs p coeffs =
  Ok (Ready (nmaps_of p) {| st_coeffs := coeffs; st_kappa := kappaQ coeffs; st_probs := probsQ coeffs |}).
Proof. intros H. unfold set_coeffs. now rewrite H, Nat.eqb_refl. Qed.

Lemma set_coeffs_refused p coeffs : length coeffs <> nmaps_of p -> set_coeffs p coeffs = Refused.
Proof. intros H. unfold set_coeffs. apply Nat.eqb_neq in H. now rewrite H. Qed.

Lemma assign_nmaps p c : nmaps_of (assign p c) = nmaps_of p.
Proof. unfold assign, set_coeffs. destruct (Nat.eqb _ _); reflexivity. Qed.

Lemma assign_inv p c : inv p -> inv (assign p c).
Proof.
  intros H. unfold assign, set_coeffs. destruct (Nat.eqb (length c) (nmaps_of p)) eqn:E; [|exact H].
  simpl. apply Nat.eqb_eq in E. auto.
Qed.

Lemma assign_refused_unchanged p c : length c <> nmaps_of p -> assign p c = p.
Proof. intros H. unfold assign. now rewrite set_coeffs_refused. Qed.

Lemma run_nmaps p ops : nmaps_of (run_assignments p ops) = nmaps_of p.
Proof.
  revert p; induction ops as [|c ops IH]; intros p; simpl; [reflexivity|].
  unfold run_assignments in *. simpl. rewrite IH. apply assign_nmaps.
Qed.

Lemma run_inv p ops : inv p -> inv (run_assignments p ops).
Proof.
  revert p; induction ops as [|c ops IH]; intros p H; simpl; [exact H|].
  apply IH. now apply assign_inv.
Qed.

Lemma run_app p ops c : run_assignments p (ops ++ [c]) = assign (run_assignments p ops) c.
Proof. unfold run_assignments. now rewrite fold_left_app. Qed.

Lemma run_last p ops c :
  length c = nmaps_of p ->
  let p' := run_assignments p (ops ++ [c]) in
  get_coeffs p' = Some c /\ get_kappa p' = Some (kappaQ c) /\
  get_probs p' = Some (probsQ c) /\
  get_overhead p' = Some (overheadQ c).
Proof.
  intros H. cbv zeta. rewrite run_app. unfold assign.
  rewrite set_coeffs_ok by (now rewrite run_nmaps). simpl. auto.
Qed.

Lemma run_last_refused p ops c :
  length c <> nmaps_of p -> run_assignments p (ops ++ [c]) = run_assignments p ops.
Proof. intros H. rewrite run_app. apply assign_refused_unchanged. now rewrite run_nmaps. Qed.

Lemma new_basis_ok arities coeffs a r :
  arities = a :: r -> (a <= 2)%nat -> Forall (fun x => x = a) r -> length coeffs = length arities ->
  new_basis arities coeffs =
  Ok (Ready (length arities) {| st_coeffs := coeffs; st_kappa := kappaQ coeffs; st_probs := probsQ coeffs |}).
Proof.
  intros -> Ha Hr Hl. unfold new_basis.
  destruct (Nat.ltb_spec 2 a); [lia|].
  assert (F : forallb (Nat.eqb a) r = true).
  { apply forallb_forall. intros x Hx. rewrite Forall_forall in Hr. rewrite (Hr x Hx). apply Nat.eqb_refl. }
  rewrite F. now rewrite set_coeffs_ok.
Qed.

(* ------------------------------------------------------------------------------------ *)
(* the documented table is sound for the model                                            *)
(* ------------------------------------------------------------------------------------ *)

Lemma overhead_sq l : overheadR l = (kappaR l) ^ 2.
Proof. unfold overheadR. ring. Qed.

Lemma one_sqrt2_sq : (1 + sqrt 2) ^ 2 = 3 + 2 * sqrt 2.
Proof. pose proof sqrt2_sq. nra. Qed.

Lemma doc_table_sound cls f :
  In (cls, f) c15_doc_table ->
  exists g s, doc_formula f = Some g /\ doc_subject cls = Some s /\
              forall theta, overheadR (subject_coeffsR s theta) = g theta.
Proof.
  unfold c15_doc_table. intros H.
  repeat (destruct H as [H|H]; [inversion H; subst; clear H|]); try contradiction.
  all: eexists; eexists; split; [reflexivity|]; split; [reflexivity|].
  all: intros theta; rewrite overhead_sq; cbn [subject_coeffsR].
  all: first
    [ rewrite kappa_cs_family by (simpl; tauto); apply one_sqrt2_sq
    | rewrite kappa_cx_family by (simpl; tauto); reflexivity
    | rewrite kappa_swap_family by (simpl; tauto); reflexivity
    | rewrite kappa_rxx_family by (simpl; tauto); reflexivity
    | rewrite kappa_controlled by (simpl; tauto); reflexivity
    | rewrite kappa_move; reflexivity
    | idtac ].
  - (* RZX *)
    replace (Q2R (1 # 2) * theta) with (theta / 2) by (unfold Q2R; simpl; field).
    replace (Q2R (0 # 1) * theta) with 0 by (unfold Q2R; simpl; field). rewrite Rabs_R0.
    now rewrite kappa_kak_doc_rot.
  - replace (Q2R (1 # 4) * theta) with (theta / 4) by (unfold Q2R; simpl; field).
    rewrite kappa_kak_doc_xxyy. ring.
  - replace (Q2R (1 # 4) * theta) with (theta / 4) by (unfold Q2R; simpl; field).
    rewrite kappa_kak_doc_xxyy. ring.
Qed.

Lemma sqrt2_bounds : 1.414 < sqrt 2 < 1.4145.
Proof.
  split.
  - rewrite <- (sqrt_Rsqr 1.414) by lra. apply sqrt_lt_1_alt. unfold Rsqr. lra.
  - rewrite <- (sqrt_Rsqr 1.4145) by lra. apply sqrt_lt_1_alt. unfold Rsqr. lra.
Qed.

Lemma doc_approx : 5.828 <= 3 + 2 * sqrt 2 < 5.829.
Proof. pose proof sqrt2_bounds. lra. Qed.

(* ------------------------------------------------------------------------------------ *)
(* kappa is constant on weyl_equiv classes                                                *)
(* ------------------------------------------------------------------------------------ *)

Lemma weyl_neg_b a b c : weyl_kappa a (- b) c = weyl_kappa a b c.
Proof. rewrite <- (weyl_swap_ab a (- b) c), weyl_neg_a. apply weyl_swap_ab. Qed.

Lemma kappa_weyl_equiv t t' : weyl_equiv t t' -> kappaR (kak3 t) = kappaR (kak3 t').
Proof.
  induction 1 as [t|t u H IH|t u v H1 IH1 H2 IH2|a b c|a b c|a b c|a b c|a b c];
    try (cbn [kak3]; rewrite !kappa_weyl).
  - reflexivity.
  - now symmetry.
  - now rewrite IH1.
  - symmetry. apply weyl_swap_ab.
  - symmetry. apply weyl_swap_bc.
  - symmetry. now rewrite weyl_neg_a, weyl_neg_b.
  - symmetry. apply weyl_shift_a.
  - symmetry. apply weyl_neg_a.
Qed.

Lemma kappa_weyl_equiv_basis {L} (d : weyl L) a b c :
  weyl_equiv (weyl_coords d) (a, b, c) -> kappaR (kak_basis_coeffsR d) = kappaR (kak_coeffsR a b c).
Proof. intros H. apply (kappa_weyl_equiv _ _ H). Qed.

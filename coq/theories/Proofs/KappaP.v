(* Proofs/KappaP.v — lemmas about Model/Kappa.v (property C15). *)
From Coq Require Import String Ascii QArith Qabs Reals Qreals Lra Lia.
From CKT Require Import Common.Base Extracted.Facts Model.Kappa.
Close Scope Q_scope.
Local Open Scope R_scope.

(* ------------------------------------------------------------------------------------ *)
(* the extracted lists, decoded                                                           *)
(* ------------------------------------------------------------------------------------ *)

Lemma rot_exprs_eq :
  rot_exprs = [CSq CCos; CSq CSin; CNeg (CMul CCos CSin); CMul CCos CSin;
               CNeg (CMul CCos CSin); CMul CCos CSin].
Proof. vm_compute. reflexivity. Qed.

Definition RE2 j k := CMul (CConst (2#1)) (CRe j k).
Definition REh j k := CMul (CConst (1#2)) (CRe j k).
Definition REmh j k := CMul (CConst (-1#2)) (CRe j k).
Definition REm2 j k := CMul (CConst (-2#1)) (CRe j k).
Definition IMp j k := CIm j k.
Definition IMm j k := CNeg (CIm j k).

Lemma nonlocal_exprs_eq :
  nonlocal_exprs =
  [CAbs2 0; CAbs2 1; CAbs2 2; CAbs2 3;
   RE2 0 1; RE2 0 2; RE2 0 3;
   REh 1 2; REmh 1 2; REmh 1 2; REh 1 2;
   REh 2 3; REmh 2 3; REmh 2 3; REh 2 3;
   REh 3 1; REmh 3 1; REmh 3 1; REh 3 1;
   REmh 0 1; REh 0 1; REh 0 1; REmh 0 1;
   REmh 0 2; REh 0 2; REh 0 2; REmh 0 2;
   REmh 0 3; REh 0 3; REh 0 3; REmh 0 3;
   REm2 1 2; REm2 2 3; REm2 3 1;
   IMp 0 1; IMm 0 1; IMp 0 1; IMm 0 1;
   IMp 0 2; IMm 0 2; IMp 0 2; IMm 0 2;
   IMp 0 3; IMm 0 3; IMp 0 3; IMm 0 3;
   IMp 1 2; IMm 1 2; IMp 1 2; IMm 1 2;
   IMp 2 3; IMm 2 3; IMp 2 3; IMm 2 3;
   IMp 3 1; IMm 3 1; IMp 3 1; IMm 3 1]%nat.
Proof. vm_compute. reflexivity. Qed.

(* ------------------------------------------------------------------------------------ *)
(* Q -> R                                                                                 *)
(* ------------------------------------------------------------------------------------ *)

Lemma Q2R_abs (x : Q) : Rabs (Q2R x) = Q2R (Qabs x).
Proof.
  apply Qabs_case; intros H.
  - apply Rabs_pos_eq. replace 0 with (Q2R 0) by (unfold Q2R; simpl; lra). now apply Qle_Rle.
  - rewrite Q2R_opp. apply Rabs_left1. replace 0 with (Q2R 0) by (unfold Q2R; simpl; lra). now apply Qle_Rle.
Qed.

Lemma Q2R_0 : Q2R (0#1) = 0.
Proof. unfold Q2R; simpl; lra. Qed.

Lemma kappaR_Q2R (l : list Q) : kappaR (map Q2R l) = Q2R (kappaQ l).
Proof.
  induction l as [|x l IH]; simpl.
  - now rewrite Q2R_0.
  - rewrite Q2R_plus, IH, Q2R_abs. reflexivity.
Qed.

Lemma kappaR_nonneg (l : list R) : 0 <= kappaR l.
Proof. induction l as [|x l IH]; simpl; [lra|]. pose proof (Rabs_pos x). lra. Qed.

Lemma kappaQ_nonneg (l : list Q) : (0 <= kappaQ l)%Q.
Proof.
  induction l as [|x l IH]; simpl; [apply Qle_refl|].
  pose proof (Qabs_nonneg x) as H.
  replace (0#1)%Q with ((0#1) + (0#1))%Q by reflexivity. now apply Qplus_le_compat.
Qed.

(* ------------------------------------------------------------------------------------ *)
(* Q(sqrt 2) -> R is a ring homomorphism; evaluation commutes with it                     *)
(* ------------------------------------------------------------------------------------ *)

Lemma sqrt2_sq : sqrt 2 * sqrt 2 = 2.
Proof. apply sqrt_def; lra. Qed.

Lemma q2R_ofQ q : q2R (q2_ofQ q) = Q2R q.
Proof. unfold q2R, q2_ofQ; simpl. rewrite Q2R_0. lra. Qed.

Lemma q2R_add x y : q2R (q2_add x y) = q2R x + q2R y.
Proof. unfold q2R, q2_add; simpl. rewrite !Q2R_plus. lra. Qed.

Lemma q2R_neg x : q2R (q2_neg x) = - q2R x.
Proof. unfold q2R, q2_neg; simpl. rewrite !Q2R_opp. lra. Qed.

Lemma q2R_mul x y : q2R (q2_mul x y) = q2R x * q2R y.
Proof.
  unfold q2R, q2_mul; simpl. rewrite !Q2R_plus, !Q2R_mult.
  replace (Q2R (2#1)) with 2 by (unfold Q2R; simpl; lra).
  pose proof sqrt2_sq as H.
  set (s := sqrt 2) in *.
  replace ((Q2R (fst x) + Q2R (snd x) * s) * (Q2R (fst y) + Q2R (snd y) * s))
    with (Q2R (fst x) * Q2R (fst y) + Q2R (snd x) * Q2R (snd y) * (s * s)
          + (Q2R (fst x) * Q2R (snd y) + Q2R (snd x) * Q2R (fst y)) * s) by ring.
  rewrite H. ring.
Qed.

Definition env_q2R (E : env q2) : env R :=
  {| e_cos := q2R (e_cos E); e_sin := q2R (e_sin E);
     e_u := fun k => (q2R (fst (e_u E k)), q2R (snd (e_u E k))) |}.

Lemma evalR_q2 (E : env q2) (e : cexp) : evalR (env_q2R E) e = q2R (evalQ2 E e).
Proof.
  unfold evalR, evalQ2.
  induction e as [q| | |e IH|a IHa b IHb|e IH|k|j k|j k]; cbn [eval env_q2R e_cos e_sin e_u fst snd].
  - now rewrite q2R_ofQ.
  - reflexivity.
  - reflexivity.
  - now rewrite q2R_neg, IH.
  - now rewrite q2R_mul, IHa, IHb.
  - now rewrite q2R_mul, IH.
  - now rewrite q2R_add, !q2R_mul.
  - now rewrite q2R_add, !q2R_mul.
  - now rewrite q2R_add, q2R_neg, !q2R_mul.
Qed.

Lemma rationals_sound (l : list q2) (r : list Q) : rationals l = Some r -> map q2R l = map Q2R r.
Proof.
  revert r; induction l as [|[a b] l IH]; intros r H; simpl in H.
  - now inversion H.
  - destruct (Qeq_bool b (0#1)) eqn:Eb; [|discriminate].
    destruct (rationals l) as [t|]; [|discriminate]. inversion H; subst. simpl.
    rewrite (IH t eq_refl). f_equal.
    unfold q2R; simpl. apply Qeq_bool_eq in Eb. rewrite (Qeq_eqR _ _ Eb), Q2R_0. lra.
Qed.

Lemma evalR_ext (E E' : env R) (e : cexp) :
  e_cos E = e_cos E' -> e_sin E = e_sin E' -> (forall k, e_u E k = e_u E' k) ->
  evalR E e = evalR E' e.
Proof.
  intros Hc Hs Hu. unfold evalR.
  induction e as [q| | |e IH|a IHa b IHb|e IH|k|j k|j k]; cbn [eval]; rewrite ?Hu; congruence.
Qed.

Lemma nonlocal_lit_R (u : list (Q * Q * Q * Q)) :
  nonlocal_coeffsR (lit_uR u) = map q2R (nonlocal_lit_q2 u).
Proof.
  unfold nonlocal_coeffsR, nonlocal_lit_q2. rewrite map_map. apply map_ext. intros e.
  rewrite <- evalR_q2. apply evalR_ext; cbn [env_q2R env_uQ2 env_uR e_cos e_sin e_u].
  - now rewrite q2R_ofQ, Q2R_0.
  - now rewrite q2R_ofQ, Q2R_0.
  - intros k. reflexivity.
Qed.

(* ------------------------------------------------------------------------------------ *)
(* rotation list:  kappa = 1 + 2 |sin (2 theta')|                                          *)
(* ------------------------------------------------------------------------------------ *)

Lemma kappa_rot (x : R) : kappaR (rot_coeffsR x) = 1 + 2 * Rabs (sin (2 * x)).
Proof.
  unfold rot_coeffsR. rewrite rot_exprs_eq.
  cbn [map evalR eval env_rotR e_cos e_sin kappaR fold_right].
  pose proof (sin2_cos2 x) as H. unfold Rsqr in H.
  rewrite sin_2a.
  set (c := cos x) in *. set (s := sin x) in *.
  replace (2 * s * c) with (2 * (c * s)) by ring.
  rewrite (Rabs_mult 2 (c * s)), (Rabs_pos_eq 2) by lra.
  rewrite !Rabs_Ropp.
  rewrite (Rabs_pos_eq (c * c)) by nra. rewrite (Rabs_pos_eq (s * s)) by nra.
  lra.
Qed.

Lemma rot_length (x : R) : length (rot_coeffsR x) = 6%nat.
Proof. unfold rot_coeffsR. rewrite rot_exprs_eq. reflexivity. Qed.

Lemma coeffsR_rot name p q theta :
  family_of_name name = FRot p q ->
  kappaR (coeffsR name theta) = 1 + 2 * Rabs (sin (2 * (Q2R p * theta + Q2R q * PI))).
Proof. intros F. unfold coeffsR. rewrite F. apply kappa_rot. Qed.

Ltac fam name :=
  let f := eval vm_compute in (family_of_name name) in
  assert (family_of_name name = f) by (vm_compute; reflexivity).

Lemma Rabs_sin_neg x : Rabs (sin (- x)) = Rabs (sin x).
Proof. now rewrite sin_neg, Rabs_Ropp. Qed.

Lemma kappa_rxx_family name theta :
  In name ["rxx"; "ryy"; "rzz"]%string -> kappaR (coeffsR name theta) = 1 + 2 * Rabs (sin theta).
Proof.
  intros [<-|[<-|[<-|[]]]].
  all: match goal with |- context [coeffsR ?n _] => fam n end.
  all: erewrite coeffsR_rot by eassumption.
  all: unfold Q2R; simpl.
  all: replace (2 * (-1 * / 2 * theta + 0 * / 2 * PI)) with (- theta) by lra.
  all: now rewrite Rabs_sin_neg.
Qed.

Lemma kappa_controlled name theta :
  In name ["crx"; "cry"; "crz"; "cp"]%string -> kappaR (coeffsR name theta) = 1 + 2 * Rabs (sin (theta / 2)).
Proof.
  intros [<-|[<-|[<-|[<-|[]]]]].
  all: match goal with |- context [coeffsR ?n _] => fam n end.
  all: erewrite coeffsR_rot by eassumption.
  all: unfold Q2R; simpl.
  all: replace (2 * (1 * / 4 * theta + 0 * / 4 * PI)) with (theta / 2) by lra.
  all: reflexivity.
Qed.

Lemma two_sin_PI4 : 2 * sin (PI / 4) = sqrt 2.
Proof.
  rewrite sin_PI4. pose proof sqrt2_sq as H.
  assert (0 < sqrt 2) by (apply sqrt_lt_R0; lra).
  field_simplify; [|lra]. rewrite <- H at 1. field. lra.
Qed.

Lemma sin_PI4_pos : 0 <= sin (PI / 4).
Proof. rewrite sin_PI4. assert (0 < sqrt 2) by (apply sqrt_lt_R0; lra). apply Rlt_le. apply Rdiv_lt_0_compat; lra. Qed.

Lemma kappa_cs_family name theta :
  In name ["cs"; "csdg"; "csx"; "csxdg"]%string -> kappaR (coeffsR name theta) = 1 + sqrt 2.
Proof.
  intros [<-|[<-|[<-|[<-|[]]]]].
  all: match goal with |- context [coeffsR ?n _] => fam n end.
  all: erewrite coeffsR_rot by eassumption.
  all: unfold Q2R; simpl.
  1,3: replace (2 * (0 * / 4 * theta + 1 * / 8 * PI)) with (PI / 4) by lra.
  3,4: replace (2 * (0 * / 4 * theta + -1 * / 8 * PI)) with (- (PI / 4)) by lra.
  3,4: rewrite Rabs_sin_neg.
  all: rewrite (Rabs_pos_eq _ sin_PI4_pos), two_sin_PI4; reflexivity.
Qed.

(* ------------------------------------------------------------------------------------ *)
(* literal families                                                                       *)
(* ------------------------------------------------------------------------------------ *)

Lemma coeffsR_const name l theta :
  family_of_name name = FConst l -> kappaR (coeffsR name theta) = Q2R (kappaQ l).
Proof. intros F. unfold coeffsR. rewrite F. apply kappaR_Q2R. Qed.

Lemma Q2R_nat_lit (z : Z) : Q2R (z # 1) = IZR z.
Proof. unfold Q2R; simpl. lra. Qed.

Lemma kappa_cx_family name theta :
  In name ["cx"; "cy"; "cz"; "ch"; "ecr"]%string -> kappaR (coeffsR name theta) = 3.
Proof.
  intros [<-|[<-|[<-|[<-|[<-|[]]]]]].
  all: match goal with |- context [coeffsR ?n _] => fam n end.
  all: erewrite coeffsR_const by eassumption.
  all: rewrite <- (Q2R_nat_lit 3); apply Qeq_eqR; vm_compute; reflexivity.
Qed.

Lemma kappa_move theta : kappaR (coeffsR "move" theta) = 4.
Proof.
  fam "move"%string. erewrite coeffsR_const by eassumption.
  rewrite <- (Q2R_nat_lit 4); apply Qeq_eqR; vm_compute; reflexivity.
Qed.

Lemma coeffsR_lit name u r theta :
  family_of_name name = FNonlocal u -> rationals (nonlocal_lit_q2 u) = Some r ->
  coeffsR name theta = map Q2R r.
Proof.
  intros F H. unfold coeffsR. rewrite F, nonlocal_lit_R. now apply rationals_sound.
Qed.

Lemma kappa_swap_family name theta :
  In name ["swap"; "iswap"; "dcx"]%string -> kappaR (coeffsR name theta) = 7.
Proof.
  intros [<-|[<-|[<-|[]]]].
  all: match goal with |- context [coeffsR ?n _] => fam n end.
  all: match goal with H : family_of_name _ = FNonlocal ?u |- _ =>
         let r := eval vm_compute in (rationals (nonlocal_lit_q2 u)) in
         match r with Some ?l =>
           assert (R : rationals (nonlocal_lit_q2 u) = Some l) by (vm_compute; reflexivity);
           rewrite (coeffsR_lit _ _ _ theta H R)
         end
       end.
  all: rewrite kappaR_Q2R, <- (Q2R_nat_lit 7); apply Qeq_eqR; vm_compute; reflexivity.
Qed.

(* ------------------------------------------------------------------------------------ *)
(* the 58-term list, for ANY vector u                                                     *)
(* ------------------------------------------------------------------------------------ *)

Definition abs2P (u : nat -> R * R) (k : nat) : R := fst (u k) * fst (u k) + snd (u k) * snd (u k).
Definition reP (u : nat -> R * R) (j k : nat) : R := fst (u j) * fst (u k) + snd (u j) * snd (u k).
Definition imP (u : nat -> R * R) (j k : nat) : R := snd (u j) * fst (u k) + - (fst (u j) * snd (u k)).
Definition norm2P (u : nat -> R * R) : R := abs2P u 0 + abs2P u 1 + abs2P u 2 + abs2P u 3.
Definition cross (u : nat -> R * R) : R :=
  Rabs (reP u 0 1) + Rabs (imP u 0 1) + Rabs (reP u 0 2) + Rabs (imP u 0 2) +
  Rabs (reP u 0 3) + Rabs (imP u 0 3) + Rabs (reP u 1 2) + Rabs (imP u 1 2) +
  Rabs (reP u 2 3) + Rabs (imP u 2 3) + Rabs (reP u 3 1) + Rabs (imP u 3 1).

Lemma Rabs_c2 : Rabs (Q2R (2#1)) = 2.
Proof. unfold Q2R; simpl. rewrite Rabs_pos_eq; lra. Qed.
Lemma Rabs_ch : Rabs (Q2R (1#2)) = / 2.
Proof. unfold Q2R; simpl. rewrite Rabs_pos_eq; lra. Qed.
Lemma Rabs_cmh : Rabs (Q2R (-1#2)) = / 2.
Proof. unfold Q2R; simpl. rewrite Rabs_left1; lra. Qed.
Lemma Rabs_cm2 : Rabs (Q2R (-2#1)) = 2.
Proof. unfold Q2R; simpl. rewrite Rabs_left1; lra. Qed.

Lemma abs2P_nonneg u k : 0 <= abs2P u k.
Proof. unfold abs2P. nra. Qed.

Lemma kappa_nonlocal (u : nat -> R * R) :
  kappaR (nonlocal_coeffsR u) = norm2P u + 4 * cross u.
Proof.
  unfold nonlocal_coeffsR. rewrite nonlocal_exprs_eq.
  unfold RE2, REh, REmh, REm2, IMp, IMm.
  cbn [map evalR eval env_uR e_u kappaR fold_right].
  fold (abs2P u 0) (abs2P u 1) (abs2P u 2) (abs2P u 3).
  fold (reP u 0 1) (reP u 0 2) (reP u 0 3) (reP u 1 2) (reP u 2 3) (reP u 3 1).
  fold (imP u 0 1) (imP u 0 2) (imP u 0 3) (imP u 1 2) (imP u 2 3) (imP u 3 1).
  rewrite !Rabs_mult, !Rabs_Ropp, !Rabs_c2, !Rabs_ch, !Rabs_cmh, !Rabs_cm2.
  rewrite !(Rabs_pos_eq _ (abs2P_nonneg u _)).
  unfold norm2P, cross. lra.
Qed.

Lemma nonlocal_length u : length (nonlocal_coeffsR u) = 58%nat.
Proof. unfold nonlocal_coeffsR. rewrite nonlocal_exprs_eq. reflexivity. Qed.

Lemma cross_nonneg u : 0 <= cross u.
Proof.
  unfold cross.
  repeat match goal with |- context [Rabs ?x] =>
    let H := fresh in pose proof (Rabs_pos x) as H; generalize dependent (Rabs x); intros end.
  lra.
Qed.

Lemma kappa_nonlocal_ge u : norm2P u <= kappaR (nonlocal_coeffsR u).
Proof. rewrite kappa_nonlocal. pose proof (cross_nonneg u). lra. Qed.

(* Proofs/CutFinderRender.v — the circuit find_cuts assembles is the rendering of the plan; its segment graph is the
   abstract run of the plan; its overhead is the plan's. *)
From Coq Require Import QArith Lia.
From CKT Require Import Model.CutFinder Proofs.CutFinderSpec Proofs.CutFinderOut Proofs.CutFinderInv
  Proofs.CutFinderPlan Proofs.CutFinderCirc.
Close Scope Q_scope.

Definition ginst (gk : gate_spec * ckind) : nat := g_inst (fst gk).

(* the plan as a function of the position in circuit.data *)
Definition pfun (P : list (gate_spec * ckind)) (k : nat) : ckind :=
  match List.find (fun gk => Nat.eqb (ginst gk) k) P with Some gk => snd gk | None => Leave end.

Lemma pfun_cons_eq g kd P : pfun ((g, kd) :: P) (g_inst g) = kd.
Proof. unfold pfun; simpl. unfold ginst at 1; simpl. now rewrite Nat.eqb_refl. Qed.

Lemma pfun_cons_neq g kd P k : k <> g_inst g -> pfun ((g, kd) :: P) k = pfun P k.
Proof. intros N. unfold pfun; simpl. unfold ginst at 1; simpl. destruct (Nat.eqb_spec (g_inst g) k); [congruence|reflexivity]. Qed.

Lemma pfun_lt P k0 k : incr_from k0 (map ginst P) -> k < k0 -> pfun P k = Leave.
Proof.
  revert k0; induction P as [|[g kd] P IH]; intros k0 H Hk; [reflexivity|].
  destruct H as [H1 H2]. unfold ginst in H1; simpl in H1. rewrite pfun_cons_neq by lia.
  apply (IH (S (ginst (g, kd)))); auto. unfold ginst; simpl; lia.
Qed.

Lemma render_from_ext t p p' k c : (forall j, k <= j -> p j = p' j) -> render_from t p k c = render_from t p' k c.
Proof.
  revert k; induction c as [|i r IH]; intros k H; simpl; [reflexivity|].
  rewrite (H k) by lia. f_equal. apply IH. intros j Hj; apply H; lia.
Qed.

(* wrap the gates the plan cuts, leave everything else *)
Fixpoint wrapmap (t : gtab) (p : plan) (k : nat) (c : circ) : circ :=
  match c with
  | [] => []
  | i :: r => (match p k with KGateCut => wrap_op t i | _ => i end) :: wrapmap t p (S k) r
  end.

Lemma wrapmap_ext t p p' k c : (forall j, k <= j -> p j = p' j) -> wrapmap t p k c = wrapmap t p' k c.
Proof.
  revert k; induction c as [|i r IH]; intros k H; simpl; [reflexivity|].
  rewrite (H k) by lia. f_equal. apply IH. intros j Hj; apply H; lia.
Qed.

Lemma wrapmap_length t p k c : length (wrapmap t p k c) = length c.
Proof. revert k; induction c; intros k; simpl; auto. Qed.

Lemma wrapmap_nth t p k c j : j < length c ->
  nth j (wrapmap t p k c) dI = match p (k + j) with KGateCut => wrap_op t (nth j c dI) | _ => nth j c dI end.
Proof.
  revert k j; induction c as [|i r IH]; intros k j H; simpl in H; [lia|].
  destruct j as [|j]; simpl.
  - now rewrite Nat.add_0_r.
  - rewrite IH by lia. now rewrite Nat.add_succ_r.
Qed.

(* ---------------- cut_gates ---------------- *)
Definition memb (j : nat) (l : list nat) : bool := existsb (Nat.eqb j) l.

Lemma memb_In j l : memb j l = true <-> In j l.
Proof.
  unfold memb. rewrite existsb_exists. split.
  - intros (x & Hx & E). apply Nat.eqb_eq in E. now subst.
  - intros H. exists j. split; [exact H|apply Nat.eqb_refl].
Qed.

Lemma cut_gates_spec t : forall ids c,
  NoDup ids ->
  (forall id, In id ids -> id < length c /\ exists g kap o, iop (nth id c dI) = Gate g /\ glookup g t = Some (kap, o)) ->
  exists c', cut_gates t c ids = Val c' /\ length c' = length c /\
    forall j, j < length c -> nth j c' dI = if memb j ids then wrap_op t (nth j c dI) else nth j c dI.
Proof.
  induction ids as [|id r IH]; intros c ND H.
  - exists c. simpl. repeat split; auto.
  - inversion ND as [|? ? Hni ND']; subst.
    destruct (H id (or_introl eq_refl)) as (Hlt & g & kap & o & Hop & Hlk).
    simpl. rewrite (nth_error_nth' c dI Hlt). unfold wrap_instr. rewrite Hop, Hlk. cbn [obind].
    set (i' := {| iop := o; iqs := iqs (nth id c dI); ics := [] |}).
    assert (Ew : i' = wrap_op t (nth id c dI)) by (unfold wrap_op; now rewrite Hop, Hlk).
    destruct (IH (upd c id i') ND') as (c' & Hc' & Hl & Hn).
    { intros id' Hin. rewrite upd_length. destruct (H id' (or_intror Hin)) as (Hlt' & Hrest). split; [exact Hlt'|].
      rewrite nth_upd_other by (intros ->; contradiction). exact Hrest. }
    exists c'. split; [exact Hc'|]. rewrite upd_length in Hl. split; [exact Hl|].
    intros j Hj. rewrite Hn by (rewrite upd_length; exact Hj).
    unfold memb; simpl. fold (memb j r).
    destruct (Nat.eqb_spec j id) as [->|Nj]; simpl.
    + assert (Em : memb id r = false).
      { destruct (memb id r) eqn:Em; [|reflexivity]. apply memb_In in Em. contradiction. }
      rewrite Em. rewrite nth_upd_same by exact Hlt. exact Ew.
    + rewrite nth_upd_other by auto. reflexivity.
Qed.

(* ---------------- weaving the markers = rendering the plan ---------------- *)
Definition wires (P : list (gate_spec * ckind)) : list (nat * aname) :=
  flat_map (fun gk => match snd gk with
                      | KLeftCut => [(ginst gk, CutLeftWire)]
                      | KRightCut => [(ginst gk, CutRightWire)]
                      | KBothCut => [(ginst gk, CutBothWires)]
                      | _ => []
                      end) P.

Definition wkey (a : action) : nat * aname := (inst a, a_name a).

Lemma weave_head_skip mk k i r l :
  incr_from (S k) (map inst l) -> weave mk k (i :: r) l = i :: weave mk (S k) r l.
Proof.
  intros H. destruct l as [|a l]; simpl; [reflexivity|].
  destruct H as [H _]. destruct (Nat.eqb_spec (inst a) k); [lia|reflexivity].
Qed.

Lemma incr_wires k P : incr_from k (map ginst P) -> incr_from k (map fst (wires P)).
Proof.
  revert k; induction P as [|[g kd] P IH]; intros k H; [exact I|].
  destruct H as [H1 H2]. specialize (IH _ H2).
  assert (IH' : incr_from k (map fst (wires P))) by (eapply incr_from_weaken; [|exact IH]; lia).
  unfold wires; simpl. fold (wires P). destruct kd; simpl; auto.
Qed.

Lemma map_inst_wkey Aw : map inst Aw = map fst (map wkey Aw).
Proof. rewrite map_map. reflexivity. Qed.

Lemma weave_render t orig : forall c k P Aw pre0,
  orig = pre0 ++ c -> k = length pre0 -> incr_from k (map ginst P) -> map wkey Aw = wires P ->
  weave (mk_of orig) k (wrapmap t (pfun P) k c) Aw = render_from t (pfun P) k c.
Proof.
  induction c as [|i r IH]; intros k P Aw pre0 Eo Ek Hinc HA; [reflexivity|].
  assert (Eo' : orig = (pre0 ++ [i]) ++ r) by (now rewrite <- app_assoc).
  assert (Ek' : S k = length (pre0 ++ [i])) by (rewrite app_length; simpl; lia).
  assert (Hnth : nth k orig dI = i) by (rewrite Eo, Ek, app_nth2, Nat.sub_diag by lia; reflexivity).
  cbn [wrapmap render_from].
  destruct P as [|[g kd] P'].
  - (* no decision left *)
    destruct Aw; [|discriminate]. cbn [weave pfun find render_instr app].
    change (pfun [] k) with Leave. cbn. f_equal.
    apply (IH (S k) [] [] (pre0 ++ [i])); auto.
  - destruct Hinc as [H1 H2]. unfold ginst in H1; cbn [fst] in H1.
    destruct (Nat.eq_dec (g_inst g) k) as [Eg|Ng].
    + (* the decision for this instruction *)
      assert (Hext : forall j, S k <= j -> pfun ((g, kd) :: P') j = pfun P' j)
        by (intros j Hj; apply pfun_cons_neq; lia).
      rewrite (wrapmap_ext t _ _ (S k) r Hext), (render_from_ext t _ _ (S k) r Hext).
      assert (Epf : pfun ((g, kd) :: P') k = kd) by (rewrite <- Eg; apply pfun_cons_eq).
      rewrite !Epf.
      unfold ginst in H2; cbn [fst] in H2. rewrite Eg in H2.
      pose proof (incr_wires _ _ H2) as Hw.
      unfold wires in HA; cbn [flat_map snd] in HA; fold (wires P') in HA.
      destruct kd.
      * cbn [app] in HA. rewrite weave_head_skip by (rewrite map_inst_wkey, HA; exact Hw).
        cbn [render_instr app]. f_equal. apply (IH (S k) P' Aw (pre0 ++ [i])); auto.
      * cbn [app] in HA. rewrite weave_head_skip by (rewrite map_inst_wkey, HA; exact Hw).
        cbn [render_instr app]. f_equal. apply (IH (S k) P' Aw (pre0 ++ [i])); auto.
      * destruct Aw as [|a Aw]; [discriminate|]. cbn [app map] in HA. inversion HA as [[Ha1 Ha2 HA']].
        unfold ginst in Ha1; cbn [fst] in Ha1.
        cbn [weave]. rewrite Ha1, Eg, Nat.eqb_refl. unfold mk_of. rewrite Ha2, Ha1, Eg, Hnth.
        cbn [markers_of render_instr app]. do 2 f_equal. apply (IH (S k) P' Aw (pre0 ++ [i])); auto.
      * destruct Aw as [|a Aw]; [discriminate|]. cbn [app map] in HA. inversion HA as [[Ha1 Ha2 HA']].
        unfold ginst in Ha1; cbn [fst] in Ha1.
        cbn [weave]. rewrite Ha1, Eg, Nat.eqb_refl. unfold mk_of. rewrite Ha2, Ha1, Eg, Hnth.
        cbn [markers_of render_instr app]. do 2 f_equal. apply (IH (S k) P' Aw (pre0 ++ [i])); auto.
      * destruct Aw as [|a Aw]; [discriminate|]. cbn [app map] in HA. inversion HA as [[Ha1 Ha2 HA']].
        unfold ginst in Ha1; cbn [fst] in Ha1.
        cbn [weave]. rewrite Ha1, Eg, Nat.eqb_refl. unfold mk_of. rewrite Ha2, Ha1, Eg, Hnth.
        cbn [markers_of render_instr app]. do 3 f_equal. apply (IH (S k) P' Aw (pre0 ++ [i])); auto.
    + (* the next decision concerns a later instruction *)
      assert (Hinc' : incr_from (S k) (map ginst ((g, kd) :: P'))).
      { simpl; split; [unfold ginst; simpl; lia|exact H2]. }
      rewrite (pfun_lt _ (S k) k Hinc') by lia.
      rewrite weave_head_skip by (rewrite map_inst_wkey, HA; apply incr_wires; exact Hinc').
      cbn [render_instr app]. f_equal. apply (IH (S k) _ Aw (pre0 ++ [i])); auto.
Qed.

(* ---------------- the recorded actions vs the plan ---------------- *)
Definition gate_ids (P : list (gate_spec * ckind)) : list nat :=
  flat_map (fun gk => match snd gk with KGateCut => [ginst gk] | _ => [] end) P.

Lemma acts_split P : forall A, map akey A = plan_actions P ->
  map inst (filter is_gate_cut A) = gate_ids P /\
  map wkey (filter (fun a => negb (is_gate_cut a)) A) = wires P.
Proof.
  induction P as [|[g kd] P IH]; intros A H.
  - destruct A; [split; reflexivity|discriminate].
  - cbn [plan_actions] in H. unfold gate_ids, wires; cbn [flat_map snd]. fold (gate_ids P) (wires P).
    destruct kd; cbn [kind_names app] in H;
      [destruct (IH A H) as [H1 H2]; split; assumption| | | |];
      (destruct A as [|a A]; [discriminate|]; cbn [map] in H; unfold akey at 1 in H;
       injection H as Hn Hg HA; destruct (IH A HA) as [H1 H2];
       assert (Ig : is_gate_cut a = aname_beq (a_name a) CutTwoQubitGate) by reflexivity;
       rewrite Hn in Ig; cbn [aname_beq] in Ig; cbn [filter]; rewrite Ig; cbn [negb map app];
       unfold ginst; cbn [fst]; split;
       first [assumption
             | f_equal; [unfold inst; now rewrite Hg|assumption]
             | f_equal; [unfold wkey, inst; now rewrite Hg, Hn|assumption]]).
Qed.

Lemma incr_gate_ids k P : incr_from k (map ginst P) -> incr_from k (gate_ids P).
Proof.
  revert k; induction P as [|[g kd] P IH]; intros k H; [exact I|].
  destruct H as [H1 H2]. specialize (IH _ H2).
  assert (IH' : incr_from k (gate_ids P)) by (eapply incr_from_weaken; [|exact IH]; lia).
  unfold gate_ids; simpl. fold (gate_ids P). destruct kd; simpl; auto.
Qed.

Lemma memb_gate_ids P k0 j : incr_from k0 (map ginst P) ->
  memb j (gate_ids P) = match pfun P j with KGateCut => true | _ => false end.
Proof.
  revert k0; induction P as [|[g kd] P IH]; intros k0 H; [reflexivity|].
  destruct H as [H1 H2]. unfold gate_ids; cbn [flat_map snd]. fold (gate_ids P).
  destruct (Nat.eq_dec j (g_inst g)) as [->|N].
  - rewrite pfun_cons_eq.
    assert (Em : memb (g_inst g) (gate_ids P) = false).
    { destruct (memb (g_inst g) (gate_ids P)) eqn:Em; [|reflexivity]. apply memb_In in Em.
      pose proof (incr_from_ge _ _ _ (incr_gate_ids _ _ H2) Em) as L. unfold ginst in L; simpl in L. lia. }
    destruct kd; cbn [app]; try exact Em.
    unfold memb; simpl. unfold ginst; simpl. now rewrite Nat.eqb_refl.
  - rewrite pfun_cons_neq by exact N. rewrite <- (IH _ H2).
    destruct kd; cbn [app]; try reflexivity.
    unfold memb; simpl. unfold ginst; simpl. destruct (Nat.eqb_spec j (g_inst g)); [contradiction|reflexivity].
Qed.

(* ---------------- the segment graph of the rendered circuit = the abstract run of the plan ---------------- *)
Definition is_qpd2_op (o : op) : bool := match o with Qpd2 _ _ _ => true | _ => false end.

(* contract of the gate table: the wrapped form of a gate is a TwoQubitQPDGate *)
Definition gtab_ok (t : gtab) : Prop := forall g kap o, glookup g t = Some (kap, o) -> is_qpd2_op o = true.

Lemma arun_acc names P : forall cur E,
  arun names P (cur, E) = (fst (arun names P (cur, [])), E ++ snd (arun names P (cur, []))).
Proof.
  induction P as [|[g kd] P IH]; intros cur E; simpl.
  - now rewrite app_nil_r.
  - destruct kd; cbn [kind_step]; rewrite ?app_nil_l;
      try (rewrite (IH _ (E ++ _)), (IH _ [_]); cbn [fst snd]; now rewrite app_assoc).
    apply IH.
Qed.

Section SegRender.
  Variable t : gtab.
  Variable names : list nat.
  Variable orig : circ.

  Definition entry_ok (gk : gate_spec * ckind) : Prop :=
    exists i, nth_error orig (ginst gk) = Some i /\ is_multi i = true /\ plain_instr i = true /\
      iqs i = [Q1 names (fst gk); Q2 names (fst gk)] /\
      (snd gk = KGateCut -> exists g kap o, iop i = Gate g /\ glookup g t = Some (kap, o) /\ is_qpd2_op o = true).

  Lemma seg_render : forall c k P pre0 cur,
    orig = pre0 ++ c -> k = length pre0 -> incr_from k (map ginst P) -> Forall entry_ok P ->
    (forall j i, k <= j -> nth_error orig j = Some i -> is_multi i = true -> In j (map ginst P)) ->
    (forall i, In i c -> plain_instr i = true) ->
    seg_edges (render_from t (pfun P) k c) cur = snd (arun names P (cur, [])) /\
    seg_cur (render_from t (pfun P) k c) cur = fst (arun names P (cur, [])).
  Proof.
    induction c as [|i r IH]; intros k P pre0 cur Eo Ek Hinc HP Hall Hplain.
    - destruct P as [|[g kd] P]; [split; reflexivity|]. exfalso.
      pose proof (Forall_inv HP) as (i & Hi & _).
      assert (Hlt : ginst (g, kd) < length orig) by (apply nth_error_Some; congruence).
      destruct Hinc as [H1 _]. rewrite Eo, app_nil_r in Hlt. lia.
    - assert (Eo' : orig = (pre0 ++ [i]) ++ r) by (now rewrite <- app_assoc).
      assert (Ek' : S k = length (pre0 ++ [i])) by (rewrite app_length; simpl; lia).
      assert (Hk : nth_error orig k = Some i).
      { rewrite Eo, Ek, nth_error_app2, Nat.sub_diag by lia. reflexivity. }
      assert (Hpl : plain_instr i = true) by (apply Hplain; now left).
      assert (Hplain' : forall x, In x r -> plain_instr x = true) by (intros x Hx; apply Hplain; now right).
      cbn [render_from].
      assert (CASE : (exists g kd P', P = (g, kd) :: P' /\ g_inst g = k) \/ incr_from (S k) (map ginst P)).
      { destruct P as [|[g kd] P']; [right; exact I|]. destruct Hinc as [H1 H2]. unfold ginst in H1; cbn [fst] in H1.
        destruct (Nat.eq_dec (g_inst g) k) as [E|N]; [left; eauto|]. right. split; [unfold ginst; simpl; lia|exact H2]. }
      destruct CASE as [(g & kd & P' & -> & Eg)|Hinc'].
      + destruct Hinc as [_ H2]. unfold ginst in H2 at 1; cbn [fst] in H2. rewrite Eg in H2.
        pose proof (Forall_inv HP) as (i0 & Hi0 & Hm & _ & Hq & Hgc). pose proof (Forall_inv_tail HP) as HP'.
        unfold ginst in Hi0; cbn [fst] in Hi0. rewrite Eg, Hk in Hi0. inversion Hi0; subst i0. cbn [fst snd] in Hq, Hgc.
        assert (Hext : forall j, S k <= j -> pfun ((g, kd) :: P') j = pfun P' j)
          by (intros j Hj; apply pfun_cons_neq; lia).
        assert (Epf : pfun ((g, kd) :: P') k = kd) by (rewrite <- Eg; apply pfun_cons_eq).
        rewrite (render_from_ext t _ _ _ r Hext), Epf.
        assert (Hall' : forall j x, S k <= j -> nth_error orig j = Some x -> is_multi x = true -> In j (map ginst P')).
        { intros j x Hj Hx Hmx. destruct (Hall j x) as [E|Hin]; auto; try lia. unfold ginst in E; simpl in E; lia. }
        assert (Hop : exists g0, iop i = Gate g0).
        { unfold is_multi in Hm. apply andb_prop in Hm as [Hb _]. unfold plain_instr in Hpl. unfold is_barrier in Hb.
          destruct (iop i); try discriminate; eauto. }
        destruct Hop as [g0 Hop].
        destruct (IH (S k) P' (pre0 ++ [i])) with (cur := cur) as [IH1 IH2]; auto.
        destruct kd; cbn [render_instr app arun kind_step]; rewrite ?app_nil_l;
          try (rewrite (arun_acc names P' _ [_]); cbn [fst snd]).
        * cbn [seg_edges seg_cur]. rewrite Hop, Hq. cbn [map app]. rewrite IH1, IH2. split; reflexivity.
        * destruct (Hgc eq_refl) as (g1 & kap & o & Hop1 & Hlk & Hqp).
          unfold wrap_op. rewrite Hop1, Hlk. cbn [seg_edges seg_cur iop].
          destruct o; try discriminate. rewrite IH1, IH2. split; reflexivity.
        * destruct (IH (S k) P' (pre0 ++ [i])) with (cur := bump cur (Q1 names g)) as [J1 J2]; auto.
          cbn [seg_edges seg_cur cut_wire_instr iop iqs]. rewrite Hop, Hq. cbn [nth map app].
          rewrite J1, J2. split; reflexivity.
        * destruct (IH (S k) P' (pre0 ++ [i])) with (cur := bump cur (Q2 names g)) as [J1 J2]; auto.
          cbn [seg_edges seg_cur cut_wire_instr iop iqs]. rewrite Hop, Hq. cbn [nth map app].
          rewrite J1, J2. split; reflexivity.
        * destruct (IH (S k) P' (pre0 ++ [i])) with (cur := bump (bump cur (Q1 names g)) (Q2 names g)) as [J1 J2]; auto.
          cbn [seg_edges seg_cur cut_wire_instr iop iqs]. rewrite Hop, Hq. cbn [nth map app].
          rewrite J1, J2. split; reflexivity.
      + rewrite (pfun_lt _ (S k) k Hinc') by lia. cbn [render_instr app].
        assert (Hnm : is_multi i = false).
        { destruct (is_multi i) eqn:Em; [|reflexivity]. exfalso.
          pose proof (Hall k i (le_n _) Hk Em) as Hin.
          apply in_map_iff in Hin as (gk & E & Hin).
          assert (L : S k <= ginst gk) by (apply (incr_from_ge _ _ _ Hinc'); apply in_map; exact Hin). lia. }
        assert (Hall' : forall j x, S k <= j -> nth_error orig j = Some x -> is_multi x = true -> In j (map ginst P))
          by (intros j x Hj; apply Hall; lia).
        destruct (IH (S k) P (pre0 ++ [i])) with (cur := cur) as [IH1 IH2]; auto.
        unfold is_multi, is_barrier in Hnm. unfold plain_instr in Hpl.
        cbn [seg_edges seg_cur].
        destruct (iop i); try discriminate; [|rewrite IH1, IH2; split; reflexivity].
        simpl in Hnm. destruct (iqs i) as [|q0 [|q1 rest]]; simpl in Hnm; try discriminate;
          cbn [map app]; rewrite IH1, IH2; split; reflexivity.
  Qed.
End SegRender.

(* ---------------- accounting ---------------- *)
Lemma kind_overhead_sq t kd i g : kappa_of t i = g_gamma g ->
  (kind_overhead t kd i == kind_mult kd g * kind_mult kd g)%Q.
Proof.
  intros H. destruct kd; cbn [kind_overhead kind_mult]; unfold left_wire_mult, right_wire_mult, both_wires_mult;
    try reflexivity.
  unfold gamma_or_1. rewrite H. destruct (g_gamma g); reflexivity.
Qed.

Lemma overhead_render t orig : forall c k P pre0,
  orig = pre0 ++ c -> k = length pre0 -> incr_from k (map ginst P) ->
  (forall gk, In gk P -> exists i, nth_error orig (ginst gk) = Some i /\ kappa_of t i = g_gamma (fst gk)) ->
  (plan_overhead_from t (pfun P) k c == plan_gamma P * plan_gamma P)%Q.
Proof.
  induction c as [|i r IH]; intros k P pre0 Eo Ek Hinc HP.
  - destruct P as [|[g kd] P]; [simpl; ring|]. exfalso.
    destruct (HP (g, kd) (or_introl eq_refl)) as (i & Hi & _).
    assert (Hlt : ginst (g, kd) < length orig) by (apply nth_error_Some; congruence).
    destruct Hinc as [H1 _]. rewrite Eo, app_nil_r in Hlt. lia.
  - assert (Eo' : orig = (pre0 ++ [i]) ++ r) by (now rewrite <- app_assoc).
    assert (Ek' : S k = length (pre0 ++ [i])) by (rewrite app_length; simpl; lia).
    assert (Hk : nth_error orig k = Some i).
    { rewrite Eo, Ek, nth_error_app2, Nat.sub_diag by lia. reflexivity. }
    cbn [plan_overhead_from].
    assert (CASE : (exists g kd P', P = (g, kd) :: P' /\ g_inst g = k) \/ incr_from (S k) (map ginst P)).
    { destruct P as [|[g kd] P']; [right; exact I|]. destruct Hinc as [H1 H2]. unfold ginst in H1; cbn [fst] in H1.
      destruct (Nat.eq_dec (g_inst g) k) as [E|N]; [left; eauto|]. right. split; [unfold ginst; simpl; lia|exact H2]. }
    destruct CASE as [(g & kd & P' & -> & Eg)|Hinc'].
    + destruct Hinc as [_ H2]. unfold ginst in H2 at 1; cbn [fst] in H2. rewrite Eg in H2.
      destruct (HP (g, kd) (or_introl eq_refl)) as (i0 & Hi0 & Hkap).
      unfold ginst in Hi0; cbn [fst] in Hi0, Hkap. rewrite Eg, Hk in Hi0. inversion Hi0; subst i0.
      assert (Hext : forall j, S k <= j -> pfun ((g, kd) :: P') j = pfun P' j)
        by (intros j Hj; apply pfun_cons_neq; lia).
      assert (Epf : pfun ((g, kd) :: P') k = kd) by (rewrite <- Eg; apply pfun_cons_eq).
      assert (Eov : plan_overhead_from t (pfun ((g, kd) :: P')) (S k) r = plan_overhead_from t (pfun P') (S k) r).
      { clear - Hext. revert Hext. generalize (S k). induction r as [|x r IHr]; intros n Hext; simpl; [reflexivity|].
        rewrite (Hext n) by lia. f_equal. apply IHr. intros j Hj; apply Hext; lia. }
      rewrite Eov, Epf. rewrite (IH (S k) P' (pre0 ++ [i])); auto.
      * rewrite (kind_overhead_sq t kd i g Hkap). cbn [plan_gamma]. ring.
      * intros gk Hin. apply HP. now right.
    + rewrite (pfun_lt _ (S k) k Hinc') by lia. cbn [kind_overhead].
      rewrite (IH (S k) P (pre0 ++ [i])); auto. ring.
Qed.

(* ---------------- metadata scan ---------------- *)
Lemma scan_cuts_spec c : forall k0,
  incr_from k0 (map snd (scan_cuts k0 c)) /\
  forall kd j, In (kd, j) (scan_cuts k0 c) <-> (k0 <= j /\ marker_at c (j - k0) = Some kd).
Proof.
  induction c as [|x r IH]; intros k0.
  - split; [exact I|]. intros kd j. split; [intros []|]. intros [_ H]. unfold marker_at in H.
    destruct (j - k0); discriminate.
  - destruct (IH (S k0)) as [I1 I2].
    assert (Hshift : forall kd j, (S k0 <= j /\ marker_at r (j - S k0) = Some kd) <->
                                  (k0 <= j /\ j <> k0 /\ marker_at (x :: r) (j - k0) = Some kd)).
    { intros kd j. split.
      - intros [H1 H2]. split; [lia|]. split; [lia|]. replace (j - k0) with (S (j - S k0)) by lia. exact H2.
      - intros (H1 & H2 & H3). split; [lia|]. replace (j - k0) with (S (j - S k0)) in H3 by lia. exact H3. }
    assert (Hhd : forall kd, marker_at (x :: r) (k0 - k0) = Some kd <->
              ((is_qpd2 x = true /\ kd = GateCut) \/ (is_qpd2 x = false /\ is_cut_wire x = true /\ kd = WireCut))).
    { intros kd. rewrite Nat.sub_diag. unfold marker_at; cbn [nth_error].
      destruct (is_qpd2 x), (is_cut_wire x); split; intros H; try (inversion H; subst; tauto);
        destruct H as [[? ?]|(? & ? & ?)]; subst; try discriminate; reflexivity. }
    cbn [scan_cuts].
    destruct (iop x) eqn:Eop;
      try (split; [eapply incr_from_weaken; [|exact I1]; lia|];
           intros kd j; rewrite I2, Hshift; split; [tauto|]; intros [H1 H2]; split; [exact H1|]; split; [|exact H2];
           intros ->; apply Hhd in H2; unfold is_qpd2, is_cut_wire in H2; rewrite Eop in H2;
           destruct H2 as [[? ?]|(? & ? & ?)]; discriminate).
    + (* CutWire *)
      split; [simpl; split; [lia|exact I1]|]. intros kd j. cbn [In]. rewrite I2, Hshift. split.
      * intros [H|H]; [inversion H; subst; split; [lia|]; apply Hhd; right; unfold is_qpd2, is_cut_wire; rewrite Eop; auto|tauto].
      * intros [H1 H2]. destruct (Nat.eq_dec j k0) as [->|N]; [|right; tauto].
        left. apply Hhd in H2. unfold is_qpd2, is_cut_wire in H2. rewrite Eop in H2.
        destruct H2 as [[? ?]|(_ & _ & ->)]; [discriminate|reflexivity].
    + (* Qpd2 *)
      split; [simpl; split; [lia|exact I1]|]. intros kd j. cbn [In]. rewrite I2, Hshift. split.
      * intros [H|H]; [inversion H; subst; split; [lia|]; apply Hhd; left; unfold is_qpd2; rewrite Eop; auto|tauto].
      * intros [H1 H2]. destruct (Nat.eq_dec j k0) as [->|N]; [|right; tauto].
        left. apply Hhd in H2. unfold is_qpd2, is_cut_wire in H2. rewrite Eop in H2.
        destruct H2 as [[_ ->]|(? & _ & _)]; [reflexivity|discriminate].
Qed.

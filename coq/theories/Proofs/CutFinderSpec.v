(* Proofs/CutFinderSpec.v — declarative notions used in the statements of C07 (no reference to the search):
   cut plans and their rendering as a marked circuit, positions and kinds of markers, the wire-segment graph
   of a marked circuit and feasibility for a width limit. *)
From Coq Require Import QArith Relations.
From CKT Require Import Model.CutFinder.
Close Scope Q_scope.

(* ---------------- cut plans ---------------- *)
(* what is done at one instruction of the input circuit *)
Inductive ckind := Leave | KGateCut | KLeftCut | KRightCut | KBothCut.

Definition plan := nat -> ckind.          (* position in circuit.data -> kind *)

(* the wrapped form of a gate according to the gate table (TwoQubitQPDGate.from_instruction) *)
Definition wrap_op (t : gtab) (i : instr) : instr :=
  match iop i with
  | Gate g => match glookup g t with Some (_, o) => mkI o (iqs i) [] | None => i end
  | _ => i
  end.

Definition render_instr (t : gtab) (k : ckind) (i : instr) : list instr :=
  match k with
  | Leave => [i]
  | KGateCut => [wrap_op t i]
  | KLeftCut => [cut_wire_instr (nth 0 (iqs i) 0); i]
  | KRightCut => [cut_wire_instr (nth 1 (iqs i) 0); i]
  | KBothCut => [cut_wire_instr (nth 0 (iqs i) 0); cut_wire_instr (nth 1 (iqs i) 0); i]
  end.

(* the input circuit with only markers added: every instruction stays in place and in order; a gate cut wraps the
   gate; a wire cut puts CutWire markers immediately before the gate on its first / second / both input qubits *)
Fixpoint render_from (t : gtab) (p : plan) (k : nat) (c : circ) : circ :=
  match c with
  | [] => []
  | i :: r => render_instr t (p k) i ++ render_from t p (S k) r
  end.

Definition render (t : gtab) (p : plan) (c : circ) : circ := render_from t p 0 c.

(* an instruction the cut finder treats as a multi-qubit gate *)
Definition is_multi (i : instr) : bool := negb (is_barrier i) && Nat.ltb 1 (length (iqs i)).

(* kappa of the gate at an instruction (None: not a 2-qubit Gate known to the table) *)
Definition kappa_of (t : gtab) (i : instr) : option Q := op_gamma t i.

(* a plan uses only permitted kinds, and only at two-qubit gates *)
Definition plan_permitted (t : gtab) (gate_lo wire_lo : bool) (c : circ) (p : plan) : Prop :=
  forall k, p k <> Leave ->
    exists i, nth_error c k = Some i /\ is_multi i = true /\ length (iqs i) = 2 /\
      match p k with
      | KGateCut => gate_lo = true /\ kappa_of t i <> None
      | _ => wire_lo = true
      end.

(* sampling overhead of one decision *)
Definition kind_overhead (t : gtab) (k : ckind) (i : instr) : Q :=
  match k with
  | Leave => 1
  | KGateCut => match kappa_of t i with Some g => g * g | None => 1 end
  | KLeftCut | KRightCut => 16
  | KBothCut => 16 * 16
  end%Q.

Fixpoint plan_overhead_from (t : gtab) (p : plan) (k : nat) (c : circ) : Q :=
  match c with
  | [] => 1%Q
  | i :: r => (kind_overhead t (p k) i * plan_overhead_from t p (S k) r)%Q
  end.

Definition plan_overhead (t : gtab) (p : plan) (c : circ) : Q := plan_overhead_from t p 0 c.

(* ---------------- markers in a circuit ---------------- *)
Definition is_cut_wire (i : instr) : bool := match iop i with CutWire => true | _ => false end.
Definition is_qpd2 (i : instr) : bool := match iop i with Qpd2 _ _ _ => true | _ => false end.

Definition erase_cut_wires (c : circ) : circ := filter (fun i => negb (is_cut_wire i)) c.

Definition marker_at (c : circ) (k : nat) : option cut_kind :=
  match nth_error c k with
  | Some i => if is_qpd2 i then Some GateCut else if is_cut_wire i then Some WireCut else None
  | None => None
  end.

Definition count_cut_wires (c : circ) : nat := length (filter is_cut_wire c).

(* a plain input circuit: ordinary gates and barriers only (no pre-placed markers) *)
Definition plain_instr (i : instr) : bool :=
  match iop i with Gate _ | Barrier _ => true | _ => false end.

(* ---------------- wire-segment graph ---------------- *)
(* node (q, k): the k-th segment of qubit q (k CutWire markers on q precede it) *)
Definition node := (nat * nat)%type.

Definition bump (cur : nat -> nat) (q : nat) : nat -> nat := fun x => if Nat.eqb x q then S (cur x) else cur x.

(* edges contributed by the uncut multi-qubit gates, scanning the circuit left to right;
   cur q = number of CutWire markers seen so far on q.  Barriers and cut gates (Qpd2) contribute nothing. *)
Fixpoint seg_edges (c : circ) (cur : nat -> nat) : list (node * node) :=
  match c with
  | [] => []
  | i :: r =>
      match iop i with
      | CutWire => match iqs i with
                   | q :: _ => seg_edges r (bump cur q)
                   | [] => seg_edges r cur
                   end
      | Gate _ => match iqs i with
                  | q0 :: rest => map (fun q => ((q0, cur q0), (q, cur q))) rest ++ seg_edges r cur
                  | [] => seg_edges r cur
                  end
      | _ => seg_edges r cur
      end
  end.

Fixpoint seg_cur (c : circ) (cur : nat -> nat) : nat -> nat :=
  match c with
  | [] => cur
  | i :: r =>
      match iop i with
      | CutWire => match iqs i with
                   | q :: _ => seg_cur r (bump cur q)
                   | [] => seg_cur r cur
                   end
      | _ => seg_cur r cur
      end
  end.

Definition cur0 : nat -> nat := fun _ => 0.

Definition segment_graph (c : circ) : list (node * node) := seg_edges c cur0.

(* connectivity: reflexive-symmetric-transitive closure of the edges *)
Definition conn (E : list (node * node)) : node -> node -> Prop :=
  clos_refl_sym_trans node (fun a b => In (a, b) E).

(* every set of pairwise connected wire segments has at most W members:
   each component of the segment graph (= subcircuit after cutting at the markers) uses at most W qubits *)
Definition feasible (W : nat) (c : circ) : Prop :=
  forall S : list node, NoDup S ->
    (forall a b, In a S -> In b S -> conn (segment_graph c) a b) -> length S <= W.

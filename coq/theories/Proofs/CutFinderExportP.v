(* Proofs/CutFinderExportP.v — none of the assertions executed by best_result.export_cuts(interface) fails
   (insert_wire_cut's `src_wire_id == new_gate_spec.qubits[input_id-1]`, NameToIDMap.define_id's two assertions,
   the index computations), for every state satisfying the search invariant. *)
From Coq Require Import QArith Lia.
From CKT Require Import Model.CutFinder Proofs.CutFinderSpec Proofs.CutFinderOut Proofs.CutFinderInv
  Proofs.CutFinderPlan Proofs.CutFinderCirc.
Close Scope Q_scope.

(* ---------------- more about sgl_init / multiqubit_from ---------------- *)
Lemma sgl_ids_lt : forall c names names' c',
  sgl_init names c = (names', c') -> NoDup names ->
  forall nm ids g, In (CEl nm ids g) c' -> forall x, In x ids -> x < length names'.
Proof.
  induction c as [|e r IH]; intros names names' c' H ND nm ids g Hin x Hx; simpl in H.
  - inversion H; subst. destruct Hin.
  - destruct e as [|nmq qs gam].
    + destruct (sgl_init names r) as [n c1] eqn:E. inversion H; subst.
      destruct Hin as [Hin|Hin]; [discriminate|]. eapply IH; eauto.
    + destruct (get_ids names qs) as [n1 ids1] eqn:E1. destruct (sgl_init n1 r) as [n2 c1] eqn:E2.
      inversion H; subst.
      destruct (get_ids_spec _ _ _ _ E1 ND) as (e1 & -> & ND1 & Hlen & Hlt & Hm).
      destruct (sgl_gates_spec _ _ _ _ 0 E2 ND1) as (e2 & -> & _).
      destruct Hin as [Hin|Hin].
      * inversion Hin; subst. rewrite app_length. specialize (Hlt x Hx). lia.
      * assert (HIH := IH _ _ _ E2 ND1 nm ids g Hin x Hx). exact HIH.
Qed.

Lemma multiqubit_from_nth : forall c' k g, In g (multiqubit_from k c') ->
  k <= g_inst g /\ nth_error c' (g_inst g - k) = Some (CEl (g_name g) (g_qubits g) (g_gamma g)).
Proof.
  induction c' as [|e r IH]; intros k g Hin; [destruct Hin|]. cbn [multiqubit_from] in Hin.
  assert (Hrec : In g (multiqubit_from (S k) r) ->
                 k <= g_inst g /\ nth_error (e :: r) (g_inst g - k) = Some (CEl (g_name g) (g_qubits g) (g_gamma g))).
  { intros H. destruct (IH _ _ H) as [H1 H2]. split; [lia|].
    replace (g_inst g - k) with (S (g_inst g - S k)) by lia. exact H2. }
  destruct e as [|nm qs gam]; [auto|].
  destruct (Nat.ltb 1 (length qs) && negb (Nat.eqb nm barrier_name)); [|auto].
  destruct Hin as [<-|Hin]; [|auto]. cbn. rewrite Nat.sub_diag. split; [lia|reflexivity].
Qed.

(* ---------------- wire names ---------------- *)
Fixpoint wbase (n : wname) : nat := match n with WOrig q => q | WCut m => wbase m end.
Fixpoint wdepth (n : wname) : nat := match n with WOrig _ => 0 | WCut m => S (wdepth m) end.

Lemma wname_beq_true a b : wname_beq a b = true -> a = b.
Proof.
  revert b; induction a as [p|a IH]; intros [q|b] H; simpl in H; try discriminate.
  - apply Nat.eqb_eq in H. now subst.
  - f_equal. now apply IH.
Qed.

Lemma insert_at_length {A} (l : list A) pos v : pos <= length l -> length (insert_at l pos v) = S (length l).
Proof.
  intros H. rewrite insert_at_split by exact H. rewrite app_length. simpl.
  rewrite firstn_length, skipn_length, Nat.min_l by lia. lia.
Qed.

Lemma nth_skipn_my {A} (l : list A) i j d : nth j (skipn i l) d = nth (i + j) l d.
Proof. revert l; induction i as [|i IH]; intros l; simpl; [reflexivity|]. destruct l; [destruct j; reflexivity|apply IH]. Qed.

Lemma skipn_add {A} (l : list A) a b : skipn a (skipn b l) = skipn (b + a) l.
Proof. revert l; induction b as [|b IH]; intros l; simpl; [reflexivity|]. destruct l; [now rewrite skipn_nil|apply IH]. Qed.

Lemma In_skipn_my {A} (l : list A) n x : In x (skipn n l) -> In x l.
Proof. intros H. rewrite <- (firstn_skipn n l). apply in_or_app. now right. Qed.

Lemma nth_incr_list mp i p : i <= p -> p < length mp -> nth p (CutFinderExport.incr_from mp i) 0 = S (nth p mp 0).
Proof.
  intros H1 H2. unfold CutFinderExport.incr_from.
  rewrite app_nth2 by (rewrite firstn_length; lia). rewrite firstn_length, Nat.min_l by lia.
  rewrite (nth_indep _ 0 (S 0)) by (rewrite map_length, skipn_length; lia).
  rewrite map_nth. f_equal. rewrite nth_skipn_my. f_equal. lia.
Qed.

Lemma incr_list_length mp i : length (CutFinderExport.incr_from mp i) = length mp.
Proof.
  unfold CutFinderExport.incr_from. rewrite app_length, map_length, firstn_length, skipn_length. lia.
Qed.

Lemma In_upd {A} (l : list A) i v x : In x (upd l i v) -> x = v \/ In x l.
Proof.
  revert i; induction l as [|y r IH]; intros [|i] H; simpl in *; auto.
  - destruct H as [H|H]; auto.
  - destruct H as [H|H]; auto. destruct (IH _ H); auto.
Qed.

Lemma NoDup_upd_fresh {A} (l : list A) i v : NoDup l -> ~ In v l -> NoDup (upd l i v).
Proof.
  revert i; induction l as [|y r IH]; intros [|i] ND NI; simpl; auto.
  - inversion ND; subst. constructor; auto. intros H. apply NI. now right.
  - inversion ND as [|? ? Hn ND']; subst. constructor.
    + intros H. apply In_upd in H as [H|H]; [subst; apply NI; now left|contradiction].
    + apply IH; auto. intros H. apply NI. now right.
Qed.

Section Export.
  Variable names : list nat.        (* id -> original qubit *)
  Hypothesis Hnames : NoDup names.
  Variable c' : list cco.           (* self.circuit: qubit ids *)
  Hypothesis Hids : forall nm ids g, In (CEl nm ids g) c' -> forall x, In x ids -> x < length names.

  Notation nq := (length names).

  Definition elem (wm : list nat) (e : cco) : nelem :=
    match e with
    | CBar => NBar
    | CEl nm ids g => NEl nm (map (fun x => nth x wm 0) ids) g
    end.

  (* the current wire of every qubit carries the deepest name of that qubit *)
  Definition NamesOK (nms : list (option wname)) (wm : list nat) : Prop :=
    (forall w, w < length nms -> exists n, nth w nms None = Some n) /\
    forall y, y < nq -> exists n, nth (nth y wm 0) nms None = Some n /\ wbase n = nth y names 0 /\
      forall w n', nth w nms None = Some n' -> wbase n' = nth y names 0 -> wdepth n' <= wdepth n.

  Record XInv (f : iface) (wm : list nat) (nw next cnt : nat) : Prop := {
    x_circ : if_circuit f = c' ;
    x_new : exists pre, if_new f = pre ++ map (elem wm) (skipn next c') /\ length pre = next + cnt ;
    x_ct : length (if_cut_type f) = length (if_new f) ;
    x_map_len : length (if_map f) = length c' ;
    x_map : forall p, next <= p -> p < length c' -> nth p (if_map f) 0 = p + cnt ;
    x_names_len : length (if_names f) = nw ;
    x_names : NamesOK (if_names f) wm ;
    x_ow : length (if_out_wires f) = nq ;
    x_wm_len : length wm = nq ;
    x_wm_nd : NoDup wm ;
    x_wm_lt : forall y, y < nq -> nth y wm 0 < nw ;
    x_next : next <= length c'
  }.

  (* ---------------- renaming the tail ---------------- *)
  Lemma rename_list_ok wm nw x ids :
    length wm = nq -> NoDup wm -> (forall y, y < nq -> nth y wm 0 < nw) -> x < nq ->
    (forall y, In y ids -> y < nq) ->
    rename_list (S nw) (nth x wm 0) nw (map (fun y => nth y wm 0) ids) =
      Val (map (fun y => nth y (upd wm x nw) 0) ids).
  Proof.
    intros Hl ND Hlt Hx. induction ids as [|y r IH]; intros Hy; simpl; [reflexivity|].
    assert (Hyq : y < nq) by (apply Hy; now left).
    unfold rename1. destruct (Nat.ltb_spec (nth y wm 0) (S nw)) as [_|C]; [|specialize (Hlt y Hyq); lia].
    cbn [obind]. rewrite IH by (intros z Hz; apply Hy; now right). cbn [obind]. f_equal. f_equal.
    destruct (Nat.eqb_spec (nth y wm 0) (nth x wm 0)) as [E|N].
    - assert (y = x) by (apply (proj1 (NoDup_nth wm 0) ND y x); [lia|lia|exact E]). subst. symmetry. apply nth_upd_same. lia.
    - rewrite nth_upd_other; [reflexivity|]. intros ->. now apply N.
  Qed.

  Lemma replace_ok wm nw x l :
    length wm = nq -> NoDup wm -> (forall y, y < nq -> nth y wm 0 < nw) -> x < nq ->
    (forall nm ids g, In (CEl nm ids g) l -> forall y, In y ids -> y < nq) ->
    replace_wire_ids (S nw) (nth x wm 0) nw (map (elem wm) l) = Val (map (elem (upd wm x nw)) l).
  Proof.
    intros Hl ND Hlt Hx. induction l as [|e r IH]; intros He; simpl; [reflexivity|].
    destruct e as [|nm ids g]; cbn [elem obind].
    - rewrite IH by (intros nm0 ids0 g0 Hin y Hy; apply (He nm0 ids0 g0); [right; exact Hin|exact Hy]). reflexivity.
    - rewrite (rename_list_ok wm nw x ids Hl ND Hlt Hx) by (intros y Hy; apply (He nm ids g); [now left|exact Hy]). cbn [obind].
      rewrite IH by (intros nm0 ids0 g0 Hin y Hy; apply (He nm0 ids0 g0); [right; exact Hin|exact Hy]). reflexivity.
  Qed.

  (* ---------------- insert_gate_cut ---------------- *)
  Lemma insert_gate_cut_ok f wm nw next cnt gid :
    XInv f wm nw next cnt -> next <= gid -> gid < length c' ->
    exists f', insert_gate_cut f gid = Val f' /\ XInv f' wm nw next cnt.
  Proof.
    intros X H1 H2. unfold insert_gate_cut.
    assert (Hm : nth_error (if_map f) gid = Some (gid + cnt)).
    { rewrite (nth_error_nth' (if_map f) 0) by (rewrite (x_map_len _ _ _ _ _ X); exact H2).
      f_equal. apply (x_map _ _ _ _ _ X); auto. }
    rewrite Hm.
    destruct (x_new _ _ _ _ _ X) as (pre & Enew & Lpre).
    assert (Hlen : length (if_new f) = length c' + cnt).
    { rewrite Enew, app_length, map_length, skipn_length, Lpre. pose proof (x_next _ _ _ _ _ X). lia. }
    destruct (Nat.ltb_spec (gid + cnt) (length (if_cut_type f))) as [_|C]; [|rewrite (x_ct _ _ _ _ _ X), Hlen in C; lia].
    eexists; split; [reflexivity|].
    destruct X. constructor; cbn; auto. now rewrite upd_length.
  Qed.

  (* ---------------- insert_wire_cut ---------------- *)
  Lemma insert_wire_cut_ok f wm nw next cnt gid input nm ids gam x :
    XInv f wm nw next cnt -> next <= gid -> nth_error c' gid = Some (CEl nm ids gam) ->
    nth_error ids (input - 1) = Some x ->
    exists f', insert_wire_cut f gid input (nth x wm 0) nw = Val f' /\
               XInv f' (upd wm x nw) (S nw) gid (S cnt).
  Proof.
    intros X H1 Hc Hx.
    assert (H2 : gid < length c') by (apply nth_error_Some; congruence).
    assert (Hxq : x < nq) by (eapply Hids; [eapply nth_error_In; exact Hc|eapply nth_error_In; exact Hx]).
    unfold insert_wire_cut.
    assert (Hm : nth_error (if_map f) gid = Some (gid + cnt)).
    { rewrite (nth_error_nth' (if_map f) 0) by (rewrite (x_map_len _ _ _ _ _ X); exact H2).
      f_equal. apply (x_map _ _ _ _ _ X); auto. }
    rewrite Hm.
    destruct (x_new _ _ _ _ _ X) as (pre & Enew & Lpre).
    (* split new_circuit at the gate *)
    set (A := pre ++ map (elem wm) (firstn (gid - next) (skipn next c'))).
    assert (Esk : skipn next c' = firstn (gid - next) (skipn next c') ++ skipn gid c').
    { rewrite <- (firstn_skipn (gid - next) (skipn next c')) at 1. f_equal.
      rewrite skipn_add. f_equal. lia. }
    assert (EA : if_new f = A ++ map (elem wm) (skipn gid c')).
    { rewrite Enew. unfold A. rewrite <- app_assoc, <- map_app, <- Esk. reflexivity. }
    assert (LA : length A = gid + cnt).
    { unfold A. rewrite app_length, map_length, firstn_length, skipn_length, Lpre. lia. }
    assert (Etail : skipn gid c' = CEl nm ids gam :: skipn (S gid) c').
    { clear - Hc. revert gid Hc. induction c' as [|e r IH]; intros [|g] H; simpl in *; try discriminate.
      - inversion H; reflexivity.
      - apply IH. exact H. }
    assert (Hel : nth_error (if_new f) (gid + cnt) = Some (NEl nm (map (fun y => nth y wm 0) ids) gam)).
    { rewrite EA, nth_error_app2 by lia. rewrite LA, Nat.sub_diag, Etail. reflexivity. }
    rewrite Hel.
    assert (Hq : nth_error (map (fun y => nth y wm 0) ids) (input - 1) = Some (nth x wm 0)).
    { rewrite nth_error_map, Hx. reflexivity. }
    rewrite Hq, Nat.eqb_refl. cbn [oassert obind].
    (* names *)
    destruct (x_names _ _ _ _ _ X) as [Nall Ncur].
    pose proof (x_names_len _ _ _ _ _ X) as Lnm.
    assert (Hdst : nth nw (if_names f) None = None) by (apply nth_overflow; lia).
    rewrite Hdst.
    destruct (Ncur x Hxq) as (n0 & Hn0 & Hb0 & Hd0).
    rewrite Hn0.
    assert (Hfresh : name_defined (if_names f) (WCut n0) = false).
    { destruct (name_defined (if_names f) (WCut n0)) eqn:E; [|reflexivity]. exfalso.
      unfold name_defined in E. apply existsb_exists in E as (o & Ho & Eo).
      destruct o as [n'|]; [|discriminate]. apply wname_beq_true in Eo. subst n'.
      apply (In_nth _ _ None) in Ho as (w & Hw & Ew).
      specialize (Hd0 w (WCut n0) Ew Hb0). simpl in Hd0. lia. }
    unfold define_id. rewrite Hdst, Hfresh. cbn [oassert obind negb].
    destruct (Nat.ltb_spec nw (length (if_names f))) as [C|_]; [lia|].
    rewrite Lnm, Nat.sub_diag. cbn [repeat app obind].
    set (names' := if_names f ++ [Some (WCut n0)]).
    assert (Lnm' : length names' = S nw) by (unfold names'; rewrite app_length; simpl; lia).
    rewrite Lnm'.
    pose proof (x_wm_lt _ _ _ _ _ X x Hxq) as Hsrc.
    destruct (Nat.ltb_spec (nth x wm 0) (S nw)) as [_|C]; [|lia]. cbn [oassert obind].
    (* the tail *)
    assert (Esk2 : skipn (gid + cnt) (if_new f) = map (elem wm) (skipn gid c')).
    { rewrite EA. rewrite <- LA. rewrite skipn_app, skipn_all, Nat.sub_diag. reflexivity. }
    rewrite Esk2.
    rewrite (replace_ok wm nw x (skipn gid c') (x_wm_len _ _ _ _ _ X) (x_wm_nd _ _ _ _ _ X) (x_wm_lt _ _ _ _ _ X) Hxq).
    2:{ intros nm0 ids0 g0 Hin y Hy. eapply Hids; [|exact Hy]. eapply In_skipn_my. exact Hin. }
    cbn [obind].
    assert (Efst : firstn (gid + cnt) (if_new f) = A).
    { rewrite EA, <- LA. rewrite firstn_app, firstn_all, Nat.sub_diag. simpl. now rewrite app_nil_r. }
    rewrite Efst.
    rewrite (x_circ _ _ _ _ _ X), Hc, Hx.
    destruct (Nat.ltb_spec x (length (if_out_wires f))) as [_|C]; [|rewrite (x_ow _ _ _ _ _ X) in C; lia].
    eexists; split; [reflexivity|].
    pose proof (x_wm_len _ _ _ _ _ X) as Lwm.
    constructor; cbn [if_circuit if_new if_cut_type if_map if_names if_out_wires].
    - reflexivity.
    - exists (A ++ [NMove (nth x wm 0) nw]). split.
      + rewrite <- app_assoc. reflexivity.
      + rewrite app_length, LA. simpl. lia.
    - rewrite insert_at_length.
      + rewrite (x_ct _ _ _ _ _ X), EA, !app_length. simpl. rewrite !map_length. lia.
      + rewrite (x_ct _ _ _ _ _ X), EA, app_length, LA. lia.
    - rewrite incr_list_length. apply (x_map_len _ _ _ _ _ X).
    - intros p Hp1 Hp2. rewrite nth_incr_list by (rewrite ?(x_map_len _ _ _ _ _ X); lia).
      rewrite (x_map _ _ _ _ _ X) by lia. lia.
    - exact Lnm'.
    - (* names *)
      split.
      + intros w Hw. rewrite Lnm' in Hw. unfold names'. destruct (Nat.eq_dec w nw) as [->|N].
        * exists (WCut n0). rewrite app_nth2 by lia. rewrite Lnm, Nat.sub_diag. reflexivity.
        * destruct (Nall w) as (n & Hn); [lia|]. exists n. rewrite app_nth1 by lia. exact Hn.
      + intros y Hy. destruct (Nat.eq_dec y x) as [->|Ny].
        * rewrite nth_upd_same by lia. exists (WCut n0). unfold names'.
          rewrite app_nth2 by lia. rewrite Lnm, Nat.sub_diag. split; [reflexivity|]. split; [exact Hb0|].
          intros w n' Hw Hb. destruct (Nat.lt_ge_cases w nw) as [Hlt|Hge].
          -- rewrite app_nth1 in Hw by lia. specialize (Hd0 w n' Hw Hb). simpl. lia.
          -- destruct (Nat.eq_dec w nw) as [->|N].
             ++ rewrite app_nth2 in Hw by lia. rewrite Lnm, Nat.sub_diag in Hw. inversion Hw; subst. lia.
             ++ rewrite nth_overflow in Hw by (rewrite app_length; simpl; lia). discriminate.
        * rewrite nth_upd_other by auto. destruct (Ncur y Hy) as (n & Hn & Hb & Hd).
          pose proof (x_wm_lt _ _ _ _ _ X y Hy) as Hylt.
          exists n. unfold names'. rewrite app_nth1 by lia. split; [exact Hn|]. split; [exact Hb|].
          intros w n' Hw Hbw. destruct (Nat.lt_ge_cases w nw) as [Hlt|Hge].
          -- rewrite app_nth1 in Hw by lia. apply (Hd w n' Hw Hbw).
          -- destruct (Nat.eq_dec w nw) as [->|N].
             ++ rewrite app_nth2 in Hw by lia. rewrite Lnm, Nat.sub_diag in Hw. inversion Hw; subst. simpl in Hbw.
                exfalso. apply Ny. rewrite Hb0 in Hbw.
                apply (proj1 (NoDup_nth names 0) Hnames y x Hy Hxq). congruence.
             ++ rewrite nth_overflow in Hw by (rewrite app_length; simpl; lia). discriminate.
    - rewrite upd_length. apply (x_ow _ _ _ _ _ X).
    - rewrite upd_length. exact Lwm.
    - apply NoDup_upd_fresh; [apply (x_wm_nd _ _ _ _ _ X)|].
      intros Hin. apply (In_nth _ _ 0) in Hin as (y & Hy & Ey). rewrite Lwm in Hy.
      pose proof (x_wm_lt _ _ _ _ _ X y Hy). lia.
    - intros y Hy. destruct (Nat.eq_dec y x) as [->|Ny].
      + rewrite nth_upd_same by lia. lia.
      + rewrite nth_upd_other by auto. pose proof (x_wm_lt _ _ _ _ _ X y Hy). lia.
    - lia.
  Qed.

  (* ---------------- replaying the actions ---------------- *)
  Lemma replay_none l : fold_left astep l None = None.
  Proof. induction l; simpl; auto. Qed.

  Lemma astep_inv wm nw a st' :
    astep (Some (wm, nw)) a = Some st' ->
    match a_name a with
    | CutTwoQubitGate => st' = (wm, nw)
    | CutLeftWire => a_args a = [[1; nth (q1_of (a_gate a)) wm 0; nw]] /\ st' = (upd wm (q1_of (a_gate a)) nw, S nw)
    | CutRightWire => a_args a = [[2; nth (q2_of (a_gate a)) wm 0; nw]] /\ st' = (upd wm (q2_of (a_gate a)) nw, S nw)
    | CutBothWires => a_args a = [[1; nth (q1_of (a_gate a)) wm 0; nw]; [2; nth (q2_of (a_gate a)) wm 0; S nw]] /\
                      st' = (upd (upd wm (q1_of (a_gate a)) nw) (q2_of (a_gate a)) (S nw), S (S nw))
    end.
  Proof.
    unfold astep. intros H. cbv zeta in H. set (g := a_gate a) in *.
    destruct (a_name a); [inversion H; reflexivity| | |].
    - destruct (a_args a) as [|[|[|[|?]] [|w [|r [|? ?]]]] [|? ?]]; try discriminate.
      destruct (Nat.eqb_spec w (nth (q1_of g) wm 0)) as [Ew|]; [|discriminate].
      destruct (Nat.eqb_spec r nw) as [Er|]; [|discriminate]. cbn in H. inversion H. subst. auto.
    - destruct (a_args a) as [|[|[|[|[|?]]] [|w [|r [|? ?]]]] [|? ?]]; try discriminate.
      destruct (Nat.eqb_spec w (nth (q2_of g) wm 0)) as [Ew|]; [|discriminate].
      destruct (Nat.eqb_spec r nw) as [Er|]; [|discriminate]. cbn in H. inversion H. subst. auto.
    - destruct (a_args a) as [|[|[|[|?]] [|w [|r [|? ?]]]] [|[|[|[|[|?]]] [|w' [|r' [|? ?]]]] [|? ?]]]; try discriminate.
      destruct (Nat.eqb_spec w (nth (q1_of g) wm 0)) as [Ew|]; [|discriminate].
      destruct (Nat.eqb_spec r nw) as [Er|]; [|discriminate].
      destruct (Nat.eqb_spec w' (nth (q2_of g) wm 0)) as [Ew'|]; [|discriminate].
      destruct (Nat.eqb_spec r' (S nw)) as [Er'|]; [|discriminate]. cbn in H. inversion H. subst. auto.
  Qed.

  Lemma replay_mono A : forall wm nw wmF nwF,
    fold_left astep A (Some (wm, nw)) = Some (wmF, nwF) -> nw <= nwF.
  Proof.
    induction A as [|a r IH]; intros wm nw wmF nwF H; cbn [fold_left] in H; [inversion H; lia|].
    destruct (astep (Some (wm, nw)) a) as [[wm1 nw1]|] eqn:E; [|rewrite replay_none in H; discriminate].
    specialize (IH _ _ _ _ H). pose proof (astep_inv _ _ _ _ E) as Hi.
    destruct (a_name a); [inversion Hi; subst; lia| | |]; destruct Hi as [_ Hi]; inversion Hi; subst; lia.
  Qed.

  Lemma export_actions_ok : forall A f wm nw next cnt wmF nwF,
    XInv f wm nw next cnt -> incr_from next (map inst A) ->
    (forall a, In a A -> exists nm gam q1 q2,
        nth_error c' (inst a) = Some (CEl nm [q1; q2] gam) /\ g_qubits (a_gate a) = [q1; q2] /\ q1 <> q2) ->
    fold_left astep A (Some (wm, nw)) = Some (wmF, nwF) ->
    exists f', export_actions f nwF A = Val f'.
  Proof.
    induction A as [|a r IH]; intros f wm nw next cnt wmF nwF X Hinc Hg Hrep; [eexists; reflexivity|].
    cbn [fold_left] in Hrep.
    destruct (astep (Some (wm, nw)) a) as [[wm1 nw1]|] eqn:E; [|rewrite replay_none in Hrep; discriminate].
    pose proof (astep_inv _ _ _ _ E) as Hi.
    pose proof (replay_mono _ _ _ _ _ Hrep) as Hmono.
    destruct Hinc as [Hn1 Hn2]. fold (inst a) in Hn1, Hn2.
    destruct (Hg a (or_introl eq_refl)) as (nm & gam & q1 & q2 & Hc & Hq & Nq).
    assert (Hlt : inst a < length c') by (apply nth_error_Some; congruence).
    assert (Hg' : forall b, In b r -> exists nm gam q1 q2,
               nth_error c' (inst b) = Some (CEl nm [q1; q2] gam) /\ g_qubits (a_gate b) = [q1; q2] /\ q1 <> q2)
      by (intros b Hb; apply Hg; now right).
    assert (E1 : q1_of (a_gate a) = q1) by (unfold q1_of; now rewrite Hq).
    assert (E2 : q2_of (a_gate a) = q2) by (unfold q2_of; now rewrite Hq).
    cbn [export_actions]. unfold export_action. fold (inst a).
    destruct (a_name a).
    - inversion Hi; subst wm1 nw1.
      destruct (insert_gate_cut_ok f wm nw next cnt (inst a) X Hn1 Hlt) as (f1 & Hf1 & X1).
      rewrite Hf1. cbn [obind]. eapply (IH f1 wm nw next cnt); eauto.
      eapply incr_from_weaken; [|exact Hn2]. lia.
    - destruct Hi as [Ea Hi]. inversion Hi; subst wm1 nw1. rewrite Ea, E1.
      cbn [insert_all_lo_wire_cuts].
      assert (Hq1 : q1 < nq) by (eapply Hids; [eapply nth_error_In; exact Hc|now left]).
      pose proof (x_wm_lt _ _ _ _ _ X q1 Hq1) as Hw.
      destruct (Nat.ltb_spec (nth q1 wm 0) nwF) as [_|C]; [|lia].
      destruct (Nat.ltb_spec nw nwF) as [_|C]; [|lia]. cbn [andb].
      destruct (insert_wire_cut_ok f wm nw next cnt (inst a) 1 nm [q1; q2] gam q1 X Hn1 Hc eq_refl) as (f1 & Hf1 & X1).
      rewrite Hf1. cbn [obind]. rewrite E1 in Hrep.
      eapply (IH f1 _ _ (inst a) (S cnt)); eauto.
      eapply incr_from_weaken; [|exact Hn2]. lia.
    - destruct Hi as [Ea Hi]. inversion Hi; subst wm1 nw1. rewrite Ea, E2.
      cbn [insert_all_lo_wire_cuts].
      assert (Hq2 : q2 < nq) by (eapply Hids; [eapply nth_error_In; exact Hc|right; now left]).
      pose proof (x_wm_lt _ _ _ _ _ X q2 Hq2) as Hw.
      destruct (Nat.ltb_spec (nth q2 wm 0) nwF) as [_|C]; [|lia].
      destruct (Nat.ltb_spec nw nwF) as [_|C]; [|lia]. cbn [andb].
      destruct (insert_wire_cut_ok f wm nw next cnt (inst a) 2 nm [q1; q2] gam q2 X Hn1 Hc eq_refl) as (f1 & Hf1 & X1).
      rewrite Hf1. cbn [obind]. rewrite E2 in Hrep.
      eapply (IH f1 _ _ (inst a) (S cnt)); eauto.
      eapply incr_from_weaken; [|exact Hn2]. lia.
    - destruct Hi as [Ea Hi]. inversion Hi; subst wm1 nw1. rewrite Ea, E1, E2.
      cbn [insert_all_lo_wire_cuts].
      assert (Hq1 : q1 < nq) by (eapply Hids; [eapply nth_error_In; exact Hc|now left]).
      assert (Hq2 : q2 < nq) by (eapply Hids; [eapply nth_error_In; exact Hc|right; now left]).
      pose proof (x_wm_lt _ _ _ _ _ X q1 Hq1) as Hw1. pose proof (x_wm_lt _ _ _ _ _ X q2 Hq2) as Hw2.
      destruct (Nat.ltb_spec (nth q1 wm 0) nwF) as [_|C]; [|lia].
      destruct (Nat.ltb_spec nw nwF) as [_|C]; [|lia]. cbn [andb].
      destruct (insert_wire_cut_ok f wm nw next cnt (inst a) 1 nm [q1; q2] gam q1 X Hn1 Hc eq_refl) as (f1 & Hf1 & X1).
      rewrite Hf1. cbn [obind].
      destruct (Nat.ltb_spec (nth q2 wm 0) nwF) as [_|C]; [|lia].
      destruct (Nat.ltb_spec (S nw) nwF) as [_|C]; [|lia]. cbn [andb].
      assert (Ew2 : nth q2 wm 0 = nth q2 (upd wm q1 nw) 0) by (rewrite nth_upd_other; auto).
      rewrite Ew2.
      destruct (insert_wire_cut_ok f1 (upd wm q1 nw) (S nw) (inst a) (S cnt) (inst a) 2 nm [q1; q2] gam q2 X1 (le_n _) Hc eq_refl)
        as (f2 & Hf2 & X2).
      rewrite Hf2. cbn [obind]. rewrite E1, E2 in Hrep.
      eapply (IH f2 _ _ (inst a) (S (S cnt))); eauto.
      eapply incr_from_weaken; [|exact Hn2]. lia.
  Qed.
End Export.

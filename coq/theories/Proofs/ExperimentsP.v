(* Proofs/ExperimentsP.v — lemmas about Model/Experiments.v (property C05). *)
From Coq Require Import QArith Qabs Sorted Permutation Lia.
From CKT Require Import Common.Base Common.Circ Model.Decompose Model.Measurement Model.ResetPasses
  Model.Observables Model.Grouping Model.Experiments
  Proofs.DecomposeP Proofs.MeasurementP Proofs.ResetPassesP.
Close Scope Q_scope.

(* ====================================================================== *)
(* A. mapM                                                                 *)
(* ====================================================================== *)
Lemma res_bind_ok {A B} (r : res A) (f : A -> res B) y :
  res_bind r f = Ok y -> exists x, r = Ok x /\ f x = Ok y.
Proof. destruct r as [x| |]; simpl; try discriminate. intros H; exists x; auto. Qed.

Lemma res_map_ok {A B} (f : A -> B) (r : res A) y :
  res_map f r = Ok y -> exists x, r = Ok x /\ y = f x.
Proof. destruct r as [x| |]; simpl; try discriminate. intros H; inversion H; exists x; auto. Qed.

Lemma mapM_Forall2 {A B} (f : A -> res B) : forall l ys,
  mapM f l = Ok ys -> Forall2 (fun x y => f x = Ok y) l ys.
Proof.
  induction l as [|x r IH]; intros ys H; simpl in H.
  - inversion H. constructor.
  - apply res_bind_ok in H as (y & Hy & H). apply res_map_ok in H as (ys' & Hys & ->).
    constructor; auto.
Qed.

Lemma Forall2_length' {A B} (R : A -> B -> Prop) l l' : Forall2 R l l' -> length l = length l'.
Proof. induction 1; simpl; congruence. Qed.

Lemma Forall2_nth_error {A B} (R : A -> B -> Prop) l l' :
  Forall2 R l l' -> forall i x, nth_error l i = Some x -> exists y, nth_error l' i = Some y /\ R x y.
Proof.
  induction 1 as [|a b l l' Hab H IH]; intros i x Hx.
  - destruct i; discriminate.
  - destruct i as [|i]; simpl in *.
    + inversion Hx; subst. exists b; auto.
    + apply IH; assumption.
Qed.

Lemma Forall2_imp {A B} (R R' : A -> B -> Prop) l l' :
  (forall x y, R x y -> R' x y) -> Forall2 R l l' -> Forall2 R' l l'.
Proof. intros H; induction 1; constructor; auto. Qed.

Lemma Forall2_map_r {A B C} (R : A -> C -> Prop) (f : B -> C) l l' :
  Forall2 (fun x y => R x (f y)) l l' -> Forall2 R l (map f l').
Proof. induction 1; simpl; constructor; auto. Qed.

(* ====================================================================== *)
(* B. the sort: permutation, descending, stable                            *)
(* ====================================================================== *)
Lemma ins_desc_perm x l : Permutation (x :: l) (ins_desc x l).
Proof.
  induction l as [|y r IH]; simpl; [apply Permutation_refl|].
  destruct (Qle_bool (s_w y) (s_w x)); [apply Permutation_refl|].
  eapply Permutation_trans; [apply perm_swap|]. now apply perm_skip.
Qed.

Lemma sort_perm d : Permutation d (sort_samples d).
Proof.
  induction d as [|x r IH]; simpl; [constructor|].
  eapply Permutation_trans; [apply perm_skip, IH|apply ins_desc_perm].
Qed.

Lemma sort_length d : length (sort_samples d) = length d.
Proof. symmetry. apply Permutation_length, sort_perm. Qed.

(* descending by weight *)
Definition ge_w (a b : sample) : Prop := (s_w b <= s_w a)%Q.

Lemma ins_desc_sorted x l : StronglySorted ge_w l -> StronglySorted ge_w (ins_desc x l).
Proof.
  induction 1 as [|y r Hs IH Hall]; simpl; [repeat constructor|].
  destruct (Qle_bool (s_w y) (s_w x)) eqn:E.
  - apply Qle_bool_iff in E. constructor; [constructor; assumption|].
    constructor; [exact E|]. rewrite Forall_forall in *. intros z Hz. unfold ge_w in *.
    eapply Qle_trans; [apply (Hall z Hz)|exact E].
  - constructor; [exact IH|].
    assert (Hlt : (s_w x < s_w y)%Q).
    { apply Qnot_le_lt. intros H. apply Qle_bool_iff in H. congruence. }
    eapply Permutation_Forall; [apply ins_desc_perm|]. constructor; [|exact Hall].
    unfold ge_w. now apply Qlt_le_weak.
Qed.

Lemma sort_sorted d : StronglySorted ge_w (sort_samples d).
Proof. induction d as [|x r IH]; simpl; [constructor|now apply ins_desc_sorted]. Qed.

(* stability: the samples of any one weight class keep their dictionary order *)
Definition same_w (v : Q) (s : sample) : bool := Qeq_bool (s_w s) v.

Lemma ins_desc_stable v x l : filter (same_w v) (ins_desc x l) = filter (same_w v) (x :: l).
Proof.
  induction l as [|y r IH]; [reflexivity|]. cbn [ins_desc].
  destruct (Qle_bool (s_w y) (s_w x)) eqn:E; [reflexivity|].
  assert (Hlt : (s_w x < s_w y)%Q).
  { apply Qnot_le_lt. intros H. apply Qle_bool_iff in H. congruence. }
  cbn [filter] in *. rewrite IH.
  destruct (same_w v y) eqn:Ey; [|reflexivity].
  destruct (same_w v x) eqn:Ex; [|reflexivity].
  exfalso. unfold same_w in *. apply Qeq_bool_iff in Ex, Ey.
  rewrite Ex, Ey in Hlt. exact (Qlt_irrefl _ Hlt).
Qed.

Lemma sort_stable v d : filter (same_w v) (sort_samples d) = filter (same_w v) d.
Proof.
  induction d as [|x r IH]; [reflexivity|]. cbn [sort_samples fold_right].
  fold (sort_samples r). rewrite ins_desc_stable. cbn [filter]. now rewrite IH.
Qed.

(* ====================================================================== *)
(* C. sums and products over Q                                             *)
(* ====================================================================== *)
Lemma qsum_app a b : (sumQ (a ++ b) == sumQ a + sumQ b)%Q.
Proof. induction a as [|x a IH]; simpl; [ring|]. rewrite IH. ring. Qed.

Lemma qsum_perm (l l' : list Q) : Permutation l l' -> (sumQ l == sumQ l')%Q.
Proof.
  induction 1 as [|x l l' H IH|x y l|l l' l'' H1 IH1 H2 IH2]; simpl.
  - reflexivity.
  - now rewrite IH.
  - ring.
  - now rewrite IH1.
Qed.

Lemma qsum_map_ext {A} (f g : A -> Q) l :
  (forall x, In x l -> (f x == g x)%Q) -> (sumQ (map f l) == sumQ (map g l))%Q.
Proof.
  induction l as [|x r IH]; intros H; simpl; [reflexivity|].
  rewrite (H x (or_introl eq_refl)), IH; [reflexivity|]. intros y Hy; apply H; now right.
Qed.

Lemma qsum_scale {A} (c : Q) (f : A -> Q) l : (sumQ (map (fun x => f x * c) l) == sumQ (map f l) * c)%Q.
Proof. induction l as [|x r IH]; simpl; [ring|]. rewrite IH. ring. Qed.

Lemma qsum_nonneg l : (forall x, In x l -> (0 <= x)%Q) -> (0 <= sumQ l)%Q.
Proof.
  induction l as [|x r IH]; intros H; simpl; [apply Qle_refl|].
  replace 0%Q with (0 + 0)%Q by reflexivity. apply Qplus_le_compat; [apply H; now left|apply IH; intros; apply H; now right].
Qed.

Lemma qprod_nonneg l : (forall x, In x l -> (0 <= x)%Q) -> (0 <= prodQ l)%Q.
Proof.
  induction l as [|x r IH]; intros H; simpl; [discriminate|].
  apply Qmult_le_0_compat; [apply H; now left|apply IH; intros; apply H; now right].
Qed.

Lemma kappa_of_nonneg cs : (0 <= kappa_of cs)%Q.
Proof.
  apply qsum_nonneg. intros x Hx. apply in_map_iff in Hx as (c & <- & _). apply Qabs_nonneg.
Qed.

Lemma kappa_all_nonneg C : (0 <= kappa_all C)%Q.
Proof.
  apply qprod_nonneg. intros x Hx. apply in_map_iff in Hx as (c & <- & _). apply kappa_of_nonneg.
Qed.

Lemma qprod_abs l : (Qabs (prodQ l) == prodQ (map Qabs l))%Q.
Proof.
  induction l as [|x r IH]; [reflexivity|]. unfold prodQ in *. cbn [fold_right map].
  now rewrite Qabs_Qmult, IH.
Qed.

(* np.sign *)
Lemma qsign_pos q : (0 < q)%Q -> qsign q = 1%Q.
Proof. destruct q as [[|p|p] d]; unfold qsign, Qlt; simpl; intros H; try reflexivity; lia. Qed.
Lemma qsign_neg q : (q < 0)%Q -> qsign q = (-1)%Q.
Proof. destruct q as [[|p|p] d]; unfold qsign, Qlt; simpl; intros H; try reflexivity; lia. Qed.
Lemma qsign_zero q : (q == 0)%Q -> qsign q = 0%Q.
Proof. destruct q as [[|p|p] d]; unfold qsign, Qeq; simpl; intros H; try reflexivity; lia. Qed.

Lemma qsign_abs q : (Qabs q * qsign q == q)%Q.
Proof.
  destruct (Q_dec q 0) as [[H|H]|H].
  - rewrite (qsign_neg q H), Qabs_neg by now apply Qlt_le_weak. ring.
  - rewrite (qsign_pos q H), Qabs_pos by now apply Qlt_le_weak. ring.
  - rewrite (qsign_zero q H), H. reflexivity.
Qed.

Lemma qsign_cases q :
  ((0 < q)%Q /\ qsign q = 1%Q) \/ ((q < 0)%Q /\ qsign q = (-1)%Q) \/ ((q == 0)%Q /\ qsign q = 0%Q).
Proof.
  destruct (Q_dec q 0) as [[H|H]|H]; [right; left|left|right; right]; split; auto using qsign_pos, qsign_neg, qsign_zero.
Qed.

(* ====================================================================== *)
(* D. coefficients                                                         *)
(* ====================================================================== *)
(* the coefficients picked by a joint map id: cs_j = C_j[ids_j] *)
Lemma chosen_coeffs_spec : forall C ids cs,
  chosen_coeffs C ids = Ok cs ->
  length ids = length C /\
  Forall2 (fun p c => nth_error (fst p) (snd p) = Some c) (combine C ids) cs.
Proof.
  induction C as [|v C IH]; intros [|i ids] cs H; simpl in H; try discriminate.
  - inversion H. split; [reflexivity|constructor].
  - destruct (nth_error v i) as [c|] eqn:E; [|discriminate].
    apply res_map_ok in H as (cs' & H & ->). destruct (IH _ _ H) as (Hl & Hf).
    split; [simpl; congruence|]. simpl. constructor; auto.
Qed.

Lemma total_weight_eq W : (total_weight W == sumQ (map s_w W))%Q.
Proof.
  induction W as [|s W IH]; [reflexivity|]. cbn [total_weight fold_right map].
  fold (total_weight W). rewrite Qred_correct, IH. reflexivity.
Qed.

(* what `core` returns, read off its definition *)
Definition row_ok (gh gsx : nat) (env : benv) (C : list (list Q)) (table : list (nat * pinfo))
           (og : list (nat * list ogroup)) (total : Q) (s : sample) (r : (Q * wkind) * list (list mcirc)) : Prop :=
  exists cs, chosen_coeffs C (s_ids s) = Ok cs /\
             mapM (per_label gh gsx env table (s_ids s)) og = Ok (snd r) /\
             fst r = (coeff_value total (kappa_all C) (s_w s) cs, s_t s).

Lemma core_inv gh gsx env C table og W out coeffs :
  core gh gsx env C table og W = Ok (out, coeffs) ->
  exists rows,
    Forall2 (row_ok gh gsx env C table og (total_weight W)) (sort_samples W) rows /\
    out = collect (map fst og) (map snd rows) /\ coeffs = map fst rows.
Proof.
  unfold core. intros H. apply res_bind_ok in H as (rows & Hm & H). inversion H; subst; clear H.
  exists rows. split; [|split; reflexivity].
  apply mapM_Forall2 in Hm. eapply Forall2_imp; [|exact Hm].
  intros s r Hr. cbv beta in Hr.
  apply res_bind_ok in Hr as (cs & Hcs & Hr). apply res_bind_ok in Hr as (row & Hrow & Hr).
  inversion Hr; subst; clear Hr. exists cs. simpl. auto.
Qed.

Definition coeff_ok (C : list (list Q)) (total : Q) (s : sample) (c : Q * wkind) : Prop :=
  exists cs, chosen_coeffs C (s_ids s) = Ok cs /\ c = (coeff_value total (kappa_all C) (s_w s) cs, s_t s).

Lemma core_coeffs gh gsx env C table og W out coeffs :
  core gh gsx env C table og W = Ok (out, coeffs) ->
  Forall2 (coeff_ok C (total_weight W)) (sort_samples W) coeffs.
Proof.
  intros H. apply core_inv in H as (rows & Hf & _ & ->).
  apply Forall2_map_r. eapply Forall2_imp; [|exact Hf].
  intros s r (cs & H1 & _ & H3). exists cs. auto.
Qed.

Lemma abs_coeff total kap w cs :
  (0 <= w)%Q -> (0 < total)%Q -> (0 <= kap)%Q -> ~ (prodQ cs == 0)%Q ->
  (Qabs (coeff_value total kap w cs) == w / total * kap)%Q.
Proof.
  intros Hw Ht Hk Hp. unfold coeff_value.
  assert (Hq : (0 <= w / total * kap)%Q).
  { apply Qmult_le_0_compat; [|exact Hk]. unfold Qdiv. apply Qmult_le_0_compat; [exact Hw|].
    apply Qinv_le_0_compat. now apply Qlt_le_weak. }
  destruct (qsign_cases (prodQ cs)) as [[_ ->]|[[_ ->]|[H0 _]]]; [| |contradiction].
  - rewrite Qabs_pos; [ring|]. setoid_replace (w / total * (kap * 1))%Q with (w / total * kap)%Q by ring. exact Hq.
  - rewrite Qabs_neg.
    + ring.
    + setoid_replace (w / total * (kap * -1))%Q with (- (w / total * kap))%Q by ring.
      apply Qopp_le_compat in Hq. exact Hq.
Qed.

(* sum |coeff| = kappa *)
Lemma sum_abs_coeffs C total (S : list sample) coeffs :
  Forall2 (coeff_ok C total) S coeffs ->
  (0 < total)%Q ->
  (forall s, In s S -> (0 <= s_w s)%Q) ->
  (forall s cs, In s S -> chosen_coeffs C (s_ids s) = Ok cs -> ~ (prodQ cs == 0)%Q) ->
  (sumQ (map (fun c => Qabs (fst c)) coeffs) == sumQ (map s_w S) / total * kappa_all C)%Q.
Proof.
  intros HF Ht. induction HF as [|s c S coeffs (cs & Hcs & ->) HF IH]; intros Hw Hp.
  - simpl. unfold Qdiv. ring.
  - change ((Qabs (coeff_value total (kappa_all C) (s_w s) cs) + sumQ (map (fun c => Qabs (fst c)) coeffs)
             == (s_w s + sumQ (map s_w S)) / total * kappa_all C)%Q).
    rewrite IH; [|intros; apply Hw; now right|intros s' cs' Hs'; apply Hp; now right].
    rewrite abs_coeff; [unfold Qdiv; ring|apply Hw; now left|exact Ht|apply kappa_all_nonneg|].
    apply (Hp s cs); [now left|exact Hcs].
Qed.

Lemma sign_coeff total kap w cs :
  (0 < w)%Q -> (0 < total)%Q -> (0 < kap)%Q ->
  qsign (coeff_value total kap w cs) = qsign (prodQ cs).
Proof.
  intros Hw Ht Hk. unfold coeff_value.
  assert (Hq : (0 < w / total * kap)%Q).
  { apply Qmult_lt_0_compat; [|exact Hk]. unfold Qdiv. apply Qmult_lt_0_compat; [exact Hw|]. now apply Qinv_lt_0_compat. }
  destruct (qsign_cases (prodQ cs)) as [[_ ->]|[[_ ->]|[_ ->]]].
  - apply qsign_pos. setoid_replace (w / total * (kap * 1))%Q with (w / total * kap)%Q by ring. exact Hq.
  - apply qsign_neg. setoid_replace (w / total * (kap * -1))%Q with (- (w / total * kap))%Q by ring.
    setoid_replace 0%Q with (- 0)%Q by reflexivity. now apply Qopp_lt_compat.
  - apply qsign_zero. ring.
Qed.

(* ---------------- exact (infinite-budget) weights ---------------- *)
(* itertools.product over range(len(p)) for p in probs : all joint map ids *)
Fixpoint joint_maps (dims : list nat) : list jkey :=
  match dims with
  | [] => [[]]
  | n :: r => flat_map (fun i => map (cons i) (joint_maps r)) (seq 0 n)
  end.

(* product of the chosen probabilities *)
Fixpoint joint_prob (probs : list (list Q)) (ids : jkey) : Q :=
  match probs, ids with
  | v :: rv, i :: ri => (nth i v 0 * joint_prob rv ri)%Q
  | _, _ => 1%Q
  end.

(* QPDBasis.probabilities = |coeffs| / kappa *)
Definition probs_of (C : list (list Q)) : list (list Q) :=
  map (fun cs => map (fun c => (Qabs c / kappa_of cs)%Q) cs) C.

Lemma jointp_probs : forall C ids cs,
  chosen_coeffs C ids = Ok cs -> (forall v, In v C -> ~ (kappa_of v == 0)%Q) ->
  (joint_prob (probs_of C) ids * kappa_all C == prodQ (map Qabs cs))%Q.
Proof.
  induction C as [|v C IH]; intros [|i ids] cs H Hk; simpl in H; try discriminate.
  - inversion H. reflexivity.
  - destruct (nth_error v i) as [c|] eqn:E; [|discriminate].
    apply res_map_ok in H as (cs' & H & ->).
    specialize (IH _ _ H (fun v' Hv' => Hk v' (or_intror Hv'))).
    cbn [probs_of map joint_prob]. fold (probs_of C).
    assert (Hn : nth i (map (fun c0 => (Qabs c0 / kappa_of v)%Q) v) 0%Q = (Qabs c / kappa_of v)%Q).
    { apply nth_error_nth. now rewrite nth_error_map, E. }
    rewrite Hn. unfold kappa_all in *. cbn [map prodQ fold_right].
    fold (prodQ (map kappa_of C)). fold (prodQ (map Qabs cs')). rewrite <- IH.
    field. apply Hk. now left.
Qed.

(* sum over all joint maps of the product of probabilities = product of the sums *)
Lemma qsum_flat_map {A B} (f : B -> Q) (g : A -> list B) l :
  (sumQ (map f (flat_map g l)) == sumQ (map (fun a => sumQ (map f (g a))) l))%Q.
Proof.
  induction l as [|a l IH]; simpl; [reflexivity|]. rewrite map_app, qsum_app, IH. reflexivity.
Qed.

Lemma map_nth_seq (v : list Q) : map (fun i => nth i v 0%Q) (seq 0 (length v)) = v.
Proof.
  induction v as [|a v IH]; [reflexivity|]. cbn [length seq map nth]. f_equal.
  rewrite <- seq_shift, map_map. exact IH.
Qed.

Lemma joint_maps_sum probs :
  (sumQ (map (joint_prob probs) (joint_maps (map (@length Q) probs))) == prodQ (map sumQ probs))%Q.
Proof.
  induction probs as [|v r IH]; [simpl; ring|].
  cbn [map joint_maps]. rewrite qsum_flat_map.
  rewrite (qsum_map_ext _ (fun i => (nth i v 0 * prodQ (map sumQ r))%Q)).
  - rewrite qsum_scale, map_nth_seq. unfold prodQ. cbn [fold_right]. reflexivity.
  - intros i _. rewrite map_map. cbn [joint_prob].
    rewrite <- IH, Qmult_comm, <- qsum_scale.
    apply qsum_map_ext. intros c _. ring.
Qed.

Lemma probs_sum_one C : (forall v, In v C -> ~ (kappa_of v == 0)%Q) ->
  (prodQ (map sumQ (probs_of C)) == 1)%Q.
Proof.
  induction C as [|v C IH]; intros Hk; [reflexivity|].
  cbn [probs_of map]. fold (probs_of C). unfold prodQ in *. cbn [fold_right].
  rewrite IH by (intros; apply Hk; now right).
  assert (H : (sumQ (map (fun c => Qabs c / kappa_of v) v) == kappa_of v / kappa_of v)%Q).
  { unfold Qdiv at 1. rewrite (qsum_scale (/ kappa_of v) Qabs v). reflexivity. }
  rewrite H. field. apply Hk. now left.
Qed.

(* joint_maps: membership and absence of duplicates *)
Lemma NoDup_app_intro {A} (a b : list A) :
  NoDup a -> NoDup b -> (forall x, In x a -> ~ In x b) -> NoDup (a ++ b).
Proof.
  induction 1 as [|x a Hx Ha IH]; intros Hb Hd; simpl; [exact Hb|].
  constructor.
  - rewrite in_app_iff. intros [H|H]; [contradiction|]. apply (Hd x); [now left|exact H].
  - apply IH; [exact Hb|]. intros y Hy. apply Hd. now right.
Qed.

Lemma NoDup_joint_maps dims : NoDup (joint_maps dims).
Proof.
  induction dims as [|n r IH]; [repeat constructor; intros []|].
  cbn [joint_maps]. generalize (seq_NoDup n 0). generalize (seq 0 n) as l.
  induction l as [|i l IHl]; intros Hnd; [constructor|].
  inversion Hnd as [|? ? Hi Hl]; subst. cbn [flat_map]. apply NoDup_app_intro.
  - apply FinFun.Injective_map_NoDup; [|exact IH]. intros a b H; now inversion H.
  - now apply IHl.
  - intros x Hx Hx'. apply in_map_iff in Hx as (c & <- & _).
    apply in_flat_map in Hx' as (j & Hj & Hx'). apply in_map_iff in Hx' as (c' & Hc' & _).
    inversion Hc'; subst. contradiction.
Qed.

Lemma In_joint_maps : forall dims ids, In ids (joint_maps dims) <-> Forall2 lt ids dims.
Proof.
  induction dims as [|n r IH]; intros ids; cbn [joint_maps].
  - split; [intros [<-|[]]; constructor|intros H; inversion H; now left].
  - rewrite in_flat_map. split.
    + intros (i & Hi & H). apply in_map_iff in H as (c & <- & Hc). apply in_seq in Hi.
      constructor; [lia|now apply IH].
    + intros H. inversion H as [|i n' c r' Hi Hc]; subst. exists i. split; [apply in_seq; lia|].
      apply in_map. now apply IH.
Qed.

Lemma chosen_coeffs_in_joint_maps : forall C ids cs,
  chosen_coeffs C ids = Ok cs -> In ids (joint_maps (map (@length Q) C)).
Proof.
  intros C ids cs H. apply In_joint_maps. revert ids cs H.
  induction C as [|v C IH]; intros [|i ids] cs H; simpl in H; try discriminate; [constructor|].
  destruct (nth_error v i) as [c|] eqn:E; [|discriminate].
  apply res_map_ok in H as (cs' & H & ->). simpl. constructor; [|eapply IH; eauto].
  apply nth_error_Some. congruence.
Qed.

(* a dictionary that lists every joint map of non-zero probability, each once, with its exact probability,
   has total weight 1 *)
Definition exact_weights (C : list (list Q)) (W : sdict) : Prop :=
  NoDup (map s_ids W) /\
  (forall s, In s W -> In (s_ids s) (joint_maps (map (@length Q) C)) /\ (s_w s == joint_prob (probs_of C) (s_ids s))%Q) /\
  (forall ids, In ids (joint_maps (map (@length Q) C)) -> ~ (joint_prob (probs_of C) ids == 0)%Q -> In ids (map s_ids W)).

Lemma qsum_filter_split {A} (f : A -> Q) (P : A -> bool) l :
  (sumQ (map f l) == sumQ (map f (filter P l)) + sumQ (map f (filter (fun x => negb (P x)) l)))%Q.
Proof.
  induction l as [|x l IH]; simpl; [ring|]. destruct (P x); simpl; rewrite IH; ring.
Qed.

Lemma qsum_zero {A} (f : A -> Q) l : (forall x, In x l -> (f x == 0)%Q) -> (sumQ (map f l) == 0)%Q.
Proof.
  induction l as [|x l IH]; intros H; simpl; [reflexivity|].
  rewrite (H x (or_introl eq_refl)), IH; [ring|]. intros; apply H; now right.
Qed.

Lemma probs_of_dims C : map (@length Q) (probs_of C) = map (@length Q) C.
Proof. unfold probs_of. rewrite map_map. apply map_ext. intros; apply map_length. Qed.

Lemma exact_weights_total C W :
  (forall v, In v C -> ~ (kappa_of v == 0)%Q) -> exact_weights C W -> (sumQ (map s_w W) == 1)%Q.
Proof.
  intros Hk (Hnd & Hin & Hall).
  set (P := probs_of C). set (K := map s_ids W). set (mem := fun ids : jkey => existsb (list_beq Nat.eqb ids) K).
  assert (Hmem : forall ids, mem ids = true <-> In ids K).
  { intros ids. unfold mem. rewrite existsb_exists. split.
    - intros (k & Hk1 & Hk2). apply list_beq_eq in Hk2; [now subst|]. intros a b; apply Nat.eqb_eq.
    - intros H. exists ids. split; [exact H|]. apply list_beq_refl. intros; apply Nat.eqb_refl. }
  rewrite <- (probs_sum_one C Hk), <- joint_maps_sum, probs_of_dims. fold P.
  rewrite (qsum_filter_split (joint_prob P) mem (joint_maps _)).
  rewrite (qsum_zero (joint_prob P) (filter (fun x => negb (mem x)) _)).
  - rewrite Qplus_0_r.
    rewrite (qsum_map_ext s_w (fun s => joint_prob P (s_ids s)) W) by (intros s Hs; apply (Hin s Hs)).
    rewrite <- (map_map s_ids (joint_prob P)). fold K.
    apply qsum_perm, Permutation_map, NoDup_Permutation; [exact Hnd|apply NoDup_filter, NoDup_joint_maps|].
    intros ids. rewrite filter_In, Hmem. split; [|tauto].
    intros H. split; [|exact H]. unfold K in H. apply in_map_iff in H as (s & <- & Hs). apply (Hin s Hs).
  - intros ids Hi. apply filter_In in Hi as (Hc & Hm). apply negb_true_iff in Hm.
    destruct (Qeq_dec (joint_prob P ids) 0) as [E|E]; [exact E|].
    exfalso. assert (In ids K) by (apply Hall; assumption). apply Hmem in H. congruence.
Qed.

(* with the exact weights the coefficient IS the product of the chosen maps' coefficients *)
Lemma exact_coeff C W s cs :
  (forall v, In v C -> ~ (kappa_of v == 0)%Q) -> exact_weights C W -> In s W ->
  chosen_coeffs C (s_ids s) = Ok cs ->
  (coeff_value (total_weight W) (kappa_all C) (s_w s) cs == prodQ cs)%Q.
Proof.
  intros Hk HW Hs Hcs. unfold coeff_value.
  rewrite total_weight_eq, (exact_weights_total C W Hk HW).
  destruct HW as (_ & Hin & _). destruct (Hin s Hs) as (_ & Hw). rewrite Hw.
  assert (Hkap : ~ (kappa_all C == 0)%Q).
  { unfold kappa_all. clear -Hk. induction C as [|v C IH]; [discriminate|].
    cbn [map prodQ fold_right]. fold (prodQ (map kappa_of C)). intros H.
    apply Qmult_integral in H as [H|H]; [apply (Hk v); [now left|exact H]|].
    apply IH; [intros; apply Hk; now right|exact H]. }
  setoid_replace (joint_prob (probs_of C) (s_ids s) / 1 * (kappa_all C * qsign (prodQ cs)))%Q
    with ((joint_prob (probs_of C) (s_ids s) * kappa_all C) * qsign (prodQ cs))%Q by (field; discriminate).
  rewrite (jointp_probs C (s_ids s) cs Hcs Hk), <- qprod_abs. apply qsign_abs.
Qed.

(* ====================================================================== *)
(* E. counts and layout                                                    *)
(* ====================================================================== *)
Lemma concat_uniform_length {A} (G : nat) (ls : list (list A)) :
  (forall l, In l ls -> length l = G) -> length (concat ls) = length ls * G.
Proof.
  induction ls as [|l r IH]; intros H; simpl; [reflexivity|].
  rewrite app_length, IH, (H l) by (intros; try apply H; simpl; auto). reflexivity.
Qed.

Lemma nth_error_concat_uniform {A} (G : nat) : forall (ls : list (list A)) z j,
  (forall l, In l ls -> length l = G) -> j < G ->
  nth_error (concat ls) (z * G + j) = match nth_error ls z with Some l => nth_error l j | None => None end.
Proof.
  induction ls as [|l r IH]; intros z j H Hj.
  - simpl. destruct z; simpl; [destruct j|destruct (G + z * G + j)]; reflexivity.
  - assert (Hl : length l = G) by (apply H; now left).
    destruct z as [|z]; simpl.
    + apply nth_error_app1. lia.
    + replace (G + z * G + j) with (length l + (z * G + j)) by lia.
      rewrite nth_error_app2 by lia. replace (length l + (z * G + j) - length l) with (z * G + j) by lia.
      apply IH; [intros; apply H; now right|exact Hj].
Qed.

Lemma Forall2_seq {A B} (R : A -> B -> Prop) (f : nat -> B) : forall (l : list A) k,
  (forall i x, nth_error l i = Some x -> R x (f (k + i))) -> Forall2 R l (map f (seq k (length l))).
Proof.
  induction l as [|a l IH]; intros k H; simpl; [constructor|]. constructor.
  - specialize (H 0 a eq_refl). now rewrite Nat.add_0_r in H.
  - apply IH. intros i x Hx. specialize (H (S i) x Hx). now rewrite Nat.add_succ_r in H.
Qed.

(* "circuit e is built from joint map `joint`, partition l, group g" *)
Definition built (gh gsx : nat) (env : benv) (table : list (nat * pinfo)) (joint : jkey) (l : nat)
           (g : ogroup) (e : mcirc) : Prop :=
  exists p ms, alookup table l = Some p /\
    match pi_sfx p with None => Ok joint | Some sfx => project joint sfx end = Ok ms /\
    build1 gh gsx env (pi_qc p) (pi_ids p) ms g = Ok e.

Lemma per_label_inv gh gsx env table joint l gs exps :
  per_label gh gsx env table joint (l, gs) = Ok exps ->
  Forall2 (fun g e => built gh gsx env table joint l g e) gs exps.
Proof.
  unfold per_label. cbn [fst snd]. destruct (alookup table l) as [p|] eqn:E; [|discriminate].
  intros H. apply res_bind_ok in H as (ms & Hms & H). apply mapM_Forall2 in H.
  eapply Forall2_imp; [|exact H]. intros g e Hb. exists p, ms. auto.
Qed.

(* the complete per-partition table, before empty entries are dropped *)
Definition entry_ok (gh gsx : nat) (env : benv) (table : list (nat * pinfo)) (S : list sample)
           (lg : nat * list ogroup) (le : nat * list mcirc) : Prop :=
  fst le = fst lg /\
  length (snd le) = length S * length (snd lg) /\
  forall z j s g, nth_error S z = Some s -> nth_error (snd lg) j = Some g ->
    exists e, built gh gsx env table (s_ids s) (fst lg) g e /\
              nth_error (snd le) (z * length (snd lg) + j) = Some (optimise e).

Lemma core_layout gh gsx env C table og W out coeffs :
  core gh gsx env C table og W = Ok (out, coeffs) ->
  exists full,
    Forall2 (entry_ok gh gsx env table (sort_samples W)) og full /\
    out = filter (fun le => negb (Nat.eqb (length (snd le)) 0)) full.
Proof.
  intros H. apply core_inv in H as (rows & HF & -> & _).
  unfold collect. rewrite map_length.
  eexists. split; [|reflexivity].
  apply Forall2_seq. intros li [l gs] Hli. cbn [Nat.add].
  (* every row has, at position li, the circuits of partition l *)
  assert (Hrow : forall z s r, nth_error (sort_samples W) z = Some s -> nth_error rows z = Some r ->
            Forall2 (fun g e => built gh gsx env table (s_ids s) l g e) gs (nth li (snd r) [])).
  { intros z s r Hs Hr.
    destruct (Forall2_nth_error _ _ _ HF z s Hs) as (r' & Hr' & (cs & _ & Hm & _)).
    rewrite Hr in Hr'. inversion Hr'; subst r'. apply mapM_Forall2 in Hm.
    destruct (Forall2_nth_error _ _ _ Hm li (l, gs) Hli) as (exps & He & Hp).
    rewrite (nth_error_nth _ _ _ He). now apply per_label_inv. }
  assert (Hlen : forall x, In x (map (fun row => nth li row []) (map snd rows)) -> length x = length gs).
  { intros x Hx. rewrite map_map in Hx. apply in_map_iff in Hx as (r & <- & Hr).
    apply In_nth_error in Hr as (z & Hz).
    assert (Hz' : z < length (sort_samples W)).
    { rewrite (Forall2_length' _ _ _ HF). apply nth_error_Some. congruence. }
    destruct (nth_error (sort_samples W) z) as [s|] eqn:Es; [|apply nth_error_None in Es; lia].
    symmetry. exact (Forall2_length' _ _ _ (Hrow z s r Es Hz)). }
  split; [|split].
  - cbn [fst]. apply nth_error_nth. now rewrite nth_error_map, Hli.
  - cbn [snd]. unfold column. rewrite map_length, (concat_uniform_length (length gs)) by exact Hlen.
    rewrite !map_length. now rewrite (Forall2_length' _ _ _ HF).
  - cbn [fst snd]. intros z j s g Hs Hg.
    destruct (Forall2_nth_error _ _ _ HF z s Hs) as (r & Hr & _).
    destruct (Forall2_nth_error _ _ _ (Hrow z s r Hs Hr) j g Hg) as (e & He & Hb).
    exists e. split; [exact Hb|].
    rewrite nth_error_map. unfold column.
    rewrite (nth_error_concat_uniform (length gs)); [|exact Hlen|apply nth_error_Some; congruence].
    rewrite !nth_error_map, Hr. cbn [option_map]. now rewrite He.
Qed.

(* ====================================================================== *)
(* F. the shape of one subexperiment                                       *)
(* ====================================================================== *)
(* a successful decomposition of singleton groups over distinct indices was a `valid` request (C14's vocabulary) *)
Lemma decompose_ok_valid env c nc ids ms r :
  decompose env c nc ids (Some (map Some ms)) = Ok r ->
  NoDup (concat ids) -> (forall g, In g ids -> length g = 1) ->
  valid env c ids ms.
Proof.
  unfold decompose. intros H Hnd H1.
  apply res_bind_ok in H as ([] & Hv & H). apply res_bind_ok in H as (c1 & Hs & _).
  pose proof (validate_ok c ids Hv) as (Hg & Hc).
  unfold set_basis_ids in Hs. rewrite map_length in Hs.
  destruct (Nat.eqb (length ids) (length ms)) eqn:El; simpl in Hs; [|discriminate].
  apply Nat.eqb_eq in El. rewrite all_some_map_Some in Hs.
  rewrite assign_loop_char in Hs by (apply valid_members_placeholders, Hg).
  destruct (maps_in_range env c (combine ids ms)) eqn:Er; [|discriminate].
  split; [exact Hv|split; [now symmetry|]].
  intros g m p Hgm Hp. unfold maps_in_range in Er. rewrite forallb_forall in Er.
  specialize (Er (g, m) Hgm). cbn [fst snd] in Er. rewrite forallb_forall in Er. now apply Er.
Qed.

Lemma find_obs_creg_app regs bits rest :
  existsb fst regs = false -> find_obs_creg (regs ++ (true, bits) :: rest) = Some bits.
Proof.
  induction regs as [|[f b] r IH]; simpl; [reflexivity|].
  destruct f; simpl; [discriminate|]. exact IH.
Qed.

(* the declarative description of one subexperiment BEFORE the three reset passes *)
Definition nobs (g : ogroup) : nat := length (pauli_indices_or_dummy (og_indices g)).

Definition spliced (env : benv) (qc : mcirc) (ids : list (list nat)) (ms : jkey) : circ :=
  flat_map (splice env) (assign (mdata qc) ids (Some (map Z.of_nat ms))).

Definition nqpd (env : benv) (qc : mcirc) (ids : list (list nat)) (ms : jkey) : nat :=
  Nat.max 1 (count_markers (spliced env qc ids ms)).

(* placeholders replaced, QPD measurement k writes clbit nc0 + nobs + k; when the group measures nothing the
   final resets are dropped (F2 repair) *)
Definition body (env : benv) (qc : mcirc) (ids : list (list nat)) (ms : jkey) (g : ogroup) : circ :=
  let b := measures_numbered (mnc qc + nobs g) (spliced env qc ids ms) in
  match og_indices g with [] => remove_final_resets (mnq qc) b | _ :: _ => b end.

Definition spec_exp (gh gsx : nat) (env : benv) (qc : mcirc) (ids : list (list nat)) (ms : jkey) (g : ogroup) : mcirc :=
  mkMC (mnq qc)
       (mnc qc + nobs g + nqpd env qc ids ms)
       (mcregs qc ++ [(true, seq (mnc qc) (nobs g)); (false, seq (mnc qc + nobs g) (nqpd env qc ids ms))])
       (body env qc ids ms g ++
        measurement_suffix gh gsx (og_general g) (og_indices g) (seq 0 (mnq qc)) (seq (mnc qc) (nobs g))).

Theorem build1_shape gh gsx env qc ids ms g e :
  build1 gh gsx env qc ids ms g = Ok e ->
  NoDup (concat ids) -> (forall g', In g' ids -> length g' = 1) ->
  valid env (mdata qc) ids (map Z.of_nat ms) /\
  existsb fst (mcregs qc) = false /\
  length (og_general g) = mnq qc /\
  e = spec_exp gh gsx env qc ids ms g.
Proof.
  unfold build1. intros H Hnd H1.
  apply res_bind_ok in H as (q1 & Hq1 & H). apply res_bind_ok in H as (dk & Hd & H).
  unfold append_measurement_register in Hq1.
  destruct (existsb fst (mcregs qc)) eqn:Ereg; [discriminate|].
  inversion Hq1; subst q1; clear Hq1. cbn [mdata mnc mnq mcregs] in *.
  rewrite <- (map_map Z.of_nat Some) in Hd.
  pose proof (decompose_ok_valid _ _ _ _ _ _ Hd Hnd H1) as Hv.
  rewrite (decompose_splice _ _ _ _ _ Hv) in Hd. inversion Hd; subst dk; clear Hd.
  unfold spec in H. cbn [fst snd] in H.
  fold (nobs g) in H. fold (spliced env qc ids ms) in H. fold (nqpd env qc ids ms) in H.
  set (Q3 := match og_indices g with [] => _ | _ :: _ => _ end) in H.
  assert (HQ3 : Q3 = mkMC (mnq qc) (mnc qc + nobs g + nqpd env qc ids ms)
                       ((mcregs qc ++ [(true, seq (mnc qc) (nobs g))]) ++ [(false, seq (mnc qc + nobs g) (nqpd env qc ids ms))])
                       (body env qc ids ms g)).
  { unfold Q3, body, with_data. destruct (og_indices g); reflexivity. }
  rewrite HQ3 in H. clear Q3 HQ3.
  unfold append_measurement_circuit in H. cbn [mnq mnc mcregs mdata] in H.
  destruct (Nat.eqb (mnq qc) (length (og_general g))) eqn:En; cbn [negb] in H; [|discriminate].
  apply Nat.eqb_eq in En.
  rewrite <- app_assoc in H. cbn [app] in H. rewrite (find_obs_creg_app _ _ _ Ereg) in H.
  rewrite seq_length in H. fold (nobs g) in H. rewrite Nat.eqb_refl in H. cbn [negb] in H.
  destruct (forallb _ (pauli_indices_or_dummy (og_indices g))); cbn [negb] in H; [|discriminate].
  inversion H; subst e; clear H.
  split; [exact Hv|split; [reflexivity|split; [now symmetry|]]].
  unfold spec_exp. now rewrite <- En.
Qed.

(* totality of the per-circuit step: a valid decomposition request, no earlier observable_measurements register,
   observables of the circuit's width and measured qubits inside the circuit ALWAYS produce the declared circuit *)
Theorem build1_total gh gsx env qc ids ms g :
  valid env (mdata qc) ids (map Z.of_nat ms) ->
  existsb fst (mcregs qc) = false ->
  length (og_general g) = mnq qc ->
  (forall s, In s (pauli_indices_or_dummy (og_indices g)) -> s < mnq qc) ->
  build1 gh gsx env qc ids ms g = Ok (spec_exp gh gsx env qc ids ms g).
Proof.
  intros Hv Hreg Hn Hidx. unfold build1, append_measurement_register. rewrite Hreg. cbn [res_bind mdata mnc mnq mcregs].
  rewrite <- (map_map Z.of_nat Some), (decompose_splice _ _ _ _ _ Hv). cbn [res_bind]. unfold spec. cbn [fst snd].
  fold (nobs g). fold (spliced env qc ids ms). fold (nqpd env qc ids ms).
  set (Q3 := match og_indices g with [] => _ | _ :: _ => _ end).
  assert (HQ3 : Q3 = mkMC (mnq qc) (mnc qc + nobs g + nqpd env qc ids ms)
                       ((mcregs qc ++ [(true, seq (mnc qc) (nobs g))]) ++ [(false, seq (mnc qc + nobs g) (nqpd env qc ids ms))])
                       (body env qc ids ms g)).
  { unfold Q3, body, with_data. destruct (og_indices g); reflexivity. }
  rewrite HQ3. clear Q3 HQ3.
  unfold append_measurement_circuit. cbn [mnq mnc mcregs mdata].
  rewrite <- Hn, Nat.eqb_refl. cbn [negb].
  rewrite <- app_assoc. cbn [app]. rewrite (find_obs_creg_app _ _ _ Hreg).
  rewrite seq_length. fold (nobs g). rewrite Nat.eqb_refl. cbn [negb].
  assert (Hf : forallb (fun sub => Nat.ltb (nth sub (seq 0 (length (og_general g))) (length (og_general g))) (length (og_general g)))
                       (pauli_indices_or_dummy (og_indices g)) = true).
  { apply forallb_forall. intros sub Hs. specialize (Hidx sub Hs). rewrite <- Hn in Hidx.
    rewrite seq_nth by exact Hidx. apply Nat.ltb_lt. exact Hidx. }
  rewrite Hf. cbn [negb]. unfold spec_exp. now rewrite <- Hn.
Qed.

(* no placeholder and no qpd_measure marker survives; the measurement suffix consists of gates and measurements *)
Lemma suffix_clean gh gsx g locs bits : forall idx c y,
  In y (suffix_from gh gsx g locs bits c idx) -> is_qpd y = false /\ is_marker y = false /\ is_reset y = false.
Proof.
  induction idx as [|s r IH]; intros c y Hy; [destruct Hy|].
  cbn [suffix_from] in Hy.
  destruct (nth s g 0) as [|[|[|n]]]; cbn [In] in Hy;
    repeat (destruct Hy as [<-|Hy]; [repeat split; reflexivity|]); eapply IH; eauto.
Qed.

Lemma spec_exp_clean gh gsx env qc ids ms g y :
  valid env (mdata qc) ids (map Z.of_nat ms) ->
  In y (mdata (spec_exp gh gsx env qc ids ms g)) -> is_qpd y = false /\ is_marker y = false.
Proof.
  intros Hv Hy. cbn [spec_exp mdata] in Hy. apply in_app_or in Hy as [Hy|Hy].
  - assert (Hb : In y (measures_numbered (mnc qc + nobs g) (spliced env qc ids ms))).
    { unfold body in Hy. destruct (og_indices g); [|exact Hy].
      eapply del_resets_In; [apply final_only_resets|exact Hy]. }
    eapply (no_placeholder env (mdata qc) (mnc qc + nobs g) ids (map Z.of_nat ms)); [exact Hv| |exact Hb].
    rewrite (decompose_splice _ _ _ _ _ Hv). reflexivity.
  - unfold measurement_suffix in Hy. apply suffix_clean in Hy. tauto.
Qed.

(* the three passes only delete resets *)
Lemma optimise_shape e :
  mnq (optimise e) = mnq e /\ mnc (optimise e) = mnc e /\ mcregs (optimise e) = mcregs e /\
  del_resets (mdata e) (mdata (optimise e)).
Proof. unfold optimise, with_data. cbn. repeat split. apply pipeline_only_resets. Qed.

(* classical layout: observable bit k is clbit nc0 + k ... *)
Lemma suffix_bits gh gsx g idx locs nc0 :
  measurement_suffix gh gsx g idx locs (seq nc0 (length (pauli_indices_or_dummy idx))) =
  flat_map (fun ci => rotation_instrs gh gsx (nth (snd ci) g 0) (nth (snd ci) locs 0)
                      ++ [mkI Measure [nth (snd ci) locs 0] [nc0 + fst ci]])
           (combine (seq 0 (length (pauli_indices_or_dummy idx))) (pauli_indices_or_dummy idx)).
Proof.
  rewrite measurement_suffix_spec.
  set (n := length (pauli_indices_or_dummy idx)).
  assert (H : forall ci, In ci (combine (seq 0 n) (pauli_indices_or_dummy idx)) -> nth (fst ci) (seq nc0 n) 0 = nc0 + fst ci).
  { intros [c i] Hci. apply in_combine_l in Hci. apply in_seq in Hci. cbn [fst]. apply seq_nth. lia. }
  revert H. generalize (combine (seq 0 n) (pauli_indices_or_dummy idx)) as L.
  induction L as [|ci L IH]; intros H; [reflexivity|]. cbn [flat_map].
  rewrite IH by (intros; apply H; now right). now rewrite (H ci (or_introl eq_refl)).
Qed.

(* ... and QPD bit k is clbit nc0 + nobs + k: the markers of the spliced stream, in order, write exactly those bits *)
Lemma qpd_bits nc s :
  flat_map ics (DecomposeP.select (map is_marker s) (measures_numbered nc s)) = seq nc (count_markers s).
Proof.
  unfold measures_numbered, count_markers, DecomposeP.select. revert nc.
  induction s as [|x s IH]; intros nc; [reflexivity|].
  cbn [map measures_from]. destruct (is_marker x) eqn:E; cbn [combine filter snd map fst flat_map ics length app].
  - rewrite E. cbn [combine filter snd map fst flat_map ics length app seq]. f_equal. apply IH.
  - rewrite E. cbn [filter]. apply IH.
Qed.

(* ====================================================================== *)
(* G. the scans: which indices, which cut ids, which bases                 *)
(* ====================================================================== *)
Definition is_qpd1 (x : instr) : bool := match suffix_of x with None => false | Some _ => true end.
Definition singletons (L : list nat) : list (list nat) := map (fun p => [p]) L.
(* the cut ids of the one-qubit placeholders of a circuit, in order *)
Definition suffixes (c : circ) : list nat :=
  flat_map (fun x => match suffix_of x with Some (Some k) => [k] | _ => [] end) c.

Lemma concat_singletons L : concat (singletons L) = L.
Proof. induction L as [|p L IH]; simpl; congruence. Qed.

Lemma singletons_wf L : StronglySorted lt L ->
  NoDup (concat (singletons L)) /\ forall g, In g (singletons L) -> length g = 1.
Proof.
  intros H. rewrite concat_singletons. split; [now apply sorted_lt_NoDup|].
  intros g Hg. apply in_map_iff in Hg as (p & <- & _). reflexivity.
Qed.

Lemma mapping_scan_spec : forall c i ids sfx,
  mapping_scan i c = Ok (ids, sfx) ->
  ids = singletons (positions_from is_qpd1 i c) /\ sfx = suffixes c /\
  (forall x, In x c -> suffix_of x <> Some None).
Proof.
  induction c as [|x r IH]; intros i ids sfx H; cbn [mapping_scan] in H.
  - inversion H. repeat split. intros x [].
  - unfold suffixes, is_qpd1. cbn [positions_from flat_map]. destruct (suffix_of x) as [[k|]|] eqn:E.
    + apply res_map_ok in H as ([ids' sfx'] & H & Heq). inversion Heq; subst. cbn [fst snd].
      destruct (IH _ _ _ H) as (-> & -> & Hn). repeat split.
      intros y [<-|Hy]; [congruence|now apply Hn].
    + discriminate.
    + destruct (IH _ _ _ H) as (-> & -> & Hn). repeat split.
      intros y [<-|Hy]; [congruence|now apply Hn].
Qed.

Lemma get_bases_spec : forall c i bs ids,
  get_bases i c = Ok (bs, ids) ->
  ids = singletons (positions_from is_qpd2 i c) /\
  bs = flat_map (fun x => match iop x with Qpd2 b _ _ => [b] | _ => [] end) c /\
  (forall x, In x c -> is_qpd1 x = false).
Proof.
  induction c as [|x r IH]; intros i bs ids H; cbn [get_bases] in H.
  - inversion H. repeat split. intros x [].
  - unfold is_qpd2, is_qpd1, suffix_of. cbn [positions_from flat_map].
    destruct (iop x) eqn:E; try discriminate;
      try (destruct (IH _ _ _ H) as (-> & -> & Hn); repeat split;
           intros y [<-|Hy]; [unfold is_qpd1, suffix_of; now rewrite E|now apply Hn]).
    apply res_map_ok in H as ([bs' ids'] & H & Heq). inversion Heq; subst. cbn [fst snd].
    destruct (IH _ _ _ H) as (-> & -> & Hn). repeat split.
    intros y [<-|Hy]; [unfold is_qpd1, suffix_of; now rewrite E|now apply Hn].
Qed.

Lemma project_spec joint : forall sfx ms,
  project joint sfx = Ok ms -> Forall2 (fun k m => nth_error joint k = Some m) sfx ms.
Proof.
  induction sfx as [|k r IH]; intros ms H; cbn [project] in H.
  - inversion H. constructor.
  - destruct (nth_error joint k) as [m|] eqn:E; [|discriminate].
    apply res_map_ok in H as (ms' & H & ->). constructor; auto.
Qed.

(* the placeholder at data index p whose label ends in _k is decomposed with joint[k] *)
Lemma projection_gen joint : forall c i ids sfx ms q x k,
  mapping_scan i c = Ok (ids, sfx) -> project joint sfx = Ok ms ->
  nth_error c q = Some x -> suffix_of x = Some (Some k) ->
  exists m, nth_error joint k = Some m /\ In ([i + q], m) (combine ids ms).
Proof.
  induction c as [|x0 r IH]; intros i ids sfx ms q x k H Hp Hq Hx; [destruct q; discriminate|].
  cbn [mapping_scan] in H. destruct (suffix_of x0) as [[k0|]|] eqn:E0.
  - apply res_map_ok in H as ([ids' sfx'] & H & Heq). inversion Heq; subst; clear Heq. cbn [fst snd] in *.
    cbn [project] in Hp. destruct (nth_error joint k0) as [m0|] eqn:Em; [|discriminate].
    apply res_map_ok in Hp as (ms' & Hp & ->).
    destruct q as [|q]; cbn [nth_error] in Hq.
    + inversion Hq; subst x0. rewrite Hx in E0. inversion E0; subst k0.
      exists m0. split; [exact Em|]. rewrite Nat.add_0_r. now left.
    + destruct (IH _ _ _ _ _ _ _ H Hp Hq Hx) as (m & Hm & Hin).
      exists m. split; [exact Hm|]. rewrite Nat.add_succ_r. now right.
  - discriminate.
  - destruct q as [|q]; cbn [nth_error] in Hq.
    + inversion Hq; subst x0. congruence.
    + destruct (IH _ _ _ _ _ _ _ H Hp Hq Hx) as (m & Hm & Hin).
      exists m. split; [exact Hm|]. now rewrite Nat.add_succ_r.
Qed.

Lemma In_combine_map {A B C} (f : B -> C) (l : list A) (l' : list B) a b :
  In (a, b) (combine l l') -> In (a, f b) (combine l (map f l')).
Proof.
  revert l'; induction l as [|x l IH]; intros [|y l'] H; simpl in *; try contradiction.
  destruct H as [H|H]; [inversion H; now left|right; now apply IH].
Qed.

(* ====================================================================== *)
(* H. generate: which arguments are accepted, and what a success means     *)
(* ====================================================================== *)
Lemma generate_refuses_N gh gsx env cenv circuits observables N W :
  ge1 N = false -> generate gh gsx env cenv circuits observables N W = Refused.
Proof. intros H. unfold generate. rewrite H. destruct circuits, observables; reflexivity. Qed.

Lemma generate_dict_inv gh gsx env cenv d od N W r :
  generate gh gsx env cenv (CDict d) (ODict od) N W = Ok r ->
  ge1 N = true /\
  exists M og dd, mapping_by_partition d = Ok M /\ all_groups od = Ok og /\
    core gh gsx env (map (fun b => nth b cenv []) (bases_by_partition d)) (table_of d M) og W = Ok (dd, snd r) /\
    fst r = OutDict dd.
Proof.
  unfold generate. destruct (ge1 N); cbn [negb]; [|discriminate]. intros H. split; [reflexivity|].
  apply res_bind_ok in H as (M & HM & H). apply res_bind_ok in H as (og & Hog & H).
  apply res_bind_ok in H as ([dd cf] & Hc & H). inversion H; subst r; clear H.
  exists M, og, dd. auto.
Qed.

Lemma generate_single_inv gh gsx env cenv qc gs N W r :
  generate gh gsx env cenv (CSingle qc) (OPaulis gs) N W = Ok r ->
  ge1 N = true /\
  exists groups bs ids lA l, gs = Ok groups /\ get_bases 0 (mdata qc) = Ok (bs, ids) /\
    core gh gsx env (map (fun b => nth b cenv []) bs) [(label_A, mkPI qc ids None)] [(label_A, groups)] W
      = Ok ([(lA, l)], snd r) /\
    fst r = OutList l.
Proof.
  unfold generate. destruct (ge1 N); cbn [negb]; [|discriminate]. intros H. split; [reflexivity|].
  apply res_bind_ok in H as (groups & Hg & H). apply res_bind_ok in H as ([bs ids] & Hb & H).
  apply res_bind_ok in H as ([dd cf] & Hc & H). cbn [fst snd] in *.
  destruct dd as [|[lA l] [|? ?]]; try discriminate. inversion H; subst r; clear H.
  exists groups, bs, ids, lA, l. auto.
Qed.

(* only the two documented argument forms can succeed *)
Lemma generate_ok_forms gh gsx env cenv circuits observables N W r :
  generate gh gsx env cenv circuits observables N W = Ok r ->
  (exists qc gs, circuits = CSingle qc /\ observables = OPaulis gs) \/
  (exists d od, circuits = CDict d /\ observables = ODict od).
Proof.
  unfold generate. destruct circuits as [qc|d|], observables as [gs|od|]; try discriminate.
  - intros _. left. eauto.
  - intros _. right. eauto.
  - destruct (ge1 N); discriminate.
  - destruct (ge1 N); discriminate.
  - destruct (ge1 N); discriminate.
Qed.

(* the partition table of the separated form *)
Lemma mapping_lookup : forall d M l qc,
  mapping_by_partition d = Ok M -> alookup d l = Some qc ->
  exists m, alookup M l = Some m /\ mapping_scan 0 (mdata qc) = Ok m.
Proof.
  induction d as [|[l0 q0] d IH]; intros M l qc H Hl; [discriminate|].
  cbn [mapping_by_partition] in H. apply res_bind_ok in H as (m0 & Hm0 & H).
  apply res_map_ok in H as (M' & HM' & ->). cbn [alookup] in *.
  destruct (Nat.eqb l l0); [inversion Hl; subst; eauto|eauto].
Qed.

Lemma table_lookup d M l p :
  mapping_by_partition d = Ok M -> alookup (table_of d M) l = Some p ->
  exists qc ids sfx, alookup d l = Some qc /\ mapping_scan 0 (mdata qc) = Ok (ids, sfx) /\
                     p = mkPI qc ids (Some sfx).
Proof.
  intros HM. unfold table_of.
  assert (H : forall d', alookup (map (fun lq : nat * mcirc => (fst lq, match alookup M (fst lq) with
                      | Some m => mkPI (snd lq) (fst m) (Some (snd m)) | None => mkPI (snd lq) [] (Some []) end)) d') l = Some p ->
            exists qc, alookup d' l = Some qc /\
              p = match alookup M l with Some m => mkPI qc (fst m) (Some (snd m)) | None => mkPI qc [] (Some []) end).
  { induction d' as [|[l0 q0] d' IH]; cbn [map alookup fst snd]; [discriminate|].
    destruct (Nat.eqb_spec l l0) as [->|Hne]; [|exact IH].
    intros H. inversion H. eauto. }
  intros Hl. destruct (H d Hl) as (qc & Hqc & ->).
  destruct (mapping_lookup d M l qc HM Hqc) as ([ids sfx] & Hm & Hs).
  rewrite Hm. exists qc, ids, sfx. auto.
Qed.

(* in both forms the decomposition requests are singleton groups over distinct indices *)
Definition table_wf (table : list (nat * pinfo)) : Prop :=
  forall l p, alookup table l = Some p ->
    NoDup (concat (pi_ids p)) /\ forall g, In g (pi_ids p) -> length g = 1.

Lemma table_of_wf d M : mapping_by_partition d = Ok M -> table_wf (table_of d M).
Proof.
  intros HM l p Hl. destruct (table_lookup d M l p HM Hl) as (qc & ids & sfx & _ & Hs & ->).
  apply mapping_scan_spec in Hs as (-> & _ & _). cbn [pi_ids].
  apply singletons_wf, positions_sorted.
Qed.

Lemma single_table_wf qc bs ids l :
  get_bases 0 (mdata qc) = Ok (bs, ids) -> table_wf [(l, mkPI qc ids None)].
Proof.
  intros H l' p Hl. cbn [alookup] in Hl. destruct (Nat.eqb l' l); [|discriminate].
  inversion Hl; subst p. cbn [pi_ids]. apply get_bases_spec in H as (-> & _ & _).
  apply singletons_wf, positions_sorted.
Qed.

(* a built circuit has the declared shape *)
Theorem built_shape gh gsx env table joint l g e :
  table_wf table -> built gh gsx env table joint l g e ->
  exists p ms, alookup table l = Some p /\
    match pi_sfx p with None => Ok joint | Some sfx => project joint sfx end = Ok ms /\
    valid env (mdata (pi_qc p)) (pi_ids p) (map Z.of_nat ms) /\
    existsb fst (mcregs (pi_qc p)) = false /\
    length (og_general g) = mnq (pi_qc p) /\
    e = spec_exp gh gsx env (pi_qc p) (pi_ids p) ms g.
Proof.
  intros Hwf (p & ms & Hp & Hms & Hb). destruct (Hwf l p Hp) as (Hnd & H1).
  destruct (build1_shape _ _ _ _ _ _ _ _ Hb Hnd H1) as (Hv & Hr & Hn & He).
  exists p, ms. auto 10.
Qed.

(* refusals of the two scans *)
Lemma mapping_scan_refuses : forall c i x,
  In x c -> suffix_of x = Some None -> mapping_scan i c = Refused.
Proof.
  induction c as [|x0 r IH]; intros i x Hin Hx; [destruct Hin|]. cbn [mapping_scan].
  destruct Hin as [->|Hin]; [now rewrite Hx|].
  destruct (suffix_of x0) as [[k|]|]; [|reflexivity|now apply (IH _ x)].
  now rewrite (IH (S i) x Hin Hx).
Qed.

Lemma mapping_scan_not_crashed : forall c i, mapping_scan i c <> Crashed.
Proof.
  induction c as [|x0 r IH]; intros i; cbn [mapping_scan]; [discriminate|].
  destruct (suffix_of x0) as [[k|]|]; [|discriminate|apply IH].
  specialize (IH (S i)). destruct (mapping_scan (S i) r); simpl; congruence.
Qed.

Lemma mapping_by_partition_refuses : forall d l qc x,
  In (l, qc) d -> In x (mdata qc) -> suffix_of x = Some None -> mapping_by_partition d = Refused.
Proof.
  induction d as [|[l0 q0] d IH]; intros l qc x Hin Hx Hs; [destruct Hin|]. cbn [mapping_by_partition].
  destruct Hin as [Heq|Hin].
  - inversion Heq; subst. now rewrite (mapping_scan_refuses _ 0 x Hx Hs).
  - pose proof (mapping_scan_not_crashed (mdata q0) 0) as Hnc.
    destruct (mapping_scan 0 (mdata q0)); [|reflexivity|congruence].
    cbn [res_bind]. now rewrite (IH l qc x Hin Hx Hs).
Qed.

Lemma generate_refuses_suffix gh gsx env cenv d od N W l qc x :
  ge1 N = true -> In (l, qc) d -> In x (mdata qc) -> suffix_of x = Some None ->
  generate gh gsx env cenv (CDict d) (ODict od) N W = Refused.
Proof.
  intros HN Hin Hx Hs. unfold generate. rewrite HN. cbn [negb].
  now rewrite (mapping_by_partition_refuses d l qc x Hin Hx Hs).
Qed.

Lemma get_bases_refuses : forall c i x, In x c -> is_qpd1 x = true -> get_bases i c = Refused.
Proof.
  induction c as [|x0 r IH]; intros i x Hin Hx; [destruct Hin|]. cbn [get_bases].
  destruct Hin as [->|Hin].
  - unfold is_qpd1, suffix_of in Hx. destruct (iop x); try discriminate. reflexivity.
  - destruct (iop x0); try (now apply (IH _ x)); [|reflexivity].
    now rewrite (IH (S i) x Hin Hx).
Qed.

Lemma generate_refuses_1q gh gsx env cenv qc groups N W x :
  ge1 N = true -> In x (mdata qc) -> is_qpd1 x = true ->
  generate gh gsx env cenv (CSingle qc) (OPaulis (Ok groups)) N W = Refused.
Proof.
  intros HN Hin Hx. unfold generate. rewrite HN. cbn [negb res_bind].
  now rewrite (get_bases_refuses _ 0 x Hin Hx).
Qed.

(* ====================================================================== *)
(* J. `bases` is aligned with the cut ids                                  *)
(* ====================================================================== *)
(* the cut id and basis handle of a one-qubit placeholder *)
Definition cut_of (x : instr) : option (nat * nat) :=
  match iop x with Qpd1 b _ _ (Some (_, Some k)) => Some (k, b) | _ => None end.
Definition all_instrs (d : list (nat * mcirc)) : circ := flat_map (fun lc => mdata (snd lc)) d.

Lemma bases_step_cut acc x :
  bases_step acc x = match cut_of x with Some (k, b) => aset acc k b | None => acc end.
Proof. unfold bases_step, cut_of. destruct (iop x) as [| | | | | | |b h bid [[l [k|]]|]|]; reflexivity. Qed.

Lemma cut_of_suffix x k : suffix_of x = Some (Some k) <-> exists b, cut_of x = Some (k, b).
Proof.
  unfold suffix_of, cut_of. destruct (iop x) as [| | | | | | |b h bid [[l [k'|]]|]|]; split;
    try discriminate; try (intros (b' & H); discriminate).
  - intros H. inversion H. eauto.
  - intros (b' & H). inversion H. reflexivity.
Qed.

Lemma bases_dict_flat d : bases_dict d = fold_left bases_step (all_instrs d) [].
Proof.
  unfold bases_dict, all_instrs. generalize (@nil (nat * nat)).
  induction d as [|lc d IH]; intros acc; [reflexivity|]. cbn [fold_left flat_map].
  now rewrite fold_left_app, IH.
Qed.

Lemma alookup_aset {V} (d : list (nat * V)) k v k' :
  alookup (aset d k v) k' = if Nat.eqb k' k then Some v else alookup d k'.
Proof.
  induction d as [|[k0 v0] d IH]; cbn [aset alookup]; [reflexivity|].
  destruct (Nat.eqb_spec k k0) as [->|Hne]; cbn [alookup].
  - destruct (Nat.eqb k' k0); reflexivity.
  - rewrite IH. destruct (Nat.eqb_spec k' k0) as [->|H0]; [|reflexivity].
    destruct (Nat.eqb_spec k0 k); [congruence|reflexivity].
Qed.

Lemma aset_keys_In {V} (d : list (nat * V)) k v k' :
  In k' (map fst (aset d k v)) <-> k' = k \/ In k' (map fst d).
Proof.
  induction d as [|[k0 v0] d IH]; cbn [aset map fst In]; [intuition|].
  destruct (Nat.eqb_spec k k0) as [->|Hne]; cbn [map fst In]; [intuition|]. rewrite IH. intuition.
Qed.

Lemma aset_keys_NoDup {V} (d : list (nat * V)) k v : NoDup (map fst d) -> NoDup (map fst (aset d k v)).
Proof.
  induction d as [|[k0 v0] d IH]; cbn [aset map fst]; intros H; [repeat constructor; intros []|].
  inversion H as [|? ? Hn Hd]; subst.
  destruct (Nat.eqb_spec k k0) as [->|Hne]; cbn [map fst]; [now constructor|].
  constructor; [|now apply IH]. rewrite aset_keys_In. intros [E|E]; [congruence|contradiction].
Qed.

Lemma alookup_In_key {V} (d : list (nat * V)) k : In k (map fst d) -> exists v, alookup d k = Some v.
Proof.
  induction d as [|[k0 v0] d IH]; cbn [map fst In alookup]; [intros []|].
  destruct (Nat.eqb_spec k k0) as [->|Hne]; [eauto|]. intros [E|E]; [congruence|now apply IH].
Qed.

Lemma fold_bases_keys L : forall acc k,
  In k (map fst (fold_left bases_step L acc)) <->
  In k (map fst acc) \/ exists x b, In x L /\ cut_of x = Some (k, b).
Proof.
  induction L as [|x L IH]; intros acc k; cbn [fold_left].
  - split; [now left|intros [H|(x & b & [] & _)]; exact H].
  - rewrite IH, bases_step_cut. destruct (cut_of x) as [[k0 b0]|] eqn:E.
    + rewrite aset_keys_In. split.
      * intros [[->|H]|(y & b & Hy & Hc)]; [right; exists x, b0; split; [now left|exact E]|now left|
                                            right; exists y, b; split; [now right|exact Hc]].
      * intros [H|(y & b & [<-|Hy] & Hc)]; [left; now right| |right; eauto].
        rewrite E in Hc. inversion Hc; subst. left; now left.
    + split.
      * intros [H|(y & b & Hy & Hc)]; [now left|right; exists y, b; split; [now right|exact Hc]].
      * intros [H|(y & b & [<-|Hy] & Hc)]; [now left|congruence|right; eauto].
Qed.

Lemma fold_bases_NoDup L : forall acc, NoDup (map fst acc) -> NoDup (map fst (fold_left bases_step L acc)).
Proof.
  induction L as [|x L IH]; intros acc H; cbn [fold_left]; [exact H|]. apply IH.
  rewrite bases_step_cut. destruct (cut_of x) as [[k0 b0]|]; [now apply aset_keys_NoDup|exact H].
Qed.

Lemma fold_bases_lookup L : forall acc k b,
  alookup (fold_left bases_step L acc) k = Some b ->
  alookup acc k = Some b \/ exists x, In x L /\ cut_of x = Some (k, b).
Proof.
  induction L as [|x L IH]; intros acc k b H; cbn [fold_left] in H; [now left|].
  destruct (IH _ _ _ H) as [H1|(y & Hy & Hc)]; [|right; exists y; split; [now right|exact Hc]].
  rewrite bases_step_cut in H1. destruct (cut_of x) as [[k0 b0]|] eqn:E; [|now left].
  rewrite alookup_aset in H1. destruct (Nat.eqb_spec k k0) as [->|Hne]; [|now left].
  inversion H1; subst. right. exists x. split; [now left|exact E].
Qed.

(* a strictly increasing list of n numbers below n is 0, 1, ..., n-1 *)
Lemma sorted_offset : forall l s, StronglySorted lt l -> (forall x, In x l -> s <= x) ->
  forall i x, nth_error l i = Some x -> s + i <= x.
Proof.
  induction l as [|a r IH]; intros s Hs Hge i x Hx; [destruct i; discriminate|].
  apply StronglySorted_inv in Hs as (Hr & Hall). rewrite Forall_forall in Hall.
  destruct i as [|i]; cbn [nth_error] in Hx.
  - inversion Hx; subst. specialize (Hge x (or_introl eq_refl)). lia.
  - specialize (IH (S a) Hr (fun y Hy => Hall y Hy) i x Hx).
    specialize (Hge a (or_introl eq_refl)). lia.
Qed.

Lemma sorted_bounded_is_seq : forall l s, StronglySorted lt l ->
  (forall x, In x l -> s <= x < s + length l) -> l = seq s (length l).
Proof.
  induction l as [|a r IH]; intros s Hs Hb; [reflexivity|]. cbn [length seq].
  pose proof Hs as Hs'. apply StronglySorted_inv in Hs' as (Hr & Hall). rewrite Forall_forall in Hall.
  assert (Ha : a = s).
  { destruct (nth_error (a :: r) (length r)) as [x|] eqn:E;
      [|apply nth_error_None in E; cbn [length] in E; lia].
    pose proof (sorted_offset (a :: r) a Hs) as Ho.
    assert (Hge : forall y, In y (a :: r) -> a <= y).
    { intros y [<-|Hy]; [lia|]. specialize (Hall y Hy). lia. }
    specialize (Ho Hge _ _ E).
    pose proof (Hb x (nth_error_In _ _ E)) as Hx. pose proof (Hb a (or_introl eq_refl)) as Ha.
    cbn [length] in *. lia. }
  subst a. f_equal. apply IH; [exact Hr|].
  intros x Hx. specialize (Hall x Hx). specialize (Hb x (or_intror Hx)). cbn [length] in Hb. lia.
Qed.

Lemma insert_sorted_length x l : length (insert_sorted x l) = S (length l).
Proof. induction l as [|y r IH]; simpl; [reflexivity|]. destruct (Nat.leb x y); simpl; congruence. Qed.
Lemma isort_length l : length (isort l) = length l.
Proof. induction l as [|x r IH]; simpl; [reflexivity|]. now rewrite insert_sorted_length, IH. Qed.

(* if every cut id is an index into `bases`, then the ids are exactly 0..n-1 and bases[k] is the basis stored
   for cut k, i.e. the basis of a placeholder labelled _k *)
Theorem bases_aligned d :
  (forall x k, In x (all_instrs d) -> suffix_of x = Some (Some k) -> k < length (bases_by_partition d)) ->
  forall x k, In x (all_instrs d) -> suffix_of x = Some (Some k) ->
    exists b, nth_error (bases_by_partition d) k = Some b /\
              exists x', In x' (all_instrs d) /\ cut_of x' = Some (k, b).
Proof.
  unfold bases_by_partition. set (bd := bases_dict d). rewrite map_length, isort_length, map_length.
  intros Hlt x k Hx Hk.
  assert (Hkeys : forall k', In k' (map fst bd) <-> exists y b, In y (all_instrs d) /\ cut_of y = Some (k', b)).
  { intros k'. unfold bd. rewrite bases_dict_flat, fold_bases_keys. cbn [map In]. tauto. }
  assert (Hnd : NoDup (map fst bd)).
  { unfold bd. rewrite bases_dict_flat. apply fold_bases_NoDup. constructor. }
  assert (Hseq : isort (map fst bd) = seq 0 (length bd)).
  { rewrite <- (map_length fst bd), <- (isort_length (map fst bd)).
    apply sorted_bounded_is_seq; [now apply isort_sorted|].
    intros k' Hk'. rewrite isort_length, map_length. split; [lia|].
    apply isort_In, Hkeys in Hk' as (y & b & Hy & Hc).
    apply (Hlt y k' Hy). apply cut_of_suffix. eauto. }
  rewrite Hseq.
  assert (Hin : In k (map fst bd)) by (apply Hkeys; apply cut_of_suffix in Hk as (b & Hb); eauto).
  destruct (alookup_In_key bd k Hin) as (b & Hb).
  exists b. split.
  - rewrite nth_error_map.
    assert (Hk' : k < length bd) by (apply (Hlt x k Hx Hk)).
    assert (E : nth_error (seq 0 (length bd)) k = Some k).
    { rewrite (nth_error_nth' _ 0) by (rewrite seq_length; exact Hk'). now rewrite seq_nth. }
    rewrite E. cbn [option_map]. now rewrite Hb.
  - unfold bd in Hb. rewrite bases_dict_flat in Hb.
    destruct (fold_bases_lookup _ _ _ _ Hb) as [H|H]; [discriminate|exact H].
Qed.

(* a successful projection only uses cut ids that are indices into the joint map *)
Lemma project_bound joint sfx ms k : project joint sfx = Ok ms -> In k sfx -> k < length joint.
Proof.
  intros H Hk. apply project_spec in H. revert Hk.
  induction H as [|k0 m0 sfx ms Hm HF IH]; intros Hk; [destruct Hk|].
  destruct Hk as [<-|Hk]; [|now apply IH]. apply nth_error_Some. congruence.
Qed.

(* ====================================================================== *)
(* K. corrections after the proof audit: index ranges, scan => valid, aligned (both directions), mapM totality *)
(* ====================================================================== *)
(* a successful build measured only qubits of the circuit: `nth .. locs 0` in the suffix never meets its default *)
Lemma build1_indices gh gsx env qc ids ms g e :
  build1 gh gsx env qc ids ms g = Ok e ->
  forall s, In s (pauli_indices_or_dummy (og_indices g)) -> s < mnq qc.
Proof.
  unfold build1. intros H.
  apply res_bind_ok in H as (q1 & Hq1 & H). apply res_bind_ok in H as (dk & Hd & H).
  unfold append_measurement_register in Hq1.
  destruct (existsb fst (mcregs qc)); [discriminate|]. inversion Hq1; subst q1; clear Hq1.
  set (Q3 := match og_indices g with [] => _ | _ :: _ => _ end) in H.
  assert (Hq : mnq Q3 = mnq qc) by (unfold Q3; destruct (og_indices g); reflexivity).
  unfold append_measurement_circuit in H. rewrite Hq in H.
  destruct (Nat.eqb (mnq qc) (length (og_general g))) eqn:En; cbn [negb] in H; [|discriminate].
  apply Nat.eqb_eq in En.
  destruct (find_obs_creg (mcregs Q3)); [|discriminate].
  destruct (negb (Nat.eqb _ _)); [discriminate|].
  destruct (forallb _ (pauli_indices_or_dummy (og_indices g))) eqn:Ef; cbn [negb] in H; [|discriminate].
  intros s Hs. rewrite forallb_forall in Ef. specialize (Ef s Hs). apply Nat.ltb_lt in Ef.
  destruct (Nat.lt_ge_cases s (mnq qc)) as [Hlt|Hge]; [exact Hlt|].
  rewrite nth_overflow in Ef by (rewrite seq_length; lia). lia.
Qed.

Lemma mapM_total {A B} (f : A -> res B) l :
  (forall x, In x l -> exists y, f x = Ok y) -> exists ys, mapM f l = Ok ys.
Proof.
  induction l as [|x l IH]; intros H; [exists []; reflexivity|].
  destruct (H x (or_introl eq_refl)) as (y & Hy).
  destruct IH as (ys & Hys); [intros; apply H; now right|].
  exists (y :: ys). cbn [mapM]. now rewrite Hy, Hys.
Qed.

(* the label scan never crashes; it succeeds when every one-qubit placeholder has a numeric suffix *)
Lemma mapping_scan_total : forall c i,
  (forall x, In x c -> suffix_of x <> Some None) -> exists m, mapping_scan i c = Ok m.
Proof.
  induction c as [|x c IH]; intros i H; [eexists; reflexivity|]. cbn [mapping_scan].
  destruct (IH (S i)) as (m & Hm); [intros; apply H; now right|].
  destruct (suffix_of x) as [[k|]|] eqn:E.
  - rewrite Hm. eexists; reflexivity.
  - exfalso. apply (H x); [now left|exact E].
  - eauto.
Qed.

Lemma mapping_by_partition_total d :
  (forall l qc x, In (l, qc) d -> In x (mdata qc) -> suffix_of x <> Some None) ->
  exists M, mapping_by_partition d = Ok M.
Proof.
  induction d as [|[l qc] d IH]; intros H; [eexists; reflexivity|]. cbn [mapping_by_partition].
  destruct (mapping_scan_total (mdata qc) 0) as (m & Hm); [intros x Hx; apply (H l qc x); [now left|exact Hx]|].
  destruct IH as (M & HM); [intros l' qc' x Hin Hx; apply (H l' qc' x); [now right|exact Hx]|].
  rewrite Hm, HM. eexists; reflexivity.
Qed.

Lemma table_lookup_conv d M l qc :
  mapping_by_partition d = Ok M -> alookup d l = Some qc ->
  exists ids sfx, mapping_scan 0 (mdata qc) = Ok (ids, sfx) /\
                  alookup (table_of d M) l = Some (mkPI qc ids (Some sfx)).
Proof.
  intros HM Hl. destruct (mapping_lookup d M l qc HM Hl) as ([ids sfx] & Hm & Hs).
  exists ids, sfx. split; [exact Hs|]. unfold table_of. clear HM Hs.
  induction d as [|[l0 q0] d IH]; [discriminate|]. cbn [map alookup fst snd] in *.
  destruct (Nat.eqb_spec l l0) as [->|Hne]; [|now apply IH].
  inversion Hl; subst. now rewrite Hm.
Qed.

(* THE scan-to-valid lemma: the decomposition request that generation issues for a subcircuit without two-qubit
   placeholders is a `valid` request of C14 as soon as every projected map id is in range for ITS placeholder's basis *)
Lemma is_qpd_is_qpd1 x : is_qpd2 x = false -> is_qpd x = is_qpd1 x.
Proof. unfold is_qpd2, is_qpd, is_qpd1, suffix_of. destruct (iop x) as [| | | | | | |b h bid [[l [k|]]|]|]; try reflexivity; discriminate. Qed.

Lemma mapping_scan_lengths : forall c i ids sfx, mapping_scan i c = Ok (ids, sfx) -> length ids = length sfx.
Proof.
  induction c as [|x c IH]; intros i ids sfx H; cbn [mapping_scan] in H; [inversion H; reflexivity|].
  destruct (suffix_of x) as [[k|]|]; [|discriminate|eauto].
  apply res_map_ok in H as ([ids' sfx'] & H & Heq). inversion Heq; subst. simpl. f_equal. eauto.
Qed.

(* every pair (group, map id) of the request: the group is one placeholder, the id is joint[its cut id] *)
Lemma scan_combine joint : forall c i ids sfx ms g m,
  mapping_scan i c = Ok (ids, sfx) -> project joint sfx = Ok ms -> In (g, m) (combine ids ms) ->
  exists q x k, g = [i + q] /\ nth_error c q = Some x /\ suffix_of x = Some (Some k) /\ nth_error joint k = Some m.
Proof.
  induction c as [|x0 c IH]; intros i ids sfx ms g m H Hp Hin; cbn [mapping_scan] in H.
  - inversion H; subst. destruct Hin.
  - destruct (suffix_of x0) as [[k0|]|] eqn:E0; [|discriminate|].
    + apply res_map_ok in H as ([ids' sfx'] & H & Heq). inversion Heq; subst; clear Heq. cbn [fst snd] in *.
      cbn [project] in Hp. destruct (nth_error joint k0) as [m0|] eqn:Em; [|discriminate].
      apply res_map_ok in Hp as (ms' & Hp & ->). cbn [combine In] in Hin. destruct Hin as [Heq|Hin].
      * inversion Heq; subst. exists 0, x0, k0. rewrite Nat.add_0_r. auto.
      * destruct (IH _ _ _ _ _ _ H Hp Hin) as (q & x & k & -> & Hx & Hk & Hm).
        exists (S q), x, k. rewrite Nat.add_succ_r. auto.
    + destruct (IH _ _ _ _ _ _ H Hp Hin) as (q & x & k & -> & Hx & Hk & Hm).
      exists (S q), x, k. rewrite Nat.add_succ_r. auto.
Qed.

Lemma In_combine_map_inv {A B C} (f : B -> C) (l : list A) (l' : list B) a c :
  In (a, c) (combine l (map f l')) -> exists b, c = f b /\ In (a, b) (combine l l').
Proof.
  revert l'; induction l as [|x l IH]; intros [|y l'] H; simpl in *; try contradiction.
  destruct H as [H|H]; [inversion H; eauto|]. destruct (IH _ H) as (b & -> & Hb). eauto.
Qed.

Lemma cut_of_basis x k b : cut_of x = Some (k, b) -> basis_of x = Some b /\ suffix_of x = Some (Some k).
Proof.
  unfold cut_of, basis_of, suffix_of. destruct (iop x) as [| | | | | | |b' h bid [[l [k'|]]|]|]; try discriminate.
  intros H; inversion H; auto.
Qed.

Lemma scan_valid env c ids sfx joint ms :
  mapping_scan 0 c = Ok (ids, sfx) -> project joint sfx = Ok ms ->
  (forall x, In x c -> is_qpd2 x = false) ->
  (forall x k b, In x c -> cut_of x = Some (k, b) ->
     exists m, nth_error joint k = Some m /\ m < length (nth b env [])) ->
  valid env c ids (map Z.of_nat ms).
Proof.
  intros Hs Hp H2 Hr. pose proof (mapping_scan_spec c 0 ids sfx Hs) as (Hids & Hsfx & Hnone).
  assert (Hpos : forall p, In p (positions_from is_qpd1 0 c) <-> exists x, nth_error c p = Some x /\ is_qpd1 x = true).
  { intros p. rewrite positions_In. split.
    - intros (x & _ & Hx & Hf). rewrite Nat.sub_0_r in Hx. eauto.
    - intros (x & Hx & Hf). exists x. rewrite Nat.sub_0_r. repeat split; [lia|exact Hx|exact Hf]. }
  split; [|split].
  - apply validate_complete. rewrite Hids. repeat split.
    + apply Forall_forall. intros g Hg. apply in_map_iff in Hg as (p & <- & Hp'). split; [now left|].
      apply Hpos in Hp' as (x & Hx & Hf).
      assert (Hb : exists b, basis_of x = Some b).
      { unfold is_qpd1, suffix_of, basis_of in *. destruct (iop x); try discriminate; eauto. }
      destruct Hb as (b & Hb). exists b. intros q [<-|[]]. exists x. auto.
    + rewrite concat_singletons. unfold positions in *. rewrite positions_length.
      clear -H2. induction c as [|x c IH]; [reflexivity|]. cbn [filter].
      rewrite (is_qpd_is_qpd1 x (H2 x (or_introl eq_refl))).
      assert (IH' := IH (fun y Hy => H2 y (or_intror Hy))). destruct (is_qpd1 x); simpl; now rewrite IH'.
    + rewrite concat_singletons. apply sorted_lt_NoDup, positions_sorted.
    + intros g Hg p Hp' _. apply in_map_iff in Hg as (q & <- & _). reflexivity.
  - rewrite map_length. apply project_spec in Hp. rewrite <- (Forall2_length' _ _ _ Hp).
    symmetry. exact (mapping_scan_lengths c 0 ids sfx Hs).
  - intros g mz p Hin Hpg. apply In_combine_map_inv in Hin as (m & -> & Hin).
    destruct (scan_combine joint c 0 ids sfx ms g m Hs Hp Hin) as (q & x & k & -> & Hx & Hk & Hm).
    destruct Hpg as [<-|[]]. cbn [Nat.add]. unfold in_range_b. rewrite Hx.
    apply cut_of_suffix in Hk as (b & Hc). destruct (cut_of_basis x k b Hc) as (Hb & _). rewrite Hb.
    destruct (Hr x k b (nth_error_In _ _ Hx) Hc) as (m' & Hm' & Hlt). assert (m = m') by congruence. subst m'.
    apply andb_true_intro. split; [apply Z.leb_le, Nat2Z.is_nonneg|apply Z.ltb_lt, Nat2Z.inj_lt, Hlt].
Qed.

(* `bases` and the cut ids, both directions: the ids are exactly 0 .. n-1 (every position of `bases` belongs to a cut
   that occurs), and when all placeholders of a cut carry the same basis handle, bases[k] is THAT handle *)
Theorem bases_aligned_full d :
  (forall x k, In x (all_instrs d) -> suffix_of x = Some (Some k) -> k < length (bases_by_partition d)) ->
  (forall j, j < length (bases_by_partition d) -> exists x b, In x (all_instrs d) /\ cut_of x = Some (j, b)) /\
  ((forall x x' k b b', In x (all_instrs d) -> In x' (all_instrs d) -> cut_of x = Some (k, b) -> cut_of x' = Some (k, b') -> b = b') ->
   forall x k b, In x (all_instrs d) -> cut_of x = Some (k, b) -> nth_error (bases_by_partition d) k = Some b).
Proof.
  intros Hlt. split.
  - intros j Hj.
    assert (Hkeys : forall k', In k' (map fst (bases_dict d)) <-> exists y b, In y (all_instrs d) /\ cut_of y = Some (k', b)).
    { intros k'. rewrite bases_dict_flat, fold_bases_keys. cbn [map In]. tauto. }
    assert (Hnd : NoDup (map fst (bases_dict d))) by (rewrite bases_dict_flat; apply fold_bases_NoDup; constructor).
    assert (Hlen : length (bases_by_partition d) = length (bases_dict d))
      by (unfold bases_by_partition; now rewrite map_length, isort_length, map_length).
    assert (Hseq : isort (map fst (bases_dict d)) = seq 0 (length (bases_dict d))).
    { rewrite <- (map_length fst (bases_dict d)), <- (isort_length (map fst (bases_dict d))).
      apply sorted_bounded_is_seq; [now apply isort_sorted|].
      intros k' Hk'. rewrite isort_length, map_length, <- Hlen. split; [lia|].
      apply isort_In, Hkeys in Hk' as (y & b & Hy & Hc). apply (Hlt y k' Hy). apply cut_of_suffix. eauto. }
    apply Hkeys, isort_In. rewrite Hseq. apply in_seq. lia.
  - intros Hsame x k b Hx Hc.
    destruct (bases_aligned d Hlt x k Hx (proj2 (cut_of_basis x k b Hc))) as (b' & Hn & x' & Hx' & Hc').
    rewrite Hn. f_equal. exact (Hsame x' x k b' b Hx' Hx Hc' Hc).
Qed.

(* ====================================================================== *)
(* I. bridge to Model/Weights.v (property C04): same shapes, other names   *)
(* ====================================================================== *)
From CKT Require Model.Weights.

Definition of_wtype (t : Weights.wtype) : wkind :=
  match t with Weights.EXACT => KExact | Weights.SAMPLED => KSampled end.
Definition of_num (n : Weights.num) : nsamples :=
  match n with Weights.Fin q => NFin q | Weights.PInf => NPosInf | Weights.NInf => NNegInf | Weights.NaN => NNaN end.
(* the dictionary returned by the C04 model, as the argument of `generate` *)
Definition of_wdict (d : Weights.wdict) : sdict :=
  map (fun kv => (fst kv, (fst (snd kv), of_wtype (snd (snd kv))))) d.

Lemma bridge_sum l : sumQ l = Weights.qsum l.
Proof. reflexivity. Qed.
Lemma bridge_prod l : prodQ l = Weights.qprod l.
Proof. reflexivity. Qed.
Lemma bridge_joint_maps dims : joint_maps dims = Weights.cart dims.
Proof. induction dims as [|n r IH]; [reflexivity|]; cbn [joint_maps Weights.cart]; now rewrite IH. Qed.
Lemma bridge_joint_prob : forall probs ids, joint_prob probs ids = Weights.jointp probs ids.
Proof. induction probs as [|v r IH]; intros [|i ids]; try reflexivity; cbn [joint_prob Weights.jointp]; now rewrite IH. Qed.
Lemma bridge_keys d : map s_ids (of_wdict d) = map fst d.
Proof. unfold of_wdict. rewrite map_map. reflexivity. Qed.
Lemma bridge_weights d : map s_w (of_wdict d) = map (fun kv => fst (snd kv)) d.
Proof. unfold of_wdict. rewrite map_map. reflexivity. Qed.
Lemma bridge_ge1 n : ge1 (of_num n) = true <-> (n = Weights.PInf \/ exists q, n = Weights.Fin q /\ (1 <= q)%Q).
Proof.
  destruct n as [q| | |]; cbn [of_num ge1]; split.
  - intros H. right. exists q. split; [reflexivity|now apply Qle_bool_iff].
  - intros [H|(q' & H & Hq)]; [discriminate|]. inversion H; subst. now apply Qle_bool_iff.
  - intros _. now left.
  - reflexivity.
  - discriminate.
  - intros [H|(q' & H & _)]; discriminate.
  - discriminate.
  - intros [H|(q' & H & _)]; discriminate.
Qed.

(* Proofs/C11ComposeP.v — composition lemmas of C11: from the collection's output through _process_outcome to the
   expectation value of an INPUT observable; the link between the register's clbits and the bits that are decoded. *)
From Coq Require Import QArith.
From CKT Require Import Common.Base Common.Circ Model.Observables Model.Grouping Model.Measurement
                        Proofs.GroupingP Proofs.MeasurementP.
Close Scope Q_scope.

Lemma expect_ext_in law f f' : (forall bp, In bp law -> f (fst bp) = f' (fst bp)) -> expect law f = expect law f'.
Proof.
  induction law as [|[b p] r IH]; intros H; simpl; [reflexivity|].
  pose proof (H (b, p) (or_introl eq_refl)) as E. cbn [fst] in E. rewrite E.
  rewrite IH; [reflexivity|]. intros bp Hbp. apply H. now right.
Qed.

Lemma nth_map_lt {A B} (f : A -> B) l k d d' : k < length l -> nth k (map f l) d = f (nth k l d').
Proof. revert k; induction l as [|x r IH]; intros [|k] H; simpl in *; try lia; auto. apply IH; lia. Qed.

(* a word without QPD bits: _process_outcome's j-th entry is the decoding with the j-th mask *)
Lemma process_outcome_no_qpd idx masks w j :
  (w < 2 ^ N.of_nat (length (pauli_indices_or_dummy idx)))%N -> j < length masks ->
  nth j (process_outcome idx masks w) 0%Z = decode (nth j masks 0%N) w.
Proof.
  intros Hw Hj.
  pose proof (process_outcome_split idx masks w 0%N Hw) as E. cbv zeta in E.
  rewrite N.mul_0_l, N.add_0_r in E. rewrite E.
  rewrite (nth_map_lt _ masks j 0%Z 0%N Hj). cbn [popcount Nat.odd sgn]. destruct (decode (nth j masks 0%N) w); reflexivity.
Qed.

(* the general observable of an accepted group has only real Pauli letters if its members do *)
Lemma mgo_valid_letters group nq g :
  most_general_observable group nq = Ok g ->
  (forall m, In m group -> valid_letters (plets m)) -> valid_letters (plets g).
Proof.
  intros H V q. destruct (mgo_sound _ _ _ H) as (_ & _ & _ & _ & C & M).
  match goal with |- ?x <= 3 => destruct (Nat.eq_dec x 0) as [E|N] end; [lia|].
  destruct (proj1 (M q) N) as [m [Hm Hn]]. destruct (C m q Hm) as [E|E]; [contradiction|].
  eapply Nat.le_trans; [|apply (V m Hm q)]. apply Nat.eq_le_incl. symmetry. exact E.
Qed.

(* COMPOSITION.  From the collection as built (oracle contract holding) to the expectation value of an input observable:
   there is a lookup location (i, j) of p such that, for every state functional and every outcome law of group i's
   observable register that satisfies the Born/Heisenberg hypothesis for that group's general observable (words without
   QPD bits), the mean of the j-th entry of _process_outcome is the expectation value of p. *)
Lemma collection_expectation obs o cogs lk :
  collection obs o = Ok (cogs, lk) -> grouping_contract obs o = true ->
  (forall p, In p obs -> valid_letters (plets p)) ->
  forall p, In p obs ->
  exists i j c locs,
    lookup_find p lk = Some locs /\ In (i, j) locs /\ nth_error cogs i = Some c /\
    nth_error (cg_members c) j = Some p /\
    forall (ev : list nat -> Q) (law : list (N * Q)),
      born ev (plets (cg_general c)) law ->
      (forall wp, In wp law -> (fst wp < 2 ^ N.of_nat (length (pauli_indices_or_dummy (cg_indices c))))%N) ->
      Qeq (expect law (fun w => nth j (process_outcome (cg_indices c) (cg_masks c) w) 0%Z)) (ev (plets p)).
Proof.
  intros HC HK V p Hp.
  destruct (collection_cover _ _ _ _ HC HK p Hp) as [locs [Hf [Hne Hloc]]].
  destruct locs as [|[i j] rest]; [congruence|].
  destruct (Hloc i j (or_introl eq_refl)) as [c [Hc Hm]].
  exists i, j, c, ((i, j) :: rest). split; [assumption|]. split; [now left|]. split; [assumption|]. split; [assumption|].
  intros ev law B Hw.
  destruct (collection_spec _ _ _ _ HC) as (_ & M1 & GB & _).
  destruct (GB i c Hc) as [Hmgo Hpost].
  destruct (contract_facts _ _ HK) as (_ & F2 & _).
  assert (Vm : forall m, In m (cg_members c) -> valid_letters (plets m)).
  { intros m Hin. apply V. apply F2. apply in_concat. exists (cg_members c). split; [|assumption].
    rewrite <- M1. apply in_map. eapply nth_error_In; eassumption. }
  pose proof (mgo_valid_letters _ _ _ Hmgo Vm) as Vg.
  assert (HM : member_of (plets (cg_general c)) (plets p)).
  { destruct (mgo_sound _ _ _ Hmgo) as (_ & _ & L & W & C & _).
    pose proof (nth_error_In _ _ Hm) as Hin. split; [exact (eq_trans (W p Hin) (eq_sym L))|]. intros q. apply C; assumption. }
  destruct (cog_post_init_spec _ _ _ _ Hpost) as (_ & _ & _ & Lm & E).
  destruct (E j p Hm) as [_ [v [Hv [Mv _]]]].
  assert (Eidx : cg_indices c = nonid_positions (plets (cg_general c))).
  { unfold cog_post_init in Hpost. destruct (masks_loop _ _); simpl in Hpost; try discriminate. now inversion Hpost. }
  rewrite Eidx in Mv.
  rewrite <- (expectation_member ev _ law B Vg (plets p) v HM Mv).
  rewrite (expect_ext_in law _ (decode v)); [reflexivity|].
  intros wp Hwp. rewrite process_outcome_no_qpd.
  - rewrite (nth_error_nth _ _ _ Hv). reflexivity.
  - apply Hw; assumption.
  - rewrite Lm. apply nth_error_Some. congruence.
Qed.

(* REGISTER / WORD LINK.  On a circuit without classical bits (what partition_problem / cut_wires hand over: circuits with
   clbits are refused upstream) the register step puts the observable bits at clbits 0..k-1, i.e. exactly the k low bits of
   the outcome word that _process_outcome decodes with the masks; the well-formed measurement step then writes
   subqubit pauli_indices_or_dummy[i] into clbit i. *)
Lemma register_low_bits qc idx :
  mnc qc = 0 -> mcregs qc = [] ->
  let k := length (pauli_indices_or_dummy idx) in
  exists qc', append_measurement_register qc idx = Ok qc' /\
    find_obs_creg (mcregs qc') = Some (seq 0 k) /\ mnc qc' = k /\ mnq qc' = mnq qc /\ mdata qc' = mdata qc.
Proof.
  intros Hc Hr k. unfold append_measurement_register. rewrite Hr. cbn [existsb]. fold k.
  eexists. split; [reflexivity|]. cbn [mcregs mnc mnq mdata]. rewrite Hc. cbn [app find_obs_creg]. auto.
Qed.

Lemma filter_map_comm {A B} (h : A -> B) (P : B -> bool) l :
  filter P (map h l) = map h (filter (fun x => P (h x)) l).
Proof. induction l as [|x r IH]; simpl; [reflexivity|]. destruct (P (h x)); simpl; congruence. Qed.

(* the bits of a member's mask select exactly its support *)
Lemma mask_selects_support g members idx masks :
  cog_post_init g members = Ok (idx, masks) ->
  forall j m, nth_error members j = Some m -> member_of (plets g) (plets m) ->
    map (fun i => nth i idx 0) (filter (fun i => N.testbit (nth j masks 0%N) (N.of_nat i)) (seq 0 (length idx)))
    = support (plets m).
Proof.
  intros H j m Hm HM.
  destruct (cog_post_init_spec _ _ _ _ H) as (_ & _ & _ & _ & E).
  destruct (E j m Hm) as [_ [v [Hv [_ S]]]]. rewrite (nth_error_nth _ _ _ Hv).
  assert (Eidx : idx = nonid_positions (plets g)).
  { unfold cog_post_init in H. destruct (masks_loop _ _); simpl in H; try discriminate. now inversion H. }
  rewrite <- (support_in_indices _ _ HM), <- Eidx.
  transitivity (filter (nonid (plets m)) (map (fun i => nth i idx 0) (seq 0 (length idx))));
    [|rewrite <- list_as_map_nth; reflexivity].
  rewrite filter_map_comm. f_equal. apply filter_ext_in. intros i Hi. apply in_seq in Hi.
  apply eq_true_iff_eq. rewrite S, nonid_true. split; [tauto|]. intros Hn. split; [lia|assumption].
Qed.

(* Proofs/BestFirstExchangeSim.v — C08, unbounded pruning soundness, part 2: the search follows a normalised assignment.

   For an assignment A that meets the width limit (final labelling F of its wire segments) the guarded actions of the
   search (Model/CutFinderState.v: next_states with the width checks, the r1 == r2 guards, can_expand_subcircuit, the
   W < 2 guard, the no-merge clauses and can_add_wires) admit the path that takes, gate by gate, the action of
   norm F A (Proofs/BestFirstExchange.v).  The simulation invariant relates
       the specification state st of A's prefix      (only its current segments and its number of segments matter)
       the search state s reached by norm A's prefix
       a map G : wire of s -> final label of A
   by   G (wire of q in s) = F (segment of q in st);  wires in one union-find class of s carry one G-label;
        the two sides of every no-merge clause carry different G-labels;
        for every label L, #{wires of s labelled L} <= #{segments of st with final label L}  (<= W at the end).
   Hence every width check passes (classes of s are no larger than final components of A), cuts are taken only between
   different final components (so r1 <> r2 and the new clause is never violated later), and a gate is applied only
   inside one final component (so no clause forbids it).
   The structural part of the invariant (InvU) and the totality of the actions are those of Proofs/CutFinderInv.v. *)
From Coq Require Import QArith Lia.
From CKT Require Import Model.CutFinder Proofs.UFP Proofs.ConnP Proofs.CutFinderSpec Proofs.CutFinderInv Proofs.CutFinderPlan
  Proofs.CutFinderFuel.
From CKT Require Import Proofs.BestFirstP Proofs.BestFirstSpec Proofs.BestFirstExchange.
Close Scope Q_scope.

Lemma class_count_cntb u r n : class_count u r n = cntb (fun x => Nat.eqb (find u x) r) n.
Proof. induction n as [|n IH]; cbn [class_count cntb]; [reflexivity|]. now rewrite IH. Qed.

Definition akind_of (k : kind) : akind :=
  match k with
  | BestFirstSpec.Leave => KApply | CutGate => KGate | CutLeft => KLeft | CutRight => KRight | CutBoth => KBoth
  end.

Lemma permitted_action gl wl gam k : permitted gl wl gam k = true -> In (akind_of k) (search_actions gl wl).
Proof.
  destruct gl, wl, k; cbn [permitted andb]; intros H; try discriminate; cbv; tauto.
Qed.

Section Sim.
  Variable nq : nat.
  Variable W : nat.
  Hypothesis HW : 1 <= W.

  Let names := seq 0 nq.
  Let ND : NoDup names := seq_NoDup nq 0.

  Definition IU (s : dstate) : Prop := exists cur E, InvU names W s cur E.

  Definition gwf (g : gate_spec) : Prop :=
    length (g_qubits g) = 2 /\ q1_of g <> q2_of g /\ q1_of g < nq /\ q2_of g < nq.

  Lemma gwf_gate_wf g : gwf g -> gate_wf names g.
  Proof. unfold gwf, gate_wf, names. now rewrite seq_length. Qed.

  (* wires in one class carry one label; the sides of a clause carry different labels *)
  Definition J3 (s : dstate) (G : nat -> nat) : Prop :=
    forall x y, x < num_wires s -> y < num_wires s -> find (uptree s) x = find (uptree s) y -> G x = G y.
  Definition J4 (s : dstate) (G : nat -> nat) : Prop :=
    forall a b, In (a, b) (no_merge s) -> G a <> G b.

  (* the size of a class is bounded by the number of wires with its label *)
  Lemma class_le_cnt s cur E G r : InvU names W s cur E -> J3 s G -> r < num_wires s ->
    class_count (uptree s) r (length (uptree s)) = class_count (uptree s) r (num_wires s).
  Proof.
    intros I _ Hr. rewrite !class_count_cntb. apply cntb_trunc; [apply (iu_nw_hi _ _ _ _ _ I)|].
    intros x Hx. destruct (fresh_class names W HW s cur E x I) as (_ & _ & Fx); try lia.
    rewrite Fx. apply Nat.eqb_neq. lia.
  Qed.

  (* ---------------- ApplyGate inside one final component ---------------- *)
  Lemma step_apply s cur E g G : InvU names W s cur E -> gate_wf names g -> J3 s G -> J4 s G ->
    G (get_wire s (q1_of g)) = G (get_wire s (q2_of g)) ->
    cnt G (num_wires s) (G (get_wire s (q1_of g))) <= W ->
    exists s', apply_gate s g W = Val [s'] /\ IU s' /\ J3 s' G /\ J4 s' G /\
      wiremap s' = wiremap s /\ num_wires s' = num_wires s /\ length (uptree s') = length (uptree s) /\
      gamma_UB s' = gamma_UB s /\ level s' = level s.
  Proof.
    intros I Gw H3 H4 EG HC.
    destruct (apply_gate_ok names W HW ND s cur E g I Gw) as (l & Hl & Hall & _).
    destruct (wires_of_gate names W ND s cur E g I Gw) as (Hw1 & Hw2 & Nw).
    set (w1 := get_wire s (q1_of g)) in *. set (w2 := get_wire s (q2_of g)) in *.
    destruct (root_facts names W HW s cur E _ I Hw1) as (L1 & N1 & B1 & R1 & F1).
    destruct (root_facts names W HW s cur E _ I Hw2) as (L2 & N2 & B2 & R2 & F2).
    set (r1 := find (uptree s) w1) in *. set (r2 := find (uptree s) w2) in *.
    pose proof (iu_wf _ _ _ _ _ I) as WF.
    (* no clause between the two classes *)
    assert (NH : ~ clause_hits s r1 r2).
    { intros (a & c & Hin & D). destruct (iu_nomerge _ _ _ _ _ I _ _ Hin) as (Ha & Hc & _).
      apply (H4 a c Hin).
      destruct D as [[D1 D2]|[D1 D2]].
      - rewrite (H3 a w1 Ha Hw1 D1), (H3 c w2 Hc Hw2 D2). exact EG.
      - rewrite (H3 a w2 Ha Hw2 D1), (H3 c w1 Hc Hw1 D2). symmetry. exact EG. }
    destruct (check_dnm_val names W s cur E r1 r2 I R1 R2) as (b & Hb & Hiff).
    assert (b = false) by (destruct b; [exfalso; apply NH; now apply Hiff|reflexivity]). subst b.
    pose proof Hl as Hl0. unfold apply_gate in Hl.
    change (find_qubit_root s (q1_of g)) with r1 in Hl. change (find_qubit_root s (q2_of g)) with r2 in Hl.
    destruct (Nat.eq_dec r1 r2) as [Er|Nr].
    - (* already one class *)
      destruct (Nat.eqb_spec r1 r2) as [_|C]; [|contradiction]. cbn [negb andb] in Hl. rewrite Hb in Hl. cbn [obind] in Hl.
      injection Hl as <-. exists s. split; [exact Hl0|].
      destruct (Hall s (or_introl eq_refl)) as (IU' & _). split; [eexists; eexists; exact IU'|]. repeat split; auto.
    - destruct (Nat.eqb_spec r1 r2) as [C|_]; [contradiction|]. cbn [negb andb] in Hl.
      (* the width check *)
      assert (SUM : width_at s r1 + width_at s r2 <= W).
      { destruct (iu_width _ _ _ _ _ I r1 B1 R1) as [W1 _]. destruct (iu_width _ _ _ _ _ I r2 B2 R2) as [W2 _].
        rewrite W1, W2, (class_le_cnt s cur E G r1 I H3 N1), (class_le_cnt s cur E G r2 I H3 N2), !class_count_cntb.
        eapply Nat.le_trans; [|exact HC]. unfold cnt. apply cntb_sum.
        - intros x Hx Ex. apply Nat.eqb_eq in Ex. apply Nat.eqb_eq. apply (H3 x w1 Hx Hw1). exact Ex.
        - intros x Hx Ex. apply Nat.eqb_eq in Ex. apply Nat.eqb_eq. rewrite EG. apply (H3 x w2 Hx Hw2). exact Ex.
        - intros x Hx E1 E2. apply Nat.eqb_eq in E1, E2. congruence. }
      destruct (Nat.ltb_spec W (width_at s r1 + width_at s r2)) as [C|_]; [lia|].
      rewrite Hb in Hl. cbn [obind] in Hl.
      unfold merge_roots, is_root in Hl. rewrite R1, R2, !Nat.eqb_refl in Hl.
      destruct (Nat.eqb_spec r1 r2) as [C|_]; [contradiction|]. cbn [andb negb oassert obind] in Hl.
      injection Hl as <-. eexists. split; [exact Hl0|].
      destruct (Hall _ (or_introl eq_refl)) as (IU' & _). split; [eexists; eexists; exact IU'|].
      set (mn := Nat.min r1 r2). set (mx := Nat.max r1 r2).
      assert (Hlt : mn < mx) by (unfold mn, mx; lia).
      assert (Hmx : mx < length (uptree s)) by (unfold mx; lia).
      assert (Rmn : parent (uptree s) mn = mn) by (unfold mn; destruct (Nat.min_spec r1 r2) as [[_ ->]|[_ ->]]; auto).
      assert (Rmx : parent (uptree s) mx = mx) by (unfold mx; destruct (Nat.max_spec r1 r2) as [[_ ->]|[_ ->]]; auto).
      assert (MM : (mn = r1 /\ mx = r2) \/ (mn = r2 /\ mx = r1)) by (unfold mn, mx; lia).
      cbn [set_uf wiremap num_wires uptree no_merge gamma_UB level]. unfold union_roots. fold mn mx. rewrite upd_length.
      split; [|repeat split; auto].
      intros x y Hx Hy Ef. apply (union_find_eq (uptree s) mn mx x y WF Hlt Hmx Rmn Rmx) in Ef.
      assert (G1 : forall z, z < num_wires s -> find (uptree s) z = r1 -> G z = G w1) by (intros z Hz Ez; now apply H3).
      assert (G2 : forall z, z < num_wires s -> find (uptree s) z = r2 -> G z = G w1) by (intros z Hz Ez; rewrite EG; now apply H3).
      destruct Ef as [Ef|[[Ea Eb]|[Ea Eb]]]; [now apply H3| |];
        destruct MM as [[M1 M2]|[M1 M2]]; rewrite M1 in *; rewrite M2 in *;
        first [rewrite (G1 x Hx Ea), (G2 y Hy Eb) | rewrite (G2 x Hx Ea), (G1 y Hy Eb)]; reflexivity.
  Qed.

  (* ---------------- CutTwoQubitGate between two final components ---------------- *)
  Lemma step_gate s cur E g G gam : InvU names W s cur E -> gate_wf names g -> J3 s G -> J4 s G ->
    g_gamma g = Some gam -> G (get_wire s (q1_of g)) <> G (get_wire s (q2_of g)) ->
    exists s', cut_two_qubit_gate s g W = Val [s'] /\ IU s' /\ J3 s' G /\ J4 s' G /\
      wiremap s' = wiremap s /\ num_wires s' = num_wires s /\ length (uptree s') = length (uptree s) /\
      gamma_UB s' = Qmult (gamma_UB s) gam /\ level s' = level s.
  Proof.
    intros I Gw H3 H4 Eg NG.
    destruct (gate_cut_ok names W HW ND s cur E g I Gw) as (l & Hl & Hall & _).
    destruct (wires_of_gate names W ND s cur E g I Gw) as (Hw1 & Hw2 & Nw).
    set (w1 := get_wire s (q1_of g)) in *. set (w2 := get_wire s (q2_of g)) in *.
    destruct (root_facts names W HW s cur E _ I Hw1) as (L1 & N1 & B1 & R1 & F1).
    destruct (root_facts names W HW s cur E _ I Hw2) as (L2 & N2 & B2 & R2 & F2).
    set (r1 := find (uptree s) w1) in *. set (r2 := find (uptree s) w2) in *.
    assert (Nr : r1 <> r2) by (intros Er; apply NG; now apply H3).
    pose proof Gw as (GL & _).
    pose proof Hl as Hl0. unfold cut_two_qubit_gate in Hl. rewrite GL, Eg in Hl. cbn [Nat.eqb negb] in Hl.
    change (find_qubit_root s (q1_of g)) with r1 in Hl. change (find_qubit_root s (q2_of g)) with r2 in Hl.
    destruct (Nat.eqb_spec r1 r2) as [C|_]; [contradiction|].
    unfold assert_donot_merge_roots, find_wire_root in Hl. rewrite F1, F2 in Hl.
    destruct (Nat.eqb_spec r1 r2) as [C|_]; [contradiction|]. cbn [negb oassert obind] in Hl.
    injection Hl as <-. eexists. split; [exact Hl0|].
    destruct (Hall _ (or_introl eq_refl)) as (gam' & _ & _ & IU' & _). split; [eexists; eexists; exact IU'|].
    cbn [add_action mul_gamma wiremap num_wires uptree no_merge gamma_UB level].
    split; [exact H3|]. split; [|repeat split; reflexivity].
    intros a b Hin. apply in_app_or in Hin as [Hin|[Hin|[]]]; [now apply H4|].
    injection Hin as <- <-.
    rewrite (H3 r1 w1 N1 Hw1 F1), (H3 r2 w2 N2 Hw2 F2). exact NG.
  Qed.

  (* find after hanging the fresh wire nw below the root ro *)
  Lemma find_new_wire s cur E ro : InvU names W s cur E -> S (num_wires s) <= length (uptree s) ->
    ro < num_wires s -> parent (uptree s) ro = ro ->
    (forall x, x < num_wires s -> find (upd (uptree s) (num_wires s) ro) x = find (uptree s) x) /\
    find (upd (uptree s) (num_wires s) ro) (num_wires s) = ro.
  Proof.
    intros I Hroom Hro Rro. pose proof (iu_wf _ _ _ _ _ I) as WF.
    assert (Rn : parent (uptree s) (num_wires s) = num_wires s) by (apply (iu_fresh _ _ _ _ _ I); lia).
    destruct (fresh_class names W HW s cur E (num_wires s) I (le_n _)) as (_ & _ & Fn); [lia|].
    assert (FU : forall x, find (upd (uptree s) (num_wires s) ro) x =
                           if Nat.eqb (find (uptree s) x) (num_wires s) then ro else find (uptree s) x)
      by (intros x; apply union_find; auto; lia).
    split.
    - intros x Hx. rewrite FU. pose proof (find_le (uptree s) x WF).
      destruct (Nat.eqb_spec (find (uptree s) x) (num_wires s)); [lia|reflexivity].
    - rewrite FU, Fn, Nat.eqb_refl. reflexivity.
  Qed.

  (* ---------------- cutting ONE wire: qc is cut, the fresh wire joins the class of qo ---------------- *)
  (* common part of CutLeftWire / CutRightWire once the successor state is known explicitly *)
  Lemma cut_one_J s cur E G s' wc wo : InvU names W s cur E -> J3 s G -> J4 s G ->
    wc < num_wires s -> wo < num_wires s -> G wc <> G wo -> S (num_wires s) <= length (uptree s) ->
    let rc := find (uptree s) wc in let ro := find (uptree s) wo in
    num_wires s' = S (num_wires s) -> uptree s' = upd (uptree s) (num_wires s) ro ->
    (no_merge s' = no_merge s ++ [(rc, ro)] \/ no_merge s' = no_merge s ++ [(ro, rc)]) ->
    J3 s' (fupd G (num_wires s) (G wo)) /\ J4 s' (fupd G (num_wires s) (G wo)).
  Proof.
    intros I H3 H4 Hwc Hwo NG Hroom rc ro Enw Eu Enm.
    destruct (root_facts names W HW s cur E _ I Hwc) as (Lc & Nc & Bc & Rc & Fc). fold rc in Lc, Nc, Bc, Rc, Fc.
    destruct (root_facts names W HW s cur E _ I Hwo) as (Lo & No & Bo & Ro & Fo). fold ro in Lo, No, Bo, Ro, Fo.
    destruct (find_new_wire s cur E ro I Hroom No Ro) as [FO FN].
    assert (GO : forall x, x < num_wires s -> fupd G (num_wires s) (G wo) x = G x).
    { intros x Hx. unfold fupd. destruct (Nat.eqb_spec x (num_wires s)); [lia|reflexivity]. }
    assert (GN : fupd G (num_wires s) (G wo) (num_wires s) = G wo) by (unfold fupd; now rewrite Nat.eqb_refl).
    assert (Gro : forall x, x < num_wires s -> find (uptree s) x = ro -> G x = G wo) by (intros x Hx Ex; now apply H3).
    split.
    - intros x y Hx Hy. rewrite Enw in Hx, Hy. rewrite Eu.
      destruct (Nat.eq_dec x (num_wires s)) as [->|Nx], (Nat.eq_dec y (num_wires s)) as [->|Ny]; intros Ef.
      + reflexivity.
      + rewrite FN, FO in Ef by lia. rewrite GN, GO by lia. symmetry. apply Gro; [lia|congruence].
      + rewrite FN, FO in Ef by lia. rewrite GN, GO by lia. apply Gro; [lia|congruence].
      + rewrite !FO in Ef by lia. rewrite !GO by lia. apply H3; auto; lia.
    - assert (Grc : G rc = G wc) by (apply H3; auto).
      assert (Gro' : G ro = G wo) by (apply H3; auto).
      intros a b Hin.
      assert (Hin' : In (a, b) (no_merge s) \/ (a, b) = (rc, ro) \/ (a, b) = (ro, rc)).
      { destruct Enm as [Enm|Enm]; rewrite Enm in Hin; apply in_app_or in Hin as [Hin|[Hin|[]]]; auto. }
      destruct Hin' as [Hin'|[Hin'|Hin']].
      + destruct (iu_nomerge _ _ _ _ _ I _ _ Hin') as (Ha & Hb & _). rewrite !GO by auto. now apply H4.
      + injection Hin' as -> ->. rewrite !GO by auto. congruence.
      + injection Hin' as -> ->. rewrite !GO by auto. congruence.
  Qed.

  (* the class of the receiving root has room: it lies in one final component *)
  Lemma room_in_class s cur E G wo : InvU names W s cur E -> J3 s G -> wo < num_wires s ->
    cnt G (num_wires s) (G wo) + 1 <= W -> width_at s (find (uptree s) wo) + 1 <= W.
  Proof.
    intros I H3 Hwo HC.
    destruct (root_facts names W HW s cur E _ I Hwo) as (Lo & No & Bo & Ro & Fo).
    destruct (iu_width _ _ _ _ _ I _ Bo Ro) as [Wo _].
    rewrite Wo, (class_le_cnt s cur E G _ I H3 No), class_count_cntb.
    assert (cntb (fun x => Nat.eqb (find (uptree s) x) (find (uptree s) wo)) (num_wires s) <= cnt G (num_wires s) (G wo)); [|lia].
    apply cntb_le. intros x Hx Ex. apply Nat.eqb_eq in Ex. apply Nat.eqb_eq. now apply H3.
  Qed.

  Lemma step_left s cur E g G : InvU names W s cur E -> gate_wf names g -> J3 s G -> J4 s G ->
    G (get_wire s (q1_of g)) <> G (get_wire s (q2_of g)) ->
    num_wires s + 1 <= length (uptree s) ->
    cnt G (num_wires s) (G (get_wire s (q2_of g))) + 1 <= W ->
    let G' := fupd G (num_wires s) (G (get_wire s (q2_of g))) in
    exists s', cut_left_wire s g W = Val [s'] /\ IU s' /\ J3 s' G' /\ J4 s' G' /\
      wiremap s' = upd (wiremap s) (q1_of g) (num_wires s) /\ num_wires s' = S (num_wires s) /\
      length (uptree s') = length (uptree s) /\
      gamma_UB s' = Qmult (gamma_UB s) left_wire_mult /\ level s' = level s.
  Proof.
    intros I Gw H3 H4 NG Hroom HC G'.
    destruct (left_cut_ok names W HW ND s cur E g I Gw) as (l & Hl & Hall & _).
    destruct (wires_of_gate names W ND s cur E g I Gw) as (Hw1 & Hw2 & Nw).
    destruct (root_facts names W HW s cur E _ I Hw1) as (L1 & N1 & B1 & R1 & F1).
    destruct (root_facts names W HW s cur E _ I Hw2) as (L2 & N2 & B2 & R2 & F2).
    set (r1 := find (uptree s) (get_wire s (q1_of g))) in *.
    set (r2 := find (uptree s) (get_wire s (q2_of g))) in *.
    assert (Nr : r1 <> r2) by (intros Er; apply NG; now apply H3).
    pose proof (room_in_class s cur E G _ I H3 Hw2 HC) as Hfit. fold r2 in Hfit.
    pose proof Gw as (GL & GN & G1 & G2).
    pose proof Hl as Hl0. unfold cut_left_wire in Hl. rewrite GL in Hl. cbn [Nat.eqb negb] in Hl. unfold can_add_wires, can_expand_subcircuit in Hl.
    destruct (Nat.leb_spec (num_wires s + 1) (length (uptree s))) as [_|C]; [|lia]. cbn [negb] in Hl.
    change (find_qubit_root s (q1_of g)) with r1 in Hl. change (find_qubit_root s (q2_of g)) with r2 in Hl.
    destruct (Nat.eqb_spec r1 r2) as [C|_]; [contradiction|].
    destruct (Nat.leb_spec (width_at s r2 + 1) W) as [_|C]; [|lia]. cbn [negb] in Hl.
    unfold new_wire in Hl. destruct (Nat.ltb_spec (num_wires s) (length (uptree s))) as [_|C]; [|lia]. cbn [oassert obind] in Hl.
    assert (GWn : get_wire {| wiremap := upd (wiremap s) (q1_of g) (num_wires s); num_wires := S (num_wires s);
                              uptree := uptree s; width := width s; no_merge := no_merge s; gamma_UB := gamma_UB s;
                              actions := actions s; level := level s |} (q1_of g) = num_wires s).
    { unfold get_wire; cbn. apply nth_upd_same. rewrite (iu_len_wm _ _ _ _ _ I). exact G1. }
    rewrite GWn in Hl.
    assert (Rn : parent (uptree s) (num_wires s) = num_wires s) by (apply (iu_fresh _ _ _ _ _ I); lia).
    unfold merge_roots, is_root in Hl; cbn [uptree] in Hl. rewrite Rn, R2, !Nat.eqb_refl in Hl.
    destruct (Nat.eqb_spec (num_wires s) r2) as [C|_]; [lia|]. cbn [andb negb oassert obind] in Hl.
    rewrite Nat.min_r, Nat.max_l in Hl by lia.
    unfold assert_donot_merge_roots, find_wire_root, set_uf, union_roots in Hl;
      cbn [uptree wiremap num_wires width no_merge gamma_UB actions level] in Hl.
    rewrite Nat.min_r, Nat.max_l in Hl by lia.
    destruct (find_new_wire s cur E r2 I ltac:(lia) N2 R2) as [FO FN].
    rewrite !FO in Hl by auto. rewrite F1, F2 in Hl. destruct (Nat.eqb_spec r1 r2) as [C|_]; [contradiction|].
    cbn [negb oassert obind] in Hl.
    injection Hl as <-. eexists. split; [exact Hl0|].
    destruct (Hall _ (or_introl eq_refl)) as (IU' & _). split; [eexists; eexists; exact IU'|].
    match goal with |- J3 ?s' _ /\ _ =>
      destruct (cut_one_J s cur E G s' (get_wire s (q1_of g)) (get_wire s (q2_of g)) I H3 H4 Hw1 Hw2 NG ltac:(lia)
                  eq_refl eq_refl (or_introl eq_refl)) as [A3 A4] end.
    split; [exact A3|]. split; [exact A4|]. cbn. rewrite upd_length. repeat split; reflexivity.
  Qed.

  Lemma step_right s cur E g G : InvU names W s cur E -> gate_wf names g -> J3 s G -> J4 s G ->
    G (get_wire s (q1_of g)) <> G (get_wire s (q2_of g)) ->
    num_wires s + 1 <= length (uptree s) ->
    cnt G (num_wires s) (G (get_wire s (q1_of g))) + 1 <= W ->
    let G' := fupd G (num_wires s) (G (get_wire s (q1_of g))) in
    exists s', cut_right_wire s g W = Val [s'] /\ IU s' /\ J3 s' G' /\ J4 s' G' /\
      wiremap s' = upd (wiremap s) (q2_of g) (num_wires s) /\ num_wires s' = S (num_wires s) /\
      length (uptree s') = length (uptree s) /\
      gamma_UB s' = Qmult (gamma_UB s) right_wire_mult /\ level s' = level s.
  Proof.
    intros I Gw H3 H4 NG Hroom HC G'.
    destruct (right_cut_ok names W HW ND s cur E g I Gw) as (l & Hl & Hall & _).
    destruct (wires_of_gate names W ND s cur E g I Gw) as (Hw1 & Hw2 & Nw).
    destruct (root_facts names W HW s cur E _ I Hw1) as (L1 & N1 & B1 & R1 & F1).
    destruct (root_facts names W HW s cur E _ I Hw2) as (L2 & N2 & B2 & R2 & F2).
    set (r1 := find (uptree s) (get_wire s (q1_of g))) in *.
    set (r2 := find (uptree s) (get_wire s (q2_of g))) in *.
    assert (Nr : r1 <> r2) by (intros Er; apply NG; now apply H3).
    pose proof (room_in_class s cur E G _ I H3 Hw1 HC) as Hfit. fold r1 in Hfit.
    pose proof Gw as (GL & GN & G1 & G2).
    pose proof Hl as Hl0. unfold cut_right_wire in Hl. rewrite GL in Hl. cbn [Nat.eqb negb] in Hl. unfold can_add_wires, can_expand_subcircuit in Hl.
    destruct (Nat.leb_spec (num_wires s + 1) (length (uptree s))) as [_|C]; [|lia]. cbn [negb] in Hl.
    change (find_qubit_root s (q1_of g)) with r1 in Hl. change (find_qubit_root s (q2_of g)) with r2 in Hl.
    destruct (Nat.eqb_spec r1 r2) as [C|_]; [contradiction|].
    destruct (Nat.leb_spec (width_at s r1 + 1) W) as [_|C]; [|lia]. cbn [negb] in Hl.
    unfold new_wire in Hl. destruct (Nat.ltb_spec (num_wires s) (length (uptree s))) as [_|C]; [|lia]. cbn [oassert obind] in Hl.
    assert (GWn : get_wire {| wiremap := upd (wiremap s) (q2_of g) (num_wires s); num_wires := S (num_wires s);
                              uptree := uptree s; width := width s; no_merge := no_merge s; gamma_UB := gamma_UB s;
                              actions := actions s; level := level s |} (q2_of g) = num_wires s).
    { unfold get_wire; cbn. apply nth_upd_same. rewrite (iu_len_wm _ _ _ _ _ I). exact G2. }
    rewrite GWn in Hl.
    assert (Rn : parent (uptree s) (num_wires s) = num_wires s) by (apply (iu_fresh _ _ _ _ _ I); lia).
    unfold merge_roots, is_root in Hl; cbn [uptree] in Hl. rewrite Rn, R1, !Nat.eqb_refl in Hl.
    destruct (Nat.eqb_spec r1 (num_wires s)) as [C|_]; [lia|]. cbn [andb negb oassert obind] in Hl.
    rewrite Nat.min_l, Nat.max_r in Hl by lia.
    unfold assert_donot_merge_roots, find_wire_root, set_uf, union_roots in Hl;
      cbn [uptree wiremap num_wires width no_merge gamma_UB actions level] in Hl.
    rewrite Nat.min_l, Nat.max_r in Hl by lia.
    destruct (find_new_wire s cur E r1 I ltac:(lia) N1 R1) as [FO FN].
    rewrite !FO in Hl by auto. rewrite F1, F2 in Hl. destruct (Nat.eqb_spec r1 r2) as [C|_]; [contradiction|].
    cbn [negb oassert obind] in Hl.
    injection Hl as <-. eexists. split; [exact Hl0|].
    destruct (Hall _ (or_introl eq_refl)) as (IU' & _). split; [eexists; eexists; exact IU'|].
    match goal with |- J3 ?s' _ /\ _ =>
      destruct (cut_one_J s cur E G s' (get_wire s (q2_of g)) (get_wire s (q1_of g)) I H3 H4 Hw2 Hw1 ltac:(auto) ltac:(lia)
                  eq_refl eq_refl (or_intror eq_refl)) as [A3 A4] end.
    split; [exact A3|]. split; [exact A4|]. cbn. rewrite upd_length. repeat split; reflexivity.
  Qed.

  (* ---------------- CutBothWires: the fresh pair forms a new class with label L ---------------- *)
  Lemma step_both s cur E g G L : InvU names W s cur E -> gate_wf names g -> J3 s G -> J4 s G ->
    G (get_wire s (q1_of g)) <> L -> G (get_wire s (q2_of g)) <> L ->
    num_wires s + 2 <= length (uptree s) -> 2 <= W ->
    let G' := fupd (fupd G (num_wires s) L) (S (num_wires s)) L in
    exists s', cut_both_wires s g W = Val [s'] /\ IU s' /\ J3 s' G' /\ J4 s' G' /\
      wiremap s' = upd (upd (wiremap s) (q1_of g) (num_wires s)) (q2_of g) (S (num_wires s)) /\
      num_wires s' = S (S (num_wires s)) /\ length (uptree s') = length (uptree s) /\
      gamma_UB s' = Qmult (gamma_UB s) both_wires_mult /\ level s' = level s.
  Proof.
    intros I Gw H3 H4 NG1 NG2 Hroom HW2 G'.
    destruct (both_cut_ok names W HW ND s cur E g I Gw) as (l & Hl & Hall & _).
    destruct (wires_of_gate names W ND s cur E g I Gw) as (Hw1 & Hw2 & Nw).
    destruct (root_facts names W HW s cur E _ I Hw1) as (L1 & N1 & B1 & R1 & F1).
    destruct (root_facts names W HW s cur E _ I Hw2) as (L2 & N2 & B2 & R2 & F2).
    set (r1 := find (uptree s) (get_wire s (q1_of g))) in *.
    set (r2 := find (uptree s) (get_wire s (q2_of g))) in *.
    pose proof Gw as (GL & GNq & G1 & G2).
    pose proof Hl as Hl0. unfold cut_both_wires in Hl. rewrite GL in Hl. cbn [Nat.eqb negb] in Hl. unfold can_add_wires in Hl.
    change (find_qubit_root s (q1_of g)) with r1 in Hl. change (find_qubit_root s (q2_of g)) with r2 in Hl.
    destruct (Nat.leb_spec (num_wires s + 2) (length (uptree s))) as [_|C]; [|lia]. cbn [negb] in Hl.
    destruct (Nat.ltb_spec W 2) as [C|_]; [lia|].
    rewrite new_wire_val in Hl by (rewrite ?(iu_len_wm _ _ _ _ _ I); auto; lia). cbn [obind] in Hl.
    rewrite new_wire_val in Hl by (unfold with_new_wire; cbn; rewrite ?upd_length, ?(iu_len_wm _ _ _ _ _ I); auto; lia).
    cbn [obind] in Hl.
    change (num_wires (with_new_wire s (q1_of g))) with (S (num_wires s)) in Hl.
    set (s2 := with_new_wire (with_new_wire s (q1_of g)) (q2_of g)) in *.
    assert (Eu2 : uptree s2 = uptree s) by reflexivity.
    assert (Rn : parent (uptree s) (num_wires s) = num_wires s) by (apply (iu_fresh _ _ _ _ _ I); lia).
    assert (Rm : parent (uptree s) (S (num_wires s)) = S (num_wires s)) by (apply (iu_fresh _ _ _ _ _ I); lia).
    unfold merge_roots, is_root in Hl. rewrite Eu2, Rn, Rm, !Nat.eqb_refl in Hl.
    destruct (Nat.eqb_spec (num_wires s) (S (num_wires s))) as [C|_]; [lia|]. cbn [andb negb oassert obind] in Hl.
    rewrite Nat.min_l, Nat.max_r in Hl by lia.
    pose proof (iu_wf _ _ _ _ _ I) as WF.
    assert (FU : forall x, find (upd (uptree s) (S (num_wires s)) (num_wires s)) x =
                           if Nat.eqb (find (uptree s) x) (S (num_wires s)) then num_wires s else find (uptree s) x).
    { intros x. apply union_find; auto; lia. }
    assert (FO : forall x, x < num_wires s -> find (upd (uptree s) (S (num_wires s)) (num_wires s)) x = find (uptree s) x).
    { intros x Hx. rewrite FU. pose proof (find_le (uptree s) x WF).
      destruct (Nat.eqb_spec (find (uptree s) x) (S (num_wires s))); [lia|reflexivity]. }
    destruct (fresh_class names W HW s cur E (num_wires s) I (le_n _)) as (_ & _ & Fn); [lia|].
    destruct (fresh_class names W HW s cur E (S (num_wires s)) I) as (_ & _ & Fm); [lia|lia|].
    assert (FN : find (upd (uptree s) (S (num_wires s)) (num_wires s)) (num_wires s) = num_wires s).
    { rewrite FU, Fn. destruct (Nat.eqb_spec (num_wires s) (S (num_wires s))); [lia|reflexivity]. }
    assert (FM : find (upd (uptree s) (S (num_wires s)) (num_wires s)) (S (num_wires s)) = num_wires s).
    { rewrite FU, Fm, Nat.eqb_refl. reflexivity. }
    unfold assert_donot_merge_roots at 1 in Hl. unfold find_wire_root, set_uf, union_roots in Hl;
      cbn [uptree wiremap num_wires width no_merge gamma_UB actions level] in Hl. rewrite ?Eu2 in Hl.
    rewrite Nat.min_l, Nat.max_r in Hl by lia.
    rewrite (FO r1) in Hl by auto. rewrite FN, F1 in Hl.
    destruct (Nat.eqb_spec r1 (num_wires s)) as [C|_]; [lia|]. cbn [negb oassert obind] in Hl.
    unfold assert_donot_merge_roots, find_wire_root in Hl; cbn [uptree wiremap num_wires width no_merge gamma_UB actions level] in Hl.
    rewrite (FO r2) in Hl by auto. rewrite FM, F2 in Hl.
    destruct (Nat.eqb_spec r2 (num_wires s)) as [C|_]; [lia|]. cbn [negb oassert obind] in Hl.
    injection Hl as <-. eexists. split; [exact Hl0|].
    destruct (Hall _ (or_introl eq_refl)) as (IU' & _). split; [eexists; eexists; exact IU'|].
    cbn [add_action mul_gamma wiremap num_wires uptree no_merge gamma_UB level s2 with_new_wire].
    rewrite upd_length.
    assert (GO : forall x, x < num_wires s -> G' x = G x).
    { intros x Hx. unfold G', fupd. destruct (Nat.eqb_spec x (S (num_wires s))); [lia|].
      destruct (Nat.eqb_spec x (num_wires s)); [lia|reflexivity]. }
    assert (GN : G' (num_wires s) = L).
    { unfold G', fupd. destruct (Nat.eqb_spec (num_wires s) (S (num_wires s))); [lia|]. now rewrite Nat.eqb_refl. }
    assert (GM : G' (S (num_wires s)) = L) by (unfold G', fupd; now rewrite Nat.eqb_refl).
    split; [|split; [|repeat split; reflexivity]].
    - intros x y Hx Hy Ef. cbn [add_action mul_gamma num_wires uptree] in Hx, Hy, Ef.
      assert (Cx : x < num_wires s \/ x = num_wires s \/ x = S (num_wires s)) by lia.
      assert (Cy : y < num_wires s \/ y = num_wires s \/ y = S (num_wires s)) by lia.
      assert (OLD : forall z, z < num_wires s -> find (upd (uptree s) (S (num_wires s)) (num_wires s)) z < num_wires s).
      { intros z Hz. rewrite FO by auto. pose proof (find_le (uptree s) z WF). lia. }
      destruct Cx as [Cx|[->| ->]], Cy as [Cy|[->| ->]]; rewrite ?GN, ?GM; auto;
        try (rewrite ?FN, ?FM in Ef; first [pose proof (OLD x Cx) | pose proof (OLD y Cy)]; lia).
      rewrite !FO in Ef by auto. rewrite !GO by auto. now apply H3.
    - intros a b Hin. cbn [add_action mul_gamma no_merge] in Hin.
      apply in_app_or in Hin as [Hin|[Hin|[]]]; [apply in_app_or in Hin as [Hin|[Hin|[]]]|].
      + destruct (iu_nomerge _ _ _ _ _ I _ _ Hin) as (Ha & Hb & _). rewrite !GO by auto. now apply H4.
      + injection Hin as <- <-. rewrite GO, GN by auto. rewrite (H3 r1 _ N1 Hw1 F1). exact NG1.
      + injection Hin as <- <-. rewrite GO, GM by auto. rewrite (H3 r2 _ N2 Hw2 F2). exact NG2.
  Qed.
End Sim.

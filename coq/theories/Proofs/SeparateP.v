(* Proofs/SeparateP.v — lemmas about Model/Separate.v (property C10).

   Contents
     A  _split_barriers: the live-index loop equals a one-pass specification [split_spec]
     B  grouping positions by an optional key; _qubit_map_from_partition_labels
     C  unique_by_eq; _separate_instructions_by_partition
     D  re-indexing of instructions (find_all) and its inverse
     E  _combine_barriers: the index surgery equals a position-free specification [cspec]
     F  run-structured circuits: split, filtered, re-indexed and re-joined = the original restricted to a label
     H  Herbrand semantics: instructions on disjoint wires commute; equal per-wire / per-clbit projections
        give equal denotations [hrun_proj_eq]
     G  separate_circuit assembled; per-wire views; tagged restriction
     I  union-find correctness and _partition_labels_from_circuit
     S  final statements used by Properties/C10.v *)
From Coq Require Import Sorted Permutation Relations.
From CKT Require Import Common.Base Common.Circ Common.Herbrand Model.Observables Proofs.ObservablesP Model.Separate.

(* ================= Part A: _split_barriers ================= *)
Fixpoint split_spec (u : nat) (c : circ) : circ :=
  match c with
  | [] => []
  | i :: r => if needs_split i then map (piece u) (iqs i) ++ split_spec (S u) r
              else i :: split_spec u r
  end.

Lemma insert_at_app {A} (pre rest : list A) x :
  insert_at (pre ++ rest) (length pre) x = pre ++ x :: rest.
Proof. induction pre as [|y pre IH]; simpl; [destruct rest; reflexivity|]. now rewrite IH. Qed.

Lemma upd_app_head {A} (pre rest : list A) y v :
  upd (pre ++ y :: rest) (length pre) v = pre ++ v :: rest.
Proof. induction pre as [|z pre IH]; simpl; [reflexivity|]. now rewrite IH. Qed.

Lemma insert_pieces_spec qs : forall pre rest u,
  insert_pieces (pre ++ rest) (length pre) u qs = pre ++ map (piece u) qs ++ rest.
Proof.
  induction qs as [|q r IH]; intros pre rest u; simpl; [reflexivity|].
  rewrite insert_at_app.
  replace (pre ++ piece u q :: rest) with ((pre ++ [piece u q]) ++ rest) by now rewrite <- app_assoc.
  replace (S (length pre)) with (length (pre ++ [piece u q])) by (rewrite app_length; simpl; lia).
  rewrite IH. now rewrite <- app_assoc.
Qed.

Lemma replace_barrier_spec pre inst rest u :
  iqs inst <> [] ->
  replace_barrier (pre ++ inst :: rest) (length pre) u inst = pre ++ map (piece u) (iqs inst) ++ rest.
Proof.
  intros NE. unfold replace_barrier. destruct (iqs inst) as [|q0 r]; [congruence|].
  rewrite upd_app_head.
  replace (pre ++ piece u q0 :: rest) with ((pre ++ [piece u q0]) ++ rest) by now rewrite <- app_assoc.
  replace (S (length pre)) with (length (pre ++ [piece u q0])) by (rewrite app_length; simpl; lia).
  rewrite insert_pieces_spec. now rewrite <- app_assoc.
Qed.

Definition cost (c : circ) : nat := length c + fold_right (fun i a => length (iqs i) + a) 0 c.

Lemma needs_split_piece u q : needs_split (piece u q) = false.
Proof. reflexivity. Qed.

Lemma needs_split_nonempty i : needs_split i = true -> is_barrier i && Nat.eqb (length (iqs i)) 0 = false -> iqs i <> [].
Proof.
  unfold needs_split. intros H E D. rewrite D in *. simpl in *.
  destruct (is_barrier i); simpl in *; discriminate.
Qed.

Lemma nth_error_mid {A} (pre : list A) x rest : nth_error (pre ++ x :: rest) (length pre) = Some x.
Proof. induction pre; simpl; auto. Qed.

Lemma split_live_spec : forall fuel pre ones rest u,
  Forall (fun i => needs_split i = false) ones ->
  has_empty_barrier rest = false ->
  length ones + cost rest <= fuel ->
  split_live fuel (length pre) u (pre ++ ones ++ rest) = pre ++ ones ++ split_spec u rest.
Proof.
  induction fuel as [|f IH]; intros pre ones rest u Hones Hne Hf.
  - destruct ones; [|simpl in Hf; lia]. destruct rest; [|unfold cost in Hf; simpl in Hf; lia]. reflexivity.
  - destruct ones as [|x ones'].
    + destruct rest as [|inst rest'].
      * simpl. rewrite app_nil_r.
        assert (E : nth_error pre (length pre) = None) by (apply nth_error_None; lia).
        now rewrite E.
      * simpl app. cbn [split_live]. rewrite nth_error_mid.
        simpl in Hne. apply orb_false_iff in Hne as [Hi Hne].
        cbn [split_spec]. destruct (needs_split inst) eqn:NS.
        -- rewrite replace_barrier_spec by (now apply needs_split_nonempty).
           pose proof (needs_split_nonempty _ NS Hi) as NE.
           destruct (iqs inst) as [|q0 r] eqn:Eq; [congruence|].
           cbn [map].
           replace (pre ++ (piece u q0 :: map (piece u) r) ++ rest')
             with ((pre ++ [piece u q0]) ++ map (piece u) r ++ rest')
             by (rewrite <- app_assoc; reflexivity).
           replace (S (length pre)) with (length (pre ++ [piece u q0])) by (rewrite app_length; simpl; lia).
           rewrite IH.
           ++ rewrite <- !app_assoc. reflexivity.
           ++ apply Forall_forall. intros y Hy. apply in_map_iff in Hy as [q [<- _]]. reflexivity.
           ++ exact Hne.
           ++ rewrite map_length. unfold cost in *. simpl in Hf. rewrite Eq in Hf. simpl in Hf. lia.
        -- replace (pre ++ inst :: rest') with ((pre ++ [inst]) ++ [] ++ rest')
             by (rewrite <- app_assoc; reflexivity).
           replace (S (length pre)) with (length (pre ++ [inst])) by (rewrite app_length; simpl; lia).
           rewrite IH; auto.
           ++ rewrite <- !app_assoc. reflexivity.
           ++ unfold cost in *. simpl in *. lia.
    + inversion Hones as [|? ? Hx Hones']; subst.
      simpl app. cbn [split_live]. rewrite nth_error_mid. rewrite Hx.
      replace (pre ++ x :: ones' ++ rest) with ((pre ++ [x]) ++ ones' ++ rest)
        by (rewrite <- app_assoc; reflexivity).
      replace (S (length pre)) with (length (pre ++ [x])) by (rewrite app_length; simpl; lia).
      rewrite IH; auto.
      * rewrite <- !app_assoc. reflexivity.
      * simpl in Hf. lia.
Qed.

Theorem split_barriers_spec c : has_empty_barrier c = false -> split_barriers c = split_spec 0 c.
Proof.
  intros H. unfold split_barriers.
  apply (split_live_spec (split_fuel c) [] [] c 0); auto.
Qed.

(* ================= Part B: grouping positions by an optional key ================= *)
Definition okey_beq : option nat -> option nat -> bool := option_beq Nat.eqb.

Lemma okey_beq_eq a b : okey_beq a b = true <-> a = b.
Proof.
  destruct a as [x|], b as [y|]; simpl; split; intros H; try discriminate; auto.
  - apply Nat.eqb_eq in H; now subst.
  - inversion H; subst. apply Nat.eqb_refl.
Qed.

Fixpoint ogroups (ks : list (option nat)) (i : nat) (g : list (nat * list nat)) : list (nat * list nat) :=
  match ks with
  | [] => g
  | None :: r => ogroups r (S i) g
  | Some k :: r => ogroups r (S i) (add_to_group k i g)
  end.

(* positions j < i carrying key k, ascending *)
Definition omembers (ks : list (option nat)) (k i : nat) : list nat :=
  filter (fun j => okey_beq (nth j ks None) (Some k)) (seq 0 i).

Lemma omembers_S ks k i :
  omembers ks k (S i) = omembers ks k i ++ (if okey_beq (nth i ks None) (Some k) then [i] else []).
Proof. unfold omembers. rewrite seq_S, filter_app. simpl. destruct (okey_beq _ _); reflexivity. Qed.

Lemma omembers_in ks k n j : In j (omembers ks k n) <-> j < n /\ nth j ks None = Some k.
Proof. unfold omembers. rewrite filter_In, in_seq, okey_beq_eq. intuition lia. Qed.

Lemma omembers_sorted ks k n : StronglySorted lt (omembers ks k n).
Proof. apply filter_seq_sorted. Qed.

Lemma omembers_NoDup ks k n : NoDup (omembers ks k n).
Proof. apply NoDup_filter, seq_NoDup. Qed.

(* keys in order of first appearance among positions < i *)
Fixpoint okeys (ks : list (option nat)) (seen : list nat) : list nat :=
  match ks with
  | [] => seen
  | None :: r => okeys r seen
  | Some k :: r => if memb k seen then okeys r seen else okeys r (seen ++ [k])
  end.

Definition OInv (ks : list (option nat)) (i : nat) (g : list (nat * list nat)) : Prop :=
  NoDup (map fst g) /\
  (forall k qs, In (k, qs) g -> qs = omembers ks k i /\ qs <> []) /\
  (forall j k, j < i -> nth j ks None = Some k -> In k (map fst g)).

Lemma memb_In x l : memb x l = true <-> In x l.
Proof.
  unfold memb. rewrite existsb_exists. split.
  - intros [y [Hy E]]. apply Nat.eqb_eq in E. now subst.
  - intros H. exists x. split; auto. apply Nat.eqb_refl.
Qed.

Lemma memb_false x l : memb x l = false <-> ~ In x l.
Proof. rewrite <- memb_In. destruct (memb x l); intuition congruence. Qed.

Lemma OInv_step_some ks i g k :
  nth i ks None = Some k -> OInv ks i g -> OInv ks (S i) (add_to_group k i g).
Proof.
  intros Ek [ND [CH CV]]. split; [|split].
  - rewrite add_to_group_fst. destruct (in_dec Nat.eq_dec k (map fst g)); auto. now apply NoDup_snoc.
  - intros k0 qs0 H. apply add_to_group_in in H; auto. rewrite omembers_S, Ek.
    destruct H as [[N I]|[-> [[qs [I ->]]|[NI ->]]]].
    + destruct (CH _ _ I) as [-> NE].
      destruct (okey_beq (Some k) (Some k0)) eqn:E; [apply okey_beq_eq in E; congruence|].
      rewrite app_nil_r; auto.
    + destruct (CH _ _ I) as [-> NE].
      assert (E : okey_beq (Some k) (Some k) = true) by now apply okey_beq_eq.
      rewrite E. split; auto. intros X; apply app_eq_nil in X as [_ X]; discriminate.
    + assert (E : okey_beq (Some k) (Some k) = true) by now apply okey_beq_eq.
      rewrite E. split; [|discriminate].
      assert (E0 : omembers ks k i = []).
      { unfold omembers. apply filter_nil. intros j Hj. apply in_seq in Hj.
        destruct (okey_beq (nth j ks None) (Some k)) eqn:E1; [|reflexivity].
        apply okey_beq_eq in E1. exfalso. apply NI. apply (CV j); [lia|assumption]. }
      now rewrite E0.
  - intros j k0 Hj Ej. rewrite add_to_group_fst.
    destruct (in_dec Nat.eq_dec k (map fst g)) as [I|NI].
    + destruct (Nat.eq_dec j i) as [->|N]; [rewrite Ek in Ej; inversion Ej; subst; exact I| apply (CV j); [lia|assumption]].
    + apply in_or_app. destruct (Nat.eq_dec j i) as [->|N].
      * rewrite Ek in Ej; inversion Ej; subst. right; now left.
      * left; apply (CV j); [lia|assumption].
Qed.

Lemma OInv_step_none ks i g :
  nth i ks None = None -> OInv ks i g -> OInv ks (S i) g.
Proof.
  intros Ek [ND [CH CV]]. split; [exact ND|split].
  - intros k qs H. destruct (CH _ _ H) as [-> NE]. split; auto.
    rewrite omembers_S, Ek. simpl. now rewrite app_nil_r.
  - intros j k Hj Ej. destruct (Nat.eq_dec j i) as [->|N]; [congruence|]. apply (CV j); [lia|assumption].
Qed.

Lemma OInv_ogroups ks : forall r pre g,
  OInv ks (length pre) g -> ks = pre ++ r -> OInv ks (length ks) (ogroups r (length pre) g).
Proof.
  induction r as [|k r IH]; intros pre g H E; simpl.
  - subst ks. rewrite app_nil_r in *. exact H.
  - assert (El : nth (length pre) ks None = k).
    { subst ks. rewrite app_nth2 by lia. now rewrite Nat.sub_diag. }
    assert (E' : ks = (pre ++ [k]) ++ r) by (now rewrite <- app_assoc).
    assert (L : length (pre ++ [k]) = S (length pre)) by (rewrite app_length; simpl; lia).
    destruct k as [k|].
    + specialize (IH (pre ++ [Some k]) (add_to_group k (length pre) g)).
      rewrite L in IH. apply IH; auto. now apply OInv_step_some.
    + specialize (IH (pre ++ [None]) g). rewrite L in IH. apply IH; auto. now apply OInv_step_none.
Qed.

Lemma OInv_init ks : OInv ks 0 [].
Proof. split; [constructor|split]; [intros ? ? []|intros; lia]. Qed.

Theorem ogroups_spec ks : OInv ks (length ks) (ogroups ks 0 []).
Proof. apply (OInv_ogroups ks ks [] []); [apply OInv_init|reflexivity]. Qed.

(* order of the keys: first appearance *)
Lemma ogroups_keys : forall ks i g,
  map fst (ogroups ks i g) = okeys ks (map fst g).
Proof.
  induction ks as [|[k|] r IH]; intros i g; simpl; auto.
  rewrite IH, add_to_group_fst.
  destruct (in_dec Nat.eq_dec k (map fst g)) as [I|NI].
  - apply memb_In in I. now rewrite I.
  - apply memb_false in NI. now rewrite NI.
Qed.

Lemma lookup_In k qs g : NoDup (map fst g) -> In (k, qs) g -> lookup k g = qs.
Proof.
  unfold lookup. induction g as [|[k' qs'] r IH]; simpl; intros ND H; [tauto|].
  inversion ND as [|? ? Hn ND']; subst.
  destruct H as [H|H].
  - inversion H; subst. now rewrite Nat.eqb_refl.
  - destruct (Nat.eqb_spec k' k) as [->|N].
    + exfalso. apply Hn. change k with (fst (k, qs)). now apply in_map.
    + apply IH; auto.
Qed.

Lemma lookup_notin k g : ~ In k (map fst g) -> lookup k g = [].
Proof.
  unfold lookup. induction g as [|[k' qs'] r IH]; simpl; intros H; [reflexivity|].
  destruct (Nat.eqb_spec k' k) as [->|N]; [tauto|]. apply IH; tauto.
Qed.

Lemma OInv_lookup ks i g k : OInv ks i g -> lookup k g = omembers ks k i.
Proof.
  intros [ND [CH CV]].
  destruct (in_dec Nat.eq_dec k (map fst g)) as [I|NI].
  - apply in_map_iff in I as [[k' qs] [E I]]. simpl in E; subst k'.
    rewrite (lookup_In _ _ _ ND I). now destruct (CH _ _ I).
  - rewrite lookup_notin by assumption. symmetry. unfold omembers. apply filter_nil.
    intros j Hj. apply in_seq in Hj.
    destruct (okey_beq (nth j ks None) (Some k)) eqn:E; [|reflexivity].
    apply okey_beq_eq in E. exfalso; apply NI. apply (CV j); [lia|assumption].
Qed.

(* ================= _qubit_map_from_partition_labels ================= *)
Definition qm_entry (labels : list label) (q : nat) : option (nat * nat) :=
  match nth q labels None with
  | None => None
  | Some l => Some (l, length (omembers labels l q))
  end.

Lemma qmap_from_spec labels : forall r pre g acc,
  labels = pre ++ r ->
  OInv labels (length pre) g ->
  acc = map (qm_entry labels) (seq 0 (length pre)) ->
  qmap_from r (length pre) g acc =
    (map (qm_entry labels) (seq 0 (length labels)), ogroups r (length pre) g).
Proof.
  induction r as [|k r IH]; intros pre g acc EL H E; simpl.
  - rewrite app_nil_r in EL. subst pre. now subst acc.
  - assert (El : nth (length pre) labels None = k).
    { rewrite EL. rewrite app_nth2 by lia. now rewrite Nat.sub_diag. }
    assert (E' : labels = (pre ++ [k]) ++ r) by (rewrite EL, <- app_assoc; reflexivity).
    assert (L : length (pre ++ [k]) = S (length pre)) by (rewrite app_length; simpl; lia).
    destruct k as [k|].
    + specialize (IH (pre ++ [Some k]) (add_to_group k (length pre) g)
                     (acc ++ [Some (k, length (lookup k g))])).
      rewrite L in IH. apply IH; auto.
      * now apply OInv_step_some.
      * rewrite seq_S, map_app. cbn [map Nat.add]. subst acc.
        replace (qm_entry labels (length pre)) with (Some (k, length (lookup k g))); [reflexivity|].
        unfold qm_entry. rewrite El. now rewrite (OInv_lookup _ _ _ _ H).
    + specialize (IH (pre ++ [None]) g (acc ++ [None])).
      rewrite L in IH. apply IH; auto.
      * now apply OInv_step_none.
      * rewrite seq_S, map_app. cbn [map Nat.add]. subst acc.
        replace (qm_entry labels (length pre)) with (@None (nat * nat)); [reflexivity|].
        unfold qm_entry. now rewrite El.
Qed.

Theorem qubit_map_spec labels :
  qubit_map_from_labels labels =
    (map (qm_entry labels) (seq 0 (length labels)), ogroups labels 0 []).
Proof. apply (qmap_from_spec labels labels [] [] []); [reflexivity|apply OInv_init|reflexivity]. Qed.

(* ================= Part C: unique_by_eq, _separate_instructions_by_partition ================= *)
Definition somes (ks : list (option nat)) : list nat :=
  flat_map (fun k => match k with Some x => [x] | None => [] end) ks.

Lemma okeys_uniq ks : forall seen, okeys ks seen = uniq_acc (somes ks) seen.
Proof. induction ks as [|[k|] r IH]; intros seen; simpl; auto. destruct (memb k seen); apply IH. Qed.

Lemma uniq_acc_length L : forall acc, length acc <= length (uniq_acc L acc).
Proof.
  induction L as [|x r IH]; intros acc; simpl; [lia|].
  destruct (memb x acc); [apply IH|]. specialize (IH (acc ++ [x])). rewrite app_length in IH. simpl in IH. lia.
Qed.

Lemma uniq_acc_single L x l : uniq_acc L [x] = [l] -> x = l /\ forall y, In y L -> y = l.
Proof.
  induction L as [|y r IH]; simpl; intros H.
  - inversion H; subst. split; auto. intros ? [].
  - destruct (Nat.eqb_spec y x) as [->|N]; simpl in H.
    + destruct (IH H) as [-> A]. split; auto. intros z [<-|Hz]; auto.
    + exfalso. pose proof (uniq_acc_length r ([x] ++ [y])) as LL. simpl in LL. rewrite H in LL. simpl in LL. lia.
Qed.

Lemma uniq_single L l : uniq_acc L [] = [l] -> L <> [] /\ forall y, In y L -> y = l.
Proof.
  destruct L as [|x r]; simpl; [discriminate|]. intros H. apply uniq_acc_single in H as [-> A].
  split; [discriminate|]. intros y [<-|Hy]; auto.
Qed.

Lemma uniq_acc_same L l : (forall y, In y L -> y = l) -> uniq_acc L [l] = [l].
Proof.
  induction L as [|x r IH]; simpl; intros H; [reflexivity|].
  rewrite (H x) by now left. rewrite Nat.eqb_refl. simpl. apply IH. intros; apply H; now right.
Qed.

Lemma uniq_nil L : uniq_acc L [] = [] -> L = [].
Proof.
  destruct L as [|x r]; simpl; auto. intros H.
  pose proof (uniq_acc_length r [x]) as LL. rewrite H in LL. simpl in LL. lia.
Qed.

Lemma uniq_acc_In L : forall acc x, In x (uniq_acc L acc) <-> In x acc \/ In x L.
Proof.
  induction L as [|y r IH]; intros acc x; simpl; [tauto|].
  destruct (memb y acc) eqn:E.
  - rewrite IH. apply memb_In in E. intuition (subst; auto).
  - rewrite IH, in_app_iff. simpl. intuition.
Qed.

Lemma uniq_acc_NoDup L : forall acc, NoDup acc -> NoDup (uniq_acc L acc).
Proof.
  induction L as [|y r IH]; intros acc H; simpl; auto.
  destruct (memb y acc) eqn:E; [now apply IH|]. apply IH. apply NoDup_snoc; auto. now apply memb_false.
Qed.

(* labels seen through the qubit map *)
Definition qmap_of (labels : list label) : qmap := map (qm_entry labels) (seq 0 (length labels)).

Lemma qm_label_spec labels q : qm_label (qmap_of labels) q = nth q labels None.
Proof.
  unfold qm_label, qmap_of.
  destruct (Nat.lt_ge_cases q (length labels)) as [Hq|Hq].
  - rewrite (map_nth_lt _ _ _ None 0) by (rewrite seq_length; exact Hq).
    rewrite seq_nth by exact Hq. simpl. unfold qm_entry. destruct (nth q labels None); reflexivity.
  - rewrite nth_overflow by (rewrite map_length, seq_length; exact Hq).
    rewrite nth_overflow by exact Hq. reflexivity.
Qed.

Definition labs (labels : list label) (qs : list nat) : list (option nat) := map (fun q => nth q labels None) qs.

Lemma spanned_spec labels qs : forall acc,
  spanned (qmap_of labels) qs acc =
    if existsb (fun q => match nth q labels None with None => true | Some _ => false end) qs
    then Refused else Ok (uniq_acc (somes (labs labels qs)) acc).
Proof.
  induction qs as [|q r IH]; intros acc; simpl; [reflexivity|].
  rewrite qm_label_spec. destruct (nth q labels None) as [l|]; simpl; [|reflexivity].
  rewrite IH. destruct (existsb _ r); [reflexivity|]. destruct (memb l acc); reflexivity.
Qed.

(* the label of an instruction all of whose qubits carry one non-None label *)
Definition inst_label (labels : list label) (i : instr) : option nat :=
  match spanned (qmap_of labels) (iqs i) [] with
  | Ok [l] => Some l
  | _ => None
  end.

Definition one_label (labels : list label) (i : instr) (l : nat) : Prop :=
  iqs i <> [] /\ forall q, In q (iqs i) -> nth q labels None = Some l.

Lemma somes_labs_all labels qs l :
  (forall q, In q qs -> nth q labels None = Some l) -> forall y, In y (somes (labs labels qs)) -> y = l.
Proof.
  intros H y Hy. unfold somes, labs in Hy. apply in_flat_map in Hy as [k [Hk Hy]].
  apply in_map_iff in Hk as [q [<- Hq]]. rewrite (H q Hq) in Hy. destruct Hy as [<-|[]]; reflexivity.
Qed.

Lemma inst_label_iff labels i l : inst_label labels i = Some l <-> one_label labels i l.
Proof.
  unfold inst_label, one_label. rewrite spanned_spec.
  destruct (existsb _ (iqs i)) eqn:EX.
  - split; [discriminate|]. intros [NE A]. exfalso.
    apply existsb_exists in EX as [q [Hq E]]. rewrite (A q Hq) in E. discriminate.
  - assert (NN : forall q, In q (iqs i) -> exists k, nth q labels None = Some k).
    { intros q Hq. destruct (nth q labels None) as [k|] eqn:E; [eauto|]. exfalso.
      assert (X : existsb (fun q => match nth q labels None with None => true | Some _ => false end) (iqs i) = true).
      { apply existsb_exists. exists q. split; auto. now rewrite E. }
      congruence. }
    split.
    + intros H.
      destruct (uniq_acc (somes (labs labels (iqs i))) []) as [|x [|y t]] eqn:EU; try discriminate.
      inversion H; subst x. apply uniq_single in EU as [NE A]. split.
      * intros E. rewrite E in NE. now apply NE.
      * intros q Hq. destruct (NN q Hq) as [k Ek]. rewrite Ek. f_equal. apply A.
        unfold somes, labs. apply in_flat_map. exists (Some k). split; [|now left].
        apply in_map_iff. exists q. auto.
    + intros [NE A]. destruct (iqs i) as [|q r] eqn:Eq; [congruence|].
      unfold labs, somes. simpl. rewrite (A q) by now left. simpl.
      rewrite uniq_acc_same; [reflexivity|].
      apply (somes_labs_all labels r l). intros q' Hq'. apply A. now right.
Qed.

(* sep_loop never crashes on circuits whose instructions all have a qubit *)
Definition no_empty_instr (c : circ) : Prop := forall i, In i c -> iqs i <> [].

Lemma spanned_nonempty labels i :
  iqs i <> [] -> spanned (qmap_of labels) (iqs i) [] <> Ok [] /\ spanned (qmap_of labels) (iqs i) [] <> Crashed.
Proof.
  intros NE. rewrite spanned_spec. destruct (existsb _ (iqs i)) eqn:EX; [split; discriminate|].
  split; [|discriminate]. intros H. inversion H as [H1]. apply uniq_nil in H1.
  destruct (iqs i) as [|q r] eqn:Eq; [congruence|].
  simpl in EX. apply orb_false_iff in EX as [E1 _].
  unfold labs, somes in H1. simpl in H1. destruct (nth q labels None); [discriminate|discriminate].
Qed.

(* indices (from i) of the instructions of c destined for label l *)
Fixpoint sel (labels : list label) (l : nat) (c : circ) (i : nat) : list nat :=
  match c with
  | [] => []
  | inst :: r => (if okey_beq (inst_label labels inst) (Some l) then [i] else []) ++ sel labels l r (S i)
  end.

Lemma append_id_spec l i ids :
  append_id l i ids = map (fun p => (fst p, snd p ++ (if Nat.eqb (fst p) l then [i] else []))) ids.
Proof.
  unfold append_id. apply map_ext. intros [k xs]; simpl. destruct (Nat.eqb k l); [reflexivity|].
  now rewrite app_nil_r.
Qed.

Lemma sep_loop_ok labels : forall c i ids ids',
  sep_loop (qmap_of labels) c i ids = Ok ids' ->
  (forall inst, In inst c -> exists l, inst_label labels inst = Some l) /\
  ids' = map (fun p => (fst p, snd p ++ sel labels (fst p) c i)) ids.
Proof.
  induction c as [|inst r IH]; intros i ids ids' H; simpl in *.
  - inversion H; subst. split; [intros ? []|].
    rewrite <- (map_id ids') at 1. apply map_ext. intros [k xs]; simpl. now rewrite app_nil_r.
  - destruct (spanned (qmap_of labels) (iqs inst) []) as [[|l [|l' t]]| |] eqn:ES; try discriminate.
    apply IH in H as [A B]. split.
    + intros x [<-|Hx]; [|auto]. exists l. unfold inst_label. now rewrite ES.
    + subst ids'. rewrite append_id_spec, map_map. apply map_ext. intros [k xs]; simpl.
      unfold inst_label at 1. rewrite ES. rewrite <- app_assoc. f_equal. f_equal.
      destruct (Nat.eqb_spec k l) as [->|N].
      * assert (E : okey_beq (Some l) (Some l) = true) by now apply okey_beq_eq. now rewrite E.
      * destruct (okey_beq (Some l) (Some k)) eqn:E; [|reflexivity].
        apply okey_beq_eq in E. congruence.
Qed.

Lemma sep_loop_not_crashed labels : forall c i ids,
  no_empty_instr c -> sep_loop (qmap_of labels) c i ids <> Crashed.
Proof.
  induction c as [|inst r IH]; intros i ids NE; simpl; [discriminate|].
  destruct (spanned_nonempty labels inst) as [N1 N2]; [apply NE; now left|].
  destruct (spanned (qmap_of labels) (iqs inst) []) as [[|l [|l' t]]| |]; try discriminate; try congruence.
  apply IH. intros x Hx. apply NE. now right.
Qed.

Lemma sep_loop_total labels : forall c i ids,
  (forall inst, In inst c -> exists l, inst_label labels inst = Some l) ->
  exists ids', sep_loop (qmap_of labels) c i ids = Ok ids'.
Proof.
  induction c as [|inst r IH]; intros i ids H; simpl; [eauto|].
  destruct (H inst) as [l El]; [now left|]. unfold inst_label in El.
  destruct (spanned (qmap_of labels) (iqs inst) []) as [[|l0 [|l' t]]| |]; try discriminate.
  apply IH. intros x Hx. apply H. now right.
Qed.

(* selecting by index = filtering *)
Lemma sel_filter labels l d : forall c pre,
  map (fun j => nth j (pre ++ c) d) (sel labels l c (length pre)) =
  filter (fun inst => okey_beq (inst_label labels inst) (Some l)) c.
Proof.
  induction c as [|inst r IH]; intros pre; simpl; [reflexivity|].
  rewrite map_app.
  replace (pre ++ inst :: r) with ((pre ++ [inst]) ++ r) by (rewrite <- app_assoc; reflexivity).
  replace (S (length pre)) with (length (pre ++ [inst])) by (rewrite app_length; simpl; lia).
  rewrite IH.
  destruct (okey_beq (inst_label labels inst) (Some l)); simpl; [|reflexivity].
  f_equal. rewrite <- app_assoc. simpl. rewrite app_nth2 by lia. now rewrite Nat.sub_diag.
Qed.

Lemma qm_labels_spec labels : qm_labels (qmap_of labels) = somes labels.
Proof.
  unfold qm_labels, qmap_of, somes. rewrite flat_map_concat_map, map_map, <- flat_map_concat_map.
  transitivity (flat_map (fun k : option nat => match k with Some x => [x] | None => [] end)
                  (map (fun q => nth q labels None) (seq 0 (length labels)))).
  - rewrite (flat_map_concat_map _ (map _ _)), map_map, <- flat_map_concat_map.
    apply flat_map_ext. intros q. unfold qm_entry. destruct (nth q labels None); reflexivity.
  - f_equal. clear. induction labels as [|x r IH]; simpl; [reflexivity|].
    f_equal. rewrite <- seq_shift, map_map. exact IH.
Qed.

Theorem separate_instructions_ok labels sc ids :
  separate_instructions sc (qmap_of labels) = Ok ids ->
  (forall inst, In inst sc -> exists l, inst_label labels inst = Some l) /\
  ids = map (fun l => (l, sel labels l sc 0)) (unique_by_eq (somes labels)).
Proof.
  unfold separate_instructions. intros H. apply sep_loop_ok in H as [A B]. split; auto.
  subst ids. rewrite qm_labels_spec, map_map. reflexivity.
Qed.

(* ================= Part D: re-indexing (find_all) and its inverse ================= *)
Definition unmap_instr (qs cl : list nat) (i : instr) : instr :=
  mkI (iop i) (map (fun x => nth x qs 0) (iqs i)) (map (fun x => nth x cl 0) (ics i)).

Lemma find_all_unmap xs m ps : find_all xs m = Some ps -> map (fun x => nth x m 0) ps = xs.
Proof.
  revert ps; induction xs as [|x r IH]; simpl; intros ps H.
  - inversion H; reflexivity.
  - destruct (index_of x m) as [i|] eqn:E; [|discriminate].
    destruct (find_all r m) as [ps'|]; [|discriminate]. inversion H; subst. simpl.
    apply index_of_Some in E as [_ E]. rewrite E. f_equal. now apply IH.
Qed.

Lemma find_all_length xs m ps : find_all xs m = Some ps -> length ps = length xs.
Proof. intros H. now destruct (find_all_Some _ _ _ H). Qed.

Lemma remap_unmap qs cl i i' : remap_instr qs cl i = Some i' -> unmap_instr qs cl i' = i.
Proof.
  unfold remap_instr. destruct (find_all (iqs i) qs) as [a|] eqn:Ea; [|discriminate].
  destruct (find_all (ics i) cl) as [b|] eqn:Eb; [|discriminate]. intros H; inversion H; subst.
  unfold unmap_instr; simpl. rewrite (find_all_unmap _ _ _ Ea), (find_all_unmap _ _ _ Eb).
  destruct i; reflexivity.
Qed.

Lemma remap_instr_op qs cl i i' : remap_instr qs cl i = Some i' ->
  iop i' = iop i /\ length (iqs i') = length (iqs i).
Proof.
  unfold remap_instr. destruct (find_all (iqs i) qs) as [a|] eqn:Ea; [|discriminate].
  destruct (find_all (ics i) cl) as [b|] eqn:Eb; [|discriminate]. intros H; inversion H; subst. simpl.
  split; [reflexivity|]. now apply find_all_length in Ea.
Qed.

Lemma remap_all_unmap qs cl : forall c c', remap_all qs cl c = Some c' -> map (unmap_instr qs cl) c' = c.
Proof.
  induction c as [|i r IH]; simpl; intros c' H; [inversion H; reflexivity|].
  destruct (remap_instr qs cl i) as [i'|] eqn:E; [|discriminate].
  destruct (remap_all qs cl r) as [r'|]; [|discriminate]. inversion H; subst. simpl.
  rewrite (remap_unmap _ _ _ _ E). f_equal. now apply IH.
Qed.

Lemma remap_all_app qs cl : forall a b c',
  remap_all qs cl (a ++ b) = Some c' ->
  exists a' b', remap_all qs cl a = Some a' /\ remap_all qs cl b = Some b' /\ c' = a' ++ b'.
Proof.
  induction a as [|i r IH]; simpl; intros b c' H; [exists [], c'; auto|].
  destruct (remap_instr qs cl i) as [i'|]; [|discriminate].
  destruct (remap_all qs cl (r ++ b)) as [t|] eqn:E; [|discriminate]. inversion H; subst.
  destruct (IH _ _ E) as [a' [b' [Ha [Hb ->]]]]. rewrite Ha. exists (i' :: a'), b'. auto.
Qed.

Lemma remap_all_app_inv qs cl a b a' b' :
  remap_all qs cl a = Some a' -> remap_all qs cl b = Some b' -> remap_all qs cl (a ++ b) = Some (a' ++ b').
Proof.
  revert a'; induction a as [|i r IH]; simpl; intros a' Ha Hb; [inversion Ha; subst; exact Hb|].
  destruct (remap_instr qs cl i) as [i'|]; [|discriminate].
  destruct (remap_all qs cl r) as [t|]; [|discriminate]. inversion Ha; subst.
  rewrite (IH t eq_refl Hb). reflexivity.
Qed.

Lemma remap_all_length qs cl : forall c c', remap_all qs cl c = Some c' -> length c' = length c.
Proof. intros c c' H. apply remap_all_unmap in H. rewrite <- H. now rewrite map_length. Qed.

(* ================= Part E: _combine_barriers ================= *)
Lemma uuid_groups_ogroups c : forall i g, uuid_groups c i g = ogroups (map uuid_of c) i g.
Proof. induction c as [|x r IH]; intros i g; simpl; auto. destruct (uuid_of x); apply IH. Qed.

Lemma NoDup_app_r {A} (a b : list A) : NoDup (a ++ b) -> NoDup b.
Proof. induction a as [|x a IH]; simpl; auto. intros H. inversion H; auto. Qed.

Lemma NoDup_app_l {A} (a b : list A) : NoDup (a ++ b) -> NoDup a.
Proof.
  induction a as [|x a IH]; simpl; intros H; [constructor|]. inversion H as [|? ? Hn ND]; subst.
  constructor; [|auto]. intros X. apply Hn. apply in_or_app. now left.
Qed.

Lemma NoDup_app_disj {A} (a b : list A) x : NoDup (a ++ b) -> In x a -> In x b -> False.
Proof.
  induction a as [|y a IH]; simpl; intros ND H1 H2; [destruct H1|].
  inversion ND as [|? ? Hn ND']; subst. destruct H1 as [->|H1].
  - apply Hn. apply in_or_app. now right.
  - now apply IH.
Qed.

Definition joined (c0 : circ) (ps : list nat) : instr := mkI (Barrier None) (map (first_qubit c0) ps) [].

Lemma replace_groups_spec c0 : forall G c cl,
  (forall g j, In g G -> In j (snd g) -> nth j c dummy_instr = nth j c0 dummy_instr) ->
  NoDup (concat (map snd G)) ->
  (forall g, In g G -> snd g <> []) ->
  replace_groups c G cl =
    (fold_left (fun c g => upd c (hd 0 (snd g)) (joined c0 (snd g))) G c,
     cl ++ concat (map (fun g => tl (snd g)) G)).
Proof.
  induction G as [|g r IH]; intros c cl Hc ND NE; simpl.
  - now rewrite app_nil_r.
  - assert (Em : map (first_qubit c) (snd g) = map (first_qubit c0) (snd g)).
    { apply map_ext_in. intros j Hj. unfold first_qubit. rewrite (Hc g j (or_introl eq_refl) Hj). reflexivity. }
    rewrite Em. fold (joined c0 (snd g)).
    simpl in ND. pose proof (NoDup_app_r _ _ ND) as ND'.
    rewrite IH; auto.
    + now rewrite <- app_assoc.
    + intros g' j Hg' Hj. rewrite nth_upd_other; [apply (Hc g' j); [now right|assumption]|].
      intros E. subst j.
      assert (Hh : In (hd 0 (snd g)) (snd g)).
      { specialize (NE g (or_introl eq_refl)). destruct (snd g); [congruence|now left]. }
      apply (NoDup_app_disj _ _ _ ND Hh).
      apply in_concat. exists (snd g'). split; [now apply in_map|assumption].
    + intros g' Hg'. apply NE. now right.
Qed.

Section FoldUpd.
  Context {G : Type} (H : G -> nat) (J : G -> instr).
  Let step := fun (c : circ) (g : G) => upd c (H g) (J g).

  Lemma fold_upd_length gs : forall c, length (fold_left step gs c) = length c.
  Proof. induction gs as [|g r IH]; intros c; simpl; auto. rewrite IH. apply upd_length. Qed.

  Lemma fold_upd_other gs d : forall c j, ~ In j (map H gs) -> nth j (fold_left step gs c) d = nth j c d.
  Proof.
    induction gs as [|g r IH]; intros c j Hn; simpl; auto.
    rewrite IH by (intros X; apply Hn; now right).
    apply nth_upd_other. intros E. apply Hn. now left.
  Qed.

  Lemma fold_upd_hit gs d : forall c g, NoDup (map H gs) -> In g gs -> H g < length c ->
    nth (H g) (fold_left step gs c) d = J g.
  Proof.
    induction gs as [|g0 r IH]; intros c g ND Hg Hl; simpl; [destruct Hg|].
    simpl in ND. inversion ND as [|? ? Hn ND']; subst.
    destruct Hg as [->|Hg].
    - rewrite fold_upd_other by assumption. unfold step. now apply nth_upd_same.
    - apply IH; auto. unfold step. now rewrite upd_length.
  Qed.
End FoldUpd.

(* deleting positions: [keep_pos D c i] drops the elements whose absolute position (starting at i) is in D *)
Fixpoint keep_pos (D : list nat) (c : circ) (i : nat) : circ :=
  match c with
  | [] => []
  | x :: r => (if memb i D then [] else [x]) ++ keep_pos D r (S i)
  end.

Lemma keep_pos_ext D D' : (forall x, In x D <-> In x D') -> forall c i, keep_pos D c i = keep_pos D' c i.
Proof.
  intros E c. induction c as [|x r IH]; intros i; simpl; [reflexivity|]. rewrite IH.
  destruct (memb i D) eqn:A, (memb i D') eqn:B; auto.
  - apply memb_In in A. apply E in A. apply memb_In in A. congruence.
  - apply memb_In in B. apply E in B. apply memb_In in B. congruence.
Qed.

Lemma keep_pos_shift D : forall c i, keep_pos (map S D) c (S i) = keep_pos D c i.
Proof.
  induction c as [|x r IH]; intros i; simpl; [reflexivity|]. rewrite IH.
  assert (E : memb (S i) (map S D) = memb i D).
  { destruct (memb i D) eqn:A.
    - apply memb_In. apply in_map. now apply memb_In.
    - apply memb_false. intros X. apply in_map_iff in X as [y [Ey Hy]]. inversion Ey; subst.
      apply memb_false in A. auto. }
  now rewrite E.
Qed.

Lemma keep_pos_below D : forall c i, (forall x, In x D -> x < i) -> keep_pos D c i = c.
Proof.
  induction c as [|x r IH]; intros i Hb; simpl; [reflexivity|].
  assert (E : memb i D = false) by (apply memb_false; intros X; apply Hb in X; lia).
  rewrite E. simpl. f_equal. apply IH. intros y Hy. apply Hb in Hy. lia.
Qed.

Lemma keep_pos_drop_small p D : forall c i, p < i -> keep_pos (p :: D) c i = keep_pos D c i.
Proof.
  induction c as [|x r IH]; intros i Hp; simpl; [reflexivity|].
  rewrite IH by lia. destruct (Nat.eqb_spec i p); [lia|]. reflexivity.
Qed.

Lemma map_S_pred D : (forall x, In x D -> 0 < x) -> map S (map pred D) = D.
Proof.
  intros H. rewrite map_map. rewrite <- (map_id D) at 2. apply map_ext_in. intros x Hx. apply H in Hx. lia.
Qed.

Lemma keep_pos_delete : forall p c D',
  (forall x, In x D' -> p < x) ->
  keep_pos (p :: D') c 0 = keep_pos (map pred D') (delete_at c p) 0.
Proof.
  induction p as [|p IH]; intros c D' Hgt.
  - destruct c as [|x t]; [reflexivity|]. simpl.
    rewrite keep_pos_drop_small by lia.
    rewrite <- (map_S_pred D') at 1 by exact Hgt. apply keep_pos_shift.
  - destruct c as [|x t]; [reflexivity|]. simpl delete_at. simpl keep_pos.
    assert (E1 : memb 0 D' = false).
    { apply memb_false. intros X. apply Hgt in X. lia. }
    assert (E2 : memb 0 (map pred D') = false).
    { apply memb_false. intros X. apply in_map_iff in X as [y [Ey Hy]]. apply Hgt in Hy. lia. }
    rewrite E1, E2. simpl. f_equal.
    assert (P1 : forall x, In x D' -> 0 < x) by (intros y Hy; apply Hgt in Hy; lia).
    assert (P2 : forall x, In x (map pred D') -> p < x).
    { intros y Hy. apply in_map_iff in Hy as [z [<- Hz]]. apply Hgt in Hz. lia. }
    replace (S p :: D') with (map S (p :: map pred D')) by (simpl; now rewrite map_S_pred).
    rewrite keep_pos_shift. rewrite IH by exact P2.
    rewrite <- (map_S_pred (map pred D')) at 2 by (intros y Hy; apply P2 in Hy; lia).
    now rewrite keep_pos_shift.
Qed.

Lemma delete_shifted_spec : forall idxs c s,
  StronglySorted lt idxs -> (forall j, In j idxs -> s <= j) ->
  delete_shifted c idxs s = keep_pos (map (fun j => j - s) idxs) c 0.
Proof.
  induction idxs as [|j r IH]; intros c s SS Hs; simpl; [symmetry; apply keep_pos_below; intros ? []|].
  inversion SS as [|? ? SS' Hall]; subst. rewrite Forall_forall in Hall.
  rewrite IH; auto.
  - rewrite keep_pos_delete.
    + rewrite map_map. f_equal. apply map_ext_in. intros y Hy. apply Hall in Hy.
      pose proof (Hs j (or_introl eq_refl)). lia.
    + intros x Hx. apply in_map_iff in Hx as [y [<- Hy]]. apply Hall in Hy.
      pose proof (Hs j (or_introl eq_refl)). lia.
  - intros y Hy. apply Hall in Hy. pose proof (Hs j (or_introl eq_refl)). lia.
Qed.

(* insertion sort *)
Lemma insert_sorted_perm x l : Permutation (x :: l) (insert_sorted x l).
Proof.
  induction l as [|y r IH]; simpl; [apply Permutation_refl|].
  destruct (x <=? y); [apply Permutation_refl|].
  eapply Permutation_trans; [apply perm_swap|]. now apply perm_skip.
Qed.

Lemma sort_nat_perm l : Permutation l (sort_nat l).
Proof.
  induction l as [|x r IH]; simpl; [constructor|].
  eapply Permutation_trans; [apply perm_skip, IH|apply insert_sorted_perm].
Qed.

Lemma insert_sorted_sorted x l : StronglySorted le l -> StronglySorted le (insert_sorted x l).
Proof.
  induction l as [|y r IH]; intros SS; simpl; [constructor; [constructor|constructor]|].
  inversion SS as [|? ? SS' Hall]; subst.
  destruct (Nat.leb_spec x y) as [L|L].
  - constructor; [exact SS|]. constructor; [exact L|].
    rewrite Forall_forall in *. intros z Hz. apply Hall in Hz. lia.
  - constructor; [now apply IH|]. rewrite Forall_forall in *. intros z Hz.
    apply (Permutation_in _ (Permutation_sym (insert_sorted_perm x r))) in Hz.
    destruct Hz as [<-|Hz]; [lia|now apply Hall].
Qed.

Lemma sort_nat_sorted l : StronglySorted le (sort_nat l).
Proof. induction l as [|x r IH]; simpl; [constructor|now apply insert_sorted_sorted]. Qed.

Lemma sorted_le_NoDup_lt l : StronglySorted le l -> NoDup l -> StronglySorted lt l.
Proof.
  induction l as [|x r IH]; intros SS ND; [constructor|].
  inversion SS as [|? ? SS' Hall]; subst. inversion ND as [|? ? Hn ND']; subst.
  constructor; [now apply IH|]. rewrite Forall_forall in *. intros y Hy.
  pose proof (Hall y Hy). assert (x <> y) by (intros ->; contradiction). lia.
Qed.

Lemma keep_pos_flat D d : forall c pre,
  keep_pos D c (length pre) =
  flat_map (fun j => if memb j D then [] else [nth j (pre ++ c) d]) (seq (length pre) (length c)).
Proof.
  induction c as [|x r IH]; intros pre; simpl; [reflexivity|].
  replace (pre ++ x :: r) with ((pre ++ [x]) ++ r) by (rewrite <- app_assoc; reflexivity).
  replace (S (length pre)) with (length (pre ++ [x])) by (rewrite app_length; simpl; lia).
  rewrite IH. f_equal.
  destruct (memb (length pre) D); [reflexivity|].
  rewrite <- app_assoc. simpl. rewrite app_nth2 by lia. now rewrite Nat.sub_diag.
Qed.

(* ---- position-free specification of _combine_barriers ---- *)
Definition has_uuid (u : nat) (x : instr) : bool := okey_beq (uuid_of x) (Some u).
Definition fq (x : instr) : nat := hd 0 (iqs x).
Definition joined_u (whole : circ) (u : nat) : instr :=
  mkI (Barrier None) (map fq (filter (has_uuid u) whole)) [].

Fixpoint cspec (whole : circ) (seen : list nat) (c : circ) : circ :=
  match c with
  | [] => []
  | x :: r =>
      match uuid_of x with
      | None => x :: cspec whole seen r
      | Some u => if memb u seen then cspec whole seen r
                  else joined_u whole u :: cspec whole (u :: seen) r
      end
  end.

Definition hh (c0 : circ) (j : nat) : circ :=
  let x := nth j c0 dummy_instr in
  match uuid_of x with
  | None => [x]
  | Some u => if existsb (fun j' => has_uuid u (nth j' c0 dummy_instr)) (seq 0 j) then [] else [joined_u c0 u]
  end.

Lemma cspec_flat c0 : forall suffix pre seen,
  c0 = pre ++ suffix ->
  (forall u, memb u seen = true <-> exists j', j' < length pre /\ uuid_of (nth j' c0 dummy_instr) = Some u) ->
  cspec c0 seen suffix = flat_map (hh c0) (seq (length pre) (length suffix)).
Proof.
  induction suffix as [|x r IH]; intros pre seen E Hs; simpl; [reflexivity|].
  assert (Ex : nth (length pre) c0 dummy_instr = x).
  { subst c0. rewrite app_nth2 by lia. now rewrite Nat.sub_diag. }
  assert (E' : c0 = (pre ++ [x]) ++ r) by (subst c0; rewrite <- app_assoc; reflexivity).
  assert (L : length (pre ++ [x]) = S (length pre)) by (rewrite app_length; simpl; lia).
  unfold hh at 1. rewrite Ex.
  destruct (uuid_of x) as [u|] eqn:Eu.
  - assert (Em : existsb (fun j' => has_uuid u (nth j' c0 dummy_instr)) (seq 0 (length pre)) = memb u seen).
    { destruct (memb u seen) eqn:M.
      - apply Hs in M as [j' [Hj Ej]]. apply existsb_exists. exists j'. split; [apply in_seq; lia|].
        unfold has_uuid. rewrite Ej. now apply okey_beq_eq.
      - destruct (existsb _ _) eqn:X; [|reflexivity]. apply existsb_exists in X as [j' [Hj Ej]].
        apply in_seq in Hj. unfold has_uuid in Ej. apply okey_beq_eq in Ej.
        assert (M' : memb u seen = true) by (apply Hs; exists j'; split; [lia|assumption]). congruence. }
    rewrite Em. destruct (memb u seen) eqn:M.
    + simpl. rewrite <- L. apply IH; auto.
      intros v. rewrite Hs, L. split.
      * intros [j' [Hj Ej]]. exists j'. split; [lia|assumption].
      * intros [j' [Hj Ej]]. destruct (Nat.eq_dec j' (length pre)) as [->|N].
        -- rewrite Ex, Eu in Ej. inversion Ej; subst v. apply Hs. exact M.
        -- exists j'. split; [lia|assumption].
    + simpl. f_equal. rewrite <- L. apply IH; auto.
      intros v. rewrite L. simpl. split.
      * intros Hv. apply orb_true_iff in Hv as [Hv|Hv].
        -- apply Nat.eqb_eq in Hv. subst v. exists (length pre). split; [lia|]. now rewrite Ex.
        -- apply Hs in Hv as [j' [Hj Ej]]. exists j'. split; [lia|assumption].
      * intros [j' [Hj Ej]]. apply orb_true_iff. destruct (Nat.eq_dec j' (length pre)) as [->|N].
        -- left. rewrite Ex, Eu in Ej. inversion Ej. apply Nat.eqb_refl.
        -- right. apply Hs. exists j'. split; [lia|assumption].
  - simpl. f_equal. rewrite <- L. apply IH; auto.
    intros v. rewrite Hs, L. split.
    + intros [j' [Hj Ej]]. exists j'. split; [lia|assumption].
    + intros [j' [Hj Ej]]. destruct (Nat.eq_dec j' (length pre)) as [->|N].
      * rewrite Ex, Eu in Ej. discriminate.
      * exists j'. split; [lia|assumption].
Qed.

Lemma pos_filter {A} (P : A -> bool) d : forall c pre,
  map (fun j => nth j (pre ++ c) d) (filter (fun j => P (nth j (pre ++ c) d)) (seq (length pre) (length c)))
  = filter P c.
Proof.
  induction c as [|x r IH]; intros pre; simpl; [reflexivity|].
  assert (Ex : nth (length pre) (pre ++ x :: r) d = x) by (rewrite app_nth2 by lia; now rewrite Nat.sub_diag).
  rewrite Ex.
  replace (pre ++ x :: r) with ((pre ++ [x]) ++ r) in * by (rewrite <- app_assoc; reflexivity).
  replace (S (length pre)) with (length (pre ++ [x])) by (rewrite app_length; simpl; lia).
  destruct (P x); simpl; [rewrite Ex; f_equal|]; apply IH.
Qed.

Lemma NoDup_concat_groups (G : list (nat * list nat)) :
  NoDup (map fst G) ->
  (forall g, In g G -> NoDup (snd g)) ->
  (forall g g' j, In g G -> In g' G -> In j (snd g) -> In j (snd g') -> fst g = fst g') ->
  NoDup (concat (map snd G)).
Proof.
  induction G as [|g r IH]; intros NK NG DJ; simpl; [constructor|].
  inversion NK as [|? ? Hn NK']; subst.
  assert (NDr : NoDup (concat (map snd r))).
  { apply IH; auto.
    - intros g' Hg'. apply NG. now right.
    - intros a b j Ha Hb. apply DJ; now right. }
  assert (NDg : NoDup (snd g)) by (apply NG; now left).
  assert (DISJ : forall j, In j (snd g) -> ~ In j (concat (map snd r))).
  { intros j Hj X. apply in_concat in X as [l' [Hl' Hj']]. apply in_map_iff in Hl' as [g' [<- Hg']].
    apply Hn. rewrite (DJ g g' j); auto; [now apply in_map|now left|now right]. }
  clear IH. revert NDg DISJ. generalize (snd g) as l.
  intros l ND H. induction l as [|x l IH]; simpl; [exact NDr|].
  inversion ND as [|? ? Hx ND']; subst. constructor.
  - intros X. apply in_app_or in X as [X|X]; [contradiction|]. apply (H x); [now left|assumption].
  - apply IH; auto. intros j Hj. apply H. now right.
Qed.

Lemma sorted_hd_tl ps j : StronglySorted lt ps -> In j ps -> j = hd 0 ps \/ (In j (tl ps) /\ hd 0 ps < j).
Proof.
  intros SS Hj. destruct ps as [|h t]; [destruct Hj|]. simpl. destruct Hj as [<-|Hj]; [now left|].
  right. split; auto. inversion SS as [|? ? _ Hall]; subst. rewrite Forall_forall in Hall. now apply Hall.
Qed.

Lemma nth_map_uuid c j : j < length c -> nth j (map uuid_of c) None = uuid_of (nth j c dummy_instr).
Proof. intros H. now apply map_nth_lt. Qed.

Lemma keep_pos_flat0 D d c :
  keep_pos D c 0 = flat_map (fun j => if memb j D then [] else [nth j c d]) (seq 0 (length c)).
Proof. exact (keep_pos_flat D d c []). Qed.

Lemma cspec_flat0 c : cspec c [] c = flat_map (hh c) (seq 0 (length c)).
Proof.
  apply (cspec_flat c c [] []); [reflexivity|].
  intros u. simpl. split; [discriminate|]. intros [j' [Hj _]]. lia.
Qed.

Theorem combine_barriers_spec c : combine_barriers c = cspec c [] c.
Proof.
  unfold combine_barriers. rewrite uuid_groups_ogroups.
  set (ks := map uuid_of c). set (n := length c).
  assert (Ln : length ks = n) by (unfold ks, n; apply map_length).
  pose proof (ogroups_spec ks) as OI. rewrite Ln in OI. set (G := ogroups ks 0 []) in *.
  destruct OI as [NK [CH CV]].
  assert (Gmem : forall g, In g G -> snd g = omembers ks (fst g) n /\ snd g <> []).
  { intros [k ps] Hg. simpl. now apply CH. }
  assert (DJ : forall g g' j, In g G -> In g' G -> In j (snd g) -> In j (snd g') -> fst g = fst g').
  { intros g g' j Hg Hg' Hj Hj'. destruct (Gmem g Hg) as [E1 _]. destruct (Gmem g' Hg') as [E2 _].
    rewrite E1 in Hj. rewrite E2 in Hj'. apply omembers_in in Hj as [_ A]. apply omembers_in in Hj' as [_ B].
    congruence. }
  assert (NDall : NoDup (concat (map snd G))).
  { apply NoDup_concat_groups; auto. intros g Hg. destruct (Gmem g Hg) as [-> _]. apply omembers_NoDup. }
  rewrite (replace_groups_spec c G c []); auto; [|intros g Hg; now apply Gmem].
  simpl app. set (D := concat (map (fun g => tl (snd g)) G)).
  set (c' := fold_left (fun c0 g => upd c0 (hd 0 (snd g)) (joined c (snd g))) G c).
  assert (Lc' : length c' = n) by (unfold c'; now rewrite fold_upd_length).
  (* the cleanup list: distinct positions *)
  assert (Dsub : forall j, In j D -> exists g, In g G /\ In j (tl (snd g))).
  { intros j Hj. unfold D in Hj. apply in_concat in Hj as [l [Hl Hj]].
    apply in_map_iff in Hl as [g [<- Hg]]. eauto. }
  assert (tl_in : forall (l : list nat) x, In x (tl l) -> In x l) by (intros [|y l] x H; [destruct H|now right]).
  assert (NDD : NoDup D).
  { unfold D. replace (map (fun g => tl (snd g)) G) with (map snd (map (fun g => (fst g, tl (snd g))) G))
      by (rewrite map_map; reflexivity).
    apply NoDup_concat_groups.
    - rewrite map_map. simpl. exact NK.
    - intros g Hg. apply in_map_iff in Hg as [g0 [<- Hg0]]. simpl.
      destruct (Gmem g0 Hg0) as [E _]. pose proof (omembers_NoDup ks (fst g0) n) as ND. rewrite <- E in ND.
      destruct (snd g0); [constructor|now inversion ND].
    - intros g g' j Hg Hg' Hj Hj'. apply in_map_iff in Hg as [g0 [<- Hg0]]. apply in_map_iff in Hg' as [g1 [<- Hg1]].
      simpl in *. apply (DJ g0 g1 j); auto. }
  rewrite delete_shifted_spec.
  2:{ apply sorted_le_NoDup_lt; [apply sort_nat_sorted|].
      eapply Permutation_NoDup; [apply sort_nat_perm|exact NDD]. }
  2:{ intros; lia. }
  rewrite (keep_pos_ext _ D).
  2:{ intros x. rewrite in_map_iff. split.
      - intros [y [<- Hy]]. rewrite Nat.sub_0_r. eapply Permutation_in; [apply Permutation_sym, sort_nat_perm|exact Hy].
      - intros Hx. exists x. split; [lia|]. eapply Permutation_in; [apply sort_nat_perm|exact Hx]. }
  rewrite (keep_pos_flat0 D dummy_instr c'). rewrite Lc'.
  rewrite cspec_flat0. fold n.
  (* pointwise *)
  rewrite !flat_map_concat_map. f_equal. apply map_ext_in. intros j Hj. apply in_seq in Hj. simpl in Hj.
  assert (Hjn : j < n) by lia.
  assert (heads_in : forall g, In g G -> In (hd 0 (snd g)) (snd g)).
  { intros g Hg. destruct (Gmem g Hg) as [_ NE]. destruct (snd g); [congruence|now left]. }
  assert (NDH : NoDup (map (fun g : nat * list nat => hd 0 (snd g)) G)).
  { clear - NK DJ heads_in. induction G as [|g r IH]; simpl; [constructor|].
    inversion NK as [|? ? Hn NK']; subst. constructor.
    - intros X. apply in_map_iff in X as [g' [E Hg']]. apply Hn.
      rewrite (DJ g g' (hd 0 (snd g))); [now apply in_map|now left|now right|apply heads_in; now left|].
      rewrite <- E. apply heads_in. now right.
    - apply IH; auto.
      + intros a b j Ha Hb. apply DJ; now right.
      + intros a Ha. apply heads_in. now right. }
  unfold hh. destruct (uuid_of (nth j c dummy_instr)) as [u|] eqn:Eu.
  - (* a uuid barrier: its group *)
    assert (Ek : nth j ks None = Some u) by (unfold ks; rewrite nth_map_uuid by exact Hjn; exact Eu).
    pose proof (CV j u Hjn Ek) as Hu. apply in_map_iff in Hu as [[u' ps] [Eu' Hg]]. simpl in Eu'. subst u'.
    destruct (CH _ _ Hg) as [Eps NEps].
    assert (Hjps : In j ps) by (rewrite Eps; apply omembers_in; auto).
    assert (SS : StronglySorted lt ps) by (rewrite Eps; apply omembers_sorted).
    destruct (sorted_hd_tl ps j SS Hjps) as [Eh|[Ht Hlt]].
    + (* first of its group *)
      assert (ND : memb j D = false).
      { apply memb_false. intros X. apply Dsub in X as [g' [Hg' Hj']].
        assert (fst g' = u).
        { apply (DJ g' (u, ps) j); auto. } 
        destruct g' as [u2 ps2]. simpl in *. subst u2.
        destruct (CH _ _ Hg') as [E2 _]. rewrite <- Eps in E2. subst ps2.
        pose proof (omembers_NoDup ks u n) as NDp. rewrite <- Eps in NDp.
        destruct ps as [|h t]; [destruct Hjps|]. simpl in *. subst h. inversion NDp; contradiction. }
      rewrite ND.
      assert (EX : existsb (fun j' => has_uuid u (nth j' c dummy_instr)) (seq 0 j) = false).
      { destruct (existsb _ _) eqn:X; [|reflexivity]. exfalso.
        apply existsb_exists in X as [j' [Hj' Ej']]. apply in_seq in Hj'. unfold has_uuid in Ej'.
        apply okey_beq_eq in Ej'.
        assert (In j' ps).
        { rewrite Eps. apply omembers_in. split; [lia|]. unfold ks. rewrite nth_map_uuid by lia. exact Ej'. }
        destruct ps as [|h t]; [destruct Hjps|]. simpl in Eh. subst h.
        destruct H as [H|H]; [lia|]. inversion SS as [|? ? _ Hall]; subst. rewrite Forall_forall in Hall.
        apply Hall in H. lia. }
      rewrite EX. f_equal.
      replace j with ((fun g : nat * list nat => hd 0 (snd g)) (u, ps)) by (simpl; now rewrite Eh).
      unfold c'. rewrite (fold_upd_hit (fun g : nat * list nat => hd 0 (snd g)) (fun g => joined c (snd g)));
        auto; [|simpl; rewrite <- Eh; exact Hjn].
      simpl. unfold joined, joined_u. f_equal. rewrite Eps. unfold omembers.
      rewrite (filter_ext_in _ (fun j0 => has_uuid u (nth j0 c dummy_instr))).
      2:{ intros a Ha. apply in_seq in Ha. unfold has_uuid, ks. now rewrite nth_map_uuid by lia. }
      unfold first_qubit. rewrite <- (pos_filter (has_uuid u) dummy_instr c []).
      simpl. fold n. now rewrite map_map.
    + (* a later member: deleted *)
      assert (ND : memb j D = true).
      { apply memb_In. unfold D. apply in_concat. exists (tl ps). split; [|exact Ht].
        apply in_map_iff. exists (u, ps). auto. }
      rewrite ND.
      assert (EX : existsb (fun j' => has_uuid u (nth j' c dummy_instr)) (seq 0 j) = true).
      { apply existsb_exists. exists (hd 0 ps). split; [apply in_seq; lia|].
        assert (Hh : In (hd 0 ps) ps) by (destruct ps; [destruct Hjps|now left]).
        rewrite Eps in Hh. apply omembers_in in Hh as [Hh1 Hh2]. rewrite <- Eps in Hh2.
        unfold has_uuid. apply okey_beq_eq. unfold ks in Hh2. rewrite nth_map_uuid in Hh2; [exact Hh2|].
        rewrite <- Eps in Hh1. exact Hh1. }
      now rewrite EX.
  - (* not a uuid barrier: untouched *)
    assert (NG : forall g, In g G -> ~ In j (snd g)).
    { intros g Hg X. destruct (Gmem g Hg) as [E _]. rewrite E in X. apply omembers_in in X as [_ X].
      unfold ks in X. rewrite nth_map_uuid in X by exact Hjn. congruence. }
    assert (ND : memb j D = false).
    { apply memb_false. intros X. apply Dsub in X as [g [Hg Hj']]. apply (NG g Hg). now apply tl_in. }
    rewrite ND. f_equal. unfold c'. apply fold_upd_other.
    intros X. apply in_map_iff in X as [g [E Hg]]. apply (NG g Hg). rewrite <- E. now apply heads_in.
Qed.

(* ================= Part F: run-structured circuits; the subcircuits of separate_circuit ================= *)
Inductive block := Plain (x : instr) | Run (u : nat) (qs : list nat).

Definition flatten1 (b : block) : circ :=
  match b with Plain x => [x] | Run u qs => map (piece u) qs end.
Definition flatten (bs : list block) : circ := flat_map flatten1 bs.

Definition join_qs (qs : list nat) : circ :=
  match qs with [] => [] | _ => [mkI (Barrier None) qs []] end.
Definition merged1 (b : block) : circ :=
  match b with Plain x => [x] | Run u qs => join_qs qs end.
Definition merged (bs : list block) : circ := flat_map merged1 bs.

Definition run_uuids (bs : list block) : list nat :=
  flat_map (fun b => match b with Plain _ => [] | Run u _ => [u] end) bs.
Definition plain_ok (bs : list block) : Prop :=
  forall x, In (Plain x) bs -> uuid_of x = None.

Lemma uuid_piece u q : uuid_of (piece u q) = Some u.
Proof. reflexivity. Qed.

Lemma filter_uuid_pieces u v qs :
  filter (has_uuid u) (map (piece v) qs) = if Nat.eqb v u then map (piece v) qs else [].
Proof.
  induction qs as [|q r IH]; simpl; [destruct (Nat.eqb v u); reflexivity|].
  unfold has_uuid at 1. rewrite uuid_piece. simpl. rewrite IH. destruct (Nat.eqb v u); reflexivity.
Qed.

Lemma filter_uuid_flatten u : forall bs, plain_ok bs -> ~ In u (run_uuids bs) ->
  filter (has_uuid u) (flatten bs) = [].
Proof.
  induction bs as [|b r IH]; intros PO NI; simpl; [reflexivity|]. rewrite filter_app.
  rewrite IH.
  - rewrite app_nil_r. destruct b as [x|v qs]; simpl.
    + unfold has_uuid. rewrite (PO x) by now left. reflexivity.
    + rewrite filter_uuid_pieces. destruct (Nat.eqb_spec v u) as [->|N]; [|reflexivity].
      exfalso. apply NI. simpl. now left.
  - intros x Hx. apply PO. now right.
  - intros X. apply NI. simpl. apply in_or_app. now right.
Qed.

Lemma filter_uuid_run u qs : forall pre post,
  plain_ok (pre ++ Run u qs :: post) -> NoDup (run_uuids (pre ++ Run u qs :: post)) ->
  filter (has_uuid u) (flatten (pre ++ Run u qs :: post)) = map (piece u) qs.
Proof.
  intros pre post PO ND. unfold flatten. rewrite flat_map_app, filter_app. simpl. rewrite filter_app.
  unfold run_uuids in ND. rewrite flat_map_app in ND. simpl in ND.
  fold (flatten pre). fold (flatten post).
  rewrite (filter_uuid_flatten u pre).
  - rewrite (filter_uuid_flatten u post).
    + rewrite filter_uuid_pieces, Nat.eqb_refl. now rewrite app_nil_r.
    + intros x Hx. apply PO. apply in_or_app. right. now right.
    + apply NoDup_app_r in ND. inversion ND; assumption.
  - intros x Hx. apply PO. apply in_or_app. now left.
  - intros X. apply (NoDup_app_disj _ _ u ND X). now left.
Qed.

Lemma cspec_pieces_seen W seen u qs rest :
  memb u seen = true -> cspec W seen (map (piece u) qs ++ rest) = cspec W seen rest.
Proof. intros M. induction qs as [|q r IH]; simpl; [reflexivity|]. now rewrite M. Qed.

Lemma cspec_blocks W : forall bs pre seen,
  W = flatten (pre ++ bs) -> plain_ok (pre ++ bs) -> NoDup (run_uuids (pre ++ bs)) ->
  (forall u, memb u seen = true -> In u (run_uuids pre)) ->
  cspec W seen (flatten bs) = merged bs.
Proof.
  induction bs as [|b r IH]; intros pre seen EW PO ND HS; [reflexivity|].
  assert (E' : pre ++ b :: r = (pre ++ [b]) ++ r) by (rewrite <- app_assoc; reflexivity).
  destruct b as [x|u qs].
  - simpl. rewrite (PO x) by (apply in_or_app; right; now left). f_equal.
    apply (IH (pre ++ [Plain x])); try (rewrite <- E'; assumption).
    intros u Hu. unfold run_uuids. rewrite flat_map_app. simpl. rewrite app_nil_r. now apply HS.
  - assert (NS : memb u seen = false).
    { destruct (memb u seen) eqn:M; [|reflexivity]. exfalso. apply HS in M.
      unfold run_uuids in ND. rewrite flat_map_app in ND. simpl in ND.
      apply (NoDup_app_disj _ _ u ND M). now left. }
    assert (IHr : forall seen', (forall v, memb v seen' = true -> In v (run_uuids (pre ++ [Run u qs]))) ->
                   cspec W seen' (flatten r) = merged r).
    { intros seen' H'. apply (IH (pre ++ [Run u qs])); try (rewrite <- E'; assumption). exact H'. }
    change (flatten (Run u qs :: r)) with (map (piece u) qs ++ flatten r).
    change (merged (Run u qs :: r)) with (join_qs qs ++ merged r).
    destruct qs as [|q qs].
    + simpl. apply IHr. intros v Hv. unfold run_uuids. rewrite flat_map_app. apply in_or_app. left. now apply HS.
    + cbn [map app cspec]. rewrite uuid_piece, NS.
      rewrite cspec_pieces_seen by (simpl; now rewrite Nat.eqb_refl).
      simpl join_qs. cbn [app]. f_equal.
      * unfold joined_u. rewrite EW, (filter_uuid_run u (q :: qs) pre r PO ND).
        rewrite map_map. simpl. f_equal. f_equal. rewrite <- (map_id qs) at 2. apply map_ext. reflexivity.
      * apply IHr. intros v Hv. simpl in Hv. apply orb_true_iff in Hv as [Hv|Hv].
        -- apply Nat.eqb_eq in Hv. subst v. unfold run_uuids. rewrite flat_map_app. apply in_or_app. right. now left.
        -- unfold run_uuids. rewrite flat_map_app. apply in_or_app. left. now apply HS.
Qed.

Theorem combine_blocks bs : plain_ok bs -> NoDup (run_uuids bs) ->
  combine_barriers (flatten bs) = merged bs.
Proof.
  intros PO ND. rewrite combine_barriers_spec.
  apply (cspec_blocks (flatten bs) bs [] []); auto. intros u H. discriminate.
Qed.

(* ---- re-indexing a run-structured circuit ---- *)
Lemma remap_pieces qsub cl u : forall qs Y,
  remap_all qsub cl (map (piece u) qs) = Some Y ->
  exists qs', find_all qs qsub = Some qs' /\ Y = map (piece u) qs'.
Proof.
  induction qs as [|q r IH]; simpl; intros Y H; [inversion H; exists []; auto|].
  unfold remap_instr in H. simpl in H.
  destruct (index_of q qsub) as [i|]; [|discriminate]. simpl in H.
  destruct (remap_all qsub cl (map (piece u) r)) as [Y'|] eqn:E; [|discriminate].
  inversion H; subst. destruct (IH _ eq_refl) as [qs' [F ->]]. rewrite F. simpl.
  exists (i :: qs'). auto.
Qed.

Lemma remap_join qsub cl qs qs' :
  find_all qs qsub = Some qs' -> remap_all qsub cl (join_qs qs) = Some (join_qs qs').
Proof.
  intros F. pose proof (find_all_length _ _ _ F) as L.
  destruct qs as [|q r]; [destruct qs'; [reflexivity|discriminate]|].
  destruct qs' as [|q' r']; [discriminate|].
  simpl. unfold remap_instr. simpl iqs. rewrite F. reflexivity.
Qed.

Lemma remap_blocks qsub cl : forall bs Y,
  plain_ok bs ->
  remap_all qsub cl (flatten bs) = Some Y ->
  exists bs', Y = flatten bs' /\ remap_all qsub cl (merged bs) = Some (merged bs') /\
              plain_ok bs' /\ run_uuids bs' = run_uuids bs.
Proof.
  induction bs as [|b r IH]; intros Y PO H.
  - simpl in H. inversion H. exists []. repeat split; auto; intros ? [].
  - change (flatten (b :: r)) with (flatten1 b ++ flatten r) in H.
    apply remap_all_app in H as [Y1 [Y2 [H1 [H2 ->]]]].
    destruct (IH Y2) as [bs' [-> [M [PO' RU]]]]; auto; [intros x Hx; apply PO; now right|].
    destruct b as [x|u qs].
    + simpl in H1. destruct (remap_instr qsub cl x) as [x'|] eqn:Ex; [|discriminate]. inversion H1; subst.
      exists (Plain x' :: bs'). repeat split.
      * change (merged (Plain x :: r)) with ([x] ++ merged r).
        change (merged (Plain x' :: bs')) with ([x'] ++ merged bs').
        apply remap_all_app_inv; auto. simpl. now rewrite Ex.
      * intros y [Hy|Hy]; [|now apply PO'].
        inversion Hy; subst y. destruct (remap_instr_op _ _ _ _ Ex) as [Eo El].
        unfold uuid_of. rewrite Eo, El. apply (PO x). now left.
      * simpl. exact RU.
    + simpl in H1. apply remap_pieces in H1 as [qs' [F ->]].
      exists (Run u qs' :: bs'). repeat split.
      * change (merged (Run u qs :: r)) with (join_qs qs ++ merged r).
        change (merged (Run u qs' :: bs')) with (join_qs qs' ++ merged bs').
        apply remap_all_app_inv; auto. now apply remap_join.
      * intros y [Hy|Hy]; [discriminate|now apply PO'].
      * simpl. now rewrite RU.
Qed.

(* ---- the barrier-split circuit restricted to one label, as blocks ---- *)
Definition in_l (labels : list label) (l q : nat) : bool := okey_beq (nth q labels None) (Some l).
Definition of_l (labels : list label) (l : nat) (i : instr) : bool := okey_beq (inst_label labels i) (Some l).

Fixpoint blocks_l (labels : list label) (l u : nat) (c : circ) : list block :=
  match c with
  | [] => []
  | i :: r => if needs_split i then Run u (filter (in_l labels l) (iqs i)) :: blocks_l labels l (S u) r
              else (if of_l labels l i then [Plain i] else []) ++ blocks_l labels l u r
  end.

(* what the property calls "barriers split and re-joined per partition" *)
Definition restrict_instr (labels : list label) (l : nat) (i : instr) : circ :=
  if needs_split i then join_qs (filter (in_l labels l) (iqs i))
  else if of_l labels l i then [i] else [].

Lemma inst_label_piece labels u q : inst_label labels (piece u q) = nth q labels None.
Proof.
  unfold inst_label. rewrite spanned_spec. simpl.
  destruct (nth q labels None) as [k|]; reflexivity.
Qed.

Lemma filter_split_blocks labels l : forall c u,
  filter (of_l labels l) (split_spec u c) = flatten (blocks_l labels l u c).
Proof.
  induction c as [|i r IH]; intros u; simpl; [reflexivity|].
  destruct (needs_split i).
  - rewrite filter_app, IH. simpl. f_equal.
    induction (iqs i) as [|q qs IHq]; simpl; [reflexivity|].
    unfold of_l at 1. rewrite inst_label_piece. fold (in_l labels l q).
    destruct (in_l labels l q); simpl; now rewrite IHq.
  - simpl. unfold flatten. rewrite flat_map_app. fold (flatten (blocks_l labels l u r)). rewrite <- IH.
    destruct (of_l labels l i); reflexivity.
Qed.

Lemma merged_blocks labels l : forall c u,
  merged (blocks_l labels l u c) = flat_map (restrict_instr labels l) c.
Proof.
  induction c as [|i r IH]; intros u; simpl; [reflexivity|]. unfold restrict_instr at 1.
  destruct (needs_split i).
  - simpl. now rewrite IH.
  - unfold merged. rewrite flat_map_app. fold (merged (blocks_l labels l u r)). rewrite IH.
    destruct (of_l labels l i); reflexivity.
Qed.

Definition no_uuid (c : circ) : Prop := forall i, In i c -> uuid_of i = None.

Lemma blocks_plain_ok labels l : forall c u, no_uuid c -> plain_ok (blocks_l labels l u c).
Proof.
  induction c as [|i r IH]; intros u NU x Hx; simpl in Hx; [destruct Hx|].
  assert (NUr : no_uuid r) by (intros y Hy; apply NU; now right).
  destruct (needs_split i).
  - destruct Hx as [Hx|Hx]; [discriminate|]. now apply (IH (S u)).
  - apply in_app_or in Hx as [Hx|Hx]; [|now apply (IH u)].
    destruct (of_l labels l i); [|destruct Hx]. destruct Hx as [Hx|[]]. inversion Hx; subst. apply NU. now left.
Qed.

Lemma blocks_uuids_ge labels l : forall c u v, In v (run_uuids (blocks_l labels l u c)) -> u <= v.
Proof.
  induction c as [|i r IH]; intros u v Hv; simpl in Hv; [destruct Hv|].
  destruct (needs_split i).
  - simpl in Hv. destruct Hv as [<-|Hv]; [lia|]. apply IH in Hv. lia.
  - unfold run_uuids in Hv. rewrite flat_map_app in Hv. apply in_app_or in Hv as [Hv|Hv]; [|now apply IH in Hv].
    destruct (of_l labels l i); simpl in Hv; destruct Hv.
Qed.

Lemma blocks_uuids_NoDup labels l : forall c u, NoDup (run_uuids (blocks_l labels l u c)).
Proof.
  induction c as [|i r IH]; intros u; simpl; [constructor|].
  destruct (needs_split i).
  - simpl. constructor; [|apply IH]. intros X. apply blocks_uuids_ge in X. lia.
  - unfold run_uuids. rewrite flat_map_app.
    replace (flat_map _ (if of_l labels l i then [Plain i] else [])) with (@nil nat)
      by (destruct (of_l labels l i); reflexivity).
    apply IH.
Qed.

(* the body of one subcircuit *)
Theorem subcircuit_body labels l qsub cl c u pre :
  no_uuid c ->
  remap_all qsub cl (filter (of_l labels l) (split_spec u c)) = Some pre ->
  remap_all qsub cl (flat_map (restrict_instr labels l) c) = Some (combine_barriers pre).
Proof.
  intros NU H. rewrite filter_split_blocks in H.
  destruct (remap_blocks qsub cl _ _ (blocks_plain_ok labels l c u NU) H) as [bs' [-> [M [PO RU]]]].
  rewrite combine_blocks; auto.
  - now rewrite <- merged_blocks with (u := u).
  - rewrite RU. apply blocks_uuids_NoDup.
Qed.

(* ================= Part H: instructions on disjoint wires commute (Herbrand semantics) ================= *)
Definition apply_w {A} (w : list A) (l : list (nat * A)) : list A :=
  fold_left (fun w p => upd w (fst p) (snd p)) l w.

Lemma upd_comm {A} (w : list A) i j a b : i <> j -> upd (upd w i a) j b = upd (upd w j b) i a.
Proof.
  revert i j; induction w as [|x w IH]; intros [|i] [|j] N; simpl; try reflexivity; try congruence.
  f_equal. apply IH. congruence.
Qed.

Lemma apply_w_upd_comm {A} (l : list (nat * A)) : forall w i a,
  ~ In i (map fst l) -> apply_w (upd w i a) l = upd (apply_w w l) i a.
Proof.
  induction l as [|[j b] r IH]; intros w i a N; simpl; [reflexivity|].
  rewrite upd_comm by (intros E; apply N; now left). apply IH. intros X. apply N. now right.
Qed.

Lemma apply_w_comm {A} (l1 l2 : list (nat * A)) : forall w,
  (forall i, In i (map fst l1) -> ~ In i (map fst l2)) ->
  apply_w (apply_w w l1) l2 = apply_w (apply_w w l2) l1.
Proof.
  induction l1 as [|[i a] r IH]; intros w D; simpl; [reflexivity|].
  rewrite IH by (intros j Hj; apply D; now right).
  f_equal. apply apply_w_upd_comm. apply D. now left.
Qed.

Lemma apply_w_other {A} (l : list (nat * A)) d : forall w j, ~ In j (map fst l) -> nth j (apply_w w l) d = nth j w d.
Proof.
  induction l as [|[i a] r IH]; intros w j N; simpl; [reflexivity|].
  rewrite IH by (intros X; apply N; now right). apply nth_upd_other. intros E; apply N; now left.
Qed.

(* the writes of one instruction: wire positions and new terms, as a function of the wires it reads *)
Definition out_writes (tag g : nat) (args : list wt) (qs : list nat) (k : nat) : list (nat * wt) :=
  combine qs (map (fun k' => App tag g k' args) (seq k (length qs))).

Lemma set_outputs_writes tag g args : forall qs k w,
  set_outputs tag g args qs k w = apply_w w (out_writes tag g args qs k).
Proof.
  induction qs as [|q r IH]; intros k w; simpl; [reflexivity|]. now rewrite IH.
Qed.

Lemma out_writes_fst tag g args : forall qs k, map fst (out_writes tag g args qs k) = qs.
Proof.
  induction qs as [|q r IH]; intros k; simpl; [reflexivity|]. f_equal. apply IH.
Qed.

Definition qwrites (rd : nat -> wt) (ti : nat * instr) : list (nat * wt) :=
  let '(tag, i) := ti in
  match iop i with
  | Gate g => out_writes tag g (map rd (iqs i)) (iqs i) 0
  | Barrier _ => []
  | CutWire => []
  | Measure => match iqs i, ics i with q :: _, c :: _ => [(q, PostM (rd q))] | _, _ => [] end
  | Reset => match iqs i with q :: _ => [(q, Zero)] | [] => [] end
  | Move => match iqs i with a :: b :: _ => [(b, rd a); (a, Zero)] | _ => [] end
  | Qpd2 b _ _ => out_writes tag (1000 + b) (map rd (iqs i)) (iqs i) 0
  | Qpd1 b h _ _ => out_writes tag (2000 + 2 * b + h) (map rd (iqs i)) (iqs i) 0
  | QpdMeasure => match iqs i with q :: _ => [(q, PostM (rd q))] | [] => [] end
  end.

Definition cwrites (rd : nat -> wt) (ti : nat * instr) : list (nat * ct) :=
  match iop (snd ti) with
  | Measure => match iqs (snd ti), ics (snd ti) with q :: _, c :: _ => [(c, Some (rd q))] | _, _ => [] end
  | _ => []
  end.

Lemma hstep_writes s ti :
  hstep s ti = mkH (apply_w (hw s) (qwrites (wire s) ti)) (apply_w (hc s) (cwrites (wire s) ti)).
Proof.
  destruct ti as [tag i]. unfold hstep, qwrites, cwrites. simpl snd.
  destruct (iop i); simpl; try (rewrite set_outputs_writes; reflexivity); try (destruct s; reflexivity).
  - destruct (iqs i) as [|q r]; [destruct s; reflexivity|]. destruct (ics i); [destruct s; reflexivity|reflexivity].
  - destruct (iqs i) as [|q r]; [destruct s; reflexivity|reflexivity].
  - destruct (iqs i) as [|a [|b r]]; try (destruct s; reflexivity).
  - destruct (iqs i) as [|q r]; [destruct s; reflexivity|reflexivity].
Qed.

Lemma qwrites_pos rd ti j : In j (map fst (qwrites rd ti)) -> In j (iqs (snd ti)).
Proof.
  destruct ti as [tag i]. unfold qwrites. simpl snd.
  destruct (iop i); simpl; try (rewrite out_writes_fst; auto); try tauto.
  - destruct (iqs i) as [|q r]; [simpl; tauto|]. destruct (ics i); simpl; [tauto|]. intros [<-|[]]. now left.
  - destruct (iqs i) as [|q r]; simpl; [tauto|]. intros [<-|[]]. now left.
  - destruct (iqs i) as [|a [|b r]]; simpl; tauto.
  - destruct (iqs i) as [|q r]; simpl; [tauto|]. intros [<-|[]]. now left.
Qed.

Lemma cwrites_pos rd ti j : In j (map fst (cwrites rd ti)) -> In j (ics (snd ti)).
Proof.
  unfold cwrites. destruct (iop (snd ti)); simpl; try tauto.
  destruct (iqs (snd ti)) as [|q r]; [simpl; tauto|]. destruct (ics (snd ti)); simpl; [tauto|].
  intros [<-|[]]. now left.
Qed.

Lemma qwrites_ext rd rd' ti : (forall q, In q (iqs (snd ti)) -> rd q = rd' q) -> qwrites rd ti = qwrites rd' ti.
Proof.
  destruct ti as [tag i]. simpl snd. intros H. unfold qwrites.
  assert (Em : map rd (iqs i) = map rd' (iqs i)) by (apply map_ext_in; exact H).
  destruct (iop i); try (rewrite Em; reflexivity); try reflexivity.
  - destruct (iqs i) as [|q r]; [reflexivity|]. destruct (ics i); [reflexivity|]. rewrite (H q); [reflexivity|now left].
  - destruct (iqs i) as [|a [|b r]]; try reflexivity. rewrite (H a); [reflexivity|now left].
  - destruct (iqs i) as [|q r]; [reflexivity|]. rewrite (H q); [reflexivity|now left].
Qed.

Lemma cwrites_ext rd rd' ti : (forall q, In q (iqs (snd ti)) -> rd q = rd' q) -> cwrites rd ti = cwrites rd' ti.
Proof.
  intros H. unfold cwrites. destruct (iop (snd ti)); try reflexivity.
  destruct (iqs (snd ti)) as [|q r]; [reflexivity|]. destruct (ics (snd ti)); [reflexivity|].
  rewrite (H q); [reflexivity|now left].
Qed.

Definition disjoint (a b : list nat) : Prop := forall x, In x a -> ~ In x b.

Theorem hstep_commute s a x :
  disjoint (iqs (snd a)) (iqs (snd x)) -> disjoint (ics (snd a)) (ics (snd x)) ->
  hstep (hstep s a) x = hstep (hstep s x) a.
Proof.
  intros DQ DC.
  assert (DQ' : disjoint (iqs (snd x)) (iqs (snd a))) by (intros q H1 H2; exact (DQ q H2 H1)).
  rewrite (hstep_writes (hstep s a) x), (hstep_writes (hstep s x) a).
  rewrite (qwrites_ext (wire (hstep s a)) (wire s) x), (cwrites_ext (wire (hstep s a)) (wire s) x)
    by (intros q Hq; apply hstep_other_wire; intros X; exact (DQ q X Hq)).
  rewrite (qwrites_ext (wire (hstep s x)) (wire s) a), (cwrites_ext (wire (hstep s x)) (wire s) a)
    by (intros q Hq; apply hstep_other_wire; intros X; exact (DQ' q X Hq)).
  rewrite (hstep_writes s a), (hstep_writes s x). simpl hw. simpl hc.
  f_equal.
  - apply apply_w_comm. intros i Hi Hx. apply qwrites_pos in Hi. apply qwrites_pos in Hx. exact (DQ i Hi Hx).
  - apply apply_w_comm. intros i Hi Hx. apply cwrites_pos in Hi. apply cwrites_pos in Hx. exact (DC i Hi Hx).
Qed.

(* identities of the semantics *)
Definition is_id (i : instr) : bool := match iop i with Barrier _ | CutWire => true | _ => false end.

Lemma hstep_id s ti : is_id (snd ti) = true -> hstep s ti = s.
Proof. destruct ti as [tag i]. unfold is_id, hstep. simpl. destruct (iop i); try discriminate; reflexivity. Qed.

(* per-wire and per-clbit projections (identities dropped) *)
Definition tcirc := list (nat * instr).
Definition hproj (q : nat) (R : tcirc) : tcirc :=
  filter (fun ti => negb (is_id (snd ti)) && memb q (iqs (snd ti))) R.
Definition cproj (k : nat) (R : tcirc) : tcirc :=
  filter (fun ti => negb (is_id (snd ti)) && memb k (ics (snd ti))) R.
Definition visible (R : tcirc) : Prop :=
  forall ti, In ti R -> is_id (snd ti) = true \/ iqs (snd ti) <> [].

Definition indep (a x : nat * instr) : Prop :=
  is_id (snd a) = true \/ (disjoint (iqs (snd a)) (iqs (snd x)) /\ disjoint (ics (snd a)) (ics (snd x))).

Lemma hstep_swap s a x : indep a x -> hstep (hstep s a) x = hstep (hstep s x) a.
Proof.
  intros [I|[DQ DC]].
  - now rewrite !(hstep_id _ a I).
  - now apply hstep_commute.
Qed.

Lemma hrun_move_front x : forall A s B, Forall (fun a => indep a x) A ->
  hrun s (A ++ x :: B) = hrun s (x :: A ++ B).
Proof.
  induction A as [|a A IH]; intros s B HF; [reflexivity|].
  inversion HF as [|? ? Ha HA]; subst. simpl app.
  change (hrun s (a :: A ++ x :: B)) with (hrun (hstep s a) (A ++ x :: B)).
  rewrite IH by assumption.
  change (hrun (hstep s a) (x :: A ++ B)) with (hrun (hstep (hstep s a) x) (A ++ B)).
  rewrite hstep_swap by assumption. reflexivity.
Qed.

Lemma hrun_ids R : forall s, Forall (fun ti => is_id (snd ti) = true) R -> hrun s R = s.
Proof.
  induction R as [|a R IH]; intros s HF; [reflexivity|]. inversion HF; subst.
  change (hrun s (a :: R)) with (hrun (hstep s a) R). rewrite hstep_id by assumption. now apply IH.
Qed.

(* first element of R that depends on x *)
Definition dep_b (x a : nat * instr) : bool :=
  negb (is_id (snd a)) &&
  (existsb (fun q => memb q (iqs (snd x))) (iqs (snd a)) || existsb (fun k => memb k (ics (snd x))) (ics (snd a))).

Lemma dep_b_false x a : dep_b x a = false -> indep a x.
Proof.
  unfold dep_b, indep. intros H. destruct (is_id (snd a)); [now left|]. simpl in H. right.
  apply orb_false_iff in H as [H1 H2]. split; intros q Hq Hx.
  - assert (X : existsb (fun q => memb q (iqs (snd x))) (iqs (snd a)) = true).
    { apply existsb_exists. exists q. split; auto. now apply memb_In. } congruence.
  - assert (X : existsb (fun k => memb k (ics (snd x))) (ics (snd a)) = true).
    { apply existsb_exists. exists q. split; auto. now apply memb_In. } congruence.
Qed.

Lemma split_first_dep x : forall R,
  (exists a, In a R /\ dep_b x a = true) ->
  exists A y B, R = A ++ y :: B /\ Forall (fun a => dep_b x a = false) A /\ dep_b x y = true.
Proof.
  induction R as [|a R IH]; intros [b [Hb Db]]; [destruct Hb|].
  destruct (dep_b x a) eqn:Da.
  - exists [], a, R. repeat split; auto.
  - destruct Hb as [->|Hb]; [congruence|].
    destruct IH as [A [y [B [-> [FA Dy]]]]]; [eauto|].
    exists (a :: A), y, B. repeat split; auto.
Qed.

Lemma filter_head_after {T} (f : T -> bool) A y B :
  Forall (fun a => f a = false) A -> f y = true -> filter f (A ++ y :: B) = y :: filter f B.
Proof.
  intros FA Fy. rewrite filter_app. simpl. rewrite Fy.
  replace (filter f A) with (@nil T); [reflexivity|].
  symmetry. induction A as [|a A IH]; [reflexivity|]. inversion FA; subst. simpl. rewrite H1. now apply IH.
Qed.

Lemma filter_skip_mid {T} (f : T -> bool) A y B :
  f y = false -> filter f (A ++ y :: B) = filter f (A ++ B).
Proof. intros Fy. rewrite !filter_app. simpl. now rewrite Fy. Qed.

Theorem hrun_proj_eq : forall R1 R2 s,
  visible R1 -> visible R2 ->
  (forall q, hproj q R1 = hproj q R2) -> (forall k, cproj k R1 = cproj k R2) ->
  hrun s R1 = hrun s R2.
Proof.
  induction R1 as [|x R1 IH]; intros R2 s V1 V2 HQ HC.
  - (* every element of R2 is an identity *)
    symmetry. apply hrun_ids. apply Forall_forall. intros ti Hti.
    destruct (V2 ti Hti) as [I|NE]; [exact I|].
    destruct (is_id (snd ti)) eqn:I; [reflexivity|]. exfalso.
    destruct (iqs (snd ti)) as [|q r] eqn:Eq; [congruence|].
    specialize (HQ q). simpl in HQ.
    assert (X : In ti (hproj q R2)).
    { apply filter_In. split; auto. rewrite I, Eq. simpl. now rewrite Nat.eqb_refl. }
    rewrite <- HQ in X. destruct X.
  - destruct (is_id (snd x)) eqn:Ix.
    + (* x is an identity: invisible *)
      change (hrun s (x :: R1)) with (hrun (hstep s x) R1). rewrite hstep_id by assumption.
      apply IH; auto.
      * intros ti Hti. apply V1. now right.
      * intros q. rewrite <- HQ. unfold hproj. simpl. now rewrite Ix.
      * intros k. rewrite <- HC. unfold cproj. simpl. now rewrite Ix.
    + destruct (V1 x (or_introl eq_refl)) as [I|NE]; [congruence|].
      destruct (iqs (snd x)) as [|q0 r0] eqn:Eq0; [congruence|].
      (* x occurs in R2: take the first element depending on x *)
      assert (EX : exists a, In a R2 /\ dep_b x a = true).
      { assert (X : In x (hproj q0 R2)).
        { rewrite <- HQ. unfold hproj. simpl. rewrite Ix, Eq0. simpl. rewrite Nat.eqb_refl. now left. }
        apply filter_In in X as [X _]. exists x. split; auto.
        unfold dep_b. rewrite Ix, Eq0. simpl. now rewrite Nat.eqb_refl. }
      destruct (split_first_dep x R2 EX) as [A [y [B [-> [FA Dy]]]]].
      (* y = x *)
      assert (Exy : y = x).
      { unfold dep_b in Dy. apply andb_true_iff in Dy as [Iy Dy]. apply orb_true_iff in Dy as [Dy|Dy].
        - apply existsb_exists in Dy as [q [Hq Mq]]. apply memb_In in Mq. apply memb_In in Hq.
          specialize (HQ q). unfold hproj in HQ. simpl in HQ. apply memb_In in Mq. rewrite Ix, Mq in HQ. simpl in HQ.
          rewrite filter_head_after in HQ.
          + now inversion HQ.
          + apply Forall_forall. intros a Ha. rewrite Forall_forall in FA. specialize (FA a Ha).
            destruct (is_id (snd a)) eqn:Ia; [reflexivity|]. simpl.
            destruct (memb q (iqs (snd a))) eqn:Ma; [|reflexivity]. exfalso.
            unfold dep_b in FA. rewrite Ia in FA. simpl in FA. apply orb_false_iff in FA as [F1 _].
            assert (X : existsb (fun q => memb q (iqs (snd x))) (iqs (snd a)) = true).
            { apply existsb_exists. exists q. split; [now apply memb_In|assumption]. } congruence.
          + rewrite Iy. simpl. exact Hq.
        - apply existsb_exists in Dy as [k [Hk Mk]]. apply memb_In in Hk.
          specialize (HC k). unfold cproj in HC. simpl in HC. rewrite Ix, Mk in HC. simpl in HC.
          rewrite filter_head_after in HC.
          + now inversion HC.
          + apply Forall_forall. intros a Ha. rewrite Forall_forall in FA. specialize (FA a Ha).
            destruct (is_id (snd a)) eqn:Ia; [reflexivity|]. simpl.
            destruct (memb k (ics (snd a))) eqn:Ma; [|reflexivity]. exfalso.
            unfold dep_b in FA. rewrite Ia in FA. simpl in FA. apply orb_false_iff in FA as [_ F2].
            assert (X : existsb (fun k => memb k (ics (snd x))) (ics (snd a)) = true).
            { apply existsb_exists. exists k. split; [now apply memb_In|assumption]. } congruence.
          + rewrite Iy. simpl. exact Hk. }
      subst y.
      rewrite hrun_move_front.
      2:{ apply Forall_forall. intros a Ha. rewrite Forall_forall in FA. now apply dep_b_false, FA. }
      change (hrun s (x :: R1)) with (hrun (hstep s x) R1).
      change (hrun s (x :: A ++ B)) with (hrun (hstep s x) (A ++ B)).
      apply IH.
      * intros ti Hti. apply V1. now right.
      * intros ti Hti. apply V2. apply in_app_or in Hti as [H|H]; apply in_or_app; [now left|right; now right].
      * intros q. specialize (HQ q). unfold hproj in *. simpl in HQ. rewrite Ix in HQ. simpl in HQ.
        destruct (memb q (iqs (snd x))) eqn:Mq.
        -- rewrite filter_head_after in HQ.
           ++ inversion HQ as [HQ']. rewrite HQ'. rewrite filter_app.
              replace (filter _ A) with (@nil (nat * instr)); [reflexivity|].
              symmetry.
              clear - FA Mq Ix. induction A as [|a A IHA]; [reflexivity|]. inversion FA as [|? ? Fa FA']; subst. simpl.
              rewrite IHA by assumption.
              destruct (is_id (snd a)) eqn:Ia; [reflexivity|]. simpl.
              destruct (memb q (iqs (snd a))) eqn:Ma; [|reflexivity]. exfalso.
              unfold dep_b in Fa. rewrite Ia in Fa. simpl in Fa. apply orb_false_iff in Fa as [F1 _].
              assert (X : existsb (fun q => memb q (iqs (snd x))) (iqs (snd a)) = true).
              { apply existsb_exists. exists q. split; [now apply memb_In|assumption]. } congruence.
           ++ apply Forall_forall. intros a Ha. rewrite Forall_forall in FA. specialize (FA a Ha).
              destruct (is_id (snd a)) eqn:Ia; [reflexivity|]. simpl.
              destruct (memb q (iqs (snd a))) eqn:Ma; [|reflexivity]. exfalso.
              unfold dep_b in FA. rewrite Ia in FA. simpl in FA. apply orb_false_iff in FA as [F1 _].
              assert (X : existsb (fun q => memb q (iqs (snd x))) (iqs (snd a)) = true).
              { apply existsb_exists. exists q. split; [now apply memb_In|assumption]. } congruence.
           ++ rewrite Ix. simpl. exact Mq.
        -- rewrite HQ. apply filter_skip_mid. rewrite Ix, Mq. reflexivity.
      * intros k. specialize (HC k). unfold cproj in *. simpl in HC. rewrite Ix in HC. simpl in HC.
        destruct (memb k (ics (snd x))) eqn:Mk.
        -- rewrite filter_head_after in HC.
           ++ inversion HC as [HC']. rewrite HC'. rewrite filter_app.
              replace (filter _ A) with (@nil (nat * instr)); [reflexivity|].
              symmetry.
              clear - FA Mk Ix. induction A as [|a A IHA]; [reflexivity|]. inversion FA as [|? ? Fa FA']; subst. simpl.
              rewrite IHA by assumption.
              destruct (is_id (snd a)) eqn:Ia; [reflexivity|]. simpl.
              destruct (memb k (ics (snd a))) eqn:Ma; [|reflexivity]. exfalso.
              unfold dep_b in Fa. rewrite Ia in Fa. simpl in Fa. apply orb_false_iff in Fa as [_ F2].
              assert (X : existsb (fun k => memb k (ics (snd x))) (ics (snd a)) = true).
              { apply existsb_exists. exists k. split; [now apply memb_In|assumption]. } congruence.
           ++ apply Forall_forall. intros a Ha. rewrite Forall_forall in FA. specialize (FA a Ha).
              destruct (is_id (snd a)) eqn:Ia; [reflexivity|]. simpl.
              destruct (memb k (ics (snd a))) eqn:Ma; [|reflexivity]. exfalso.
              unfold dep_b in FA. rewrite Ia in FA. simpl in FA. apply orb_false_iff in FA as [_ F2].
              assert (X : existsb (fun k => memb k (ics (snd x))) (ics (snd a)) = true).
              { apply existsb_exists. exists k. split; [now apply memb_In|assumption]. } congruence.
           ++ rewrite Ix. simpl. exact Mk.
        -- rewrite HC. apply filter_skip_mid. rewrite Ix, Mk. reflexivity.
Qed.

(* ================= Part G: separate_circuit assembled ================= *)
Definition sub_rel (sc : circ) (qbs : list (nat * list nat)) (cl : list nat) (id : nat * list nat) (s : subcirc) : Prop :=
  fst (fst s) = fst id /\ snd (fst s) = length (lookup (fst id) qbs) /\
  exists pre, remap_all (lookup (fst id) qbs) cl (map (fun j => nth j sc dummy_instr) (snd id)) = Some pre /\
              snd s = combine_barriers pre.

Lemma build_subcircuits_spec sc qbs cl : forall ids subs,
  build_subcircuits sc qbs cl ids = Some subs -> Forall2 (sub_rel sc qbs cl) ids subs.
Proof.
  induction ids as [|[l idxs] r IH]; simpl; intros subs H; [inversion H; constructor|].
  destruct (remap_all (lookup l qbs) cl (map (fun j => nth j sc dummy_instr) idxs)) as [body|] eqn:E; [|discriminate].
  destruct (build_subcircuits sc qbs cl r) as [t|]; [|discriminate]. inversion H; subst.
  constructor; [|now apply IH]. unfold sub_rel; simpl. repeat split; auto. exists body. auto.
Qed.

Lemma Forall2_In_r {A B} (R : A -> B -> Prop) l1 l2 y : Forall2 R l1 l2 -> In y l2 -> exists x, In x l1 /\ R x y.
Proof.
  induction 1 as [|a b l1 l2 Hab HF IH]; intros Hy; [destruct Hy|].
  destruct Hy as [<-|Hy]; [exists a; split; [now left|assumption]|].
  destruct (IH Hy) as [x [Hx Rx]]. exists x. split; [now right|assumption].
Qed.

Lemma Forall2_map_fst {A B} (R : A -> B -> Prop) (f : A -> nat) (g : B -> nat) l1 l2 :
  Forall2 R l1 l2 -> (forall x y, R x y -> g y = f x) -> map g l2 = map f l1.
Proof. induction 1; intros H'; simpl; [reflexivity|]. f_equal; auto. Qed.

Lemma sel_filter0 labels l d c :
  map (fun j => nth j c d) (sel labels l c 0) = filter (fun inst => okey_beq (inst_label labels inst) (Some l)) c.
Proof. exact (sel_filter labels l d c []). Qed.

Definition keys_of (labels : list label) : list nat := unique_by_eq (somes labels).

Theorem separate_with_ok n cregs c u labels subs qm :
  no_uuid c ->
  separate_with n cregs (split_spec u c) labels = Ok (subs, qm) ->
  length labels = n /\ qm = qmap_of labels /\
  (forall inst, In inst (split_spec u c) -> exists l, inst_label labels inst = Some l) /\
  map (fun s : subcirc => fst (fst s)) subs = keys_of labels /\
  forall l nq body, In (l, nq, body) subs ->
    In l (keys_of labels) /\
    nq = length (omembers labels l n) /\
    remap_all (omembers labels l n) (clbits_of cregs) (flat_map (restrict_instr labels l) c) = Some body.
Proof.
  intros NU H. unfold separate_with in H.
  destruct (Nat.eqb_spec (length labels) n) as [Ln|]; [|discriminate]. simpl in H.
  rewrite qubit_map_spec in H. fold (qmap_of labels) in H.
  destruct (separate_instructions (split_spec u c) (qmap_of labels)) as [ids| |] eqn:ES; try discriminate.
  destruct (build_subcircuits (split_spec u c) (ogroups labels 0 []) (clbits_of cregs) ids) as [subs'|] eqn:EB;
    [|discriminate].
  inversion H; subst subs' qm. clear H.
  apply separate_instructions_ok in ES as [VAL ->].
  apply build_subcircuits_spec in EB.
  split; [exact Ln|]. split; [reflexivity|]. split; [exact VAL|]. split.
  - rewrite (Forall2_map_fst _ fst (fun s : subcirc => fst (fst s)) _ _ EB).
    + rewrite map_map. simpl. apply map_id.
    + intros x y [E _]. exact E.
  - intros l nq body Hin. destruct (Forall2_In_r _ _ _ _ EB Hin) as [[l' idxs] [Hid [E1 [E2 [pre [ER EC]]]]]].
    simpl in *. subst l'. apply in_map_iff in Hid as [l' [E Hl']]. inversion E; subst l' idxs.
    pose proof (ogroups_spec labels) as OI. rewrite Ln in OI.
    rewrite (OInv_lookup _ _ _ l OI) in *.
    split; [exact Hl'|]. split; [exact E2|].
    rewrite (sel_filter0 labels l dummy_instr (split_spec u c)) in ER. fold (of_l labels l) in ER.
    rewrite EC. now apply (subcircuit_body labels l _ _ c u pre).
Qed.

(* instructions of the split circuit vs. instructions of the original *)
Lemma in_split_plain i : forall c u, In i c -> needs_split i = false -> In i (split_spec u c).
Proof.
  induction c as [|x r IH]; intros u Hi NS; [destruct Hi|]. simpl.
  destruct Hi as [->|Hi].
  - rewrite NS. now left.
  - destruct (needs_split x); [apply in_or_app; right|right]; now apply IH.
Qed.

Lemma in_split_piece i q : forall c u, In i c -> needs_split i = true -> In q (iqs i) ->
  exists v, In (piece v q) (split_spec u c).
Proof.
  induction c as [|x r IH]; intros u Hi NS Hq; [destruct Hi|]. simpl.
  destruct Hi as [->|Hi].
  - rewrite NS. exists u. apply in_or_app. left. now apply in_map.
  - destruct (needs_split x).
    + destruct (IH (S u) Hi NS Hq) as [v Hv]. exists v. apply in_or_app. now right.
    + destruct (IH u Hi NS Hq) as [v Hv]. exists v. now right.
Qed.

(* validity of a labelling for a circuit *)
Definition valid_labelling (labels : list label) (c : circ) : Prop :=
  forall i, In i c ->
    (needs_split i = false -> exists l, one_label labels i l) /\
    (needs_split i = true -> forall q, In q (iqs i) -> exists l, nth q labels None = Some l).

Lemma valid_from_split labels c u :
  (forall inst, In inst (split_spec u c) -> exists l, inst_label labels inst = Some l) ->
  valid_labelling labels c.
Proof.
  intros H i Hi. split.
  - intros NS. destruct (H i (in_split_plain i c u Hi NS)) as [l El]. exists l. now apply inst_label_iff.
  - intros NS q Hq. destruct (in_split_piece i q c u Hi NS Hq) as [v Hv].
    destruct (H _ Hv) as [l El]. rewrite inst_label_piece in El. eauto.
Qed.

(* every ordinary instruction lands in exactly one subcircuit *)
Lemma restrict_unique labels i l :
  needs_split i = false -> one_label labels i l ->
  restrict_instr labels l i = [i] /\ forall l', l' <> l -> restrict_instr labels l' i = [].
Proof.
  intros NS OL. apply inst_label_iff in OL. unfold restrict_instr, of_l. rewrite NS, OL. split.
  - assert (E : okey_beq (Some l) (Some l) = true) by now apply okey_beq_eq. now rewrite E.
  - intros l' N. destruct (okey_beq (Some l) (Some l')) eqn:E; [|reflexivity].
    apply okey_beq_eq in E. congruence.
Qed.

(* ---- per-wire views ---- *)
Definition touches (q : nat) (i : instr) : bool := memb q (iqs i).
Definition norm_b (q : nat) (i : instr) : instr := if is_barrier i then mkI (Barrier None) [q] [] else i.
Definition wire_view (q : nat) (c : circ) : circ := map (norm_b q) (filter (touches q) c).

Lemma wire_view_app q a b : wire_view q (a ++ b) = wire_view q a ++ wire_view q b.
Proof. unfold wire_view. now rewrite filter_app, map_app. Qed.

Lemma needs_split_barrier i : needs_split i = true -> is_barrier i = true.
Proof. unfold needs_split. destruct (is_barrier i); [reflexivity|]. rewrite orb_true_r. discriminate. Qed.

Lemma in_l_iff labels l q : in_l labels l q = true <-> nth q labels None = Some l.
Proof. unfold in_l. apply okey_beq_eq. Qed.

Lemma wire_view_single q i : wire_view q [i] = if memb q (iqs i) then [norm_b q i] else [].
Proof. unfold wire_view, touches. simpl. destruct (memb q (iqs i)); reflexivity. Qed.

Lemma wire_view_restrict1 labels l q i :
  nth q labels None = Some l ->
  (needs_split i = false -> exists l', one_label labels i l') ->
  wire_view q (restrict_instr labels l i) = wire_view q [i].
Proof.
  intros Eq V. rewrite (wire_view_single q i). unfold restrict_instr. destruct (needs_split i) eqn:NS.
  - pose proof (needs_split_barrier i NS) as IB.
    destruct (memb q (iqs i)) eqn:M.
    + assert (Hin : In q (filter (in_l labels l) (iqs i))).
      { apply filter_In. split; [now apply memb_In|now apply in_l_iff]. }
      destruct (filter (in_l labels l) (iqs i)) as [|a t] eqn:EF; [destruct Hin|].
      unfold join_qs. rewrite wire_view_single. simpl iqs.
      assert (M' : memb q (a :: t) = true) by now apply memb_In.
      rewrite M'. unfold norm_b. rewrite IB. reflexivity.
    + assert (Hnin : ~ In q (filter (in_l labels l) (iqs i))).
      { intros X. apply filter_In in X as [X _]. apply memb_In in X. congruence. }
      destruct (filter (in_l labels l) (iqs i)) as [|a t] eqn:EF; [reflexivity|].
      unfold join_qs. rewrite wire_view_single. simpl iqs.
      assert (M' : memb q (a :: t) = false) by now apply memb_false.
      now rewrite M'.
  - destruct (V eq_refl) as [l' OL]. pose proof OL as OL'. apply inst_label_iff in OL'.
    unfold of_l. rewrite OL'.
    destruct (memb q (iqs i)) eqn:M.
    + apply memb_In in M. destruct OL as [_ A]. rewrite (A q M) in Eq. inversion Eq; subst l'.
      assert (E : okey_beq (Some l) (Some l) = true) by now apply okey_beq_eq.
      rewrite E. rewrite wire_view_single. apply memb_In in M. now rewrite M.
    + destruct (okey_beq (Some l') (Some l)); [|reflexivity]. rewrite wire_view_single. now rewrite M.
Qed.

Theorem wire_view_restrict labels l q : forall c,
  nth q labels None = Some l -> valid_labelling labels c ->
  wire_view q (flat_map (restrict_instr labels l) c) = wire_view q c.
Proof.
  induction c as [|i r IH]; intros Eq V; [reflexivity|]. simpl.
  rewrite wire_view_app. change (i :: r) with ([i] ++ r). rewrite (wire_view_app q [i] r).
  f_equal.
  - apply wire_view_restrict1; auto. apply (V i). now left.
  - apply IH; auto. intros x Hx. apply V. now right.
Qed.

Theorem wire_view_dropped labels q c :
  nth q labels None = None -> valid_labelling labels c -> wire_view q c = [].
Proof.
  intros Eq V. unfold wire_view. rewrite filter_nil; [reflexivity|].
  intros i Hi. unfold touches. destruct (memb q (iqs i)) eqn:M; [|reflexivity]. exfalso.
  apply memb_In in M. destruct (V i Hi) as [V1 V2]. destruct (needs_split i) eqn:NS.
  - destruct (V2 eq_refl q M) as [l El]. congruence.
  - destruct (V1 eq_refl) as [l [_ A]]. rewrite (A q M) in Eq. discriminate.
Qed.

(* ---- the same with instance tags, for the Herbrand denotation ---- *)
Definition restrict_tagged (labels : list label) (l : nat) (R : tcirc) : tcirc :=
  flat_map (fun ti => map (pair (fst ti)) (restrict_instr labels l (snd ti))) R.

Lemma restrict_tagged_snd labels l R :
  map snd (restrict_tagged labels l R) = flat_map (restrict_instr labels l) (map snd R).
Proof.
  induction R as [|[t i] R IH]; simpl; [reflexivity|]. rewrite map_app, IH, map_map. simpl. now rewrite map_id.
Qed.

Lemma hproj_app q a b : hproj q (a ++ b) = hproj q a ++ hproj q b.
Proof. unfold hproj. apply filter_app. Qed.

Lemma is_id_barrier i : is_barrier i = true -> is_id i = true.
Proof. unfold is_barrier, is_id. destruct (iop i); try discriminate; reflexivity. Qed.

Theorem hproj_restrict labels l q : forall R,
  nth q labels None = Some l -> valid_labelling labels (map snd R) ->
  hproj q (restrict_tagged labels l R) = hproj q R.
Proof.
  induction R as [|[t i] R IH]; intros Eq V; [reflexivity|].
  change (restrict_tagged labels l ((t, i) :: R))
    with (map (pair t) (restrict_instr labels l i) ++ restrict_tagged labels l R).
  replace (hproj q ((t, i) :: R)) with (hproj q [(t, i)] ++ hproj q R) by (rewrite <- hproj_app; reflexivity).
  rewrite hproj_app. f_equal.
  - unfold restrict_instr. destruct (needs_split i) eqn:NS.
    + pose proof (is_id_barrier i (needs_split_barrier i NS)) as Ii.
      unfold hproj at 2. simpl. rewrite Ii. simpl.
      destruct (filter (in_l labels l) (iqs i)); reflexivity.
    + destruct (V i (or_introl eq_refl)) as [V1 _]. destruct (V1 NS) as [l' OL].
      pose proof OL as OL'. apply inst_label_iff in OL'. unfold of_l. rewrite OL'.
      unfold hproj. simpl. destruct (memb q (iqs i)) eqn:M.
      * apply memb_In in M. destruct OL as [_ A]. rewrite (A q M) in Eq. inversion Eq; subst l'.
        rewrite Nat.eqb_refl. simpl. apply memb_In in M. now rewrite M.
      * rewrite andb_false_r. destruct (l' =? l); simpl; [|reflexivity].
        now rewrite M, andb_false_r.
  - apply IH; auto. intros x Hx. apply V. now right.
Qed.

Theorem hproj_dropped labels q R :
  nth q labels None = None -> valid_labelling labels (map snd R) -> hproj q R = [].
Proof.
  intros Eq V. unfold hproj. apply filter_nil. intros ti Hti.
  destruct (memb q (iqs (snd ti))) eqn:M; [|apply andb_false_r]. exfalso.
  apply memb_In in M. assert (Hi : In (snd ti) (map snd R)) by now apply in_map.
  destruct (V _ Hi) as [V1 V2]. destruct (needs_split (snd ti)) eqn:NS.
  - destruct (V2 eq_refl q M) as [l El]. congruence.
  - destruct (V1 eq_refl) as [l [_ A]]. rewrite (A q M) in Eq. discriminate.
Qed.

Lemma tag_from_snd : forall c n, map snd (tag_from n c) = c.
Proof.
  induction c as [|i r IH]; intros n; simpl; [reflexivity|].
  destruct (creates_term i); simpl; now rewrite IH.
Qed.

Lemma tagc_snd c : map snd (tagc c) = c.
Proof. apply tag_from_snd. Qed.

(* ================= Part I.1: union-find with parents not larger than children ================= *)
Definition uf_wf (n : nat) (up : list nat) : Prop :=
  length up = n /\ forall i, i < n -> nth i up i <= i.

Lemma nth_default_self (up : list nat) i : length up <= i -> nth i up i = i.
Proof. intros H. now apply nth_overflow. Qed.

Lemma parent_le n up i : uf_wf n up -> nth i up i <= i.
Proof.
  intros [L W]. destruct (Nat.lt_ge_cases i n) as [H|H]; [now apply W|].
  rewrite nth_default_self; lia.
Qed.

Lemma find_fuel_indep n up : uf_wf n up -> forall f1 f2 i, i < f1 -> i < f2 ->
  find_fuel f1 up i = find_fuel f2 up i.
Proof.
  intros W. induction f1 as [|f1 IH]; intros f2 i H1 H2; [lia|].
  destruct f2 as [|f2]; [lia|]. simpl.
  destruct (Nat.eqb_spec (nth i up i) i) as [E|N]; [reflexivity|].
  pose proof (parent_le n up i W). apply IH; lia.
Qed.

Lemma find_step n up i : uf_wf n up ->
  find up i = if Nat.eqb (nth i up i) i then i else find up (nth i up i).
Proof.
  intros W. unfold find at 1. simpl.
  destruct (Nat.eqb_spec (nth i up i) i) as [E|N]; [reflexivity|].
  pose proof (parent_le n up i W). unfold find. apply (find_fuel_indep n up W); lia.
Qed.

Lemma find_props n up : uf_wf n up -> forall i,
  find up i <= i /\ nth (find up i) up (find up i) = find up i.
Proof.
  intros W i. induction i as [i IH] using lt_wf_ind.
  rewrite (find_step n up i W).
  destruct (Nat.eqb_spec (nth i up i) i) as [E|N]; [split; [lia|exact E]|].
  pose proof (parent_le n up i W). destruct (IH (nth i up i)) as [A B]; [lia|]. split; [lia|exact B].
Qed.

Lemma find_le n up i : uf_wf n up -> find up i <= i.
Proof. intros W. now destruct (find_props n up W i). Qed.

Lemma find_root n up i : uf_wf n up -> nth (find up i) up (find up i) = find up i.
Proof. intros W. now destruct (find_props n up W i). Qed.

Lemma find_of_root n up r : uf_wf n up -> nth r up r = r -> find up r = r.
Proof. intros W E. rewrite (find_step n up r W), E, Nat.eqb_refl. reflexivity. Qed.

Lemma find_idem n up i : uf_wf n up -> find up (find up i) = find up i.
Proof. intros W. apply (find_of_root n up _ W). now apply (find_root n). Qed.

Lemma find_is_root_iff n up r : uf_wf n up -> (find up r = r <-> nth r up r = r).
Proof.
  intros W. split; [|now apply (find_of_root n)]. intros E.
  pose proof (find_root n up r W) as R. rewrite E in R. exact R.
Qed.

(* linking root r1 below root r2 < r1 *)
Lemma link_wf n up r1 r2 : uf_wf n up -> r2 <= r1 -> uf_wf n (upd up r1 r2).
Proof.
  intros [L W] H. split; [now rewrite upd_length|]. intros i Hi.
  destruct (Nat.eq_dec r1 i) as [->|N].
  - rewrite nth_upd_same by lia. exact H.
  - rewrite nth_upd_other by exact N. now apply W.
Qed.

Lemma link_find n up r1 r2 : uf_wf n up -> r1 < n -> r2 < r1 ->
  nth r1 up r1 = r1 -> nth r2 up r2 = r2 ->
  forall x, find (upd up r1 r2) x = if Nat.eqb (find up x) r1 then r2 else find up x.
Proof.
  intros W Hr1 Hlt R1 R2.
  assert (W' : uf_wf n (upd up r1 r2)) by (apply link_wf; auto; lia).
  assert (L : length up = n) by apply W.
  intros x. induction x as [x IH] using lt_wf_ind.
  rewrite (find_step n _ x W'), (find_step n up x W).
  destruct (Nat.eq_dec x r1) as [->|N].
  - rewrite nth_upd_same by lia. rewrite R1, Nat.eqb_refl, Nat.eqb_refl.
    destruct (Nat.eqb_spec r2 r1); [lia|].
    rewrite (find_of_root n _ r2 W'); [reflexivity|]. rewrite nth_upd_other by lia. exact R2.
  - rewrite nth_upd_other by lia.
    destruct (Nat.eqb_spec (nth x up x) x) as [E|NE].
    + destruct (Nat.eqb_spec x r1); [congruence|reflexivity].
    + pose proof (parent_le n up x W). apply IH. lia.
Qed.

Lemma union_wf n up a b : uf_wf n up -> uf_wf n (union up a b).
Proof.
  intros W. unfold union. destruct (Nat.eqb (find up a) (find up b)); [exact W|].
  apply link_wf; auto. lia.
Qed.

Lemma union_find n up a b : uf_wf n up -> a < n -> b < n ->
  forall x, find (union up a b) x =
    let ra := find up a in let rb := find up b in
    if Nat.eqb ra rb then find up x
    else if Nat.eqb (find up x) (Nat.max ra rb) then Nat.min ra rb else find up x.
Proof.
  intros W Ha Hb x. cbv zeta. unfold union.
  destruct (Nat.eqb_spec (find up a) (find up b)) as [E|N]; [reflexivity|].
  pose proof (find_le n up a W). pose proof (find_le n up b W).
  pose proof (find_root n up a W) as Ra. pose proof (find_root n up b W) as Rb.
  apply (link_find n); auto; try lia.
  - destruct (Nat.max_spec (find up a) (find up b)) as [[_ ->]|[_ ->]]; assumption.
  - destruct (Nat.min_spec (find up a) (find up b)) as [[_ ->]|[_ ->]]; assumption.
Qed.

(* connectivity: the equivalence closure of the edge list *)
Definition edge_rel (es : list (nat * nat)) : relation nat := fun x y => In (x, y) es.
Definition conn (es : list (nat * nat)) : relation nat := clos_refl_sym_trans nat (edge_rel es).

Lemma conn_mono es es' x y : (forall e, In e es -> In e es') -> conn es x y -> conn es' x y.
Proof.
  intros S H. induction H as [x y H| | |].
  - apply rst_step. now apply S.
  - apply rst_refl.
  - now apply rst_sym.
  - eapply rst_trans; eauto.
Qed.

Definition uf_inv (n : nat) (es : list (nat * nat)) (up : list nat) : Prop :=
  uf_wf n up /\
  (forall x y, In (x, y) es -> find up x = find up y) /\
  (forall x, conn es x (find up x)).

Lemma uf_inv_init n : uf_inv n [] (seq 0 n).
Proof.
  assert (W : uf_wf n (seq 0 n)).
  { split; [apply seq_length|]. intros i Hi. rewrite seq_nth by exact Hi. simpl. lia. }
  split; [exact W|]. split; [intros ? ? []|].
  intros x. destruct (Nat.lt_ge_cases x n) as [H|H].
  - rewrite (find_of_root n _ x W); [apply rst_refl|]. now rewrite seq_nth.
  - rewrite (find_of_root n _ x W); [apply rst_refl|]. apply nth_default_self. now rewrite seq_length.
Qed.

Lemma uf_inv_step n es up a b : a < n -> b < n -> uf_inv n es up -> uf_inv n (es ++ [(a, b)]) (union up a b).
Proof.
  intros Ha Hb [W [A B]].
  assert (MONO : forall x y, conn es x y -> conn (es ++ [(a, b)]) x y).
  { intros x y. apply conn_mono. intros e He. apply in_or_app. now left. }
  assert (AB : conn (es ++ [(a, b)]) a b) by (apply rst_step; apply in_or_app; right; now left).
  assert (F := union_find n up a b W Ha Hb). cbv zeta in F.
  split; [now apply union_wf|]. split.
  - intros x y Hxy. rewrite (F x), (F y). apply in_app_or in Hxy as [Hxy|[Hxy|[]]].
    + now rewrite (A x y Hxy).
    + inversion Hxy; subst x y.
      destruct (Nat.eqb_spec (find up a) (find up b)) as [E|N]; [exact E|].
      destruct (Nat.max_spec (find up a) (find up b)) as [[Hlt EM]|[Hlt EM]];
      destruct (Nat.min_spec (find up a) (find up b)) as [[Hlt' Em]|[Hlt' Em]]; try lia; rewrite EM, Em.
      * destruct (Nat.eqb_spec (find up a) (find up b)); [lia|]. now rewrite Nat.eqb_refl.
      * rewrite Nat.eqb_refl. destruct (Nat.eqb_spec (find up b) (find up a)); [lia|reflexivity].
  - intros x. rewrite (F x).
    destruct (Nat.eqb_spec (find up a) (find up b)) as [E|N]; [apply MONO, B|].
    destruct (Nat.eqb_spec (find up x) (Nat.max (find up a) (find up b))) as [E2|N2]; [|apply MONO, B].
    (* x ~ max-root ~ (a or b) ~ (b or a) ~ min-root *)
    assert (XA : conn (es ++ [(a, b)]) x (Nat.max (find up a) (find up b))) by (rewrite <- E2; apply MONO, B).
    eapply rst_trans; [exact XA|].
    destruct (Nat.max_spec (find up a) (find up b)) as [[Hlt EM]|[Hlt EM]];
    destruct (Nat.min_spec (find up a) (find up b)) as [[Hlt' Em]|[Hlt' Em]]; try lia; rewrite EM, Em.
    + (* max = find b, min = find a *)
      eapply rst_trans; [apply rst_sym, MONO, B|]. eapply rst_trans; [apply rst_sym, AB|]. apply MONO, B.
    + (* max = find a, min = find b *)
      eapply rst_trans; [apply rst_sym, MONO, B|]. eapply rst_trans; [exact AB|]. apply MONO, B.
Qed.

Lemma uptree_inv n : forall es pre up,
  (forall e, In e es -> fst e < n /\ snd e < n) ->
  uf_inv n pre up ->
  uf_inv n (pre ++ es) (fold_left (fun up e => union up (fst e) (snd e)) es up).
Proof.
  induction es as [|[a b] r IH]; intros pre up HR I; simpl.
  - now rewrite app_nil_r.
  - replace (pre ++ (a, b) :: r) with ((pre ++ [(a, b)]) ++ r) by (rewrite <- app_assoc; reflexivity).
    apply IH; [intros e He; apply HR; now right|].
    destruct (HR (a, b) (or_introl eq_refl)) as [Ha Hb]. now apply uf_inv_step.
Qed.

Theorem uptree_spec n es : (forall e, In e es -> fst e < n /\ snd e < n) -> uf_inv n es (uptree n es).
Proof. intros HR. apply (uptree_inv n es [] (seq 0 n) HR (uf_inv_init n)). Qed.

(* union-find correctness: equal roots <-> connected *)
Theorem find_conn n es up : uf_inv n es up -> forall a b, find up a = find up b <-> conn es a b.
Proof.
  intros [W [A B]] a b. split.
  - intros E. eapply rst_trans; [apply B|]. rewrite E. apply rst_sym, B.
  - intros H. induction H as [x y H| | |]; auto; try congruence.
Qed.

(* a node that is no endpoint of any edge is connected only to itself *)
Lemma conn_isolated es q : (forall x y, In (x, y) es -> x <> q /\ y <> q) ->
  forall a b, conn es a b -> (a = q <-> b = q).
Proof.
  intros H a b C. induction C as [x y Hxy| | |]; try tauto.
  destruct (H x y Hxy). split; intros; subst; tauto.
Qed.

(* ================= Part I.2: _partition_labels_from_circuit ================= *)
Fixpoint which_last (subsets : list (list nat)) (q : nat) : option nat :=
  match subsets with
  | [] => None
  | s :: r => match which_last r q with
              | Some k => Some (S k)
              | None => if memb q s then Some 0 else None
              end
  end.

Lemma mark_length i : forall s (L : list label), length (fold_left (fun ls x => upd ls x (Some i)) s L) = length L.
Proof. induction s as [|x r IH]; intros L; simpl; auto. rewrite IH. apply upd_length. Qed.

Lemma mark_nth i : forall s (L : list label) q, (forall x, In x s -> x < length L) ->
  nth q (fold_left (fun ls x => upd ls x (Some i)) s L) None = if memb q s then Some i else nth q L None.
Proof.
  induction s as [|x r IH]; intros L q H; simpl; [reflexivity|].
  rewrite IH by (intros y Hy; rewrite upd_length; apply H; now right).
  destruct (Nat.eqb_spec q x) as [->|N]; simpl.
  - destruct (memb x r); [reflexivity|]. apply nth_upd_same. apply H. now left.
  - destruct (memb q r); [reflexivity|]. apply nth_upd_other. congruence.
Qed.

Lemma assign_length : forall subsets i (L : list label), length (assign_labels subsets i L) = length L.
Proof. induction subsets as [|s r IH]; intros i L; simpl; auto. now rewrite IH, mark_length. Qed.

Lemma assign_nth : forall subsets i (L : list label) q,
  (forall s x, In s subsets -> In x s -> x < length L) ->
  nth q (assign_labels subsets i L) None =
    match which_last subsets q with Some k => Some (i + k) | None => nth q L None end.
Proof.
  induction subsets as [|s r IH]; intros i L q H; simpl; [reflexivity|].
  rewrite IH by (intros s' x Hs Hx; rewrite mark_length; apply (H s'); [now right|assumption]).
  destruct (which_last r q) as [k|].
  - f_equal. lia.
  - rewrite mark_nth by (intros x Hx; apply (H s); [now left|assumption]).
    destruct (memb q s); [f_equal; lia|reflexivity].
Qed.

Definition class (n : nat) (up : list nat) (r : nat) : list nat :=
  filter (fun q => Nat.eqb (find up q) r) (seq 0 n).

Lemma class_in n up r q : In q (class n up r) <-> q < n /\ find up q = r.
Proof. unfold class. rewrite filter_In, in_seq, Nat.eqb_eq. intuition lia. Qed.

Lemma memb_class n up r q : q < n -> memb q (class n up r) = Nat.eqb (find up q) r.
Proof.
  intros Hq. destruct (Nat.eqb_spec (find up q) r) as [E|N].
  - apply memb_In, class_in. auto.
  - apply memb_false. intros X. apply class_in in X. tauto.
Qed.

Lemma which_last_classes n up q : q < n -> forall rs, NoDup rs ->
  which_last (map (class n up) rs) q = index_of (find up q) rs.
Proof.
  intros Hq. induction rs as [|r rs IH]; intros ND; simpl; [reflexivity|].
  inversion ND as [|? ? Hn ND']; subst. rewrite IH by assumption. rewrite memb_class by assumption.
  destruct (Nat.eqb_spec (find up q) r) as [E|N].
  - subst r. destruct (index_of (find up q) rs) as [k|] eqn:EI; [|reflexivity].
    exfalso. apply index_of_Some in EI as [H1 H2]. apply Hn. rewrite <- H2. now apply nth_In.
  - destruct (index_of (find up q) rs); reflexivity.
Qed.

Lemma filter_map_comm {A B} (P : B -> bool) (f : A -> B) l :
  filter P (map f l) = map f (filter (fun x => P (f x)) l).
Proof. induction l as [|x r IH]; simpl; [reflexivity|]. destruct (P (f x)); simpl; now rewrite IH. Qed.

Lemma filter_filter {A} (P Q : A -> bool) l : filter P (filter Q l) = filter (fun x => Q x && P x) l.
Proof.
  induction l as [|x r IH]; simpl; [reflexivity|]. destruct (Q x); simpl; [|exact IH].
  destruct (P x); now rewrite IH.
Qed.

Definition kroots (n : nat) (keep : bool) (c : circ) (up : list nat) : list nat :=
  filter (fun r => Nat.eqb (find up r) r && (keep || negb (is_idle_singleton c (class n up r)))) (seq 0 n).

Lemma kept_subsets_spec n keep c up :
  kept_subsets keep c (components n up) = map (class n up) (kroots n keep c up).
Proof.
  unfold kept_subsets, components, kroots. fold (class n up).
  destruct keep.
  - f_equal. apply filter_ext. intros r. simpl. now rewrite andb_true_r.
  - change (fun r : nat => filter (fun q : nat => find up q =? r) (seq 0 n)) with (class n up).
    rewrite filter_map_comm, filter_filter. reflexivity.
Qed.

Lemma kroots_in n keep c up r :
  In r (kroots n keep c up) <->
  r < n /\ find up r = r /\ (keep = true \/ is_idle_singleton c (class n up r) = false).
Proof.
  unfold kroots. rewrite filter_In, in_seq, andb_true_iff, Nat.eqb_eq, orb_true_iff, negb_true_iff. intuition lia.
Qed.

Lemma kroots_sorted n keep c up : StronglySorted lt (kroots n keep c up).
Proof. apply filter_seq_sorted. Qed.

Lemma kroots_NoDup n keep c up : NoDup (kroots n keep c up).
Proof. apply NoDup_filter, seq_NoDup. Qed.

Theorem auto_labels_nth n ignore keep c q : q < n ->
  nth q (auto_labels n ignore keep c) None =
  index_of (find (uptree n (edges ignore c)) q) (kroots n keep c (uptree n (edges ignore c))).
Proof.
  intros Hq. unfold auto_labels. rewrite kept_subsets_spec.
  rewrite assign_nth.
  - rewrite which_last_classes by (auto; apply kroots_NoDup).
    destruct (index_of _ _); [reflexivity|]. apply nth_repeat.
  - intros s x Hs Hx. apply in_map_iff in Hs as [r [<- _]]. apply class_in in Hx. now rewrite repeat_length.
Qed.

Lemma auto_labels_length n ignore keep c : length (auto_labels n ignore keep c) = n.
Proof. unfold auto_labels. now rewrite assign_length, repeat_length. Qed.

(* edges only join qubits that some instruction uses *)
Lemma all_pairs_in : forall qs x y, In (x, y) (all_pairs qs) -> In x qs /\ In y qs.
Proof.
  induction qs as [|q r IH]; simpl; intros x y H; [destruct H|].
  apply in_app_or in H as [H|H].
  - apply in_map_iff in H as [z [E Hz]]. inversion E; subst. auto.
  - destruct (IH x y H). auto.
Qed.

Lemma edges_touched ignore c x y : In (x, y) (edges ignore c) -> touched c x = true /\ touched c y = true.
Proof.
  unfold edges, touched. intros H. apply in_flat_map in H as [i [Hi H]].
  destruct (ignore i); [destruct H|]. apply all_pairs_in in H as [Hx Hy].
  split; apply existsb_exists; exists i; split; auto; now apply memb_In.
Qed.

Definition in_range (n : nat) (c : circ) : Prop := forall i q, In i c -> In q (iqs i) -> q < n.

Lemma edges_in_range n ignore c : in_range n c -> forall e, In e (edges ignore c) -> fst e < n /\ snd e < n.
Proof.
  intros R [x y] H. unfold edges in H. apply in_flat_map in H as [i [Hi H]].
  destruct (ignore i); [destruct H|]. apply all_pairs_in in H as [Hx Hy]. simpl. split; eapply R; eauto.
Qed.

Lemma filter_seq_singleton (f : nat -> bool) n q :
  q < n -> (forall x, x < n -> (f x = true <-> x = q)) -> filter f (seq 0 n) = [q].
Proof.
  intros Hq H.
  replace n with (q + S (n - S q)) by lia. rewrite seq_app. simpl. rewrite filter_app. simpl.
  assert (Fq : f q = true) by (apply H; [lia|reflexivity]). rewrite Fq.
  rewrite !filter_nil; [reflexivity| |].
  - intros x Hx. apply in_seq in Hx. destruct (f x) eqn:E; [|reflexivity]. apply H in E; lia.
  - intros x Hx. apply in_seq in Hx. destruct (f x) eqn:E; [|reflexivity]. apply H in E; lia.
Qed.

Section AutoLabels.
  Variable n : nat.
  Variable ignore : instr -> bool.
  Variable c : circ.
  Hypothesis RANGE : in_range n c.
  Let es := edges ignore c.
  Let up := uptree n es.

  Lemma up_inv : uf_inv n es up.
  Proof. apply uptree_spec. now apply edges_in_range. Qed.

  Lemma up_wf : uf_wf n up.
  Proof. apply up_inv. Qed.

  Lemma find_lt q : q < n -> find up q < n.
  Proof. intros H. pose proof (find_le n up q up_wf). lia. Qed.

  Lemma idle_class q : q < n ->
    (is_idle_singleton c (class n up (find up q)) = true <-> touched c q = false).
  Proof.
    intros Hq. split.
    - intros H. unfold is_idle_singleton in H.
      destruct (class n up (find up q)) as [|q' [|? ?]] eqn:EC; try discriminate.
      assert (Hin : In q (class n up (find up q))) by (apply class_in; auto).
      rewrite EC in Hin. destruct Hin as [->|[]]. now apply negb_true_iff in H.
    - intros T.
      assert (ISO : forall x y, In (x, y) es -> x <> q /\ y <> q).
      { intros x y Hxy. apply edges_touched in Hxy as [Tx Ty]. split; intros ->; congruence. }
      assert (ONLY : forall x, conn es q x -> x = q).
      { intros x Cx. apply (conn_isolated es q ISO q x Cx). reflexivity. }
      assert (Fq : find up q = q) by (apply ONLY; apply up_inv).
      rewrite Fq. unfold class. rewrite (filter_seq_singleton _ n q Hq).
      + simpl. now rewrite T.
      + intros x Hx. rewrite Nat.eqb_eq. split.
        * intros E. apply ONLY. apply (find_conn n es up up_inv). congruence.
        * intros ->. exact Fq.
  Qed.

  Let L (keep : bool) := auto_labels n ignore keep c.
  Let KR (keep : bool) := kroots n keep c up.

  (* exactly the idle qubits get None *)
  Theorem auto_idle q : q < n -> (nth q (L false) None = None <-> touched c q = false).
  Proof.
    intros Hq. unfold L. rewrite auto_labels_nth by exact Hq. fold es. fold up. rewrite <- (idle_class q Hq).
    split.
    - intros H. apply index_of_None in H.
      destruct (is_idle_singleton c (class n up (find up q))) eqn:E; [reflexivity|]. exfalso. apply H.
      apply kroots_in. split; [now apply find_lt|]. split; [apply (find_idem n); apply up_wf|now right].
    - intros H. destruct (index_of _ _) as [k|] eqn:E; [|reflexivity]. exfalso.
      apply index_of_Some in E as [E1 E2].
      assert (X : In (find up q) (kroots n false c up)) by (rewrite <- E2; now apply nth_In).
      apply kroots_in in X as [_ [_ [X|X]]]; congruence.
  Qed.

  Theorem auto_keep_idle q : q < n -> nth q (L true) None <> None.
  Proof.
    intros Hq. unfold L. rewrite auto_labels_nth by exact Hq. fold es. fold up. intros H.
    apply index_of_None in H. apply H. apply kroots_in.
    split; [now apply find_lt|]. split; [apply (find_idem n); apply up_wf|now left].
  Qed.

  (* two qubits share a label iff they are connected *)
  Theorem auto_conn keep a b k : a < n -> b < n -> nth a (L keep) None = Some k ->
    (nth b (L keep) None = Some k <-> conn es a b).
  Proof.
    intros Ha Hb. unfold L. rewrite !auto_labels_nth by assumption. fold es. fold up. intros EA.
    apply index_of_Some in EA as [A1 A2]. rewrite <- (find_conn n es up up_inv). split.
    - intros EB. apply index_of_Some in EB as [B1 B2]. congruence.
    - intros E. rewrite <- E, <- A2. apply index_of_nth_NoDup; [apply kroots_NoDup|exact A1].
  Qed.

  (* labels are consecutive from 0 ... *)
  Theorem auto_consecutive keep q k : q < n -> nth q (L keep) None = Some k ->
    forall j, j <= k -> exists q', q' < n /\ nth q' (L keep) None = Some j.
  Proof.
    intros Hq. unfold L. rewrite auto_labels_nth by assumption. fold es. fold up. intros E j Hj.
    apply index_of_Some in E as [E1 _].
    set (r := nth j (kroots n keep c up) 0).
    assert (Hr : In r (kroots n keep c up)) by (apply nth_In; lia).
    pose proof Hr as Hr'. apply kroots_in in Hr' as [R1 [R2 _]].
    exists r. split; [exact R1|]. rewrite auto_labels_nth by exact R1. fold es. fold up. rewrite R2.
    apply index_of_nth_NoDup; [apply kroots_NoDup|lia].
  Qed.

  (* ... ordered by the least qubit of each component *)
  Theorem auto_order keep q1 q2 k1 k2 : q1 < n -> q2 < n ->
    nth q1 (L keep) None = Some k1 -> nth q2 (L keep) None = Some k2 -> k1 < k2 ->
    exists r1, r1 < n /\ nth r1 (L keep) None = Some k1 /\ r1 <= q1 /\
               forall x, x < n -> nth x (L keep) None = Some k2 -> r1 < x.
  Proof.
    intros H1 H2. unfold L. rewrite !auto_labels_nth by assumption. fold es. fold up. intros E1 E2 Hlt.
    apply index_of_Some in E1 as [A1 A2]. apply index_of_Some in E2 as [B1 B2].
    exists (find up q1). split; [now apply find_lt|]. split; [|split].
    - rewrite auto_labels_nth by (now apply find_lt). fold es. fold up. rewrite (find_idem n) by apply up_wf.
      rewrite <- A2. apply index_of_nth_NoDup; [apply kroots_NoDup|exact A1].
    - apply (find_le n); apply up_wf.
    - intros x Hx. rewrite auto_labels_nth by exact Hx. fold es. fold up. intros EX.
      apply index_of_Some in EX as [X1 X2].
      pose proof (find_le n up x up_wf).
      assert (nth k1 (kroots n keep c up) 0 < nth k2 (kroots n keep c up) 0).
      { pose proof (kroots_sorted n keep c up) as SS. clear - SS Hlt B1.
        revert k1 k2 Hlt B1. induction SS as [|a l SS IH Hall]; intros k1 k2 Hlt B1; simpl in *; [lia|].
        destruct k2 as [|k2]; [lia|]. destruct k1 as [|k1].
        - rewrite Forall_forall in Hall. apply Hall. apply nth_In. lia.
        - apply IH; lia. }
      lia.
  Qed.
End AutoLabels.

(* ================= final statements about separate_circuit ================= *)
Definition sep_labels (n : nat) (c : circ) (labels : option (list label)) : list label :=
  match labels with
  | Some ls => ls
  | None => auto_labels n (fun _ => false) false (split_spec 0 c)
  end.

Lemma separate_circuit_unfold n cregs c labels r :
  separate_circuit n cregs c labels = Ok r ->
  has_empty_barrier c = false /\ separate_with n cregs (split_spec 0 c) (sep_labels n c labels) = Ok r.
Proof.
  unfold separate_circuit. destruct (has_empty_barrier c) eqn:E; [discriminate|].
  rewrite split_barriers_spec by exact E. destruct labels; auto.
Qed.

Theorem separate_spec n cregs c labels subs qm :
  no_uuid c ->
  separate_circuit n cregs c labels = Ok (subs, qm) ->
  let ls := sep_labels n c labels in
  length ls = n /\
  (* validity of the labelling: every ordinary instruction inside one non-None label, no barrier on a None qubit *)
  valid_labelling ls c /\
  (* one subcircuit per non-None label, in first-appearance order *)
  map (fun s : subcirc => fst (fst s)) subs = keys_of ls /\
  (* qubit_map: (label, rank among the qubits of that label) or (None, None) *)
  length qm = n /\ (forall q, q < n -> nth q qm None = qm_entry ls q) /\
  (* every subcircuit: the label's qubits ascending; its instructions are the original ones of that label, in
     order, each multi-qubit barrier restricted to the label's qubits, re-indexed *)
  forall l nq body, In (l, nq, body) subs ->
    In l (keys_of ls) /\
    nq = length (omembers ls l n) /\
    remap_all (omembers ls l n) (clbits_of cregs) (flat_map (restrict_instr ls l) c) = Some body.
Proof.
  intros NU H. cbv zeta. apply separate_circuit_unfold in H as [NEB H].
  destruct (separate_with_ok n cregs c 0 _ subs qm NU H) as [Ln [Eqm [VAL [KEYS BODY]]]].
  split; [exact Ln|]. split; [exact (valid_from_split _ c 0 VAL)|]. split; [exact KEYS|].
  subst qm. unfold qmap_of. rewrite map_length, seq_length. split; [exact Ln|]. split; [|exact BODY].
  intros q Hq. rewrite (map_nth_lt _ _ _ None 0) by (rewrite seq_length; lia). rewrite seq_nth by lia. reflexivity.
Qed.

Lemma valid_visible ls c : valid_labelling ls c -> visible (tagc c).
Proof.
  intros V ti Hti. assert (Hi : In (snd ti) c) by (rewrite <- (tagc_snd c); now apply in_map).
  destruct (V _ Hi) as [V1 _]. destruct (needs_split (snd ti)) eqn:NS.
  - left. apply is_id_barrier. now apply needs_split_barrier.
  - right. destruct (V1 eq_refl) as [l [NE _]]. exact NE.
Qed.

Theorem separate_recompose n cregs c labels subs qm :
  no_uuid c ->
  separate_circuit n cregs c labels = Ok (subs, qm) ->
  let ls := sep_labels n c labels in
  (* mapping a subcircuit back through the qubit map gives the original restricted to that label *)
  (forall l nq body, In (l, nq, body) subs ->
     map (unmap_instr (omembers ls l n) (clbits_of cregs)) body = flat_map (restrict_instr ls l) c) /\
  (* whose per-wire instruction sequences are the original ones *)
  (forall q l, nth q ls None = Some l -> wire_view q (flat_map (restrict_instr ls l) c) = wire_view q c) /\
  (forall q, nth q ls None = None -> wire_view q c = []) /\
  (* hence any interleaving of the (tagged) parts has the Herbrand denotation of the original *)
  (forall l, map snd (restrict_tagged ls l (tagc c)) = flat_map (restrict_instr ls l) c) /\
  forall nc (R : tcirc), visible R ->
    (forall q, hproj q R = match nth q ls None with
                           | Some l => hproj q (restrict_tagged ls l (tagc c))
                           | None => []
                           end) ->
    (forall k, cproj k R = cproj k (tagc c)) ->
    hrun (hinit n nc) R = denote n nc c.
Proof.
  intros NU H. cbv zeta. destruct (separate_spec n cregs c labels subs qm NU H) as [Ln [V [_ [_ [_ BODY]]]]].
  set (ls := sep_labels n c labels) in *.
  split; [|split; [|split; [|split]]].
  - intros l nq body Hin. destruct (BODY l nq body Hin) as [_ [_ RM]]. now apply remap_all_unmap.
  - intros q l Eq. now apply wire_view_restrict.
  - intros q Eq. now apply (wire_view_dropped ls).
  - intros l. now rewrite restrict_tagged_snd, tagc_snd.
  - intros nc R VR HQ HC. unfold denote. apply hrun_proj_eq; auto.
    + now apply (valid_visible ls).
    + intros q. rewrite HQ. destruct (nth q ls None) as [l|] eqn:Eq.
      * apply hproj_restrict; auto. now rewrite tagc_snd.
      * symmetry. apply (hproj_dropped ls); auto. now rewrite tagc_snd.
Qed.

(* ---- refusals ---- *)
Lemma in_split_inv x : forall c u, In x (split_spec u c) -> In x c \/ exists v q, x = piece v q.
Proof.
  induction c as [|i r IH]; intros u H; simpl in H; [destruct H|].
  destruct (needs_split i).
  - apply in_app_or in H as [H|H].
    + right. apply in_map_iff in H as [q [<- _]]. eauto.
    + destruct (IH _ H) as [A|A]; [left; now right|now right].
  - destruct H as [<-|H]; [left; now left|]. destruct (IH _ H) as [A|A]; [left; now right|now right].
Qed.

Lemma no_empty_barrier c : no_empty_instr c -> has_empty_barrier c = false.
Proof.
  intros NE. unfold has_empty_barrier. destruct (existsb _ c) eqn:E; [|reflexivity]. exfalso.
  apply existsb_exists in E as [i [Hi E]]. apply andb_true_iff in E as [_ E]. apply Nat.eqb_eq in E.
  apply (NE i Hi). now apply length_zero_iff_nil.
Qed.

Definition bad_instr (ls : list label) (i : instr) : Prop :=
  (exists q, In q (iqs i) /\ nth q ls None = None) \/
  (needs_split i = false /\ exists q q', In q (iqs i) /\ In q' (iqs i) /\ nth q ls None <> nth q' ls None).

Lemma bad_not_valid ls c i : In i c -> bad_instr ls i -> ~ valid_labelling ls c.
Proof.
  intros Hi B V. destruct (V i Hi) as [V1 V2]. destruct B as [[q [Hq Eq]]|[NS [q [q' [Hq [Hq' N]]]]]].
  - destruct (needs_split i) eqn:NS.
    + destruct (V2 eq_refl q Hq) as [l El]. congruence.
    + destruct (V1 eq_refl) as [l [_ A]]. rewrite (A q Hq) in Eq. discriminate.
  - destruct (V1 NS) as [l [_ A]]. apply N. now rewrite (A q Hq), (A q' Hq').
Qed.

Theorem separate_refuses n cregs c ls :
  no_empty_instr c ->
  length ls <> n \/ (exists i, In i c /\ bad_instr ls i) ->
  separate_circuit n cregs c (Some ls) = Refused.
Proof.
  intros NE B. unfold separate_circuit. rewrite (no_empty_barrier c NE).
  rewrite split_barriers_spec by (now apply no_empty_barrier). unfold separate_with.
  destruct (Nat.eqb_spec (length ls) n) as [Ln|Ln]; [|reflexivity]. simpl.
  destruct B as [B|[i [Hi B]]]; [contradiction|].
  rewrite qubit_map_spec. fold (qmap_of ls).
  destruct (separate_instructions (split_spec 0 c) (qmap_of ls)) as [ids| |] eqn:ES; [|reflexivity|].
  - exfalso. apply separate_instructions_ok in ES as [VAL _].
    exact (bad_not_valid ls c i Hi B (valid_from_split ls c 0 VAL)).
  - exfalso. revert ES. apply sep_loop_not_crashed. intros x Hx.
    destruct (in_split_inv x c 0 Hx) as [A|[v [q ->]]]; [now apply NE|discriminate].
Qed.

(* ---- automatic labelling inside separate_circuit: applied to the barrier-split circuit ---- *)
Lemma touched_pieces u q qs : existsb (fun x => memb q (iqs x)) (map (piece u) qs) = memb q qs.
Proof.
  induction qs as [|q0 r IH]; simpl; [reflexivity|]. rewrite IH. now rewrite orb_false_r.
Qed.

Lemma touched_split q : forall c u, touched (split_spec u c) q = touched c q.
Proof.
  unfold touched. induction c as [|i r IH]; intros u; simpl; [reflexivity|].
  destruct (needs_split i).
  - rewrite existsb_app, touched_pieces, IH. reflexivity.
  - simpl. now rewrite IH.
Qed.

Lemma in_split_inv2 x : forall c u, In x (split_spec u c) ->
  In x c \/ exists v q i, x = piece v q /\ In i c /\ In q (iqs i).
Proof.
  induction c as [|i r IH]; intros u H; simpl in H; [destruct H|].
  destruct (needs_split i).
  - apply in_app_or in H as [H|H].
    + right. apply in_map_iff in H as [q [<- Hq]]. exists u, q, i. repeat split; auto. now left.
    + destruct (IH _ H) as [A|[v [q [j [E [Hj Hq]]]]]]; [left; now right|].
      right. exists v, q, j. repeat split; auto. now right.
  - destruct H as [<-|H]; [left; now left|].
    destruct (IH _ H) as [A|[v [q [j [E [Hj Hq]]]]]]; [left; now right|].
    right. exists v, q, j. repeat split; auto. now right.
Qed.

Lemma in_range_split n c u : in_range n c -> in_range n (split_spec u c).
Proof.
  intros R x q Hx Hq. destruct (in_split_inv2 x c u Hx) as [A|[v [q' [i [-> [Hi Hq']]]]]].
  - exact (R x q A Hq).
  - simpl in Hq. destruct Hq as [<-|[]]. exact (R i q' Hi Hq').
Qed.

(* under automatic labelling exactly the idle qubits are dropped *)
Theorem separate_auto_idle n cregs c subs qm :
  no_uuid c -> in_range n c ->
  separate_circuit n cregs c None = Ok (subs, qm) ->
  forall q, q < n -> (nth q qm None = None <-> touched c q = false).
Proof.
  intros NU R H q Hq.
  destruct (separate_spec n cregs c None subs qm NU H) as [_ [_ [_ [_ [QM _]]]]].
  rewrite (QM q Hq). simpl sep_labels. unfold qm_entry.
  rewrite <- (touched_split q c 0).
  rewrite <- (auto_idle n (fun _ => false) (split_spec 0 c) (in_range_split n c 0 R) q Hq).
  destruct (nth q (auto_labels n (fun _ : instr => false) false (split_spec 0 c)) None); split; congruence.
Qed.

(* ---- conjunctions quoted verbatim by Properties/C10.v ---- *)
Lemma omembers_spec ls l n j :
  (In j (omembers ls l n) <-> j < n /\ nth j ls None = Some l) /\ StronglySorted lt (omembers ls l n).
Proof. split; [apply omembers_in|apply omembers_sorted]. Qed.

Lemma union_find_spec n es :
  (forall e, In e es -> fst e < n /\ snd e < n) ->
  forall a b, find (uptree n es) a = find (uptree n es) b <-> conn es a b.
Proof. intros H. exact (find_conn n es _ (uptree_spec n es H)). Qed.

Lemma auto_labels_spec n ignore c :
  in_range n c ->
  let L := auto_labels n ignore false c in
  length L = n /\
  (forall q, q < n -> (nth q L None = None <-> touched c q = false)) /\
  (forall a b k, a < n -> b < n -> nth a L None = Some k ->
     (nth b L None = Some k <-> conn (edges ignore c) a b)) /\
  (forall q k, q < n -> nth q L None = Some k -> forall j, j <= k -> exists q', q' < n /\ nth q' L None = Some j) /\
  (forall q1 q2 k1 k2, q1 < n -> q2 < n -> nth q1 L None = Some k1 -> nth q2 L None = Some k2 -> k1 < k2 ->
     exists r1, r1 < n /\ nth r1 L None = Some k1 /\ r1 <= q1 /\
                forall x, x < n -> nth x L None = Some k2 -> r1 < x).
Proof.
  intros R. cbv zeta. split; [apply auto_labels_length|]. split; [exact (auto_idle n ignore c R)|].
  split; [exact (auto_conn n ignore c R false)|]. split; [exact (auto_consecutive n ignore c false)|].
  exact (auto_order n ignore c R false).
Qed.

Lemma keep_idle_spec n ignore c q : in_range n c -> q < n -> nth q (auto_labels n ignore true c) None <> None.
Proof. intros R. exact (auto_keep_idle n ignore c R q). Qed.

(* ================= totality: a valid labelling is never refused ================= *)
Lemma in_split_inv3 x : forall c u, In x (split_spec u c) ->
  needs_split x = false /\
  (In x c \/ exists v q i, x = piece v q /\ In i c /\ needs_split i = true /\ In q (iqs i)).
Proof.
  induction c as [|i r IH]; intros u H; simpl in H; [destruct H|].
  destruct (needs_split i) eqn:NS.
  - apply in_app_or in H as [H|H].
    + apply in_map_iff in H as [q [<- Hq]]. split; [reflexivity|]. right. exists u, q, i. repeat split; auto. now left.
    + destruct (IH _ H) as [A [B|[v [q [j [E [Hj [Nj Hq]]]]]]]]; (split; [exact A|]); [left; now right|].
      right. exists v, q, j. repeat split; auto. now right.
  - destruct H as [<-|H]; [split; [exact NS|left; now left]|].
    destruct (IH _ H) as [A [B|[v [q [j [E [Hj [Nj Hq]]]]]]]]; (split; [exact A|]); [left; now right|].
    right. exists v, q, j. repeat split; auto. now right.
Qed.

Lemma valid_split_labels ls c u : valid_labelling ls c ->
  forall inst, In inst (split_spec u c) -> exists l, inst_label ls inst = Some l.
Proof.
  intros V inst Hin. destruct (in_split_inv3 inst c u Hin) as [NS [Hc|[v [q [i [-> [Hi [NSi Hq]]]]]]]].
  - destruct (V inst Hc) as [V1 _]. destruct (V1 NS) as [l OL]. exists l. now apply inst_label_iff.
  - destruct (V i Hi) as [_ V2]. destruct (V2 NSi q Hq) as [l El]. exists l. now rewrite inst_label_piece.
Qed.

Lemma remap_all_total qs cl : forall c,
  (forall i, In i c -> incl (iqs i) qs /\ incl (ics i) cl) -> exists c', remap_all qs cl c = Some c'.
Proof.
  induction c as [|i r IH]; intros H; simpl; [eauto|].
  destruct (H i (or_introl eq_refl)) as [Hq Hc].
  destruct (find_all_total _ _ Hq) as [a Ea]. destruct (find_all_total _ _ Hc) as [b Eb].
  unfold remap_instr. rewrite Ea, Eb.
  destruct IH as [r' Er]; [intros x Hx; apply H; now right|]. rewrite Er. simpl. eauto.
Qed.

Lemma build_subcircuits_total sc qbs cl : forall ids,
  (forall id, In id ids -> exists body,
      remap_all (lookup (fst id) qbs) cl (map (fun j => nth j sc dummy_instr) (snd id)) = Some body) ->
  exists subs, build_subcircuits sc qbs cl ids = Some subs.
Proof.
  induction ids as [|[l idxs] r IH]; intros H; simpl; [eauto|].
  destruct (H (l, idxs) (or_introl eq_refl)) as [body Eb]. simpl in Eb. rewrite Eb.
  destruct IH as [t Et]; [intros id Hid; apply H; now right|]. rewrite Et. simpl. eauto.
Qed.

Definition clbits_ok (cregs : list (list nat)) (c : circ) : Prop :=
  forall i k, In i c -> In k (ics i) -> In k (clbits_of cregs).

(* every request with a valid labelling is answered *)
Theorem separate_total n cregs c ls :
  no_empty_instr c -> length ls = n -> valid_labelling ls c -> clbits_ok cregs c ->
  exists subs, separate_circuit n cregs c (Some ls) = Ok (subs, qmap_of ls).
Proof.
  intros NE Ln V CL. unfold separate_circuit. rewrite (no_empty_barrier c NE).
  rewrite split_barriers_spec by (now apply no_empty_barrier). unfold separate_with.
  rewrite Ln, Nat.eqb_refl. simpl. rewrite qubit_map_spec. fold (qmap_of ls).
  pose proof (valid_split_labels ls c 0 V) as VAL.
  unfold separate_instructions.
  destruct (sep_loop_total ls (split_spec 0 c) 0
              (map (fun l => (l, [])) (unique_by_eq (qm_labels (qmap_of ls)))) VAL) as [ids ES].
  rewrite ES.
  assert (ES' : separate_instructions (split_spec 0 c) (qmap_of ls) = Ok ids) by exact ES.
  apply separate_instructions_ok in ES' as [_ Eids].
  pose proof (ogroups_spec ls) as OI. rewrite Ln in OI.
  destruct (build_subcircuits_total (split_spec 0 c) (ogroups ls 0 []) (clbits_of cregs) ids) as [subs EB].
  - intros [l idxs] Hid. rewrite Eids in Hid. apply in_map_iff in Hid as [l' [E Hl']]. inversion E; subst l' idxs.
    simpl. rewrite (OInv_lookup _ _ _ l OI). rewrite (sel_filter0 ls l dummy_instr (split_spec 0 c)).
    apply remap_all_total. intros inst Hinst. apply filter_In in Hinst as [Hinst HL].
    apply okey_beq_eq in HL. apply inst_label_iff in HL as [_ A]. split.
    + intros q Hq. apply omembers_in. split; [|now apply A].
      specialize (A q Hq). destruct (Nat.lt_ge_cases q n) as [L|L]; [exact L|].
      rewrite nth_overflow in A by lia. discriminate.
    + intros k Hk. destruct (in_split_inv3 inst c 0 Hinst) as [_ [Hc|[v [q [i [-> _]]]]]].
      * exact (CL inst k Hc Hk).
      * destruct Hk.
  - rewrite EB. eauto.
Qed.

(* ================= automatic labels = connected components, stated on instructions ================= *)
Definition linked (ignore : instr -> bool) (c : circ) : relation nat :=
  fun a b => exists i, In i c /\ ignore i = false /\ In a (iqs i) /\ In b (iqs i).
Definition connected (ignore : instr -> bool) (c : circ) : relation nat :=
  clos_refl_sym_trans nat (linked ignore c).
Definition untouched (c : circ) (q : nat) : Prop := forall i, In i c -> ~ In q (iqs i).

Lemma all_pairs_complete : forall qs a b, In a qs -> In b qs ->
  a = b \/ In (a, b) (all_pairs qs) \/ In (b, a) (all_pairs qs).
Proof.
  induction qs as [|q r IH]; intros a b Ha Hb; [destruct Ha|]. simpl.
  destruct Ha as [<-|Ha], Hb as [<-|Hb].
  - now left.
  - right; left. apply in_or_app. left. now apply in_map.
  - right; right. apply in_or_app. left. now apply in_map.
  - destruct (IH a b Ha Hb) as [E|[E|E]]; [now left|right; left|right; right]; apply in_or_app; now right.
Qed.

Lemma conn_connected ignore c a b : conn (edges ignore c) a b <-> connected ignore c a b.
Proof.
  split; intros H.
  - induction H as [x y H| | |]; [|apply rst_refl|now apply rst_sym|eapply rst_trans; eauto].
    apply rst_step. unfold edge_rel, edges in H. apply in_flat_map in H as [i [Hi H]].
    destruct (ignore i) eqn:IG; [destruct H|]. apply all_pairs_in in H as [Hx Hy]. exists i. auto.
  - induction H as [x y H| | |]; [|apply rst_refl|now apply rst_sym|eapply rst_trans; eauto].
    destruct H as [i [Hi [IG [Hx Hy]]]].
    assert (E : forall u v, In (u, v) (all_pairs (iqs i)) -> In (u, v) (edges ignore c)).
    { intros u v Huv. unfold edges. apply in_flat_map. exists i. split; [exact Hi|]. now rewrite IG. }
    destruct (all_pairs_complete (iqs i) x y Hx Hy) as [->|[P|P]].
    + apply rst_refl.
    + apply rst_step. now apply E.
    + apply rst_sym, rst_step. now apply E.
Qed.

Lemma touched_false_iff c q : touched c q = false <-> untouched c q.
Proof.
  unfold touched, untouched. split.
  - intros H i Hi Hq. assert (X : existsb (fun i0 => memb q (iqs i0)) c = true).
    { apply existsb_exists. exists i. split; [exact Hi|now apply memb_In]. } congruence.
  - intros H. destruct (existsb _ c) eqn:E; [|reflexivity]. apply existsb_exists in E as [i [Hi M]].
    apply memb_In in M. exfalso. exact (H i Hi M).
Qed.

(* the labels are the connected components of the non-ignored instructions, numbered from 0 by least qubit;
   a qubit is labelled None iff NO instruction at all (ignored ones included) touches it *)
Theorem auto_components n ignore c :
  in_range n c ->
  let L := auto_labels n ignore false c in
  length L = n /\
  (forall q, q < n -> (nth q L None = None <-> untouched c q)) /\
  (forall a b, a < n -> b < n -> nth a L None <> None ->
     (nth a L None = nth b L None <-> connected ignore c a b)) /\
  (forall q k, q < n -> nth q L None = Some k -> forall j, j <= k -> exists q', q' < n /\ nth q' L None = Some j) /\
  (forall q1 q2 k1 k2, q1 < n -> q2 < n -> nth q1 L None = Some k1 -> nth q2 L None = Some k2 -> k1 < k2 ->
     exists r1, r1 < n /\ nth r1 L None = Some k1 /\ r1 <= q1 /\ forall x, x < n -> nth x L None = Some k2 -> r1 < x).
Proof.
  intros R. destruct (auto_labels_spec n ignore c R) as [A [B [C [D E]]]]. cbv zeta.
  split; [exact A|]. split; [|split; [|split; [exact D|exact E]]].
  - intros q Hq. rewrite <- touched_false_iff. now apply B.
  - intros a b Ha Hb NN. destruct (nth a (auto_labels n ignore false c) None) as [k|] eqn:EA; [|congruence].
    rewrite <- conn_connected. rewrite <- (C a b k Ha Hb EA). split; [intros <-; reflexivity|intros ->; reflexivity].
Qed.
(* ================= totality under automatic labelling ================= *)
Theorem separate_with_total n cregs c ls :
  no_empty_instr c -> length ls = n -> valid_labelling ls c -> clbits_ok cregs c ->
  exists subs, separate_with n cregs (split_spec 0 c) ls = Ok (subs, qmap_of ls).
Proof.
  intros NE Ln V CL. unfold separate_with.
  rewrite Ln, Nat.eqb_refl. simpl. rewrite qubit_map_spec. fold (qmap_of ls).
  pose proof (valid_split_labels ls c 0 V) as VAL.
  unfold separate_instructions.
  destruct (sep_loop_total ls (split_spec 0 c) 0
              (map (fun l => (l, [])) (unique_by_eq (qm_labels (qmap_of ls)))) VAL) as [ids ES].
  rewrite ES.
  assert (ES' : separate_instructions (split_spec 0 c) (qmap_of ls) = Ok ids) by exact ES.
  apply separate_instructions_ok in ES' as [_ Eids].
  pose proof (ogroups_spec ls) as OI. rewrite Ln in OI.
  destruct (build_subcircuits_total (split_spec 0 c) (ogroups ls 0 []) (clbits_of cregs) ids) as [subs EB].
  - intros [l idxs] Hid. rewrite Eids in Hid. apply in_map_iff in Hid as [l' [E Hl']]. inversion E; subst l' idxs.
    simpl. rewrite (OInv_lookup _ _ _ l OI). rewrite (sel_filter0 ls l dummy_instr (split_spec 0 c)).
    apply remap_all_total. intros inst Hinst. apply filter_In in Hinst as [Hinst HL].
    apply okey_beq_eq in HL. apply inst_label_iff in HL as [_ A]. split.
    + intros q Hq. apply omembers_in. split; [|now apply A].
      specialize (A q Hq). destruct (Nat.lt_ge_cases q n) as [L|L]; [exact L|].
      rewrite nth_overflow in A by lia. discriminate.
    + intros k Hk. destruct (in_split_inv3 inst c 0 Hinst) as [_ [Hc|[v [q [i [-> _]]]]]].
      * exact (CL inst k Hc Hk).
      * destruct Hk.
  - rewrite EB. eauto.
Qed.

(* the automatic labelling of separate_circuit (computed on the barrier-split circuit) is a valid labelling *)
Lemma auto_labelling_valid n c :
  no_empty_instr c -> in_range n c ->
  valid_labelling (auto_labels n (fun _ => false) false (split_spec 0 c)) c.
Proof.
  intros NE R. set (sc := split_spec 0 c). set (L := auto_labels n (fun _ => false) false sc).
  destruct (auto_components n (fun _ => false) sc (in_range_split n c 0 R)) as [LN [IDLE [CONN _]]]. fold L in LN, IDLE, CONN.
  assert (LAB : forall i q, In i c -> In q (iqs i) -> exists l, nth q L None = Some l).
  { intros i q Hi Hq. destruct (nth q L None) as [l|] eqn:E; [eauto|]. exfalso.
    apply (IDLE q (R i q Hi Hq)) in E. apply touched_false_iff in E. unfold sc in E. rewrite touched_split in E.
    apply touched_false_iff in E. exact (E i Hi Hq). }
  intros i Hi. split.
  - intros NS. destruct (iqs i) as [|q0 r] eqn:EQ; [exfalso; exact (NE i Hi EQ)|].
    destruct (LAB i q0 Hi) as [l El]; [rewrite EQ; now left|]. exists l. split; [rewrite EQ; discriminate|].
    intros q Hq. rewrite EQ in Hq.
    assert (Hq0 : In q0 (iqs i)) by (rewrite EQ; now left).
    assert (Hq' : In q (iqs i)) by (rewrite EQ; exact Hq).
    rewrite <- El. symmetry. apply (CONN q0 q (R i q0 Hi Hq0) (R i q Hi Hq')); [congruence|].
    apply rst_step. exists i. repeat split; auto. unfold sc. now apply in_split_plain.
  - intros _ q Hq. exact (LAB i q Hi Hq).
Qed.

Theorem separate_total_auto n cregs c :
  no_empty_instr c -> in_range n c -> clbits_ok cregs c ->
  exists subs qm, separate_circuit n cregs c None = Ok (subs, qm).
Proof.
  intros NE R CL. unfold separate_circuit. rewrite (no_empty_barrier c NE).
  rewrite split_barriers_spec by (now apply no_empty_barrier).
  destruct (separate_with_total n cregs c (auto_labels n (fun _ => false) false (split_spec 0 c)) NE) as [subs E]; auto.
  - apply auto_labels_length.
  - now apply auto_labelling_valid.
  - eauto.
Qed.

(* ================= instance tags are names: re-tagging a circuit renames the tags inside its denotation ================= *)
Fixpoint rn (f : nat -> nat) (t : wt) : wt :=
  match t with
  | Zero => Zero
  | App inst g k args => App (f inst) g k (map (rn f) args)
  | PostM t' => PostM (rn f t')
  end.
Definition rn_state (f : nat -> nat) (s : hstate) : hstate :=
  mkH (map (rn f) (hw s)) (map (option_map (rn f)) (hc s)).

Lemma upd_map {A B} (g : A -> B) : forall (w : list A) i v, upd (map g w) i (g v) = map g (upd w i v).
Proof. induction w as [|x w IH]; intros [|i] v; simpl; auto. now rewrite IH. Qed.

Lemma apply_w_map {A B} (g : A -> B) (l : list (nat * A)) : forall w,
  apply_w (map g w) (map (fun p => (fst p, g (snd p))) l) = map g (apply_w w l).
Proof.
  induction l as [|[i v] r IH]; intros w; simpl; [reflexivity|]. rewrite upd_map. apply IH.
Qed.

Lemma wire_rn f s q : wire (rn_state f s) q = rn f (wire s q).
Proof. unfold wire, rn_state. simpl. change Zero with (rn f Zero) at 1. apply map_nth. Qed.

Lemma out_writes_rn f tag g args : forall qs k,
  out_writes (f tag) g (map (rn f) args) qs k = map (fun p => (fst p, rn f (snd p))) (out_writes tag g args qs k).
Proof.
  unfold out_writes. induction qs as [|q r IH]; intros k; simpl; [reflexivity|]. f_equal. apply IH.
Qed.

Lemma qwrites_rn f rd t i :
  qwrites (fun q => rn f (rd q)) (f t, i) = map (fun p => (fst p, rn f (snd p))) (qwrites rd (t, i)).
Proof.
  unfold qwrites.
  assert (EM : map (fun q => rn f (rd q)) (iqs i) = map (rn f) (map rd (iqs i))) by (now rewrite map_map).
  destruct (iop i); try reflexivity; try (rewrite EM; apply out_writes_rn).
  - destruct (iqs i) as [|q r]; [reflexivity|]. destruct (ics i); reflexivity.
  - destruct (iqs i) as [|q r]; reflexivity.
  - destruct (iqs i) as [|a [|b r]]; reflexivity.
  - destruct (iqs i) as [|q r]; reflexivity.
Qed.

Lemma cwrites_rn f rd t i :
  cwrites (fun q => rn f (rd q)) (f t, i) = map (fun p => (fst p, option_map (rn f) (snd p))) (cwrites rd (t, i)).
Proof.
  unfold cwrites. simpl. destruct (iop i); try reflexivity.
  destruct (iqs i) as [|q r]; [reflexivity|]. destruct (ics i); reflexivity.
Qed.

Lemma hstep_rn f s t i : hstep (rn_state f s) (f t, i) = rn_state f (hstep s (t, i)).
Proof.
  rewrite (hstep_writes (rn_state f s)), (hstep_writes s).
  rewrite (qwrites_ext (wire (rn_state f s)) (fun q => rn f (wire s q))) by (intros q _; apply wire_rn).
  rewrite (cwrites_ext (wire (rn_state f s)) (fun q => rn f (wire s q))) by (intros q _; apply wire_rn).
  rewrite qwrites_rn, cwrites_rn. unfold rn_state. simpl.
  now rewrite (apply_w_map (rn f)), (apply_w_map (option_map (rn f))).
Qed.

Lemma hstep_tag_irrelevant s t t' i : creates_term i = false -> hstep s (t, i) = hstep s (t', i).
Proof. unfold creates_term, hstep. destruct (iop i); try discriminate; reflexivity. Qed.

Definition ctags (R : tcirc) : list nat := map fst (filter (fun ti => creates_term (snd ti)) R).

Lemma hrun_retag f : forall R R' s,
  map snd R' = map snd R -> ctags R' = map f (ctags R) ->
  hrun (rn_state f s) R' = rn_state f (hrun s R).
Proof.
  induction R as [|[t i] R IH]; intros [|[t' i'] R'] s ES ET; try discriminate; [reflexivity|].
  simpl in ES. inversion ES as [[Ei ER]]. subst i'.
  change (hrun (rn_state f s) ((t', i) :: R')) with (hrun (hstep (rn_state f s) (t', i)) R').
  change (hrun s ((t, i) :: R)) with (hrun (hstep s (t, i)) R).
  unfold ctags in ET. simpl in ET. destruct (creates_term i) eqn:CT; simpl in ET.
  - inversion ET as [[Et ET']]. rewrite hstep_rn. apply IH; auto.
  - rewrite (hstep_tag_irrelevant _ t' (f t) i CT), hstep_rn. apply IH; auto.
Qed.

Lemma map_repeat' {A B} (g : A -> B) x n : map g (repeat x n) = repeat (g x) n.
Proof. induction n; simpl; congruence. Qed.

Lemma rn_state_init f n nc : rn_state f (hinit n nc) = hinit n nc.
Proof.
  unfold rn_state, hinit. simpl. now rewrite !map_repeat'.
Qed.

(* a renaming that sends the (distinct) creator tags of R to the program-order tags of the circuit map snd R *)
Definition retag_fun (olds news : list nat) (t : nat) : nat :=
  match index_of t olds with Some j => nth j news t | None => t end.

Lemma retag_fun_spec olds news : NoDup olds -> length olds = length news -> map (retag_fun olds news) olds = news.
Proof.
  intros ND L. apply nth_ext with (d := retag_fun olds news 0) (d' := 0); [now rewrite map_length|].
  intros j Hj. rewrite map_length in Hj. rewrite map_nth. unfold retag_fun at 1.
  rewrite index_of_nth_NoDup by assumption. apply nth_indep. lia.
Qed.

Lemma retag_fun_inj olds news a b : NoDup olds -> NoDup news -> length olds = length news ->
  In a olds -> In b olds -> retag_fun olds news a = retag_fun olds news b -> a = b.
Proof.
  intros NO NN L Ha Hb E. apply In_nth with (d := 0) in Ha as [i [Hi <-]]. apply In_nth with (d := 0) in Hb as [j [Hj <-]].
  unfold retag_fun in E. rewrite !index_of_nth_NoDup in E by assumption.
  f_equal. apply (proj1 (NoDup_nth news 0) NN); [lia|lia|].
  rewrite (nth_indep news _ 0) in E by lia. rewrite (nth_indep news (nth j olds 0) 0) in E by lia. exact E.
Qed.

Lemma ctags_length_snd : forall R R', map snd R' = map snd R -> length (ctags R') = length (ctags R).
Proof.
  induction R as [|[t i] R IH]; intros [|[t' i'] R'] E; try discriminate; [reflexivity|]. simpl in E. inversion E; subst.
  unfold ctags. simpl. destruct (creates_term i); simpl; [f_equal|]; now apply IH.
Qed.

(* the literally recomposed circuit: forget the tags, let denote re-tag in program order *)
Theorem denote_retag n nc R :
  NoDup (ctags R) ->
  let f := retag_fun (ctags R) (ctags (tagc (map snd R))) in
  denote n nc (map snd R) = rn_state f (hrun (hinit n nc) R) /\
  (forall a b, In a (ctags R) -> In b (ctags R) -> NoDup (ctags (tagc (map snd R))) -> f a = f b -> a = b).
Proof.
  intros ND f.
  assert (L : length (ctags R) = length (ctags (tagc (map snd R)))).
  { symmetry. apply ctags_length_snd. apply tagc_snd. }
  split.
  - unfold denote. rewrite <- (rn_state_init f n nc) at 1. apply hrun_retag; [apply tagc_snd|].
    symmetry. now apply retag_fun_spec.
  - intros a b Ha Hb NN. now apply retag_fun_inj.
Qed.

(* program-order tags of creators are distinct *)
Lemma tag_from_ctags : forall c k, ctags (tag_from k c) = seq k (length (filter creates_term c)).
Proof.
  unfold ctags. induction c as [|i r IH]; intros k; simpl; [reflexivity|].
  destruct (creates_term i) eqn:CT; simpl; rewrite CT; simpl; [f_equal|]; apply IH.
Qed.

Lemma tagc_ctags_NoDup c : NoDup (ctags (tagc c)).
Proof. unfold tagc. rewrite tag_from_ctags. apply seq_NoDup. Qed.

(* c10_recompose on the literally recomposed circuit: forget the instance tags of the interleaving R; its denotation
   (tags re-assigned in program order) is the denotation of the original with the instance tags renamed by f, and f is
   injective on the tags in use *)
Theorem separate_recompose_circuit n cregs c labels subs qm :
  no_uuid c ->
  separate_circuit n cregs c labels = Ok (subs, qm) ->
  let ls := sep_labels n c labels in
  forall nc (R : tcirc), visible R ->
    (forall q, hproj q R = match nth q ls None with
                           | Some l => hproj q (restrict_tagged ls l (tagc c))
                           | None => []
                           end) ->
    (forall k, cproj k R = cproj k (tagc c)) ->
    NoDup (ctags R) ->
    let f := retag_fun (ctags R) (ctags (tagc (map snd R))) in
    denote n nc (map snd R) = rn_state f (denote n nc c) /\
    (forall a b, In a (ctags R) -> In b (ctags R) -> f a = f b -> a = b).
Proof.
  intros NU H ls nc R V HQ HC ND f.
  destruct (separate_recompose n cregs c labels subs qm NU H) as [_ [_ [_ [_ REC]]]].
  destruct (denote_retag n nc R ND) as [E INJ].
  split; [|intros a b Ha Hb; exact (INJ a b Ha Hb (tagc_ctags_NoDup _))].
  fold f in E. rewrite E. f_equal. now apply REC.
Qed.

(* Proofs/ResetPassesSite.v — the reset-pass call sites of generate_cutting_experiments on one
   subexperiment (Model: subexperiment_resets). *)
From Coq Require Import Lia ZifyBool.
From CKT Require Import Common.Base Common.Circ Common.Herbrand Model.ResetPasses
  Proofs.ResetPassesP Proofs.ResetPassesSem.

Lemma denote_snoc nq nc a m : denote nq nc (a ++ [m]) = hstep (denote nq nc a) (ntags a, m).
Proof.
  unfold denote, tagc. rewrite tag_from_app, hrun_app. simpl.
  destruct (creates_term m); reflexivity.
Qed.

(* a measurement into clbit k leaves every other classical bit alone *)
Lemma hstep_measure_hc_other s t m k j : iop m = Measure -> ics m = [k] -> j <> k ->
  nth j (hc (hstep s (t, m))) None = nth j (hc s) None.
Proof.
  intros Em Ek N. unfold hstep. rewrite Em, Ek. destruct (iqs m) as [|q r]; [reflexivity|].
  simpl. apply nth_upd_other. congruence.
Qed.

Lemma wf_app nq nc a b : wf nq nc (a ++ b) = true <-> wf nq nc a = true /\ wf nq nc b = true.
Proof. unfold wf. rewrite forallb_app. apply andb_true_iff. Qed.

(* a subexperiment always ends with at least the (placeholder) measurement: c = pre ++ [m] *)
Lemma subexperiment_resets_only_resets nq ph pre m :
  del_resets (pre ++ [m]) (subexperiment_resets nq ph (pre ++ [m])).
Proof.
  unfold subexperiment_resets. destruct ph; [|apply pipeline_only_resets].
  eapply del_resets_trans; [|apply pipeline_only_resets].
  rewrite removelast_last, last_last. apply del_resets_app; [apply final_only_resets|apply del_resets_refl].
Qed.

(* without the placeholder the site is the pipeline *)
Theorem site_semantics_observed nq nc c : wf nq nc c = true ->
  hc (denote nq nc (subexperiment_resets nq false c)) = hc (denote nq nc c) /\
  forall q, ~ In q (final_dropped nq (remove_resets_in_zero_state nq c)) ->
    wire (denote nq nc (subexperiment_resets nq false c)) q = wire (denote nq nc c) q.
Proof. intros W. now apply pipeline_semantics. Qed.

(* with the placeholder measurement m (into clbit k) appended last: every classical bit except the
   placeholder's own bit k has the same term as in the unoptimised subexperiment *)
Theorem site_semantics_placeholder nq nc pre m k : wf nq nc (pre ++ [m]) = true ->
  iop m = Measure -> ics m = [k] ->
  forall j, j <> k ->
    nth j (hc (denote nq nc (subexperiment_resets nq true (pre ++ [m])))) None
    = nth j (hc (denote nq nc (pre ++ [m]))) None.
Proof.
  intros W Em Ek j N. apply wf_app in W as [Wp Wm].
  unfold subexperiment_resets. rewrite removelast_last, last_last.
  pose proof (del_resets_wf _ _ _ _ (final_only_resets nq pre) Wp) as Wf.
  assert (W2 : wf nq nc (remove_final_resets nq pre ++ [m]) = true) by (apply wf_app; split; assumption).
  destruct (pipeline_semantics nq nc _ W2) as [Hc _]. rewrite Hc.
  rewrite !denote_snoc, !(hstep_measure_hc_other _ _ m k j Em Ek N).
  destruct (final_semantics nq nc pre Wp) as [Hf _]. now rewrite Hf.
Qed.

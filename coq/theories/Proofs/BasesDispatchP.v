(* Proofs/BasesDispatchP.v — the dispatcher of Model/BasesDispatch.v selects exactly the bases of
   Model/Bases.v; the symbolic rotation parameter "2θ'" is what the code's angle arithmetic produces; and the
   exactness theorems lifted through the dispatcher, with targets written in the gate's OWN angle θ
   (cos θ/2, sin θ/2 as in Qiskit's matrices), for all real θ — in particular |θ| > π, 2π for the 4π-periodic
   controlled rotations. *)
From Coq Require Import String List Bool Arith QArith Qreals Reals Lra.
From CKT Require Import Common.Base Common.PolyRing Common.Ptm Model.Bases Model.BasesDispatch
  Proofs.BasesP Proofs.BasesMat Proofs.BasesKak.
Import ListNotations.
Close Scope Q_scope.
Open Scope string_scope.
Open Scope list_scope.

(* ---------- the dispatcher agrees with the if-chain of Model/Bases.v ---------- *)
Lemma dispatch_eq_basis_of : forall g, res_map fst (qpd_model g) = basis_of g.
Proof.
  intros [n isg nq pok mok hasp]. unfold qpd_model, basis_of. cbn [g_name g_is_gate g_nq g_param_ok g_matrix_ok g_has_param].
  repeat match goal with
  | |- context [String.eqb n ?s] =>
      destruct (String.eqb_spec n s) as [->|?]; [destruct hasp, pok; reflexivity|]
  end.
  let r := eval vm_compute in registry in change registry with r.
  unfold dict_get, find. cbn [fst snd].
  repeat match goal with
  | |- context [String.eqb ?s n] => rewrite (proj2 (String.eqb_neq s n)) by congruence
  end.
  destruct (isg && Nat.eqb nq 2); [destruct mok|]; reflexivity.
Qed.

(* ---------- meaning of the angle symbols ---------- *)
Fixpoint aeval (th : R) (a : aexpr) : R :=
  match a with
  | AVar => th
  | APiHalf => (PI / 2)%R
  | ANeg a => (- aeval th a)%R
  | ADiv2 a => (aeval th a / 2)%R
  end.
Definition opt_aeval (th : R) (o : option aexpr) : R := match o with Some a => aeval th a | None => 0%R end.

(* rotation and phase parameters are 2·theta_prime, whenever the function produced them *)
Definition angles_ok (a : angles) : Prop :=
  forall th : R,
    (forall r, a_rot a = Some r -> aeval th r = (2 * opt_aeval th (a_thp a))%R) /\
    (forall p, a_phase a = Some p -> aeval th p = (2 * opt_aeval th (a_thp a))%R).
Definition gate_names19 : list string :=
  ["rxx"; "ryy"; "rzz"; "crx"; "cry"; "crz"; "cp"; "cs"; "csdg"; "csx"; "csxdg"; "cx"; "cy"; "cz"; "ch"; "ecr";
   "swap"; "iswap"; "dcx"].
Lemma angles_consistent : forall n, In n ("move" :: gate_names19) ->
  exists b a, qpd_model (std_gate n) = Ok (b, a) /\ angles_ok a /\ symbols_bound (b, a) = true.
Proof.
  intros n HIn. simpl in HIn.
  repeat (destruct HIn as [<-|HIn];
          [eexists; eexists; split; [reflexivity|]; split;
           [intros th; split; intros r E; cbn in E; try discriminate; inversion E; subst; cbn; lra
           |vm_compute; reflexivity]|]).
  contradiction.
Qed.

(* theta_prime as a real function of the gate parameter *)
Definition thp_of (n : string) (th : R) : R :=
  match qpd_model (std_gate n) with Ok (_, a) => opt_aeval th (a_thp a) | _ => 0%R end.
Lemma thp_values th :
  thp_of "rxx" th = (- th / 2)%R /\ thp_of "ryy" th = (- th / 2)%R /\ thp_of "rzz" th = (- th / 2)%R /\
  thp_of "crx" th = (- (- th / 2) / 2)%R /\ thp_of "cp" th = (- (- th / 2) / 2)%R.
Proof. repeat split; reflexivity. Qed.

(* ---------- the gates' own matrices, in the gate angle: c = cos(θ/2), s = sin(θ/2) ---------- *)
(* the gate's real unitary at angle θ *)
Definition Ugate (n : string) (th : R) : list (list (R * R)) :=
  match find (fun t => fst (fst t) =? n) family_table_h with
  | Some t => cmeval (RC (th / 2)) (snd t)
  | None =>
      match find (fun p => fst p =? n) (fixed_table ++ fixed8p_table ++ fixed8m_table) with
      | Some p => cmeval (RC 0) (snd p)
      | None => []
      end
  end.
Definition gate_ptm (n : string) (th : R) : list (list R) := ptm2 (RC 0) [(c1 (RC 0), Ugate n th)].

Lemma Q2R_2 : Q2R 2 = 2%R. Proof. unfold Q2R; simpl; lra. Qed.

Ltac entries :=
  list_eq; apply (f_equal2 (@pair R R)); cbn [fst snd]; try reflexivity; try ring.

Lemma U_theta_prime_is_gate : forall n U Uh, In (n, U, Uh) family_table_h ->
  forall th : R, cmeval (RC (thp_of n th)) U = cmeval (RC (th / 2)) Uh.
Proof.
  intros n U Uh HIn th. destruct Q2R_consts as (q0 & q1 & qm1 & qh). pose proof Q2R_2 as q2.
  simpl in HIn.
  destruct HIn as [E|[E|[E|HIn]]]; [inversion E; subst; clear E ..|].
  1-3: change (thp_of _ th) with (- th / 2)%R; replace (- th / 2)%R with (- (th / 2))%R by lra;
       unfold cmeval, mmap, cxeval, RC; cbn -[cos sin sqrt Rdiv PI]; rewrite ?cos_neg, ?sin_neg; entries.
  destruct HIn as [E|[E|[E|[E|[]]]]]; inversion E; subst; clear E;
    change (thp_of _ th) with (- (- th / 2) / 2)%R;
    replace (- (- th / 2) / 2)%R with (th / 4)%R by lra;
    replace (th / 2)%R with (2 * (th / 4))%R by lra;
    unfold cmeval, mmap, cxeval, RC; cbn -[cos sin sqrt Rdiv PI Rmult];
    rewrite ?cos_2a, ?sin_2a, ?q0, ?q1, ?qm1, ?q2; cbn -[cos sin sqrt Rdiv PI]; rewrite ?cos_2a, ?sin_2a; entries.
Qed.

(* ptm of a unitary given as expressions = ptm of its real matrix *)
Lemma ptm_unitary2_real th U :
  ptm_unitary2 (RC th) U = ptm2 (RC 0) [(c1 (RC 0), cmeval (RC th) U)].
Proof.
  unfold ptm_unitary2, ptm2, kreval. cbn [map fst snd].
  change (paulis2 (RC th)) with (paulis2 (RC 0)). change (cofQ (RC th) (1 # 4)) with (cofQ (RC 0) (1 # 4)).
  unfold RC. rewrite (ptm_ring_only (envK th) (envK 0)). do 3 f_equal.
  unfold cxeval, c1. cbn. destruct Q2R_consts as (q0 & q1 & _). now rewrite q0, q1.
Qed.

(* ---------- the exactness theorem over the dispatcher ---------- *)
Theorem dispatch_exact : forall n, In n gate_names19 -> forall th : R,
  exists b a, qpd_model (std_gate n) = Ok (b, a) /\ angles_ok a /\ symbols_bound (b, a) = true /\
              channel (RC (thp_of n th)) nou (resolve b) = gate_ptm n th.
Proof.
  intros n HIn th.
  destruct (angles_consistent n (or_intror HIn)) as (b & a & Hq & Ha & Hs).
  exists b, a. split; [exact Hq|]. split; [exact Ha|]. split; [exact Hs|].
  assert (Hb : resolve b = basis_terms n).
  { unfold basis_terms. change (mkG n true 2 true true true) with (std_gate n).
    rewrite <- dispatch_eq_basis_of, Hq. reflexivity. }
  rewrite Hb. unfold gate_ptm. clear Hq Ha Hs Hb b a.
  simpl in HIn.
  destruct HIn as [<-|[<-|[<-|[<-|[<-|[<-|[<-|HIn]]]]]]].
  1-7: match goal with |- channel _ _ (basis_terms ?n) = _ =>
         match eval cbv in (find (fun t => fst (fst t) =? n) family_table_h) with
         | Some (_, ?U, ?Uh) =>
             rewrite (family_exact n U) by (simpl; tauto);
             rewrite ptm_unitary2_real;
             rewrite (U_theta_prime_is_gate n U Uh) by (simpl; tauto); reflexivity
         end
       end.
  destruct HIn as [<-|[<-|[<-|[<-|HIn]]]].
  - (* cs *) replace (thp_of "cs" th) with (PI / 8)%R by (cbn; lra).
    rewrite (fixed8p_exact "cs" U_cs) by (simpl; tauto). now rewrite ptm_unitary2_real.
  - replace (thp_of "csdg" th) with (- (PI / 8))%R by (cbn; lra).
    rewrite (fixed8m_exact "csdg" U_csdg) by (simpl; tauto). now rewrite ptm_unitary2_real.
  - replace (thp_of "csx" th) with (PI / 8)%R by (cbn; lra).
    rewrite (fixed8p_exact "csx" U_csx) by (simpl; tauto). now rewrite ptm_unitary2_real.
  - replace (thp_of "csxdg" th) with (- (PI / 8))%R by (cbn; lra).
    rewrite (fixed8m_exact "csxdg" U_csxdg) by (simpl; tauto). now rewrite ptm_unitary2_real.
  - destruct HIn as [<-|[<-|[<-|[<-|[<-|[<-|[<-|[<-|[]]]]]]]]];
      match goal with |- channel _ _ (basis_terms ?n) = _ =>
        match eval cbv in (find (fun p => fst p =? n) fixed_table) with
        | Some (_, ?U) => rewrite (fixed_exact n U) by (simpl; tauto); now rewrite ptm_unitary2_real
        end
      end.
Qed.

(* Move through the dispatcher (no quantity of the coefficient structure is used: stated at RC 0) *)
Theorem dispatch_move_exact :
  exists b, qpd_model (mkG "move" false 2 true false false) = Ok (b, no_angles) /\
            channel (RC 0) nou (resolve b) = ptm_move (RC 0).
Proof. eexists. split; [reflexivity|]. exact (move_exact 0). Qed.

(* the unregistered branch: every two-qubit gate with a matrix gets the KAK basis; refusals carry over *)
Lemma dispatch_kak : forall g, ~ In (g_name g) registered ->
  g_is_gate g = true -> g_nq g = 2%nat -> g_matrix_ok g = true -> qpd_model g = Ok (kak_basis, no_angles).
Proof.
  intros [n isg nq pok mok hasp] HN Hg Hq Hm. cbn in HN, Hg, Hq, Hm. subst. unfold qpd_model. cbn [g_name g_is_gate g_nq g_matrix_ok].
  let r := eval vm_compute in registry in change registry with r.
  unfold dict_get, find. cbn [fst snd].
  repeat match goal with
  | |- context [String.eqb ?s n] =>
      rewrite (proj2 (String.eqb_neq s n))
        by (intros E; apply HN; rewrite <- E; unfold registered; simpl; repeat (first [left; reflexivity | right]))
  end.
  reflexivity.
Qed.
Lemma dispatch_refused : forall g, basis_of g = Refused <-> qpd_model g = Refused.
Proof.
  intros g. rewrite <- dispatch_eq_basis_of. destruct (qpd_model g) as [[b a]| |]; simpl; split; intros E; congruence.
Qed.

(* the 19 gate names + move are exactly the registered names *)
Lemma names_are_registered : incl gate_names19 registered /\ incl registered ("move" :: gate_names19).
Proof.
  split; intros x Hx; simpl in Hx;
    repeat (destruct Hx as [<-|Hx]; [unfold registered, gate_names19; simpl; repeat (first [left; reflexivity | right])|]);
    contradiction.
Qed.

(* a concrete KAK instance over Q[r]: Weyl point (cos,sin) = (3/5,4/5),(5/13,12/13),(8/17,15/17), locals = PTMs of H,S,SX,T *)
Definition Cq_kak : Coef (Q * Q) :=
  mkCoef (cring QR) (cofQ QR)
    (fun n => match n with
              | 2 => cvar QR 2
              | 3 => cofQ QR (3 # 5) | 4 => cofQ QR (4 # 5) | 5 => cofQ QR (5 # 13) | 6 => cofQ QR (12 # 13)
              | 7 => cofQ QR (8 # 17) | 8 => cofQ QR (15 # 17)
              | _ => r0 QR
              end).
Definition uenv_kak (k : nat) : list (list (Q * Q)) :=
  ptm_op Cq_kak nou (nth k [OH; OS; OSX; OT] OX).
Definition kak_lhs := channel Cq_kak uenv_kak (resolve kak_basis).
Definition kak_rhs :=
  mmul Cq_kak (kron Cq_kak (uenv_kak 3%nat) (uenv_kak 1%nat))
    (mmul Cq_kak (ptm2 Cq_kak [(c1 Cq_kak, Uweyl Cq_kak)]) (kron Cq_kak (uenv_kak 2%nat) (uenv_kak 0%nat))).
Lemma kak_instance :
  meqb Cq_kak kak_lhs kak_rhs = true /\ meqb Cq_kak kak_lhs (ident Cq_kak 16%nat) = false /\
  nth 6%nat (nth 9%nat kak_lhs []) (r0 QR) = (0%Q, (833 # 4225)%Q).   (* (833/4225)·r *)
Proof. vm_compute. repeat split; reflexivity. Qed.
(* the hypothesis of kak_exact is satisfiable by PTMs of actual gates over R *)
Definition uenv_gates (k : nat) : list (list R) :=
  ptm_op (RC 0) (fun _ => ident RRing 4) (nth k [OH; OS; OSX; OT] OX).
Lemma kak_hyp_satisfiable : forall k, wf4 (uenv_gates k).
Proof. intros k. apply ptm_op_wf4. intros j. apply ident4_wf. Qed.


(* non-vacuity / |θ| > 2π: the CRX target at θ and θ + 2π differ (sign of the rotation block), so a basis
   computed from θ mod 2π cannot satisfy dispatch_exact *)
Lemma Ugate_crx_entry th : nth 1 (nth 1 (Ugate "crx" th) []) (0%R, 0%R) = (cos (th / 2), Q2R 0).
Proof. reflexivity. Qed.

(* Proofs/WeightsGen.v — _generate_qpd_weights: permutations, the retval/conditional dicts, inversion of gen_weights. *)
From Coq Require Import QArith Qabs Qround Lia ZifyBool Lqa.
From CKT Require Import Common.Base Extracted.Facts Model.Weights Proofs.WeightsP Proofs.WeightsDfs.
Open Scope Q_scope.

(* ---------- inputs ---------- *)
Definition valid (probs : list (list Q)) : Prop :=
  Forall (fun v => Forall (fun x => 0 <= x) v /\ qsum v == 1) probs.

Lemma qsum_nonneg v : Forall (fun x => 0 <= x) v -> 0 <= qsum v.
Proof. induction 1; simpl; lra. Qed.

Lemma qsum_ge_entry v x : Forall (fun x => 0 <= x) v -> In x v -> x <= qsum v.
Proof.
  induction 1 as [|y r Hy Hr IH]; simpl; [tauto|].
  pose proof (qsum_nonneg r Hr). intros [->|I]; [lra|]. specialize (IH I). lra.
Qed.

Lemma valid_unit probs : valid probs -> Forall unit_entries probs.
Proof.
  intros H. eapply Forall_impl; [|exact H]. intros v [N S]. unfold unit_entries.
  rewrite Forall_forall in *. intros x I. split; [auto|]. rewrite <- S. apply qsum_ge_entry; auto.
  now rewrite Forall_forall.
Qed.

Lemma in_range_idx_ok probs ids : in_range probs ids <-> idx_ok probs ids /\ length ids = length probs.
Proof.
  unfold in_range. revert ids; induction probs as [|v r IH]; intros [|j c]; simpl.
  - split; [intros _; auto|intros _; split; auto; intros; lia].
  - split; [intros [? _]; discriminate|tauto].
  - split; [intros [? _]; discriminate|intros [_ ?]; discriminate].
  - split.
    + intros [L H]. assert (in_range r c) as R.
      { split; [lia|]. intros k Hk. apply (H (S k)). lia. }
      apply IH in R. destruct R as [R1 R2]. repeat split; auto. apply (H 0%nat). lia.
    + intros [[Hj O] L]. destruct (proj2 (IH c)) as [L' H']; [split; auto|].
      split; [lia|]. intros [|k] Hk; [exact Hj|]. apply H'. lia.
Qed.

(* ---------- the cartesian product ---------- *)
Lemma In_cart probs ids : In ids (cart (map (@length Q) probs)) <-> idx_ok probs ids /\ length ids = length probs.
Proof.
  revert ids; induction probs as [|v r IH]; intros ids; simpl.
  - split.
    + intros [<-|[]]. simpl. auto.
    + intros [_ L]. destruct ids; [now left|discriminate].
  - rewrite in_flat_map. split.
    + intros [i [Hi H]]. apply in_seq in Hi. apply in_map_iff in H. destruct H as [c [<- Hc]].
      apply IH in Hc. simpl. destruct Hc. repeat split; auto; lia.
    + intros [O L]. destruct ids as [|j c]; [discriminate|]. simpl in *. destruct O as [Hj O].
      exists j. split; [apply in_seq; lia|]. apply in_map. apply IH. split; auto.
Qed.

Lemma existsb_key k l : existsb (key_eqb k) l = true <-> In k l.
Proof.
  rewrite existsb_exists. split.
  - intros [x [I E]]. apply key_eqb_eq in E. now subst.
  - intros I. exists k. split; auto. apply key_eqb_refl.
Qed.

Lemma all_exact_fold probs m : forall l d0 k,
  dget (fold_left (fun d ids => let p := jointp probs ids in
                                 if Qltb p nonzero_atol then d else dset d ids (m * p, EXACT)) l d0) k
  = if existsb (key_eqb k) l && negb (Qltb (jointp probs k) nonzero_atol)
    then Some (m * jointp probs k, EXACT) else dget d0 k.
Proof.
  induction l as [|a l IH]; intros d0 k; [reflexivity|].
  cbn [fold_left existsb]. rewrite IH. cbv zeta.
  destruct (existsb (key_eqb k) l && negb (Qltb (jointp probs k) nonzero_atol)) eqn:E1.
  - apply andb_prop in E1 as [A B]. rewrite A, B, orb_true_r. reflexivity.
  - destruct (key_eqb k a) eqn:Eka.
    + apply key_eqb_eq in Eka; subst a. simpl.
      destruct (Qltb (jointp probs k) nonzero_atol) eqn:Es; simpl.
      * rewrite andb_false_r in *. reflexivity.
      * now rewrite dget_dset_same.
    + simpl. rewrite E1. destruct (Qltb (jointp probs a) nonzero_atol); [reflexivity|].
      apply dget_dset_other. apply key_eqb_neq in Eka. congruence.
Qed.

Lemma all_exact_get probs m k :
  dget (all_exact probs m) k =
  if existsb (key_eqb k) (cart (map (@length Q) probs)) && negb (Qltb (jointp probs k) nonzero_atol)
  then Some (m * jointp probs k, EXACT) else None.
Proof. unfold all_exact. now rewrite all_exact_fold. Qed.

(* ---------- the retval dictionary built from the full yields ---------- *)
Fixpoint last_full (ys : list yield) (k : key) : option Q :=
  match ys with
  | [] => None
  | y :: r => match last_full r k with
              | Some p => Some p
              | None => match y with
                        | YFull st p => if key_eqb st k then Some p else None
                        | YCond _ _ => None
                        end
              end
  end.

Lemma last_full_In ys k p : last_full ys k = Some p -> In (YFull k p) ys.
Proof.
  induction ys as [|y r IH]; simpl; [discriminate|].
  destruct (last_full r k) as [p'|]; [intros [= ->]; right; auto|].
  destruct y as [st p'|]; [|discriminate]. destruct (key_eqb st k) eqn:E; [|discriminate].
  apply key_eqb_eq in E; subst. intros [= ->]. now left.
Qed.

Lemma has_full_last ys k : has_full ys k -> exists p, last_full ys k = Some p.
Proof.
  intros [p H]. induction ys as [|y r IH]; simpl in *; [tauto|].
  destruct H as [->|H].
  - destruct (last_full r k); [eauto|]. rewrite key_eqb_refl. eauto.
  - destruct (IH H) as [p' ->]. eauto.
Qed.

Definition ret_step (q : Q) (r : wdict) (y : yield) : wdict :=
  match y with YFull st p => dset r st (p * q, EXACT) | YCond _ _ => r end.

Lemma absorb_ret D q ys : forall ret cond w,
  fst (fst (fold_left (absorb D q) ys (ret, cond, w))) = fold_left (ret_step q) ys ret.
Proof.
  induction ys as [|y r IH]; intros ret cond w; [reflexivity|].
  cbn [fold_left]. destruct y as [st p|st v]; simpl.
  - apply IH.
  - destruct st; apply IH.
Qed.

Lemma ret_get q ys : forall ret k,
  dget (fold_left (ret_step q) ys ret) k =
  match last_full ys k with Some p => Some (p * q, EXACT) | None => dget ret k end.
Proof.
  induction ys as [|y r IH]; intros ret k; [reflexivity|].
  cbn [fold_left last_full]. rewrite IH.
  destruct (last_full r k); [reflexivity|].
  destruct y as [st p|st v]; simpl; [|reflexivity].
  rewrite dget_dset. destruct (key_eqb st k); reflexivity.
Qed.

(* later insertions never overwrite *)
Lemma insert_samples_keeps ssw : forall s ret r k v,
  insert_samples ret ssw s = Some r -> dget ret k = Some v -> dget r k = Some v.
Proof.
  induction s as [|[k' c] s IH]; intros ret r k v H G; simpl in H.
  - now inversion H; subst.
  - destruct (dmem ret k') eqn:M; [discriminate|].
    eapply IH; [exact H|]. rewrite dget_dset_other; auto.
    intros ->. unfold dmem in M. now rewrite G in M.
Qed.

(* ---------- sorting permutations ---------- *)
Lemma sorting_perms_length probs : forall perms, sorting_perms_b probs perms = true -> length perms = length probs.
Proof.
  induction probs as [|v rv IH]; intros [|p rp]; simpl; try discriminate; auto.
  intros H. apply andb_prop in H as [_ H]. f_equal. auto.
Qed.

Lemma apply_perm_length perm v : length (apply_perm perm v) = length perm.
Proof. unfold apply_perm. apply map_length. Qed.

Lemma nth_apply_perm perm v i : (i < length perm)%nat -> nth i (apply_perm perm v) 0 = nth (nth i perm 0%nat) v 0.
Proof.
  intros H. unfold apply_perm.
  rewrite (nth_indep _ 0 ((fun j => nth j v 0) 0%nat)) by (rewrite map_length; exact H).
  apply (map_nth (fun j => nth j v 0)).
Qed.

Lemma sorting_perm_facts v perm : sorting_perm_b v perm = true ->
  length perm = length v /\ (forall j, (j < length v)%nat -> In j perm) /\ desc_b (apply_perm perm v) = true.
Proof.
  unfold sorting_perm_b, is_perm_b. intros H.
  apply andb_prop in H as [H D]. apply andb_prop in H as [L S].
  apply Nat.eqb_eq in L. repeat split; auto.
  intros j Hj. rewrite forallb_forall in S. specialize (S j). rewrite in_seq in S.
  assert (existsb (Nat.eqb j) perm = true) as E by (apply S; lia).
  apply existsb_exists in E. destruct E as [x [I E]]. apply Nat.eqb_eq in E. now subst.
Qed.

Lemma apply_perm_unit perm v : unit_entries v -> unit_entries (apply_perm perm v).
Proof.
  intros U. unfold unit_entries, apply_perm. rewrite Forall_forall. intros x I.
  apply in_map_iff in I. destruct I as [j [<- _]].
  destruct (Nat.lt_ge_cases j (length v)) as [L|L].
  - unfold unit_entries in U. rewrite Forall_forall in U. apply U. now apply nth_In.
  - rewrite nth_overflow by lia. lra.
Qed.

Lemma sorted_ok_sorted probs : forall perms, Forall unit_entries probs -> sorting_perms_b probs perms = true ->
  sorted_ok (sorted_probs probs perms).
Proof.
  induction probs as [|v rv IH]; intros [|p rp] U H; simpl in *; try discriminate; [constructor|].
  apply andb_prop in H as [H1 H2]. inversion U; subst.
  constructor; [|apply IH; auto].
  split; [now apply apply_perm_unit|]. now destruct (sorting_perm_facts _ _ H1) as [_ [_ ?]].
Qed.

Lemma sorted_probs_length probs perms : sorting_perms_b probs perms = true ->
  length (sorted_probs probs perms) = length probs.
Proof.
  revert perms; induction probs as [|v rv IH]; intros [|p rp]; simpl; try discriminate; auto.
  intros H. apply andb_prop in H as [_ H]. f_equal. apply IH. exact H.
Qed.

(* every joint map of the caller is the image of a joint map in sorted coordinates *)
Lemma to_sorted probs : forall perms ids, sorting_perms_b probs perms = true ->
  idx_ok probs ids -> length ids = length probs ->
  exists c, idx_ok (sorted_probs probs perms) c /\ length c = length (sorted_probs probs perms) /\
            unperm_state perms c = ids /\ jointp (sorted_probs probs perms) c = jointp probs ids.
Proof.
  induction probs as [|v rv IH]; intros [|p rp] ids H O L; simpl in H; try discriminate.
  - destruct ids; [|discriminate]. exists []. simpl. auto.
  - apply andb_prop in H as [H1 H2]. destruct ids as [|j ids]; [discriminate|].
    simpl in O, L. destruct O as [Hj O].
    destruct (IH rp ids H2 O) as [c [Oc [Lc [Uc Jc]]]]; [lia|].
    destruct (sorting_perm_facts _ _ H1) as [Lp [Sp _]].
    destruct (In_nth _ _ 0%nat (Sp j Hj)) as [i [Hi Ei]].
    exists (i :: c). simpl. rewrite apply_perm_length. repeat split; auto; try lia.
    + unfold unperm_state in *. simpl. now rewrite Ei, Uc.
    + change (nth i (apply_perm p v) 0 * jointp (sorted_probs rv rp) c = nth j v 0 * jointp rv ids).
      rewrite nth_apply_perm by exact Hi. rewrite Ei, Jc. reflexivity.
Qed.

Lemma gen_unsorted_full probs perms thr c p :
  In (YFull c p) (dfs_spec (sorted_probs probs perms) thr) ->
  In (YFull (unperm_state perms c) p) (gen_unsorted probs perms thr).
Proof. intros H. unfold gen_unsorted. apply (in_map (unperm_yield perms)) in H. exact H. Qed.

Lemma gen_unsorted_full_inv probs perms thr st p :
  In (YFull st p) (gen_unsorted probs perms thr) ->
  exists c, st = unperm_state perms c /\ In (YFull c p) (dfs_spec (sorted_probs probs perms) thr).
Proof.
  unfold gen_unsorted. intros H. apply in_map_iff in H. destruct H as [y [E I]].
  destruct y as [c p'|c v]; simpl in E; [|discriminate]. inversion E; subst. eauto.
Qed.

(* ---------- inversion of gen_weights for a finite budget ---------- *)
Definition dfs_acc (probs : list (list Q)) (perms : list (list nat)) (q : Q) : wdict * list (key * list Q) * Q :=
  if Qle_bool (1 / q) (qprod (map qmax probs))
  then fold_left (absorb (length probs) q) (gen_unsorted probs perms (1 / q)) ([], [], 1)
  else ([], [], 1).

Inductive fin_outcome (probs : list (list Q)) (perms : list (list nat)) (q : Q) (tape : list nat) (r : wdict) : Prop :=
| FO_all_exact mins :
    all_some (map min_filter_nonzero probs) = Some mins -> 1 / q <= qprod mins ->
    r = all_exact probs q -> fin_outcome probs perms q tape r
| FO_negligible mins ret cond wts0 :                                   (* the repaired F9 branch *)
    all_some (map min_filter_nonzero probs) = Some mins -> ~ 1 / q <= qprod mins ->
    dfs_acc probs perms q = (ret, cond, wts0) -> (Qceiling (wts0 * q) < 1)%Z ->
    r = ret -> fin_outcome probs perms q tape r
| FO_leftover mins ret cond wts0 rs :
    all_some (map min_filter_nonzero probs) = Some mins -> ~ 1 / q <= qprod mins ->
    dfs_acc probs perms q = (ret, cond, wts0) -> (1 <= Qceiling (wts0 * q))%Z ->
    cond <> [] -> leftover_walk probs cond [] = Some (Some rs) -> dget ret rs = None ->
    r = dset ret rs (wts0 * q, EXACT) -> fin_outcome probs perms q tape r
| FO_sampled mins ret cond wts0 s t lg :
    all_some (map min_filter_nonzero probs) = Some mins -> ~ 1 / q <= qprod mins ->
    dfs_acc probs perms q = (ret, cond, wts0) -> (1 <= Qceiling (wts0 * q))%Z ->
    (cond = [] \/ leftover_walk probs cond [] = Some None) ->
    populate probs cond [] (Z.to_nat (Qceiling (wts0 * q))) tape = Some (s, t, lg) ->
    insert_samples ret (wts0 * q / inject_Z (Qceiling (wts0 * q))) s = Some r ->
    fin_outcome probs perms q tape r.

Lemma gen_weights_fin_inv probs perms q tape r :
  gen_weights probs perms (Fin q) tape = Some (Ok r) -> 1 <= q /\ fin_outcome probs perms q tape r.
Proof.
  unfold gen_weights, gen_core.
  destruct (Qltb q 1) eqn:Eq1; [discriminate|]. apply Qltb_ge in Eq1.
  destruct (all_some (map min_filter_nonzero probs)) as [mins|] eqn:Em; [|discriminate].
  destruct (Qle_bool (1 / q) (qprod mins)) eqn:Ea.
  { intros [= <-]. split; auto. apply Qle_bool_iff in Ea. eapply FO_all_exact; eauto. }
  assert (~ 1 / q <= qprod mins) as Na.
  { intros L. apply Qle_bool_iff in L. congruence. }
  fold (dfs_acc probs perms q).
  destruct (dfs_acc probs perms q) as [[ret cond] wts0] eqn:Eacc.
  destruct (Z.ltb (Qceiling (wts0 * q)) 1) eqn:Esn.
  { intros [= <-]. split; auto. eapply FO_negligible; eauto. lia. }
  assert (1 <= Qceiling (wts0 * q))%Z as Hsn by lia.
  assert (forall (X : option (res wdict)),
    match populate probs cond [] (Z.to_nat (Qceiling (wts0 * q))) tape with
    | Some (s, _, _) =>
        match insert_samples ret (wts0 * q / inject_Z (Qceiling (wts0 * q))) s with
        | Some r0 => Some (Ok r0) | None => Some Crashed end
    | None => None end = Some (Ok r) ->
    (cond = [] \/ leftover_walk probs cond [] = Some None) -> 1 <= q /\ fin_outcome probs perms q tape r) as Samp.
  { intros _ H C.
    destruct (populate probs cond [] (Z.to_nat (Qceiling (wts0 * q))) tape) as [[[s t] lg]|] eqn:Ep; [|discriminate].
    destruct (insert_samples ret (wts0 * q / inject_Z (Qceiling (wts0 * q))) s) as [r0|] eqn:Ei; [|discriminate].
    inversion H; subst. split; auto. eapply FO_sampled; eauto. }
  destruct cond as [|c0 cond'] eqn:Ec.
  { intros H. apply (Samp None H). now left. }
  rewrite <- Ec in *.
  destruct (leftover_walk probs cond []) as [[rs|]|] eqn:El.
  - destruct (dmem ret rs) eqn:Edm; [discriminate|].
    intros [= <-]. split; auto. eapply FO_leftover; eauto.
    + rewrite Ec. discriminate.
    + unfold dmem in Edm. destruct (dget ret rs); [discriminate|reflexivity].
  - intros H. apply (Samp None H). now right.
  - discriminate.
Qed.

(* ---------- max / product bounds ---------- *)
Lemma fold_max_ge : forall r x, x <= fold_left (fun a b => if Qltb a b then b else a) r x /\
   forall y, In y r -> y <= fold_left (fun a b => if Qltb a b then b else a) r x.
Proof.
  induction r as [|b r IH]; intros x; simpl; [split; [lra|tauto]|].
  destruct (Qltb x b) eqn:E.
  - apply Qltb_lt in E. destruct (IH b) as [A B]. split; [lra|]. intros y [->|I]; auto.
  - apply Qltb_ge in E. destruct (IH x) as [A B]. split; [lra|]. intros y [->|I]; [lra|auto].
Qed.

Lemma qmax_ge v x : In x v -> x <= qmax v.
Proof.
  destruct v as [|a r]; [simpl; tauto|]. simpl. destruct (fold_max_ge r a) as [A B].
  intros [->|I]; auto.
Qed.

Lemma jointp_le_max probs : forall ids, Forall (Forall (fun x => 0 <= x)) probs -> idx_ok probs ids ->
  length ids = length probs -> 0 <= jointp probs ids /\ jointp probs ids <= qprod (map qmax probs).
Proof.
  induction probs as [|v r IH]; intros [|j c] F O L; simpl in *; try discriminate; try lra.
  destruct O as [Hj O]. inversion F as [|? ? Fv Fr]; subst.
  destruct (IH c Fr O) as [A B]; [lia|].
  assert (In (nth j v 0) v) as I by (now apply nth_In).
  pose proof (qmax_ge v _ I). rewrite Forall_forall in Fv. specialize (Fv _ I). simpl in Fv.
  split; nra.
Qed.

Lemma valid_nonneg probs : valid probs -> Forall (Forall (fun x => 0 <= x)) probs.
Proof. intros H. eapply Forall_impl; [|exact H]. simpl. tauto. Qed.

Lemma perm_facts2 (v : list Q) p : length p = length v -> (forall j, (j < length v)%nat -> In j p) ->
  NoDup p /\ forall i, (i < length p)%nat -> (nth i p 0%nat < length v)%nat.
Proof.
  intros L S.
  assert (incl (seq 0 (length v)) p) as I1 by (intros j Hj; apply in_seq in Hj; apply S; lia).
  assert (length p <= length (seq 0 (length v)))%nat as L1 by (rewrite seq_length; lia).
  split.
  - eapply NoDup_incl_NoDup; [apply seq_NoDup|exact L1|exact I1].
  - intros i Hi. pose proof (NoDup_length_incl (seq_NoDup (length v) 0) L1 I1) as I2.
    assert (In (nth i p 0%nat) (seq 0 (length v))) as H by (apply I2; now apply nth_In).
    apply in_seq in H. lia.
Qed.

Lemma perm_bound (v : list Q) p : length p = length v -> (forall j, (j < length v)%nat -> In j p) ->
  forall i, (i < length p)%nat -> (nth i p 0%nat < length v)%nat.
Proof. intros L S. now destruct (perm_facts2 v p L S). Qed.

Lemma from_sorted probs : forall perms c, sorting_perms_b probs perms = true ->
  idx_ok (sorted_probs probs perms) c -> length c = length (sorted_probs probs perms) ->
  jointp (sorted_probs probs perms) c = jointp probs (unperm_state perms c) /\
  idx_ok probs (unperm_state perms c) /\ length (unperm_state perms c) = length probs.
Proof.
  induction probs as [|v rv IH]; intros [|p rp] c H O L; simpl in H; try discriminate.
  - destruct c; [|discriminate]. simpl. auto.
  - apply andb_prop in H as [H1 H2]. destruct c as [|i c]; [discriminate|].
    change (sorted_probs (v :: rv) (p :: rp)) with (apply_perm p v :: sorted_probs rv rp) in *.
    simpl in O, L. destruct O as [Hi O]. rewrite apply_perm_length in Hi.
    destruct (IH rp c H2 O) as [J [Oc Lc]]; [lia|].
    destruct (sorting_perm_facts _ _ H1) as [Lp [Sp Dp]].
    change (unperm_state (p :: rp) (i :: c)) with (nth i p 0%nat :: unperm_state rp c).
    assert (nth i p 0%nat < length v)%nat as Hn.
    { (* a list of length n containing every j < n has all its elements < n *)
      apply (perm_bound v p); auto. }
    rewrite !jointp_cons, nth_apply_perm, J by exact Hi. simpl. repeat split; auto.
Qed.

(* ---------- exact weights: completeness ---------- *)
Lemma atol_pos : 0 < nonzero_atol.
Proof. reflexivity. Qed.

Lemma thr_facts q : 1 <= q -> 0 < 1 / q /\ 1 / q <= 1.
Proof.
  intros H. assert (0 < q) as Hq by lra. split.
  - apply Qlt_shift_div_l; lra.
  - apply Qle_shift_div_r; lra.
Qed.

Lemma spec_full_value probs perms thr c p : sorting_perms_b probs perms = true -> thr <= 1 ->
  In (YFull c p) (dfs_spec (sorted_probs probs perms) thr) ->
  p == jointp probs (unperm_state perms c) /\ thr <= p /\
  idx_ok probs (unperm_state perms c) /\ length (unperm_state perms c) = length probs.
Proof.
  intros S T H. unfold dfs_spec in H.
  pose proof (node_full thr (sorted_probs probs perms) [] 1 (YFull c p) T H) as F.
  simpl in F. destruct F as [c' [-> [O [L [V T']]]]].
  destruct (from_sorted probs perms c' S O L) as [J [O' L']].
  rewrite <- J. repeat split; auto. rewrite V. ring.
Qed.

Lemma dfs_ret_exact probs perms q ret cond wts0 ids :
  valid probs -> sorting_perms_b probs perms = true -> 1 <= q ->
  dfs_acc probs perms q = (ret, cond, wts0) ->
  in_range probs ids -> 1 / q <= jointp probs ids ->
  exists w, dget ret ids = Some (w, EXACT) /\ w == q * jointp probs ids.
Proof.
  intros V S Hq Eacc R T. apply in_range_idx_ok in R. destruct R as [O L].
  destruct (thr_facts q Hq) as [T0 T1].
  unfold dfs_acc in Eacc.
  destruct (Qle_bool (1 / q) (qprod (map qmax probs))) eqn:El.
  - assert (ret = fold_left (ret_step q) (gen_unsorted probs perms (1 / q)) []) as ->.
    { transitivity (fst (fst (fold_left (absorb (length probs) q) (gen_unsorted probs perms (1 / q))
                                  (([] : wdict), ([] : list (key * list Q)), 1)))).
      - apply (f_equal (fun t => fst (fst t))) in Eacc. symmetry. exact Eacc.
      - apply absorb_ret. }
    rewrite ret_get.
    destruct (to_sorted probs perms ids S O L) as [c [Oc [Lc [Uc Jc]]]].
    assert (has_full (dfs_spec (sorted_probs probs perms) (1 / q)) c) as Hf.
    { unfold dfs_spec.
      apply (node_complete (1 / q) (sorted_probs probs perms)
               (sorted_ok_sorted probs perms (valid_unit _ V) S) [] 1 c); auto; try lra.
      rewrite Jc. lra. }
    destruct Hf as [p Hp]. apply gen_unsorted_full in Hp. rewrite Uc in Hp.
    destruct (has_full_last _ ids (ex_intro _ p Hp)) as [p' Hl]. rewrite Hl.
    apply last_full_In in Hl. apply gen_unsorted_full_inv in Hl. destruct Hl as [c' [E Hc']].
    destruct (spec_full_value probs perms (1 / q) c' p' S T1 Hc') as [Vp _].
    exists (p' * q). split; auto. rewrite Vp, <- E. ring.
  - exfalso. destruct (jointp_le_max probs ids (valid_nonneg _ V) O L) as [_ B].
    assert (1 / q <= qprod (map qmax probs)) as C by lra. apply Qle_bool_iff in C. congruence.
Qed.

Lemma fin_outcome_keeps probs perms q tape r mins ret cond wts0 k v :
  fin_outcome probs perms q tape r ->
  all_some (map min_filter_nonzero probs) = Some mins -> ~ 1 / q <= qprod mins ->
  dfs_acc probs perms q = (ret, cond, wts0) -> dget ret k = Some v -> dget r k = Some v.
Proof.
  intros F Em Na Eacc G. destruct F as [m2 E2 A2 _|m2 r2 c2 w2 E2 _ A2 _ ->|m2 r2 c2 w2 rs E2 _ A2 _ _ _ Dn ->
                                       |m2 r2 c2 w2 s t lg E2 _ A2 _ _ _ Hi].
  - rewrite Em in E2. inversion E2; subst. contradiction.
  - rewrite Eacc in A2. inversion A2; subst. exact G.
  - rewrite Eacc in A2. inversion A2; subst. rewrite dget_dset_other; auto. intros ->. congruence.
  - rewrite Eacc in A2. inversion A2; subst. eapply insert_samples_keeps; eauto.
Qed.

Theorem exact_complete probs perms q tape r ids :
  valid probs -> sorting_perms_b probs perms = true -> nonzero_atol * q <= 1 ->
  gen_weights probs perms (Fin q) tape = Some (Ok r) ->
  in_range probs ids -> 1 / q <= jointp probs ids ->
  exists w, dget r ids = Some (w, EXACT) /\ w == q * jointp probs ids.
Proof.
  intros V S A G R T. apply gen_weights_fin_inv in G. destruct G as [Hq F].
  assert (nonzero_atol <= 1 / q) as At by (apply Qle_shift_div_l; lra).
  inversion F as [mins Em Ae ->|mins ret cond wts0 Em Na Eacc _ _|mins ret cond wts0 rs Em Na Eacc _ _ _ _ _
                 |mins ret cond wts0 s t lg Em Na Eacc _ _ _ _].
  - rewrite all_exact_get.
    assert (existsb (key_eqb ids) (cart (map (@length Q) probs)) = true) as ->.
    { apply existsb_key. apply In_cart. now apply in_range_idx_ok. }
    assert (Qltb (jointp probs ids) nonzero_atol = false) as -> by (apply Qltb_ge; lra).
    simpl. eexists; split; reflexivity.
  - destruct (dfs_ret_exact probs perms q ret cond wts0 ids V S Hq Eacc R T) as [w [Gw Ew]].
    exists w. split; auto. eapply fin_outcome_keeps; eauto.
  - destruct (dfs_ret_exact probs perms q ret cond wts0 ids V S Hq Eacc R T) as [w [Gw Ew]].
    exists w. split; auto. eapply fin_outcome_keeps; eauto.
  - destruct (dfs_ret_exact probs perms q ret cond wts0 ids V S Hq Eacc R T) as [w [Gw Ew]].
    exists w. split; auto. eapply fin_outcome_keeps; eauto.
Qed.

(* ---------- _min_filter_nonzero ---------- *)
Lemma fold_min_in : forall r x, In (fold_left (fun a b => if Qltb b a then b else a) r x) (x :: r).
Proof.
  induction r as [|b r IH]; intros x; simpl; [now left|].
  destruct (Qltb b x).
  - destruct (IH b) as [H|H]; [right; left; exact H|right; right; exact H].
  - destruct (IH x) as [H|H]; [left; exact H|right; right; exact H].
Qed.

Lemma isclose0_false_pos x : 0 <= x -> isclose0 x = false -> nonzero_atol < x.
Proof.
  intros N H. unfold isclose0 in H. rewrite Qabs_pos in H by exact N.
  apply Qnot_le_lt. intros L. apply Qle_bool_iff in L. congruence.
Qed.

Lemma isclose0_big x : nonzero_atol < x -> isclose0 x = false.
Proof.
  intros H. unfold isclose0. pose proof atol_pos. rewrite Qabs_pos by lra.
  destruct (Qle_bool x nonzero_atol) eqn:E; [|reflexivity]. apply Qle_bool_iff in E. lra.
Qed.

Lemma min_filter_some v : Forall (fun x => 0 <= x) v -> (exists x, In x v /\ nonzero_atol < x) ->
  exists m, min_filter_nonzero v = Some m /\ nonzero_atol < m /\ In m v.
Proof.
  intros N [x [I B]]. unfold min_filter_nonzero.
  assert (In x (filter (fun x => negb (isclose0 x)) v)) as If.
  { apply filter_In. split; auto. now rewrite isclose0_big. }
  destruct (filter (fun x => negb (isclose0 x)) v) as [|a r] eqn:Ef; [destruct If|].
  eexists. split; [reflexivity|].
  pose proof (fold_min_in r a) as M. rewrite <- Ef in M. apply filter_In in M. destruct M as [Mv Mc].
  split; auto. apply isclose0_false_pos.
  - rewrite Forall_forall in N. now apply N.
  - now apply negb_true_iff in Mc.
Qed.

Lemma all_some_mins probs : Forall (Forall (fun x => 0 <= x)) probs ->
  Forall (fun v => exists x, In x v /\ nonzero_atol < x) probs ->
  exists mins, all_some (map min_filter_nonzero probs) = Some mins /\ 0 < qprod mins.
Proof.
  induction probs as [|v r IH]; intros N B; simpl.
  - exists []. split; reflexivity.
  - inversion N; subst. inversion B; subst.
    destruct (min_filter_some v) as [m [Em [Bm _]]]; auto.
    destruct IH as [mins [Es Pp]]; auto. rewrite Em, Es. simpl.
    exists (m :: mins). split; auto. simpl. pose proof atol_pos. nra.
Qed.

(* ---------- infinite budget ---------- *)
Lemma all_exact_spec probs m ids :
  (idx_ok probs ids /\ length ids = length probs /\ nonzero_atol <= jointp probs ids ->
     dget (all_exact probs m) ids = Some (m * jointp probs ids, EXACT)) /\
  (forall w t, dget (all_exact probs m) ids = Some (w, t) ->
     idx_ok probs ids /\ length ids = length probs /\ nonzero_atol <= jointp probs ids /\
     t = EXACT /\ w = m * jointp probs ids).
Proof.
  rewrite all_exact_get. split.
  - intros [O [L B]].
    assert (existsb (key_eqb ids) (cart (map (@length Q) probs)) = true) as -> by (apply existsb_key, In_cart; auto).
    assert (Qltb (jointp probs ids) nonzero_atol = false) as -> by (now apply Qltb_ge).
    reflexivity.
  - intros w t H.
    destruct (existsb (key_eqb ids) (cart (map (@length Q) probs))) eqn:E1; [|discriminate].
    destruct (Qltb (jointp probs ids) nonzero_atol) eqn:E2; [discriminate|].
    simpl in H. inversion H; subst. apply existsb_key, In_cart in E1. apply Qltb_ge in E2. tauto.
Qed.

Theorem infinite_budget probs perms tape :
  Forall (Forall (fun x => 0 <= x)) probs ->
  Forall (fun v => exists x, In x v /\ nonzero_atol < x) probs ->
  gen_weights probs perms PInf tape = Some (Ok (all_exact probs 1)).
Proof.
  intros N B. destruct (all_some_mins probs N B) as [mins [Em Pp]].
  unfold gen_weights, gen_core. rewrite Em.
  assert (Qle_bool 0 (qprod mins) = true) as -> by (apply Qle_bool_iff; lra). reflexivity.
Qed.

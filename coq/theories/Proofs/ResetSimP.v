(* Proofs/ResetSimP.v — the state-by-state reset passes are correct in ANY branch semantics whose
   operations satisfy the laws below (Section hypotheses); Proofs/ResetSimQ.v proves the laws for
   the exact state-vector simulator. *)
From Coq Require Import Lia ZifyBool.
From CKT Require Import Common.Base Common.Circ Model.ResetPasses Model.ResetSim
  Proofs.ResetPassesP Proofs.ResetPassesSem.

Section Laws.
  Variable state : Type.
  Variable apply : nat -> list nat -> state -> state.
  Variable proj : state -> nat -> bool -> state.
  Variable flipx : state -> nat -> state.
  Variable szero : state -> bool.
  (* [Zq q s]: in s, qubit q is |0> and unentangled (support only where bit q = 0) *)
  Variable Zq : nat -> state -> Prop.

  (* reset of a |0> qubit: the 0-branch is the state itself, the 1-branch has weight 0 *)
  Hypothesis proj0_id : forall q s, Zq q s -> proj s q false = s.
  Hypothesis proj1_zero : forall q s, Zq q s -> szero (flipx (proj s q true) q) = true.
  (* after a reset of q, q is |0> in both branches *)
  Hypothesis reset_Z0 : forall q s, Zq q (proj s q false).
  Hypothesis reset_Z1 : forall q s, Zq q (flipx (proj s q true) q).
  (* operations on other qubits leave q in |0> *)
  Hypothesis apply_Z : forall g qs q s, ~ In q qs -> Zq q s -> Zq q (apply g qs s).
  Hypothesis proj_Z : forall q q' b s, q <> q' -> Zq q s -> Zq q (proj s q' b).
  Hypothesis flipx_Z : forall q q' s, q <> q' -> Zq q s -> Zq q (flipx s q').
  (* linearity at 0: a weight-0 branch stays a weight-0 branch *)
  Hypothesis zero_apply : forall g qs s, szero s = true -> szero (apply g qs s) = true.
  Hypothesis zero_proj : forall s q b, szero s = true -> szero (proj s q b) = true.
  Hypothesis zero_flipx : forall s q, szero s = true -> szero (flipx s q) = true.

  Notation bstep := (bstep apply proj flipx).
  Notation bsteps := (bsteps apply proj flipx).
  Notation brun := (brun apply proj flipx).
  Notation clean := (clean szero).
  Notation branch := (branch state).

  Lemma bsteps_app x (l1 l2 : list branch) : bsteps x (l1 ++ l2) = bsteps x l1 ++ bsteps x l2.
  Proof. unfold ResetSim.bsteps. apply flat_map_app. Qed.

  Lemma brun_app c : forall l1 l2 : list branch, brun c (l1 ++ l2) = brun c l1 ++ brun c l2.
  Proof.
    induction c as [|x c IH]; intros l1 l2; [reflexivity|].
    unfold ResetSim.brun in *. simpl. rewrite bsteps_app. apply IH.
  Qed.

  Lemma brun_cons x c (l : list branch) : brun (x :: c) l = brun c (bsteps x l).
  Proof. reflexivity. Qed.

  Lemma clean_app (l1 l2 : list branch) : clean (l1 ++ l2) = clean l1 ++ clean l2.
  Proof. unfold ResetSim.clean. apply filter_app. Qed.

  Definition allzero (l : list branch) : Prop := forall b, In b l -> szero (snd b) = true.

  Lemma bstep_zero x b : szero (snd b) = true -> allzero (bstep x b).
  Proof.
    intros Z b' I. unfold ResetSim.bstep in I. destruct (iop x).
    - destruct I as [<-|[]]. simpl. now apply zero_apply.
    - destruct I as [<-|[]]. assumption.
    - destruct (iqs x) as [|q r]; [destruct I as [<-|[]]; assumption|].
      destruct (ics x) as [|c r']; [destruct I as [<-|[]]; assumption|].
      destruct I as [<-|[<-|[]]]; simpl; now apply zero_proj.
    - destruct (iqs x) as [|q r]; [destruct I as [<-|[]]; assumption|].
      destruct I as [<-|[<-|[]]]; simpl; [now apply zero_proj|apply zero_flipx; now apply zero_proj].
    - destruct I as [<-|[]]. assumption.
    - destruct I as [<-|[]]. assumption.
    - destruct I as [<-|[]]. assumption.
    - destruct I as [<-|[]]. assumption.
    - destruct I as [<-|[]]. assumption.
  Qed.

  Lemma bsteps_zero x l : allzero l -> allzero (bsteps x l).
  Proof.
    intros Z b I. unfold ResetSim.bsteps in I. apply in_flat_map in I as [b0 [I0 I1]].
    eapply bstep_zero; eauto.
  Qed.

  Lemma brun_zero c : forall l, allzero l -> allzero (brun c l).
  Proof.
    induction c as [|x c IH]; intros l Z; [assumption|]. rewrite brun_cons. apply IH. now apply bsteps_zero.
  Qed.

  Lemma clean_allzero l : allzero l -> clean l = [].
  Proof.
    induction l as [|b l IH]; intros Z; [reflexivity|]. unfold ResetSim.clean in *. simpl.
    rewrite (Z b (or_introl eq_refl)). simpl. apply IH. intros b' I. apply Z. now right.
  Qed.

  (* weight-0 branches can be dropped at any time *)
  Lemma clean_brun c l : clean (brun c l) = clean (brun c (clean l)).
  Proof.
    induction l as [|b l IH]; [reflexivity|].
    change (b :: l) with ([b] ++ l). rewrite brun_app, clean_app, IH.
    destruct (szero (snd b)) eqn:Z.
    - rewrite (clean_allzero (brun c [b])).
      + unfold ResetSim.clean at 3. simpl. rewrite Z. reflexivity.
      + apply brun_zero. intros b' [<-|[]]. assumption.
    - assert (E : clean ([b] ++ l) = [b] ++ clean l).
      { unfold ResetSim.clean. simpl. now rewrite Z. }
      rewrite E, brun_app, clean_app. reflexivity.
  Qed.

  (* a reset of a qubit that is |0> in every branch does nothing (up to weight-0 branches) *)
  Lemma reset_noop x q r l : is_reset x = true -> iqs x = q :: r ->
    (forall b, In b l -> Zq q (snd b)) -> clean (bsteps x l) = clean l.
  Proof.
    intros R Eq Z. induction l as [|b l IH]; [reflexivity|].
    change (b :: l) with ([b] ++ l). rewrite bsteps_app, !clean_app, IH by (intros b' I; apply Z; now right).
    f_equal. unfold ResetSim.bsteps, ResetSim.bstep. simpl. rewrite (is_reset_iop _ R), Eq, app_nil_r.
    assert (Zb : Zq q (snd b)) by (apply Z; now left).
    unfold ResetSim.clean. simpl. rewrite (proj0_id _ _ Zb), (proj1_zero _ _ Zb). simpl.
    destruct b; reflexivity.
  Qed.

  Definition Inv (P : nat -> Prop) (l : list branch) : Prop :=
    forall b, In b l -> forall q, P q -> Zq q (snd b).

  (* after a reset of q: q is |0> everywhere, and so is every other qubit that was *)
  Lemma inv_reset (P : nat -> Prop) x q l : is_reset x = true -> iqs x = [q] ->
    Inv (fun j => j <> q /\ P j) l -> Inv (fun j => j = q \/ P j) (bsteps x l).
  Proof.
    intros R Eq I b Ib j Pj. unfold ResetSim.bsteps in Ib. apply in_flat_map in Ib as [b0 [I0 I1]].
    unfold ResetSim.bstep in I1. rewrite (is_reset_iop _ R), Eq in I1.
    destruct (Nat.eq_dec j q) as [->|N].
    - destruct I1 as [<-|[<-|[]]]; simpl; [apply reset_Z0|apply reset_Z1].
    - assert (Z0 : Zq j (snd b0)) by (apply (I b0 I0); split; [assumption|destruct Pj; [contradiction|assumption]]).
      destruct I1 as [<-|[<-|[]]]; simpl; [now apply proj_Z|apply flipx_Z; [assumption|now apply proj_Z]].
  Qed.

  (* a non-reset instruction keeps |0> on every qubit it does not touch *)
  Lemma inv_other nq nc (P : nat -> Prop) x l : wf_instr nq nc x = true -> is_reset x = false ->
    Inv P l -> Inv (fun j => P j /\ ~ In j (iqs x)) (bsteps x l).
  Proof.
    intros W R I b Ib j [Pj Nj]. unfold ResetSim.bsteps in Ib. apply in_flat_map in Ib as [b0 [I0 I1]].
    pose proof (I b0 I0 j Pj) as Z0.
    unfold ResetSim.bstep in I1. destruct (iop x) eqn:Eo.
    - destruct I1 as [<-|[]]. simpl. now apply apply_Z.
    - destruct I1 as [<-|[]]. assumption.
    - destruct (iqs x) as [|q r] eqn:Eq; [destruct I1 as [<-|[]]; assumption|].
      destruct (ics x) as [|c r']; [destruct I1 as [<-|[]]; assumption|].
      assert (j <> q) by (intros ->; apply Nj; now left).
      destruct I1 as [<-|[<-|[]]]; simpl; now apply proj_Z.
    - unfold is_reset in R. rewrite Eo in R. discriminate.
    - destruct I1 as [<-|[]]. assumption.
    - destruct I1 as [<-|[]]. assumption.
    - destruct I1 as [<-|[]]. assumption.
    - destruct I1 as [<-|[]]. assumption.
    - destruct I1 as [<-|[]]. assumption.
  Qed.

  Lemma inv_weaken (P P' : nat -> Prop) l : (forall j, P' j -> P j) -> Inv P l -> Inv P' l.
  Proof. intros H I b Ib j Pj. apply (I b Ib). now apply H. Qed.

  (* ---- _consolidate_resets ---- *)
  Lemma cmask_sim nq nc c : wf nq nc c = true -> forall f l,
    Inv (fun q => nth q f false = true) l ->
    clean (brun (drop_mask (cmask f c) c) l) = clean (brun c l).
  Proof.
    induction c as [|x r IH]; intros W f l I; [reflexivity|].
    apply wf_cons in W as [Wx W]. specialize (IH W). cbn [cmask].
    destruct (is_reset x) eqn:R.
    - destruct (wf_reset _ _ _ Wx R) as [Eq _].
      destruct (nth (rq x) f false) eqn:F; cbn [drop_mask]; rewrite !brun_cons.
      + rewrite (IH f l I). rewrite (clean_brun r (bsteps x l)), (reset_noop x (rq x) [] l R Eq).
        * now rewrite <- clean_brun.
        * intros b Ib. now apply (I b Ib).
      + apply IH. eapply inv_weaken; [|apply (inv_reset (fun q => nth q f false = true) x (rq x) l R Eq)].
        * intros j Hj. destruct (Nat.eq_dec j (rq x)) as [->|N]; [now left|right].
          now rewrite nth_upd_other in Hj by congruence.
        * eapply inv_weaken; [|exact I]. intros j [_ Hj]. exact Hj.
    - cbn [drop_mask]. rewrite !brun_cons. apply IH.
      eapply inv_weaken; [|apply (inv_other nq nc _ x l Wx R I)].
      intros j Hj. cbv beta. rewrite set_flags_nth in Hj. fold (on_wire j x) in Hj.
      destruct (on_wire j x) eqn:O; simpl in Hj.
      + destruct (Nat.ltb j (length f)) eqn:Lj; [discriminate|].
        apply Nat.ltb_ge in Lj. rewrite nth_overflow in Hj by assumption. discriminate.
      + split; [assumption|now apply on_wire_false].
  Qed.

  (* ---- _remove_resets_in_zero_state ---- *)
  Lemma zmask_sim nq nc c : wf nq nc c = true -> forall f l, length f = nq ->
    Inv (fun q => nth q f false = false) l ->
    clean (brun (drop_mask (zmask f nq c) c) l) = clean (brun c l).
  Proof.
    induction c as [|x r IH]; intros W f l Lf I; [reflexivity|].
    apply wf_cons in W as [Wx W]. specialize (IH W). cbn [zmask].
    destruct (is_reset x) eqn:R.
    - destruct (wf_reset _ _ _ Wx R) as [Eq _].
      destruct (nth (rq x) f false) eqn:F; cbn [drop_mask]; rewrite !brun_cons.
      + apply IH; [assumption|].
        eapply inv_weaken; [|apply (inv_reset (fun q => nth q f false = false) x (rq x) l R Eq)].
        * intros j Hj. now right.
        * eapply inv_weaken; [|exact I]. intros j [_ Hj]. exact Hj.
      + rewrite (IH f l Lf I). rewrite (clean_brun r (bsteps x l)), (reset_noop x (rq x) [] l R Eq).
        * now rewrite <- clean_brun.
        * intros b Ib. now apply (I b Ib).
    - cbv zeta. destruct (Nat.eqb _ nq); [reflexivity|]. cbn [drop_mask]. rewrite !brun_cons.
      apply IH; [now rewrite set_flags_length|].
      eapply inv_weaken; [|apply (inv_other nq nc _ x l Wx R I)].
      intros j Hj. cbv beta. rewrite set_flags_nth in Hj. fold (on_wire j x) in Hj.
      destruct (on_wire j x) eqn:O; simpl in Hj.
      + apply on_wire_In in O. pose proof (wf_qubits _ _ _ _ Wx O) as Lq.
        rewrite <- Lf in Lq. apply Nat.ltb_lt in Lq. rewrite Lq in Hj. discriminate.
      + split; [assumption|now apply on_wire_false].
  Qed.

  (* starting from any single state in which every qubit is |0> *)
  (* from ANY list of branches (nothing is assumed about the start state) *)
  Theorem consolidate_sim nq nc c l : wf nq nc c = true ->
    clean (brun (consolidate_resets nq c) l) = clean (brun c l).
  Proof.
    intros W. rewrite consolidate_as_mask. apply (cmask_sim nq nc c W).
    intros b _ q Hq. rewrite nth_repeat_false in Hq. discriminate.
  Qed.

  Theorem zero_sim nq nc c k s0 : wf nq nc c = true -> (forall q, Zq q s0) ->
    clean (brun (remove_resets_in_zero_state nq c) [(k, s0)]) = clean (brun c [(k, s0)]).
  Proof.
    intros W Z. rewrite zero_as_mask. apply (zmask_sim nq nc c W); [apply repeat_length|].
    intros b [<-|[]] q _. apply Z.
  Qed.
End Laws.

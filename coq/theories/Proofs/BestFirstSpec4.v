(* Proofs/BestFirstSpec4.v — c08_pruning_sound on the larger finite domain (<= 4 gates, 14 510 circuits), assembled from the
   checked parts BestFirstSpec (<= 3 gates) and BestFirstSpec4a..f (exactly 4 gates, ~4 CPU-minutes of vm_compute).
   NOT imported by Properties/C08.v: coqchk re-checks vm_compute casts about 18x slower than coqc (measured: 63 s vs 3.4 s
   for the 3-gate part), so the 4-gate part would take over an hour in the thorough tier's `coqchk -o`.
   The statements are the same as c08_pruning_sound_bounded / c08_flag_sound_bounded with 4 in place of 3; the file is
   compiled by coqc (closed under the global context). *)
From Coq Require Import QArith Lia.
From CKT Require Import Model.CutFinder Proofs.BestFirstP Proofs.BestFirstSpec
  Proofs.BestFirstSpec4a Proofs.BestFirstSpec4b Proofs.BestFirstSpec4c Proofs.BestFirstSpec4d Proofs.BestFirstSpec4e
  Proofs.BestFirstSpec4f.
Close Scope Q_scope.

Lemma c08_exact4_checked lab : forall x, In x c08_exact4 -> exists l, list_check lab 4 l = true /\ In x l.
Proof.
  intros x I. destruct (in_chunks 2320 x 5 _ I) as (c&Ic&Ix). fold c08_chunks4 in Ic.
  assert (E : c08_chunks4 = [nth 0 c08_chunks4 []; nth 1 c08_chunks4 []; nth 2 c08_chunks4 []; nth 3 c08_chunks4 [];
                             nth 4 c08_chunks4 []; nth 5 c08_chunks4 []]) by reflexivity.
  rewrite E in Ic.
  destruct Ic as [<-|[<-|[<-|[<-|[<-|[<-|[]]]]]]].
  - exists (nth 0 c08_chunks4 []); split; [apply c08_chunk4_0_checked|exact Ix].
  - exists (nth 1 c08_chunks4 []); split; [apply c08_chunk4_1_checked|exact Ix].
  - exists (nth 2 c08_chunks4 []); split; [apply c08_chunk4_2_checked|exact Ix].
  - exists (nth 3 c08_chunks4 []); split; [apply c08_chunk4_3_checked|exact Ix].
  - exists (nth 4 c08_chunks4 []); split; [apply c08_chunk4_4_checked|exact Ix].
  - exists (nth 5 c08_chunks4 []); split; [apply c08_chunk4_5_checked|exact Ix].
Qed.

Lemma c08_domain_gammas_ok lab c used : In (c, used) c08_domain -> gammas_ok (gates_from lab 0 c).
Proof. intros I. exact (list_gammas_ok lab _ c used c08_domain_gammas I). Qed.

Lemma pruning_sound_bounded4 lab c used : In (c, used) c08_domain ->
  forall nq W gl wl mg, used <= nq <= 4 -> 1 <= W <= 4 -> In (gl, wl) lo_combos ->
  pruning_sound_for (gates_from lab 0 c) gl wl W mg nq.
Proof.
  intros I. pose proof (c08_domain_gammas_ok lab c used I) as G.
  destruct (c08_domain_split _ I) as [I3|I4].
  - exact (list_check_sound lab 4 _ (c08_domain3_checked lab) c used I3 G).
  - destruct (c08_exact4_checked lab _ I4) as (l&Hl&Il). exact (list_check_sound lab 4 l Hl c used Il G).
Qed.

Lemma flag_sound_bounded4 fuel i r lab c used : In (c, used) c08_domain ->
  fa_gates (fa_of i) = gates_from lab 0 c -> used <= nq_of i <= 4 -> 1 <= fi_W i <= 4 ->
  In (fi_gate_lo i, fi_wire_lo i) lo_combos ->
  find_cuts_full fuel i = Val r -> md_minimum_reached (fr_meta r) = true ->
  forall A k, assignment_cost (nq_of i) (fi_W i) (fi_gate_lo i) (fi_wire_lo i) (sgates_of (fa_gates (fa_of i))) A = Some k ->
  (md_overhead (fr_meta r) <= k * k)%Q.
Proof.
  intros I Eg Hn HW Ilo H F. apply (flag_sound_spec fuel i r); auto.
  - unfold gammas_ok_in. rewrite Eg. eapply c08_domain_gammas_ok; eauto.
  - rewrite Eg. eapply pruning_sound_bounded4; eauto.
Qed.

Lemma unrestricted_bounded4 fuel i r lab c used : In (c, used) c08_domain ->
  fa_gates (fa_of i) = gates_from lab 0 c -> used <= nq_of i <= 4 -> 1 <= fi_W i <= 4 ->
  In (fi_gate_lo i, fi_wire_lo i) lo_combos ->
  find_cuts_full fuel i = Val r -> fi_max_backjumps i = None -> spec_within i ->
  md_minimum_reached (fr_meta r) = true.
Proof.
  intros I Eg Hn HW Ilo H MB SW. apply (unrestricted_spec fuel i r); auto.
  - unfold gammas_ok_in. rewrite Eg. eapply c08_domain_gammas_ok; eauto.
  - rewrite Eg. eapply pruning_sound_bounded4; eauto.
Qed.

Lemma seed_independent_bounded4 fuel1 fuel2 i t1 t2 r1 r2 lab c used : In (c, used) c08_domain ->
  fa_gates (fa_of i) = gates_from lab 0 c -> used <= nq_of i <= 4 -> 1 <= fi_W i <= 4 ->
  In (fi_gate_lo i, fi_wire_lo i) lo_combos ->
  fi_max_backjumps i = None -> spec_within i ->
  find_cuts_full fuel1 (with_tape i t1) = Val r1 -> find_cuts_full fuel2 (with_tape i t2) = Val r2 ->
  (md_overhead (fr_meta r1) == md_overhead (fr_meta r2))%Q.
Proof.
  intros I Eg Hn HW Ilo MB SW. apply (seed_independent_spec fuel1 fuel2 i t1 t2 r1 r2); auto.
  - unfold gammas_ok_in. rewrite Eg. eapply c08_domain_gammas_ok; eauto.
  - rewrite Eg. eapply pruning_sound_bounded4; eauto.
Qed.

Print Assumptions pruning_sound_bounded4.
Print Assumptions flag_sound_bounded4.
Print Assumptions unrestricted_bounded4.
Print Assumptions seed_independent_bounded4.

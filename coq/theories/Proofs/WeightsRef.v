(* Proofs/WeightsRef.v — the step machine refines the recursive specification (unbounded). *)
From Coq Require Import QArith Qabs Lia ZifyBool.
From CKT Require Import Common.Base Extracted.Facts Model.Weights Proofs.WeightsP Proofs.WeightsDfs Proofs.WeightsMachine.
Close Scope Q_scope.

Section Ref.
Variable probs : list (list Q).
Variable thr : Q.
Hypothesis NE : Forall (fun b => b <> []) probs.
Let D := length probs.

(* ---------- iterating the step function ---------- *)
Fixpoint iter_step (k : nat) (m : mstate) : option mstate :=
  match k with
  | O => Some m
  | S k' => match step probs thr m with Next m' => iter_step k' m' | _ => None end
  end.

Definition reach (k : nat) (m m' : mstate) : Prop := iter_step k m = Some m'.

Lemma reach_trans a b m1 m2 m3 : reach a m1 m2 -> reach b m2 m3 -> reach (a + b) m1 m3.
Proof.
  unfold reach. revert m1. induction a as [|a IH]; intros m1 H1 H2; simpl in *.
  - inversion H1; subst. exact H2.
  - destruct (step probs thr m1); try discriminate. now apply IH.
Qed.

Lemma reach_one m m' : step probs thr m = Next m' -> reach 1 m m'.
Proof. unfold reach. simpl. now intros ->. Qed.

Lemma run_from_reach k m m' f : reach k m m' -> run_from (k + f) probs thr m = run_from f probs thr m'.
Proof.
  unfold reach. revert m. induction k as [|k IH]; intros m H; simpl in *.
  - now inversion H.
  - destruct (step probs thr m); try discriminate. now apply IH.
Qed.

Lemma run_from_done f m ys : step probs thr m = Done ys -> run_from (S f) probs thr m = Some ys.
Proof. simpl. now intros ->. Qed.

(* ---------- list facts ---------- *)
Lemma upd_split {A} (l : list A) i v : i < length l -> upd l i v = firstn i l ++ v :: skipn (S i) l.
Proof.
  revert i; induction l as [|x l IH]; intros [|i] H; simpl in *; try lia; auto.
  f_equal. apply IH. lia.
Qed.

Lemma skipn_nth_cons {A} (l : list A) i d : i < length l -> skipn i l = nth i l d :: skipn (S i) l.
Proof.
  revert i; induction l as [|x l IH]; intros [|i] H; simpl in *; try lia; auto.
  apply IH. lia.
Qed.

Lemma firstn_snoc_nth {A} (l : list A) i d : i < length l -> firstn (S i) l = firstn i l ++ [nth i l d].
Proof.
  revert i; induction l as [|x l IH]; intros [|i] H; simpl in *; try lia; auto.
  f_equal. apply IH. lia.
Qed.

Lemma skipn_upd_after {A} (l : list A) i v : skipn (S i) (upd l i v) = skipn (S i) l.
Proof.
  revert i; induction l as [|x l IH]; intros i.
  - destruct i; reflexivity.
  - destruct i as [|i]; [reflexivity|]. change (skipn (S i) (upd l i v) = skipn (S i) l). apply IH.
Qed.

Lemma firstn_upd_before {A} (l : list A) i v : firstn i (upd l i v) = firstn i l.
Proof. revert i; induction l as [|x l IH]; intros [|i]; simpl; auto. f_equal. apply IH. Qed.

Lemma nth_skipn_eq {A} (l l' : list A) i d : skipn i l = skipn i l' -> i < length l -> length l = length l' ->
  nth i l d = nth i l' d.
Proof.
  intros E H L. rewrite (skipn_nth_cons l i d H) in E. rewrite (skipn_nth_cons l' i d) in E by lia. now inversion E.
Qed.

Lemma skipn_S_tl {A} (l : list A) : forall i, skipn (S i) l = tl (skipn i l).
Proof.
  induction l as [|x l IH]; intros i.
  - destruct i; reflexivity.
  - destruct i as [|i]; [reflexivity|]. change (skipn (S i) l = tl (skipn i l)). apply IH.
Qed.

Lemma skipn_S_eq {A} (l l' : list A) i : skipn i l = skipn i l' -> skipn (S i) l = skipn (S i) l'.
Proof. intros E. now rewrite !skipn_S_tl, E. Qed.

Lemma last_nth {A} (l : list A) d : last l d = nth (length l - 1) l d.
Proof.
  induction l as [|x l IH]; [reflexivity|]. destruct l as [|y l]; [reflexivity|].
  change (last (x :: y :: l) d) with (last (y :: l) d). rewrite IH. simpl. now rewrite Nat.sub_0_r.
Qed.

Lemma nth_skipn_hd {A} (l : list A) d x r dflt : skipn d l = x :: r -> nth d l dflt = x /\ skipn (S d) l = r /\ d < length l.
Proof.
  revert d; induction l as [|y l IH]; intros [|d] H; simpl in *; try discriminate.
  - inversion H; subst. repeat split; auto; lia.
  - destruct (IH d H) as [HA [HB HC]]. repeat split; auto; lia.
Qed.

(* ---------- extending the table stack ---------- *)
Definition ext (d : nat) (rcp : list (list Q)) : list (list Q) := extend_rcp probs (d - length rcp) rcp.

Lemma extend_rcp_length n : forall rcp, length (extend_rcp probs n rcp) = n + length rcp.
Proof. induction n as [|n IH]; intros rcp; simpl; [reflexivity|]. rewrite IH. simpl. lia. Qed.

Lemma ext_length d rcp : length (ext d rcp) = Nat.max d (length rcp).
Proof. unfold ext. rewrite extend_rcp_length. lia. Qed.

Lemma ext_id d rcp : d <= length rcp -> ext d rcp = rcp.
Proof. intros H. unfold ext. replace (d - length rcp) with 0 by lia. reflexivity. Qed.

Lemma extend_rcp_snoc n : forall rcp, extend_rcp probs (S n) rcp = nth (n + length rcp) probs [] :: extend_rcp probs n rcp.
Proof.
  induction n as [|n IH]; intros rcp; [reflexivity|].
  change (extend_rcp probs (S (S n)) rcp) with (extend_rcp probs (S n) (nth (length rcp) probs [] :: rcp)).
  rewrite IH. simpl length. replace (n + S (length rcp)) with (S n + length rcp) by lia. reflexivity.
Qed.

Lemma ext_S d rcp : length rcp <= d -> ext (S d) rcp = nth d probs [] :: ext d rcp.
Proof.
  intros H. unfold ext. replace (S d - length rcp) with (S (d - length rcp)) by lia.
  rewrite extend_rcp_snoc. f_equal. f_equal. lia.
Qed.

Definition set_head (rcp : list (list Q)) (j : nat) (f : Q -> Q) : list (list Q) :=
  match rcp with
  | [] => []
  | t :: more => upd t j (f (nth j t 0%Q)) :: more
  end.

(* ---------- what the machine does for one node, in terms of the specification ---------- *)
Open Scope Q_scope.
Definition kidsx (node : key -> Q -> list yield * sub) (prefix : key) (rp : Q) (i : nat) (x : Q) (l : list Q)
  : list yield * list Q * bool :=
  match l with
  | [] => ([], [], false)
  | p :: l' =>
      if Qltb x thr then ([], l, false)
      else let '(ys, s) := node (prefix ++ [i]) x in
           let '(ys', tab, fnd) := kids thr node prefix rp (S i) l' in
           match s with
           | SubNone => (ys ++ ys', p :: tab, fnd)
           | SubLeaf => (ys ++ ys', 0 :: tab, true)
           | SubNorm n => (ys ++ ys', p * n :: tab, true)
           end
  end.

Lemma kids_kidsx node prefix rp i p l' :
  kids thr node prefix rp i (p :: l') = kidsx node prefix rp i (rp * p) (p :: l').
Proof. reflexivity. Qed.

Definition rcp_after (s : sub) (d j : nat) (rcp : list (list Q)) : list (list Q) :=
  match s with
  | SubNone => rcp
  | SubLeaf => set_head (ext d rcp) j (fun _ => 0)
  | SubNorm n => set_head (ext d rcp) j (fun x => x * n)
  end.
Close Scope Q_scope.

Definition node_ok (d : nat) (rest : list (list Q)) : Prop :=
  forall pf0 j r R rcp out,
    length (pf0 ++ [j]) = d -> length R = length pf0 -> length rcp <= d ->
    Qltb r thr = false ->
    exists k x,
      k <= 2 * tree_size rest + 1 /\
      reach k (mkM false (j :: rev pf0) (r :: R) rcp out)
              (mkM (Nat.eqb (S j) (length (nth (d - 1) probs [])))
                   (S j :: rev pf0) (x :: R)
                   (rcp_after (snd (dfs_node thr rest (pf0 ++ [j]) r)) d j rcp)
                   (rev (fst (dfs_node thr rest (pf0 ++ [j]) r)) ++ out)) /\
      (Nat.eqb (S j) (length (nth (d - 1) probs [])) = false ->
         x = (hd 1 R * nth (S j) (nth (d - 1) probs []) 0)%Q).

Definition vtab (d : nat) (cur : list Q) (rcp : list (list Q)) : list Q * list (list Q) :=
  if Nat.eqb (length rcp) (S d) then (hd [] rcp, tl rcp) else (cur, ext d rcp).

Lemma ext_vtab d cur rcp : nth d probs [] = cur -> length rcp <= S d ->
  ext (S d) rcp = fst (vtab d cur rcp) :: snd (vtab d cur rcp).
Proof.
  intros E L. unfold vtab. destruct (Nat.eqb (length rcp) (S d)) eqn:Eq.
  - apply Nat.eqb_eq in Eq. rewrite ext_id by lia. destruct rcp; [discriminate|reflexivity].
  - apply Nat.eqb_neq in Eq. rewrite ext_S by lia. now rewrite E.
Qed.

Definition kids_rcp (d : nat) (cur : list Q) (rcp : list (list Q)) (i : nat) (tab : list Q) (fnd : bool) :=
  if fnd then (firstn i (fst (vtab d cur rcp)) ++ tab) :: snd (vtab d cur rcp) else rcp.

Lemma kids_nofound node prefix rp : forall l i,
  snd (kids thr node prefix rp i l) = false -> snd (fst (kids thr node prefix rp i l)) = l.
Proof.
  induction l as [|p l' IH]; intros i; [reflexivity|]. rewrite kids_cons.
  destruct (Qltb (rp * p)%Q thr); [reflexivity|].
  destruct (node (prefix ++ [i]) (rp * p)%Q) as [ys s]. specialize (IH (S i)).
  destruct (kids thr node prefix rp (S i) l') as [[ys' tab] fnd]. simpl in IH.
  destruct s; simpl; try discriminate. intros F. now rewrite (IH F).
Qed.

Lemma vtab_facts d cur rcp i : nth d probs [] = cur -> length rcp <= S d ->
  (length rcp = S d -> skipn i (hd [] rcp) = skipn i cur /\ length (hd [] rcp) = length cur) ->
  skipn i (fst (vtab d cur rcp)) = skipn i cur /\ length (fst (vtab d cur rcp)) = length cur /\
  length (snd (vtab d cur rcp)) = d.
Proof.
  intros E L H. unfold vtab. destruct (Nat.eqb (length rcp) (S d)) eqn:Eq; simpl.
  - apply Nat.eqb_eq in Eq. destruct (H Eq) as [A B]. repeat split; auto.
    destruct rcp; simpl in *; [discriminate|lia].
  - apply Nat.eqb_neq in Eq. repeat split; auto. rewrite ext_length. lia.
Qed.

Lemma firstn_S_upd {A} (l : list A) i v : i < length l -> firstn (S i) (upd l i v) = firstn i l ++ [v].
Proof.
  revert i; induction l as [|x l IH]; intros [|i] H; simpl in *; try lia; auto.
  f_equal. apply IH. lia.
Qed.

Lemma vtab_cons d cur V B : length B = d -> vtab d cur (V :: B) = (V, B).
Proof. intros L. unfold vtab. simpl. rewrite L, Nat.eqb_refl. reflexivity. Qed.

Lemma kids_machine d cur rest :
  nth d probs [] = cur -> skipn (S d) probs = rest -> node_ok (S d) rest ->
  forall l i pf Rp x rcp out,
    length pf = d -> length Rp = d -> skipn i cur = l -> l <> [] ->
    length rcp <= S d ->
    (length rcp = S d -> skipn i (hd [] rcp) = skipn i cur /\ length (hd [] rcp) = length cur) ->
    exists k c y,
      k <= length l * (2 * tree_size rest + 1) /\
      reach k (mkM false (i :: rev pf) (x :: Rp) rcp out)
              (mkM true (c :: rev pf) (y :: Rp)
                   (kids_rcp d cur rcp i (snd (fst (kidsx (dfs_node thr rest) pf (hd 1%Q Rp) i x l)))
                                         (snd (kidsx (dfs_node thr rest) pf (hd 1%Q Rp) i x l)))
                   (rev (fst (fst (kidsx (dfs_node thr rest) pf (hd 1%Q Rp) i x l))) ++ out)).
Proof.
  intros Ecur Erest Hnode.
  induction l as [|p l' IH]; intros i pf Rp x rcp out Lpf LRp Esk Ne Lrcp Inv; [contradiction|].
  destruct (nth_skipn_hd cur i p l' 0%Q Esk) as [Ep [El' Hi]].
  destruct (vtab_facts d cur rcp i Ecur Lrcp Inv) as [FV1 [FV2 FB]].
  pose proof (ext_vtab d cur rcp Ecur Lrcp) as Eext.
  set (V := fst (vtab d cur rcp)) in *. set (B := snd (vtab d cur rcp)) in *.
  assert (nth i V 0%Q = p) as EpV.
  { rewrite (nth_skipn_eq V cur i 0%Q FV1); [exact Ep|lia|exact FV2]. }
  unfold kidsx. destruct (Qltb x thr) eqn:Ex.
  - (* pruned *)
    exists 1, i, x. split; [simpl; lia|]. cbn [fst snd rev app]. unfold kids_rcp. apply reach_one.
    unfold step. cbn [m_pop m_rp m_st m_rcp m_out]. now rewrite Ex.
  - assert (length (pf ++ [i]) = S d) as Lpfi by (rewrite app_length; simpl; lia).
    assert (length Rp = length pf) as LRp' by lia.
    destruct (Hnode pf i x Rp rcp out Lpfi LRp' Lrcp Ex) as [k1 [x1 [Hk1 [R1 X1]]]].
    replace (S d - 1) with d in R1, X1 by lia. rewrite Ecur in R1, X1.
    destruct (dfs_node thr rest (pf ++ [i]) x) as [ys s] eqn:En. cbn [fst snd] in R1.
    assert (rcp_after s (S d) i rcp =
            match s with
            | SubNone => rcp
            | SubLeaf => upd V i 0%Q :: B
            | SubNorm nn => upd V i (p * nn)%Q :: B
            end) as Ercp1.
    { unfold rcp_after. rewrite Eext. unfold set_head. rewrite EpV. destruct s; reflexivity. }
    rewrite Ercp1 in R1. clear Ercp1.
    destruct (Nat.eqb (S i) (length cur)) eqn:Eov.
    + (* the last sibling: the increment overflows *)
      apply Nat.eqb_eq in Eov.
      assert (l' = []) as ->.
      { rewrite <- El'. apply skipn_all2. lia. }
      cbn [kids]. exists k1, (S i), x1. split; [simpl; lia|].
      assert (skipn (S i) V = []) as SV by (apply skipn_all2; lia).
      destruct s; cbn [fst snd]; rewrite app_nil_r; unfold kids_rcp; fold V; fold B.
      * exact R1.
      * rewrite upd_split in R1 by lia. rewrite SV in R1. exact R1.
      * rewrite upd_split in R1 by lia. rewrite SV in R1. exact R1.
    + apply Nat.eqb_neq in Eov. specialize (X1 eq_refl).
      assert (S i < length cur) as Hi' by lia.
      destruct l' as [|p' l''].
      { exfalso. assert (length (skipn (S i) cur) = 0) as Z by now rewrite El'. rewrite skipn_length in Z. lia. }
      destruct (nth_skipn_hd cur (S i) p' l'' 0%Q El') as [Ep' _].
      rewrite Ep' in X1. rewrite kids_kidsx.
      (* the state handed to the next sibling *)
      set (rcp1 := match s with
                   | SubNone => rcp
                   | SubLeaf => upd V i 0%Q :: B
                   | SubNorm nn => upd V i (p * nn)%Q :: B
                   end) in *.
      assert (length rcp1 <= S d) as L1.
      { unfold rcp1. destruct s; simpl; lia. }
      assert (length rcp1 = S d -> skipn (S i) (hd [] rcp1) = skipn (S i) cur /\ length (hd [] rcp1) = length cur) as Inv1.
      { unfold rcp1. destruct s; cbn [hd length].
        - intros H. destruct (Inv H) as [A1 A2]. split; auto. now apply skipn_S_eq.
        - intros _. rewrite skipn_upd_after, upd_length. split; auto. now apply skipn_S_eq.
        - intros _. rewrite skipn_upd_after, upd_length. split; auto. now apply skipn_S_eq. }
      destruct (IH (S i) pf Rp x1 rcp1 (rev ys ++ out) Lpf LRp El' ltac:(discriminate) L1 Inv1)
        as [k2 [c [y [Hk2 R2]]]].
      rewrite <- X1.
      destruct (kidsx (dfs_node thr rest) pf (hd 1%Q Rp) (S i) x1 (p' :: l'')) as [[ys' tab'] fnd'] eqn:Ek.
      cbn [fst snd] in R2.
      exists (k1 + k2), c, y. split; [simpl length in *; lia|].
      assert (reach (k1 + k2) (mkM false (i :: rev pf) (x :: Rp) rcp out)
                (mkM true (c :: rev pf) (y :: Rp) (kids_rcp d cur rcp1 (S i) tab' fnd') (rev ys' ++ rev ys ++ out))) as R12
        by (eapply reach_trans; eauto).
      assert (tab' = p' :: l'' \/ fnd' = true) as Tf.
      { destruct fnd'; [now right|left].
        rewrite X1, <- kids_kidsx in Ek.
        pose proof (kids_nofound (dfs_node thr rest) pf (hd 1%Q Rp) (p' :: l'') (S i)) as Kn.
        rewrite Ek in Kn. now apply Kn. }
      assert (forall e, firstn i V ++ e :: skipn (S i) V = upd V i e) as Us by (intros e; symmetry; apply upd_split; lia).
      destruct s; cbn [fst snd]; rewrite rev_app_distr, <- app_assoc; unfold rcp1, kids_rcp in *.
      * (* SubNone *) fold V in R12. fold B in R12. fold V. fold B.
        destruct fnd'; [|exact R12].
        rewrite (firstn_snoc_nth V i 0%Q) in R12 by lia. rewrite EpV, <- app_assoc in R12. exact R12.
      * (* SubLeaf *)
        rewrite (vtab_cons d cur (upd V i 0%Q) B FB) in R12. cbn [fst snd] in R12. fold V. fold B.
        destruct fnd'.
        -- rewrite firstn_S_upd, <- app_assoc in R12 by lia. exact R12.
        -- destruct Tf as [->|Tf]; [|discriminate]. rewrite <- El'. rewrite <- (skipn_S_eq V cur i FV1).
           rewrite Us. exact R12.
      * (* SubNorm *)
        rewrite (vtab_cons d cur (upd V i (p * n)%Q) B FB) in R12. cbn [fst snd] in R12. fold V. fold B.
        destruct fnd'.
        -- rewrite firstn_S_upd, <- app_assoc in R12 by lia. exact R12.
        -- destruct Tf as [->|Tf]; [|discriminate]. rewrite <- El'. rewrite <- (skipn_S_eq V cur i FV1).
           rewrite Us. exact R12.
Qed.

Lemma rev_snoc_cons (pf0 : key) j : rev (pf0 ++ [j]) = j :: rev pf0.
Proof. now rewrite rev_unit. Qed.

Lemma rev_cons_rev (pf0 : key) j : rev (j :: rev pf0) = pf0 ++ [j].
Proof. simpl. now rewrite rev_involutive. Qed.

Lemma finish_nonempty (pf : key) ys tab : pf <> [] ->
  finish pf (ys, tab, true) =
  (ys ++ (if Qeq_bool (qsum (map zero_small tab)) 0 then []
          else [YCond pf (map (fun x => (x / qsum (map zero_small tab))%Q) (map zero_small tab))]),
   SubNorm (qsum (map zero_small tab))).
Proof. intros N. destruct pf; [contradiction|reflexivity]. Qed.

Lemma node_all : forall rest d, skipn d probs = rest -> 1 <= d -> d <= D -> node_ok d rest.
Proof.
  induction rest as [|cur rest' IH]; intros d Esk Hd1 HdD pf0 j r R rcp out Lpf LR Lrcp Hr.
  - (* a full state *)
    assert (d = D) as -> .
    { assert (length (skipn d probs) = 0) as Z by now rewrite Esk. rewrite skipn_length in Z. unfold D in *. lia. }
    rewrite app_length in Lpf. simpl in Lpf.
    assert (length (ext D rcp) = D) as Lext by (rewrite ext_length; lia).
    destruct (ext D rcp) as [|t more] eqn:Eext; [simpl in Lext; lia|].
    cbn [dfs_node fst snd rcp_after]. rewrite Eext. cbn [set_head rev app].
    destruct (Nat.eqb (S j) (length (nth (D - 1) probs []))) eqn:Eov.
    + exists 1, r. split; [lia|]. split; [|discriminate]. apply reach_one.
      unfold step. cbn [m_pop m_rp m_st m_rcp m_out]. rewrite Hr.
      assert (Nat.ltb (length (j :: rev pf0)) (length probs) = false) as ->.
      { apply Nat.ltb_ge. simpl. rewrite rev_length. unfold D in *. lia. }
      fold D. unfold ext in Eext. rewrite Eext. rewrite last_nth. fold D. rewrite Eov.
      rewrite rev_cons_rev. reflexivity.
    + exists 1, (hd 1%Q R * nth (S j) (nth (D - 1) probs []) 0%Q)%Q. split; [lia|]. split; [|reflexivity].
      apply reach_one. unfold step. cbn [m_pop m_rp m_st m_rcp m_out]. rewrite Hr.
      assert (Nat.ltb (length (j :: rev pf0)) (length probs) = false) as ->.
      { apply Nat.ltb_ge. simpl. rewrite rev_length. unfold D in *. lia. }
      fold D. unfold ext in Eext. rewrite Eext. rewrite last_nth. fold D. rewrite Eov.
      unfold update_rp. cbn [length]. rewrite rev_length.
      replace (S (length pf0) - 1) with (D - 1) by lia.
      rewrite rev_cons_rev. destruct R; reflexivity.
  - (* an inner node *)
    destruct (nth_skipn_hd probs d cur rest' [] Esk) as [Ecur [Erest Hd]]. fold D in Hd.
    assert (cur <> []) as Nc.
    { rewrite Forall_forall in NE. apply NE. rewrite <- Ecur. now apply nth_In. }
    destruct cur as [|p0 cur'] eqn:Ecur0; [contradiction|]. rewrite <- Ecur0 in *.
    assert (node_ok (S d) rest') as Hn by (apply IH; auto; lia).
    rewrite app_length in Lpf. simpl in Lpf.
    remember (pf0 ++ [j]) as pf eqn:Epf.
    assert (length pf = d) as Lpf' by (subst pf; rewrite app_length; simpl; lia).
    assert (length (r :: R) = d) as LRp by (simpl; lia).
    assert (length rcp <= S d) as Lrcp' by lia.
    assert (length rcp = S d -> skipn 0 (hd [] rcp) = skipn 0 cur /\ length (hd [] rcp) = length cur) as Inv by lia.
    assert (skipn 0 cur = cur) as Sk0 by reflexivity.
    destruct (kids_machine d cur rest' Ecur Erest Hn cur 0 pf (r :: R) (r * p0)%Q rcp out Lpf' LRp Sk0 Nc Lrcp' Inv)
      as [k [c [y [Hk Rk]]]].
    cbn [hd] in Rk.
    assert (kidsx (dfs_node thr rest') pf r 0 (r * p0)%Q cur = kids thr (dfs_node thr rest') pf r 0 cur) as Ekx.
    { rewrite Ecur0. reflexivity. }
    rewrite Ekx in Rk. rewrite dfs_node_cons.
    destruct (kids thr (dfs_node thr rest') pf r 0 cur) as [[ysk tab] fnd] eqn:Ek. cbn [fst snd] in Rk.
    assert (rev pf = j :: rev pf0) as Erp by (subst pf; apply rev_snoc_cons).
    rewrite Erp in Rk.
    (* first step: descend *)
    assert (reach 1 (mkM false (j :: rev pf0) (r :: R) rcp out)
                    (mkM false (0 :: j :: rev pf0) ((r * p0)%Q :: r :: R) rcp out)) as R0.
    { apply reach_one. unfold step. cbn [m_pop m_rp m_st m_rcp m_out]. rewrite Hr.
      assert (Nat.ltb (length (j :: rev pf0)) (length probs) = true) as ->.
      { apply Nat.ltb_lt. simpl. rewrite rev_length. unfold D in *. lia. }
      cbn [length]. rewrite rev_length. replace (S (length pf0)) with d by lia. rewrite Ecur, Ecur0. reflexivity. }
    assert (vtab d cur rcp = (cur, ext d rcp)) as Ev.
    { unfold vtab. assert (Nat.eqb (length rcp) (S d) = false) as -> by (apply Nat.eqb_neq; lia). reflexivity. }
    assert (length (ext d rcp) = d) as Lext by (rewrite ext_length; lia).
    destruct (ext d rcp) as [|par rcp2] eqn:Eext; [simpl in Lext; lia|].
    (* the pop step *)
    set (n := length (nth (d - 1) probs [])).
    assert (pf <> []) as Npf by (subst pf; destruct pf0; discriminate).
    assert (rev (j :: rev pf0) = pf) as Erev by (rewrite rev_cons_rev; now subst pf).
    set (norm := qsum (map zero_small tab)).
    assert (exists x,
      reach 1 (mkM true (c :: j :: rev pf0) (y :: r :: R) (kids_rcp d cur rcp 0 tab fnd) (rev ysk ++ out))
              (mkM (Nat.eqb (S j) n) (S j :: rev pf0) (x :: R)
                   (rcp_after (snd (finish pf (ysk, tab, fnd))) d j rcp)
                   (rev (fst (finish pf (ysk, tab, fnd))) ++ out)) /\
      (Nat.eqb (S j) n = false -> x = (hd 1 R * nth (S j) (nth (d - 1) probs []) 0)%Q)) as [x [Rp Xp]].
    { exists (if Nat.eqb (S j) n then r else (hd 1 R * nth (S j) (nth (d - 1) probs []) 0)%Q).
      split; [|intros ->; reflexivity].
      apply reach_one. unfold step. cbn [m_pop m_rp m_st m_rcp m_out].
      unfold kids_rcp. rewrite Ev. cbn [fst snd firstn app].
      assert (forall (rcp' : list (list Q)) (out' : list yield),
        (if negb (Nat.eqb (S j) n) then
           match update_rp probs (S j :: rev pf0) (r :: R) with
           | Some rp' => Next (mkM false (S j :: rev pf0) rp' rcp' out')
           | None => Stuck end
         else Next (mkM true (S j :: rev pf0) (r :: R) rcp' out')) =
        Next (mkM (Nat.eqb (S j) n) (S j :: rev pf0)
                  ((if Nat.eqb (S j) n then r else (hd 1 R * nth (S j) (nth (d - 1) probs []) 0)%Q) :: R) rcp' out')) as Tl.
      { intros rcp' out'. destruct (Nat.eqb (S j) n); cbn [negb]; [reflexivity|].
        unfold update_rp. cbn [length]. rewrite rev_length.
        replace (S (length pf0) - 1) with (d - 1) by lia. destruct R; reflexivity. }
      assert (length (S j :: rev pf0) - 1 = d - 1) as Ld by (simpl; rewrite rev_length; lia).
      destruct fnd.
      - rewrite (finish_nonempty pf ysk tab Npf).
        assert (Nat.eqb (length (j :: rev pf0) + 1) (length (tab :: par :: rcp2)) = true) as ->
          by (apply Nat.eqb_eq; simpl; rewrite rev_length; simpl in Lext; lia).
        rewrite Ld. fold n. rewrite Erev. cbn [fst snd rcp_after]. rewrite Eext. cbn [set_head].
        rewrite Tl. destruct (Qeq_bool (qsum (map zero_small tab)) 0).
        + now rewrite app_nil_r.
        + now rewrite rev_unit.
      - unfold finish. cbn [fst snd rcp_after].
        assert (Nat.eqb (length (j :: rev pf0) + 1) (length rcp) = false) as ->
          by (apply Nat.eqb_neq; simpl; rewrite rev_length; lia).
        rewrite Ld. fold n. now rewrite Tl. }
    exists (1 + k + 1), x. split.
    { cbn [tree_size]. rewrite Ecur0 in Hk. rewrite Ecur0. simpl length in *. nia. }
    split; [|exact Xp].
    eapply reach_trans; [eapply reach_trans; [exact R0|exact Rk]|exact Rp].
Qed.

(* ---------- the whole run ---------- *)
Lemma machine_runs cur0 rest0 p0 cur' : probs = cur0 :: rest0 -> cur0 = p0 :: cur' ->
  run_machine (fuel_bound probs) probs thr
  = Some (fst (finish [] (kidsx (dfs_node thr rest0) [] 1%Q 0 p0 cur0))).
Proof.
  intros Ep Ec.
  assert (nth 0 probs [] = cur0) as Ecur by now rewrite Ep.
  assert (skipn 1 probs = rest0) as Erest by now rewrite Ep.
  assert (1 <= D) as HD by (unfold D; rewrite Ep; simpl; lia).
  pose proof (node_all rest0 1 Erest (le_n 1) HD) as Hn.
  assert (cur0 <> []) as Nc by (rewrite Ec; discriminate).
  destruct (kids_machine 0 cur0 rest0 Ecur Erest Hn cur0 0 [] [] p0 [] [] eq_refl eq_refl eq_refl Nc (Nat.le_0_l _))
    as [k [c [y [Hk Rk]]]]; [simpl; lia|].
  cbn [hd rev app] in Rk.
  unfold run_machine, init_state. rewrite Ecur, Ec. cbn [nth]. rewrite <- Ec.
  destruct (kidsx (dfs_node thr rest0) [] 1%Q 0 p0 cur0) as [[ysk tab] fnd] eqn:Ek. cbn [fst snd] in Rk.
  assert (fuel_bound probs = k + S (fuel_bound probs - k - 1)) as ->.
  { unfold fuel_bound. rewrite Ep. cbn [tree_size]. rewrite Ec in Hk. rewrite Ec. simpl length in *. nia. }
  rewrite (run_from_reach _ _ _ _ Rk). apply run_from_done.
  unfold step. cbn [m_pop m_st m_rp m_rcp m_out]. unfold kids_rcp, vtab. cbn [length Nat.eqb fst snd firstn app].
  unfold finish. destruct fnd.
  - unfold ext. cbn [length Nat.sub extend_rcp Nat.add Nat.eqb rev app fst].
    now rewrite app_nil_r, rev_involutive.
  - cbn [length Nat.add Nat.eqb]. cbn [fst]. now rewrite app_nil_r, rev_involutive.
Qed.
End Ref.

(* ---------- the specification respects Qeq in the running product ---------- *)
Open Scope Q_scope.
Definition yeq (a b : yield) : Prop :=
  match a, b with
  | YFull s p, YFull s' p' => s = s' /\ p == p'
  | YCond s v, YCond s' v' => s = s' /\ Forall2 Qeq v v'
  | _, _ => False
  end.
Definition subeq (a b : sub) : Prop :=
  match a, b with
  | SubNone, SubNone => True
  | SubLeaf, SubLeaf => True
  | SubNorm n, SubNorm n' => n == n'
  | _, _ => False
  end.

Lemma F2_refl (l : list Q) : Forall2 Qeq l l.
Proof. induction l; constructor; auto. reflexivity. Qed.
Lemma yeq_refl y : yeq y y.
Proof. destruct y; simpl; split; auto; [reflexivity|apply F2_refl]. Qed.
Lemma Fy_refl (l : list yield) : Forall2 yeq l l.
Proof. induction l; constructor; auto. apply yeq_refl. Qed.

Lemma Qltb_comp x x' t : x == x' -> Qltb x t = Qltb x' t.
Proof.
  intros E. unfold Qltb. f_equal.
  destruct (Qle_bool t x) eqn:A, (Qle_bool t x') eqn:B; auto.
  - apply Qle_bool_iff in A. rewrite E in A. apply Qle_bool_iff in A. congruence.
  - apply Qle_bool_iff in B. rewrite <- E in B. apply Qle_bool_iff in B. congruence.
Qed.

Lemma zero_small_comp x x' : x == x' -> zero_small x == zero_small x'.
Proof.
  intros E. unfold zero_small, isclose0.
  assert (Qle_bool (Qabs x) nonzero_atol = Qle_bool (Qabs x') nonzero_atol) as ->.
  { destruct (Qle_bool (Qabs x) nonzero_atol) eqn:A, (Qle_bool (Qabs x') nonzero_atol) eqn:B; auto.
    - apply Qle_bool_iff in A. rewrite E in A. apply Qle_bool_iff in A. congruence.
    - apply Qle_bool_iff in B. rewrite <- E in B. apply Qle_bool_iff in B. congruence. }
  destruct (Qle_bool (Qabs x') nonzero_atol); [reflexivity|exact E].
Qed.

Lemma F2_map (f g : Q -> Q) l l' : (forall x x', x == x' -> f x == g x') -> Forall2 Qeq l l' ->
  Forall2 Qeq (map f l) (map g l').
Proof. intros H. induction 1; simpl; constructor; auto. Qed.

Lemma qsum_F2 l l' : Forall2 Qeq l l' -> qsum l == qsum l'.
Proof. induction 1 as [|x x' l l' E _ IH]; simpl; [reflexivity|]. now rewrite E, IH. Qed.

Lemma Qeq_bool_comp x x' : x == x' -> Qeq_bool x 0 = Qeq_bool x' 0.
Proof.
  intros E. destruct (Qeq_bool x 0) eqn:A, (Qeq_bool x' 0) eqn:B; auto.
  - apply Qeq_bool_iff in A. rewrite E in A. apply Qeq_bool_iff in A. congruence.
  - apply Qeq_bool_iff in B. rewrite <- E in B. apply Qeq_bool_iff in B. congruence.
Qed.

Lemma finish_comp pf ys ys' tab tab' fnd :
  Forall2 yeq ys ys' -> Forall2 Qeq tab tab' ->
  Forall2 yeq (fst (finish pf (ys, tab, fnd))) (fst (finish pf (ys', tab', fnd))) /\
  subeq (snd (finish pf (ys, tab, fnd))) (snd (finish pf (ys', tab', fnd))).
Proof.
  intros Hy Ht. unfold finish. destruct fnd; [|split; [exact Hy|exact I]].
  assert (Forall2 Qeq (map zero_small tab) (map zero_small tab')) as H0
    by (apply F2_map; auto; apply zero_small_comp).
  pose proof (qsum_F2 _ _ H0) as Hs.
  destruct pf as [|a pf']; cbn [fst snd].
  - split; [|exact Hs]. apply Forall2_app; auto. constructor; [|constructor]. simpl. auto.
  - split; [|exact Hs]. apply Forall2_app; auto.
    rewrite (Qeq_bool_comp _ _ Hs). destruct (Qeq_bool (qsum (map zero_small tab')) 0); constructor; [|constructor].
    simpl. split; auto. apply F2_map; auto. intros x x' E. now rewrite E, Hs.
Qed.

Lemma node_comp thr bases : forall pf r r', r == r' ->
  Forall2 yeq (fst (dfs_node thr bases pf r)) (fst (dfs_node thr bases pf r')) /\
  subeq (snd (dfs_node thr bases pf r)) (snd (dfs_node thr bases pf r')).
Proof.
  induction bases as [|cur rest IH]; intros pf r r' E.
  - simpl. split; [|exact I]. constructor; [|constructor]. simpl. auto.
  - rewrite !dfs_node_cons.
    assert (forall l i,
      Forall2 yeq (fst (fst (kids thr (dfs_node thr rest) pf r i l))) (fst (fst (kids thr (dfs_node thr rest) pf r' i l))) /\
      Forall2 Qeq (snd (fst (kids thr (dfs_node thr rest) pf r i l))) (snd (fst (kids thr (dfs_node thr rest) pf r' i l))) /\
      snd (kids thr (dfs_node thr rest) pf r i l) = snd (kids thr (dfs_node thr rest) pf r' i l)) as K.
    { induction l as [|p l' IHl]; intros i; [simpl; repeat split; constructor|].
      rewrite !kids_cons.
      assert (r * p == r' * p) as Ep by now rewrite E.
      rewrite (Qltb_comp _ _ thr Ep).
      destruct (Qltb (r' * p) thr); [cbn [fst snd]; repeat split; [constructor|apply F2_refl]|].
      destruct (IH (pf ++ [i]) (r * p) (r' * p) Ep) as [Hy Hs].
      destruct (dfs_node thr rest (pf ++ [i]) (r * p)) as [ys s].
      destruct (dfs_node thr rest (pf ++ [i]) (r' * p)) as [ys2 s2]. cbn [fst snd] in Hy, Hs.
      destruct (IHl (S i)) as [Ky [Kt Kf]].
      destruct (kids thr (dfs_node thr rest) pf r (S i) l') as [[ysa taba] fa].
      destruct (kids thr (dfs_node thr rest) pf r' (S i) l') as [[ysb tabb] fb]. cbn [fst snd] in Ky, Kt, Kf.
      destruct s, s2; simpl in Hs; try contradiction; cbn [fst snd];
        (split; [apply Forall2_app; auto|split; [constructor; auto; try reflexivity|auto]]).
      now rewrite Hs. }
    destruct (K cur 0%nat) as [Ky [Kt Kf]].
    destruct (kids thr (dfs_node thr rest) pf r 0%nat cur) as [[ysa taba] fa].
    destruct (kids thr (dfs_node thr rest) pf r' 0%nat cur) as [[ysb tabb] fb]. cbn [fst snd] in Ky, Kt, Kf. subst fb.
    now apply finish_comp.
Qed.

Lemma yields_eqb_of (a b : list yield) : Forall2 yeq a b -> yields_eqb a b = true.
Proof.
  unfold yields_eqb. induction 1 as [|x y l l' E _ IH]; simpl; [reflexivity|]. rewrite IH, andb_true_r.
  destruct x as [s p|s v], y as [s' p'|s' v']; simpl in E; try contradiction; destruct E as [-> E]; simpl;
    rewrite key_eqb_refl; simpl.
  - now apply Qeq_bool_iff.
  - induction E as [|q q' v v' Eq _ IHv]; simpl; [reflexivity|]. rewrite IHv, andb_true_r. now apply Qeq_bool_iff.
Qed.

(* ---------- the theorem ---------- *)
Theorem machine_refines_spec probs thr :
  probs <> [] -> Forall (fun b => b <> []) probs ->
  exists ys, run_machine (fuel_bound probs) probs thr = Some ys /\ yields_eqb ys (dfs_spec probs thr) = true.
Proof.
  intros Np NE. destruct probs as [|cur0 rest0]; [contradiction|].
  destruct cur0 as [|p0 cur'] eqn:Ec; [inversion NE; contradiction|]. rewrite <- Ec in *.
  eexists. split; [eapply (machine_runs (cur0 :: rest0) thr NE cur0 rest0 p0 cur'); auto|].
  apply yields_eqb_of. unfold dfs_spec. rewrite dfs_node_cons.
  rewrite Ec. rewrite kids_kidsx. unfold kidsx.
  assert (p0 == 1 * p0) as Ep by ring.
  rewrite (Qltb_comp _ _ thr Ep).
  destruct (Qltb (1 * p0) thr); [apply Fy_refl|].
  destruct (node_comp thr rest0 ([] ++ [0%nat]) p0 (1 * p0) Ep) as [Hy Hs].
  destruct (dfs_node thr rest0 ([] ++ [0%nat]) p0) as [ys s].
  destruct (dfs_node thr rest0 ([] ++ [0%nat]) (1 * p0)) as [ys2 s2]. cbn [fst snd] in Hy, Hs.
  destruct (kids thr (dfs_node thr rest0) [] 1 1%nat cur') as [[ysa taba] fa].
  destruct s, s2; simpl in Hs; try contradiction;
    apply finish_comp; try (apply Forall2_app; auto; apply Fy_refl); try apply F2_refl.
  constructor; [now rewrite Hs|apply F2_refl].
Qed.

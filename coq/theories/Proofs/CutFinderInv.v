(* Proofs/CutFinderInv.v — the simulation invariant between a DisjointSubcircuitsState and the wire-segment
   graph of the processed prefix, and total correctness of the five actions w.r.t. it:
   no assertion fails, the union-find partition = connectivity of the segment graph, width at every root =
   size of its class <= W. *)
From Coq Require Import QArith Relations Lia.
From CKT Require Import Model.CutFinder Proofs.UFP Proofs.ConnP Proofs.CutFinderSpec.
Close Scope Q_scope.

(* ---------------- small facts about conn ---------------- *)
Lemma conn_refl E x : conn E x x.
Proof. apply rst_refl. Qed.
Lemma conn_sym E x y : conn E x y -> conn E y x.
Proof. apply rst_sym. Qed.
Lemma conn_trans E x y z : conn E x y -> conn E y z -> conn E x z.
Proof. apply rst_trans. Qed.
Lemma conn_add E e1 e2 x y :
  conn (E ++ [(e1, e2)]) x y <->
  conn E x y \/ (conn E x e1 /\ conn E e2 y) \/ (conn E x e2 /\ conn E e1 y).
Proof. exact (econn_add node E e1 e2 x y). Qed.
Lemma conn_isolated E x n : ~ endpoint E n -> conn E x n -> x = n.
Proof. exact (econn_isolated node E x n). Qed.
Lemma conn_isolated' E x n : ~ endpoint E n -> conn E n x -> x = n.
Proof. exact (econn_isolated' node E x n). Qed.
Lemma conn_nil x y : conn [] x y -> x = y.
Proof. exact (econn_nil node x y). Qed.
Lemma conn_mono E E' x y : incl E E' -> conn E x y -> conn E' x y.
Proof. exact (econn_mono node E E' x y). Qed.

Definition aedge (cur : nat -> nat) (Q1 Q2 : nat) : node * node := ((Q1, cur Q1), (Q2, cur Q2)).

(* effect of one decision on (cur, edges) *)
Definition kind_step (Q1 Q2 : nat) (k : ckind) (ce : (nat -> nat) * list (node * node)) :=
  let (cur, E) := ce in
  match k with
  | Leave => (cur, E ++ [aedge cur Q1 Q2])
  | KGateCut => (cur, E)
  | KLeftCut => let c' := bump cur Q1 in (c', E ++ [aedge c' Q1 Q2])
  | KRightCut => let c' := bump cur Q2 in (c', E ++ [aedge c' Q1 Q2])
  | KBothCut => let c' := bump (bump cur Q1) Q2 in (c', E ++ [aedge c' Q1 Q2])
  end.

Lemma bump_same cur q : bump cur q q = S (cur q).
Proof. unfold bump. now rewrite Nat.eqb_refl. Qed.
Lemma bump_other cur q x : x <> q -> bump cur q x = cur x.
Proof. unfold bump. intros H. destruct (Nat.eqb_spec x q); [contradiction|reflexivity]. Qed.
Lemma bump_ge cur q x : cur x <= bump cur q x.
Proof. unfold bump. destruct (Nat.eqb x q); lia. Qed.

Lemma nth_repeat_lt {A} (a d : A) n k : k < n -> nth k (repeat a n) d = a.
Proof. revert k; induction n; intros [|k] H; simpl; try lia; auto. apply IHn; lia. Qed.

Definition with_new_wire (s : dstate) (q : nat) : dstate :=
  mkS (upd (wiremap s) q (num_wires s)) (S (num_wires s)) (uptree s) (width s)
      (no_merge s) (gamma_UB s) (actions s) (level s).

Lemma new_wire_val s q : num_wires s < length (uptree s) -> q < length (wiremap s) ->
  new_wire s q = Val (with_new_wire s q, num_wires s).
Proof.
  intros H Hq. unfold new_wire. destruct (Nat.ltb_spec (num_wires s) (length (uptree s))); [|lia]. simpl.
  unfold with_new_wire, get_wire; cbn. now rewrite nth_upd_same.
Qed.

Section Inv.
  Variable names : list nat.
  Variable W : nat.
  Hypothesis HW : 1 <= W.
  Hypothesis Hnames : NoDup names.

  Definition name (x : nat) : nat := nth x names 0.

  Lemma name_inj x y : x < length names -> y < length names -> name x = name y -> x = y.
  Proof. intros Hx Hy E. unfold name in E. eapply NoDup_nth in E; eauto. Qed.

  Record SimPhi (s : dstate) (cur : nat -> nat) (E : list (node * node)) (phi : nat -> node) : Prop := {
    sp_wm : forall x, x < length names -> phi (get_wire s x) = (name x, cur (name x)) ;
    sp_inj : forall a b, a < num_wires s -> b < num_wires s -> phi a = phi b -> a = b ;
    sp_le : forall a, a < num_wires s -> snd (phi a) <= cur (fst (phi a)) ;
    sp_conn : forall a b, a < num_wires s -> b < num_wires s ->
                (find (uptree s) a = find (uptree s) b <-> conn E (phi a) (phi b)) ;
    sp_ends : forall n, endpoint E n -> exists a, a < num_wires s /\ phi a = n
  }.

  Record InvU (s : dstate) (cur : nat -> nat) (E : list (node * node)) : Prop := {
    iu_len_wm : length (wiremap s) = length names ;
    iu_nw_lo : length names <= num_wires s ;
    iu_nw_hi : num_wires s <= length (uptree s) ;
    iu_len_w : length (width s) = length (uptree s) ;
    iu_wf : uf_wf (uptree s) ;
    iu_fresh : forall x, num_wires s <= x -> parent (uptree s) x = x ;
    iu_width : forall r, r < length (uptree s) -> parent (uptree s) r = r ->
                 width_at s r = class_count (uptree s) r (length (uptree s)) /\ width_at s r <= W ;
    iu_nomerge : forall a b, In (a, b) (no_merge s) ->
                 a < num_wires s /\ b < num_wires s /\ find (uptree s) a <> find (uptree s) b ;
    iu_wm : forall x, x < length names -> get_wire s x < num_wires s ;
    iu_sim : exists phi, SimPhi s cur E phi
  }.

  (* ---------------- initial state ---------------- *)
  Lemma InvU_init m : InvU (init_state (length names) m) cur0 [].
  Proof.
    set (n := length names).
    constructor; cbn [init_state wiremap num_wires uptree width no_merge].
    - now rewrite seq_length.
    - lia.
    - unfold uf_init. rewrite seq_length. lia.
    - unfold uf_init. now rewrite repeat_length, seq_length.
    - apply uf_wf_init.
    - intros x _. apply parent_init.
    - intros r Hr _. unfold uf_init in Hr; rewrite seq_length in Hr.
      unfold width_at; cbn [width init_state]. rewrite nth_repeat_lt by (fold n; lia).
      unfold uf_init at 2. rewrite seq_length, class_count_init.
      destruct (Nat.ltb_spec r (n + m)); [split; [reflexivity|exact HW]|lia].
    - intros a b [].
    - intros x Hx. unfold get_wire; cbn [wiremap init_state]. rewrite seq_nth by (fold n; lia). simpl; fold n; lia.
    - exists (fun x => (name x, 0)). constructor; cbn [init_state wiremap num_wires uptree].
      + intros x Hx. unfold get_wire; cbn [wiremap init_state]. rewrite seq_nth by (fold n; lia). reflexivity.
      + intros a b Ha Hb H. inversion H. now apply name_inj.
      + intros a _. simpl. unfold cur0. lia.
      + intros a b Ha Hb. rewrite !find_init. split.
        * intros ->. apply rst_refl.
        * intros H. apply conn_nil in H. inversion H. now apply name_inj.
      + intros n0 [m0 [[]|[]]].
  Qed.

  (* ---------------- gates ---------------- *)
  Definition gate_wf (g : gate_spec) : Prop :=
    length (g_qubits g) = 2 /\ q1_of g <> q2_of g /\ q1_of g < length names /\ q2_of g < length names.

  Definition Q1 (g : gate_spec) : nat := name (q1_of g).
  Definition Q2 (g : gate_spec) : nat := name (q2_of g).

  Lemma Q1_neq_Q2 g : gate_wf g -> Q1 g <> Q2 g.
  Proof. intros (_ & N & H1 & H2) E. apply N. now apply name_inj. Qed.

  (* ---------------- check_donot_merge_roots ---------------- *)
  Definition clause_hits (s : dstate) (r1 r2 : nat) : Prop :=
    exists a c, In (a, c) (no_merge s) /\
      ((find (uptree s) a = r1 /\ find (uptree s) c = r2) \/ (find (uptree s) a = r2 /\ find (uptree s) c = r1)).

  Lemma check_clauses_val s cl r1 r2 :
    (forall a c, In (a, c) cl -> find (uptree s) a <> find (uptree s) c) ->
    exists b, check_clauses s cl r1 r2 = Val b /\
      (b = true <-> exists a c, In (a, c) cl /\
         ((find (uptree s) a = r1 /\ find (uptree s) c = r2) \/ (find (uptree s) a = r2 /\ find (uptree s) c = r1))).
  Proof.
    induction cl as [|[a c] cl IH]; intros H; simpl.
    - exists false; split; [reflexivity|]. split; [discriminate|intros (a & c & [] & _)].
    - unfold find_wire_root.
      assert (N : find (uptree s) a <> find (uptree s) c) by (apply H; now left).
      destruct (Nat.eqb_spec (find (uptree s) a) (find (uptree s) c)) as [E|_]; [contradiction|]. simpl.
      destruct ((Nat.eqb (find (uptree s) a) r1 && Nat.eqb (find (uptree s) c) r2)
                || (Nat.eqb (find (uptree s) a) r2 && Nat.eqb (find (uptree s) c) r1)) eqn:B.
      + exists true; split; [reflexivity|]. split; [intros _|reflexivity].
        exists a, c; split; [now left|].
        apply orb_prop in B as [B|B]; apply andb_prop in B as [B1 B2];
          apply Nat.eqb_eq in B1, B2; auto.
      + destruct IH as (b & Hb & Hiff); [intros a' c' I; apply H; now right|].
        exists b; split; [exact Hb|]. rewrite Hiff. split.
        * intros (a' & c' & I & D). exists a', c'; split; [now right|exact D].
        * intros (a' & c' & [I|I] & D); [|exists a', c'; now split].
          inversion I; subst. exfalso.
          apply orb_false_elim in B as [B1 B2].
          destruct D as [[D1 D2]|[D1 D2]]; rewrite D1, D2, !Nat.eqb_refl in *; discriminate.
  Qed.

  Lemma check_dnm_val s cur E r1 r2 :
    InvU s cur E -> parent (uptree s) r1 = r1 -> parent (uptree s) r2 = r2 ->
    exists b, check_donot_merge_roots s r1 r2 = Val b /\ (b = true <-> clause_hits s r1 r2).
  Proof.
    intros I R1 R2. unfold check_donot_merge_roots.
    unfold is_root. rewrite R1, R2, !Nat.eqb_refl. simpl.
    apply check_clauses_val. intros a c H. now apply (iu_nomerge _ _ _ I).
  Qed.

  (* wires of the two qubits of a well-formed gate *)
  Lemma wires_of_gate s cur E g : InvU s cur E -> gate_wf g ->
    get_wire s (q1_of g) < num_wires s /\ get_wire s (q2_of g) < num_wires s /\
    get_wire s (q1_of g) <> get_wire s (q2_of g).
  Proof.
    intros I (_ & N & H1 & H2). repeat split; try (apply (iu_wm _ _ _ I); assumption).
    intros Ew. destruct (iu_sim _ _ _ I) as [phi P].
    pose proof (sp_wm _ _ _ _ P _ H1) as A1. pose proof (sp_wm _ _ _ _ P _ H2) as A2.
    rewrite Ew, A2 in A1. inversion A1. apply N. symmetry. now apply name_inj.
  Qed.

  Lemma root_facts s cur E w : InvU s cur E -> w < num_wires s ->
    let r := find (uptree s) w in
    r <= w /\ r < num_wires s /\ r < length (uptree s) /\ parent (uptree s) r = r /\ find (uptree s) r = r.
  Proof.
    intros I Hw r. pose proof (iu_wf _ _ _ I) as WF. pose proof (iu_nw_hi _ _ _ I).
    pose proof (find_le (uptree s) w WF). fold r in H0.
    repeat split; try lia; [apply find_is_root|apply find_idem]; auto.
  Qed.

  (* find after a union, as a relation between classes *)
  Lemma union_find_eq u mn mx a b :
    uf_wf u -> mn < mx -> mx < length u -> parent u mn = mn -> parent u mx = mx ->
    (find (upd u mx mn) a = find (upd u mx mn) b <->
     find u a = find u b \/ (find u a = mn /\ find u b = mx) \/ (find u a = mx /\ find u b = mn)).
  Proof.
    intros WF Hlt Hmx Rmn Rmx. rewrite !(union_find u mn mx WF Hlt Hmx Rmn Rmx).
    destruct (Nat.eqb_spec (find u a) mx) as [Ea|Na], (Nat.eqb_spec (find u b) mx) as [Eb|Nb]; split; intros H.
    - left; congruence.
    - reflexivity.
    - right; right. split; congruence.
    - destruct H as [H|[[H1 H2]|[H1 H2]]]; congruence.
    - right; left. split; congruence.
    - destruct H as [H|[[H1 H2]|[H1 H2]]]; congruence.
    - now left.
    - destruct H as [H|[[H1 H2]|[H1 H2]]]; congruence.
  Qed.

  (* ---------------- ApplyGate ---------------- *)
  Lemma apply_gate_ok s cur E g :
    InvU s cur E -> gate_wf g ->
    let r1 := find_qubit_root s (q1_of g) in
    let r2 := find_qubit_root s (q2_of g) in
    exists l, apply_gate s g W = Val l /\
      (forall s', In s' l -> InvU s' cur (E ++ [aedge cur (Q1 g) (Q2 g)]) /\
                             no_merge s' = no_merge s /\ num_wires s' = num_wires s /\
                             length (uptree s') = length (uptree s) /\
                             gamma_UB s' = gamma_UB s /\ actions s' = actions s /\ level s' = level s /\ wiremap s' = wiremap s) /\
      (l = [] -> r1 <> r2 /\ (W < width_at s r1 + width_at s r2 \/ clause_hits s r1 r2)).
  Proof.
    intros I G r1 r2.
    destruct (wires_of_gate _ _ _ _ I G) as (Hw1 & Hw2 & Nw).
    set (w1 := get_wire s (q1_of g)) in *. set (w2 := get_wire s (q2_of g)) in *.
    destruct (root_facts _ _ _ _ I Hw1) as (L1 & N1 & B1 & R1 & F1).
    destruct (root_facts _ _ _ _ I Hw2) as (L2 & N2 & B2 & R2 & F2).
    fold w1 in r1. fold w2 in r2.
    change (find (uptree s) w1) with r1 in *. change (find (uptree s) w2) with r2 in *.
    pose proof (iu_wf _ _ _ I) as WF.
    destruct (iu_sim _ _ _ I) as [phi P].
    destruct G as (GL & GN & G1 & G2).
    assert (P1 : phi w1 = (Q1 g, cur (Q1 g))) by (apply (sp_wm _ _ _ _ P); exact G1).
    assert (P2 : phi w2 = (Q2 g, cur (Q2 g))) by (apply (sp_wm _ _ _ _ P); exact G2).
    assert (EDGE : aedge cur (Q1 g) (Q2 g) = (phi w1, phi w2)) by (unfold aedge; now rewrite P1, P2).
    unfold apply_gate.
    change (find_qubit_root s (q1_of g)) with r1. change (find_qubit_root s (q2_of g)) with r2.
    destruct (check_dnm_val _ _ _ r1 r2 I R1 R2) as (b & Hb & Hiff).
    destruct (Nat.eq_dec r1 r2) as [Er|Nr].
    - (* same subcircuit already *)
      assert (b = false).
      { destruct b; [|reflexivity]. destruct (proj1 Hiff eq_refl) as (a & c & Hin & D).
        destruct (iu_nomerge _ _ _ I _ _ Hin) as (_ & _ & Nac). exfalso; apply Nac.
        destruct D as [[D1 D2]|[D1 D2]]; congruence. }
      subst b. rewrite Hb. destruct (Nat.eqb_spec r1 r2) as [_|C]; [|contradiction]. simpl.
      exists [s]; split; [reflexivity|]. split; [|discriminate].
      intros s' [<-|[]]. split; [|repeat split; auto].
      destruct I. constructor; auto.
      exists phi. destruct P. constructor; auto.
      + intros a c Ha Hc. rewrite sp_conn0 by auto. rewrite EDGE, conn_add.
        split; [now left|]. intros [H|[[H1 H2]|[H1 H2]]]; [exact H| |].
        * eapply conn_trans; [exact H1|]. eapply conn_trans; [|exact H2].
          apply sp_conn0; auto.
        * eapply conn_trans; [exact H1|]. eapply conn_trans; [|exact H2].
          apply sp_conn0; auto.
      + intros n Hn. rewrite EDGE in Hn. apply endpoint_app in Hn as [Hn|[->| ->]]; [now apply sp_ends0| |].
        * exists w1; split; auto. * exists w2; split; auto.
    - destruct (Nat.eqb_spec r1 r2) as [C|_]; [contradiction|]. simpl.
      destruct (Nat.ltb_spec W (width_at s r1 + width_at s r2)) as [Hov|Hfit].
      + exists []; split; [reflexivity|]. split; [intros s' []|]. intros _; split; auto.
      + rewrite Hb. simpl. destruct b.
        * exists []; split; [reflexivity|]. split; [intros s' []|]. intros _; split; auto. right. now apply Hiff.
        * assert (NH : ~ clause_hits s r1 r2) by (intros C; apply Hiff in C; discriminate).
          unfold merge_roots, is_root. rewrite R1, R2, !Nat.eqb_refl.
          destruct (Nat.eqb_spec r1 r2) as [C|_]; [contradiction|]. simpl.
          eexists; split; [reflexivity|]. split; [|discriminate].
          intros s' [<-|[]]. split; [|cbn [set_uf no_merge num_wires uptree gamma_UB actions level wiremap]; unfold union_roots; rewrite upd_length; repeat split; auto].
          set (mn := Nat.min r1 r2). set (mx := Nat.max r1 r2).
          assert (Hlt : mn < mx) by (unfold mn, mx; lia).
          assert (Hmx : mx < length (uptree s)) by (unfold mx; lia).
          assert (Hmxn : mx < num_wires s) by (unfold mx; lia).
          assert (Rmn : parent (uptree s) mn = mn) by (unfold mn; destruct (Nat.min_spec r1 r2) as [[_ ->]|[_ ->]]; auto).
          assert (Rmx : parent (uptree s) mx = mx) by (unfold mx; destruct (Nat.max_spec r1 r2) as [[_ ->]|[_ ->]]; auto).
          assert (MM : (mn = r1 /\ mx = r2) \/ (mn = r2 /\ mx = r1)) by (unfold mn, mx; lia).
          unfold union_roots. fold mn mx.
          destruct I. constructor; cbn [set_uf wiremap num_wires uptree width no_merge]; auto.
          -- now rewrite upd_length.
          -- now rewrite !upd_length.
          -- apply union_wf; auto.
          -- intros x Hx. rewrite union_parent by auto. destruct (Nat.eqb_spec x mx); [lia|auto].
          -- intros r Hr Rr. rewrite upd_length in Hr. rewrite union_parent in Rr by auto.
             destruct (Nat.eqb_spec r mx) as [->|Nrx]; [lia|].
             rewrite upd_length, union_class_count by auto.
             destruct (Nat.eqb_spec r mx) as [C|_]; [contradiction|].
             unfold width_at; cbn [width set_uf].
             destruct (Nat.eqb_spec r mn) as [->|Nrn].
             ++ rewrite nth_upd_same by lia.
                destruct (iu_width0 mn) as [Wmn _]; [lia|auto|]. destruct (iu_width0 mx) as [Wmx _]; [lia|auto|].
                fold (width_at s mn) (width_at s mx). split; [lia|].
                destruct MM as [[-> ->]|[-> ->]]; lia.
             ++ rewrite nth_upd_other by auto. apply iu_width0; auto.
          -- intros a c Hin. destruct (iu_nomerge0 _ _ Hin) as (Ha & Hc & Nac). repeat split; auto.
             intros Heq. apply union_find_eq in Heq; auto.
             destruct Heq as [H|[[H1 H2]|[H1 H2]]]; [contradiction| |]; apply NH; exists a, c; split; auto;
               destruct MM as [[M1 M2]|[M1 M2]]; rewrite <- M1, <- M2; auto.
          -- exists phi. destruct P. constructor; cbn [set_uf wiremap num_wires uptree]; auto.
             ++ intros a c Ha Hc. rewrite union_find_eq by auto. rewrite EDGE, conn_add.
                rewrite <- (sp_conn0 a c), <- (sp_conn0 a w1), <- (sp_conn0 w2 c), <- (sp_conn0 a w2), <- (sp_conn0 w1 c) by auto.
                change (find (uptree s) w1) with r1. change (find (uptree s) w2) with r2.
                destruct MM as [[-> ->]|[-> ->]]; intuition congruence.
             ++ intros n Hn. rewrite EDGE in Hn. apply endpoint_app in Hn as [Hn|[->| ->]]; [now apply sp_ends0| |].
                ** exists w1; split; auto. ** exists w2; split; auto.
  Qed.

  (* ---------------- fresh wires ---------------- *)
  Lemma fresh_class s cur E x : InvU s cur E -> num_wires s <= x -> x < length (uptree s) ->
    class_count (uptree s) x (length (uptree s)) = 1 /\ width_at s x = 1 /\ find (uptree s) x = x.
  Proof.
    intros I Hx Hl. pose proof (iu_wf _ _ _ I) as WF.
    assert (Rx : parent (uptree s) x = x) by (apply (iu_fresh _ _ _ I); auto).
    assert (C : class_count (uptree s) x (length (uptree s)) = 1).
    { apply class_count_singleton; auto. intros w Hw Nw Ef.
      destruct (Nat.lt_ge_cases w x) as [Hlt|Hge].
      - pose proof (find_le (uptree s) w WF). lia.
      - assert (Rw : parent (uptree s) w = w) by (apply (iu_fresh _ _ _ I); lia).
        rewrite (find_root_id _ _ WF Rw) in Ef. lia. }
    repeat split; auto.
    - destruct (iu_width _ _ _ I x Hl Rx) as [Wx _]. lia.
    - now apply find_root_id.
  Qed.

  Lemma old_find_lt s cur E a : InvU s cur E -> a < num_wires s -> find (uptree s) a < num_wires s.
  Proof. intros I Ha. pose proof (find_le (uptree s) a (iu_wf _ _ _ I)). lia. Qed.

  Lemma not_endpoint_fresh s cur E phi q : SimPhi s cur E phi -> ~ endpoint E (q, S (cur q)).
  Proof.
    intros P Hn. destruct (sp_ends _ _ _ _ P _ Hn) as (a & Ha & Ea).
    pose proof (sp_le _ _ _ _ P a Ha) as L. rewrite Ea in L. simpl in L. lia.
  Qed.

  (* ---------------- cutting ONE input wire (CutLeftWire / CutRightWire) ---------------- *)
  (* qc: the qubit whose wire is cut, qo: the other qubit of the gate.  flip = false: qc is the first input. *)
  Lemma InvU_cut_one s cur E qc qo (flip : bool) s' :
    InvU s cur E -> qc < length names -> qo < length names -> qc <> qo ->
    let nw := num_wires s in
    let wo := get_wire s qo in let ro := find (uptree s) wo in
    let rc := find (uptree s) (get_wire s qc) in
    S nw <= length (uptree s) -> rc <> ro -> width_at s ro + 1 <= W ->
    wiremap s' = upd (wiremap s) qc nw -> num_wires s' = S nw ->
    uptree s' = upd (uptree s) nw ro ->
    width s' = upd (width s) ro (width_at s ro + width_at s nw) ->
    no_merge s' = no_merge s ++ [if flip then (ro, rc) else (rc, ro)] ->
    let cur' := bump cur (name qc) in
    let n' := (name qc, cur' (name qc)) in let no := (name qo, cur' (name qo)) in
    InvU s' cur' (E ++ [if flip then (no, n') else (n', no)]).
  Proof.
    intros I Hqc Hqo Nq nw wo ro rc Hroom Nr Hfit Ewm Enw Eu Ew Enm cur' n' no.
    pose proof (iu_wf _ _ _ I) as WF.
    assert (Hwo : wo < nw) by (apply (iu_wm _ _ _ I); auto).
    assert (Hwc : get_wire s qc < nw) by (apply (iu_wm _ _ _ I); auto).
    destruct (root_facts _ _ _ _ I Hwo) as (Lo & No & Bo & Ro & Fo). fold ro in Lo, No, Bo, Ro, Fo.
    destruct (root_facts _ _ _ _ I Hwc) as (Lc & Nc & Bc & Rc & Fc). fold rc in Lc, Nc, Bc, Rc, Fc.
    destruct (fresh_class _ _ _ nw I (le_n _)) as (Cn & Wn & Fn); [unfold nw in *; lia|].
    assert (Rn : parent (uptree s) nw = nw) by (apply (iu_fresh _ _ _ I); unfold nw; lia).
    assert (Hlt : ro < nw) by (unfold nw in *; lia).
    assert (Hmx : nw < length (uptree s)) by lia.
    assert (FU : forall x, find (uptree s') x = if Nat.eqb (find (uptree s) x) nw then ro else find (uptree s) x)
      by (intros x; rewrite Eu; apply union_find; auto).
    assert (FO : forall x, x < nw -> find (uptree s') x = find (uptree s) x).
    { intros x Hx. rewrite FU. pose proof (find_le (uptree s) x WF).
      destruct (Nat.eqb_spec (find (uptree s) x) nw); [lia|reflexivity]. }
    assert (FN : find (uptree s') nw = ro) by (rewrite FU, Fn, Nat.eqb_refl; reflexivity).
    assert (Nn : name qc <> name qo) by (intros H; apply Nq; now apply name_inj).
    assert (Co : cur' (name qo) = cur (name qo)) by (unfold cur'; apply bump_other; auto).
    assert (Cc : cur' (name qc) = S (cur (name qc))) by (unfold cur'; apply bump_same).
    assert (GW : forall x, get_wire s' x = if Nat.eqb x qc then nw else get_wire s x).
    { intros x. unfold get_wire. rewrite Ewm. destruct (Nat.eqb_spec x qc) as [->|N].
      - apply nth_upd_same. rewrite (iu_len_wm _ _ _ I); auto.
      - apply nth_upd_other; auto. }
    destruct (iu_sim _ _ _ I) as [phi P].
    assert (NE : ~ endpoint E n') by (unfold n'; rewrite Cc; eapply not_endpoint_fresh; eauto).
    assert (Pwo : phi wo = no) by (unfold no; rewrite Co; apply (sp_wm _ _ _ _ P); auto).
    assert (PN : forall a, a < nw -> phi a <> n').
    { intros a Ha Ea. pose proof (sp_le _ _ _ _ P a Ha) as L. rewrite Ea in L. unfold n' in L. simpl in L. lia. }
    constructor.
    - rewrite Ewm, upd_length. apply (iu_len_wm _ _ _ I).
    - rewrite Enw. pose proof (iu_nw_lo _ _ _ I). unfold nw; lia.
    - rewrite Enw, Eu, upd_length. exact Hroom.
    - rewrite Ew, Eu, !upd_length. apply (iu_len_w _ _ _ I).
    - rewrite Eu. apply union_wf; auto.
    - intros x Hx. rewrite Enw in Hx. rewrite Eu, union_parent by auto.
      destruct (Nat.eqb_spec x nw); [lia|]. apply (iu_fresh _ _ _ I). unfold nw in *; lia.
    - intros r Hr Rr. rewrite Eu, upd_length in Hr. rewrite Eu, union_parent in Rr by auto.
      destruct (Nat.eqb_spec r nw) as [->|Nrn]; [lia|].
      rewrite Eu at 1 2. rewrite upd_length, union_class_count by auto.
      destruct (Nat.eqb_spec r nw) as [C|_]; [contradiction|].
      unfold width_at. rewrite Ew.
      destruct (Nat.eqb_spec r ro) as [->|Nro].
      + rewrite nth_upd_same by (rewrite (iu_len_w _ _ _ I); lia).
        destruct (iu_width _ _ _ I ro Bo Ro) as [Wo _]. rewrite Cn, Wn, <- Wo. split; lia.
      + rewrite nth_upd_other by auto. apply (iu_width _ _ _ I); auto.
    - intros a c Hin. rewrite Enm in Hin. rewrite Enw. apply in_app_or in Hin as [Hin|[Hin|[]]].
      + destruct (iu_nomerge _ _ _ I _ _ Hin) as (Ha & Hc & Nac). fold nw in Ha, Hc.
        repeat split; try lia. rewrite !FO by auto. exact Nac.
      + assert (Frc : find (uptree s') rc = rc) by (rewrite FO by (unfold nw; lia); exact Fc).
        assert (Fro : find (uptree s') ro = ro) by (rewrite FO by lia; exact Fo).
        destruct flip; inversion Hin; subst a c; repeat split; unfold nw in *; try lia; rewrite Frc, Fro; auto.
    - intros x Hx. rewrite GW, Enw. destruct (Nat.eqb_spec x qc); [lia|].
      pose proof (iu_wm _ _ _ I x Hx). unfold nw; lia.
    - exists (fun a => if Nat.eqb a nw then n' else phi a). constructor.
      + intros x Hx. rewrite GW. destruct (Nat.eqb_spec x qc) as [->|Nx].
        * rewrite Nat.eqb_refl. reflexivity.
        * pose proof (iu_wm _ _ _ I x Hx) as Hlx. fold nw in Hlx.
          destruct (Nat.eqb_spec (get_wire s x) nw); [lia|].
          rewrite (sp_wm _ _ _ _ P x Hx). unfold cur'. rewrite bump_other; [reflexivity|].
          intros H; apply Nx. now apply name_inj.
      + intros a b Ha Hb. rewrite Enw in Ha, Hb.
        destruct (Nat.eqb_spec a nw) as [->|Na], (Nat.eqb_spec b nw) as [->|Nb]; intros H; auto.
        * exfalso; apply (PN b); [lia|auto].
        * exfalso; apply (PN a); [lia|auto].
        * apply (sp_inj _ _ _ _ P); auto; unfold nw in *; lia.
      + intros a Ha. rewrite Enw in Ha. destruct (Nat.eqb_spec a nw) as [->|Na].
        * unfold n'. simpl. lia.
        * assert (Ha' : a < num_wires s) by (unfold nw in *; lia).
          pose proof (sp_le _ _ _ _ P a Ha'). pose proof (bump_ge cur (name qc) (fst (phi a))). unfold cur'. lia.
      + assert (EQ : forall a b, conn (E ++ [if flip then (no, n') else (n', no)]) a b <->
                       conn E a b \/ (conn E a n' /\ conn E no b) \/ (conn E a no /\ conn E n' b)).
        { intros a b. destruct flip; rewrite conn_add; tauto. }
        intros a b Ha Hb. rewrite Enw in Ha, Hb. rewrite EQ.
        destruct (Nat.eqb_spec a nw) as [->|Na], (Nat.eqb_spec b nw) as [->|Nb].
        * split; [intros _; left; apply conn_refl|reflexivity].
        * assert (Hb' : b < nw) by lia. rewrite FN, FO by auto. split.
          -- intros Hf. right; left. split; [apply conn_refl|]. rewrite <- Pwo.
             apply (sp_conn _ _ _ _ P); auto; try (now fold ro).
          -- intros [H|[[_ H]|[_ H]]].
             ++ apply conn_isolated' in H; auto. exfalso; apply (PN b); auto.
             ++ rewrite <- Pwo in H. apply (sp_conn _ _ _ _ P) in H; auto.
             ++ apply conn_isolated' in H; auto. exfalso; apply (PN b); auto.
        * assert (Ha' : a < nw) by lia. rewrite FN, FO by auto. split.
          -- intros Hf. right; right. split; [|apply conn_refl]. rewrite <- Pwo.
             apply (sp_conn _ _ _ _ P); auto; try (now fold ro).
          -- intros [H|[[H _]|[H _]]].
             ++ apply conn_isolated in H; auto. exfalso; apply (PN a); auto.
             ++ apply conn_isolated in H; auto. exfalso; apply (PN a); auto.
             ++ rewrite <- Pwo in H. apply (sp_conn _ _ _ _ P) in H; auto.
        * assert (Ha' : a < nw) by lia. assert (Hb' : b < nw) by lia. rewrite !FO by auto.
          rewrite (sp_conn _ _ _ _ P a b) by auto. split; [now left|].
          intros [H|[[H _]|[_ H]]]; [exact H| |].
          -- apply conn_isolated in H; auto. exfalso; apply (PN a); auto.
          -- apply conn_isolated' in H; auto. exfalso; apply (PN b); auto.
      + intros n Hn.
        assert (Hn' : endpoint E n \/ n = n' \/ n = no).
        { destruct flip; apply endpoint_app in Hn; tauto. }
        rewrite Enw. destruct Hn' as [Hn'|[->| ->]].
        * destruct (sp_ends _ _ _ _ P _ Hn') as (a & Ha & Ea). exists a. fold nw in Ha. split; [lia|].
          destruct (Nat.eqb_spec a nw); [lia|auto].
        * exists nw; split; [lia|]. now rewrite Nat.eqb_refl.
        * exists wo; split; [lia|]. destruct (Nat.eqb_spec wo nw); [lia|auto].
  Qed.

  (* ---------------- cutting BOTH input wires (CutBothWires) ---------------- *)
  Lemma InvU_cut_both s cur E q1 q2 s' :
    InvU s cur E -> q1 < length names -> q2 < length names -> q1 <> q2 ->
    let nw := num_wires s in
    let r1 := find (uptree s) (get_wire s q1) in let r2 := find (uptree s) (get_wire s q2) in
    S (S nw) <= length (uptree s) -> 2 <= W ->
    wiremap s' = upd (upd (wiremap s) q1 nw) q2 (S nw) -> num_wires s' = S (S nw) ->
    uptree s' = upd (uptree s) (S nw) nw ->
    width s' = upd (width s) nw (width_at s nw + width_at s (S nw)) ->
    no_merge s' = (no_merge s ++ [(r1, nw)]) ++ [(r2, S nw)] ->
    let cur' := bump (bump cur (name q1)) (name q2) in
    InvU s' cur' (E ++ [aedge cur' (name q1) (name q2)]).
  Proof.
    intros I Hq1 Hq2 Nq nw r1 r2 Hroom HW2 Ewm Enw Eu Ew Enm cur'.
    subst nw.
    pose proof (iu_wf _ _ _ I) as WF.
    assert (Hw1 : get_wire s q1 < (num_wires s)) by (apply (iu_wm _ _ _ I); auto).
    assert (Hw2 : get_wire s q2 < (num_wires s)) by (apply (iu_wm _ _ _ I); auto).
    destruct (root_facts _ _ _ _ I Hw1) as (L1 & N1 & B1 & R1 & F1). fold r1 in L1, N1, B1, R1, F1.
    destruct (root_facts _ _ _ _ I Hw2) as (L2 & N2 & B2 & R2 & F2). fold r2 in L2, N2, B2, R2, F2.
    destruct (fresh_class _ _ _ (num_wires s) I (le_n _)) as (Cn & Wn & Fn); [lia|].
    destruct (fresh_class _ _ _ (S (num_wires s)) I) as (Cm & Wm & Fm); [lia|lia|].
    assert (Rn : parent (uptree s) (num_wires s) = (num_wires s)) by (apply (iu_fresh _ _ _ I); lia).
    assert (Rm : parent (uptree s) (S (num_wires s)) = S (num_wires s)) by (apply (iu_fresh _ _ _ I); lia).
    assert (Hlt : (num_wires s) < S (num_wires s)) by lia.
    assert (Hmx : S (num_wires s) < length (uptree s)) by lia.
    assert (FU : forall x, find (uptree s') x = if Nat.eqb (find (uptree s) x) (S (num_wires s)) then (num_wires s) else find (uptree s) x)
      by (intros x; rewrite Eu; apply union_find; auto).
    assert (FO : forall x, x < (num_wires s) -> find (uptree s') x = find (uptree s) x).
    { intros x Hx. rewrite FU. pose proof (find_le (uptree s) x WF).
      destruct (Nat.eqb_spec (find (uptree s) x) (S (num_wires s))); [lia|reflexivity]. }
    assert (FN : find (uptree s') (num_wires s) = (num_wires s)).
    { rewrite FU, Fn. destruct (Nat.eqb_spec (num_wires s) (S (num_wires s))); [lia|reflexivity]. }
    assert (FM : find (uptree s') (S (num_wires s)) = (num_wires s)) by (rewrite FU, Fm, Nat.eqb_refl; reflexivity).
    assert (Nn : name q1 <> name q2) by (intros H; apply Nq; now apply name_inj).
    assert (C1 : cur' (name q1) = S (cur (name q1))).
    { unfold cur'. rewrite bump_other by auto. apply bump_same. }
    assert (C2 : cur' (name q2) = S (cur (name q2))).
    { unfold cur'. rewrite bump_same. f_equal. apply bump_other. auto. }
    assert (GW : forall x, get_wire s' x = if Nat.eqb x q2 then S (num_wires s) else if Nat.eqb x q1 then (num_wires s) else get_wire s x).
    { intros x. unfold get_wire. rewrite Ewm. destruct (Nat.eqb_spec x q2) as [->|N2'].
      - apply nth_upd_same. rewrite upd_length, (iu_len_wm _ _ _ I); auto.
      - rewrite nth_upd_other by auto. destruct (Nat.eqb_spec x q1) as [->|N1'].
        + apply nth_upd_same. rewrite (iu_len_wm _ _ _ I); auto.
        + apply nth_upd_other; auto. }
    destruct (iu_sim _ _ _ I) as [phi P].
    set (n1 := (name q1, cur' (name q1))). set (n2 := (name q2, cur' (name q2))).
    assert (NE1 : ~ endpoint E n1) by (unfold n1; rewrite C1; eapply not_endpoint_fresh; eauto).
    assert (NE2 : ~ endpoint E n2) by (unfold n2; rewrite C2; eapply not_endpoint_fresh; eauto).
    assert (N12 : n1 <> n2) by (unfold n1, n2; intros H; inversion H; contradiction).
    assert (PN1 : forall a, a < (num_wires s) -> phi a <> n1).
    { intros a Ha Ea. pose proof (sp_le _ _ _ _ P a Ha) as L. rewrite Ea in L. unfold n1 in L. simpl in L. lia. }
    assert (PN2 : forall a, a < (num_wires s) -> phi a <> n2).
    { intros a Ha Ea. pose proof (sp_le _ _ _ _ P a Ha) as L. rewrite Ea in L. unfold n2 in L. simpl in L. lia. }
    constructor.
    - rewrite Ewm, !upd_length. apply (iu_len_wm _ _ _ I).
    - rewrite Enw. pose proof (iu_nw_lo _ _ _ I). lia.
    - rewrite Enw, Eu, upd_length. exact Hroom.
    - rewrite Ew, Eu, !upd_length. apply (iu_len_w _ _ _ I).
    - rewrite Eu. apply union_wf; auto.
    - intros x Hx. rewrite Enw in Hx. rewrite Eu, union_parent by auto.
      destruct (Nat.eqb_spec x (S (num_wires s))); [lia|]. apply (iu_fresh _ _ _ I). lia.
    - intros r Hr Rr. rewrite Eu, upd_length in Hr. rewrite Eu, union_parent in Rr by auto.
      destruct (Nat.eqb_spec r (S (num_wires s))) as [->|Nrn]; [lia|].
      rewrite Eu at 1 2. rewrite upd_length, union_class_count by auto.
      destruct (Nat.eqb_spec r (S (num_wires s))) as [C|_]; [contradiction|].
      unfold width_at. rewrite Ew.
      destruct (Nat.eqb_spec r (num_wires s)) as [->|Nro].
      + rewrite nth_upd_same by (rewrite (iu_len_w _ _ _ I); lia). rewrite Cn, Cm, Wn, Wm. split; lia.
      + rewrite nth_upd_other by auto. apply (iu_width _ _ _ I); auto.
    - intros a c Hin. rewrite Enm in Hin. rewrite Enw.
      apply in_app_or in Hin as [Hin|[Hin|[]]]; [apply in_app_or in Hin as [Hin|[Hin|[]]]|].
      + destruct (iu_nomerge _ _ _ I _ _ Hin) as (Ha & Hc & Nac). 
        repeat split; try lia. rewrite !FO by auto. exact Nac.
      + inversion Hin; subst a c. repeat split; try lia.
        rewrite FO by lia. rewrite FN, F1. lia.
      + inversion Hin; subst a c. repeat split; try lia.
        rewrite FO by lia. rewrite FM, F2. lia.
    - intros x Hx. rewrite GW, Enw. destruct (Nat.eqb_spec x q2); [lia|]. destruct (Nat.eqb_spec x q1); [lia|].
      pose proof (iu_wm _ _ _ I x Hx). lia.
    - exists (fun a => if Nat.eqb a (num_wires s) then n1 else if Nat.eqb a (S (num_wires s)) then n2 else phi a). constructor.
      + intros x Hx. rewrite GW. destruct (Nat.eqb_spec x q2) as [->|Nx2].
        * destruct (Nat.eqb_spec (S (num_wires s)) (num_wires s)); [lia|]. rewrite Nat.eqb_refl. reflexivity.
        * destruct (Nat.eqb_spec x q1) as [->|Nx1].
          -- rewrite Nat.eqb_refl. reflexivity.
          -- pose proof (iu_wm _ _ _ I x Hx) as Hlx.
             destruct (Nat.eqb_spec (get_wire s x) (num_wires s)); [lia|].
             destruct (Nat.eqb_spec (get_wire s x) (S (num_wires s))); [lia|].
             rewrite (sp_wm _ _ _ _ P x Hx). unfold cur'. rewrite !bump_other; [reflexivity| |].
             ++ intros H; apply Nx1. now apply name_inj.
             ++ intros H; apply Nx2. now apply name_inj.
      + intros a b Ha Hb. rewrite Enw in Ha, Hb.
        destruct (Nat.eqb_spec a (num_wires s)) as [->|Na]; [|destruct (Nat.eqb_spec a (S (num_wires s))) as [->|Na']];
        (destruct (Nat.eqb_spec b (num_wires s)) as [->|Nb]; [|destruct (Nat.eqb_spec b (S (num_wires s))) as [->|Nb']]); intros H; auto;
          try congruence; try lia.
        * exfalso; apply (PN1 b); [lia|auto].
        * exfalso; apply (PN2 b); [lia|auto].
        * exfalso; apply (PN1 a); [lia|auto].
        * exfalso; apply (PN2 a); [lia|auto].
        * apply (sp_inj _ _ _ _ P); auto; lia.
      + intros a Ha. rewrite Enw in Ha.
        destruct (Nat.eqb_spec a (num_wires s)) as [->|Na]; [unfold n1; simpl; lia|].
        destruct (Nat.eqb_spec a (S (num_wires s))) as [->|Na']; [unfold n2; simpl; lia|].
        assert (Ha' : a < num_wires s) by lia.
        pose proof (sp_le _ _ _ _ P a Ha').
        pose proof (bump_ge cur (name q1) (fst (phi a))).
        pose proof (bump_ge (bump cur (name q1)) (name q2) (fst (phi a))). unfold cur'. lia.
      + intros a b Ha Hb. rewrite Enw in Ha, Hb. unfold aedge. fold n1 n2. rewrite conn_add.
        assert (ISO1 : forall x, conn E x n1 -> x = n1) by (intros x; apply conn_isolated; auto).
        assert (ISO1' : forall x, conn E n1 x -> x = n1) by (intros x; apply conn_isolated'; auto).
        assert (ISO2 : forall x, conn E x n2 -> x = n2) by (intros x; apply conn_isolated; auto).
        assert (ISO2' : forall x, conn E n2 x -> x = n2) by (intros x; apply conn_isolated'; auto).
        destruct (Nat.eqb_spec a (num_wires s)) as [->|Na]; [|destruct (Nat.eqb_spec a (S (num_wires s))) as [->|Na']];
        (destruct (Nat.eqb_spec b (num_wires s)) as [->|Nb]; [|destruct (Nat.eqb_spec b (S (num_wires s))) as [->|Nb']]).
        * split; [intros _; left; apply conn_refl|reflexivity].
        * rewrite FN, FM. split; [intros _; right; left; split; apply conn_refl|reflexivity].
        * assert (Hb' : b < (num_wires s)) by lia. rewrite FN, FO by auto. pose proof (find_le (uptree s) b WF) as FL. split; [lia|].
          intros [H|[[_ H]|[H _]]].
          -- apply ISO1' in H. exfalso; apply (PN1 b); auto.
          -- apply ISO2' in H. exfalso; apply (PN2 b); auto.
          -- apply ISO2 in H. contradiction.
        * rewrite FN, FM. split; [intros _; right; right; split; apply conn_refl|reflexivity].
        * split; [intros _; left; apply conn_refl|reflexivity].
        * assert (Hb' : b < (num_wires s)) by lia. rewrite FM, FO by auto. pose proof (find_le (uptree s) b WF) as FL. split; [lia|].
          intros [H|[[H _]|[_ H]]].
          -- apply ISO2' in H. exfalso; apply (PN2 b); auto.
          -- apply ISO1 in H. congruence.
          -- apply ISO1' in H. exfalso; apply (PN1 b); auto.
        * assert (Ha' : a < (num_wires s)) by lia. rewrite FN, FO by auto. pose proof (find_le (uptree s) a WF) as FL. split; [lia|].
          intros [H|[[H _]|[H _]]].
          -- apply ISO1 in H. exfalso; apply (PN1 a); auto.
          -- apply ISO1 in H. exfalso; apply (PN1 a); auto.
          -- apply ISO2 in H. exfalso; apply (PN2 a); auto.
        * assert (Ha' : a < (num_wires s)) by lia. rewrite FM, FO by auto. pose proof (find_le (uptree s) a WF) as FL. split; [lia|].
          intros [H|[[H _]|[H _]]].
          -- apply ISO2 in H. exfalso; apply (PN2 a); auto.
          -- apply ISO1 in H. exfalso; apply (PN1 a); auto.
          -- apply ISO2 in H. exfalso; apply (PN2 a); auto.
        * assert (Ha' : a < (num_wires s)) by lia. assert (Hb' : b < (num_wires s)) by lia. rewrite !FO by auto.
          rewrite (sp_conn _ _ _ _ P a b) by auto. split; [now left|].
          intros [H|[[H _]|[H _]]]; [exact H| |].
          -- apply ISO1 in H. exfalso; apply (PN1 a); auto.
          -- apply ISO2 in H. exfalso; apply (PN2 a); auto.
      + intros n Hn. unfold aedge in Hn. fold n1 n2 in Hn. apply endpoint_app in Hn.
        rewrite Enw. destruct Hn as [Hn|[->| ->]].
        * destruct (sp_ends _ _ _ _ P _ Hn) as (a & Ha & Ea). exists a. split; [lia|].
          destruct (Nat.eqb_spec a (num_wires s)); [lia|]. destruct (Nat.eqb_spec a (S (num_wires s))); [lia|auto].
        * exists (num_wires s); split; [lia|]. now rewrite Nat.eqb_refl.
        * exists (S (num_wires s)); split; [lia|]. destruct (Nat.eqb_spec (S (num_wires s)) (num_wires s)); [lia|]. now rewrite Nat.eqb_refl.
  Qed.

  (* ---------------- CutTwoQubitGate ---------------- *)
  Lemma gate_cut_ok s cur E g :
    InvU s cur E -> gate_wf g ->
    let r1 := find_qubit_root s (q1_of g) in
    let r2 := find_qubit_root s (q2_of g) in
    exists l, cut_two_qubit_gate s g W = Val l /\
      (forall s', In s' l -> exists gam, g_gamma g = Some gam /\ r1 <> r2 /\ InvU s' cur E /\
         num_wires s' = num_wires s /\ length (uptree s') = length (uptree s) /\
         gamma_UB s' = Qmult (gamma_UB s) gam /\
         actions s' = actions s ++ [mkA CutTwoQubitGate g [[1; get_wire s (q1_of g)]; [2; get_wire s (q2_of g)]]] /\
         level s' = level s /\ wiremap s' = wiremap s) /\
      (l = [] -> g_gamma g = None \/ r1 = r2).
  Proof.
    intros I G r1 r2.
    destruct (wires_of_gate _ _ _ _ I G) as (Hw1 & Hw2 & Nw).
    destruct (root_facts _ _ _ _ I Hw1) as (L1 & N1 & B1 & R1 & F1).
    destruct (root_facts _ _ _ _ I Hw2) as (L2 & N2 & B2 & R2 & F2).
    change (find (uptree s) (get_wire s (q1_of g))) with r1 in *.
    change (find (uptree s) (get_wire s (q2_of g))) with r2 in *.
    destruct G as (GL & GN & G1 & G2).
    unfold cut_two_qubit_gate. rewrite GL. simpl.
    destruct (g_gamma g) as [gam|] eqn:Eg.
    2:{ exists []; split; [reflexivity|]. split; [intros s' []|]. intros _; now left. }
    change (find_qubit_root s (q1_of g)) with r1. change (find_qubit_root s (q2_of g)) with r2.
    destruct (Nat.eqb_spec r1 r2) as [Er|Nr].
    { exists []; split; [reflexivity|]. split; [intros s' []|]. intros _; now right. }
    unfold assert_donot_merge_roots, find_wire_root. rewrite F1, F2.
    destruct (Nat.eqb_spec r1 r2) as [C|_]; [contradiction|]. simpl.
    eexists; split; [reflexivity|]. split; [|discriminate].
    intros s' [<-|[]]. exists gam. split; [reflexivity|]. split; [exact Nr|].
    split; [|cbn; repeat split; reflexivity].
    destruct I. constructor; cbn; auto.
    - intros a c Hin. apply in_app_or in Hin as [Hin|[Hin|[]]]; [now apply iu_nomerge0|].
      inversion Hin; subst a c. repeat split; auto. rewrite F1, F2. exact Nr.
    - destruct iu_sim0 as [phi P]. exists phi. destruct P. constructor; cbn; auto.
  Qed.

  (* ---------------- CutLeftWire ---------------- *)
  Lemma left_cut_ok s cur E g :
    InvU s cur E -> gate_wf g ->
    let r1 := find_qubit_root s (q1_of g) in
    let r2 := find_qubit_root s (q2_of g) in
    let cur' := bump cur (Q1 g) in
    exists l, cut_left_wire s g W = Val l /\
      (forall s', In s' l -> InvU s' cur' (E ++ [aedge cur' (Q1 g) (Q2 g)]) /\
         num_wires s' = S (num_wires s) /\ length (uptree s') = length (uptree s) /\
         gamma_UB s' = Qmult (gamma_UB s) left_wire_mult /\
         actions s' = actions s ++ [mkA CutLeftWire g [[1; get_wire s (q1_of g); num_wires s]]] /\
         level s' = level s /\ wiremap s' = upd (wiremap s) (q1_of g) (num_wires s)) /\
      (l = [] -> length (uptree s) < num_wires s + 1 \/ r1 = r2 \/ W < width_at s r2 + 1).
  Proof.
    intros I G r1 r2 cur'.
    destruct (wires_of_gate _ _ _ _ I G) as (Hw1 & Hw2 & Nw).
    destruct (root_facts _ _ _ _ I Hw1) as (L1 & N1 & B1 & R1 & F1).
    destruct (root_facts _ _ _ _ I Hw2) as (L2 & N2 & B2 & R2 & F2).
    change (find (uptree s) (get_wire s (q1_of g))) with r1 in *.
    change (find (uptree s) (get_wire s (q2_of g))) with r2 in *.
    pose proof G as (GL & GN & G1 & G2).
    unfold cut_left_wire. rewrite GL. simpl. unfold can_add_wires, can_expand_subcircuit.
    destruct (Nat.leb_spec (num_wires s + 1) (length (uptree s))) as [Hroom|Hno]; simpl.
    2:{ exists []; split; [reflexivity|]. split; [intros s' []|]. intros _; left; lia. }
    change (find_qubit_root s (q1_of g)) with r1. change (find_qubit_root s (q2_of g)) with r2.
    destruct (Nat.eqb_spec r1 r2) as [Er|Nr].
    { exists []; split; [reflexivity|]. split; [intros s' []|]. intros _; right; now left. }
    destruct (Nat.leb_spec (width_at s r2 + 1) W) as [Hfit|Hno]; simpl.
    2:{ exists []; split; [reflexivity|]. split; [intros s' []|]. intros _; right; right; lia. }
    unfold new_wire. destruct (Nat.ltb_spec (num_wires s) (length (uptree s))) as [_|C]; [|lia]. simpl.
    assert (GWn : get_wire {| wiremap := upd (wiremap s) (q1_of g) (num_wires s); num_wires := S (num_wires s);
                              uptree := uptree s; width := width s; no_merge := no_merge s; gamma_UB := gamma_UB s;
                              actions := actions s; level := level s |} (q1_of g) = num_wires s).
    { unfold get_wire; cbn. apply nth_upd_same. rewrite (iu_len_wm _ _ _ I); auto. }
    rewrite GWn.
    assert (Rn : parent (uptree s) (num_wires s) = num_wires s) by (apply (iu_fresh _ _ _ I); lia).
    unfold merge_roots, is_root; cbn [uptree]. rewrite Rn, R2, !Nat.eqb_refl.
    destruct (Nat.eqb_spec (num_wires s) r2) as [C|_]; [lia|]. simpl.
    rewrite Nat.min_r, Nat.max_l by lia.
    unfold assert_donot_merge_roots, find_wire_root, set_uf, union_roots; cbn [uptree wiremap num_wires width no_merge gamma_UB actions level].
    rewrite Nat.min_r, Nat.max_l by lia.
    pose proof (iu_wf _ _ _ I) as WF.
    assert (FU : forall x, x < num_wires s -> find (upd (uptree s) (num_wires s) r2) x = find (uptree s) x).
    { intros x Hx. rewrite union_find; auto; try lia. pose proof (find_le (uptree s) x WF).
      destruct (Nat.eqb_spec (find (uptree s) x) (num_wires s)); [lia|reflexivity]. }
    rewrite !FU by auto. rewrite F1, F2. destruct (Nat.eqb_spec r1 r2) as [C|_]; [contradiction|]. simpl.
    eexists; split; [reflexivity|]. split; [|discriminate].
    intros s' [<-|[]]. split; [|cbn; rewrite upd_length; repeat split; reflexivity].
    unfold cur', Q1, Q2, aedge.
    apply (InvU_cut_one s cur E (q1_of g) (q2_of g) false); auto; try reflexivity; try lia.
  Qed.

  (* ---------------- CutRightWire ---------------- *)
  Lemma right_cut_ok s cur E g :
    InvU s cur E -> gate_wf g ->
    let r1 := find_qubit_root s (q1_of g) in
    let r2 := find_qubit_root s (q2_of g) in
    let cur' := bump cur (Q2 g) in
    exists l, cut_right_wire s g W = Val l /\
      (forall s', In s' l -> InvU s' cur' (E ++ [aedge cur' (Q1 g) (Q2 g)]) /\
         num_wires s' = S (num_wires s) /\ length (uptree s') = length (uptree s) /\
         gamma_UB s' = Qmult (gamma_UB s) right_wire_mult /\
         actions s' = actions s ++ [mkA CutRightWire g [[2; get_wire s (q2_of g); num_wires s]]] /\
         level s' = level s /\ wiremap s' = upd (wiremap s) (q2_of g) (num_wires s)) /\
      (l = [] -> length (uptree s) < num_wires s + 1 \/ r1 = r2 \/ W < width_at s r1 + 1).
  Proof.
    intros I G r1 r2 cur'.
    destruct (wires_of_gate _ _ _ _ I G) as (Hw1 & Hw2 & Nw).
    destruct (root_facts _ _ _ _ I Hw1) as (L1 & N1 & B1 & R1 & F1).
    destruct (root_facts _ _ _ _ I Hw2) as (L2 & N2 & B2 & R2 & F2).
    change (find (uptree s) (get_wire s (q1_of g))) with r1 in *.
    change (find (uptree s) (get_wire s (q2_of g))) with r2 in *.
    pose proof G as (GL & GN & G1 & G2).
    unfold cut_right_wire. rewrite GL. simpl. unfold can_add_wires, can_expand_subcircuit.
    destruct (Nat.leb_spec (num_wires s + 1) (length (uptree s))) as [Hroom|Hno]; simpl.
    2:{ exists []; split; [reflexivity|]. split; [intros s' []|]. intros _; left; lia. }
    change (find_qubit_root s (q1_of g)) with r1. change (find_qubit_root s (q2_of g)) with r2.
    destruct (Nat.eqb_spec r1 r2) as [Er|Nr].
    { exists []; split; [reflexivity|]. split; [intros s' []|]. intros _; right; now left. }
    destruct (Nat.leb_spec (width_at s r1 + 1) W) as [Hfit|Hno]; simpl.
    2:{ exists []; split; [reflexivity|]. split; [intros s' []|]. intros _; right; right; lia. }
    unfold new_wire. destruct (Nat.ltb_spec (num_wires s) (length (uptree s))) as [_|C]; [|lia]. simpl.
    assert (GWn : get_wire {| wiremap := upd (wiremap s) (q2_of g) (num_wires s); num_wires := S (num_wires s);
                              uptree := uptree s; width := width s; no_merge := no_merge s; gamma_UB := gamma_UB s;
                              actions := actions s; level := level s |} (q2_of g) = num_wires s).
    { unfold get_wire; cbn. apply nth_upd_same. rewrite (iu_len_wm _ _ _ I); auto. }
    rewrite GWn.
    assert (Rn : parent (uptree s) (num_wires s) = num_wires s) by (apply (iu_fresh _ _ _ I); lia).
    unfold merge_roots, is_root; cbn [uptree]. rewrite Rn, R1, !Nat.eqb_refl.
    destruct (Nat.eqb_spec r1 (num_wires s)) as [C|_]; [lia|]. simpl.
    rewrite Nat.min_l, Nat.max_r by lia.
    unfold assert_donot_merge_roots, find_wire_root, set_uf, union_roots; cbn [uptree wiremap num_wires width no_merge gamma_UB actions level].
    rewrite Nat.min_l, Nat.max_r by lia.
    pose proof (iu_wf _ _ _ I) as WF.
    assert (FU : forall x, x < num_wires s -> find (upd (uptree s) (num_wires s) r1) x = find (uptree s) x).
    { intros x Hx. rewrite union_find; auto; try lia. pose proof (find_le (uptree s) x WF).
      destruct (Nat.eqb_spec (find (uptree s) x) (num_wires s)); [lia|reflexivity]. }
    rewrite !FU by auto. rewrite F1, F2. destruct (Nat.eqb_spec r1 r2) as [C|_]; [contradiction|]. simpl.
    eexists; split; [reflexivity|]. split; [|discriminate].
    intros s' [<-|[]]. split; [|cbn; rewrite upd_length; repeat split; reflexivity].
    unfold cur', Q1, Q2, aedge.
    apply (InvU_cut_one s cur E (q2_of g) (q1_of g) true); auto; try reflexivity; try lia.
  Qed.

  (* ---------------- CutBothWires ---------------- *)
  Lemma both_cut_ok s cur E g :
    InvU s cur E -> gate_wf g ->
    let cur' := bump (bump cur (Q1 g)) (Q2 g) in
    exists l, cut_both_wires s g W = Val l /\
      (forall s', In s' l -> InvU s' cur' (E ++ [aedge cur' (Q1 g) (Q2 g)]) /\
         num_wires s' = S (S (num_wires s)) /\ length (uptree s') = length (uptree s) /\
         gamma_UB s' = Qmult (gamma_UB s) both_wires_mult /\
         actions s' = actions s ++ [mkA CutBothWires g [[1; get_wire s (q1_of g); num_wires s];
                                                       [2; get_wire s (q2_of g); S (num_wires s)]]] /\
         level s' = level s /\
         wiremap s' = upd (upd (wiremap s) (q1_of g) (num_wires s)) (q2_of g) (S (num_wires s))) /\
      (l = [] -> length (uptree s) < num_wires s + 2 \/ W < 2).
  Proof.
    intros I G cur'.
    destruct (wires_of_gate _ _ _ _ I G) as (Hw1 & Hw2 & Nw).
    destruct (root_facts _ _ _ _ I Hw1) as (L1 & N1 & B1 & R1 & F1).
    destruct (root_facts _ _ _ _ I Hw2) as (L2 & N2 & B2 & R2 & F2).
    set (r1 := find (uptree s) (get_wire s (q1_of g))) in *.
    set (r2 := find (uptree s) (get_wire s (q2_of g))) in *.
    pose proof G as (GL & GN & G1 & G2).
    unfold cut_both_wires. rewrite GL. simpl. unfold can_add_wires.
    change (find_qubit_root s (q1_of g)) with r1. change (find_qubit_root s (q2_of g)) with r2.
    destruct (Nat.leb_spec (num_wires s + 2) (length (uptree s))) as [Hroom|Hno]; simpl.
    2:{ exists []; split; [reflexivity|]. split; [intros s' []|]. intros _; left; lia. }
    destruct (Nat.ltb_spec W 2) as [Hno|HW2].
    { exists []; split; [reflexivity|]. split; [intros s' []|]. intros _; now right. }
    rewrite new_wire_val by (rewrite ?(iu_len_wm _ _ _ I); auto; lia). cbn [obind].
    rewrite new_wire_val by (unfold with_new_wire; cbn; rewrite ?upd_length, ?(iu_len_wm _ _ _ I); auto; lia). cbn [obind].
    change (num_wires (with_new_wire s (q1_of g))) with (S (num_wires s)).
    set (s2 := with_new_wire (with_new_wire s (q1_of g)) (q2_of g)).
    assert (Eu2 : uptree s2 = uptree s) by reflexivity.
    assert (Rn : parent (uptree s) (num_wires s) = num_wires s) by (apply (iu_fresh _ _ _ I); lia).
    assert (Rm : parent (uptree s) (S (num_wires s)) = S (num_wires s)) by (apply (iu_fresh _ _ _ I); lia).
    unfold merge_roots, is_root. rewrite Eu2, Rn, Rm, !Nat.eqb_refl.
    destruct (Nat.eqb_spec (num_wires s) (S (num_wires s))) as [C|_]; [lia|]. simpl.
    rewrite Nat.min_l, Nat.max_r by lia.
    pose proof (iu_wf _ _ _ I) as WF.
    assert (FU : forall x, find (upd (uptree s) (S (num_wires s)) (num_wires s)) x =
                           if Nat.eqb (find (uptree s) x) (S (num_wires s)) then num_wires s else find (uptree s) x).
    { intros x. apply union_find; auto; lia. }
    assert (FO : forall x, x < num_wires s -> find (upd (uptree s) (S (num_wires s)) (num_wires s)) x = find (uptree s) x).
    { intros x Hx. rewrite FU. pose proof (find_le (uptree s) x WF).
      destruct (Nat.eqb_spec (find (uptree s) x) (S (num_wires s))); [lia|reflexivity]. }
    destruct (fresh_class _ _ _ (num_wires s) I (le_n _)) as (_ & _ & Fn); [lia|].
    destruct (fresh_class _ _ _ (S (num_wires s)) I) as (_ & _ & Fm); [lia|lia|].
    unfold assert_donot_merge_roots at 1, find_wire_root, set_uf, union_roots;
      cbn [uptree wiremap num_wires width no_merge gamma_UB actions level]. rewrite ?Eu2.
    rewrite Nat.min_l, Nat.max_r by lia.
    rewrite FO by auto. rewrite FU, Fn.
    destruct (Nat.eqb_spec (num_wires s) (S (num_wires s))) as [C|_]; [lia|].
    rewrite F1. destruct (Nat.eqb_spec r1 (num_wires s)) as [C|_]; [lia|]. simpl.
    unfold assert_donot_merge_roots, find_wire_root; cbn [uptree wiremap num_wires width no_merge gamma_UB actions level].
    rewrite FO by auto. rewrite FU, Fm, Nat.eqb_refl. rewrite F2.
    destruct (Nat.eqb_spec r2 (num_wires s)) as [C|_]; [lia|]. simpl.
    eexists; split; [reflexivity|]. split; [|discriminate].
    intros s' [<-|[]]. split; [|cbn; rewrite upd_length; repeat split; reflexivity].
    unfold cur', Q1, Q2.
    apply (InvU_cut_both s cur E (q1_of g) (q2_of g)); auto; try reflexivity; try lia.
  Qed.
End Inv.

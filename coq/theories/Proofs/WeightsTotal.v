(* Proofs/WeightsTotal.v — totality: on valid input and an admissible tape none of the `assert`s of
   _generate_qpd_weights / _populate_samples (the Crashed exits of the model) is reachable. *)
From Coq Require Import QArith Qabs Qround Lia ZifyBool Lqa Permutation.
From CKT Require Import Common.Base Extracted.Facts Model.Weights.
From CKT Require Import Proofs.WeightsP Proofs.WeightsDfs Proofs.WeightsGen Proofs.WeightsTab Proofs.WeightsSum
                        Proofs.WeightsCount Proofs.WeightsUnb.
Open Scope Q_scope.

(* ---------- a joint map that was evaluated exactly has path product zero ---------- *)
Lemma zero_small_mult0 x g : x * g == 0 -> zero_small x * g == 0.
Proof. intros H. unfold zero_small. destruct (isclose0 x); [ring|exact H]. Qed.

Definition found_sub (s : sub) : Prop := s <> SubNone.

Lemma kids_found thr node prefix rp :
  (forall pf r k, has_full (fst (node pf r)) k -> found_sub (snd (node pf r))) ->
  forall l i k, has_full (fst (fst (kids thr node prefix rp i l))) k -> snd (kids thr node prefix rp i l) = true.
Proof.
  intros Hn l; induction l as [|p l' IH]; intros i k [q H]; [destruct H|].
  rewrite kids_cons in *. destruct (Qltb (rp * p) thr); [destruct H|].
  pose proof (Hn (prefix ++ [i]) (rp * p) k) as H1.
  destruct (node (prefix ++ [i]) (rp * p)) as [ys s]. specialize (IH (S i) k).
  destruct (kids thr node prefix rp (S i) l') as [[ys' tab] fnd]. cbn [fst snd] in *.
  assert (In (YFull k q) (ys ++ ys')) as I by (destruct s; exact H).
  apply in_app_iff in I. destruct I as [I|I].
  - assert (found_sub s) as F by (apply H1; exists q; exact I). destruct s; [contradiction F; reflexivity|reflexivity|reflexivity].
  - assert (fnd = true) as -> by (apply IH; exists q; exact I). destruct s; reflexivity.
Qed.

Lemma node_found thr bases : forall pf r k, has_full (fst (dfs_node thr bases pf r)) k -> found_sub (snd (dfs_node thr bases pf r)).
Proof.
  induction bases as [|cur rest IH]; intros pf r k H; [simpl; discriminate|].
  rewrite dfs_node_cons in *.
  pose proof (kids_found thr (dfs_node thr rest) pf r IH cur 0%nat k) as K.
  destruct (kids thr (dfs_node thr rest) pf r 0%nat cur) as [[ys tab] fnd]. cbn [fst snd] in K.
  destruct H as [q H]. apply finish_In in H. destruct H as [H|[_ [v E]]]; [|discriminate].
  rewrite (K (ex_intro _ q H)). unfold finish. destruct pf; simpl; discriminate.
Qed.

Section KidsZero.
Variable b : bool.
Variable thr : Q.
Variable node : key -> Q -> list yield * sub.
Variable rest : list (list Q).
Hypothesis Hu : forall pf r y, In y (fst (node pf r)) -> under pf rest y.
Hypothesis Hz : forall pf r c, has_full (fst (node pf r)) (pf ++ c) ->
  resid (snd (node pf r)) * gpath b (fst (node pf r)) rest pf c == 0.

Lemma kids_zero prefix rp : forall l i j c, (i <= j)%nat ->
  has_full (fst (fst (kids thr node prefix rp i l))) (prefix ++ j :: c) ->
  nth (j - i) (snd (fst (kids thr node prefix rp i l))) 0 *
    gpath b (fst (fst (kids thr node prefix rp i l))) rest (prefix ++ [j]) c == 0.
Proof.
  induction l as [|p l' IH]; intros i j c R [q H]; [destruct H|].
  rewrite kids_cons in *. destruct (Qltb (rp * p) thr); [destruct H|].
  pose proof (Hu (prefix ++ [i]) (rp * p)) as U1. pose proof (Hz (prefix ++ [i]) (rp * p)) as Z1.
  destruct (node (prefix ++ [i]) (rp * p)) as [ys s] eqn:En. cbn [fst snd] in U1, Z1.
  pose proof (kids_under thr node prefix rp rest Hu l' (S i)) as U2.
  specialize (IH (S i) j c).
  destruct (kids thr node prefix rp (S i) l') as [[ys' tab] fnd] eqn:Ek. cbn [fst snd] in U2, IH.
  assert (In (YFull (prefix ++ j :: c) q) (ys ++ ys')) as I by (destruct s; exact H).
  assert (nth (j - i) (match s with SubNone => p | SubLeaf => 0 | SubNorm n => p * n end :: tab) 0 *
            gpath b (ys ++ ys') rest (prefix ++ [j]) c == 0) as G.
  { apply in_app_iff in I. destruct I as [I|I].
    - (* the exact map sits below child i *)
      destruct (U1 _ I) as [c1 [E1 _]]. simpl in E1. rewrite <- app_assoc in E1. apply app_inv_head in E1.
      simpl in E1. inversion E1; subst j c1. replace (i - i)%nat with 0%nat by lia. cbn [nth].
      assert (gpath b (ys ++ ys') rest (prefix ++ [i]) c = gpath b ys rest (prefix ++ [i]) c) as ->.
      { apply tpath_local. intros c0. rewrite find_cond_app.
        rewrite (find_cond_none ys'); [reflexivity|].
        intros y Iy E. destruct (U2 y Iy) as [j' [c2 [Rj [Ej _]]]]. rewrite Ej, <- app_assoc in E.
        apply app_inv_head in E. simpl in E. inversion E. lia. }
      rewrite resid_entry, <- Qmult_assoc, Z1; [ring|]. exists q. now rewrite <- app_assoc.
    - destruct (U2 _ I) as [j' [c2 [Rj [Ej _]]]]. simpl in Ej. apply app_inv_head in Ej. inversion Ej; subst j' c2.
      replace (j - i)%nat with (S (j - S i)) by lia. cbn [nth].
      assert (gpath b (ys ++ ys') rest (prefix ++ [j]) c = gpath b ys' rest (prefix ++ [j]) c) as ->.
      { apply tpath_local. intros c0. rewrite find_cond_app.
        destruct (find_cond ys' ((prefix ++ [j]) ++ c0)); [reflexivity|].
        apply find_cond_none. intros y Iy E. destruct (U1 y Iy) as [c1 [E1 _]]. rewrite E1, <- !app_assoc in E.
        apply app_inv_head in E. simpl in E. inversion E. lia. }
      apply IH; [lia|]. exists q. exact I. }
  destruct s; cbn [fst snd]; exact G.
Qed.
End KidsZero.

Lemma node_zero b thr bases : forall pf r c, has_full (fst (dfs_node thr bases pf r)) (pf ++ c) ->
  resid (snd (dfs_node thr bases pf r)) * gpath b (fst (dfs_node thr bases pf r)) bases pf c == 0 /\
  (pf = [] -> bases <> [] -> gpath b (fst (dfs_node thr bases pf r)) bases pf c == 0).
Proof.
  induction bases as [|cur rest IH]; intros pf r c H.
  - simpl. split; [ring|]. intros _ N. contradiction.
  - assert (forall pf0 r0 c0, has_full (fst (dfs_node thr rest pf0 r0)) (pf0 ++ c0) ->
              resid (snd (dfs_node thr rest pf0 r0)) * gpath b (fst (dfs_node thr rest pf0 r0)) rest pf0 c0 == 0) as Hz
      by (intros; now apply IH).
    pose proof (kids_zero b thr (dfs_node thr rest) rest (node_under thr rest) Hz pf r cur 0%nat) as Kz.
    pose proof (kids_found thr (dfs_node thr rest) pf r (node_found thr rest) cur 0%nat (pf ++ c)) as Kf.
    pose proof (kids_under thr (dfs_node thr rest) pf r rest (node_under thr rest) cur 0%nat) as Uk.
    rewrite dfs_node_cons in *.
    destruct (kids thr (dfs_node thr rest) pf r 0%nat cur) as [[ysk tab] fnd] eqn:Ek. cbn [fst snd] in *.
    assert (has_full ysk (pf ++ c)) as Hk.
    { destruct H as [q H]. apply finish_In in H. destruct H as [H|[_ [v E]]]; [exists q; exact H|discriminate]. }
    rewrite (Kf Hk). clear Kf.
    destruct Hk as [q Hq]. destruct (Uk _ Hq) as [j [c' [_ [E _]]]]. simpl in E. apply app_inv_head in E. subst c.
    specialize (Kz j c' (Nat.le_0_l j) (ex_intro _ q Hq)). rewrite Nat.sub_0_r in Kz.
    unfold finish. destruct pf as [|a pf'].
    + cbn [fst snd resid]. cbn [gpath]. rewrite find_cond_last.
      assert (gpath b (ysk ++ [YCond [] (map zero_small tab)]) rest ([] ++ [j]) c' = gpath b ysk rest ([] ++ [j]) c') as ->.
      { apply tpath_local. intros c0. apply find_cond_last_other. apply (ext_neq [] j c0). }
      rewrite nth_map0 by reflexivity.
      pose proof (zero_small_mult0 _ _ Kz) as Z. split; [rewrite Z; ring|intros _ _; exact Z].
    + split; [|intros N; discriminate]. cbn [fst snd resid].
      destruct (Qeq_bool (qsum (map zero_small tab)) 0) eqn:En.
      * apply Qeqb_true in En. rewrite En. ring.
      * apply Qeqb_false in En. rewrite app_nil_r || idtac. cbn [gpath]. rewrite find_cond_last.
        assert (gpath b (ysk ++ [YCond (a :: pf') (map (fun x => x / qsum (map zero_small tab)) (map zero_small tab))])
                      rest ((a :: pf') ++ [j]) c' = gpath b ysk rest ((a :: pf') ++ [j]) c') as ->.
        { apply tpath_local. intros c0. apply find_cond_last_other. apply ext_neq. }
        rewrite nth_map0 by (unfold Qdiv; ring). rewrite nth_map0 by reflexivity.
        pose proof (zero_small_mult0 _ _ Kz) as Z.
        transitivity (qsum (map zero_small tab) / qsum (map zero_small tab) * (zero_small (nth j tab 0) * gpath b ysk rest ((a :: pf') ++ [j]) c')).
        -- field. exact En.
        -- rewrite Z. ring.
Qed.

Lemma exact_zero_unsorted b probs perms thr ids : sorting_perms_b probs perms = true -> probs <> [] ->
  has_full (gen_unsorted probs perms thr) ids -> gpath b (gen_unsorted probs perms thr) probs [] ids == 0.
Proof.
  intros S Ne [p H]. apply gen_unsorted_full_inv in H. destruct H as [c [-> Hc]].
  unfold dfs_spec in Hc. destruct (node_under thr _ [] 1 _ Hc) as [c0 [E [O L]]]. simpl in E, L. subst c0.
  rewrite tpath_unperm_top; auto; [|rewrite L; now apply sorted_probs_length].
  destruct (node_zero b thr (sorted_probs probs perms) [] 1 c (ex_intro _ p Hc)) as [_ Z].
  apply Z; auto. intros E. apply Ne. pose proof (sorted_probs_length probs perms S) as Ls. rewrite E in Ls.
  destruct probs; [reflexivity|discriminate].
Qed.

Lemma exact_zero_acc b probs perms q ids : sorting_perms_b probs perms = true -> probs <> [] ->
  has_full (acc_yields probs perms q) ids -> gpath b (acc_yields probs perms q) probs [] ids == 0.
Proof.
  intros S Ne. unfold acc_yields. destruct (Qle_bool _ _); [now apply exact_zero_unsorted|].
  intros [p []].
Qed.

(* the accumulator facts that do not depend on the cut-off hypothesis *)
Lemma acc_facts0 probs perms q ret cond wts0 :
  dfs_acc probs perms q = (ret, cond, wts0) ->
  let ys := acc_yields probs perms q in
  ret = fold_left (ret_step q) ys [] /\
  (forall st, dget cond st = match find_cond ys st with Some v => Some (norm_top st v) | None => None end) /\
  wts0 = match find_cond ys [] with Some v => qsum v | None => 1 end.
Proof.
  intros E ys. unfold dfs_acc in E. unfold acc_yields in ys.
  destruct (Qle_bool (1 / q) (qprod (map qmax probs))) eqn:El; subst ys.
  - set (ysU := gen_unsorted probs perms (1 / q)) in *.
    destruct (absorb_cond_w (length probs) q ysU ([] : wdict) ([] : list (key * list Q)) 1) as [A B].
    assert (fold_left (absorb (length probs) q) ysU (([] : wdict), ([] : list (key * list Q)), 1) = (ret, cond, wts0)) as E'
      by exact E.
    rewrite E' in A, B. cbn [fst snd] in A, B.
    split; [|split].
    + transitivity (fst (fst (fold_left (absorb (length probs) q) ysU (([] : wdict), ([] : list (key * list Q)), 1)))).
      * now rewrite E'.
      * apply absorb_ret.
    + intros st. rewrite A. destruct (find_cond ysU st); reflexivity.
    + exact B.
  - inversion E; subst. split; [reflexivity|]. split; [intros st; reflexivity|reflexivity].
Qed.

Lemma ret_some_full q ys ids v : dget (fold_left (ret_step q) ys []) ids = Some v -> has_full ys ids.
Proof.
  rewrite ret_get. destruct (last_full ys ids) as [p|] eqn:E; [|discriminate].
  intros _. exists p. now apply last_full_In.
Qed.

(* ---------- the walk of the shortcut never meets an all-zero table ---------- *)
Lemma flat_nil_zero v : flatnonzero v = [] -> qsum v == 0.
Proof.
  intros F. assert (forall i, nth i v 0 == 0) as Z.
  { intros i. destruct (Nat.lt_ge_cases i (length v)) as [L|L]; [|rewrite nth_overflow by lia; reflexivity].
    destruct (Qeq_dec (nth i v 0) 0) as [E|E]; auto.
    pose proof (flatnonzero_complete v i L E) as I. rewrite F in I. destruct I. }
  clear F. induction v as [|a v IH]; simpl; [reflexivity|].
  rewrite (Z 0%nat). simpl. rewrite IH; [ring|]. intros i. apply (Z (S i)).
Qed.

Section WalkTotal.
Variable probs : list (list Q).
Variable ys : list yield.
Variable cond : list (key * list Q).
Hypothesis Hv : valid probs.
Hypothesis Hc : forall st, dget cond st = match find_cond ys st with Some v => Some (norm_top st v) | None => None end.
Hypothesis Hn : forall st v, st <> [] -> find_cond ys st = Some v -> qsum v == 1.

Lemma walk_never_none : forall rest done pf, probs = done ++ rest -> pf <> [] -> leftover_walk rest cond pf <> None.
Proof.
  induction rest as [|indep rest' IH]; intros done pf E Ne; simpl; [discriminate|].
  rewrite (Hc' ys cond Hc pf Ne).
  set (tbl := match find_cond ys pf with Some v => v | None => indep end).
  assert (qsum tbl == 1) as St.
  { unfold tbl. destruct (find_cond ys pf) as [v|] eqn:F; [now apply (Hn pf v)|].
    unfold valid in Hv. rewrite E in Hv. apply Forall_app in Hv. destruct Hv as [_ H2]. inversion H2; subst. tauto. }
  destruct (flatnonzero tbl) as [|x [|x2 more]] eqn:Ef.
  - apply flat_nil_zero in Ef. rewrite Ef in St. discriminate St.
  - apply (IH (done ++ [indep])); [now rewrite <- app_assoc|destruct pf; discriminate].
  - discriminate.
Qed.

Lemma walk_top_never_none indep0 rest' : probs = indep0 :: rest' ->
  (forall v, find_cond ys [] = Some v -> ~ qsum v == 0) -> leftover_walk probs cond [] <> None.
Proof.
  intros Ep Hw. rewrite Ep. simpl. rewrite Hc.
  set (T0 := match match find_cond ys [] with Some v => Some (norm_top [] v) | None => None end with
             | Some v => v | None => indep0 end).
  assert (qsum T0 == 1) as St.
  { unfold T0. destruct (find_cond ys []) as [v|] eqn:F; simpl.
    - apply qsum_div_self. now apply Hw.
    - unfold valid in Hv. rewrite Ep in Hv. inversion Hv; subst. tauto. }
  destruct (flatnonzero T0) as [|x [|x2 more]] eqn:Ef.
  - apply flat_nil_zero in Ef. rewrite Ef in St. discriminate St.
  - apply (walk_never_none rest' [indep0] [x]); [exact Ep|discriminate].
  - discriminate.
Qed.
End WalkTotal.

(* ---------- the sampler: every produced key has non-zero path probability; keys are pairwise distinct ---------- *)
Lemma ecount_lin cond : forall rest rs nd ids, ecount rest cond rs nd ids == nd * ecount rest cond rs 1 ids.
Proof.
  induction rest as [|v rest IH]; intros rs nd ids; simpl.
  - destruct (dget cond rs); ring.
  - destruct (dget cond rs) as [tbl|]; [|ring].
    destruct ids as [|i ids']; [ring|].
    rewrite (IH (rs ++ [i]) (nd * nth i tbl 0)), (IH (rs ++ [i]) (1 * nth i tbl 0)). ring.
Qed.

Lemma row_nonzero : forall ps cols j k,
  Forall2 (fun col p => length col = k /\ forall x, In x col -> (x < length p)%nat /\ ~ nth x p 0 == 0) cols ps ->
  (j < k)%nat ->
  ~ jointp ps (map (fun c => nth j c 0%nat) cols) == 0 /\ length (map (fun c => nth j c 0%nat) cols) = length ps.
Proof.
  induction ps as [|p ps IH]; intros cols j k F Hj.
  - inversion F; subst. simpl. split; [intros H; discriminate H|reflexivity].
  - inversion F as [|col p' cols' ps' [Lc G] F']; subst. simpl.
    destruct (IH cols' j (length col) F' Hj) as [A B].
    assert (In (nth j col 0%nat) col) as I by (apply nth_In; lia).
    destruct (G _ I) as [_ Nz]. split; [|now rewrite B].
    intros Z. apply Qmult_integral in Z. tauto.
Qed.

Lemma cnt_add_nodup {A} (eqb : A -> A -> bool) (Hs : forall a b, eqb a b = true <-> a = b) :
  forall c x, NoDup (map fst c) -> NoDup (map fst (cnt_add eqb c x)) /\
              forall a, In a (map fst (cnt_add eqb c x)) -> a = x \/ In a (map fst c).
Proof.
  induction c as [|[y n] c IH]; intros x N; simpl.
  - split; [constructor; [tauto|constructor]|intros a [<-|[]]; now left].
  - destruct (eqb x y) eqn:E; simpl.
    + split; [exact N|]. intros a H. right. exact H.
    + inversion N as [|? ? Ny Nc]; subst. destruct (IH x Nc) as [N1 S1]. split.
      * constructor; auto. intros I. destruct (S1 _ I) as [->|I']; [|contradiction].
        assert (eqb x x = true) by now apply Hs. congruence.
      * intros a [<-|I]; [right; now left|]. destruct (S1 _ I); [now left|right; now right].
Qed.

Lemma counter_nodup {A} (eqb : A -> A -> bool) (Hs : forall a b, eqb a b = true <-> a = b) l :
  NoDup (map fst (counter eqb l)).
Proof.
  unfold counter. assert (forall l c, NoDup (map fst c) -> NoDup (map fst (fold_left (cnt_add eqb) l c))) as G.
  { clear l. induction l as [|x l IH]; intros c N; simpl; auto. apply IH. now apply cnt_add_nodup. }
  apply G. constructor.
Qed.

Section PopTotal.
Variable probs : list (list Q).
Variable cond : list (key * list Q).
Hypothesis Hfull : forall st v, dget cond st = Some v -> (length st < length probs)%nat.

Definition key_live (rest : list (list Q)) (rs k : key) : Prop :=
  exists c, k = rs ++ c /\ length c = length rest /\ ~ ecount rest cond rs 1 c == 0.

Lemma pop_loop_live rec full rs indep rest' done v :
  probs = done ++ indep :: rest' -> length done = length rs ->
  dget cond rs = Some v ->
  full = (match rest' with [] => true | _ :: _ => false end) ->
  (full = false -> forall o c t s t' lg, rec (rs ++ [o]) c t = Some (s, t', lg) ->
      forall k n, In (k, n) s -> key_live rest' (rs ++ [o]) k) ->
  forall ocs t s t' lg, (forall o c, In (o, c) ocs -> ~ nth o v 0 == 0) ->
    pop_loop rec full rs ocs t = Some (s, t', lg) -> forall k n, In (k, n) s -> key_live (indep :: rest') rs k.
Proof.
  intros E L G Ef Hrec.
  assert (forall o k, ~ nth o v 0 == 0 -> key_live rest' (rs ++ [o]) k -> key_live (indep :: rest') rs k) as Lift.
  { intros o k No [c' [Ek [Lc Nz]]]. exists (o :: c'). rewrite Ek, <- app_assoc. split; [reflexivity|]. split; [simpl; lia|].
    simpl. rewrite G. rewrite ecount_lin. intros Z. apply Qmult_integral in Z. destruct Z as [Z|Z]; [|contradiction].
    apply No. rewrite Qmult_1_l in Z. exact Z. }
  induction ocs as [|[o c] more IH]; intros t s t' lg Ho H k n I; simpl in H.
  - injection H as Hs _ _. subst s. destruct I.
  - assert (~ nth o v 0 == 0) as No by (apply (Ho o c); now left).
    assert (forall o c, In (o, c) more -> ~ nth o v 0 == 0) as Hm by (intros; eapply Ho; right; eauto).
    destruct full.
    + destruct (pop_loop rec true rs more t) as [[[acc t2] lg2]|] eqn:R; [|discriminate].
      injection H as Hs _ _. subst s.
      destruct I as [I|I]; [|eapply IH; eauto].
      injection I as Ik _. subst k. destruct rest'; [|discriminate]. apply (Lift o); auto.
      exists []. rewrite app_nil_r. split; auto. split; auto. simpl.
      destruct (dget cond (rs ++ [o])) as [u|] eqn:Gu.
      * apply Hfull in Gu. rewrite E, !app_length in Gu. simpl in Gu. lia.
      * intros Z. discriminate Z.
    + destruct (rec (rs ++ [o]) c t) as [[[s1 t2] lg1]|] eqn:R1; [|discriminate].
      destruct (pop_loop rec false rs more t2) as [[[s2 t3] lg2]|] eqn:R2; [|discriminate].
      injection H as Hs _ _. subst s.
      apply in_app_iff in I. destruct I as [I|I]; [|eapply IH; eauto].
      apply (Lift o); auto. eapply (Hrec eq_refl); eauto.
Qed.

Lemma populate_live : forall rest done rs nd tape s t lg,
  probs = done ++ rest -> length done = length rs -> rest <> [] ->
  populate rest cond rs nd tape = Some (s, t, lg) -> forall k n, In (k, n) s -> key_live rest rs k.
Proof.
  induction rest as [|indep rest' IH]; intros done rs nd tape s t lg E L Ne H k n I; [contradiction|].
  cbn [populate] in H. destruct (dget cond rs) as [v|] eqn:G.
  - destruct (draw v nd tape) as [[outs t1]|] eqn:D; [|discriminate].
    destruct (pop_loop (fun rs' c t0 => populate rest' cond rs' c t0)
                (match rest' with [] => true | _ :: _ => false end) rs (counter Nat.eqb outs) t1)
      as [[[s0 t0] lg0]|] eqn:R; [|discriminate]. injection H as Hs _ _. subst s.
    destruct (draw_spec v nd tape outs t1 D) as [_ [_ F]].
    eapply (pop_loop_live _ _ rs indep rest' done v E L G eq_refl); [| |exact R|exact I].
    + intros Ff o c t2 s2 t2' lg2 R2. eapply (IH (done ++ [indep]) (rs ++ [o])); eauto.
      * now rewrite <- app_assoc.
      * rewrite !app_length. simpl. lia.
      * destruct rest'; discriminate.
    + intros o c Ioc. apply counter_keys in Ioc; [|intros a b; apply Nat.eqb_eq]. now apply F.
  - destruct (take_cols (indep :: rest') nd tape) as [[[cols t1] lg1]|] eqn:T; [|discriminate].
    injection H as Hs _ _. subst s. apply in_map_iff in I. destruct I as [[row cnt] [Ek I]]. simpl in Ek.
    injection Ek as Ek _. subst k.
    apply counter_keys in I; [|intros a b; apply key_eqb_eq].
    pose proof (take_cols_spec _ _ _ _ _ _ T) as F2.
    unfold rows in I. destruct cols as [|c0 cols']; [destruct I|].
    apply in_map_iff in I. destruct I as [j [<- Hj]]. apply in_seq in Hj.
    destruct (row_nonzero (indep :: rest') (c0 :: cols') j nd F2) as [A B]; [lia|].
    exists (map (fun c => nth j c 0%nat) (c0 :: cols')). split; auto. split; auto.
    cbn [ecount]. rewrite G. intros Z. apply A. rewrite <- Z. ring.
Qed.
End PopTotal.

(* keys of the sampler's output are pairwise distinct *)
Definition key_under (rs : key) (o : nat) (k : key) : Prop := exists c, k = rs ++ o :: c.

Lemma pop_loop_nodup rec full rs :
  (full = false -> forall o c t s t' lg, rec (rs ++ [o]) c t = Some (s, t', lg) ->
      NoDup (map fst s) /\ forall k n, In (k, n) s -> key_under rs o k) ->
  forall ocs t s t' lg, NoDup (map fst ocs) -> pop_loop rec full rs ocs t = Some (s, t', lg) ->
    NoDup (map fst s) /\ forall k n, In (k, n) s -> exists o, In o (map fst ocs) /\ key_under rs o k.
Proof.
  intros Hrec. induction ocs as [|[o c] more IH]; intros t s t' lg N H; simpl in H.
  - injection H as Hs _ _. subst s. split; [constructor|intros k n []].
  - simpl in N. inversion N as [|? ? No Nm]; subst.
    assert (forall (s2 : list (key * nat)) k n, (forall k n, In (k, n) s2 -> exists o', In o' (map fst more) /\ key_under rs o' k) ->
              In (k, n) s2 -> ~ key_under rs o k) as Dis.
    { intros s2 k n H2 I [c1 E1]. destruct (H2 k n I) as [o' [Io' [c2 E2]]]. rewrite E1 in E2.
      apply app_inv_head in E2. inversion E2; subst o'. contradiction. }
    destruct full.
    + destruct (pop_loop rec true rs more t) as [[[acc t2] lg2]|] eqn:R; [|discriminate].
      injection H as Hs _ _. subst s. destruct (IH _ _ _ _ Nm R) as [Na Sa]. split.
      * simpl. constructor; auto. intros I. apply in_map_iff in I. destruct I as [[k n] [Ek I]]. simpl in Ek. subst k.
        apply (Dis acc _ n Sa I). exists []. reflexivity.
      * intros k n [I|I].
        -- injection I as Ik _. subst k. exists o. split; [now left|]. exists []. reflexivity.
        -- destruct (Sa k n I) as [o' [Io' U]]. exists o'. split; [now right|exact U].
    + destruct (rec (rs ++ [o]) c t) as [[[s1 t2] lg1]|] eqn:R1; [|discriminate].
      destruct (pop_loop rec false rs more t2) as [[[s2 t3] lg2]|] eqn:R2; [|discriminate].
      injection H as Hs _ _. subst s. destruct (Hrec eq_refl _ _ _ _ _ _ R1) as [N1 S1]. destruct (IH _ _ _ _ Nm R2) as [N2 S2].
      split.
      * rewrite map_app. apply NoDup_app_intro; auto.
        intros k I1 I2. apply in_map_iff in I1. destruct I1 as [[k1 n1] [E1 I1]]. simpl in E1. subst k1.
        apply in_map_iff in I2. destruct I2 as [[k2 n2] [E2 I2]]. simpl in E2. subst k2.
        apply (Dis s2 k n2 S2 I2). eapply S1; eauto.
      * intros k n I. apply in_app_iff in I. destruct I as [I|I].
        -- exists o. split; [now left|]. eapply S1; eauto.
        -- destruct (S2 k n I) as [o' [Io' U]]. exists o'. split; [now right|exact U].
Qed.

Lemma populate_nodup cond : forall rest rs nd tape s t lg, rest <> [] ->
  populate rest cond rs nd tape = Some (s, t, lg) ->
  NoDup (map fst s) /\ forall k n, In (k, n) s -> exists c, k = rs ++ c /\ c <> [].
Proof.
  induction rest as [|indep rest' IH]; intros rs nd tape s t lg Ne H; [contradiction|].
  cbn [populate] in H. destruct (dget cond rs) as [v|].
  - destruct (draw v nd tape) as [[outs t1]|]; [|discriminate].
    destruct (pop_loop (fun rs' c t0 => populate rest' cond rs' c t0)
                (match rest' with [] => true | _ :: _ => false end) rs (counter Nat.eqb outs) t1)
      as [[[s0 t0] lg0]|] eqn:R; [|discriminate]. injection H as Hs _ _. subst s.
    assert (NoDup (map fst (counter Nat.eqb outs))) as Nc by (apply counter_nodup; intros a b; apply Nat.eqb_eq).
    assert ((match rest' with [] => true | _ :: _ => false end) = false ->
            forall o c t s t' lg, populate rest' cond (rs ++ [o]) c t = Some (s, t', lg) ->
              NoDup (map fst s) /\ forall k n, In (k, n) s -> key_under rs o k) as Hrec.
    { intros Ff o c t2 s2 t2' lg2 R2.
      destruct (IH (rs ++ [o]) c t2 s2 t2' lg2) as [N2 S2]; auto; [destruct rest'; discriminate|].
      split; auto. intros k n I. destruct (S2 k n I) as [c' [E _]]. exists c'. now rewrite E, <- app_assoc. }
    destruct (pop_loop_nodup (fun rs' c t0 => populate rest' cond rs' c t0) _ rs Hrec _ _ _ _ _ Nc R) as [N S].
    split; auto. intros k n I. destruct (S k n I) as [o [_ [c E]]]. exists (o :: c). split; auto. discriminate.
  - destruct (take_cols (indep :: rest') nd tape) as [[[cols t1] lg1]|] eqn:T; [|discriminate].
    injection H as Hs _ _. subst s. split.
    + rewrite map_map. simpl.
      rewrite <- (map_map fst (fun k : key => rs ++ k)).
      apply FinFun.Injective_map_NoDup; [intros a b E; now apply app_inv_head in E|].
      apply counter_nodup. intros a b. apply key_eqb_eq.
    + intros k n I. apply in_map_iff in I. destruct I as [[row cnt] [Ek I]]. simpl in Ek. injection Ek as Ek _. subst k.
      exists row. split; auto.
      apply counter_keys in I; [|intros a b; apply key_eqb_eq].
      unfold rows in I. destruct cols as [|c0 cols']; [destruct I|].
      apply in_map_iff in I. destruct I as [j [<- _]]. discriminate.
Qed.

Lemma insert_samples_ok ssw : forall s ret, NoDup (map fst s) ->
  (forall k n, In (k, n) s -> dget ret k = None) -> exists r, insert_samples ret ssw s = Some r.
Proof.
  induction s as [|[k c] s IH]; intros ret N H; simpl; [eauto|].
  inversion N as [|? ? Nk Ns]; subst.
  assert (dmem ret k = false) as -> by (unfold dmem; rewrite (H k c); auto; now left).
  apply IH; auto. intros k' n I. rewrite dget_dset_other; [eapply H; right; eauto|].
  intros ->. apply Nk. apply in_map_iff. exists (k', n). split; auto.
Qed.

(* ---------- the theorems ---------- *)
Lemma min_filter_nonneg v m : nonneg v -> min_filter_nonzero v = Some m -> 0 <= m.
Proof.
  unfold min_filter_nonzero. intros N H. destruct (filter _ v) as [|a r] eqn:Ef; [discriminate|]. inversion H; subst.
  pose proof (fold_min_in r a) as I. rewrite <- Ef in I. apply filter_In in I. destruct I as [I _].
  unfold nonneg in N. rewrite Forall_forall in N. now apply N.
Qed.

Lemma mins_nonneg probs : forall mins, Forall nonneg probs -> all_some (map min_filter_nonzero probs) = Some mins ->
  0 <= qprod mins.
Proof.
  induction probs as [|v r IH]; intros mins N E; simpl in E.
  - inversion E; subst. simpl. lra.
  - destruct (min_filter_nonzero v) as [m|] eqn:Em; [|discriminate].
    destruct (all_some (map min_filter_nonzero r)) as [ms|] eqn:Es; [|discriminate]. simpl in E. inversion E; subst.
    inversion N; subst. pose proof (min_filter_nonneg v m H1 Em). pose proof (IH ms H2 eq_refl). simpl. nra.
Qed.

Lemma fin_context probs perms q mins ret cond wts0 :
  valid probs -> sorting_perms_b probs perms = true -> 1 <= q ->
  all_some (map min_filter_nonzero probs) = Some mins -> ~ 1 / q <= qprod mins ->
  dfs_acc probs perms q = (ret, cond, wts0) -> (1 <= Qceiling (wts0 * q))%Z ->
  let ys := acc_yields probs perms q in
  (exists indep0 rest', probs = indep0 :: rest') /\
  ret = fold_left (ret_step q) ys [] /\
  (forall st, dget cond st = match find_cond ys st with Some v => Some (norm_top st v) | None => None end) /\
  wts0 = match find_cond ys [] with Some v => qsum v | None => 1 end /\
  (forall st v, st <> [] -> find_cond ys st = Some v -> qsum v == 1) /\
  (forall st v, find_cond ys st = Some v -> (length st < length probs)%nat) /\
  0 < wts0.
Proof.
  intros V S Hq Em Na Eacc Hs ys.
  destruct (acc_facts0 probs perms q ret cond wts0 Eacc) as [Er [Ec Ew]].
  destruct (acc_yields_tables probs perms q V S) as [Hn Hl].
  split; [|repeat split; auto].
  - destruct probs as [|i0 r0]; [|eauto]. exfalso. simpl in Em. inversion Em; subst. simpl in Na. destruct (thr_facts q Hq). lra.
  - pose proof (Qceiling_lt (wts0 * q)) as Lc.
    assert (inject_Z 0 <= inject_Z (Qceiling (wts0 * q) - 1)) as X by (rewrite <- Zle_Qle; lia).
    change (inject_Z 0) with 0 in X. assert (0 < wts0 * q) by lra.
    destruct (Qlt_le_dec 0 wts0); auto. exfalso. nra.
Qed.

Lemma gen_core_never_crashes probs perms N :
  valid probs -> sorting_perms_b probs perms = true -> gen_core probs perms N <> Crashed.
Proof.
  intros V S. pose proof (valid_nonneg _ V) as Nn. destruct N as [q| | |]; simpl; try discriminate.
  - destruct (Qltb q 1) eqn:Eq1; [discriminate|]. apply Qltb_ge in Eq1.
    destruct (all_some (map min_filter_nonzero probs)) as [mins|] eqn:Em; [|discriminate].
    destruct (Qle_bool (1 / q) (qprod mins)) eqn:Ea; [discriminate|].
    assert (~ 1 / q <= qprod mins) as Na by (intros L; apply Qle_bool_iff in L; congruence).
    fold (dfs_acc probs perms q). destruct (dfs_acc probs perms q) as [[ret cond] wts0] eqn:Eacc.
    destruct (Z.ltb (Qceiling (wts0 * q)) 1) eqn:Esn; [discriminate|].
    assert (1 <= Qceiling (wts0 * q))%Z as Hs by lia.
    destruct (fin_context probs perms q mins ret cond wts0 V S Eq1 Em Na Eacc Hs) as [[i0 [r0 Ep]] [Er [Ec [Ew [Hn [Hl Wp]]]]]].
    destruct cond as [|c0 cond'] eqn:Econd; [discriminate|]. rewrite <- Econd in *.
    assert (forall v, find_cond (acc_yields probs perms q) [] = Some v -> ~ qsum v == 0) as Hw.
    { intros v F Z. rewrite F in Ew. rewrite Ew, Z in Wp. lra. }
    destruct (leftover_walk probs cond []) as [[rs|]|] eqn:El.
    + destruct (dmem ret rs) eqn:Edm; [|discriminate]. exfalso.
      destruct (walk_top probs (acc_yields probs perms q) cond V Ec Hn Hl i0 r0 wts0 rs Ep Ew El) as [_ [Gr _]].
      unfold dmem in Edm. destruct (dget ret rs) as [v|] eqn:G; [|discriminate].
      rewrite Er in G. apply ret_some_full in G.
      assert (probs <> []) as Ne by (rewrite Ep; discriminate).
      rewrite (exact_zero_acc false probs perms q rs S Ne G) in Gr. lra.
    + discriminate.
    + exfalso. now apply (walk_top_never_none probs (acc_yields probs perms q) cond V Ec Hn i0 r0 Ep Hw).
  - destruct (all_some (map min_filter_nonzero probs)) as [mins|] eqn:Em; [|discriminate].
    pose proof (mins_nonneg probs mins Nn Em) as P. apply Qle_bool_iff in P. rewrite P. discriminate.
Qed.

Theorem never_crashes probs perms N tape res :
  valid probs -> sorting_perms_b probs perms = true ->
  gen_weights probs perms N tape = Some res -> res <> Crashed.
Proof.
  intros V S G. unfold gen_weights in G.
  destruct (gen_core probs perms N) as [c| |] eqn:Gc.
  - destruct c as [r|ret cond nd ssw]; [inversion G; discriminate|].
    destruct N as [q| | |]; try (simpl in Gc; discriminate).
    2:{ simpl in Gc. destruct (all_some _); [|discriminate]. destruct (Qle_bool 0 _); discriminate. }
    destruct (gen_core_fin_inv _ _ _ _ Gc) as [Hq F].
    destruct F as [mins Em Ae Ec0|mins ret0 cond0 wts0 Em Na Eacc Hs Ec0|mins ret0 cond0 wts0 rs Em Na Eacc Hs Lw Dn Ec0
                  |mins ret0 cond0 wts0 Em Na Eacc Hs Ec0]; try discriminate.
    inversion Ec0; subst ret cond nd ssw. clear Ec0.
    destruct (fin_context probs perms q mins ret0 cond0 wts0 V S Hq Em Na Eacc Hs) as [[i0 [r0 Ep]] [Er [Ec [Ew [Hn [Hl Wp]]]]]].
    destruct (populate probs cond0 [] (Z.to_nat (Qceiling (wts0 * q))) tape) as [[[s t] lg]|] eqn:Pp; [|discriminate].
    assert (probs <> []) as Ne by (rewrite Ep; discriminate).
    assert (forall st v, dget cond0 st = Some v -> (length st < length probs)%nat) as Hfull.
    { intros st v H. rewrite Ec in H. destruct (find_cond (acc_yields probs perms q) st) as [u|] eqn:F; [|discriminate].
      eapply Hl; eauto. }
    destruct (populate_nodup cond0 probs [] _ _ _ _ _ Ne Pp) as [Nd _].
    assert (forall k n, In (k, n) s -> dget ret0 k = None) as Fresh.
    { intros k n I. destruct (dget ret0 k) as [v|] eqn:G0; [|reflexivity]. exfalso.
      destruct (populate_live probs cond0 Hfull probs [] [] _ _ _ _ _ eq_refl eq_refl Ne Pp k n I) as [c [Ek [Lc Nz]]].
      simpl in Ek. subst c. rewrite Er in G0. apply ret_some_full in G0.
      pose proof (exact_zero_acc true probs perms q k S Ne G0) as Z. fold tpath in Z.
      apply Nz. rewrite (ecount_top (acc_yields probs perms q) cond0 probs 1 k Ec).
      destruct (find_cond (acc_yields probs perms q) []); rewrite Z; ring. }
    destruct (insert_samples_ok (wts0 * q / inject_Z (Qceiling (wts0 * q))) s ret0 Nd Fresh) as [r Hr].
    rewrite Hr in G. inversion G. discriminate.
  - inversion G. discriminate.
  - exfalso. now apply (gen_core_never_crashes probs perms N V S).
Qed.

(* with every basis having a non-negligible entry, a request with N >= 1 is served *)
Theorem always_served probs perms q tape res :
  valid probs -> Forall (fun v => exists x, In x v /\ nonzero_atol < x) probs ->
  sorting_perms_b probs perms = true -> 1 <= q ->
  gen_weights probs perms (Fin q) tape = Some res -> exists r, res = Ok r.
Proof.
  intros V B S Hq G. pose proof (never_crashes _ _ _ _ _ V S G) as Nc.
  destruct res as [r| |]; [eauto| |contradiction]. exfalso.
  unfold gen_weights in G. destruct (gen_core probs perms (Fin q)) as [c| |] eqn:Gc.
  - destruct c; [discriminate|]. destruct (populate _ _ _ _ _) as [[[s t] lg]|]; [|discriminate].
    destruct (insert_samples _ _ _); discriminate.
  - simpl in Gc. assert (Qltb q 1 = false) as E1 by now apply Qltb_ge. rewrite E1 in Gc.
    destruct (all_some_mins probs (valid_nonneg _ V) B) as [mins [Em _]]. rewrite Em in Gc.
    destruct (Qle_bool (1 / q) (qprod mins)); [discriminate|].
    fold (dfs_acc probs perms q) in Gc. destruct (dfs_acc probs perms q) as [[ret cond] wts0].
    destruct (Z.ltb _ 1); [discriminate|]. destruct cond; [discriminate|].
    destruct (leftover_walk _ _ _) as [[rs|]|]; try discriminate. destruct (dmem ret rs); discriminate.
  - discriminate.
Qed.

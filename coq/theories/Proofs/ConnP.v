(* Proofs/ConnP.v — connectivity (reflexive-symmetric-transitive closure of an edge list): monotonicity,
   effect of adding one edge, isolated vertices. Generic in the vertex type. *)
From Coq Require Import List Relations.
Import ListNotations.

Section Conn.
  Variable A : Type.
  Definition econn (E : list (A * A)) : A -> A -> Prop :=
    clos_refl_sym_trans A (fun a b => In (a, b) E).

  Lemma econn_refl E x : econn E x x.
  Proof. apply rst_refl. Qed.
  Lemma econn_sym E x y : econn E x y -> econn E y x.
  Proof. apply rst_sym. Qed.
  Lemma econn_trans E x y z : econn E x y -> econn E y z -> econn E x z.
  Proof. apply rst_trans. Qed.
  Lemma econn_step E x y : In (x, y) E -> econn E x y.
  Proof. intros; now apply rst_step. Qed.

  Lemma econn_mono E E' x y : incl E E' -> econn E x y -> econn E' x y.
  Proof.
    intros I H; induction H as [x y H| |x y _ IH|x y z _ IH1 _ IH2].
    - apply rst_step. now apply I.
    - apply rst_refl.
    - now apply rst_sym.
    - now apply rst_trans with y.
  Qed.

  (* adding one edge *)
  Lemma econn_add E e1 e2 x y :
    econn (E ++ [(e1, e2)]) x y <->
    econn E x y \/ (econn E x e1 /\ econn E e2 y) \/ (econn E x e2 /\ econn E e1 y).
  Proof.
    split.
    - intros H; induction H as [x y H| |x y _ IH|x y z _ IH1 _ IH2].
      + apply in_app_or in H as [H|[H|[]]].
        * left; now apply econn_step.
        * inversion H; subst. right; left; split; apply econn_refl.
      + left; apply econn_refl.
      + destruct IH as [H|[[H1 H2]|[H1 H2]]].
        * left; now apply econn_sym.
        * right; right; split; now apply econn_sym.
        * right; left; split; now apply econn_sym.
      + destruct IH1 as [H|[[H1 H2]|[H1 H2]]], IH2 as [K|[[K1 K2]|[K1 K2]]].
        * left; eapply econn_trans; eauto.
        * right; left; split; [eapply econn_trans; eauto|auto].
        * right; right; split; [eapply econn_trans; eauto|auto].
        * right; left; split; [auto|eapply econn_trans; eauto].
        * left. eapply econn_trans; [exact H1|]. eapply econn_trans; [|exact K2].
          eapply econn_trans; [apply econn_sym; exact K1|]. apply econn_sym; exact H2.
        * left. eapply econn_trans; [exact H1|]. exact K2.
        * right; right; split; [auto|eapply econn_trans; eauto].
        * left. eapply econn_trans; [exact H1|]. exact K2.
        * left. eapply econn_trans; [exact H1|]. eapply econn_trans; [|exact K2].
          eapply econn_trans; [apply econn_sym; exact K1|]. apply econn_sym; exact H2.
    - assert (M : forall a b, econn E a b -> econn (E ++ [(e1, e2)]) a b)
        by (intros a b; apply econn_mono; intros p Hp; apply in_or_app; now left).
      assert (S : econn (E ++ [(e1, e2)]) e1 e2)
        by (apply econn_step, in_or_app; right; left; reflexivity).
      intros [H|[[H1 H2]|[H1 H2]]].
      + now apply M.
      + eapply econn_trans; [apply M, H1|]. eapply econn_trans; [exact S|]. now apply M.
      + eapply econn_trans; [apply M, H1|]. eapply econn_trans; [apply econn_sym, S|]. now apply M.
  Qed.

  Definition endpoint (E : list (A * A)) (n : A) : Prop := exists m, In (n, m) E \/ In (m, n) E.

  Lemma econn_endpoints E x y : econn E x y -> x = y \/ (endpoint E x /\ endpoint E y).
  Proof.
    intros H; induction H as [x y H| |x y _ IH|x y z _ IH1 _ IH2].
    - right; split; [exists y; now left|exists x; now right].
    - now left.
    - destruct IH as [->|[H1 H2]]; [now left|right; now split].
    - destruct IH1 as [->|[H1 H2]]; [exact IH2|].
      destruct IH2 as [<-|[K1 K2]]; [right; now split|right; now split].
  Qed.

  (* a vertex that is not an endpoint is connected only to itself *)
  Lemma econn_isolated E x n : ~ endpoint E n -> econn E x n -> x = n.
  Proof. intros NE H. destruct (econn_endpoints _ _ _ H) as [E'|[_ H2]]; [exact E'|contradiction]. Qed.

  Lemma econn_isolated' E x n : ~ endpoint E n -> econn E n x -> x = n.
  Proof. intros NE H. apply econn_isolated with E; auto. now apply econn_sym. Qed.

  Lemma econn_nil x y : econn [] x y -> x = y.
  Proof.
    intros H. destruct (econn_endpoints _ _ _ H) as [E'|[[m [[]|[]]] _]]. exact E'.
  Qed.

  Lemma endpoint_app E e1 e2 n : endpoint (E ++ [(e1, e2)]) n <-> endpoint E n \/ n = e1 \/ n = e2.
  Proof.
    split.
    - intros [m [H|H]]; apply in_app_or in H as [H|[H|[]]].
      + left; exists m; now left.
      + inversion H; subst; right; now left.
      + left; exists m; now right.
      + inversion H; subst; right; now right.
    - intros [[m [H|H]]|[->| ->]].
      + exists m; left; apply in_or_app; now left.
      + exists m; right; apply in_or_app; now left.
      + exists e2; left; apply in_or_app; right; now left.
      + exists e1; right; apply in_or_app; right; now left.
  Qed.
End Conn.
Arguments econn {A}.
Arguments endpoint {A}.

(* Proofs/BornTwoQubitP.v — the Born/Heisenberg hypothesis of C11 DISCHARGED for every two-qubit pure state with
   Gaussian-integer amplitudes (hence, by scaling, every state with Gaussian-rational amplitudes) and every general
   observable on two qubits: the outcome law computed from the state vector after the appended rotations satisfies
   `born`.  The proof is symbolic in the eight integer coordinates of the state (polynomial identities by `ring`),
   not an evaluation on sample states.  The bound (two qubits) is in every statement. *)
From Coq Require Import QArith.
From CKT Require Import Common.Base Common.Circ Model.Observables Model.Grouping Model.Measurement
                        Proofs.GroupingP Proofs.MeasurementP.
Close Scope Q_scope.

Definition st2_nonzero (s : st2) : Prop := (0 < st2_norm2 s)%Z.

Definition st2_amp (r : st2) (i : nat) : gi :=
  let '(a0, a1, a2, a3) := r in match i with 0 => a0 | 1 => a1 | 2 => a2 | _ => a3 end.

Definition st2_rotated (s : st2) (gc : list nat) : st2 :=
  app_q1 (snd (rotation_of (nth 1 gc 0))) (app_q0 (snd (rotation_of (nth 0 gc 0))) s).

Open Scope Q_scope.
Lemma expect4 w0 w1 w2 w3 n0 n1 n2 n3 d f :
  expect [(w0, n0 # d); (w1, n1 # d); (w2, n2 # d); (w3, n3 # d)] f
  == (n0 * f w0 + n1 * f w1 + n2 * f w2 + n3 * f w3)%Z # d.
Proof.
  unfold expect. cbn [fold_right fst snd].
  unfold Qeq, Qplus, Qmult, inject_Z. cbn [Qnum Qden].
  rewrite ?Pos2Z.inj_mul. ring.
Qed.

Lemma law_st2_circ_expect s gc pq f :
  expect (law_st2_circ s gc pq) f
  == (gi_norm2 (st2_amp (st2_rotated s gc) 0) * f (word_of pq 0 0%N)
      + gi_norm2 (st2_amp (st2_rotated s gc) 1) * f (word_of pq 0 1%N)
      + gi_norm2 (st2_amp (st2_rotated s gc) 2) * f (word_of pq 0 2%N)
      + gi_norm2 (st2_amp (st2_rotated s gc) 3) * f (word_of pq 0 3%N))%Z
     # Z.to_pos (st2_norm2 (st2_rotated s gc)).
Proof.
  unfold law_st2_circ. fold (st2_rotated s gc).
  destruct (st2_rotated s gc) as [[[a0 a1] a2] a3]. cbn [st2_amp]. apply expect4.
Qed.

Lemma Qmake_eq_lift (n1 d1 z n2 d2 : Z) :
  (0 < d1)%Z -> (0 < d2)%Z -> (n1 * d2 = z * n2 * d1)%Z ->
  n1 # Z.to_pos d1 == inject_Z z * (n2 # Z.to_pos d2).
Proof.
  intros H1 H2 E. unfold Qeq, Qmult, inject_Z. cbn [Qnum Qden].
  rewrite Pos.mul_1_l, !Z2Pos.id by assumption. exact E.
Qed.
Close Scope Q_scope.

(* closed subterms are evaluated; the state's coordinates stay symbolic *)
Ltac eval_closed :=
  repeat match goal with
         | |- context [sign_product ?a ?b] =>
             let v := eval vm_compute in (sign_product a b) in change (sign_product a b) with v
         end;
  repeat match goal with
         | |- context [heis_sign ?a ?b] =>
             let v := eval vm_compute in (heis_sign a b) in change (heis_sign a b) with v
         | |- context [heis_letters ?a ?b] =>
             let v := eval vm_compute in (heis_letters a b) in change (heis_letters a b) with v
         end.

Ltac st2_cbv :=
  cbv [st2_norm2 st2_rotated st2_amp st2_inner_re gi_norm2 app_q0 app_q1 rotation_of pauli_mat nth
       gH gSX gId mI mX mY mZ gi0 gi1 gii m00 m01 m10 m11 gi_add gi_mul gi_conj fst snd].

Ltac born_case :=
  let sel := fresh "sel" in let idx := fresh "idx" in let S := fresh "S" in
  intros sel idx S; subst S idx;
  match goal with |- context [nonid_positions ?g] =>
    let v := eval vm_compute in (nonid_positions g) in change (nonid_positions g) with v end;
  cbn [filter];
  repeat match goal with |- context [sel ?k] => destruct (sel k) end;
  unfold law_st2; rewrite law_st2_circ_expect; cbv beta;
  match goal with |- context [pauli_indices_or_dummy ?g] =>
    let v := eval vm_compute in (pauli_indices_or_dummy g) in change (pauli_indices_or_dummy g) with v end;
  eval_closed; unfold ev_st2.

(* every non-zero two-qubit state with Gaussian-integer amplitudes, every general observable on two qubits
   (16 letter combinations, incl. identity letters and the all-identity dummy) *)
Lemma born_two_qubits (s : st2) (g : list nat) :
  st2_nonzero s -> length g = 2 -> valid_letters g -> born (ev_st2 s) g (law_st2 s g).
Proof.
  intros NZ L V. unfold st2_nonzero in NZ.
  destruct g as [|l0 [|l1 [|x r]]]; try discriminate. clear L.
  pose proof (V 0) as V0. pose proof (V 1) as V1. cbn [nth] in V0, V1. clear V.
  destruct s as [[[[a0 b0] [a1 b1]] [a2 b2]] [a3 b3]].
  destruct l0 as [|[|[|[|l0]]]]; try (exfalso; lia); destruct l1 as [|[|[|[|l1]]]]; try (exfalso; lia); clear V0 V1.
  all: born_case.
  all: apply Qmake_eq_lift; [ | exact NZ | ]; revert NZ; st2_cbv; intros NZ; try nia; try ring.
Qed.

(* hence, on two qubits, the decoded value IS the expectation value, with no physical hypothesis left *)
Lemma expectation_two_qubits (s : st2) (g : list nat) :
  st2_nonzero s -> length g = 2 -> valid_letters g ->
  forall m mask, member_of g m -> mask_of m (nonid_positions g) = Some mask ->
    Qeq (expect (law_st2 s g) (decode mask)) (ev_st2 s m).
Proof.
  intros NZ L V. apply expectation_member; [apply born_two_qubits; assumption|assumption].
Qed.

(* the law used above is a probability distribution: non-negative weights that sum to 1 *)
Lemma law_st2_total (s : st2) (g : list nat) :
  st2_nonzero s -> length g = 2 -> valid_letters g -> Qeq (expect (law_st2 s g) (fun _ => 1%Z)) 1%Q.
Proof.
  intros NZ L V.
  pose proof (born_two_qubits s g NZ L V (fun _ => false)) as B. cbv zeta in B.
  assert (E : forall l : list nat, filter (fun _ : nat => false) l = []).
  { induction l as [|x r IH]; [reflexivity|exact IH]. }
  rewrite E in B. cbn [sign_product fold_right heis_sign] in B. rewrite B.
  unfold heis_letters. rewrite L. cbn [seq map existsb].
  unfold ev_st2. destruct s as [[[[a0 b0] [a1 b1]] [a2 b2]] [a3 b3]]. unfold st2_nonzero in NZ.
  unfold Qeq, Qmult, inject_Z. cbn [Qnum Qden]. rewrite Pos.mul_1_l, Z2Pos.id.
  - revert NZ. st2_cbv. intros NZ. ring.
  - revert NZ. st2_cbv. intros NZ. exact NZ.
Qed.

(* bridge to the executable copies used by the correspondence stream born2 (Model/StateVec2.v) *)
From CKT Require Import Model.StateVec2.
Lemma sv2_ev_is_ev_st2 : forall s lets, sv2_ev s lets = ev_st2 s lets.
Proof. intros [[[a0 a1] a2] a3] lets. reflexivity. Qed.
Lemma sv2_law_is_law_st2 : forall s g, sv2_law s g = law_st2 s g.
Proof.
  intros s g. unfold sv2_law, law_st2, law_st2_circ.
  change (sv2_app1 (snd (rotation_of (nth 1 g 0))) (sv2_app0 (snd (rotation_of (nth 0 g 0))) s))
    with (app_q1 (snd (rotation_of (nth 1 g 0))) (app_q0 (snd (rotation_of (nth 0 g 0))) s)).
  destruct (app_q1 _ _) as [[[a0 a1] a2] a3].
  assert (W : forall p i b, sv2_word p i b = word_of p i b).
  { induction p as [|q r IH]; intros i b; simpl; [reflexivity|now rewrite IH]. }
  rewrite !W. reflexivity.
Qed.

(* =========================================================================================
   CIRCUIT LEVEL: the law is obtained by EXECUTING the appended instruction list on the state
   ========================================================================================= *)
Definition app_q (q : nat) (m : mat2) (s : st2) : st2 :=
  match q with 0 => app_q0 m s | _ => app_q1 m s end.

(* execute an instruction list on a two-qubit state vector: one-qubit gates act through the gate interpretation `sem`,
   measurements are recorded as (qubit, clbit) (they are terminal in the lists considered) *)
Fixpoint exec2 (sem : nat -> gate2) (l : list instr) (s : st2) (meas : list (nat * nat)) : st2 * list (nat * nat) :=
  match l with
  | [] => (s, meas)
  | i :: r =>
      match iop i, iqs i, ics i with
      | Gate g, [q], _ => exec2 sem r (app_q q (snd (sem g)) s) meas
      | Measure, [q], [c] => exec2 sem r s (meas ++ [(q, c)])
      | _, _, _ => exec2 sem r s meas
      end
  end.

(* the register word read from basis state b: bit i = the qubit that was measured into clbit bits[i] *)
Fixpoint reg_word (bits : list nat) (i : nat) (meas : list (nat * nat)) (b : N) : N :=
  match bits with
  | [] => 0%N
  | c :: r =>
      N.lor (match find (fun qc => Nat.eqb (snd qc) c) meas with
             | Some qc => if N.testbit b (N.of_nat (fst qc)) then N.shiftl 1 (N.of_nat i) else 0%N
             | None => 0%N
             end) (reg_word r (S i) meas b)
  end.

Definition law_of_st2 (r : st2) (w : N -> N) : list (N * Q) :=
  let '(a0, a1, a2, a3) := r in
  let d := Z.to_pos (st2_norm2 r) in
  [(w 0%N, Qmake (gi_norm2 a0) d); (w 1%N, Qmake (gi_norm2 a1) d);
   (w 2%N, Qmake (gi_norm2 a2) d); (w 3%N, Qmake (gi_norm2 a3) d)].

(* Born rule for the state reached by executing the suffix; register = clbits `bits` *)
Definition law_exec2 (sem : nat -> gate2) (suffix : list instr) (bits : list nat) (s : st2) : list (N * Q) :=
  let rm := exec2 sem suffix s [] in law_of_st2 (fst rm) (reg_word bits 0 (snd rm)).

Lemma law_of_st2_expect r w f :
  Qeq (expect (law_of_st2 r w) f)
      ((gi_norm2 (st2_amp r 0) * f (w 0%N) + gi_norm2 (st2_amp r 1) * f (w 1%N)
        + gi_norm2 (st2_amp r 2) * f (w 2%N) + gi_norm2 (st2_amp r 3) * f (w 3%N))%Z # Z.to_pos (st2_norm2 r)).
Proof.
  unfold law_of_st2. destruct r as [[[a0 a1] a2] a3]. cbn [st2_amp]. apply expect4.
Qed.

Ltac eval_closed_circ :=
  repeat match goal with
         | |- context [sign_product ?a ?b] =>
             let v := eval vm_compute in (sign_product a b) in change (sign_product a b) with v
         end;
  repeat match goal with
         | |- context [recs_sign ?a] => let v := eval vm_compute in (recs_sign a) in change (recs_sign a) with v
         | |- context [circ_letters ?a ?b] =>
             let v := eval vm_compute in (circ_letters a b) in change (circ_letters a b) with v
         end.

Ltac st2_cbv2 :=
  cbv [st2_norm2 st2_amp st2_inner_re gi_norm2 app_q app_q0 app_q1 pauli_mat nth
       gH gSX gId mI mX mY mZ gi0 gi1 gii m00 m01 m10 m11 gi_add gi_mul gi_conj fst snd].

Ltac circ_case sl Hh Hs :=
  match goal with |- context [select sl ?r] => let v := eval vm_compute in r in change r with v end;
  unfold select; cbn [length seq filter];
  repeat match goal with |- context [sl ?k] => destruct (sl k) end;
  cbn [map nth];
  unfold law_exec2;
  cbv [exec2 measurement_suffix suffix_from pauli_indices_or_dummy nonid_positions nonid_from iop iqs ics nth seq length fst snd app Nat.eqb];
  rewrite ?Hh, ?Hs; rewrite law_of_st2_expect; cbv beta;
  eval_closed_circ; unfold ev_st2.

Lemma born_circuit_two_qubits sem gh gsx (s : st2) (g locs : list nat) :
  sem gh = gH -> sem gsx = gSX -> st2_nonzero s -> length g = 2 -> valid_letters g ->
  locs = [0; 1] \/ locs = [1; 0] ->
  let idx := nonid_positions g in
  let bits := seq 0 (length (pauli_indices_or_dummy idx)) in
  let suffix := measurement_suffix gh gsx g idx locs bits in
  born_circuit (ev_st2 s) 2 (readout sem (fun _ => gId) suffix) bits (law_exec2 sem suffix bits s).
Proof.
  intros Hh Hs NZ L V HL idx bits suffix sel. cbv zeta. unfold st2_nonzero in NZ.
  subst suffix. rewrite (readout_measurement_suffix sem gh gsx g idx locs bits Hh Hs). subst bits idx.
  destruct g as [|l0 [|l1 [|x r]]]; try discriminate. clear L.
  pose proof (V 0) as V0. pose proof (V 1) as V1. cbn [nth] in V0, V1. clear V.
  destruct l0 as [|[|[|[|l0]]]]; try (exfalso; lia); destruct l1 as [|[|[|[|l1]]]]; try (exfalso; lia); clear V0 V1;
    destruct HL as [-> | ->].
  all: match goal with sl : nat -> bool |- _ => circ_case sl Hh Hs end.
  all: destruct s as [[[[a0 b0] [a1 b1]] [a2 b2]] [a3 b3]];
       apply Qmake_eq_lift; [ | exact NZ | ]; revert NZ; st2_cbv2; intros NZ; try nia; try ring.
Qed.

(* hence, at circuit level on two qubits: executing the appended suffix and decoding with the recorded mask gives the
   expectation value of the member placed through qubit_locations; no physical hypothesis left *)
Lemma expectation_circuit_two_qubits sem gh gsx (s : st2) (g locs : list nat) :
  sem gh = gH -> sem gsx = gSX -> st2_nonzero s -> length g = 2 -> valid_letters g ->
  locs = [0; 1] \/ locs = [1; 0] ->
  let idx := nonid_positions g in
  let bits := seq 0 (length (pauli_indices_or_dummy idx)) in
  let suffix := measurement_suffix gh gsx g idx locs bits in
  forall m mask, member_of g m -> mask_of m idx = Some mask ->
    Qeq (expect (law_exec2 sem suffix bits s) (decode mask)) (ev_st2 s (embed_letters 2 locs m)).
Proof.
  intros Hh Hs NZ L V HL idx bits suffix m mask HM Hmask.
  apply (expectation_circuit sem gh gsx (ev_st2 s) 2 g locs bits (law_exec2 sem suffix bits s)); try assumption.
  - destruct HL as [-> | ->]; repeat constructor; simpl; intuition lia.
  - destruct HL as [-> | ->]; rewrite L; reflexivity.
  - apply seq_NoDup.
  - unfold bits. apply seq_length.
  - apply born_circuit_two_qubits; assumption.
Qed.

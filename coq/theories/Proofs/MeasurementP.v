(* Proofs/MeasurementP.v — lemmas about Model/Measurement.v, and the lemmas of C11 that connect it
   with Model/Grouping.v (decoding with the recorded bitmasks, expectation values). *)
From Coq Require Import Sorted QArith.
From CKT Require Import Common.Base Common.Circ Model.Observables Model.Grouping Model.Measurement
                        Proofs.GroupingP.
Close Scope Q_scope.

(* =========================================================================================
   registers and the instruction suffix
   ========================================================================================= *)
Lemma find_obs_creg_app_new regs bits :
  existsb fst regs = false -> find_obs_creg (regs ++ [(true, bits)]) = Some bits.
Proof.
  induction regs as [|[f b] r IH]; simpl; [reflexivity|].
  destruct f; simpl; [discriminate|]. exact IH.
Qed.

Lemma pauli_indices_or_dummy_nonempty idx : pauli_indices_or_dummy idx <> [].
Proof. destruct idx; simpl; discriminate. Qed.

Lemma pauli_indices_or_dummy_length idx :
  length (pauli_indices_or_dummy idx) = match idx with [] => 1 | _ => length idx end.
Proof. destruct idx; reflexivity. Qed.

(* the register step: a final register of exactly the needed fresh bits; nothing else changes *)
Lemma append_register_spec qc idx :
  existsb fst (mcregs qc) = false ->
  let k := length (pauli_indices_or_dummy idx) in
  append_measurement_register qc idx
    = Ok (mkMC (mnq qc) (mnc qc + k) (mcregs qc ++ [(true, seq (mnc qc) k)]) (mdata qc)) /\
  1 <= k.
Proof.
  intros H k. unfold append_measurement_register. rewrite H. split; [reflexivity|].
  unfold k. rewrite pauli_indices_or_dummy_length. destruct idx; simpl; lia.
Qed.

(* the rotation placed before the measurement of a qubit whose general letter is l *)
Definition rotation_instrs (gh gsx : nat) (l q : nat) : list instr :=
  match l with 1 => [mkI (Gate gh) [q] []] | 2 => [mkI (Gate gsx) [q] []] | _ => [] end.

Lemma suffix_from_spec gh gsx g locs bits : forall idx c,
  suffix_from gh gsx g locs bits c idx =
  flat_map (fun ci => rotation_instrs gh gsx (nth (snd ci) g 0) (nth (snd ci) locs 0)
                      ++ [mkI Measure [nth (snd ci) locs 0] [nth (fst ci) bits 0]])
           (combine (seq c (length idx)) idx).
Proof.
  induction idx as [|sub r IH]; intros c; [reflexivity|].
  cbn [suffix_from length seq combine flat_map fst snd]. rewrite IH.
  destruct (nth sub g 0) as [|[|[|l]]]; reflexivity.
Qed.

Lemma measurement_suffix_spec gh gsx g idx locs bits :
  measurement_suffix gh gsx g idx locs bits =
  flat_map (fun ci => rotation_instrs gh gsx (nth (snd ci) g 0) (nth (snd ci) locs 0)
                      ++ [mkI Measure [nth (snd ci) locs 0] [nth (fst ci) bits 0]])
           (combine (seq 0 (length (pauli_indices_or_dummy idx))) (pauli_indices_or_dummy idx)).
Proof. apply suffix_from_spec. Qed.

(* exactly one measurement per entry of pauli_indices_or_dummy, into consecutive register bits *)
Lemma suffix_measures gh gsx g idx locs bits :
  map (fun i => (iqs i, ics i)) (filter (fun i => match iop i with Measure => true | _ => false end)
                                        (measurement_suffix gh gsx g idx locs bits))
  = map (fun ci => ([nth (snd ci) locs 0], [nth (fst ci) bits 0]))
        (combine (seq 0 (length (pauli_indices_or_dummy idx))) (pauli_indices_or_dummy idx)).
Proof.
  rewrite measurement_suffix_spec.
  generalize (combine (seq 0 (length (pauli_indices_or_dummy idx))) (pauli_indices_or_dummy idx)) as l.
  induction l as [|[c s] r IH]; [reflexivity|].
  cbn [flat_map map fst snd]. rewrite filter_app, map_app, IH.
  rewrite filter_app. unfold rotation_instrs.
  destruct (nth s g 0) as [|[|[|l]]]; reflexivity.
Qed.

(* the three refusal classes of _append_measurement_circuit, in the order of the code *)
Lemma append_circuit_refuses_count_none gh gsx qc g idx :
  mnq qc <> length g -> append_measurement_circuit gh gsx qc g idx None = Refused.
Proof.
  intros H. unfold append_measurement_circuit.
  destruct (Nat.eqb_spec (mnq qc) (length g)); [contradiction|reflexivity].
Qed.

Lemma append_circuit_refuses_count_locs gh gsx qc g idx locs :
  length locs <> length g -> append_measurement_circuit gh gsx qc g idx (Some locs) = Refused.
Proof.
  intros H. unfold append_measurement_circuit.
  destruct (Nat.eqb_spec (length locs) (length g)); [contradiction|reflexivity].
Qed.

Definition count_ok (qc : mcirc) (g : list nat) (locs : option (list nat)) : Prop :=
  match locs with None => mnq qc = length g | Some l => length l = length g end.

Lemma count_ok_eqb qc g locs : count_ok qc g locs ->
  match locs with None => negb (Nat.eqb (mnq qc) (length g)) | Some l => negb (Nat.eqb (length l) (length g)) end = false.
Proof. destruct locs; simpl; intros ->; now rewrite Nat.eqb_refl. Qed.

Lemma append_circuit_refuses_no_register gh gsx qc g idx locs :
  count_ok qc g locs -> find_obs_creg (mcregs qc) = None ->
  append_measurement_circuit gh gsx qc g idx locs = Refused.
Proof.
  intros C H. unfold append_measurement_circuit. rewrite (count_ok_eqb _ _ _ C), H. reflexivity.
Qed.

Lemma append_circuit_refuses_size gh gsx qc g idx locs bits :
  count_ok qc g locs -> find_obs_creg (mcregs qc) = Some bits ->
  length bits <> length (pauli_indices_or_dummy idx) ->
  append_measurement_circuit gh gsx qc g idx locs = Refused.
Proof.
  intros C H L. unfold append_measurement_circuit. rewrite (count_ok_eqb _ _ _ C), H.
  destruct (Nat.eqb_spec (length bits) (length (pauli_indices_or_dummy idx))); [contradiction|reflexivity].
Qed.

(* a well-formed request succeeds and only appends the suffix *)
Lemma append_circuit_ok gh gsx qc g idx locs bits :
  count_ok qc g locs -> find_obs_creg (mcregs qc) = Some bits ->
  length bits = length (pauli_indices_or_dummy idx) ->
  let ls := match locs with None => seq 0 (length g) | Some l => l end in
  (forall s, In s (pauli_indices_or_dummy idx) -> s < length ls /\ nth s ls 0 < mnq qc) ->
  append_measurement_circuit gh gsx qc g idx locs
  = Ok (mkMC (mnq qc) (mnc qc) (mcregs qc) (mdata qc ++ measurement_suffix gh gsx g idx ls bits)).
Proof.
  intros C H L ls B. unfold append_measurement_circuit. rewrite (count_ok_eqb _ _ _ C), H, L, Nat.eqb_refl.
  cbn [negb]. fold ls.
  assert (E : forallb (fun sub => Nat.ltb (nth sub ls (mnq qc)) (mnq qc)) (pauli_indices_or_dummy idx) = true).
  { apply forallb_forall. intros s Hs. destruct (B s Hs) as [B1 B2]. apply Nat.ltb_lt.
    rewrite (nth_indep ls (mnq qc) 0 B1). assumption. }
  rewrite E. reflexivity.
Qed.

(* =========================================================================================
   decoding
   ========================================================================================= *)
Definition xor_list (l : list bool) : bool := fold_right xorb false l.

Lemma popcount_div2 x : popcount x = Nat.b2n (N.odd x) + popcount (N.div2 x).
Proof. destruct x as [|[p|p|]]; reflexivity. Qed.

Lemma odd_popcount : forall k x,
  (forall i, k <= i -> N.testbit x (N.of_nat i) = false) ->
  Nat.odd (popcount x) = xor_list (map (fun i => N.testbit x (N.of_nat i)) (seq 0 k)).
Proof.
  induction k as [|k IH]; intros x H.
  - assert (E : x = 0%N).
    { apply N.bits_inj_0. intros n. rewrite <- (N2Nat.id n). apply H. lia. }
    subst x. reflexivity.
  - cbn [seq map xor_list fold_right]. rewrite <- seq_shift, map_map.
    rewrite popcount_div2, Nat.odd_add.
    rewrite (IH (N.div2 x)).
    + change (N.of_nat 0) with 0%N. rewrite N.bit0_odd. f_equal.
      * destruct (N.odd x); reflexivity.
      * unfold xor_list. f_equal. apply map_ext. intros i.
        rewrite Nat2N.inj_succ. rewrite N.testbit_succ_r_div2 by apply N.le_0_l. reflexivity.
    + intros i Hi. rewrite <- N.testbit_succ_r_div2 by apply N.le_0_l.
      rewrite <- Nat2N.inj_succ. apply H. lia.
Qed.

Lemma sgn_xorb a b : sgn (xorb a b) = (sgn a * sgn b)%Z.
Proof. destruct a, b; reflexivity. Qed.

Lemma decode_sgn mask b : decode mask b = sgn (Nat.odd (popcount (N.land b mask))).
Proof. unfold decode. destruct (Nat.odd _); reflexivity. Qed.

Lemma decode_pm1 mask b : decode mask b = 1%Z \/ decode mask b = (-1)%Z.
Proof. rewrite decode_sgn. destruct (Nat.odd _); simpl; auto. Qed.

(* the dummy measurement: mask 0 decodes every outcome to +1 *)
Lemma decode_mask0 b : decode 0%N b = 1%Z.
Proof. unfold decode. rewrite N.land_0_r. reflexivity. Qed.

Lemma sign_product_filter (bit : nat -> bool) (sel : nat -> bool) l :
  sign_product bit (filter sel l) = sgn (xor_list (map (fun q => bit q && sel q) l)).
Proof.
  induction l as [|q r IH]; [reflexivity|].
  cbn [filter map xor_list fold_right]. fold (xor_list (map (fun q => bit q && sel q) r)).
  rewrite sgn_xorb, <- IH. destruct (sel q).
  - cbn [sign_product fold_right]. rewrite andb_true_r. reflexivity.
  - rewrite andb_false_r. cbn [sgn]. destruct (sign_product bit (filter sel r)); reflexivity.
Qed.

Lemma list_as_map_nth (l : list nat) : l = map (fun t => nth t l 0) (seq 0 (length l)).
Proof.
  induction l as [|x r IH]; [reflexivity|].
  cbn [length seq map nth]. f_equal. rewrite <- seq_shift, map_map. exact IH.
Qed.

Lemma outcome_bit_nth idx b t : NoDup idx -> t < length idx ->
  outcome_bit idx b (nth t idx 0) = N.testbit b (N.of_nat t).
Proof. intros ND Ht. unfold outcome_bit. now rewrite index_of_nth_NoDup. Qed.

(* parity of the masked outcome word = product of the signs of the selected qubits' bits *)
Lemma decode_sign_product idx lets mask b :
  NoDup idx -> mask_of lets idx = Some mask ->
  decode mask b = sign_product (outcome_bit idx b) (filter (nonid lets) idx).
Proof.
  intros ND HM. rewrite decode_sgn, sign_product_filter. f_equal.
  pose proof (mask_of_spec _ _ _ HM) as MS.
  rewrite (odd_popcount (length idx)).
  - set (F := fun q => outcome_bit idx b q && nonid lets q).
    replace (map F idx) with (map F (map (fun t => nth t idx 0) (seq 0 (length idx))))
      by (rewrite <- list_as_map_nth; reflexivity).
    subst F. rewrite map_map. unfold xor_list. f_equal.
    apply map_ext_in. intros t Ht. apply in_seq in Ht.
    rewrite N.land_spec, outcome_bit_nth by (assumption || lia). f_equal.
    apply eq_true_iff_eq. rewrite MS, nonid_true. split; [tauto|]. intros H; split; [lia|assumption].
  - intros i Hi. rewrite N.land_spec.
    destruct (N.testbit mask (N.of_nat i)) eqn:E; [|apply andb_false_r].
    apply MS in E. lia.
Qed.

(* support: Measurement.v's own copy of the non-identity positions *)
Lemma support_from_nonid : forall lets i, support_from i lets = nonid_from i lets.
Proof. induction lets as [|l r IH]; intros i; simpl; [reflexivity|]. now rewrite IH. Qed.

Lemma support_filter lets : support lets = filter (nonid lets) (seq 0 (length lets)).
Proof. unfold support. rewrite support_from_nonid. apply nonid_positions_filter. Qed.

Lemma filter_filter_sub {A} (f g : A -> bool) l :
  (forall x, In x l -> f x = true -> g x = true) -> filter f (filter g l) = filter f l.
Proof.
  induction l as [|x r IH]; intros H; [reflexivity|].
  cbn [filter]. destruct (g x) eqn:Eg.
  - cbn [filter]. rewrite IH; [reflexivity|]. intros y Hy. apply H. now right.
  - destruct (f x) eqn:Ef.
    + rewrite (H x (or_introl eq_refl) Ef) in Eg. discriminate.
    + apply IH. intros y Hy. apply H. now right.
Qed.

(* a member compatible with the general observable is supported inside pauli_indices *)
Definition member_of (g m : list nat) : Prop :=
  length m = length g /\ forall q, nth q m 0 = 0 \/ nth q m 0 = nth q g 0.

Lemma support_in_indices g m : member_of g m ->
  filter (nonid m) (nonid_positions g) = support m.
Proof.
  intros [L C]. rewrite nonid_positions_filter, support_filter, L.
  apply filter_filter_sub. intros q _ Hq. apply nonid_true in Hq. apply nonid_true.
  unfold letter in *. destruct (C q) as [E|E]; [contradiction|]. congruence.
Qed.

Lemma decode_member g m mask b : member_of g m ->
  mask_of m (nonid_positions g) = Some mask ->
  sign_product (outcome_bit (nonid_positions g) b) (support m) = decode mask b.
Proof.
  intros HM Hmask. rewrite <- (support_in_indices g m HM). symmetry.
  apply decode_sign_product; [apply nonid_positions_NoDup|assumption].
Qed.

(* =========================================================================================
   expectation values (under the Born/Heisenberg hypothesis, stated where it is used)
   ========================================================================================= *)
Open Scope Q_scope.

(* E_law[f] for a finitely supported outcome law [(word, probability)] *)
Definition expect (law : list (N * Q)) (f : N -> Z) : Q :=
  fold_right (fun bp acc => snd bp * inject_Z (f (fst bp)) + acc) 0 law.

Lemma expect_ext law f f' : (forall b, f b = f' b) -> expect law f = expect law f'.
Proof. intros H. induction law as [|[b p] r IH]; simpl; [reflexivity|]. now rewrite H, IH. Qed.

(* The signed Pauli string  (x)_{q in S} U_q† Z U_q  for the rotations the code appends, U_q = rotation_of g_q:
   sign and letters, identity outside S. *)
Definition heis_sign (g : list nat) (S : list nat) : Z :=
  fold_right (fun q acc => (fst (measured_letter (nth q g 0%nat)) * acc)%Z) 1%Z S.
Definition heis_letters (g : list nat) (S : list nat) : list nat :=
  map (fun q => if existsb (Nat.eqb q) S then snd (measured_letter (nth q g 0%nat)) else 0%nat) (seq 0 (length g)).

Definition valid_letters (g : list nat) : Prop := forall q, (nth q g 0 <= 3)%nat.

Close Scope Q_scope.

Lemma measured_letter_valid l : l <= 3 -> measured_letter l = (1%Z, l).
Proof. intros H. destruct l as [|[|[|[|l]]]]; try lia; vm_compute; reflexivity. Qed.

Lemma heis_sign_one g S : valid_letters g -> heis_sign g S = 1%Z.
Proof.
  intros V. induction S as [|q r IH]; [reflexivity|].
  cbn [heis_sign fold_right]. fold (heis_sign g r). rewrite IH, (measured_letter_valid _ (V q)). reflexivity.
Qed.

Lemma existsb_eqb_In q l : existsb (Nat.eqb q) l = true <-> In q l.
Proof.
  rewrite existsb_exists. split.
  - intros [x [Hx E]]. apply Nat.eqb_eq in E. now subst.
  - intros H. exists q. split; [assumption|apply Nat.eqb_refl].
Qed.

Lemma heis_letters_member g m : valid_letters g -> member_of g m ->
  heis_letters g (filter (nonid m) (nonid_positions g)) = m.
Proof.
  intros V [L C]. unfold heis_letters.
  transitivity (map (fun t => nth t m 0) (seq 0 (length m))); [|symmetry; apply list_as_map_nth].
  rewrite L.
  apply map_ext_in. intros q Hq. apply in_seq in Hq.
  rewrite (measured_letter_valid _ (V q)). cbn [snd].
  destruct (existsb (Nat.eqb q) (filter (nonid m) (nonid_positions g))) eqn:E.
  - apply existsb_eqb_In in E. apply filter_In in E as [_ E]. apply nonid_true in E.
    unfold letter in *. destruct (C q) as [E0|E0]; congruence.
  - destruct (Nat.eq_dec (nth q m 0) 0) as [E0|N0]; [congruence|].
    exfalso. assert (In q (filter (nonid m) (nonid_positions g))) as HI.
    { apply filter_In. split; [|now apply nonid_true].
      apply nonid_positions_In. unfold letter in *. split; [lia|]. destruct (C q) as [E0|E0]; congruence. }
    apply existsb_eqb_In in HI. congruence.
Qed.

Open Scope Q_scope.

(* The Born/Heisenberg hypothesis for a state functional ev, general letters g and the outcome law of the
   observable register: for every sub-selection S of the measured qubits,
       E_law[ prod_{q in S} (-1)^{b_q} ]  =  ev( (x)_{q in S} U_q† Z U_q ),
   b_q = the bit into which qubit q was measured, U_q = rotation_of g_q. *)
Definition born (ev : list nat -> Q) (g : list nat) (law : list (N * Q)) : Prop :=
  forall sel : nat -> bool,
    let idx := nonid_positions g in
    let S := filter sel idx in
    expect law (fun b => sign_product (outcome_bit idx b) S)
    == inject_Z (heis_sign g S) * ev (heis_letters g S).

Lemma expectation_member ev g law :
  born ev g law -> valid_letters g ->
  forall m mask, member_of g m -> mask_of m (nonid_positions g) = Some mask ->
    expect law (decode mask) == ev m.
Proof.
  intros B V m mask HM Hmask.
  rewrite (expect_ext law (decode mask)
             (fun b => sign_product (outcome_bit (nonid_positions g) b) (filter (nonid m) (nonid_positions g)))).
  - rewrite (B (nonid m)). rewrite heis_sign_one by assumption.
    rewrite heis_letters_member by assumption. change (inject_Z 1) with 1. ring.
  - intros b. apply decode_sign_product; [apply nonid_positions_NoDup|assumption].
Qed.

Close Scope Q_scope.

(* =========================================================================================
   A concrete instance of the hypothesis: exact two-qubit state-vector arithmetic over Z[i]
   (unnormalised amplitudes; index of an amplitude = b0 + 2 b1, qubit 0 = least significant bit).
   ========================================================================================= *)
Definition st2 := (gi * gi * gi * gi)%type.      (* amplitudes of |00>, |01>(q0=1), |10>(q1=1), |11> *)

Definition app_q0 (m : mat2) (s : st2) : st2 :=
  let '(a0, a1, a2, a3) := s in
  (gi_add (gi_mul (m00 m) a0) (gi_mul (m01 m) a1), gi_add (gi_mul (m10 m) a0) (gi_mul (m11 m) a1),
   gi_add (gi_mul (m00 m) a2) (gi_mul (m01 m) a3), gi_add (gi_mul (m10 m) a2) (gi_mul (m11 m) a3)).
Definition app_q1 (m : mat2) (s : st2) : st2 :=
  let '(a0, a1, a2, a3) := s in
  (gi_add (gi_mul (m00 m) a0) (gi_mul (m01 m) a2), gi_add (gi_mul (m00 m) a1) (gi_mul (m01 m) a3),
   gi_add (gi_mul (m10 m) a0) (gi_mul (m11 m) a2), gi_add (gi_mul (m10 m) a1) (gi_mul (m11 m) a3)).

Definition gi_norm2 (x : gi) : Z := (fst x * fst x + snd x * snd x)%Z.
Definition st2_norm2 (s : st2) : Z :=
  let '(a0, a1, a2, a3) := s in (gi_norm2 a0 + gi_norm2 a1 + gi_norm2 a2 + gi_norm2 a3)%Z.
(* real part of <s|t> *)
Definition st2_inner_re (s t : st2) : Z :=
  let '(a0, a1, a2, a3) := s in let '(b0, b1, b2, b3) := t in
  (fst (gi_mul (gi_conj a0) b0) + fst (gi_mul (gi_conj a1) b1)
   + fst (gi_mul (gi_conj a2) b2) + fst (gi_mul (gi_conj a3) b3))%Z.

(* <psi| P |psi> / <psi|psi> for a two-letter Pauli string (letters by qubit index) *)
Definition ev_st2 (s : st2) (lets : list nat) : Q :=
  let t := app_q1 (pauli_mat (nth 1 lets 0)) (app_q0 (pauli_mat (nth 0 lets 0)) s) in
  Qmake (st2_inner_re s t) (Z.to_pos (st2_norm2 s)).

(* the register word produced by basis state b (index b0 + 2 b1): bit i of the word = bit pidx[i] of b *)
Fixpoint word_of (pidx : list nat) (i : nat) (b : N) : N :=
  match pidx with
  | [] => 0%N
  | q :: r => N.lor (if N.testbit b (N.of_nat q) then N.shiftl 1 (N.of_nat i) else 0%N) (word_of r (S i) b)
  end.

(* Born rule for computational-basis measurement after the rotations chosen for the letters gc ON THE CIRCUIT'S
   QUBITS; measured: circuit qubit pq[i] -> register bit i.  Listed per basis state (equal words are summed by expect). *)
Definition law_st2_circ (s : st2) (gc : list nat) (pq : list nat) : list (N * Q) :=
  let r := app_q1 (snd (rotation_of (nth 1 gc 0))) (app_q0 (snd (rotation_of (nth 0 gc 0))) s) in
  let '(a0, a1, a2, a3) := r in
  let d := Z.to_pos (st2_norm2 r) in
  let w := word_of pq 0 in
  [(w 0%N, Qmake (gi_norm2 a0) d); (w 1%N, Qmake (gi_norm2 a1) d);
   (w 2%N, Qmake (gi_norm2 a2) d); (w 3%N, Qmake (gi_norm2 a3) d)].

(* identity qubit_locations: the law of the observable register (qubit pauli_indices_or_dummy[i] -> bit i) *)
Definition law_st2 (s : st2) (g : list nat) : list (N * Q) :=
  law_st2_circ s g (pauli_indices_or_dummy (nonid_positions g)).

(* an entangled, non-symmetric state: 2|00> + i|01> + (1+i)|10> + (1-2i)|11>   (norm^2 = 12) *)
Definition psi_ex : st2 := ((2, 0), (0, 1), (1, 1), (1, -2))%Z.

Lemma born_instance_XY : born (ev_st2 psi_ex) [1; 2] (law_st2 psi_ex [1; 2]).
Proof.
  intros sel idx S. subst S idx. change (nonid_positions [1; 2]) with [0; 1].
  cbn [filter]. destruct (sel 0), (sel 1); vm_compute; reflexivity.
Qed.

Lemma born_instance_ZX : born (ev_st2 psi_ex) [3; 1] (law_st2 psi_ex [3; 1]).
Proof.
  intros sel idx S. subst S idx. change (nonid_positions [3; 1]) with [0; 1].
  cbn [filter]. destruct (sel 0), (sel 1); vm_compute; reflexivity.
Qed.

Lemma born_instance_YY : born (ev_st2 psi_ex) [2; 2] (law_st2 psi_ex [2; 2]).
Proof.
  intros sel idx S. subst S idx. change (nonid_positions [2; 2]) with [0; 1].
  cbn [filter]. destruct (sel 0), (sel 1); vm_compute; reflexivity.
Qed.

(* instances with an identity letter, and the forced dummy measurement *)
Lemma born_instance_XI : born (ev_st2 psi_ex) [1; 0] (law_st2 psi_ex [1; 0]).
Proof.
  intros sel idx S. subst S idx. change (nonid_positions [1; 0]) with [0].
  cbn [filter]. destruct (sel 0); vm_compute; reflexivity.
Qed.

Lemma born_instance_IY : born (ev_st2 psi_ex) [0; 2] (law_st2 psi_ex [0; 2]).
Proof.
  intros sel idx S. subst S idx. change (nonid_positions [0; 2]) with [1].
  cbn [filter]. destruct (sel 1); vm_compute; reflexivity.
Qed.

Lemma born_instance_dummy : born (ev_st2 psi_ex) [0; 0] (law_st2 psi_ex [0; 0]).
Proof.
  intros sel idx S. subst S idx. change (nonid_positions [0; 0]) with (@nil nat).
  cbn [filter]. vm_compute. reflexivity.
Qed.

(* =========================================================================================
   _process_outcome: the split of the outcome word
   ========================================================================================= *)
Lemma process_outcome_split idx masks obs qpd :
  let k := N.of_nat (length (pauli_indices_or_dummy idx)) in
  (obs < 2 ^ k)%N ->
  process_outcome idx masks (obs + qpd * 2 ^ k)
  = map (fun m => (sgn (Nat.odd (popcount qpd)) * decode m obs)%Z) masks.
Proof.
  intros k H. unfold process_outcome. fold k.
  assert (P : (2 ^ k <> 0)%N) by (apply N.pow_nonzero; discriminate).
  assert (E1 : N.land (obs + qpd * 2 ^ k) (N.pred (N.shiftl 1 k)) = obs).
  { rewrite N.shiftl_1_l, <- N.ones_equiv, N.land_ones, N.mod_add by assumption. apply N.mod_small; assumption. }
  assert (E2 : N.shiftr (obs + qpd * 2 ^ k) k = qpd).
  { rewrite N.shiftr_div_pow2, N.div_add by assumption. rewrite N.div_small by assumption. reflexivity. }
  rewrite E1, E2. apply map_ext. intros m. f_equal. destruct (Nat.odd (popcount qpd)); reflexivity.
Qed.

(* =========================================================================================
   what the suffix does, with the interned gate ids interpreted as matrices
   ========================================================================================= *)
(* composition  later . earlier  of two gates M/sqrt d *)
Definition gcomp (later earlier : gate2) : gate2 :=
  ((fst later * fst earlier)%Z, mmul (snd later) (snd earlier)).
Definition upd_fun (f : nat -> gate2) (q : nat) (g : gate2) : nat -> gate2 :=
  fun x => if Nat.eqb x q then g else f x.

(* Walk an instruction list; `pending q` is the unitary applied to qubit q since its last measurement.
   A Measure q -> c emits (q, c, the signed Pauli U† Z U that this Z-measurement measures), read off the matrix. *)
Definition record := (nat * nat * option (Z * nat))%type.
Fixpoint readout (sem : nat -> gate2) (pending : nat -> gate2) (l : list instr) : list record :=
  match l with
  | [] => []
  | i :: r =>
      match iop i, iqs i, ics i with
      | Gate g, [q], _ => readout sem (upd_fun pending q (gcomp (sem g) (pending q))) r
      | Measure, [q], [c] => (q, c, signed_pauli_of (pending q) mZ) :: readout sem (upd_fun pending q gId) r
      | _, _, _ => readout sem pending r
      end
  end.

Lemma upd_fun_same f q u : upd_fun f q u q = u.
Proof. unfold upd_fun. now rewrite Nat.eqb_refl. Qed.

Lemma readout_suffix_from sem gh gsx g locs bits :
  sem gh = gH -> sem gsx = gSX ->
  forall idx c pending, (forall q, pending q = gId) ->
  readout sem pending (suffix_from gh gsx g locs bits c idx)
  = map (fun ci => (nth (snd ci) locs 0, nth (fst ci) bits 0,
                    signed_pauli_of (rotation_of (nth (snd ci) g 0)) mZ))
        (combine (seq c (length idx)) idx).
Proof.
  intros Hh Hs. induction idx as [|sub r IH]; intros c pending HP; [reflexivity|].
  cbn [suffix_from length seq combine map fst snd].
  assert (HP' : forall x (u : gate2), forall q, upd_fun (upd_fun pending x u) x gId q = gId).
  { intros x u q. unfold upd_fun. destruct (Nat.eqb q x); [reflexivity|apply HP]. }
  assert (HP'' : forall x, forall q, upd_fun pending x gId q = gId).
  { intros x q. unfold upd_fun. destruct (Nat.eqb q x); [reflexivity|apply HP]. }
  destruct (nth sub g 0) as [|[|[|l]]] eqn:El.
  - cbn [readout iop iqs ics]. rewrite HP. f_equal. apply IH. apply HP''.
  - cbn [readout iop iqs ics]. rewrite upd_fun_same, HP, Hh. f_equal.
    apply IH. apply HP'.
  - cbn [readout iop iqs ics]. rewrite upd_fun_same, HP, Hs. f_equal.
    apply IH. apply HP'.
  - cbn [readout iop iqs ics]. rewrite HP. f_equal. apply IH. apply HP''.
Qed.

Lemma readout_measurement_suffix sem gh gsx g idx locs bits :
  sem gh = gH -> sem gsx = gSX ->
  readout sem (fun _ => gId) (measurement_suffix gh gsx g idx locs bits)
  = map (fun ci => (nth (snd ci) locs 0, nth (fst ci) bits 0,
                    signed_pauli_of (rotation_of (nth (snd ci) g 0)) mZ))
        (combine (seq 0 (length (pauli_indices_or_dummy idx))) (pauli_indices_or_dummy idx)).
Proof. intros Hh Hs. apply readout_suffix_from; auto. Qed.

(* =========================================================================================
   expectation values at circuit level: the hypothesis speaks about the records read off the suffix
   ========================================================================================= *)
Definition rec_qubit (r : record) : nat := fst (fst r).
Definition rec_clbit (r : record) : nat := snd (fst r).
Definition rec_none : record := (0, 0, None).

(* sub-selection of a record list by position *)
Definition select (sel : nat -> bool) (l : list record) : list record :=
  map (fun i => nth i l rec_none) (filter sel (seq 0 (length l))).

Definition recs_sign (S : list record) : Z :=
  fold_right (fun r acc => match snd r with Some sl => (fst sl * acc)%Z | None => 0%Z end) 1%Z S.

(* the Pauli string on the circuit's qubits carried by a record list (identity where no record sits) *)
Definition circ_letters (nqc : nat) (S : list record) : list nat :=
  map (fun Q => match find (fun r => Nat.eqb (rec_qubit r) Q) S with
                | Some (_, _, Some (_, l)) => l
                | _ => 0
                end) (seq 0 nqc).

(* a subsystem Pauli string placed on the circuit's qubits through qubit_locations *)
Definition embed_letters (nqc : nat) (locs m : list nat) : list nat :=
  map (fun Q => match index_of Q locs with Some k => nth k m 0 | None => 0 end) (seq 0 nqc).

Open Scope Q_scope.
(* Born/Heisenberg hypothesis about a circuit suffix: `recs` are the (qubit, clbit, U† Z U) records of its
   measurements, `bits` the clbits of the observable register (bit i of an outcome word = clbit bits[i]),
   ev_c a state functional on Pauli strings over the circuit's nqc qubits.  For every sub-selection S of the records
      E_law[ prod_{r in S} (-1)^{bit of clbit r} ] = sign(S) * ev_c( tensor of the records' Paulis on their qubits ). *)
Definition born_circuit (ev_c : list nat -> Q) (nqc : nat) (recs : list record) (bits : list nat)
           (law : list (N * Q)) : Prop :=
  forall sel : nat -> bool,
    let S := select sel recs in
    expect law (fun b => sign_product (outcome_bit bits b) (map rec_clbit S))
    == inject_Z (recs_sign S) * ev_c (circ_letters nqc S).
Close Scope Q_scope.

Lemma map_combine_seq {B} (R : nat * nat -> B) : forall l a,
  map R (combine (seq a (length l)) l) = map (fun i => R (i, nth (i - a) l 0)) (seq a (length l)).
Proof.
  induction l as [|x r IH]; intros a; [reflexivity|].
  cbn [length seq combine map]. rewrite Nat.sub_diag. cbn [nth]. f_equal.
  rewrite IH. apply map_ext_in. intros i Hi. apply in_seq in Hi.
  replace (i - a) with (S (i - S a)) by lia. reflexivity.
Qed.

Lemma select_map_seq (f : nat -> record) sel n :
  select sel (map f (seq 0 n)) = map f (filter sel (seq 0 n)).
Proof.
  unfold select. rewrite map_length, seq_length. apply map_ext_in. intros i Hi.
  apply filter_In in Hi as [Hi _]. apply in_seq in Hi.
  rewrite (nth_indep _ rec_none (f 0)) by (rewrite map_length, seq_length; lia).
  rewrite map_nth, seq_nth by lia. reflexivity.
Qed.

Lemma sign_product_map_filter (bit : nat -> bool) (h : nat -> nat) (sel : nat -> bool) l :
  sign_product bit (map h (filter sel l)) = sgn (xor_list (map (fun i => bit (h i) && sel i) l)).
Proof.
  induction l as [|q r IH]; [reflexivity|].
  cbn [filter map xor_list fold_right]. fold (xor_list (map (fun i => bit (h i) && sel i) r)).
  rewrite sgn_xorb, <- IH. destruct (sel q).
  - cbn [map sign_product fold_right]. rewrite andb_true_r. reflexivity.
  - rewrite andb_false_r. cbn [sgn]. destruct (sign_product bit (map h (filter sel r))); reflexivity.
Qed.

Lemma pidx_nth idx i : i < length idx -> nth i (pauli_indices_or_dummy idx) 0 = nth i idx 0.
Proof. destruct idx; simpl; [lia|reflexivity]. Qed.

Lemma pidx_length_ge idx : length idx <= length (pauli_indices_or_dummy idx).
Proof. destruct idx; simpl; lia. Qed.

Lemma sp_rotation_valid l : l <= 3 ->
  signed_pauli_of (rotation_of l) mZ = Some (1%Z, if Nat.eqb l 0 then 3 else l).
Proof. intros H. destruct l as [|[|[|[|l]]]]; try lia; reflexivity. Qed.

Lemma expectation_circuit sem gh gsx (ev_c : list nat -> Q) nqc g locs bits law :
  sem gh = gH -> sem gsx = gSX ->
  valid_letters g -> NoDup locs -> length locs = length g ->
  NoDup bits -> length bits = length (pauli_indices_or_dummy (nonid_positions g)) ->
  born_circuit ev_c nqc
    (readout sem (fun _ => gId) (measurement_suffix gh gsx g (nonid_positions g) locs bits)) bits law ->
  forall m mask, member_of g m -> mask_of m (nonid_positions g) = Some mask ->
    Qeq (expect law (decode mask)) (ev_c (embed_letters nqc locs m)).
Proof.
  intros Hh Hs V NDl Ll NDb Lb B m mask HM Hmask.
  set (idx := nonid_positions g) in *.
  set (pidx := pauli_indices_or_dummy idx) in *.
  set (kp := length pidx) in *.
  rewrite (readout_measurement_suffix sem gh gsx g idx locs bits Hh Hs) in B. fold pidx kp in B.
  rewrite (map_combine_seq _ pidx 0) in B. fold kp in B. cbn [fst snd] in B.
  set (R' := fun i : nat => (nth (nth (i - 0) pidx 0) locs 0, nth i bits 0,
                             signed_pauli_of (rotation_of (nth (nth (i - 0) pidx 0) g 0)) mZ) : record) in B.
  pose proof (mask_of_spec _ _ _ Hmask) as MS. fold idx in MS.
  set (sel0 := fun i : nat => N.testbit mask (N.of_nat i)).
  specialize (B sel0). cbv zeta in B. rewrite select_map_seq in B.
  set (F := filter sel0 (seq 0 kp)) in *.
  assert (HF : forall i, In i F -> i < length idx /\ nth i pidx 0 = nth i idx 0 /\ nth (nth i idx 0) m 0 <> 0).
  { intros i Hi. apply filter_In in Hi as [_ Hi]. unfold sel0 in Hi. apply MS in Hi as [H1 H2].
    split; [assumption|]. split; [apply pidx_nth; assumption|assumption]. }
  assert (Lidx : length idx <= kp) by apply pidx_length_ge.
  destruct HM as [Lm Cm].
  assert (Gm : forall s, nth s m 0 <> 0 -> nth s g 0 = nth s m 0 /\ nth s g 0 <> 0).
  { intros s Hs0. destruct (Cm s) as [E|E]; [contradiction|]. split; congruence. }
  (* E1: decoding = product of the selected records' bits *)
  assert (E1 : forall b, decode mask b = sign_product (outcome_bit bits b) (map rec_clbit (map R' F))).
  { intros b. rewrite map_map. unfold F. rewrite sign_product_map_filter, decode_sgn. f_equal.
    rewrite (odd_popcount kp).
    - unfold xor_list. f_equal. apply map_ext_in. intros i Hi. apply in_seq in Hi.
      rewrite N.land_spec. unfold rec_clbit, R', sel0. cbn [fst snd].
      rewrite outcome_bit_nth by (assumption || lia). reflexivity.
    - intros i Hi. rewrite N.land_spec.
      destruct (N.testbit mask (N.of_nat i)) eqn:E; [|apply andb_false_r].
      apply MS in E. lia. }
  (* E2: all signs are + *)
  assert (E2g : forall l, recs_sign (map R' l) = 1%Z).
  { induction l as [|i r IHr]; [reflexivity|].
    cbn [map recs_sign fold_right]. fold (recs_sign (map R' r)). rewrite IHr.
    unfold R'. cbn [snd]. rewrite (sp_rotation_valid _ (V _)). reflexivity. }
  pose proof (E2g F) as E2.
  (* E3: the selected records carry exactly the member, placed through qubit_locations *)
  assert (E3 : circ_letters nqc (map R' F) = embed_letters nqc locs m).
  { unfold circ_letters, embed_letters. apply map_ext_in. intros Q _.
    destruct (find (fun r => Nat.eqb (rec_qubit r) Q) (map R' F)) as [r|] eqn:Ef.
    - apply find_some in Ef as [Hin Hq]. apply in_map_iff in Hin as [i [Hr Hi]].
      destruct (HF i Hi) as (H1 & H2 & H3). destruct (Gm _ H3) as [G1 G2].
      subst r. unfold R', rec_qubit in *. cbn [fst snd] in *. rewrite Nat.sub_0_r in *.
      rewrite H2 in *. apply Nat.eqb_eq in Hq.
      assert (Hs1 : nth i idx 0 < length locs).
      { rewrite Ll. apply (nonid_positions_In g). apply nth_In. assumption. }
      rewrite (sp_rotation_valid _ (V _)).
      destruct (Nat.eqb_spec (nth (nth i idx 0) g 0) 0) as [E0|_]; [contradiction|].
      rewrite <- Hq, (index_of_nth_NoDup locs _ NDl Hs1). assumption.
    - destruct (index_of Q locs) as [k|] eqn:Ek.
      + apply index_of_Some in Ek as [Hk Hq].
        destruct (Nat.eq_dec (nth k m 0) 0) as [E0|N0]; [now rewrite E0; destruct (find _ _) as [[[? ?] [[? ?]|]]|]|].
        exfalso. destruct (Gm _ N0) as [G1 G2].
        assert (Hin : In k idx). { apply nonid_positions_In. unfold letter in *. split; [lia|assumption]. }
        apply In_nth with (d := 0) in Hin as [i [Hi Hik]].
        assert (HiF : In i F).
        { apply filter_In. split; [apply in_seq; lia|]. unfold sel0. apply MS. rewrite Hik. auto. }
        pose proof (find_none _ _ Ef (R' i) (in_map R' F i HiF)) as Hne.
        unfold R', rec_qubit in Hne. cbn [fst] in Hne. pose proof (pidx_nth idx i Hi) as Hp. fold pidx in Hp.
        rewrite Nat.sub_0_r, Hp, Hik, Hq in Hne.
        rewrite Nat.eqb_refl in Hne. discriminate.
      + reflexivity. }
  rewrite (expect_ext law (decode mask) _ E1), B, E2, E3. change (inject_Z 1) with 1%Q. ring.
Qed.

(* a concrete instance of the circuit-level hypothesis: general observable XY on the subsystem,
   qubit_locations = [1; 0] (subsystem qubit 0 sits on circuit qubit 1), register bits [0; 1],
   gate id 7 = H, every other id = SX; the law is computed from the state vector after H on circuit qubit 1 and
   SX on circuit qubit 0, reading circuit qubit 1 into bit 0 and circuit qubit 0 into bit 1 *)
Definition sem_ex (id : nat) : gate2 := if Nat.eqb id 7 then gH else gSX.

Lemma born_circuit_instance :
  born_circuit (ev_st2 psi_ex) 2
    (readout sem_ex (fun _ => gId) (measurement_suffix 7 9 [1; 2] (nonid_positions [1; 2]) [1; 0] [0; 1]))
    [0; 1] (law_st2_circ psi_ex [2; 1] [1; 0]).
Proof.
  intros sel S. subst S. unfold select.
  change (length (readout sem_ex (fun _ => gId) (measurement_suffix 7 9 [1; 2] (nonid_positions [1; 2]) [1; 0] [0; 1]))) with 2.
  cbn [seq filter]. destruct (sel 0), (sel 1); vm_compute; reflexivity.
Qed.

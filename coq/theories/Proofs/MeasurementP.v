(* Proofs/MeasurementP.v — lemmas about Model/Measurement.v, and the lemmas of C11 that connect it
   with Model/Grouping.v (decoding with the recorded bitmasks, expectation values). *)
From Coq Require Import Sorted QArith.
From CKT Require Import Common.Base Common.Circ Model.Observables Model.Grouping Model.Measurement
                        Proofs.GroupingP.
Close Scope Q_scope.

(* =========================================================================================
   registers and the instruction suffix
   ========================================================================================= *)
Lemma find_obs_creg_app_new regs bits :
  existsb fst regs = false -> find_obs_creg (regs ++ [(true, bits)]) = Some bits.
Proof.
  induction regs as [|[f b] r IH]; simpl; [reflexivity|].
  destruct f; simpl; [discriminate|]. exact IH.
Qed.

Lemma pauli_indices_or_dummy_nonempty idx : pauli_indices_or_dummy idx <> [].
Proof. destruct idx; simpl; discriminate. Qed.

Lemma pauli_indices_or_dummy_length idx :
  length (pauli_indices_or_dummy idx) = match idx with [] => 1 | _ => length idx end.
Proof. destruct idx; reflexivity. Qed.

(* the register step: a final register of exactly the needed fresh bits; nothing else changes *)
Lemma append_register_spec qc idx :
  existsb fst (mcregs qc) = false ->
  let k := length (pauli_indices_or_dummy idx) in
  append_measurement_register qc idx
    = Ok (mkMC (mnq qc) (mnc qc + k) (mcregs qc ++ [(true, seq (mnc qc) k)]) (mdata qc)) /\
  1 <= k.
Proof.
  intros H k. unfold append_measurement_register. rewrite H. split; [reflexivity|].
  unfold k. rewrite pauli_indices_or_dummy_length. destruct idx; simpl; lia.
Qed.

(* the rotation placed before the measurement of a qubit whose general letter is l *)
Definition rotation_instrs (gh gsx : nat) (l q : nat) : list instr :=
  match l with 1 => [mkI (Gate gh) [q] []] | 2 => [mkI (Gate gsx) [q] []] | _ => [] end.

Lemma suffix_from_spec gh gsx g locs bits : forall idx c,
  suffix_from gh gsx g locs bits c idx =
  flat_map (fun ci => rotation_instrs gh gsx (nth (snd ci) g 0) (nth (snd ci) locs 0)
                      ++ [mkI Measure [nth (snd ci) locs 0] [nth (fst ci) bits 0]])
           (combine (seq c (length idx)) idx).
Proof.
  induction idx as [|sub r IH]; intros c; [reflexivity|].
  cbn [suffix_from length seq combine flat_map fst snd]. rewrite IH.
  destruct (nth sub g 0) as [|[|[|l]]]; reflexivity.
Qed.

Lemma measurement_suffix_spec gh gsx g idx locs bits :
  measurement_suffix gh gsx g idx locs bits =
  flat_map (fun ci => rotation_instrs gh gsx (nth (snd ci) g 0) (nth (snd ci) locs 0)
                      ++ [mkI Measure [nth (snd ci) locs 0] [nth (fst ci) bits 0]])
           (combine (seq 0 (length (pauli_indices_or_dummy idx))) (pauli_indices_or_dummy idx)).
Proof. apply suffix_from_spec. Qed.

(* exactly one measurement per entry of pauli_indices_or_dummy, into consecutive register bits *)
Lemma suffix_measures gh gsx g idx locs bits :
  map (fun i => (iqs i, ics i)) (filter (fun i => match iop i with Measure => true | _ => false end)
                                        (measurement_suffix gh gsx g idx locs bits))
  = map (fun ci => ([nth (snd ci) locs 0], [nth (fst ci) bits 0]))
        (combine (seq 0 (length (pauli_indices_or_dummy idx))) (pauli_indices_or_dummy idx)).
Proof.
  rewrite measurement_suffix_spec.
  generalize (combine (seq 0 (length (pauli_indices_or_dummy idx))) (pauli_indices_or_dummy idx)) as l.
  induction l as [|[c s] r IH]; [reflexivity|].
  cbn [flat_map map fst snd]. rewrite filter_app, map_app, IH.
  rewrite filter_app. unfold rotation_instrs.
  destruct (nth s g 0) as [|[|[|l]]]; reflexivity.
Qed.

(* the three refusal classes of _append_measurement_circuit, in the order of the code *)
Lemma append_circuit_refuses_count_none gh gsx qc g idx :
  mnq qc <> length g -> append_measurement_circuit gh gsx qc g idx None = Refused.
Proof.
  intros H. unfold append_measurement_circuit.
  destruct (Nat.eqb_spec (mnq qc) (length g)); [contradiction|reflexivity].
Qed.

Lemma append_circuit_refuses_count_locs gh gsx qc g idx locs :
  length locs <> length g -> append_measurement_circuit gh gsx qc g idx (Some locs) = Refused.
Proof.
  intros H. unfold append_measurement_circuit.
  destruct (Nat.eqb_spec (length locs) (length g)); [contradiction|reflexivity].
Qed.

Definition count_ok (qc : mcirc) (g : list nat) (locs : option (list nat)) : Prop :=
  match locs with None => mnq qc = length g | Some l => length l = length g end.

Lemma count_ok_eqb qc g locs : count_ok qc g locs ->
  match locs with None => negb (Nat.eqb (mnq qc) (length g)) | Some l => negb (Nat.eqb (length l) (length g)) end = false.
Proof. destruct locs; simpl; intros ->; now rewrite Nat.eqb_refl. Qed.

Lemma append_circuit_refuses_no_register gh gsx qc g idx locs :
  count_ok qc g locs -> find_obs_creg (mcregs qc) = None ->
  append_measurement_circuit gh gsx qc g idx locs = Refused.
Proof.
  intros C H. unfold append_measurement_circuit. rewrite (count_ok_eqb _ _ _ C), H. reflexivity.
Qed.

Lemma append_circuit_refuses_size gh gsx qc g idx locs bits :
  count_ok qc g locs -> find_obs_creg (mcregs qc) = Some bits ->
  length bits <> length (pauli_indices_or_dummy idx) ->
  append_measurement_circuit gh gsx qc g idx locs = Refused.
Proof.
  intros C H L. unfold append_measurement_circuit. rewrite (count_ok_eqb _ _ _ C), H.
  destruct (Nat.eqb_spec (length bits) (length (pauli_indices_or_dummy idx))); [contradiction|reflexivity].
Qed.

(* a well-formed request succeeds and only appends the suffix *)
Lemma append_circuit_ok gh gsx qc g idx locs bits :
  count_ok qc g locs -> find_obs_creg (mcregs qc) = Some bits ->
  length bits = length (pauli_indices_or_dummy idx) ->
  let ls := match locs with None => seq 0 (length g) | Some l => l end in
  (forall s, In s (pauli_indices_or_dummy idx) -> s < length ls /\ nth s ls 0 < mnq qc) ->
  append_measurement_circuit gh gsx qc g idx locs
  = Ok (mkMC (mnq qc) (mnc qc) (mcregs qc) (mdata qc ++ measurement_suffix gh gsx g idx ls bits)).
Proof.
  intros C H L ls B. unfold append_measurement_circuit. rewrite (count_ok_eqb _ _ _ C), H, L, Nat.eqb_refl.
  cbn [negb]. fold ls.
  assert (E : forallb (fun sub => Nat.ltb (nth sub ls (mnq qc)) (mnq qc)) (pauli_indices_or_dummy idx) = true).
  { apply forallb_forall. intros s Hs. destruct (B s Hs) as [B1 B2]. apply Nat.ltb_lt.
    rewrite (nth_indep ls (mnq qc) 0 B1). assumption. }
  rewrite E. reflexivity.
Qed.

(* =========================================================================================
   decoding
   ========================================================================================= *)
Definition xor_list (l : list bool) : bool := fold_right xorb false l.

Lemma popcount_div2 x : popcount x = Nat.b2n (N.odd x) + popcount (N.div2 x).
Proof. destruct x as [|[p|p|]]; reflexivity. Qed.

Lemma odd_popcount : forall k x,
  (forall i, k <= i -> N.testbit x (N.of_nat i) = false) ->
  Nat.odd (popcount x) = xor_list (map (fun i => N.testbit x (N.of_nat i)) (seq 0 k)).
Proof.
  induction k as [|k IH]; intros x H.
  - assert (E : x = 0%N).
    { apply N.bits_inj_0. intros n. rewrite <- (N2Nat.id n). apply H. lia. }
    subst x. reflexivity.
  - cbn [seq map xor_list fold_right]. rewrite <- seq_shift, map_map.
    rewrite popcount_div2, Nat.odd_add.
    rewrite (IH (N.div2 x)).
    + change (N.of_nat 0) with 0%N. rewrite N.bit0_odd. f_equal.
      * destruct (N.odd x); reflexivity.
      * unfold xor_list. f_equal. apply map_ext. intros i.
        rewrite Nat2N.inj_succ. rewrite N.testbit_succ_r_div2 by apply N.le_0_l. reflexivity.
    + intros i Hi. rewrite <- N.testbit_succ_r_div2 by apply N.le_0_l.
      rewrite <- Nat2N.inj_succ. apply H. lia.
Qed.

Lemma sgn_xorb a b : sgn (xorb a b) = (sgn a * sgn b)%Z.
Proof. destruct a, b; reflexivity. Qed.

Lemma decode_sgn mask b : decode mask b = sgn (Nat.odd (popcount (N.land b mask))).
Proof. unfold decode. destruct (Nat.odd _); reflexivity. Qed.

Lemma decode_pm1 mask b : decode mask b = 1%Z \/ decode mask b = (-1)%Z.
Proof. rewrite decode_sgn. destruct (Nat.odd _); simpl; auto. Qed.

(* the dummy measurement: mask 0 decodes every outcome to +1 *)
Lemma decode_mask0 b : decode 0%N b = 1%Z.
Proof. unfold decode. rewrite N.land_0_r. reflexivity. Qed.

Lemma sign_product_filter (bit : nat -> bool) (sel : nat -> bool) l :
  sign_product bit (filter sel l) = sgn (xor_list (map (fun q => bit q && sel q) l)).
Proof.
  induction l as [|q r IH]; [reflexivity|].
  cbn [filter map xor_list fold_right]. fold (xor_list (map (fun q => bit q && sel q) r)).
  rewrite sgn_xorb, <- IH. destruct (sel q).
  - cbn [sign_product fold_right]. rewrite andb_true_r. reflexivity.
  - rewrite andb_false_r. cbn [sgn]. destruct (sign_product bit (filter sel r)); reflexivity.
Qed.

Lemma list_as_map_nth (l : list nat) : l = map (fun t => nth t l 0) (seq 0 (length l)).
Proof.
  induction l as [|x r IH]; [reflexivity|].
  cbn [length seq map nth]. f_equal. rewrite <- seq_shift, map_map. exact IH.
Qed.

Lemma outcome_bit_nth idx b t : NoDup idx -> t < length idx ->
  outcome_bit idx b (nth t idx 0) = N.testbit b (N.of_nat t).
Proof. intros ND Ht. unfold outcome_bit. now rewrite index_of_nth_NoDup. Qed.

(* parity of the masked outcome word = product of the signs of the selected qubits' bits *)
Lemma decode_sign_product idx lets mask b :
  NoDup idx -> mask_of lets idx = Some mask ->
  decode mask b = sign_product (outcome_bit idx b) (filter (nonid lets) idx).
Proof.
  intros ND HM. rewrite decode_sgn, sign_product_filter. f_equal.
  pose proof (mask_of_spec _ _ _ HM) as MS.
  rewrite (odd_popcount (length idx)).
  - set (F := fun q => outcome_bit idx b q && nonid lets q).
    replace (map F idx) with (map F (map (fun t => nth t idx 0) (seq 0 (length idx))))
      by (rewrite <- list_as_map_nth; reflexivity).
    subst F. rewrite map_map. unfold xor_list. f_equal.
    apply map_ext_in. intros t Ht. apply in_seq in Ht.
    rewrite N.land_spec, outcome_bit_nth by (assumption || lia). f_equal.
    apply eq_true_iff_eq. rewrite MS, nonid_true. split; [tauto|]. intros H; split; [lia|assumption].
  - intros i Hi. rewrite N.land_spec.
    destruct (N.testbit mask (N.of_nat i)) eqn:E; [|apply andb_false_r].
    apply MS in E. lia.
Qed.

(* support: Measurement.v's own copy of the non-identity positions *)
Lemma support_from_nonid : forall lets i, support_from i lets = nonid_from i lets.
Proof. induction lets as [|l r IH]; intros i; simpl; [reflexivity|]. now rewrite IH. Qed.

Lemma support_filter lets : support lets = filter (nonid lets) (seq 0 (length lets)).
Proof. unfold support. rewrite support_from_nonid. apply nonid_positions_filter. Qed.

Lemma filter_filter_sub {A} (f g : A -> bool) l :
  (forall x, In x l -> f x = true -> g x = true) -> filter f (filter g l) = filter f l.
Proof.
  induction l as [|x r IH]; intros H; [reflexivity|].
  cbn [filter]. destruct (g x) eqn:Eg.
  - cbn [filter]. rewrite IH; [reflexivity|]. intros y Hy. apply H. now right.
  - destruct (f x) eqn:Ef.
    + rewrite (H x (or_introl eq_refl) Ef) in Eg. discriminate.
    + apply IH. intros y Hy. apply H. now right.
Qed.

(* a member compatible with the general observable is supported inside pauli_indices *)
Definition member_of (g m : list nat) : Prop :=
  length m = length g /\ forall q, nth q m 0 = 0 \/ nth q m 0 = nth q g 0.

Lemma support_in_indices g m : member_of g m ->
  filter (nonid m) (nonid_positions g) = support m.
Proof.
  intros [L C]. rewrite nonid_positions_filter, support_filter, L.
  apply filter_filter_sub. intros q _ Hq. apply nonid_true in Hq. apply nonid_true.
  unfold letter in *. destruct (C q) as [E|E]; [contradiction|]. congruence.
Qed.

Lemma decode_member g m mask b : member_of g m ->
  mask_of m (nonid_positions g) = Some mask ->
  sign_product (outcome_bit (nonid_positions g) b) (support m) = decode mask b.
Proof.
  intros HM Hmask. rewrite <- (support_in_indices g m HM). symmetry.
  apply decode_sign_product; [apply nonid_positions_NoDup|assumption].
Qed.

(* =========================================================================================
   expectation values (under the Born/Heisenberg hypothesis, stated where it is used)
   ========================================================================================= *)
Open Scope Q_scope.

(* E_law[f] for a finitely supported outcome law [(word, probability)] *)
Definition expect (law : list (N * Q)) (f : N -> Z) : Q :=
  fold_right (fun bp acc => snd bp * inject_Z (f (fst bp)) + acc) 0 law.

Lemma expect_ext law f f' : (forall b, f b = f' b) -> expect law f = expect law f'.
Proof. intros H. induction law as [|[b p] r IH]; simpl; [reflexivity|]. now rewrite H, IH. Qed.

(* The signed Pauli string  (x)_{q in S} U_q† Z U_q  for the rotations the code appends, U_q = rotation_of g_q:
   sign and letters, identity outside S. *)
Definition heis_sign (g : list nat) (S : list nat) : Z :=
  fold_right (fun q acc => (fst (measured_letter (nth q g 0%nat)) * acc)%Z) 1%Z S.
Definition heis_letters (g : list nat) (S : list nat) : list nat :=
  map (fun q => if existsb (Nat.eqb q) S then snd (measured_letter (nth q g 0%nat)) else 0%nat) (seq 0 (length g)).

Definition valid_letters (g : list nat) : Prop := forall q, (nth q g 0 <= 3)%nat.

Close Scope Q_scope.

Lemma measured_letter_valid l : l <= 3 -> measured_letter l = (1%Z, l).
Proof. intros H. destruct l as [|[|[|[|l]]]]; try lia; vm_compute; reflexivity. Qed.

Lemma heis_sign_one g S : valid_letters g -> heis_sign g S = 1%Z.
Proof.
  intros V. induction S as [|q r IH]; [reflexivity|].
  cbn [heis_sign fold_right]. fold (heis_sign g r). rewrite IH, (measured_letter_valid _ (V q)). reflexivity.
Qed.

Lemma existsb_eqb_In q l : existsb (Nat.eqb q) l = true <-> In q l.
Proof.
  rewrite existsb_exists. split.
  - intros [x [Hx E]]. apply Nat.eqb_eq in E. now subst.
  - intros H. exists q. split; [assumption|apply Nat.eqb_refl].
Qed.

Lemma heis_letters_member g m : valid_letters g -> member_of g m ->
  heis_letters g (filter (nonid m) (nonid_positions g)) = m.
Proof.
  intros V [L C]. unfold heis_letters.
  transitivity (map (fun t => nth t m 0) (seq 0 (length m))); [|symmetry; apply list_as_map_nth].
  rewrite L.
  apply map_ext_in. intros q Hq. apply in_seq in Hq.
  rewrite (measured_letter_valid _ (V q)). cbn [snd].
  destruct (existsb (Nat.eqb q) (filter (nonid m) (nonid_positions g))) eqn:E.
  - apply existsb_eqb_In in E. apply filter_In in E as [_ E]. apply nonid_true in E.
    unfold letter in *. destruct (C q) as [E0|E0]; congruence.
  - destruct (Nat.eq_dec (nth q m 0) 0) as [E0|N0]; [congruence|].
    exfalso. assert (In q (filter (nonid m) (nonid_positions g))) as HI.
    { apply filter_In. split; [|now apply nonid_true].
      apply nonid_positions_In. unfold letter in *. split; [lia|]. destruct (C q) as [E0|E0]; congruence. }
    apply existsb_eqb_In in HI. congruence.
Qed.

Open Scope Q_scope.

(* The Born/Heisenberg hypothesis for a state functional ev, general letters g and the outcome law of the
   observable register: for every sub-selection S of the measured qubits,
       E_law[ prod_{q in S} (-1)^{b_q} ]  =  ev( (x)_{q in S} U_q† Z U_q ),
   b_q = the bit into which qubit q was measured, U_q = rotation_of g_q. *)
Definition born (ev : list nat -> Q) (g : list nat) (law : list (N * Q)) : Prop :=
  forall sel : nat -> bool,
    let idx := nonid_positions g in
    let S := filter sel idx in
    expect law (fun b => sign_product (outcome_bit idx b) S)
    == inject_Z (heis_sign g S) * ev (heis_letters g S).

Lemma expectation_member ev g law :
  born ev g law -> valid_letters g ->
  forall m mask, member_of g m -> mask_of m (nonid_positions g) = Some mask ->
    expect law (decode mask) == ev m.
Proof.
  intros B V m mask HM Hmask.
  rewrite (expect_ext law (decode mask)
             (fun b => sign_product (outcome_bit (nonid_positions g) b) (filter (nonid m) (nonid_positions g)))).
  - rewrite (B (nonid m)). rewrite heis_sign_one by assumption.
    rewrite heis_letters_member by assumption. change (inject_Z 1) with 1. ring.
  - intros b. apply decode_sign_product; [apply nonid_positions_NoDup|assumption].
Qed.

Close Scope Q_scope.

(* =========================================================================================
   A concrete instance of the hypothesis: exact two-qubit state-vector arithmetic over Z[i]
   (unnormalised amplitudes; index of an amplitude = b0 + 2 b1, qubit 0 = least significant bit).
   ========================================================================================= *)
Definition st2 := (gi * gi * gi * gi)%type.      (* amplitudes of |00>, |01>(q0=1), |10>(q1=1), |11> *)

Definition app_q0 (m : mat2) (s : st2) : st2 :=
  let '(a0, a1, a2, a3) := s in
  (gi_add (gi_mul (m00 m) a0) (gi_mul (m01 m) a1), gi_add (gi_mul (m10 m) a0) (gi_mul (m11 m) a1),
   gi_add (gi_mul (m00 m) a2) (gi_mul (m01 m) a3), gi_add (gi_mul (m10 m) a2) (gi_mul (m11 m) a3)).
Definition app_q1 (m : mat2) (s : st2) : st2 :=
  let '(a0, a1, a2, a3) := s in
  (gi_add (gi_mul (m00 m) a0) (gi_mul (m01 m) a2), gi_add (gi_mul (m00 m) a1) (gi_mul (m01 m) a3),
   gi_add (gi_mul (m10 m) a0) (gi_mul (m11 m) a2), gi_add (gi_mul (m10 m) a1) (gi_mul (m11 m) a3)).

Definition gi_norm2 (x : gi) : Z := (fst x * fst x + snd x * snd x)%Z.
Definition st2_norm2 (s : st2) : Z :=
  let '(a0, a1, a2, a3) := s in (gi_norm2 a0 + gi_norm2 a1 + gi_norm2 a2 + gi_norm2 a3)%Z.
(* real part of <s|t> *)
Definition st2_inner_re (s t : st2) : Z :=
  let '(a0, a1, a2, a3) := s in let '(b0, b1, b2, b3) := t in
  (fst (gi_mul (gi_conj a0) b0) + fst (gi_mul (gi_conj a1) b1)
   + fst (gi_mul (gi_conj a2) b2) + fst (gi_mul (gi_conj a3) b3))%Z.

(* <psi| P |psi> / <psi|psi> for a two-letter Pauli string (letters by qubit index) *)
Definition ev_st2 (s : st2) (lets : list nat) : Q :=
  let t := app_q1 (pauli_mat (nth 1 lets 0)) (app_q0 (pauli_mat (nth 0 lets 0)) s) in
  Qmake (st2_inner_re s t) (Z.to_pos (st2_norm2 s)).

(* Born rule for computational-basis measurement of both qubits after the rotations chosen for g;
   with pauli_indices = [0; 1] the register word is the basis index *)
Definition law_st2 (s : st2) (g : list nat) : list (N * Q) :=
  let r := app_q1 (snd (rotation_of (nth 1 g 0))) (app_q0 (snd (rotation_of (nth 0 g 0))) s) in
  let '(a0, a1, a2, a3) := r in
  let d := Z.to_pos (st2_norm2 r) in
  [(0%N, Qmake (gi_norm2 a0) d); (1%N, Qmake (gi_norm2 a1) d);
   (2%N, Qmake (gi_norm2 a2) d); (3%N, Qmake (gi_norm2 a3) d)].

(* an entangled, non-symmetric state: 2|00> + i|01> + (1+i)|10> + (1-2i)|11>   (norm^2 = 12) *)
Definition psi_ex : st2 := ((2, 0), (0, 1), (1, 1), (1, -2))%Z.

Lemma born_instance_XY : born (ev_st2 psi_ex) [1; 2] (law_st2 psi_ex [1; 2]).
Proof.
  intros sel idx S. subst S idx. change (nonid_positions [1; 2]) with [0; 1].
  cbn [filter]. destruct (sel 0), (sel 1); vm_compute; reflexivity.
Qed.

Lemma born_instance_ZX : born (ev_st2 psi_ex) [3; 1] (law_st2 psi_ex [3; 1]).
Proof.
  intros sel idx S. subst S idx. change (nonid_positions [3; 1]) with [0; 1].
  cbn [filter]. destruct (sel 0), (sel 1); vm_compute; reflexivity.
Qed.

Lemma born_instance_YY : born (ev_st2 psi_ex) [2; 2] (law_st2 psi_ex [2; 2]).
Proof.
  intros sel idx S. subst S idx. change (nonid_positions [2; 2]) with [0; 1].
  cbn [filter]. destruct (sel 0), (sel 1); vm_compute; reflexivity.
Qed.

(* Proofs/CutFinderP.v — assembly: what find_cuts returns, in terms of the declarative notions of
   Proofs/CutFinderSpec.v. *)
From Coq Require Import QArith Relations Lia.
From CKT Require Import Model.CutFinder Proofs.UFP Proofs.ConnP Proofs.CutFinderSpec Proofs.CutFinderInv
  Proofs.CutFinderPlan Proofs.CutFinderSearchP Proofs.CutFinderOut Proofs.CutFinderCirc Proofs.CutFinderRender.
Close Scope Q_scope.

Lemma map_fst_combine {A B} (l : list A) (l' : list B) : length l = length l' -> map fst (combine l l') = l.
Proof.
  revert l'; induction l as [|x l IH]; intros [|y l'] H; simpl in *; try lia; auto. f_equal. apply IH. lia.
Qed.

Lemma in_plan_actions P n g : In (n, g) (plan_actions P) ->
  exists kd, In (g, kd) P /\ kind_names kd g = [(n, g)].
Proof.
  induction P as [|[g0 kd] P IH]; intros H; [destruct H|].
  cbn [plan_actions] in H. apply in_app_or in H as [H|H].
  - exists kd. destruct kd; cbn in H; [destruct H| | | |];
      (destruct H as [H|H]; [|contradiction]); inversion H; subst; (split; [now left|reflexivity]).
  - destruct (IH H) as (kd' & H1 & H2). exists kd'. split; [now right|exact H2].
Qed.

Lemma in_wires P j n : In (j, n) (wires P) ->
  exists g kd, In (g, kd) P /\ g_inst g = j /\ kd <> Leave /\ kd <> KGateCut /\
    n = match kd with KLeftCut => CutLeftWire | KRightCut => CutRightWire | _ => CutBothWires end.
Proof.
  induction P as [|[g kd] P IH]; intros H; [destruct H|].
  unfold wires in H; cbn [flat_map snd] in H; fold (wires P) in H. apply in_app_or in H as [H|H].
  - exists g, kd. destruct kd; cbn in H; [destruct H|destruct H| | |];
      (destruct H as [H|H]; [|contradiction]); inversion H; subst;
      (split; [now left|]); repeat split; try discriminate; reflexivity.
  - destruct (IH H) as (g' & kd' & H1 & H2). exists g', kd'. split; [now right|exact H2].
Qed.

Lemma pfun_in P k0 k : incr_from k0 (map ginst P) -> pfun P k <> Leave ->
  exists g, In (g, pfun P k) P /\ g_inst g = k.
Proof.
  intros _ H. unfold pfun in *. destruct (List.find _ P) as [[g kd]|] eqn:E; [|congruence].
  apply find_some in E as [E1 E2]. apply Nat.eqb_eq in E2. unfold ginst in E2; simpl in E2. exists g; split; auto.
Qed.

Lemma search_actions_permitted gate_lo wire_lo k : In k (search_actions gate_lo wire_lo) ->
  match kind_of k with
  | Leave => True
  | KGateCut => gate_lo = true
  | _ => wire_lo = true
  end.
Proof. destruct gate_lo, wire_lo, k; cbn; intuition discriminate. Qed.

(* the facts about a successful call that all C07 theorems rest on *)
Theorem find_cuts_sound fuel i r :
  find_cuts_full fuel i = Val r -> circ_wf (fi_circ i) ->
  let t := fi_gtab i in let c := fi_circ i in
  let names := names_of (fi_nq i) t c in let gates := gates_of (fi_nq i) t c in
  let acts := search_actions (fi_gate_lo i) (fi_wire_lo i) in
  exists pl M,
    Inv names (fi_W i) gates acts M (fr_best r) pl /\ length pl = length gates /\ 1 <= fi_W i /\
    fr_circ r = render t (pfun (combine gates pl)) c /\
    md_cuts (fr_meta r) = scan_cuts 0 (fr_circ r) /\
    md_overhead (fr_meta r) = Qmult (gamma_UB (fr_best r)) (gamma_UB (fr_best r)).
Proof.
  intros H WFc t c names gates acts. unfold find_cuts_full in H.
  destruct (Nat.ltb_spec (fi_W i) 1) as [|HW]; [discriminate|].
  destruct (negb (settings_ok i)); [discriminate|].
  destruct (iface_init_fields (fi_nq i) t c) as [Ecirc Enq]. fold t c in H.
  rewrite Ecirc, Enq in H. fold names in H.
  change (get_multiqubit_gates (snd (sgl_init [] (qc_to_cco (fi_nq i) t c)))) with gates in H.
  fold acts in H.
  set (fa := {| fa_gates := gates; fa_actions := acts; fa_W := fi_W i |}) in *.
  destruct (optimize _ fa _ _ _ _) as [ro| | |] eqn:Eopt; cbn [obind] in H; try discriminate.
  destruct (or_best ro) as [best|] eqn:Ebest; [|discriminate].
  destruct (gates_of_circ (fi_nq i) t c) as (NDn & Hincg & Hgspec & Hgall). fold names gates in NDn, Hincg, Hgspec, Hgall.
  pose proof (gates_wf (fi_nq i) t c WFc) as Hgwf. fold names gates in Hgwf.
  destruct (optimize_good names (fi_W i) HW NDn gates Hgwf fa eq_refl eq_refl acts eq_refl _ _ _ _ _ Eopt) as [_ Hbest].
  destruct (Hbest best Ebest) as [[M [pl I]] Hgoal].
  destruct (export_cuts best _) as [f1| | |]; cbn [obind] in H; try discriminate.
  destruct (Nat.eqb (fi_ncl i) 0); cbn [negb] in H; [|discriminate].
  set (A := actions best) in *.
  destruct (cut_gates t c _) as [c1| | |] eqn:Ecg; cbn [obind] in H; try discriminate.
  destruct (insert_wire_cuts c c1 0 _) as [c2| | |] eqn:Eiw; cbn [obind] in H; try discriminate.
  inversion H; subst r; clear H. cbn [fr_circ fr_meta fr_best md_cuts md_overhead].
  assert (Hlen : length pl = length gates).
  { pose proof (inv_len _ _ _ _ _ _ _ I). pose proof (inv_lvl _ _ _ _ _ _ _ I).
    unfold goal_state in Hgoal. cbn [fa fa_gates] in Hgoal. apply Nat.leb_le in Hgoal. lia. }
  exists pl, M. split; [exact I|]. split; [exact Hlen|]. split; [exact HW|]. split; [|split; reflexivity].
  set (P := combine gates pl).
  assert (HginstP : map ginst P = map g_inst gates).
  { unfold ginst. rewrite <- map_map. unfold P. rewrite map_fst_combine by lia. reflexivity. }
  assert (HincP : incr_from 0 (map ginst P)) by (rewrite HginstP; exact Hincg).
  assert (HinP : forall g kd, In (g, kd) P -> In g gates) by (intros g kd Hin; eapply in_combine_l; exact Hin).
  destruct (acts_split P A (inv_acts _ _ _ _ _ _ _ I)) as [Hgids Hwires].
  (* cut_gates *)
  assert (Ec1 : c1 = wrapmap t (pfun P) 0 c).
  { destruct (cut_gates_spec t (gate_ids P) c) as (c1' & Hc1' & Hl1 & Hn1).
    - eapply incr_from_NoDup. apply incr_gate_ids. exact HincP.
    - intros id Hid. unfold gate_ids in Hid. apply in_flat_map in Hid as ([g kd] & HinP' & Hid).
      destruct kd; cbn in Hid; try contradiction. destruct Hid as [<-|[]]. unfold ginst; cbn [fst].
      destruct (Hgspec g (HinP _ _ HinP')) as (x & Hx & Hm & Hq & Hgam & _).
      split; [apply nth_error_Some; congruence|].
      rewrite (nth_error_nth _ _ dI Hx).
      assert (Hne : g_gamma g <> None).
      { assert (Hpa : In (CutTwoQubitGate, g) (plan_actions P)).
        { clear - HinP'. induction P as [|[g0 k0] P IH]; [destruct HinP'|]. cbn [plan_actions].
          apply in_or_app. destruct HinP' as [E|Hin]; [left; inversion E; subst; now left|right; auto]. }
        unfold P in Hpa. rewrite <- (inv_acts _ _ _ _ _ _ _ I) in Hpa. apply in_map_iff in Hpa as (a & Ea & Hina).
        pose proof (proj1 (Forall_forall _ _) (inv_args _ _ _ _ _ _ _ I) a Hina) as Hok.
        unfold akey in Ea. injection Ea as En Eg. unfold args_ok in Hok. rewrite En, Eg in Hok. exact Hok. }
      rewrite Hgam in Hne. unfold op_gamma in Hne.
      destruct (iop x) as [g0| | | | | | | |] eqn:Eop; try congruence.
      destruct (Nat.eqb (length (iqs x)) 2); [|congruence].
      destruct (glookup g0 t) as [[kap o]|] eqn:Elk; [|simpl in Hne; congruence]. eauto.
    - change (map (fun a => g_inst (a_gate a)) (filter is_gate_cut A)) with (map inst (filter is_gate_cut A)) in Ecg.
      rewrite Hgids in Ecg. rewrite Ecg in Hc1'. inversion Hc1'; subst c1'.
      apply (nth_ext _ _ dI dI); [now rewrite wrapmap_length|].
      intros j Hj. rewrite Hl1 in Hj. rewrite Hn1, wrapmap_nth by exact Hj.
      rewrite (memb_gate_ids P 0 j HincP). cbn [Nat.add]. destruct (pfun P j); reflexivity. }
  (* the wire-cut loop *)
  set (Aw := filter (fun a => negb (is_gate_cut a)) A) in *.
  assert (HincAw : incr_from 0 (map inst Aw)).
  { rewrite map_inst_wkey, Hwires. apply incr_wires. exact HincP. }
  rewrite (sort_sorted 0 Aw HincAw) in Eiw.
  assert (Hweave : insert_wire_cuts c ([] ++ c1) 0 Aw = Val ([] ++ weave (mk_of c) 0 c1 Aw)).
  { apply insert_wire_cuts_weave; auto.
    intros a Hina.
    assert (Hk : In (wkey a) (wires P)) by (rewrite <- Hwires; apply in_map; exact Hina).
    unfold wkey in Hk. destruct (in_wires _ _ _ Hk) as (g & kd & HinP' & Hgi & Hk1 & Hk2 & Hn).
    destruct (Hgspec g (HinP _ _ HinP')) as (x & Hx & Hm & Hq & _ & _).
    destruct (Hgwf g (HinP _ _ HinP')) as (GL & _).
    assert (Hlt : inst a < length c) by (rewrite <- Hgi; apply nth_error_Some; congruence).
    split; [rewrite Ec1, wrapmap_length; simpl; exact Hlt|]. split; [|split; [|exact Hlt]].
    - assert (HinA : In a A) by (unfold Aw in Hina; apply filter_In in Hina; tauto).
      pose proof (proj1 (Forall_forall _ _) (inv_args _ _ _ _ _ _ _ I) a HinA) as Hok.
      unfold args_ok in Hok. unfold wire_args_ok. rewrite Hn in *. destruct kd; try congruence; exact Hok.
    - rewrite <- Hgi, (nth_error_nth _ _ dI Hx), Hq, map_length, GL. lia. }
  cbn [app] in Hweave. rewrite Hweave in Eiw. inversion Eiw; subst c2.
  rewrite Ec1. unfold render. apply (weave_render t c c 0 P Aw []); auto.
Qed.

(* ---------------- consequences ---------------- *)
Definition circ_plain (c : circ) : Prop := forall x, In x c -> plain_instr x = true.

Lemma feasible_from_inv names W (HW : 1 <= W) s cur E :
  InvU names W s cur E ->
  forall S : list node, NoDup S -> (forall a b, In a S -> In b S -> conn E a b) -> length S <= W.
Proof.
  intros I S ND Hconn.
  destruct S as [|x0 S0] eqn:ES; [simpl; lia|].
  destruct S0 as [|x1 S1] eqn:ES0; [simpl; lia|]. rewrite <- ES0, <- ES in *.
  destruct (iu_sim _ _ _ _ _ I) as [phi P].
  (* every member is an endpoint, hence the image of a wire *)
  assert (Hpre : forall x, In x S -> exists a, a < num_wires s /\ phi a = x).
  { intros x Hx. apply (sp_ends _ _ _ _ _ P).
    assert (Hother : exists y, In y S /\ y <> x).
    { assert (N01 : x0 <> x1) by (rewrite ES, ES0 in ND; inversion ND as [|? ? Hn _]; intros ->; apply Hn; now left).
      destruct (Nat.eq_dec (fst x) (fst x0)) as [E1|N1]; [destruct (Nat.eq_dec (snd x) (snd x0)) as [E2|N2]|].
      - exists x1. split; [rewrite ES, ES0; right; now left|]. intros ->. apply N01. destruct x0, x; simpl in *; congruence.
      - exists x0. split; [rewrite ES; now left|]. intros ->. congruence.
      - exists x0. split; [rewrite ES; now left|]. intros ->. congruence. }
    destruct Hother as (y & Hy & Nyx).
    destruct (econn_endpoints node E x y (Hconn x y Hx Hy)) as [Exy|[Hex _]]; [congruence|exact Hex]. }
  assert (Hlist : exists S', NoDup S' /\ length S' = length S /\
            (forall a, In a S' -> a < num_wires s /\ In (phi a) S)).
  { clear ES ES0 Hconn. induction S as [|x S IH]; [exists []; split; [constructor|split; [reflexivity|intros a []]]|].
    inversion ND as [|? ? Hnx ND']; subst.
    destruct IH as (S' & ND1 & L1 & H1); auto; [intros y Hy; apply Hpre; now right|].
    destruct (Hpre x (or_introl eq_refl)) as (a & Ha & Ea).
    exists (a :: S'). split; [|split; [simpl; lia|]].
    - constructor; auto. intros Hin. destruct (H1 a Hin) as [_ Hin']. rewrite Ea in Hin'. contradiction.
    - intros b [<-|Hb]; [split; [exact Ha|rewrite Ea; now left]|].
      destruct (H1 b Hb) as [Hb1 Hb2]. split; [exact Hb1|now right]. }
  destruct Hlist as (S' & ND' & L' & HS').
  rewrite <- L'. destruct S' as [|a0 S0'] eqn:ES'; [simpl; lia|]. rewrite <- ES' in *.
  assert (Ha0 : In a0 S') by (rewrite ES'; now left).
  set (r := find (uptree s) a0).
  pose proof (iu_wf _ _ _ _ _ I) as WF. pose proof (iu_nw_hi _ _ _ _ _ I) as Hhi.
  destruct (HS' a0 Ha0) as [Ha0lt _].
  assert (Hr : r < length (uptree s)) by (unfold r; pose proof (find_le (uptree s) a0 WF); lia).
  assert (Rr : parent (uptree s) r = r) by (apply find_is_root; exact WF).
  destruct (iu_width _ _ _ _ _ I r Hr Rr) as [Wr Wle].
  rewrite Wr in Wle. eapply Nat.le_trans; [|exact Wle].
  apply class_count_bound; [exact ND'|].
  intros w Hw. destruct (HS' w Hw) as [Hwlt Hwin]. split; [lia|].
  unfold r. apply (sp_conn _ _ _ _ _ P); auto. apply Hconn; auto. apply (HS' a0 Ha0).
Qed.

Theorem find_cuts_correct fuel i r :
  find_cuts_full fuel i = Val r -> circ_wf (fi_circ i) ->
  let t := fi_gtab i in let c := fi_circ i in
  exists p : plan,
    (* only markers *)
    fr_circ r = render t p c /\
    plan_permitted t (fi_gate_lo i) (fi_wire_lo i) c p /\
    (* metadata *)
    md_cuts (fr_meta r) = scan_cuts 0 (fr_circ r) /\
    (* accounting *)
    (md_overhead (fr_meta r) == plan_overhead t p c)%Q /\
    (* feasibility *)
    (circ_plain c -> gtab_ok t -> feasible (fi_W i) (fr_circ r)).
Proof.
  intros H WFc t c.
  destruct (find_cuts_sound fuel i r H WFc) as (pl & M & I & Hlen & HW & Hcirc & Hcuts & Hov).
  fold t c in I, Hlen, Hcirc.
  set (names := names_of (fi_nq i) t c) in *. set (gates := gates_of (fi_nq i) t c) in *.
  set (P := combine gates pl) in *.
  destruct (gates_of_circ (fi_nq i) t c) as (NDn & Hincg & Hgspec & Hgall). fold names gates in NDn, Hincg, Hgspec, Hgall.
  pose proof (gates_wf (fi_nq i) t c WFc) as Hgwf. fold names gates in Hgwf.
  assert (HginstP : map ginst P = map g_inst gates).
  { unfold ginst. rewrite <- map_map. unfold P. rewrite map_fst_combine by lia. reflexivity. }
  assert (HincP : incr_from 0 (map ginst P)) by (rewrite HginstP; exact Hincg).
  assert (HinP : forall g kd, In (g, kd) P -> In g gates) by (intros g kd Hin; eapply in_combine_l; exact Hin).
  assert (HinPl : forall g kd, In (g, kd) P -> In kd pl) by (intros g kd Hin; eapply in_combine_r; exact Hin).
  (* gate cuts only where the gate has a gamma *)
  assert (Hgc : forall g, In (g, KGateCut) P -> g_gamma g <> None).
  { intros g HinP'.
    assert (Hpa : In (CutTwoQubitGate, g) (plan_actions P)).
    { clear - HinP'. induction P as [|[g0 k0] P IH]; [destruct HinP'|]. cbn [plan_actions].
      apply in_or_app. destruct HinP' as [E|Hin]; [left; inversion E; subst; now left|right; auto]. }
    unfold P in Hpa. rewrite <- (inv_acts _ _ _ _ _ _ _ I) in Hpa. apply in_map_iff in Hpa as (a & Ea & Hina).
    pose proof (proj1 (Forall_forall _ _) (inv_args _ _ _ _ _ _ _ I) a Hina) as Hok.
    unfold akey in Ea. injection Ea as En Eg. unfold args_ok in Hok. rewrite En, Eg in Hok. exact Hok. }
  exists (pfun P). split; [exact Hcirc|]. split; [|split; [exact Hcuts|split]].
  - (* permitted *)
    intros k Hk. destruct (pfun_in P 0 k HincP Hk) as (g & HinP' & Hgi).
    destruct (Hgspec g (HinP _ _ HinP')) as (x & Hx & Hm & Hq & Hgam & _).
    destruct (Hgwf g (HinP _ _ HinP')) as (GL & _).
    exists x. rewrite <- Hgi. split; [exact Hx|]. split; [exact Hm|]. split; [rewrite Hq, map_length; exact GL|].
    pose proof (proj1 (Forall_forall _ _) (inv_kinds _ _ _ _ _ _ _ I) _ (HinPl _ _ HinP')) as (ka & Hka & Ekd).
    pose proof (search_actions_permitted _ _ _ Hka) as Hperm. rewrite Ekd in Hperm. rewrite Hgi.
    destruct (pfun P k) eqn:Epk; try exact Hperm; [congruence|].
    split; [exact Hperm|]. unfold kappa_of. rewrite <- Hgam. apply Hgc. exact HinP'.
  - (* accounting *)
    rewrite Hov. rewrite (inv_gamma _ _ _ _ _ _ _ I). fold P. symmetry.
    unfold plan_overhead. apply (overhead_render t c c 0 P []); auto.
    intros [g kd] Hin. destruct (Hgspec g (HinP _ _ Hin)) as (x & Hx & _ & _ & Hgam & _).
    exists x. unfold ginst; cbn [fst]. split; [exact Hx|]. unfold kappa_of. now rewrite Hgam.
  - (* feasibility *)
    intros Hplain Htab S ND Hconn.
    assert (Hseg : segment_graph (fr_circ r) = snd (abs_of names gates pl)).
    { rewrite Hcirc. unfold segment_graph, render, abs_of. fold P.
      apply (seg_render t names c c 0 P [] cur0); auto.
      - apply Forall_forall. intros [g kd] Hin.
        destruct (Hgspec g (HinP _ _ Hin)) as (x & Hx & Hm & Hq & Hgam & _).
        destruct (Hgwf g (HinP _ _ Hin)) as (GL & _).
        exists x. unfold ginst; cbn [fst snd]. split; [exact Hx|]. split; [exact Hm|].
        split; [apply Hplain; eapply nth_error_In; exact Hx|]. split.
        + rewrite Hq. unfold Q1, Q2, name, q1_of, q2_of, nm.
          destruct (g_qubits g) as [|a [|b [|? ?]]]; simpl in GL; try lia. reflexivity.
        + intros ->. pose proof (Hgc g Hin) as Hne. rewrite Hgam in Hne. unfold op_gamma in Hne.
          destruct (iop x) as [g0| | | | | | | |] eqn:Eop; try congruence.
          destruct (Nat.eqb (length (iqs x)) 2); [|congruence].
          destruct (glookup g0 t) as [[kap o]|] eqn:Elk; [|simpl in Hne; congruence].
          exists g0, kap, o. repeat split; auto. eapply Htab; eauto.
      - intros j x _ Hx Hm. rewrite HginstP. destruct (Hgall j x Hx Hm) as (g & Hg & <-). now apply in_map. }
    rewrite Hseg in Hconn.
    eapply (feasible_from_inv names (fi_W i) HW); eauto. apply (inv_u _ _ _ _ _ _ _ I).
Qed.

(* ---------------- the four C07 statements ---------------- *)
Theorem only_markers fuel i r :
  find_cuts_full fuel i = Val r -> circ_wf (fi_circ i) ->
  exists p : plan, fr_circ r = render (fi_gtab i) p (fi_circ i) /\
                   plan_permitted (fi_gtab i) (fi_gate_lo i) (fi_wire_lo i) (fi_circ i) p.
Proof. intros H WF. destruct (find_cuts_correct fuel i r H WF) as (p & H1 & H2 & _). eauto. Qed.

(* what a rendering is, seen from the output: dropping the CutWire markers leaves the input with the cut gates wrapped *)
Lemma erase_render t p : gtab_ok t -> forall c k, circ_plain c ->
  erase_cut_wires (render_from t p k c) = wrapmap t p k c.
Proof.
  intros Htab c. induction c as [|i r IH]; intros k Hp; [reflexivity|].
  assert (Hi : plain_instr i = true) by (apply Hp; now left).
  assert (Hr : circ_plain r) by (intros x Hx; apply Hp; now right).
  assert (Hnc : is_cut_wire i = false) by (unfold plain_instr in Hi; unfold is_cut_wire; destruct (iop i); try discriminate; reflexivity).
  cbn [render_from wrapmap]. unfold erase_cut_wires in *. rewrite filter_app, IH by exact Hr.
  destruct (p k); cbn [render_instr filter is_cut_wire cut_wire_instr iop negb app]; rewrite ?Hnc; cbn [negb]; try reflexivity.
  unfold wrap_op. unfold plain_instr in Hi. destruct (iop i) as [g| | | | | | | |] eqn:Eop; try discriminate.
  - destruct (glookup g t) as [[kap o]|] eqn:El.
    + pose proof (Htab _ _ _ El) as Hq. destruct o; try discriminate. reflexivity.
    + unfold is_cut_wire. rewrite Eop. reflexivity.
  - unfold is_cut_wire. rewrite Eop. reflexivity.
Qed.

Theorem metadata_spec fuel i r :
  find_cuts_full fuel i = Val r -> circ_wf (fi_circ i) ->
  incr_from 0 (map snd (md_cuts (fr_meta r))) /\
  forall kd j, In (kd, j) (md_cuts (fr_meta r)) <-> marker_at (fr_circ r) j = Some kd.
Proof.
  intros H WF. destruct (find_cuts_correct fuel i r H WF) as (p & _ & _ & Hc & _). rewrite Hc.
  destruct (scan_cuts_spec (fr_circ r) 0) as [H1 H2]. split; [exact H1|].
  intros kd j. rewrite H2, Nat.sub_0_r. split; [tauto|]. intros Hm; split; [lia|exact Hm].
Qed.

Theorem accounting fuel i r :
  find_cuts_full fuel i = Val r -> circ_wf (fi_circ i) ->
  exists p : plan, fr_circ r = render (fi_gtab i) p (fi_circ i) /\
    plan_permitted (fi_gtab i) (fi_gate_lo i) (fi_wire_lo i) (fi_circ i) p /\
    (md_overhead (fr_meta r) == plan_overhead (fi_gtab i) p (fi_circ i))%Q.
Proof. intros H WF. destruct (find_cuts_correct fuel i r H WF) as (p & H1 & H2 & _ & H3 & _). eauto. Qed.

Theorem feasible_result fuel i r :
  find_cuts_full fuel i = Val r -> circ_wf (fi_circ i) -> circ_plain (fi_circ i) -> gtab_ok (fi_gtab i) ->
  feasible (fi_W i) (fr_circ r).
Proof. intros H WF Hp Ht. destruct (find_cuts_correct fuel i r H WF) as (p & _ & _ & _ & _ & H5). auto. Qed.

(* cut_gates succeeds on the gate ids of any state satisfying the invariant (used for the failure analysis) *)
Lemma cut_gates_val nq t c W acts M best pl :
  circ_wf c ->
  let names := names_of nq t c in let gates := gates_of nq t c in
  Inv names W gates acts M best pl -> length pl = length gates ->
  exists c1, cut_gates t c (map (fun a => g_inst (a_gate a)) (filter is_gate_cut (actions best))) = Val c1.
Proof.
  intros WFc names gates I Hlen.
  destruct (gates_of_circ nq t c) as (NDn & Hincg & Hgspec & Hgall). fold names gates in NDn, Hincg, Hgspec, Hgall.
  set (P := combine gates pl).
  assert (HginstP : map ginst P = map g_inst gates).
  { unfold ginst. rewrite <- map_map. unfold P. rewrite map_fst_combine by lia. reflexivity. }
  assert (HincP : incr_from 0 (map ginst P)) by (rewrite HginstP; exact Hincg).
  assert (HinP : forall g kd, In (g, kd) P -> In g gates) by (intros g kd Hin; eapply in_combine_l; exact Hin).
  destruct (acts_split P (actions best) (inv_acts _ _ _ _ _ _ _ I)) as [Hgids _].
  change (map (fun a => g_inst (a_gate a)) (filter is_gate_cut (actions best))) with (map inst (filter is_gate_cut (actions best))).
  rewrite Hgids.
  destruct (cut_gates_spec t (gate_ids P) c) as (c1' & Hc1' & _).
  - eapply incr_from_NoDup. apply incr_gate_ids. exact HincP.
  - intros id Hid. unfold gate_ids in Hid. apply in_flat_map in Hid as ([g kd] & HinP' & Hid).
    destruct kd; cbn in Hid; try contradiction. destruct Hid as [<-|[]]. unfold ginst; cbn [fst].
    destruct (Hgspec g (HinP _ _ HinP')) as (x & Hx & Hm & Hq & Hgam & _).
    split; [apply nth_error_Some; congruence|].
    rewrite (nth_error_nth _ _ dI Hx).
    assert (Hne : g_gamma g <> None).
    { assert (Hpa : In (CutTwoQubitGate, g) (plan_actions P)).
      { clear - HinP'. induction P as [|[g0 k0] P IH]; [destruct HinP'|]. cbn [plan_actions].
        apply in_or_app. destruct HinP' as [E|Hin]; [left; inversion E; subst; now left|right; auto]. }
      unfold P in Hpa. rewrite <- (inv_acts _ _ _ _ _ _ _ I) in Hpa. apply in_map_iff in Hpa as (a & Ea & Hina).
      pose proof (proj1 (Forall_forall _ _) (inv_args _ _ _ _ _ _ _ I) a Hina) as Hok.
      unfold akey in Ea. injection Ea as En Eg. unfold args_ok in Hok. rewrite En, Eg in Hok. exact Hok. }
    rewrite Hgam in Hne. unfold op_gamma in Hne.
    destruct (iop x) as [g0| | | | | | | |] eqn:Eop; try congruence.
    destruct (Nat.eqb (length (iqs x)) 2); [|congruence].
    destruct (glookup g0 t) as [[kap o]|] eqn:Elk; [|simpl in Hne; congruence]. eauto.
  - eauto.
Qed.

(* the wire-cut insertion loop succeeds on the actions of any goal state satisfying the invariant *)
Lemma insert_wire_cuts_val nq t c W acts M best pl c1 :
  circ_wf c ->
  let names := names_of nq t c in let gates := gates_of nq t c in
  Inv names W gates acts M best pl -> length pl = length gates -> length c1 = length c ->
  exists c2, insert_wire_cuts c c1 0 (sort_actions (filter (fun a => negb (is_gate_cut a)) (actions best))) = Val c2.
Proof.
  intros WFc names gates I Hlen Hl1.
  destruct (gates_of_circ nq t c) as (NDn & Hincg & Hgspec & Hgall). fold names gates in NDn, Hincg, Hgspec, Hgall.
  pose proof (gates_wf nq t c WFc) as Hgwf. fold names gates in Hgwf.
  set (P := combine gates pl).
  assert (HginstP : map ginst P = map g_inst gates).
  { unfold ginst. rewrite <- map_map. unfold P. rewrite map_fst_combine by lia. reflexivity. }
  assert (HincP : incr_from 0 (map ginst P)) by (rewrite HginstP; exact Hincg).
  assert (HinP : forall g kd, In (g, kd) P -> In g gates) by (intros g kd Hin; eapply in_combine_l; exact Hin).
  destruct (acts_split P (actions best) (inv_acts _ _ _ _ _ _ _ I)) as [_ Hwires].
  set (Aw := filter (fun a => negb (is_gate_cut a)) (actions best)) in *.
  assert (HincAw : incr_from 0 (map inst Aw)).
  { rewrite map_inst_wkey, Hwires. apply incr_wires. exact HincP. }
  rewrite (sort_sorted 0 Aw HincAw).
  exists ([] ++ weave (mk_of c) 0 c1 Aw).
  change c1 with ([] ++ c1) at 1.
  apply insert_wire_cuts_weave; auto.
  intros a Hina.
  assert (Hk : In (wkey a) (wires P)) by (rewrite <- Hwires; apply in_map; exact Hina).
  unfold wkey in Hk. destruct (in_wires _ _ _ Hk) as (g & kd & HinP' & Hgi & Hk1 & Hk2 & Hn).
  destruct (Hgspec g (HinP _ _ HinP')) as (x & Hx & Hm & Hq & _ & _).
  destruct (Hgwf g (HinP _ _ HinP')) as (GL & _).
  assert (Hlt : inst a < length c) by (rewrite <- Hgi; apply nth_error_Some; congruence).
  split; [rewrite Hl1; simpl; exact Hlt|]. split; [|split; [|exact Hlt]].
  - assert (HinA : In a (actions best)) by (unfold Aw in Hina; apply filter_In in Hina; tauto).
    pose proof (proj1 (Forall_forall _ _) (inv_args _ _ _ _ _ _ _ I) a HinA) as Hok.
    unfold args_ok in Hok. unfold wire_args_ok. rewrite Hn in *. destruct kd; try congruence; exact Hok.
  - rewrite <- Hgi, (nth_error_nth _ _ dI Hx), Hq, map_length, GL. lia.
Qed.

Lemma cut_gates_length t : forall ids c c1, cut_gates t c ids = Val c1 -> length c1 = length c.
Proof.
  induction ids as [|id r IH]; intros c c1 H; simpl in H; [inversion H; reflexivity|].
  destruct (nth_error c id); [|discriminate].
  destruct (wrap_instr t i) as [i'| | |]; cbn [obind] in H; try discriminate.
  rewrite (IH _ _ H). apply upd_length.
Qed.

(* Proofs/BestFirstExchangeShrink.v — C08, unbounded pruning soundness, part 4: the wire budget only matters through
   can_add_wires.

   explicit forms: under the light invariant LI (well-formed forest, fresh wires are their own roots, clauses join
     different classes, wires of qubits are in range) each of the five actions returns an explicitly given list
     (at most one successor), decided by explicitly given guards.
   shrink m s: the state s with its union-find forest and width array truncated to m entries (= the same search
     state under the smaller budget m - #qubits).  Every guarded edge s -> s' with num_wires s' <= m is also an edge
     shrink m s -> shrink m s' ; hence a path that never uses more than m wires exists under the smaller budget. *)
From Coq Require Import QArith Lia.
From CKT Require Import Model.CutFinder Proofs.UFP Proofs.CutFinderInv Proofs.BestFirstP.
Close Scope Q_scope.

(* ---------------- lists ---------------- *)
Lemma nth_firstn_lt {A} (l : list A) : forall m x d, x < m -> nth x (firstn m l) d = nth x l d.
Proof.
  induction l as [|a l IH]; intros [|m] [|x] d H; cbn; try lia; auto. apply IH. lia.
Qed.

Lemma upd_firstn {A} (l : list A) : forall m i v, firstn m (upd l i v) = upd (firstn m l) i v.
Proof.
  induction l as [|a l IH]; intros [|m] [|i] v; cbn; auto. f_equal. apply IH.
Qed.

Lemma firstn_seq a n m : m <= n -> firstn m (seq a n) = seq a m.
Proof.
  revert a n; induction m as [|m IH]; intros a [|n] H; cbn; try lia; auto. f_equal. apply IH. lia.
Qed.

Lemma firstn_repeat {A} (x : A) n m : m <= n -> firstn m (repeat x n) = repeat x m.
Proof.
  revert n; induction m as [|m IH]; intros [|n] H; cbn; try lia; auto. f_equal. apply IH. lia.
Qed.

(* ---------------- the forest below m ---------------- *)
Lemma parent_firstn u m x : x < m -> parent (firstn m u) x = parent u x.
Proof. intros H. unfold parent. now apply nth_firstn_lt. Qed.

Lemma uf_wf_firstn u m : uf_wf u -> uf_wf (firstn m u).
Proof.
  intros WF w Hw. rewrite firstn_length in Hw. rewrite nth_firstn_lt by lia. apply WF. lia.
Qed.

Lemma find_firstn u m w : uf_wf u -> w < m -> find (firstn m u) w = find u w.
Proof.
  intros WF. induction w as [w IH] using lt_wf_ind. intros Hw.
  rewrite (find_step (firstn m u) w (uf_wf_firstn u m WF)), (find_step u w WF), parent_firstn by exact Hw.
  destruct (Nat.eqb_spec (parent u w) w) as [E|N]; [reflexivity|].
  pose proof (parent_le u w WF). apply IH; lia.
Qed.

Lemma uf_wf_upd_any u i v : uf_wf u -> v <= i -> uf_wf (upd u i v).
Proof.
  intros WF Hv w Hw. rewrite upd_length in Hw. destruct (Nat.eq_dec w i) as [->|N].
  - rewrite nth_upd_same by exact Hw. exact Hv.
  - rewrite nth_upd_other by auto. now apply WF.
Qed.

Section Explicit.
  Variable nq : nat.
  Variable W : nat.

  Record LI (s : dstate) : Prop := {
    li_len_wm : length (wiremap s) = nq ;
    li_nw_hi : num_wires s <= length (uptree s) ;
    li_wf : uf_wf (uptree s) ;
    li_fresh : forall x, num_wires s <= x -> parent (uptree s) x = x ;
    li_nomerge : forall a b, In (a, b) (no_merge s) ->
                   a < num_wires s /\ b < num_wires s /\ find (uptree s) a <> find (uptree s) b ;
    li_wm : forall q, q < nq -> get_wire s q < num_wires s
  }.

  Lemma InvU_LI s cur E : InvU (seq 0 nq) W s cur E -> LI s.
  Proof.
    intros I. constructor.
    - rewrite (iu_len_wm _ _ _ _ _ I). apply seq_length.
    - apply (iu_nw_hi _ _ _ _ _ I).
    - apply (iu_wf _ _ _ _ _ I).
    - apply (iu_fresh _ _ _ _ _ I).
    - apply (iu_nomerge _ _ _ _ _ I).
    - intros q Hq. apply (iu_wm _ _ _ _ _ I). now rewrite seq_length.
  Qed.

  Definition gq (g : gate_spec) : Prop := length (g_qubits g) = 2 /\ q1_of g < nq /\ q2_of g < nq.

  Lemma li_root s w : LI s -> w < num_wires s ->
    let r := find (uptree s) w in
    r < num_wires s /\ parent (uptree s) r = r /\ find (uptree s) r = r.
  Proof.
    intros L Hw r. pose proof (li_wf _ L) as WF. pose proof (find_le (uptree s) w WF). fold r in H.
    split; [lia|]. split; [apply find_is_root|apply find_idem]; auto.
  Qed.

  Lemma li_check s r1 r2 : LI s -> parent (uptree s) r1 = r1 -> parent (uptree s) r2 = r2 ->
    exists b, check_donot_merge_roots s r1 r2 = Val b /\
      (b = true -> r1 <> r2).
  Proof.
    intros L R1 R2. unfold check_donot_merge_roots, is_root. rewrite R1, R2, !Nat.eqb_refl. cbn [andb oassert obind].
    destruct (check_clauses_val s (no_merge s) r1 r2) as (b & Hb & Hiff).
    { intros a c Hin. apply (li_nomerge _ L _ _ Hin). }
    exists b. split; [exact Hb|]. intros ->. destruct (proj1 Hiff eq_refl) as (a & c & Hin & D).
    destruct (li_nomerge _ L _ _ Hin) as (_ & _ & N). intros <-. apply N. destruct D as [[-> ->]|[-> ->]]; reflexivity.
  Qed.

  (* ---------------- ApplyGate ---------------- *)
  Definition apply_res (s : dstate) (r1 r2 : nat) : dstate :=
    set_uf s (union_roots (uptree s) r1 r2)
      (upd (width s) (Nat.min r1 r2) (width_at s (Nat.min r1 r2) + width_at s (Nat.max r1 r2))).

  Lemma apply_explicit s g : LI s -> gq g ->
    let r1 := find_qubit_root s (q1_of g) in let r2 := find_qubit_root s (q2_of g) in
    exists b, check_donot_merge_roots s r1 r2 = Val b /\
      apply_gate s g W = Val (if Nat.eqb r1 r2 then [s]
                              else if Nat.ltb W (width_at s r1 + width_at s r2) then []
                              else if b then [] else [apply_res s r1 r2]).
  Proof.
    intros L (GL & Q1 & Q2) r1 r2.
    destruct (li_root s _ L (li_wm _ L _ Q1)) as (N1 & R1 & F1). destruct (li_root s _ L (li_wm _ L _ Q2)) as (N2 & R2 & F2).
    fold (find_wire_root s (get_wire s (q1_of g))) in N1, R1, F1. fold (find_qubit_root s (q1_of g)) in N1, R1, F1.
    fold (find_wire_root s (get_wire s (q2_of g))) in N2, R2, F2. fold (find_qubit_root s (q2_of g)) in N2, R2, F2.
    fold r1 in N1, R1, F1. fold r2 in N2, R2, F2.
    destruct (li_check s r1 r2 L R1 R2) as (b & Hb & Hbt). exists b. split; [exact Hb|].
    unfold apply_gate. fold r1 r2. destruct (Nat.eqb_spec r1 r2) as [Er|Nr]; cbn [negb andb].
    - rewrite Hb. cbn [obind]. destruct b; [exfalso; now apply Hbt|]. reflexivity.
    - destruct (Nat.ltb W (width_at s r1 + width_at s r2)); [reflexivity|].
      rewrite Hb. cbn [obind]. destruct b; [reflexivity|].
      unfold merge_roots, is_root. rewrite R1, R2, !Nat.eqb_refl.
      destruct (Nat.eqb_spec r1 r2) as [C|_]; [contradiction|]. reflexivity.
  Qed.

  (* ---------------- CutTwoQubitGate ---------------- *)
  Definition gate_res (s : dstate) (g : gate_spec) (gam : Q) (r1 r2 : nat) : dstate :=
    add_action (mul_gamma (mkS (wiremap s) (num_wires s) (uptree s) (width s) (no_merge s ++ [(r1, r2)])
                               (gamma_UB s) (actions s) (level s)) gam)
               (mkA CutTwoQubitGate g [[1; get_wire s (q1_of g)]; [2; get_wire s (q2_of g)]]).

  Lemma gate_explicit s g : LI s -> gq g ->
    let r1 := find_qubit_root s (q1_of g) in let r2 := find_qubit_root s (q2_of g) in
    cut_two_qubit_gate s g W = Val (match g_gamma g with
                                    | None => []
                                    | Some gam => if Nat.eqb r1 r2 then [] else [gate_res s g gam r1 r2]
                                    end).
  Proof.
    intros L (GL & Q1 & Q2) r1 r2.
    destruct (li_root s _ L (li_wm _ L _ Q1)) as (N1 & R1 & F1). destruct (li_root s _ L (li_wm _ L _ Q2)) as (N2 & R2 & F2).
    unfold cut_two_qubit_gate. rewrite GL. cbn [Nat.eqb negb]. destruct (g_gamma g) as [gam|]; [|reflexivity].
    fold r1 r2. destruct (Nat.eqb_spec r1 r2) as [Er|Nr]; [reflexivity|].
    unfold assert_donot_merge_roots, find_wire_root. unfold r1, r2, find_qubit_root, find_wire_root. rewrite F1, F2.
    fold (find_wire_root s (get_wire s (q1_of g))) (find_wire_root s (get_wire s (q2_of g))).
    fold (find_qubit_root s (q1_of g)) (find_qubit_root s (q2_of g)). fold r1 r2.
    destruct (Nat.eqb_spec r1 r2) as [C|_]; [contradiction|]. reflexivity.
  Qed.

  (* ---------------- CutLeftWire / CutRightWire ---------------- *)
  Definition left_res (s : dstate) (g : gate_spec) (r1 r2 : nat) : dstate :=
    let nw := num_wires s in
    add_action (mul_gamma (mkS (upd (wiremap s) (q1_of g) nw) (S nw) (upd (uptree s) nw r2)
                               (upd (width s) r2 (width_at s r2 + width_at s nw)) (no_merge s ++ [(r1, r2)])
                               (gamma_UB s) (actions s) (level s)) left_wire_mult)
               (mkA CutLeftWire g [[1; get_wire s (q1_of g); nw]]).

  Definition right_res (s : dstate) (g : gate_spec) (r1 r2 : nat) : dstate :=
    let nw := num_wires s in
    add_action (mul_gamma (mkS (upd (wiremap s) (q2_of g) nw) (S nw) (upd (uptree s) nw r1)
                               (upd (width s) r1 (width_at s r1 + width_at s nw)) (no_merge s ++ [(r1, r2)])
                               (gamma_UB s) (actions s) (level s)) right_wire_mult)
               (mkA CutRightWire g [[2; get_wire s (q2_of g); nw]]).

  (* find below the fresh wire after hanging it below a root *)
  Lemma li_find_new s ro : LI s -> S (num_wires s) <= length (uptree s) -> ro < num_wires s ->
    parent (uptree s) ro = ro ->
    forall x, x < num_wires s -> find (upd (uptree s) (num_wires s) ro) x = find (uptree s) x.
  Proof.
    intros L Hroom Hro Rro x Hx. pose proof (li_wf _ L) as WF.
    assert (Rn : parent (uptree s) (num_wires s) = num_wires s) by (apply (li_fresh _ L); lia).
    rewrite (union_find (uptree s) ro (num_wires s) WF) by (auto; lia).
    pose proof (find_le (uptree s) x WF). destruct (Nat.eqb_spec (find (uptree s) x) (num_wires s)); [lia|reflexivity].
  Qed.

  Lemma left_explicit s g : LI s -> gq g ->
    let r1 := find_qubit_root s (q1_of g) in let r2 := find_qubit_root s (q2_of g) in
    cut_left_wire s g W = Val (if negb (Nat.leb (num_wires s + 1) (length (uptree s))) then []
                               else if Nat.eqb r1 r2 then []
                               else if negb (Nat.leb (width_at s r2 + 1) W) then [] else [left_res s g r1 r2]).
  Proof.
    intros L (GL & Q1 & Q2) r1 r2.
    destruct (li_root s _ L (li_wm _ L _ Q1)) as (N1 & R1 & F1). destruct (li_root s _ L (li_wm _ L _ Q2)) as (N2 & R2 & F2).
    change (find (uptree s) (get_wire s (q1_of g))) with r1 in *. change (find (uptree s) (get_wire s (q2_of g))) with r2 in *.
    unfold cut_left_wire. rewrite GL. cbn [Nat.eqb negb]. unfold can_add_wires, can_expand_subcircuit.
    destruct (Nat.leb_spec (num_wires s + 1) (length (uptree s))) as [Hroom|_]; cbn [negb]; [|reflexivity].
    fold r1 r2. destruct (Nat.eqb_spec r1 r2) as [Er|Nr]; [reflexivity|].
    destruct (Nat.leb (width_at s r2 + 1) W); cbn [negb]; [|reflexivity].
    unfold new_wire. destruct (Nat.ltb_spec (num_wires s) (length (uptree s))) as [_|C]; [|lia]. cbn [oassert obind].
    assert (GWn : get_wire {| wiremap := upd (wiremap s) (q1_of g) (num_wires s); num_wires := S (num_wires s);
                              uptree := uptree s; width := width s; no_merge := no_merge s; gamma_UB := gamma_UB s;
                              actions := actions s; level := level s |} (q1_of g) = num_wires s).
    { unfold get_wire; cbn. apply nth_upd_same. rewrite (li_len_wm _ L). exact Q1. }
    rewrite GWn.
    assert (Rn : parent (uptree s) (num_wires s) = num_wires s) by (apply (li_fresh _ L); lia).
    unfold merge_roots, is_root; cbn [uptree]. rewrite Rn, R2, !Nat.eqb_refl.
    destruct (Nat.eqb_spec (num_wires s) r2) as [C|_]; [lia|]. cbn [andb negb oassert obind].
    rewrite Nat.min_r, Nat.max_l by lia.
    unfold assert_donot_merge_roots, find_wire_root, set_uf, union_roots;
      cbn [uptree wiremap num_wires width no_merge gamma_UB actions level].
    rewrite Nat.min_r, Nat.max_l by lia.
    rewrite !(li_find_new s r2 L) by (auto; lia). rewrite F1, F2.
    destruct (Nat.eqb_spec r1 r2) as [C|_]; [contradiction|]. reflexivity.
  Qed.

  Lemma right_explicit s g : LI s -> gq g ->
    let r1 := find_qubit_root s (q1_of g) in let r2 := find_qubit_root s (q2_of g) in
    cut_right_wire s g W = Val (if negb (Nat.leb (num_wires s + 1) (length (uptree s))) then []
                                else if Nat.eqb r1 r2 then []
                                else if negb (Nat.leb (width_at s r1 + 1) W) then [] else [right_res s g r1 r2]).
  Proof.
    intros L (GL & Q1 & Q2) r1 r2.
    destruct (li_root s _ L (li_wm _ L _ Q1)) as (N1 & R1 & F1). destruct (li_root s _ L (li_wm _ L _ Q2)) as (N2 & R2 & F2).
    change (find (uptree s) (get_wire s (q1_of g))) with r1 in *. change (find (uptree s) (get_wire s (q2_of g))) with r2 in *.
    unfold cut_right_wire. rewrite GL. cbn [Nat.eqb negb]. unfold can_add_wires, can_expand_subcircuit.
    destruct (Nat.leb_spec (num_wires s + 1) (length (uptree s))) as [Hroom|_]; cbn [negb]; [|reflexivity].
    fold r1 r2. destruct (Nat.eqb_spec r1 r2) as [Er|Nr]; [reflexivity|].
    destruct (Nat.leb (width_at s r1 + 1) W); cbn [negb]; [|reflexivity].
    unfold new_wire. destruct (Nat.ltb_spec (num_wires s) (length (uptree s))) as [_|C]; [|lia]. cbn [oassert obind].
    assert (GWn : get_wire {| wiremap := upd (wiremap s) (q2_of g) (num_wires s); num_wires := S (num_wires s);
                              uptree := uptree s; width := width s; no_merge := no_merge s; gamma_UB := gamma_UB s;
                              actions := actions s; level := level s |} (q2_of g) = num_wires s).
    { unfold get_wire; cbn. apply nth_upd_same. rewrite (li_len_wm _ L). exact Q2. }
    rewrite GWn.
    assert (Rn : parent (uptree s) (num_wires s) = num_wires s) by (apply (li_fresh _ L); lia).
    unfold merge_roots, is_root; cbn [uptree]. rewrite Rn, R1, !Nat.eqb_refl.
    destruct (Nat.eqb_spec r1 (num_wires s)) as [C|_]; [lia|]. cbn [andb negb oassert obind].
    rewrite Nat.min_l, Nat.max_r by lia.
    unfold assert_donot_merge_roots, find_wire_root, set_uf, union_roots;
      cbn [uptree wiremap num_wires width no_merge gamma_UB actions level].
    rewrite Nat.min_l, Nat.max_r by lia.
    rewrite !(li_find_new s r1 L) by (auto; lia). rewrite F1, F2.
    destruct (Nat.eqb_spec r1 r2) as [C|_]; [contradiction|]. reflexivity.
  Qed.

  (* ---------------- CutBothWires ---------------- *)
  Definition both_res (s : dstate) (g : gate_spec) (r1 r2 : nat) : dstate :=
    let nw := num_wires s in
    add_action (mul_gamma (mkS (upd (upd (wiremap s) (q1_of g) nw) (q2_of g) (S nw)) (S (S nw))
                               (upd (uptree s) (S nw) nw)
                               (upd (width s) nw (width_at s nw + width_at s (S nw)))
                               ((no_merge s ++ [(r1, nw)]) ++ [(r2, S nw)])
                               (gamma_UB s) (actions s) (level s)) both_wires_mult)
               (mkA CutBothWires g [[1; get_wire s (q1_of g); nw]; [2; get_wire s (q2_of g); S nw]]).

  Lemma both_explicit s g : LI s -> gq g ->
    let r1 := find_qubit_root s (q1_of g) in let r2 := find_qubit_root s (q2_of g) in
    cut_both_wires s g W = Val (if negb (Nat.leb (num_wires s + 2) (length (uptree s))) then []
                                else if Nat.ltb W 2 then [] else [both_res s g r1 r2]).
  Proof.
    intros L (GL & Q1 & Q2) r1 r2.
    destruct (li_root s _ L (li_wm _ L _ Q1)) as (N1 & R1 & F1). destruct (li_root s _ L (li_wm _ L _ Q2)) as (N2 & R2 & F2).
    change (find (uptree s) (get_wire s (q1_of g))) with r1 in *. change (find (uptree s) (get_wire s (q2_of g))) with r2 in *.
    unfold cut_both_wires. rewrite GL. cbn [Nat.eqb negb]. unfold can_add_wires. fold r1 r2.
    destruct (Nat.leb_spec (num_wires s + 2) (length (uptree s))) as [Hroom|_]; cbn [negb]; [|reflexivity].
    destruct (Nat.ltb W 2); [reflexivity|].
    rewrite new_wire_val by (rewrite ?(li_len_wm _ L); auto; lia). cbn [obind].
    rewrite new_wire_val by (unfold with_new_wire; cbn; rewrite ?upd_length, ?(li_len_wm _ L); auto; lia). cbn [obind].
    change (num_wires (with_new_wire s (q1_of g))) with (S (num_wires s)).
    set (s2 := with_new_wire (with_new_wire s (q1_of g)) (q2_of g)).
    assert (Eu2 : uptree s2 = uptree s) by reflexivity.
    assert (Rn : parent (uptree s) (num_wires s) = num_wires s) by (apply (li_fresh _ L); lia).
    assert (Rm : parent (uptree s) (S (num_wires s)) = S (num_wires s)) by (apply (li_fresh _ L); lia).
    unfold merge_roots, is_root. rewrite Eu2, Rn, Rm, !Nat.eqb_refl.
    destruct (Nat.eqb_spec (num_wires s) (S (num_wires s))) as [C|_]; [lia|]. cbn [andb negb oassert obind].
    rewrite Nat.min_l, Nat.max_r by lia.
    pose proof (li_wf _ L) as WF.
    assert (FU : forall x, find (upd (uptree s) (S (num_wires s)) (num_wires s)) x =
                           if Nat.eqb (find (uptree s) x) (S (num_wires s)) then num_wires s else find (uptree s) x).
    { intros x. apply union_find; auto; lia. }
    assert (FO : forall x, x < num_wires s -> find (upd (uptree s) (S (num_wires s)) (num_wires s)) x = find (uptree s) x).
    { intros x Hx. rewrite FU. pose proof (find_le (uptree s) x WF).
      destruct (Nat.eqb_spec (find (uptree s) x) (S (num_wires s))); [lia|reflexivity]. }
    assert (Fn : find (uptree s) (num_wires s) = num_wires s) by (apply find_root_id; auto).
    assert (Fm : find (uptree s) (S (num_wires s)) = S (num_wires s)) by (apply find_root_id; auto).
    assert (FN : find (upd (uptree s) (S (num_wires s)) (num_wires s)) (num_wires s) = num_wires s).
    { rewrite FU, Fn. destruct (Nat.eqb_spec (num_wires s) (S (num_wires s))); [lia|reflexivity]. }
    assert (FM : find (upd (uptree s) (S (num_wires s)) (num_wires s)) (S (num_wires s)) = num_wires s).
    { rewrite FU, Fm, Nat.eqb_refl. reflexivity. }
    unfold assert_donot_merge_roots at 1. unfold find_wire_root, set_uf, union_roots;
      cbn [uptree wiremap num_wires width no_merge gamma_UB actions level]. rewrite ?Eu2.
    rewrite Nat.min_l, Nat.max_r by lia.
    rewrite (FO r1) by auto. rewrite FN, F1.
    destruct (Nat.eqb_spec r1 (num_wires s)) as [C|_]; [lia|]. cbn [negb oassert obind].
    unfold assert_donot_merge_roots, find_wire_root; cbn [uptree wiremap num_wires width no_merge gamma_UB actions level].
    rewrite (FO r2) by auto. rewrite FM, F2.
    destruct (Nat.eqb_spec r2 (num_wires s)) as [C|_]; [lia|]. reflexivity.
  Qed.

  (* ---------------- the same state under a smaller budget ---------------- *)
  Definition shrink (m : nat) (s : dstate) : dstate :=
    mkS (wiremap s) (num_wires s) (firstn m (uptree s)) (firstn m (width s)) (no_merge s) (gamma_UB s) (actions s) (level s).

  Lemma LI_shrink m s : LI s -> num_wires s <= m -> LI (shrink m s).
  Proof.
    intros L Hm. pose proof (li_wf _ L) as WF. constructor; cbn [shrink wiremap num_wires uptree no_merge].
    - apply (li_len_wm _ L).
    - rewrite firstn_length. pose proof (li_nw_hi _ L). lia.
    - now apply uf_wf_firstn.
    - intros x Hx. destruct (Nat.lt_ge_cases x m) as [Hlt|Hge].
      + rewrite parent_firstn by exact Hlt. now apply (li_fresh _ L).
      + apply parent_overflow. rewrite firstn_length. lia.
    - intros a b Hin. destruct (li_nomerge _ L _ _ Hin) as (Ha & Hb & N). repeat split; auto.
      rewrite !find_firstn by (auto; lia). exact N.
    - intros q Hq. apply (li_wm _ L q Hq).
  Qed.

  Lemma shrink_root m s q : LI s -> num_wires s <= m -> q < nq -> find_qubit_root (shrink m s) q = find_qubit_root s q.
  Proof.
    intros L Hm Hq. unfold find_qubit_root, find_wire_root. cbn [shrink uptree].
    change (get_wire (shrink m s) q) with (get_wire s q). apply find_firstn; [apply (li_wf _ L)|].
    pose proof (li_wm _ L q Hq). lia.
  Qed.

  Lemma shrink_width m s r : r < m -> width_at (shrink m s) r = width_at s r.
  Proof. intros H. unfold width_at. cbn [shrink width]. now apply nth_firstn_lt. Qed.

  Lemma shrink_check_clauses m s r1 r2 : uf_wf (uptree s) -> forall cl,
    (forall a b, In (a, b) cl -> a < m /\ b < m) ->
    check_clauses (shrink m s) cl r1 r2 = check_clauses s cl r1 r2.
  Proof.
    intros WF. induction cl as [|[a b] cl IH]; intros H; cbn [check_clauses]; [reflexivity|].
    destruct (H a b (or_introl eq_refl)) as [Ha Hb].
    unfold find_wire_root. cbn [shrink uptree]. rewrite !find_firstn by auto.
    rewrite IH; [reflexivity|]. intros x y I. apply H. now right.
  Qed.

  Lemma shrink_check m s r1 r2 : LI s -> num_wires s <= m -> r1 < m -> r2 < m ->
    check_donot_merge_roots (shrink m s) r1 r2 = check_donot_merge_roots s r1 r2.
  Proof.
    intros L Hm H1 H2. unfold check_donot_merge_roots, is_root. cbn [shrink uptree no_merge].
    rewrite !parent_firstn by auto.
    change (check_clauses {| wiremap := wiremap s; num_wires := num_wires s; uptree := firstn m (uptree s);
                             width := firstn m (width s); no_merge := no_merge s; gamma_UB := gamma_UB s;
                             actions := actions s; level := level s |}) with (check_clauses (shrink m s)).
    rewrite (shrink_check_clauses m s r1 r2 (li_wf _ L)); [reflexivity|].
    intros a b Hin. destruct (li_nomerge _ L _ _ Hin) as (Ha & Hb & _). lia.
  Qed.

  (* each action commutes with shrink, except that a wire cut needs room below m *)
  Lemma shrink_prim m k s g : LI s -> gq g -> num_wires s <= m -> m <= length (uptree s) ->
    exists l l', next_state_primitive k s g W = Val l /\ next_state_primitive k (shrink m s) g W = Val l' /\
      forall s', In s' l -> num_wires s' <= m -> In (shrink m s') l'.
  Proof.
    intros L Gq Hm Hlen. pose proof (LI_shrink m s L Hm) as L'. pose proof Gq as (GL & Q1 & Q2).
    pose proof (shrink_root m s _ L Hm Q1) as E1. pose proof (shrink_root m s _ L Hm Q2) as E2.
    destruct (li_root s _ L (li_wm _ L _ Q1)) as (N1 & _). destruct (li_root s _ L (li_wm _ L _ Q2)) as (N2 & _).
    change (find (uptree s) (get_wire s (q1_of g))) with (find_qubit_root s (q1_of g)) in N1.
    change (find (uptree s) (get_wire s (q2_of g))) with (find_qubit_root s (q2_of g)) in N2.
    set (r1 := find_qubit_root s (q1_of g)) in *. set (r2 := find_qubit_root s (q2_of g)) in *.
    assert (Elen : length (uptree (shrink m s)) = m) by (cbn [shrink uptree]; now apply firstn_length_le).
    destruct k; cbn [next_state_primitive].
    - (* apply *)
      destruct (apply_explicit s g L Gq) as (b & Hb & Ha). destruct (apply_explicit (shrink m s) g L' Gq) as (b' & Hb' & Ha').
      rewrite E1, E2 in Hb', Ha'. fold r1 r2 in Hb, Ha, Hb', Ha'.
      rewrite shrink_check in Hb' by (auto; lia). rewrite Hb in Hb'. injection Hb' as <-.
      rewrite !shrink_width in Ha' by lia.
      eexists; eexists. split; [exact Ha|]. split; [exact Ha'|].
      intros s' Hin Hs'. destruct (Nat.eqb r1 r2); [destruct Hin as [<-|[]]; left; reflexivity|].
      destruct (Nat.ltb W _); [destruct Hin|]. destruct b; [destruct Hin|]. destruct Hin as [<-|[]]. left.
      unfold apply_res, shrink, set_uf, union_roots. cbn [wiremap num_wires uptree width no_merge gamma_UB actions level].
      rewrite !upd_firstn. unfold width_at. cbn [width].
      rewrite !nth_firstn_lt by lia. reflexivity.
    - (* gate cut *)
      pose proof (gate_explicit s g L Gq) as Ha. pose proof (gate_explicit (shrink m s) g L' Gq) as Ha'.
      cbv zeta in Ha, Ha'.
      rewrite E1, E2 in Ha'. fold r1 r2 in Ha, Ha'.
      eexists; eexists. split; [exact Ha|]. split; [exact Ha'|].
      intros s' Hin Hs'. destruct (g_gamma g); [|destruct Hin]. destruct (Nat.eqb r1 r2); [destruct Hin|].
      destruct Hin as [<-|[]]. left. reflexivity.
    - (* left *)
      pose proof (left_explicit s g L Gq) as Ha. pose proof (left_explicit (shrink m s) g L' Gq) as Ha'.
      cbv zeta in Ha, Ha'.
      rewrite E1, E2, Elen in Ha'. fold r1 r2 in Ha, Ha'. rewrite shrink_width in Ha' by lia.
      change (num_wires (shrink m s)) with (num_wires s) in Ha'.
      eexists; eexists. split; [exact Ha|]. split; [exact Ha'|].
      intros s' Hin Hs'.
      destruct (Nat.leb_spec (num_wires s + 1) (length (uptree s))) as [Hr|Hr]; cbn [negb] in Hin; [|destruct Hin].
      destruct (Nat.eqb r1 r2); [destruct Hin|].
      destruct (Nat.leb (width_at s r2 + 1) W); cbn [negb] in *; [|destruct Hin].
      destruct Hin as [<-|[]]. cbn in Hs'.
      destruct (Nat.leb_spec (num_wires s + 1) m) as [_|C]; [|lia]. cbn [negb]. left.
      unfold left_res, shrink, add_action, mul_gamma. cbn [wiremap num_wires uptree width no_merge gamma_UB actions level].
      rewrite !upd_firstn. unfold width_at. cbn [width]. rewrite !nth_firstn_lt by lia. reflexivity.
    - (* right *)
      pose proof (right_explicit s g L Gq) as Ha. pose proof (right_explicit (shrink m s) g L' Gq) as Ha'.
      cbv zeta in Ha, Ha'.
      rewrite E1, E2, Elen in Ha'. fold r1 r2 in Ha, Ha'. rewrite shrink_width in Ha' by lia.
      change (num_wires (shrink m s)) with (num_wires s) in Ha'.
      eexists; eexists. split; [exact Ha|]. split; [exact Ha'|].
      intros s' Hin Hs'.
      destruct (Nat.leb_spec (num_wires s + 1) (length (uptree s))) as [Hr|Hr]; cbn [negb] in Hin; [|destruct Hin].
      destruct (Nat.eqb r1 r2); [destruct Hin|].
      destruct (Nat.leb (width_at s r1 + 1) W); cbn [negb] in *; [|destruct Hin].
      destruct Hin as [<-|[]]. cbn in Hs'.
      destruct (Nat.leb_spec (num_wires s + 1) m) as [_|C]; [|lia]. cbn [negb]. left.
      unfold right_res, shrink, add_action, mul_gamma. cbn [wiremap num_wires uptree width no_merge gamma_UB actions level].
      rewrite !upd_firstn. unfold width_at. cbn [width]. rewrite !nth_firstn_lt by lia. reflexivity.
    - (* both *)
      pose proof (both_explicit s g L Gq) as Ha. pose proof (both_explicit (shrink m s) g L' Gq) as Ha'.
      cbv zeta in Ha, Ha'.
      rewrite E1, E2, Elen in Ha'. fold r1 r2 in Ha, Ha'.
      change (num_wires (shrink m s)) with (num_wires s) in Ha'.
      eexists; eexists. split; [exact Ha|]. split; [exact Ha'|].
      intros s' Hin Hs'.
      destruct (Nat.leb_spec (num_wires s + 2) (length (uptree s))) as [Hr|Hr]; cbn [negb] in Hin; [|destruct Hin].
      destruct (Nat.ltb W 2); [destruct Hin|].
      destruct Hin as [<-|[]]. cbn in Hs'.
      destruct (Nat.leb_spec (num_wires s + 2) m) as [_|C]; [|lia]. cbn [negb]. left.
      unfold both_res, shrink, add_action, mul_gamma. cbn [wiremap num_wires uptree width no_merge gamma_UB actions level].
      rewrite !upd_firstn. unfold width_at. cbn [width]. rewrite !nth_firstn_lt by lia. reflexivity.
  Qed.

  (* number of new wires and cost factor of a successor *)
  Lemma prim_wires k s g l s' : LI s -> gq g -> gamma_ok g -> next_state_primitive k s g W = Val l -> In s' l ->
    exists w f, num_wires s' = num_wires s + w /\ (gamma_UB s' == gamma_UB s * f)%Q /\
                (inject_Z (4 ^ Z.of_nat w) <= f)%Q.
  Proof.
    intros L Gq Gk Hl Hin. destruct k; cbn [next_state_primitive] in Hl.
    - destruct (apply_explicit s g L Gq) as (b & _ & Ha). rewrite Ha in Hl. injection Hl as <-.
      exists 0, 1%Q. rewrite Nat.add_0_r, Qmult_1_r.
      destruct (Nat.eqb _ _); [destruct Hin as [<-|[]]; repeat split; try reflexivity; apply Qle_refl|].
      destruct (Nat.ltb _ _); [destruct Hin|]. destruct b; [destruct Hin|]. destruct Hin as [<-|[]].
      repeat split; try reflexivity. apply Qle_refl.
    - rewrite (gate_explicit s g L Gq) in Hl. injection Hl as <-.
      destruct (g_gamma g) as [gam|] eqn:Eg; [|destruct Hin]. destruct (Nat.eqb _ _); [destruct Hin|]. destruct Hin as [<-|[]].
      exists 0, gam. rewrite Nat.add_0_r. repeat split; try reflexivity. exact (Gk gam Eg).
    - rewrite (left_explicit s g L Gq) in Hl. injection Hl as <-.
      destruct (negb _); [destruct Hin|]. destruct (Nat.eqb _ _); [destruct Hin|]. destruct (negb _); [destruct Hin|].
      destruct Hin as [<-|[]]. exists 1, 4%Q. cbn. repeat split; try lia; try reflexivity. discriminate.
    - rewrite (right_explicit s g L Gq) in Hl. injection Hl as <-.
      destruct (negb _); [destruct Hin|]. destruct (Nat.eqb _ _); [destruct Hin|]. destruct (negb _); [destruct Hin|].
      destruct Hin as [<-|[]]. exists 1, 4%Q. cbn. repeat split; try lia; try reflexivity. discriminate.
    - rewrite (both_explicit s g L Gq) in Hl. injection Hl as <-.
      destruct (negb _); [destruct Hin|]. destruct (Nat.ltb _ _); [destruct Hin|].
      destruct Hin as [<-|[]]. exists 2, 16%Q. cbn. repeat split; try lia; try reflexivity. discriminate.
  Qed.
End Explicit.

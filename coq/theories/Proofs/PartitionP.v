(* Proofs/PartitionP.v — lemmas about Model/Partition.v (property C10):
   partition_circuit_qubits / numbering / TwoQubitQPDGate halves, sub-observables (keys, tensor product,
   repaired idle-qubit behaviour F4), refusals of partition_problem. *)
From Coq Require Import Sorted Permutation Relations.
From CKT Require Import Common.Base Common.Circ Model.Observables Proofs.ObservablesP Model.Separate Model.Partition
  Proofs.SeparateP.

(* ================= PartitionP part 1: cutting and numbering ================= *)
Section Cuts.
  Variable basis_of : op -> option (nat * qlabel).
  Variable relabel : qlabel -> nat.

  (* one step of partition_circuit_qubits: unchanged, or a spanning two-qubit gate replaced by a placeholder *)
  Definition pcq_rel (labels : list label) (i i' : instr) : Prop :=
    i' = i \/
    (exists b lbl, basis_of (iop i) = Some (b, lbl) /\ i' = mkI (Qpd2 b None lbl) (iqs i) [] /\
                   is_barrier i = false /\ is_qpd2 i = false /\ length (iqs i) = 2 /\
                   length (span_labels labels (iqs i)) <> 1).

  Lemma pcq_step_rel labels i i' : pcq_step basis_of labels i = Ok i' -> pcq_rel labels i i'.
  Proof.
    unfold pcq_step. destruct (is_barrier i) eqn:IB; [intros H; inversion H; now left|].
    destruct (Nat.leb_spec (length (iqs i)) 1) as [L1|L1]; simpl; [intros H; inversion H; now left|].
    destruct (Nat.eqb_spec (length (span_labels labels (iqs i))) 1) as [S1|S1]; [intros H; inversion H; now left|].
    destruct (Nat.ltb_spec 2 (length (iqs i))) as [L2|L2]; [discriminate|].
    destruct (iop i) eqn:EO; try (intros H; inversion H; now left);
      (destruct (basis_of _) as [[bb ll]|] eqn:EB; [|discriminate]; intros H; inversion H; subst; right;
       exists bb, ll; repeat split; auto; try lia; try (unfold is_qpd2; now rewrite EO)).
  Qed.

  Lemma pcq_loop_rel labels : forall c qc, pcq_loop basis_of labels c = Ok qc -> Forall2 (pcq_rel labels) c qc.
  Proof.
    induction c as [|i r IH]; simpl; intros qc H; [inversion H; constructor|].
    destruct (pcq_step basis_of labels i) as [i'| |] eqn:ES; try discriminate.
    destruct (pcq_loop basis_of labels r) as [r'| |]; try discriminate. inversion H; subst.
    constructor; [now apply pcq_step_rel|now apply IH].
  Qed.

  Definition qpd2s (c : circ) : circ := filter is_qpd2 c.
  Definition qbasis (i : instr) : nat := match iop i with Qpd2 b _ _ => b | _ => 0 end.
  Definition relabel_instr (k : nat) (i : instr) : instr :=
    match iop i with
    | Qpd2 b bid lbl => mkI (Qpd2 b bid (Some (relabel lbl, Some k))) (iqs i) (ics i)
    | _ => i
    end.

  Lemma qpd2s_cons x r : qpd2s (x :: r) = if is_qpd2 x then x :: qpd2s r else qpd2s r.
  Proof. reflexivity. Qed.

  Lemma number_cons x r i :
    number_qpd relabel (x :: r) i =
    if is_qpd2 x then (relabel_instr i x :: fst (number_qpd relabel r (S i)), qbasis x :: snd (number_qpd relabel r (S i)))
    else (x :: fst (number_qpd relabel r i), snd (number_qpd relabel r i)).
  Proof.
    simpl. unfold is_qpd2, relabel_instr, qbasis.
    destruct (iop x); try (destruct (number_qpd relabel r i); reflexivity).
    destruct (number_qpd relabel r (S i)); reflexivity.
  Qed.

  Lemma number_bases : forall c i, snd (number_qpd relabel c i) = map qbasis (qpd2s c).
  Proof.
    induction c as [|x r IH]; intros i; [reflexivity|]. rewrite number_cons, qpd2s_cons.
    destruct (is_qpd2 x); simpl; now rewrite IH.
  Qed.

  Lemma number_In : forall c i k x, nth_error (qpd2s c) k = Some x ->
    In (relabel_instr (i + k) x) (fst (number_qpd relabel c i)).
  Proof.
    induction c as [|y r IH]; intros i k x H; [destruct k; discriminate|].
    rewrite number_cons. rewrite qpd2s_cons in H. destruct (is_qpd2 y); simpl.
    - destruct k as [|k]; simpl in H.
      + inversion H; subst x. left. now rewrite Nat.add_0_r.
      + right. replace (i + S k) with (S i + k) by lia. now apply IH.
    - right. now apply IH.
  Qed.

  Lemma number_barriers : forall c i x, In x (fst (number_qpd relabel c i)) -> is_barrier x = true -> In x c.
  Proof.
    induction c as [|y r IH]; intros i x H IB; [exact H|].
    rewrite number_cons in H. destruct (is_qpd2 y) eqn:IQ; simpl in H; destruct H as [H|H].
    - subst x. unfold relabel_instr, is_qpd2 in *. destruct (iop y); try discriminate.
    - right. now apply (IH (S i)).
    - now left.
    - right. now apply (IH i).
  Qed.

  Lemma pcq_barriers labels c qc x :
    Forall2 (pcq_rel labels) c qc -> In x qc -> is_barrier x = true -> In x c.
  Proof.
    induction 1 as [|i i' c qc R HF IH]; intros Hx IB; [exact Hx|].
    destruct Hx as [<-|Hx]; [|right; now apply IH].
    destruct R as [->|[b [lbl [_ [-> _]]]]]; [now left|discriminate].
  Qed.

  Lemma expand_barriers c x : In x (expand_qpd2 c) -> is_barrier x = true -> In x c.
  Proof.
    unfold expand_qpd2. intros H IB. apply in_flat_map in H as [y [Hy H]]. unfold expand_instr in H.
    destruct (iop y) eqn:EO; try (destruct H as [<-|[]]; exact Hy).
    destruct (iqs y) as [|a [|q [|? ?]]]; try (destruct H as [<-|[]]; exact Hy).
    destruct H as [<-|[<-|[]]]; discriminate.
  Qed.

  Lemma expand_halves c y b bid lbl a q :
    In y c -> iop y = Qpd2 b bid lbl -> iqs y = [a; q] ->
    In (mkI (Qpd1 b 0 bid lbl) [a] []) (expand_qpd2 c) /\ In (mkI (Qpd1 b 1 bid lbl) [q] []) (expand_qpd2 c).
  Proof.
    intros Hy EO EQ. unfold expand_qpd2. split; apply in_flat_map; exists y; split; auto;
      unfold expand_instr; rewrite EO, EQ; simpl; auto.
  Qed.
End Cuts.

Lemma remap_all_In qs cl : forall c c' x, remap_all qs cl c = Some c' -> In x c ->
  exists x', remap_instr qs cl x = Some x' /\ In x' c'.
Proof.
  induction c as [|i r IH]; simpl; intros c' x H Hx; [destruct Hx|].
  destruct (remap_instr qs cl i) as [i'|] eqn:E; [|discriminate].
  destruct (remap_all qs cl r) as [r'|] eqn:ER; [|discriminate]. inversion H; subst.
  destruct Hx as [<-|Hx].
  - exists i'. split; [exact E|now left].
  - destruct (IH r' x eq_refl Hx) as [x' [A B]]. exists x'. split; [exact A|now right].
Qed.

Lemma uuid_barrier x : uuid_of x <> None -> is_barrier x = true.
Proof. unfold uuid_of, is_barrier. destruct (iop x); congruence. Qed.

(* ================= PartitionP part 2: partition_problem ================= *)
Lemma separate_circuit_explicit n cregs c ls r :
  separate_circuit n cregs c (Some ls) = Ok r ->
  has_empty_barrier c = false /\ separate_with n cregs (split_spec 0 c) ls = Ok r.
Proof.
  unfold separate_circuit. destruct (has_empty_barrier c) eqn:E; [discriminate|].
  rewrite split_barriers_spec by exact E. auto.
Qed.

(* contract of the oracle [dx] = QuantumCircuit.decompose(TwoQubitQPDGate) *)
Definition wire_of (q : nat) (c : circ) : circ := filter (touches q) c.
Definition dx_contract (dx : circ -> circ) : Prop :=
  forall c, Permutation (dx c) (expand_qpd2 c) /\ forall q, wire_of q (dx c) = wire_of q (expand_qpd2 c).

Lemma dx_contract_id : dx_contract expand_qpd2.
Proof. intros c. split; [apply Permutation_refl|reflexivity]. Qed.

Section Problem.
  Variable basis_of : op -> option (nat * qlabel).
  Variable relabel : qlabel -> nat.
  Variable dx : circ -> circ.
  Hypothesis DX : dx_contract dx.

  Definition labels_used (n : nat) (c : circ) (labels : option (list label)) : list label :=
    match labels with Some ls => ls | None => auto_labels n is_qpd2 false c end.

  (* inversion of a successful call *)
  Lemma partition_problem_ok n ncl ncr c labels obs subs bases so :
    partition_problem basis_of relabel dx n ncl ncr c labels obs = Ok (subs, bases, so) ->
    let ls := labels_used n c labels in
    ncl = 0 /\ ncr = 0 /\
    (forall ps, obs = Some ps -> forall p, In p ps -> length (plets p) = n /\ pphase p = 0) /\
    exists qc qm,
      partition_circuit_qubits basis_of n c ls = Ok qc /\
      bases = snd (number_qpd relabel qc 0) /\
      separate_circuit n [] (dx (fst (number_qpd relabel qc 0))) (Some ls) = Ok (subs, qm) /\
      match obs with
      | None | Some [] => so = None
      | Some ps => exists so', sub_observables ls ps = Ok so' /\ so = Some so'
      end.
  Proof.
    unfold partition_problem. fold (labels_used n c labels). intros H. cbv zeta.
    destruct (match labels with Some ls => negb (length ls =? n) | None => false end); [discriminate|].
    destruct (match obs with Some ps => existsb (fun p => negb (length (plets p) =? n)) ps | None => false end) eqn:E1;
      [discriminate|].
    destruct (match obs with Some ps => existsb (fun p => negb (pphase p =? 0)) ps | None => false end) eqn:E2;
      [discriminate|].
    destruct (Nat.eqb_spec ncr 0) as [Hr|]; [|discriminate].
    destruct (Nat.eqb_spec ncl 0) as [Hl|]; [|discriminate]. simpl in H.
    split; [exact Hl|]. split; [exact Hr|]. split.
    { intros ps -> p Hp. split.
      - destruct (Nat.eqb_spec (length (plets p)) n) as [E|N]; [exact E|]. exfalso.
        assert (X : existsb (fun p => negb (length (plets p) =? n)) ps = true).
        { apply existsb_exists. exists p. split; auto. apply negb_true_iff. now apply Nat.eqb_neq. }
        congruence.
      - destruct (Nat.eqb_spec (pphase p) 0) as [E|N]; [exact E|]. exfalso.
        assert (X : existsb (fun p => negb (pphase p =? 0)) ps = true).
        { apply existsb_exists. exists p. split; auto. apply negb_true_iff. now apply Nat.eqb_neq. }
        congruence. }
    destruct (partition_circuit_qubits basis_of n c (labels_used n c labels)) as [qc| |] eqn:EP; try discriminate.
    destruct (number_qpd relabel qc 0) as [qc' bs] eqn:EN.
    destruct (separate_circuit n [] (dx qc') (Some (labels_used n c labels))) as [[subs' qm]| |] eqn:ES; try discriminate.
    exists qc, qm. split; [reflexivity|]. rewrite EN. simpl.
    destruct obs as [[|p ps]|].
    - inversion H; subst. repeat split; auto.
    - destruct (sub_observables (labels_used n c labels) (p :: ps)) as [so'| |] eqn:EO; try discriminate.
      inversion H; subst. repeat split; auto. exists so'. auto.
    - inversion H; subst. repeat split; auto.
  Qed.

  (* barriers of the circuit handed to separate_circuit are barriers of the input *)
  Lemma problem_barriers labels c qc x :
    Forall2 (pcq_rel basis_of labels) c qc ->
    In x (dx (fst (number_qpd relabel qc 0))) -> is_barrier x = true -> In x c.
  Proof.
    intros HF Hx IB. destruct (DX (fst (number_qpd relabel qc 0))) as [PM _].
    apply (Permutation_in _ PM) in Hx. apply expand_barriers in Hx; auto.
    apply number_barriers in Hx; auto. eapply pcq_barriers; eauto.
  Qed.

  (* c10_cuts *)
  Theorem cuts_spec n ncl ncr c labels obs subs bases so :
    no_uuid c ->
    partition_problem basis_of relabel dx n ncl ncr c labels obs = Ok (subs, bases, so) ->
    let ls := labels_used n c labels in
    exists qc,
      partition_circuit_qubits basis_of n c ls = Ok qc /\
      Forall2 (pcq_rel basis_of ls) c qc /\
      bases = map qbasis (qpd2s qc) /\
      forall k x b bid lbl a q,
        nth_error (qpd2s qc) k = Some x -> iop x = Qpd2 b bid lbl -> iqs x = [a; q] ->
        let lbl' := Some (relabel lbl, Some k) in
        nth k bases 0 = b /\
        exists la lq na nq suba subq a' q',
          nth a ls None = Some la /\ nth q ls None = Some lq /\
          In (la, na, suba) subs /\ In (lq, nq, subq) subs /\
          index_of a (omembers ls la n) = Some a' /\ index_of q (omembers ls lq n) = Some q' /\
          In (mkI (Qpd1 b 0 bid lbl') [a'] []) suba /\ In (mkI (Qpd1 b 1 bid lbl') [q'] []) subq.
  Proof.
    intros NU H. cbv zeta. destruct (partition_problem_ok _ _ _ _ _ _ _ _ _ H) as [_ [_ [_ [qc [qm [EP [EB [ES _]]]]]]]].
    set (ls := labels_used n c labels) in *.
    exists qc. split; [exact EP|].
    assert (HF : Forall2 (pcq_rel basis_of ls) c qc).
    { unfold partition_circuit_qubits in EP. destruct (negb (length ls =? n)); [discriminate|].
      now apply pcq_loop_rel. }
    split; [exact HF|]. rewrite number_bases in EB. split; [exact EB|].
    intros k x b bid lbl a q Hk EO EQ.
    split.
    { rewrite EB. erewrite map_nth_lt with (d' := x).
      - apply nth_error_nth with (d := x) in Hk. rewrite Hk. unfold qbasis. now rewrite EO.
      - apply nth_error_Some. congruence. }
    set (qc' := fst (number_qpd relabel qc 0)) in *.
    apply separate_circuit_explicit in ES as [NEB ES].
    assert (NU' : no_uuid (dx qc')).
    { intros y Hy. destruct (uuid_of y) eqn:EU; [|reflexivity]. exfalso.
      assert (IB : is_barrier y = true) by (apply uuid_barrier; congruence).
      pose proof (problem_barriers ls c qc y HF Hy IB) as Hc. rewrite (NU y Hc) in EU. discriminate. }
    destruct (separate_with_ok n [] (dx qc') 0 ls subs qm NU' ES) as [Ln [_ [VAL [KEYS BODY]]]].
    pose proof (valid_from_split ls (dx qc') 0 VAL) as VL.
    (* the numbered placeholder and its two halves *)
    pose proof (number_In relabel qc 0 k x Hk) as Hy. simpl in Hy. fold qc' in Hy.
    unfold relabel_instr in Hy. rewrite EO in Hy.
    set (y := mkI (Qpd2 b bid (Some (relabel lbl, Some k))) (iqs x) (ics x)) in *.
    destruct (expand_halves qc' y b bid (Some (relabel lbl, Some k)) a q Hy eq_refl EQ) as [H0 H1].
    destruct (DX qc') as [PM _].
    apply (Permutation_in _ (Permutation_sym PM)) in H0. apply (Permutation_in _ (Permutation_sym PM)) in H1.
    assert (HALF : forall h w, In (mkI (Qpd1 b h bid (Some (relabel lbl, Some k))) [w] []) (dx qc') ->
              exists lw nw subw w', nth w ls None = Some lw /\ In (lw, nw, subw) subs /\
                index_of w (omembers ls lw n) = Some w' /\
                In (mkI (Qpd1 b h bid (Some (relabel lbl, Some k))) [w'] []) subw).
    { intros h w Hin. set (hh := mkI (Qpd1 b h bid (Some (relabel lbl, Some k))) [w] []) in *.
      destruct (VL hh Hin) as [V1 _]. destruct (V1 eq_refl) as [lw OL].
      destruct (restrict_unique ls hh lw eq_refl OL) as [RU _].
      destruct OL as [_ A]. specialize (A w (or_introl eq_refl)).
      assert (Hk' : In lw (keys_of ls)).
      { unfold keys_of, unique_by_eq. apply uniq_acc_In. right. unfold somes. apply in_flat_map.
        exists (Some lw). split; [|now left]. rewrite <- A. apply nth_In.
        destruct (Nat.lt_ge_cases w (length ls)) as [L|L]; [exact L|]. rewrite nth_overflow in A by exact L. discriminate. }
      rewrite <- KEYS in Hk'. apply in_map_iff in Hk' as [[[lw' nw] subw] [E Hs]]. simpl in E. subst lw'.
      destruct (BODY lw nw subw Hs) as [_ [_ RM]].
      assert (Hsrc : In hh (flat_map (restrict_instr ls lw) (dx qc'))).
      { apply in_flat_map. exists hh. split; [exact Hin|]. rewrite RU. now left. }
      destruct (remap_all_In _ _ _ _ hh RM Hsrc) as [hh' [RI Hh']].
      unfold remap_instr in RI. simpl in RI.
      destruct (index_of w (omembers ls lw n)) as [w'|] eqn:EI; [|discriminate]. simpl in RI.
      inversion RI; subst hh'. exists lw, nw, subw, w'. auto. }
    destruct (HALF 0 a H0) as [la [na [suba [a' [A1 [A2 [A3 A4]]]]]]].
    destruct (HALF 1 q H1) as [lq [nq [subq [q' [B1 [B2 [B3 B4]]]]]]].
    exists la, lq, na, nq, suba, subq, a', q'. repeat split; assumption.
  Qed.
End Problem.

(* ================= PartitionP part 3: sub-observables ================= *)
Lemma groups_from_keys : forall ls i g, map fst (groups_from ls i g) = uniq_acc ls (map fst g).
Proof.
  induction ls as [|l r IH]; intros i g; simpl; [reflexivity|].
  rewrite IH, add_to_group_fst.
  destruct (in_dec Nat.eq_dec l (map fst g)) as [I|NI].
  - apply memb_In in I. now rewrite I.
  - apply memb_false in NI. now rewrite NI.
Qed.

Definition nz (k : nat) : bool := negb (Nat.eqb k 0).

Lemma memb_pred_nz l acc : memb (S l) acc = memb l (map pred (filter nz acc)).
Proof.
  induction acc as [|x r IH]; simpl; [reflexivity|]. destruct x as [|x]; simpl; [exact IH|].
  now rewrite IH.
Qed.

Lemma keys_enc : forall ls acc,
  map pred (filter nz (uniq_acc (map enc ls) acc)) = uniq_acc (somes ls) (map pred (filter nz acc)).
Proof.
  induction ls as [|[l|] r IH]; intros acc; simpl; [reflexivity| |].
  - rewrite memb_pred_nz. destruct (memb l (map pred (filter nz acc))); [apply IH|].
    rewrite IH, filter_app, map_app. reflexivity.
  - destruct (memb 0 acc); [apply IH|]. rewrite IH, filter_app. simpl. now rewrite app_nil_r.
Qed.

Lemma nth_enc ls j : nth j (map enc ls) 0 = enc (nth j ls None).
Proof. change 0 with (enc None). apply map_nth. Qed.

Lemma members_enc ls l n : members (map enc ls) (S l) n = omembers ls l n.
Proof.
  unfold members, omembers. apply filter_ext. intros j. rewrite nth_enc.
  destruct (nth j ls None) as [k|]; simpl; reflexivity.
Qed.

Definition dec_entry (t : nat * list nat * list pauli) : nat * list pauli := (pred (fst (fst t)), snd t).
Definition nz_entry (t : nat * list nat * list pauli) : bool := negb (Nat.eqb (fst (fst t)) 0).

Lemma sub_observables_unfold ls ps :
  sub_observables ls ps =
  let D := decompose_observables (map enc ls) ps in
  if existsb (fun t => Nat.eqb (fst (fst t)) 0 && negb (forallb is_identity (snd t))) D then Refused
  else Ok (map dec_entry (filter nz_entry D)).
Proof. reflexivity. Qed.

(* keys of the sub-observables = non-None labels in first-appearance order = keys of the subcircuits *)
Theorem subobs_keys ls ps so : sub_observables ls ps = Ok so -> map fst so = keys_of ls.
Proof.
  rewrite sub_observables_unfold. cbv zeta. destruct (existsb _ _); [discriminate|]. intros H; inversion H; subst so.
  unfold decompose_observables. rewrite filter_map_comm, !map_map.
  transitivity (map pred (filter nz (map fst (qubits_by_subsystem (map enc ls))))).
  - rewrite (filter_map_comm nz fst), map_map. reflexivity.
  - unfold qubits_by_subsystem. rewrite groups_from_keys. simpl. rewrite keys_enc. reflexivity.
Qed.

(* the entries: restriction to the qubits of the label, in the subcircuit's qubit order *)
Theorem subobs_entries ls ps so l subs_l :
  sub_observables ls ps = Ok so -> In (l, subs_l) so ->
  subs_l = map (restrict1 (omembers ls l (length ls))) ps.
Proof.
  rewrite sub_observables_unfold. cbv zeta. destruct (existsb _ _); [discriminate|]. intros H; inversion H; subst so.
  intros Hin. apply in_map_iff in Hin as [[[k qs] sb] [E Hin]]. unfold dec_entry in E. simpl in E. inversion E; subst l sb.
  apply filter_In in Hin as [Hin NZ]. unfold nz_entry in NZ. simpl in NZ.
  destruct (decompose_spec (map enc ls) ps) as [_ [_ CH]]. destruct (CH _ _ _ Hin) as [Eq [_ Es]].
  rewrite map_length in Eq. destruct k as [|k]; [discriminate|]. simpl. rewrite Es, Eq. now rewrite members_enc.
Qed.

(* a successful call means every observable is the identity on the None-labelled qubits *)
Lemma subobs_ok_identity ls ps so :
  sub_observables ls ps = Ok so ->
  forall p q, In p ps -> q < length ls -> nth q ls None = None -> nth q (plets p) 0 = 0.
Proof.
  rewrite sub_observables_unfold. cbv zeta. destruct (existsb _ _) eqn:EX; [discriminate|]. intros _ p q Hp Hq Eq.
  destruct (decompose_spec (map enc ls) ps) as [_ [CV CH]].
  assert (K0 : In 0 (map (fun t : nat * list nat * list pauli => fst (fst t)) (decompose_observables (map enc ls) ps))).
  { specialize (CV q). rewrite map_length, nth_enc, Eq in CV. now apply CV. }
  apply in_map_iff in K0 as [[[k qs] sb] [Ek Hin]]. simpl in Ek. subst k.
  destruct (CH _ _ _ Hin) as [Eqs [_ Esb]]. rewrite map_length in Eqs.
  assert (ID : forallb is_identity sb = true).
  { destruct (forallb is_identity sb) eqn:F; [reflexivity|]. exfalso.
    assert (X : existsb (fun t : nat * list nat * list pauli => (fst (fst t) =? 0) && negb (forallb is_identity (snd t)))
                  (decompose_observables (map enc ls) ps) = true).
    { apply existsb_exists. exists (0, qs, sb). split; [exact Hin|]. simpl. now rewrite F. }
    congruence. }
  rewrite forallb_forall in ID. specialize (ID (restrict1 qs p)).
  assert (Hr : In (restrict1 qs p) sb) by (rewrite Esb; now apply in_map).
  specialize (ID Hr). unfold is_identity in ID. rewrite forallb_forall in ID.
  assert (Hq' : In q qs).
  { rewrite Eqs. apply members_in. split; [exact Hq|]. now rewrite nth_enc, Eq. }
  apply In_nth with (d := 0) in Hq' as [k [Hk Ek]].
  specialize (ID (nth k (plets (restrict1 qs p)) 0)).
  rewrite restrict1_nth in ID by exact Hk. rewrite Ek in ID.
  assert (X : (0 =? nth q (plets p) 0) = true).
  { apply ID. rewrite <- Ek, <- restrict1_nth by exact Hk. apply nth_In. now rewrite restrict1_length. }
  apply Nat.eqb_eq in X. now symmetry.
Qed.

(* ... and conversely a non-identity letter on such a qubit is refused (repaired behaviour F4) *)
Theorem subobs_refused ls ps p q :
  In p ps -> q < length ls -> nth q ls None = None -> nth q (plets p) 0 <> 0 ->
  sub_observables ls ps = Refused.
Proof.
  intros Hp Hq Eq NZ. destruct (sub_observables ls ps) as [so| |] eqn:E; [|reflexivity|].
  - exfalso. apply NZ. exact (subobs_ok_identity ls ps so E p q Hp Hq Eq).
  - exfalso. rewrite sub_observables_unfold in E. cbv zeta in E. destruct (existsb _ _); discriminate.
Qed.

Theorem subobs_ok ls ps :
  (forall p q, In p ps -> q < length ls -> nth q ls None = None -> nth q (plets p) 0 = 0) ->
  (forall p, In p ps -> length (plets p) = length ls) ->
  exists so, sub_observables ls ps = Ok so.
Proof.
  intros ID LEN. rewrite sub_observables_unfold. cbv zeta.
  destruct (existsb _ _) eqn:EX; [|eauto]. exfalso.
  apply existsb_exists in EX as [[[k qs] sb] [Hin H]]. simpl in H. apply andb_true_iff in H as [K F].
  apply Nat.eqb_eq in K. subst k. apply negb_true_iff in F.
  destruct (decompose_spec (map enc ls) ps) as [_ [_ CH]]. destruct (CH _ _ _ Hin) as [Eqs [_ Esb]].
  rewrite map_length in Eqs.
  assert (T : forallb is_identity sb = true); [|congruence].
  apply forallb_forall. intros r Hr. rewrite Esb in Hr. apply in_map_iff in Hr as [p [<- Hp]].
  unfold is_identity, restrict1. simpl. apply forallb_forall. intros x Hx.
  apply in_map_iff in Hx as [j [<- Hj]]. rewrite Eqs in Hj. apply members_in in Hj as [Hj Ej].
  rewrite nth_enc in Ej. destruct (nth j ls None) eqn:EN; [discriminate|].
  rewrite (ID p j Hp Hj EN). reflexivity.
Qed.

(* tensor product: scattering every sub-observable back onto its qubits gives the original string *)
Theorem subobs_tensor ls ps so j :
  sub_observables ls ps = Ok so -> j < length ps ->
  length (plets (nth j ps pI)) = length ls ->
  recombine1 (length ls)
    (map (fun e : nat * list pauli => (omembers ls (fst e) (length ls), nth j (snd e) pI)) so)
  = plets (nth j ps pI).
Proof.
  intros H Hj LEN. set (p := nth j ps pI) in *. set (n := length ls) in *.
  assert (Hp : In p ps) by (apply nth_In; exact Hj).
  assert (E1 : map (fun e : nat * list pauli => (omembers ls (fst e) n, nth j (snd e) pI)) so
             = map (fun qs => (qs, restrict1 qs (mkP 0 (plets p)))) (map (fun l => omembers ls l n) (keys_of ls))).
  { rewrite <- (subobs_keys ls ps so H), !map_map. apply map_ext_in. intros [l sb] Hin. simpl.
    rewrite (subobs_entries ls ps so l sb H Hin). fold n.
    rewrite (map_nth_lt _ _ _ pI pI) by exact Hj. reflexivity. }
  rewrite E1. unfold recombine1.
  assert (FL : forall (gs : list (list nat * pauli)) acc,
      length (fold_left (fun a g => scatter (fst g) (plets (snd g)) a) gs acc) = length acc).
  { induction gs as [|g r IH]; intros acc; simpl; [reflexivity|]. now rewrite IH, scatter_length. }
  apply nth_ext with (d := 0) (d' := 0); [rewrite FL, repeat_length; now symmetry|].
  intros x Hx. rewrite FL, repeat_length in Hx.
  rewrite recombine_fold.
  - destruct (existsb _ _) eqn:EX; [reflexivity|]. rewrite nth_repeat.
    destruct (nth x ls None) as [l|] eqn:EL.
    + exfalso.
      assert (X : existsb (fun g : list nat => if in_dec Nat.eq_dec x g then true else false)
                    (map (fun l => omembers ls l n) (keys_of ls)) = true).
      { apply existsb_exists. exists (omembers ls l n). split.
        - apply (in_map (fun l0 => omembers ls l0 n)). unfold keys_of, unique_by_eq. apply uniq_acc_In. right. unfold somes.
          apply in_flat_map. exists (Some l). split; [|now left]. rewrite <- EL. now apply nth_In.
        - destruct (in_dec Nat.eq_dec x (omembers ls l n)) as [|N]; [reflexivity|]. exfalso. apply N.
          apply omembers_in. auto. }
      congruence.
    + symmetry. exact (subobs_ok_identity ls ps so H p x Hp Hx EL).
  - intros g q Hg Hq. rewrite repeat_length. apply in_map_iff in Hg as [l [<- _]].
    apply omembers_in in Hq. tauto.
Qed.

(* ================= PartitionP part 4: keys, recomposition, refusals ================= *)
Section Problem2.
  Variable basis_of : op -> option (nat * qlabel).
  Variable relabel : qlabel -> nat.
  Variable dx : circ -> circ.
  Hypothesis DX : dx_contract dx.

  Lemma problem_no_uuid ls c qc :
    no_uuid c -> Forall2 (pcq_rel basis_of ls) c qc -> no_uuid (dx (fst (number_qpd relabel qc 0))).
  Proof.
    intros NU HF y Hy. destruct (uuid_of y) eqn:EU; [|reflexivity]. exfalso.
    assert (IB : is_barrier y = true) by (apply uuid_barrier; congruence).
    pose proof (problem_barriers basis_of relabel dx DX ls c qc y HF Hy IB) as Hc.
    rewrite (NU y Hc) in EU. discriminate.
  Qed.

  Lemma pcq_ok_rel n c ls qc : partition_circuit_qubits basis_of n c ls = Ok qc -> Forall2 (pcq_rel basis_of ls) c qc.
  Proof.
    unfold partition_circuit_qubits. destruct (negb (length ls =? n)); [discriminate|]. apply pcq_loop_rel.
  Qed.

  (* sub-observables are returned for exactly the returned subcircuits, in the same order *)
  Theorem problem_subobs_keys n ncl ncr c labels obs subs bases so :
    no_uuid c ->
    partition_problem basis_of relabel dx n ncl ncr c labels obs = Ok (subs, bases, so) ->
    match so with
    | Some so' => map fst so' = map (fun s : subcirc => fst (fst s)) subs
    | None => obs = None \/ obs = Some []
    end.
  Proof.
    intros NU H. destruct (partition_problem_ok _ _ _ _ _ _ _ _ _ _ _ _ H) as [_ [_ [_ [qc [qm [EP [_ [ES EO]]]]]]]].
    set (ls := labels_used n c labels) in *.
    destruct obs as [[|p ps]|]; try (subst so; auto).
    destruct EO as [so' [EO ->]].
    apply separate_circuit_explicit in ES as [_ ES].
    pose proof (problem_no_uuid ls c qc NU (pcq_ok_rel _ _ _ _ EP)) as NU'.
    destruct (separate_with_ok n [] _ 0 ls subs qm NU' ES) as [_ [_ [_ [KEYS _]]]].
    rewrite KEYS. now apply (subobs_keys ls (p :: ps)).
  Qed.

  (* the subcircuits recompose, wire by wire, to the cut circuit (every placeholder expanded into its halves) *)
  Theorem problem_recompose n ncl ncr c labels obs subs bases so :
    no_uuid c ->
    partition_problem basis_of relabel dx n ncl ncr c labels obs = Ok (subs, bases, so) ->
    let ls := labels_used n c labels in
    exists qc, partition_circuit_qubits basis_of n c ls = Ok qc /\
      let cut := expand_qpd2 (fst (number_qpd relabel qc 0)) in
      length ls = n /\
      map (fun s : subcirc => fst (fst s)) subs = keys_of ls /\
      (forall l nq body, In (l, nq, body) subs ->
         nq = length (omembers ls l n) /\
         forall q, nth q ls None = Some l ->
           wire_view q (map (unmap_instr (omembers ls l n) []) body) = wire_view q cut) /\
      (forall q, nth q ls None = None -> wire_view q cut = []).
  Proof.
    intros NU H. cbv zeta. destruct (partition_problem_ok _ _ _ _ _ _ _ _ _ _ _ _ H) as [_ [_ [_ [qc [qm [EP [_ [ES _]]]]]]]].
    set (ls := labels_used n c labels) in *. exists qc. split; [exact EP|].
    set (qc' := fst (number_qpd relabel qc 0)) in *.
    pose proof (problem_no_uuid ls c qc NU (pcq_ok_rel _ _ _ _ EP)) as NU'. fold qc' in NU'.
    destruct (separate_spec n [] (dx qc') (Some ls) subs qm NU' ES) as [Ln [V [KEYS [_ [_ BODY]]]]].
    simpl sep_labels in *.
    assert (WV : forall q, wire_view q (dx qc') = wire_view q (expand_qpd2 qc')).
    { intros q. unfold wire_view. fold (wire_of q (dx qc')). fold (wire_of q (expand_qpd2 qc')).
      destruct (DX qc') as [_ W]. now rewrite W. }
    split; [exact Ln|]. split; [exact KEYS|]. split.
    - intros l nq body Hin. destruct (BODY l nq body Hin) as [_ [Enq RM]]. split; [exact Enq|].
      intros q Eq. change (clbits_of []) with (@nil nat) in RM.
      rewrite (remap_all_unmap _ _ _ _ RM). rewrite <- WV. now apply wire_view_restrict.
    - intros q Eq. rewrite <- WV. now apply (wire_view_dropped ls).
  Qed.

  (* ---- refusals, in the order of the validations ---- *)
  Definition labels_ok (n : nat) (labels : option (list label)) : Prop :=
    match labels with Some ls => length ls = n | None => True end.
  Definition obs_sizes_ok (n : nat) (obs : option (list pauli)) : Prop :=
    match obs with Some ps => forall p, In p ps -> length (plets p) = n | None => True end.
  Definition obs_phases_ok (obs : option (list pauli)) : Prop :=
    match obs with Some ps => forall p, In p ps -> pphase p = 0 | None => True end.

  Theorem refuses_label_count n ncl ncr c ls obs :
    length ls <> n -> partition_problem basis_of relabel dx n ncl ncr c (Some ls) obs = Refused.
  Proof. intros N. unfold partition_problem. apply Nat.eqb_neq in N. now rewrite N. Qed.

  Lemma labels_ok_pass n labels : labels_ok n labels ->
    match labels with Some ls => negb (length ls =? n) | None => false end = false.
  Proof. destruct labels as [ls|]; simpl; [|reflexivity]. intros ->. now rewrite Nat.eqb_refl. Qed.

  Theorem refuses_obs_size n ncl ncr c labels ps p :
    labels_ok n labels -> In p ps -> length (plets p) <> n ->
    partition_problem basis_of relabel dx n ncl ncr c labels (Some ps) = Refused.
  Proof.
    intros LO Hp N. unfold partition_problem. rewrite (labels_ok_pass n labels LO).
    assert (X : existsb (fun p => negb (length (plets p) =? n)) ps = true).
    { apply existsb_exists. exists p. split; auto. apply negb_true_iff. now apply Nat.eqb_neq. }
    now rewrite X.
  Qed.

  Lemma sizes_ok_pass n ps : (forall p, In p ps -> length (plets p) = n) ->
    existsb (fun p => negb (length (plets p) =? n)) ps = false.
  Proof.
    intros H. destruct (existsb _ ps) eqn:E; [|reflexivity]. apply existsb_exists in E as [p [Hp E]].
    rewrite (H p Hp), Nat.eqb_refl in E. discriminate.
  Qed.

  Theorem refuses_phase n ncl ncr c labels ps p :
    labels_ok n labels -> obs_sizes_ok n (Some ps) -> In p ps -> pphase p <> 0 ->
    partition_problem basis_of relabel dx n ncl ncr c labels (Some ps) = Refused.
  Proof.
    intros LO SO Hp N. unfold partition_problem. rewrite (labels_ok_pass n labels LO). simpl in SO.
    rewrite (sizes_ok_pass n ps SO).
    assert (X : existsb (fun p => negb (pphase p =? 0)) ps = true).
    { apply existsb_exists. exists p. split; auto. apply negb_true_iff. now apply Nat.eqb_neq. }
    now rewrite X.
  Qed.

  Lemma obs_pass n obs : obs_sizes_ok n obs -> obs_phases_ok obs ->
    match obs with Some ps => existsb (fun p => negb (length (plets p) =? n)) ps | None => false end = false /\
    match obs with Some ps => existsb (fun p => negb (pphase p =? 0)) ps | None => false end = false.
  Proof.
    destruct obs as [ps|]; simpl; [|auto]. intros S P. split; [now apply sizes_ok_pass|].
    destruct (existsb _ ps) eqn:E; [|reflexivity]. apply existsb_exists in E as [p [Hp E]].
    rewrite (P p Hp) in E. discriminate.
  Qed.

  Theorem refuses_clbits n ncl ncr c labels obs :
    labels_ok n labels -> obs_sizes_ok n obs -> obs_phases_ok obs -> (ncl <> 0 \/ ncr <> 0) ->
    partition_problem basis_of relabel dx n ncl ncr c labels obs = Refused.
  Proof.
    intros LO SO PO N. unfold partition_problem. rewrite (labels_ok_pass n labels LO).
    destruct (obs_pass n obs SO PO) as [-> ->].
    destruct N as [N|N]; apply Nat.eqb_neq in N; rewrite N; simpl; [now rewrite orb_true_r|reflexivity].
  Qed.

  (* a gate that has to be cut but cannot be: more than two qubits, or no basis *)
  Definition uncuttable (ls : list label) (i : instr) : Prop :=
    is_barrier i = false /\ 1 < length (iqs i) /\ length (span_labels ls (iqs i)) <> 1 /\
    (2 < length (iqs i) \/ (is_qpd2 i = false /\ basis_of (iop i) = None)).

  Lemma pcq_step_uncuttable ls i : uncuttable ls i -> pcq_step basis_of ls i = Refused.
  Proof.
    intros [IB [L1 [SP W]]]. unfold pcq_step. rewrite IB.
    destruct (Nat.leb_spec (length (iqs i)) 1); [lia|]. apply Nat.eqb_neq in SP. rewrite SP. simpl.
    destruct W as [L2|[NQ NB]].
    - destruct (Nat.ltb_spec 2 (length (iqs i))); [reflexivity|lia].
    - destruct (Nat.ltb_spec 2 (length (iqs i))); [reflexivity|].
      unfold is_qpd2 in NQ. destruct (iop i); try discriminate; now rewrite NB.
  Qed.

  Lemma pcq_step_not_crashed ls i : pcq_step basis_of ls i <> Crashed.
  Proof.
    unfold pcq_step. destruct (is_barrier i); [discriminate|].
    destruct (_ || _); [discriminate|]. destruct (_ <? _); [discriminate|].
    destruct (iop i); try discriminate; destruct (basis_of _) as [[? ?]|]; discriminate.
  Qed.

  Lemma pcq_loop_refused ls : forall c i, In i c -> pcq_step basis_of ls i = Refused -> pcq_loop basis_of ls c = Refused.
  Proof.
    induction c as [|x r IH]; intros i Hi R; [destruct Hi|]. simpl.
    destruct Hi as [->|Hi]; [now rewrite R|].
    destruct (pcq_step basis_of ls x) eqn:E; [|reflexivity|exfalso; exact (pcq_step_not_crashed ls x E)].
    now rewrite (IH i Hi R).
  Qed.

  Theorem refuses_uncuttable n c labels obs i :
    labels_ok n labels -> obs_sizes_ok n obs -> obs_phases_ok obs ->
    In i c -> uncuttable (labels_used n c labels) i ->
    partition_problem basis_of relabel dx n 0 0 c labels obs = Refused.
  Proof.
    intros LO SO PO Hi U. unfold partition_problem. rewrite (labels_ok_pass n labels LO).
    destruct (obs_pass n obs SO PO) as [-> ->]. simpl. fold (labels_used n c labels).
    unfold partition_circuit_qubits.
    destruct (negb (length (labels_used n c labels) =? n)); [reflexivity|].
    now rewrite (pcq_loop_refused _ c i Hi (pcq_step_uncuttable _ i U)).
  Qed.

  (* repaired behaviour F4: an observable that acts on a dropped (None-labelled) qubit never yields a result *)
  Theorem idle_observable_never_ok n ncl ncr c labels ps p q r :
    In p ps -> q < n -> nth q (labels_used n c labels) None = None -> nth q (plets p) 0 <> 0 ->
    partition_problem basis_of relabel dx n ncl ncr c labels (Some ps) <> Ok r.
  Proof.
    intros Hp Hq Eq NZ H. destruct r as [[subs bases] so].
    destruct (partition_problem_ok _ _ _ _ _ _ _ _ _ _ _ _ H) as [_ [_ [_ [qc [qm [EP [_ [ES EO]]]]]]]].
    set (ls := labels_used n c labels) in *.
    assert (Ln : length ls = n).
    { unfold partition_circuit_qubits in EP. destruct (Nat.eqb_spec (length ls) n); [assumption|discriminate]. }
    destruct ps as [|p0 ps0]; [destruct Hp|]. destruct EO as [so' [EO _]].
    rewrite (subobs_refused ls (p0 :: ps0) p q Hp) in EO; auto; [discriminate|lia].
  Qed.
End Problem2.

(* ---- conjunctions quoted verbatim by Properties/C10.v ---- *)
Lemma subobs_spec ls ps so :
  sub_observables ls ps = Ok so ->
  map fst so = keys_of ls /\
  (forall l subs_l, In (l, subs_l) so -> subs_l = map (restrict1 (omembers ls l (length ls))) ps) /\
  forall j, j < length ps -> length (plets (nth j ps pI)) = length ls ->
    recombine1 (length ls)
      (map (fun e : nat * list pauli => (omembers ls (fst e) (length ls), nth j (snd e) pI)) so)
    = plets (nth j ps pI).
Proof.
  intros H. split; [exact (subobs_keys ls ps so H)|]. split.
  - intros l subs_l. exact (subobs_entries ls ps so l subs_l H).
  - intros j. exact (subobs_tensor ls ps so j H).
Qed.

Lemma problem_refuses_spec basis_of relabel dx n ncl ncr c :
  (forall ls obs, length ls <> n -> partition_problem basis_of relabel dx n ncl ncr c (Some ls) obs = Refused) /\
  (forall labels ps p, labels_ok n labels -> In p ps -> length (plets p) <> n ->
     partition_problem basis_of relabel dx n ncl ncr c labels (Some ps) = Refused) /\
  (forall labels ps p, labels_ok n labels -> obs_sizes_ok n (Some ps) -> In p ps -> pphase p <> 0 ->
     partition_problem basis_of relabel dx n ncl ncr c labels (Some ps) = Refused) /\
  (forall labels obs, labels_ok n labels -> obs_sizes_ok n obs -> obs_phases_ok obs -> (ncl <> 0 \/ ncr <> 0) ->
     partition_problem basis_of relabel dx n ncl ncr c labels obs = Refused) /\
  (forall labels obs i, labels_ok n labels -> obs_sizes_ok n obs -> obs_phases_ok obs ->
     In i c -> uncuttable basis_of (labels_used n c labels) i ->
     partition_problem basis_of relabel dx n 0 0 c labels obs = Refused).
Proof.
  split; [intros; now apply refuses_label_count|]. split; [intros; eapply refuses_obs_size; eauto|].
  split; [intros; eapply refuses_phase; eauto|]. split; [intros; now apply refuses_clbits|].
  intros; eapply refuses_uncuttable; eauto.
Qed.

Lemma idle_observable_spec ls ps :
  (forall p q, In p ps -> q < length ls -> nth q ls None = None -> nth q (plets p) 0 <> 0 ->
     sub_observables ls ps = Refused) /\
  ((forall p q, In p ps -> q < length ls -> nth q ls None = None -> nth q (plets p) 0 = 0) ->
   (forall p, In p ps -> length (plets p) = length ls) -> exists so, sub_observables ls ps = Ok so).
Proof. split; [intros p q; apply subobs_refused|apply subobs_ok]. Qed.

(* ================= the public sub-observables; totality ================= *)
Section Problem3.
  Variable basis_of : op -> option (nat * qlabel).
  Variable relabel : qlabel -> nat.
  Variable dx : circ -> circ.

  (* the sub-observables returned by partition_problem ARE [sub_observables] of the labels in force *)
  Theorem problem_subobs n ncl ncr c labels obs subs bases so :
    partition_problem basis_of relabel dx n ncl ncr c labels obs = Ok (subs, bases, Some so) ->
    exists ps, obs = Some ps /\ ps <> [] /\ length (labels_used n c labels) = n /\
               (forall p, In p ps -> length (plets p) = n) /\
               sub_observables (labels_used n c labels) ps = Ok so.
  Proof.
    intros H. destruct (partition_problem_ok _ _ _ _ _ _ _ _ _ _ _ _ H) as [_ [_ [SZ [qc [qm [EP [_ [_ EO]]]]]]]].
    assert (Ln : length (labels_used n c labels) = n).
    { unfold partition_circuit_qubits in EP.
      destruct (Nat.eqb_spec (length (labels_used n c labels)) n); [assumption|discriminate]. }
    destruct obs as [[|p ps]|]; try discriminate.
    destruct EO as [so' [EO E]]. inversion E; subst so'.
    exists (p :: ps). repeat split; auto; [discriminate|]. intros p0 Hp. now destruct (SZ _ eq_refl p0 Hp).
  Qed.

  Lemma pcq_step_refused ls i : pcq_step basis_of ls i = Refused -> uncuttable basis_of ls i.
  Proof.
    unfold pcq_step, uncuttable. destruct (is_barrier i) eqn:IB; [discriminate|].
    destruct (Nat.leb_spec (length (iqs i)) 1) as [L1|L1]; simpl; [discriminate|].
    destruct (Nat.eqb_spec (length (span_labels ls (iqs i))) 1) as [S1|S1]; [discriminate|].
    destruct (Nat.ltb_spec 2 (length (iqs i))) as [L2|L2]; [intros _; repeat split; auto|].
    unfold is_qpd2. destruct (iop i) eqn:EO; try discriminate;
      (destruct (basis_of _) as [[bb ll]|] eqn:EB; [discriminate|]; intros _; repeat split; auto; right; split; auto;
       now rewrite <- EO).
  Qed.

  Lemma pcq_loop_total ls : forall c, (forall i, In i c -> ~ uncuttable basis_of ls i) ->
    exists qc, pcq_loop basis_of ls c = Ok qc.
  Proof.
    induction c as [|i r IH]; intros H; simpl; [eauto|].
    destruct (pcq_step basis_of ls i) as [i'| |] eqn:ES.
    - destruct IH as [qc E]; [intros x Hx; apply H; now right|]. rewrite E. simpl. eauto.
    - exfalso. apply (H i (or_introl eq_refl)). now apply pcq_step_refused.
    - exfalso. exact (pcq_step_not_crashed basis_of ls i ES).
  Qed.

  (* totality of partition_problem, PARTIAL: the request passes the four validations, no gate is uncuttable, the
     observables are the identity on the None-labelled qubits; what is assumed rather than derived from the input
     is that the cut circuit (after decompose) has a valid labelling with every instruction on at least one qubit and
     without clbits — i.e. the missing part is  "every instruction of c acts on non-None-labelled qubits, at least one,
     pre-placed placeholders on exactly two  ==>  valid_labelling ls (dx (numbered cut circuit))". *)
  Theorem problem_total_partial n c labels obs :
    labels_ok n labels -> obs_sizes_ok n obs -> obs_phases_ok obs ->
    let ls := labels_used n c labels in
    length ls = n ->
    (forall i, In i c -> ~ uncuttable basis_of ls i) ->
    (forall qc, pcq_loop basis_of ls c = Ok qc ->
       let cut := dx (fst (number_qpd relabel qc 0)) in
       no_empty_instr cut /\ valid_labelling ls cut /\ clbits_ok [] cut) ->
    (forall ps p q, obs = Some ps -> In p ps -> q < n -> nth q ls None = None -> nth q (plets p) 0 = 0) ->
    exists r, partition_problem basis_of relabel dx n 0 0 c labels obs = Ok r.
  Proof.
    intros LO SO PO ls Ln NU CUT ID. unfold partition_problem. rewrite (labels_ok_pass n labels LO).
    destruct (obs_pass n obs SO PO) as [-> ->]. simpl. fold (labels_used n c labels). fold ls.
    unfold partition_circuit_qubits. rewrite Ln, Nat.eqb_refl. simpl.
    destruct (pcq_loop_total ls c NU) as [qc EP]. rewrite EP.
    destruct (number_qpd relabel qc 0) as [qc' bs] eqn:EN.
    destruct (CUT qc EP) as [NE [V CL]]. rewrite EN in *. simpl in *.
    destruct (separate_total n [] (dx qc') ls NE Ln V CL) as [subs ES]. rewrite ES.
    destruct obs as [[|p ps]|]; eauto.
    destruct (subobs_ok ls (p :: ps)) as [so Eso].
    - intros p0 q Hp Hq Eq. apply (ID (p :: ps) p0 q eq_refl Hp); [lia|exact Eq].
    - intros p0 Hp. rewrite Ln. exact (SO p0 Hp).
    - rewrite Eso. eauto.
  Qed.
End Problem3.

(* ================= full totality of partition_problem ================= *)
Definition span_step (ls : list label) (acc : list label) (q : nat) : list label :=
  let l := nth q ls None in if existsb (label_beq l) acc then acc else acc ++ [l].

Lemma span_labels_fold ls qs : span_labels ls qs = fold_left (span_step ls) qs [].
Proof. reflexivity. Qed.

Lemma span_fold_length ls : forall qs acc, length acc <= length (fold_left (span_step ls) qs acc).
Proof.
  induction qs as [|q r IH]; intros acc; simpl; [lia|]. unfold span_step at 2.
  destruct (existsb _ acc); [apply IH|]. specialize (IH (acc ++ [nth q ls None])). rewrite app_length in IH. simpl in IH. lia.
Qed.

Lemma span_fold_single ls l0 : forall qs,
  length (fold_left (span_step ls) qs [l0]) = 1 -> forall q, In q qs -> nth q ls None = l0.
Proof.
  induction qs as [|q r IH]; intros H x Hx; [destruct Hx|]. simpl in H. unfold span_step at 2 in H. simpl in H.
  destruct (label_beq (nth q ls None) l0) eqn:E; simpl in H.
  - apply okey_beq_eq in E. destruct Hx as [<-|Hx]; [exact E|]. now apply IH.
  - exfalso. pose proof (span_fold_length ls r ([l0] ++ [nth q ls None])) as L. simpl in L. simpl in H. lia.
Qed.

Lemma span_one ls qs : length (span_labels ls qs) = 1 ->
  forall q q', In q qs -> In q' qs -> nth q ls None = nth q' ls None.
Proof.
  rewrite span_labels_fold. destruct qs as [|q0 r]; [intros _ ? ? []|]. simpl. unfold span_step at 2. simpl.
  intros H q q' Hq Hq'.
  assert (A : forall x, In x (q0 :: r) -> nth x ls None = nth q0 ls None).
  { intros x [<-|Hx]; [reflexivity|]. now apply (span_fold_single ls (nth q0 ls None) r H). }
  now rewrite (A q Hq), (A q' Hq').
Qed.

Section Total.
  Variable basis_of : op -> option (nat * qlabel).
  Variable relabel : qlabel -> nat.
  Variable dx : circ -> circ.
  Hypothesis DX : dx_contract dx.

  Lemma pcq_step_cases ls i i' : pcq_step basis_of ls i = Ok i' ->
    (i' = i /\ (is_barrier i = true \/ length (iqs i) <= 1 \/ length (span_labels ls (iqs i)) = 1 \/ is_qpd2 i = true)) \/
    (exists b lbl, i' = mkI (Qpd2 b None lbl) (iqs i) [] /\ length (iqs i) = 2).
  Proof.
    unfold pcq_step. destruct (is_barrier i) eqn:IB; [intros HH; inversion HH; subst; left; split; [reflexivity|tauto]|].
    destruct (Nat.leb_spec (length (iqs i)) 1) as [L1|L1]; simpl;
      [intros HH; inversion HH; subst; left; split; [reflexivity|tauto]|].
    destruct (Nat.eqb_spec (length (span_labels ls (iqs i))) 1) as [S1|S1];
      [intros HH; inversion HH; subst; left; split; [reflexivity|tauto]|].
    destruct (Nat.ltb_spec 2 (length (iqs i))) as [L2|L2]; [discriminate|].
    unfold is_qpd2. destruct (iop i) eqn:EO;
      try (intros HH; inversion HH; subst; left; split; [reflexivity|tauto]);
      (destruct (basis_of _) as [[bb ll]|] eqn:EB; [|discriminate]; intros HH; inversion HH; right; exists bb, ll;
       split; [reflexivity|lia]).
  Qed.

  Lemma pcq_loop_steps ls : forall c qc, pcq_loop basis_of ls c = Ok qc ->
    forall y, In y qc -> exists i, In i c /\ pcq_step basis_of ls i = Ok y.
  Proof.
    induction c as [|i r IH]; simpl; intros qc H y Hy; [inversion H; subst; destruct Hy|].
    destruct (pcq_step basis_of ls i) as [i'| |] eqn:ES; try discriminate.
    destruct (pcq_loop basis_of ls r) as [r'| |] eqn:ER; try discriminate. inversion H; subst.
    destruct Hy as [<-|Hy]; [exists i; auto|]. destruct (IH r' eq_refl y Hy) as [j [Hj Ej]]. exists j. auto.
  Qed.

  Lemma number_In_inv : forall c i y, In y (fst (number_qpd relabel c i)) ->
    exists y0 k, In y0 c /\ y = relabel_instr relabel k y0.
  Proof.
    induction c as [|x r IH]; intros i y H; [destruct H|]. rewrite number_cons in H.
    destruct (is_qpd2 x) eqn:IQ; simpl in H; destruct H as [H|H].
    - exists x, i. split; [now left|now symmetry].
    - destruct (IH _ _ H) as [y0 [k [A B]]]. exists y0, k. split; [now right|exact B].
    - exists x, 0. split; [now left|]. subst y. unfold relabel_instr, is_qpd2 in *. destruct (iop x); try reflexivity. discriminate.
    - destruct (IH _ _ H) as [y0 [k [A B]]]. exists y0, k. split; [now right|exact B].
  Qed.

  Lemma relabel_instr_shape k y :
    iqs (relabel_instr relabel k y) = iqs y /\ ics (relabel_instr relabel k y) = ics y /\
    is_barrier (relabel_instr relabel k y) = is_barrier y /\ is_qpd2 (relabel_instr relabel k y) = is_qpd2 y.
  Proof. unfold relabel_instr, is_barrier, is_qpd2. destruct (iop y) eqn:E; simpl; rewrite ?E; auto. Qed.

  Lemma expand_In_inv c x : In x (expand_qpd2 c) ->
    (In x c /\ ~ (is_qpd2 x = true /\ length (iqs x) = 2)) \/
    (exists y a q, In y c /\ is_qpd2 y = true /\ iqs y = [a; q] /\ is_barrier x = false /\ ics x = [] /\ (iqs x = [a] \/ iqs x = [q])).
  Proof.
    unfold expand_qpd2. intros H. apply in_flat_map in H as [y [Hy H]]. unfold expand_instr in H.
    destruct (iop y) eqn:EO; try (destruct H as [<-|[]]; left; split; [exact Hy|]; unfold is_qpd2; rewrite EO; intros [X _]; discriminate).
    destruct (iqs y) as [|a [|q [|? ?]]] eqn:EQ;
      try (destruct H as [<-|[]]; left; split; [exact Hy|]; rewrite EQ; simpl; intros [_ X]; discriminate).
    right. exists y, a, q. unfold is_qpd2. rewrite EO. destruct H as [<-|[<-|[]]]; simpl; repeat split; auto.
  Qed.

  (* what the input must satisfy: every instruction acts on at least one qubit, all of them labelled, carries no clbit,
     and a pre-placed placeholder acts on exactly two qubits *)
  Definition input_ok (ls : list label) (c : circ) : Prop :=
    forall i, In i c ->
      iqs i <> [] /\ ics i = [] /\ (forall q, In q (iqs i) -> nth q ls None <> @None nat) /\
      (is_qpd2 i = true -> length (iqs i) = 2).

  Lemma needs_split_iqs a b : iqs a = iqs b -> is_barrier a = is_barrier b -> needs_split a = needs_split b.
  Proof. unfold needs_split. intros -> ->. reflexivity. Qed.

  Lemma labelled_some (ls : list (option nat)) q : nth q ls None <> None -> exists l, nth q ls None = Some l.
  Proof. destruct (nth q ls None) as [l|]; [eauto|congruence]. Qed.

  Lemma cut_circuit_valid ls c qc :
    input_ok ls c -> pcq_loop basis_of ls c = Ok qc ->
    let cut := dx (fst (number_qpd relabel qc 0)) in
    no_empty_instr cut /\ valid_labelling ls cut /\ clbits_ok [] cut.
  Proof.
    intros IO EP. cbv zeta.
    (* every instruction of the cut circuit: its qubits are qubits of an input instruction; shape facts *)
    assert (KEY : forall x, In x (dx (fst (number_qpd relabel qc 0))) ->
              iqs x <> [] /\ ics x = [] /\ (forall q, In q (iqs x) -> nth q ls None <> None) /\
              (needs_split x = false -> forall q q', In q (iqs x) -> In q' (iqs x) -> nth q ls None = nth q' ls None)).
    { intros x Hx. destruct (DX (fst (number_qpd relabel qc 0))) as [PM _].
      apply (Permutation_in _ PM) in Hx.
      assert (ORIG : forall y, In y (fst (number_qpd relabel qc 0)) ->
                exists i, In i c /\ iqs y = iqs i /\
                  ((ics y = ics i /\ is_barrier y = is_barrier i /\ is_qpd2 y = is_qpd2 i /\
                    (is_barrier i = true \/ length (iqs i) <= 1 \/ length (span_labels ls (iqs i)) = 1 \/ is_qpd2 i = true)) \/
                   (ics y = [] /\ is_barrier y = false /\ is_qpd2 y = true /\ length (iqs i) = 2))).
      { intros y Hy. destruct (number_In_inv _ _ _ Hy) as [y0 [k [Hy0 ->]]].
        destruct (relabel_instr_shape k y0) as [E1 [E2 [E3 E4]]].
        destruct (pcq_loop_steps ls c qc EP y0 Hy0) as [i [Hi ES]]. exists i. split; [exact Hi|].
        destruct (pcq_step_cases ls i y0 ES) as [[-> W]|[b [lbl [-> L2]]]].
        - split; [exact E1|]. left. auto.
        - split; [rewrite E1; reflexivity|]. right. rewrite E2, E3, E4. simpl. auto. }
      destruct (expand_In_inv _ _ Hx) as [[Hin NQ]|[y [a [q [Hy [YQ [EQ [XB [XC XQ]]]]]]]]].
      - destruct (ORIG x Hin) as [i [Hi [EI W]]]. destruct (IO i Hi) as [NE [IC [LAB Q2]]].
        rewrite EI. split; [exact NE|].
        destruct W as [[EC [EB [EQ2 W]]]|[EC [EB [EQ2 L2]]]].
        + split; [rewrite EC; exact IC|]. split; [exact LAB|].
          intros NS q q' Hq Hq'. rewrite (needs_split_iqs x i EI EB) in NS.
          destruct W as [W|[W|[W|W]]].
          * (* an unsplit barrier has one qubit *)
            unfold needs_split in NS. rewrite W in NS. simpl in NS. rewrite orb_false_r in NS.
            apply negb_false_iff in NS. apply Nat.eqb_eq in NS.
            destruct (iqs i) as [|z [|? ?]]; try discriminate. destruct Hq as [<-|[]]. destruct Hq' as [<-|[]]. reflexivity.
          * destruct (iqs i) as [|z [|? ?]]; simpl in W; try lia; [destruct Hq|].
            destruct Hq as [<-|[]]. destruct Hq' as [<-|[]]. reflexivity.
          * now apply (span_one ls (iqs i) W).
          * exfalso. apply NQ. split; [rewrite EQ2; exact W|]. rewrite EI. apply Q2. exact W.
        + exfalso. apply NQ. split; [exact EQ2|]. rewrite EI. exact L2.
      - destruct (ORIG y Hy) as [i [Hi [EI _]]]. destruct (IO i Hi) as [_ [_ [LAB _]]].
        rewrite EQ in EI.
        split; [destruct XQ as [-> | ->]; discriminate|]. split; [exact XC|]. split.
        + intros z Hz. apply LAB. rewrite <- EI. destruct XQ as [E|E]; rewrite E in Hz; destruct Hz as [<-|[]]; simpl; auto.
        + intros _ z z' Hz Hz'. destruct XQ as [E|E]; rewrite E in Hz, Hz';
            destruct Hz as [<-|[]]; destruct Hz' as [<-|[]]; reflexivity. }
    split; [|split].
    - intros x Hx. now destruct (KEY x Hx).
    - intros x Hx. destruct (KEY x Hx) as [NE [_ [LAB SAME]]]. split.
      + intros NS. destruct (iqs x) as [|q0 r] eqn:EQ; [congruence|].
        destruct (labelled_some ls q0) as [l El]; [apply LAB; now left|].
        exists l. split; [rewrite EQ; discriminate|]. intros q Hq. rewrite EQ in Hq.
        rewrite (SAME NS q q0 Hq (or_introl eq_refl)). exact El.
      + intros _ q Hq. apply labelled_some. now apply LAB.
    - intros x k Hx Hk. destruct (KEY x Hx) as [_ [IC _]]. rewrite IC in Hk. destruct Hk.
  Qed.

  Theorem problem_total n c labels obs :
    labels_ok n labels -> obs_sizes_ok n obs -> obs_phases_ok obs ->
    let ls := labels_used n c labels in
    input_ok ls c ->
    (forall i, In i c -> ~ uncuttable basis_of ls i) ->
    (forall ps p q, obs = Some ps -> In p ps -> q < n -> nth q ls None = None -> nth q (plets p) 0 = 0) ->
    exists r, partition_problem basis_of relabel dx n 0 0 c labels obs = Ok r.
  Proof.
    intros LO SO PO ls IO NU ID.
    assert (Ln : length ls = n).
    { unfold ls, labels_used. destruct labels as [l0|]; [exact LO|apply auto_labels_length]. }
    apply (problem_total_partial basis_of relabel dx n c labels obs LO SO PO Ln NU); [|exact ID].
    intros qc EP. exact (cut_circuit_valid ls c qc IO EP).
  Qed.
End Total.
(* ================= partition_problem: the point where the sub-observables decide; automatic labels ================= *)
Lemma span_fold_same ls l0 : forall qs, (forall q, In q qs -> nth q ls None = l0) ->
  fold_left (span_step ls) qs [l0] = [l0].
Proof.
  induction qs as [|q r IH]; intros H; simpl; [reflexivity|]. unfold span_step at 2. simpl.
  rewrite (H q) by now left.
  assert (E : label_beq l0 l0 = true) by now apply okey_beq_eq. rewrite E. simpl. apply IH. intros x Hx. apply H. now right.
Qed.

Lemma span_all_equal ls qs : qs <> [] -> (forall q q', In q qs -> In q' qs -> nth q ls None = nth q' ls None) ->
  length (span_labels ls qs) = 1.
Proof.
  intros NE H. rewrite span_labels_fold. destruct qs as [|q0 r]; [congruence|]. simpl. unfold span_step at 2. simpl.
  rewrite span_fold_same; [reflexivity|]. intros q Hq. apply H; [now right|now left].
Qed.

Section Reach.
  Variable basis_of : op -> option (nat * qlabel).
  Variable relabel : qlabel -> nat.
  Variable dx : circ -> circ.
  Hypothesis DX : dx_contract dx.

  (* under the premises of totality the call gets as far as the sub-observables, which alone decide the outcome *)
  Lemma problem_reaches_subobs n c labels obs :
    labels_ok n labels -> obs_sizes_ok n obs -> obs_phases_ok obs ->
    let ls := labels_used n c labels in
    input_ok ls c -> (forall i, In i c -> ~ uncuttable basis_of ls i) ->
    exists subs bases,
      partition_problem basis_of relabel dx n 0 0 c labels obs =
      match obs with
      | None | Some [] => Ok (subs, bases, None)
      | Some ps => match sub_observables ls ps with
                   | Ok so => Ok (subs, bases, Some so)
                   | Refused => Refused
                   | Crashed => Crashed
                   end
      end.
  Proof.
    intros LO SO PO ls IO NU.
    assert (Ln : length ls = n).
    { unfold ls, labels_used. destruct labels as [l0|]; [exact LO|apply auto_labels_length]. }
    unfold partition_problem. rewrite (labels_ok_pass n labels LO).
    destruct (obs_pass n obs SO PO) as [-> ->]. simpl. fold (labels_used n c labels). fold ls.
    unfold partition_circuit_qubits. rewrite Ln, Nat.eqb_refl. simpl.
    destruct (pcq_loop_total basis_of ls c NU) as [qc EP]. rewrite EP.
    destruct (cut_circuit_valid basis_of relabel dx DX ls c qc IO EP) as [NE [V CL]].
    destruct (number_qpd relabel qc 0) as [qc' bs] eqn:EN. simpl in *.
    destruct (separate_total n [] (dx qc') ls NE Ln V CL) as [subs ES]. rewrite ES.
    exists subs, bs. destruct obs as [[|p ps]|]; try reflexivity.
  Qed.

  (* repaired behaviour F4, sharp form: such a request is REFUSED (not merely "never answered") *)
  Theorem idle_observable_refused n c labels ps p q :
    labels_ok n labels -> obs_sizes_ok n (Some ps) -> obs_phases_ok (Some ps) ->
    let ls := labels_used n c labels in
    input_ok ls c -> (forall i, In i c -> ~ uncuttable basis_of ls i) ->
    In p ps -> q < n -> nth q ls None = None -> nth q (plets p) 0 <> 0 ->
    partition_problem basis_of relabel dx n 0 0 c labels (Some ps) = Refused.
  Proof.
    intros LO SO PO ls IO NU Hp Hq Eq NZ.
    assert (Ln : length ls = n).
    { unfold ls, labels_used. destruct labels as [l0|]; [exact LO|apply auto_labels_length]. }
    destruct (problem_reaches_subobs n c labels (Some ps) LO SO PO IO NU) as [subs [bases E]]. rewrite E. fold ls.
    destruct ps as [|p0 ps0]; [destruct Hp|].
    rewrite (subobs_refused ls (p0 :: ps0) p q Hp); auto. lia.
  Qed.

  (* automatic labels: the conditions on the labelling follow from the shape of the input *)
  Definition shape_ok (n : nat) (c : circ) : Prop :=
    in_range n c /\ forall i, In i c -> iqs i <> [] /\ ics i = [] /\ (is_qpd2 i = true -> length (iqs i) = 2).

  Lemma auto_input_ok n c : shape_ok n c -> input_ok (labels_used n c None) c.
  Proof.
    intros [R SH]. simpl. destruct (auto_components n is_qpd2 c R) as [_ [IDLE _]].
    intros i Hi. destruct (SH i Hi) as [NE [IC Q2]]. repeat split; auto.
    intros q Hq E. apply (IDLE q (R i q Hi Hq)) in E. exact (E i Hi Hq).
  Qed.

  Lemma auto_never_uncuttable n c i : shape_ok n c -> In i c -> ~ uncuttable basis_of (labels_used n c None) i.
  Proof.
    intros [R SH] Hi [IB [L1 [SP W]]]. simpl in SP. destruct (SH i Hi) as [NE [_ Q2]].
    destruct (is_qpd2 i) eqn:IQ.
    - specialize (Q2 eq_refl). destruct W as [W|[W _]]; [lia|discriminate].
    - apply SP. apply span_all_equal; [exact NE|]. intros q q' Hq Hq'.
      destruct (auto_components n is_qpd2 c R) as [_ [IDLE [CONN _]]].
      apply (CONN q q' (R i q Hi Hq) (R i q' Hi Hq')).
      + intros E. apply (IDLE q (R i q Hi Hq)) in E. exact (E i Hi Hq).
      + apply rst_step. exists i. auto.
  Qed.

  Theorem problem_total_auto n c obs :
    shape_ok n c -> obs_sizes_ok n obs -> obs_phases_ok obs ->
    (forall ps p q, obs = Some ps -> In p ps -> q < n -> untouched c q -> nth q (plets p) 0 = 0) ->
    exists r, partition_problem basis_of relabel dx n 0 0 c None obs = Ok r.
  Proof.
    intros SH SO PO ID. apply (problem_total basis_of relabel dx DX n c None obs I SO PO).
    - now apply auto_input_ok.
    - intros i Hi. now apply auto_never_uncuttable.
    - intros ps p q E Hp Hq EN. apply (ID ps p q E Hp Hq). destruct SH as [R _].
      destruct (auto_components n is_qpd2 c R) as [_ [IDLE _]]. now apply (IDLE q Hq).
  Qed.

  (* the returned sub-observables, with the facts needed to read c10_subobs_tensor as "is the original observable" *)
  Theorem problem_subobs_full n ncl ncr c labels obs subs bases so :
    partition_problem basis_of relabel dx n ncl ncr c labels obs = Ok (subs, bases, Some so) ->
    exists ps, obs = Some ps /\ ps <> [] /\ length (labels_used n c labels) = n /\
               (forall p, In p ps -> length (plets p) = n /\ pphase p = 0) /\
               sub_observables (labels_used n c labels) ps = Ok so.
  Proof.
    intros H. destruct (problem_subobs basis_of relabel dx _ _ _ _ _ _ _ _ _ H) as [ps [E [NE [Ln [_ ES]]]]].
    destruct (partition_problem_ok _ _ _ _ _ _ _ _ _ _ _ _ H) as [_ [_ [SZ _]]].
    exists ps. repeat split; auto; now destruct (SZ ps E p H0).
  Qed.
End Reach.

(* ================= which placeholder halves occur in the subcircuits ================= *)
Lemma remap_all_In_inv qs cl : forall c c' x, remap_all qs cl c = Some c' -> In x c' ->
  exists x0, In x0 c /\ remap_instr qs cl x0 = Some x.
Proof.
  induction c as [|i r IH]; simpl; intros c' x H Hx; [inversion H; subst; destruct Hx|].
  destruct (remap_instr qs cl i) as [i'|] eqn:E; [|discriminate].
  destruct (remap_all qs cl r) as [r'|] eqn:ER; [|discriminate]. inversion H; subst.
  destruct Hx as [<-|Hx]; [exists i; auto|]. destruct (IH r' x eq_refl Hx) as [x0 [A B]]. exists x0. auto.
Qed.

Lemma expand_In_inv2 c x : In x (expand_qpd2 c) ->
  (In x c /\ ~ (is_qpd2 x = true /\ length (iqs x) = 2)) \/
  (exists y b bid lbl a q, In y c /\ iop y = Qpd2 b bid lbl /\ iqs y = [a; q] /\
     (x = mkI (Qpd1 b 0 bid lbl) [a] [] \/ x = mkI (Qpd1 b 1 bid lbl) [q] [])).
Proof.
  unfold expand_qpd2. intros H. apply in_flat_map in H as [y [Hy H]]. unfold expand_instr in H.
  destruct (iop y) eqn:EO; try (destruct H as [<-|[]]; left; split; [exact Hy|]; unfold is_qpd2; rewrite EO; intros [X _]; discriminate).
  destruct (iqs y) as [|a [|q [|? ?]]] eqn:EQ;
    try (destruct H as [<-|[]]; left; split; [exact Hy|]; rewrite EQ; simpl; intros [_ X]; discriminate).
  right. exists y, b, bid, lbl, a, q. repeat split; auto. destruct H as [<-|[<-|[]]]; auto.
Qed.

Section Unique.
  Variable basis_of : op -> option (nat * qlabel).
  Variable relabel : qlabel -> nat.
  Variable dx : circ -> circ.
  Hypothesis DX : dx_contract dx.

  Lemma number_In_inv2 : forall c i0 y, In y (fst (number_qpd relabel c i0)) -> is_qpd2 y = true ->
    exists j y0, nth_error (qpd2s c) j = Some y0 /\ y = relabel_instr relabel (i0 + j) y0.
  Proof.
    induction c as [|x r IH]; intros i0 y H Q; [destruct H|]. rewrite number_cons in H. rewrite qpd2s_cons.
    destruct (is_qpd2 x) eqn:IQ; simpl in H; destruct H as [H|H].
    - exists 0, x. split; [reflexivity|]. now rewrite Nat.add_0_r.
    - destruct (IH _ _ H Q) as [j [y0 [A B]]]. exists (S j), y0. split; [exact A|]. rewrite B. f_equal. lia.
    - subst y. congruence.
    - apply (IH _ _ H Q).
  Qed.

  Definition numeric_half (i : instr) : Prop :=
    exists b h bid lb k, iop i = Qpd1 b h bid (Some (lb, Some k)).

  (* every placeholder half with a numeric suffix k found in a subcircuit IS half 0 or half 1 of the k-th placeholder
     of the cut circuit, sitting on the re-indexed qubit of that placeholder in the partition of that qubit *)
  Theorem cuts_only n ncl ncr c labels obs subs bases so :
    no_uuid c -> (forall i, In i c -> ~ numeric_half i) ->
    partition_problem basis_of relabel dx n ncl ncr c labels obs = Ok (subs, bases, so) ->
    let ls := labels_used n c labels in
    exists qc, partition_circuit_qubits basis_of n c ls = Ok qc /\
      forall l nq body x b h bid lb k,
        In (l, nq, body) subs -> In x body -> iop x = Qpd1 b h bid (Some (lb, Some k)) ->
        exists y lbl a q w w',
          nth_error (qpd2s qc) k = Some y /\ iop y = Qpd2 b bid lbl /\ lb = relabel lbl /\ iqs y = [a; q] /\
          (h = 0 /\ w = a \/ h = 1 /\ w = q) /\ nth w ls None = Some l /\
          index_of w (omembers ls l n) = Some w' /\ x = mkI (Qpd1 b h bid (Some (lb, Some k))) [w'] [].
  Proof.
    intros NU NH H. cbv zeta.
    destruct (partition_problem_ok _ _ _ _ _ _ _ _ _ _ _ _ H) as [_ [_ [_ [qc [qm [EP [_ [ES _]]]]]]]].
    set (ls := labels_used n c labels) in *. exists qc. split; [exact EP|].
    assert (EPL : pcq_loop basis_of ls c = Ok qc).
    { unfold partition_circuit_qubits in EP. destruct (negb (length ls =? n)); [discriminate|exact EP]. }
    set (qc' := fst (number_qpd relabel qc 0)) in *.
    pose proof (problem_no_uuid basis_of relabel dx DX ls c qc NU (pcq_ok_rel _ _ _ _ _ EP)) as NU'. fold qc' in NU'.
    destruct (separate_spec n [] (dx qc') (Some ls) subs qm NU' ES) as [_ [_ [_ [_ [_ BODY]]]]]. simpl sep_labels in BODY.
    intros l nq body x b h bid lb k Hs Hx EO.
    destruct (BODY l nq body Hs) as [_ [_ RM]].
    destruct (remap_all_In_inv _ _ _ _ x RM Hx) as [x0 [Hx0 RI]].
    destruct (remap_instr_op _ _ _ _ RI) as [EO0 _]. rewrite EO in EO0.
    apply in_flat_map in Hx0 as [z [Hz Hx0]]. unfold restrict_instr in Hx0.
    destruct (needs_split z) eqn:NS.
    { exfalso. unfold join_qs in Hx0. destruct (filter _ (iqs z)); [destruct Hx0|]. destruct Hx0 as [<-|[]]. discriminate. }
    destruct (of_l ls l z) eqn:OL; [|destruct Hx0]. destruct Hx0 as [<-|[]].
    unfold of_l in OL. apply okey_beq_eq in OL. apply inst_label_iff in OL as [_ LAB].
    destruct (DX qc') as [PM _]. apply (Permutation_in _ PM) in Hz.
    destruct (expand_In_inv2 _ _ Hz) as [[Hin NQ]|[y [b0 [bid0 [lbl0 [a [q [Hy [EOy [EQy XE]]]]]]]]]].
    - (* not a half: it would be a numeric half of the input *)
      exfalso. destruct (number_In_inv relabel _ _ _ Hin) as [y0 [k' [Hy0 E]]].
      assert (Ez : z = y0).
      { rewrite E. unfold relabel_instr. rewrite E in EO0. unfold relabel_instr in EO0.
        destruct (iop y0) eqn:E0; try reflexivity. simpl in EO0. discriminate. }
      subst y0. destruct (pcq_loop_steps basis_of ls c qc EPL z Hy0) as [i [Hi ESi]].
      destruct (pcq_step_cases basis_of relabel ls i z ESi) as [[-> _]|[b1 [l1 [-> _]]]]; [|discriminate].
      apply (NH i Hi). exists b, h, bid, lb, k. now symmetry.
    - assert (Qy : is_qpd2 y = true) by (unfold is_qpd2; now rewrite EOy).
      destruct (number_In_inv2 qc 0 y Hy Qy) as [j [y0 [Hj Ey]]]. simpl in Ey.
      assert (Q0 : is_qpd2 y0 = true).
      { destruct (relabel_instr_shape relabel j y0) as [_ [_ [_ E4]]]. rewrite <- Ey in E4. congruence. }
      unfold is_qpd2 in Q0. destruct (iop y0) as [| | | | | |b1 bid1 lbl1| |] eqn:E0; try discriminate.
      assert (Ey' : y = mkI (Qpd2 b1 bid1 (Some (relabel lbl1, Some j))) (iqs y0) (ics y0)).
      { rewrite Ey. unfold relabel_instr. now rewrite E0. }
      rewrite Ey' in EOy, EQy. simpl in EOy, EQy. inversion EOy; subst b0 bid0 lbl0.
      assert (HALF : exists w, (h = 0 /\ w = a \/ h = 1 /\ w = q) /\
                       z = mkI (Qpd1 b h bid (Some (lb, Some k))) [w] [] /\ b = b1 /\ bid = bid1 /\ lb = relabel lbl1 /\ k = j).
      { destruct XE as [-> | ->]; simpl in EO0; inversion EO0; subst; [exists a|exists q]; repeat split; auto. }
      destruct HALF as [w [HW [Ez [-> [-> [-> ->]]]]]].
      exists y0, lbl1, a, q, w.
      rewrite Ez in RI, LAB. unfold remap_instr in RI. simpl in RI.
      destruct (index_of w (omembers ls l n)) as [w'|] eqn:EI; [|discriminate]. simpl in RI. inversion RI; subst x.
      exists w'. repeat split; auto. apply LAB. now left.
  Qed.
End Unique.

(* Properties/C16.v — Public functions neither modify their inputs nor share state between results.
   Only theorem statements (closed by `exact`), non-vacuity examples, the refutations of the current tree's
   sharing classes (F6 / F10 / F11), the facts obligation and Print Assumptions.

   The model (Model/Heap.v) is a heap of the mutable objects; `run m cl h` is the heap transformer of the public
   call `cl` in mode `m`; `Repaired` is the behaviour the property demands, `Current` the copy discipline of the tree. *)
From Coq Require Import QArith String.
From CKT Require Import Common.Base Model.Heap Proofs.HeapP.
Close Scope Q_scope.

(* ---- inputs are left exactly as they were: every call that is not in place (any mode, i.e. also the current tree)
        only appends to the heap; in particular no object reachable from the arguments is written *)
Theorem c16_frame : forall m h cl, in_place cl = false ->
  (exists new, fst (run m cl h) = h ++ new) /\
  (forall a, a < length h -> get (fst (run m cl h)) a = get h a) /\
  (forall a, reachable h (args_of cl) a -> get (fst (run m cl h)) a = get h a).
Proof.
  intros m h cl NI. split; [exact (grows_by_append m h cl NI)|].
  split; [exact (proj2 (frame_noninplace m h cl NI))|exact (frame_reachable m h cl NI)].
Qed.

(* ---- in place (partition_circuit_qubits / cut_gates / decompose_qpd_instructions with inplace=True):
        only the argument circuit (its instruction list) and, for decompose_qpd_instructions, its own
        instruction objects (basis_id) are written *)
Theorem c16_inplace_only_arg : forall m h cl, in_place cl = true ->
  length h <= length (fst (run m cl h)) /\
  forall a, a < length h -> ~ In a (own h cl) -> get (fst (run m cl h)) a = get h a.
Proof. exact frame_inplace. Qed.

(* ---- nothing is shared, I: the code as it is (EVERY mode, in particular mode Current = the copy discipline of the tree)
        on inputs outside the known sharing classes.  `clean h cl` (Model/Heap.v, boolean): the argument circuits hold no
        basis-carrying instruction object (no pre-placed QPD placeholder: outside F6 / F19 and, conservatively, F11);
        for cut_wires only native instructions and CutWire markers (outside F10); all addresses valid.
        Then every object reachable from the result is NEW.
        NOT covered: decompose / generate on circuits WITH placeholders whose selected maps hold only singleton gates
        (outside F11 in the tree, but the intermediate copies reference the argument bases: needs the clean-set logic). *)
Theorem c16_fresh_current : forall m h cl, in_place cl = false -> clean h cl = true ->
  forall a, reachable (fst (run m cl h)) (snd (run m cl h)) a -> length h <= a.
Proof. exact result_reach_new_clean. Qed.

Theorem c16_fresh_current_disjoint : forall m h cl roots, in_place cl = false -> clean h cl = true ->
  forall a, reachable (fst (run m cl h)) (snd (run m cl h)) a -> reachable h roots a -> False.
Proof.
  intros m h cl roots NI CL a R1 R2. apply (result_reach_new_clean m h cl NI CL) in R1.
  apply reachable_lt in R2. lia.
Qed.

(* ---- nothing is shared, II: the REPAIRED model (mode Repaired = mkMode true true true; this is NOT the code of the
        tree, which has the known findings F6 / F10 / F11 / F19): every object reachable from a result is new,
        whatever the input (documented_shared cl = [] by definition) *)
Theorem c16_result_reach_new_repaired : forall h cl, in_place cl = false ->
  forall a, reachable (fst (run Repaired cl h)) (snd (run Repaired cl h)) a -> length h <= a.
Proof. exact result_reach_new. Qed.

Theorem c16_fresh_repaired : forall h cl roots, in_place cl = false ->
  forall a, reachable (fst (run Repaired cl h)) (snd (run Repaired cl h)) a -> reachable h roots a -> False.
Proof. intros h cl roots NI a. exact (fresh_repaired_gen h cl roots NI a). Qed.

(* ... in particular not with an EARLIER result: (h1, r1) = first call, second call from h1 *)
Theorem c16_fresh_between_results_repaired : forall h cl cl', in_place cl' = false ->
  let h1 := fst (run Repaired cl h) in let r1 := snd (run Repaired cl h) in
  forall a, reachable (fst (run Repaired cl' h1)) (snd (run Repaired cl' h1)) a -> reachable h1 r1 a -> False.
Proof. intros h cl cl' NI h1 r1 a. exact (fresh_repaired_gen h1 cl' r1 NI a). Qed.

(* ---- destructive edits of a result.  An edit list overwrites EXISTING objects at addresses that were reachable from
        the result when it was returned (no allocation, no chain through a reference planted by an earlier edit).
        Repaired model: every older object - arguments, earlier results - stays as it was. *)
Theorem c16_edits_leave_inputs_repaired : forall h cl, in_place cl = false ->
  forall es, (forall e, In e es -> reachable (fst (run Repaired cl h)) (snd (run Repaired cl h)) (fst e)) ->
  forall a, a < length h -> get (apply_edits (fst (run Repaired cl h)) es) a = get h a.
Proof. exact edits_leave_old. Qed.

(*      EVERY mode (the code as it is): such edits can only hit new objects or objects that were reachable from the
        arguments of that call; every other old object stays as it was *)
Theorem c16_edits_confined : forall m h cl, in_place cl = false ->
  forall es, (forall e, In e es -> reachable (fst (run m cl h)) (snd (run m cl h)) (fst e)) ->
  forall a, a < length h -> ~ reachable h (args_of cl) a -> get (apply_edits (fst (run m cl h)) es) a = get h a.
Proof. exact edits_confined. Qed.

(* ---- upper bound for EVERY mode, in particular for the model of the current tree (mode Current): whatever is reachable
        from a result is a new object or was reachable from the arguments of that call.  No other pre-existing object
        (module-level state, an unrelated circuit, an earlier result) can be reached from a result, so the known sharing
        classes are confined to the argument graph of the call. *)
Theorem c16_confined : forall m h cl, in_place cl = false ->
  forall a, reachable (fst (run m cl h)) (snd (run m cl h)) a -> length h <= a \/ reachable h (args_of cl) a.
Proof. exact result_confined. Qed.

(* ... hence an OLD object common to the results of two calls (any modes) is reachable from the arguments of both *)
Theorem c16_results_share_only_arguments : forall m m' h cl cl', in_place cl = false -> in_place cl' = false ->
  let h1 := fst (run m cl h) in
  forall a, a < length h ->
    reachable h1 (snd (run m cl h)) a -> reachable (fst (run m' cl' h1)) (snd (run m' cl' h1)) a ->
    reachable h (args_of cl) a /\ reachable h1 (args_of cl') a.
Proof. exact results_share_only_arguments. Qed.

(* ---- later calls: after arbitrary edits of a result, a later call on the same arguments finds exactly the same
        argument object graph (same reachable set, same field values), for every well-formed heap.
   PARTIAL with respect to "the outcome of later calls is unchanged": the missing part is that `run` depends only on
   the object graph of its arguments up to the addresses of the new objects (a renaming argument), which is not
   proved here; the implementation side is checked on every case (third call, and calls on brand-new inputs). *)
Theorem c16_later_calls_repaired_partial : forall h cl, in_place cl = false -> wf h ->
  (forall r, In r (args_of cl) -> r < length h) ->
  forall es, (forall e, In e es -> reachable (fst (run Repaired cl h)) (snd (run Repaired cl h)) (fst e)) ->
  let h2 := apply_edits (fst (run Repaired cl h)) es in
  (forall a, reachable h2 (args_of cl) a <-> reachable h (args_of cl) a) /\
  (forall a, reachable h (args_of cl) a -> get h2 a = get h a).
Proof. exact later_call_same_arguments. Qed.

(* the reachability computed by the correspondence checker is sound for the relation used above *)
Theorem c16_reach_sound : forall h roots a, In a (reach h roots) -> reachable h roots a.
Proof. exact reach_sound. Qed.

(* ... and complete whenever its certificate holds; the checker evaluates the certificate on every case (observe_ok) *)
Theorem c16_reach_complete : forall h roots,
  reach_ok h roots = true -> forall a, reachable h roots a -> In a (reach h roots).
Proof. intros h roots. exact (reach_closed_complete h roots (reach h roots)). Qed.

(* ---- the current tree: three sharing classes, each refuted on the model of the CURRENT copy discipline.
   F6  partition_problem on [g] with g = TwoQubitQPDGate.from_instruction(CXGate()), labels "AB":
       the basis object (address 11) of the input gate is reachable from the result. *)
Definition f6_heap : heap :=
  [OList []; OList []; OList []; OList []; OOp KMeas 0 None None; OList [4]; OList []; OList []; OList []; OList [4]; OList [];
   OBasis [0; 1; 2; 3; 5; 6; 5; 7; 8; 9; 10; 9] [1 # 2; 1 # 2; 1 # 2; - (1 # 2); 1 # 2; - (1 # 2)]%Q;
   OOp KQpd2 1 None (Some 11); OCirc [12] 0].
Definition f6_call : call := CPartition 13 [true] [(0, 1)] 2 None.

Theorem c16_refuted_F6 : exists a,
  reachable (fst (run Current f6_call f6_heap)) (snd (run Current f6_call f6_heap)) a /\
  reachable f6_heap (args_of f6_call) a /\ obj_tag (get f6_heap a) = 2.
Proof. exists 11. split; [|split; [|reflexivity]]; apply reach_sound; vm_compute; tauto. Qed.

(* F10 cut_wires on [h; g; CutWire; cx]: the input gate object itself (address 13) is in the result circuit *)
Definition f10_heap : heap :=
  [OOp KNative 0 None None; OList []; OList []; OList []; OList []; OOp KMeas 0 None None; OList [5]; OList []; OList []; OList [];
   OList [5]; OList []; OBasis [1; 2; 3; 4; 6; 7; 6; 8; 9; 10; 11; 10] [1 # 2; 1 # 2; 1 # 2; - (1 # 2); 1 # 2; - (1 # 2)]%Q;
   OOp KQpd2 1 None (Some 12); OOp KCutWire 2 None None; OOp KNative 0 None None; OCirc [0; 13; 14; 15] 0].
Definition f10_call : call := CCutWires 16.

Theorem c16_refuted_F10 : exists a,
  reachable (fst (run Current f10_call f10_heap)) (snd (run Current f10_call f10_heap)) a /\
  reachable f10_heap (args_of f10_call) a /\ obj_tag (get f10_heap a) = 1.
Proof. exists 13. split; [|split; [|reflexivity]]; apply reach_sound; vm_compute; tauto. Qed.

(* F11 generate_cutting_experiments on a subcircuit holding one SingleQubitQPDGate whose basis has a non-singleton
   gate object (address 0, like the RYGate of the swap basis) in the selected map: that object is in the experiment *)
Definition f11_heap : heap :=
  [OOp KPy 0 None None; OList [0]; OList []; OBasis [1; 2] [1 # 1]%Q; OOp (KQpd1 0) 1 None (Some 3); OCirc [4] 0; OPauli [1]].
Definition f11_call : call := CGenerate [5] [6] [[0]] [1] [[0]].

Theorem c16_refuted_F11 : exists a,
  reachable (fst (run Current f11_call f11_heap)) (snd (run Current f11_call f11_heap)) a /\
  reachable f11_heap (args_of f11_call) a /\ obj_tag (get f11_heap a) = 1.
Proof. exists 0. split; [|split; [|reflexivity]]; apply reach_sound; vm_compute; tauto. Qed.

(* non-vacuity: on the same inputs the property-satisfying model shares nothing and changes nothing, while the
   model of the current tree reports exactly one alias root of the kind named by the finding *)
Example c16_ex_F6 :
  observe Repaired f6_heap f6_call = (false, [0; 0; 0; 0; 0; 0; 0], [0; 0; 0; 0; 0; 0; 0]) /\
  observe Current f6_heap f6_call = (false, [0; 0; 1; 0; 0; 0; 0], [0; 0; 1; 0; 0; 0; 0]).
Proof. split; vm_compute; reflexivity. Qed.

Example c16_ex_F10 :
  observe Repaired f10_heap f10_call = (false, [0; 0; 0; 0; 0; 0; 0], [0; 0; 0; 0; 0; 0; 0]) /\
  observe Current f10_heap f10_call = (false, [0; 1; 0; 0; 0; 0; 0], [0; 1; 0; 0; 0; 0; 0]).
Proof. split; vm_compute; reflexivity. Qed.

Example c16_ex_F11 :
  observe Repaired f11_heap f11_call = (false, [0; 0; 0; 0; 0; 0; 0], [0; 0; 0; 0; 0; 0; 0]) /\
  observe Current f11_heap f11_call = (false, [0; 1; 0; 0; 0; 0; 0], [0; 1; 0; 0; 0; 0; 0]).
Proof. split; vm_compute; reflexivity. Qed.

(* non-vacuity of c16_confined on the model of the current tree: the F6 result reaches old objects (the basis, its
   slot lists, the placeholder inside them) and every one of them is reachable from the argument circuit *)
Example c16_ex_confined :
  filter (fun a => a <? length f6_heap) (reach (fst (run Current f6_call f6_heap)) (snd (run Current f6_call f6_heap))) <> [] /\
  forallb (fun a => mem a (reach f6_heap (args_of f6_call)))
          (filter (fun a => a <? length f6_heap) (reach (fst (run Current f6_call f6_heap)) (snd (run Current f6_call f6_heap)))) = true.
Proof. split; [vm_compute; discriminate|vm_compute; reflexivity]. Qed.

(* F19 separate_circuit on the F6 input [g], one label: the basis (address 11) of the input gate is reachable from the result *)
Definition f19_call : call := CSeparate 13 [(0, 0)] 1.
Theorem c16_refuted_F19 : exists a,
  reachable (fst (run Current f19_call f6_heap)) (snd (run Current f19_call f6_heap)) a /\
  reachable f6_heap (args_of f19_call) a /\ obj_tag (get f6_heap a) = 2.
Proof. exists 11. split; [|split; [|reflexivity]]; apply reach_sound; vm_compute; tauto. Qed.

Example c16_ex_F19 :
  observe Repaired f6_heap f19_call = (false, [0; 0; 0; 0; 0; 0; 0], [0; 0; 0; 0; 0; 0; 0]) /\
  observe Current f6_heap f19_call = (false, [0; 0; 1; 0; 0; 0; 0], [0; 0; 1; 0; 0; 0; 0]).
Proof. split; vm_compute; reflexivity. Qed.

(* non-vacuity of c16_fresh_current: partition_problem with observables on a circuit of native instructions, one gate
   spanning the two partitions; the input is clean, mode Current returns a non-trivial result and shares nothing *)
Definition hw : heap := [OOp KNative 0 None None; OOp KNative 0 None None; OCirc [0; 1] 0; OPauli [1; 2]].
Definition cp : call := CPartition 2 [false; true] [(0, 0); (0, 1)] 2 (Some 3).
Example c16_ex_fresh_current :
  in_place cp = false /\ clean hw cp = true /\
  length (reach (fst (run Current cp hw)) (snd (run Current cp hw))) = 17 /\
  observe Current hw cp = (false, [0; 0; 0; 0; 0; 0; 0], [0; 0; 0; 0; 0; 0; 0]) /\
  clean f6_heap f6_call = false.
Proof. repeat split; vm_compute; reflexivity. Qed.

(* non-vacuity of the edit theorems: three non-trivial edits of objects reachable from the F6 result (Repaired model);
   f6_heap is well formed; the edited value is really there and every old object is unchanged *)
Definition f6_edits : list (addr * obj) := [(37, ONull); (34, OCirc [] 7); (30, OBasis [] [])].
Lemma f6_edits_reachable : forall e, In e f6_edits ->
  reachable (fst (run Repaired f6_call f6_heap)) (snd (run Repaired f6_call f6_heap)) (fst e).
Proof. intros e [<-|[<-|[<-|[]]]]; apply reach_sound; vm_compute; tauto. Qed.

Lemma f6_wf : wf f6_heap.
Proof. apply wfb_wf. vm_compute. reflexivity. Qed.

Example c16_ex_edits :
  wf f6_heap /\
  get (apply_edits (fst (run Repaired f6_call f6_heap)) f6_edits) 34 = OCirc [] 7 /\
  (forall a, a < length f6_heap -> get (apply_edits (fst (run Repaired f6_call f6_heap)) f6_edits) a = get f6_heap a) /\
  (forall a, reachable (apply_edits (fst (run Repaired f6_call f6_heap)) f6_edits) (args_of f6_call) a <->
             reachable f6_heap (args_of f6_call) a).
Proof.
  split; [exact f6_wf|]. split; [vm_compute; reflexivity|]. split.
  - exact (c16_edits_leave_inputs_repaired f6_heap f6_call eq_refl f6_edits f6_edits_reachable).
  - apply (c16_later_calls_repaired_partial f6_heap f6_call eq_refl f6_wf).
    + intros r [<-|[]]. vm_compute. lia.
    + exact f6_edits_reachable.
Qed.

(* the completeness certificate holds on the witnesses *)
Example c16_ex_reach_ok :
  reach_ok f6_heap (args_of f6_call) = true /\
  reach_ok (fst (run Current f6_call f6_heap)) (snd (run Current f6_call f6_heap)) = true.
Proof. split; vm_compute; reflexivity. Qed.

(* in place: the circuit argument is returned and modified, nothing else *)
Example c16_ex_inplace :
  observe Current f6_heap (CDqi true 13 [0] [2]) = (true, [1; 0; 0; 0; 0; 0; 0], [0; 0; 0; 0; 0; 0; 0]) /\
  own f6_heap (CDqi true 13 [0] [2]) = [13; 12].
Proof. split; vm_compute; reflexivity. Qed.

Print Assumptions c16_frame.
Print Assumptions c16_inplace_only_arg.
Print Assumptions c16_fresh_current.
Print Assumptions c16_fresh_current_disjoint.
Print Assumptions c16_result_reach_new_repaired.
Print Assumptions c16_fresh_repaired.
Print Assumptions c16_edits_confined.
Print Assumptions c16_refuted_F19.
Print Assumptions c16_fresh_between_results_repaired.
Print Assumptions c16_edits_leave_inputs_repaired.
Print Assumptions c16_later_calls_repaired_partial.
Print Assumptions c16_confined.
Print Assumptions c16_results_share_only_arguments.
Print Assumptions c16_reach_sound.
Print Assumptions c16_reach_complete.
Print Assumptions c16_refuted_F6.
Print Assumptions c16_refuted_F10.
Print Assumptions c16_refuted_F11.

(* ---- tie to the source: every `.copy()` call, every `inplace` parameter / `if not inplace:` branch / inplace=...
   argument and every use of the copy module in the anchored files, exactly as modelled:
     partition_circuit_qubits, cut_gates, decompose_qpd_instructions: `if not inplace: circuit = circuit.copy()`  (target)
     _append_measurement_register: `qc.copy()` per (sample, group)                                                (one_experiment)
     generate_cutting_experiments passes inplace=True to decompose_qpd_instructions                               (dqi_body on the copy)
     separate_circuit: circuit.copy()                                                                             (build_sub copies)
     cut_wires: compose(..., inplace=True) on the NEW circuit only, no copy of the operation                      (wire_piece)
     expand_observables: observables.phase.copy()                                                                 (new OPauli)
     registry: fresh lists per call, _copy_unique_sublists, measurement_0.copy()                                  (new_basis)
     no copy.copy / copy.deepcopy anywhere *)
From CKT Require Import Extracted.Facts.
Open Scope string_scope.
Theorem c16_facts : c16_copy_sites = [
    ("cutting_decomposition:partition_circuit_qubits", "param inplace=False");
    ("cutting_decomposition:partition_circuit_qubits", "if not inplace: circuit = circuit.copy()");
    ("cutting_decomposition:partition_circuit_qubits", "call circuit.copy()");
    ("cutting_decomposition:cut_gates", "param inplace=False");
    ("cutting_decomposition:cut_gates", "if not inplace: circuit = circuit.copy()");
    ("cutting_decomposition:cut_gates", "call circuit.copy()");
    ("cutting_experiments:generate_cutting_experiments", "pass decompose_qpd_instructions(inplace=True)");
    ("cutting_experiments:generate_cutting_experiments", "pass _append_measurement_circuit(inplace=True)");
    ("cutting_experiments:_append_measurement_register", "param inplace=False");
    ("cutting_experiments:_append_measurement_register", "if not inplace: qc = qc.copy()");
    ("cutting_experiments:_append_measurement_register", "call qc.copy()");
    ("cutting_experiments:_append_measurement_circuit", "param inplace=False");
    ("cutting_experiments:_append_measurement_circuit", "if not inplace: qc = qc.copy()");
    ("cutting_experiments:_append_measurement_circuit", "call qc.copy()");
    ("cutting_experiments:_consolidate_resets", "param inplace=True");
    ("cutting_experiments:_consolidate_resets", "if not inplace: circuit = circuit.copy()");
    ("cutting_experiments:_consolidate_resets", "call circuit.copy()");
    ("cutting_experiments:_remove_resets_in_zero_state", "param inplace=True");
    ("cutting_experiments:_remove_resets_in_zero_state", "if not inplace: circuit = circuit.copy()");
    ("cutting_experiments:_remove_resets_in_zero_state", "call circuit.copy()");
    ("cutting_experiments:_remove_final_resets", "param inplace=True");
    ("cutting_experiments:_remove_final_resets", "if not inplace: circuit = circuit.copy()");
    ("cutting_experiments:_remove_final_resets", "call circuit.copy()");
    ("qpd.decompose:decompose_qpd_instructions", "param inplace=False");
    ("qpd.decompose:decompose_qpd_instructions", "if not inplace: circuit = circuit.copy()");
    ("qpd.decompose:decompose_qpd_instructions", "call circuit.copy()");
    ("qpd.decompose:_decompose_qpd_measurements", "param inplace=True");
    ("qpd.decompose:_decompose_qpd_measurements", "if not inplace: circuit = circuit.copy()");
    ("qpd.decompose:_decompose_qpd_measurements", "call circuit.copy()");
    ("qpd.decompose:_decompose_qpd_instructions", "param inplace=True");
    ("qpd.decompose:_decompose_qpd_instructions", "if not inplace: circuit = circuit.copy()");
    ("qpd.decompose:_decompose_qpd_instructions", "call circuit.copy()");
    ("qpd.decompositions:_copy_unique_sublists", "call lst.copy()");
    ("qpd.decompositions:_", "call measurement_0.copy()");
    ("qpd.decompositions:_", "call measurement_0.copy()");
    ("wire_cutting_transforms:_transform_cut_wires", "pass new_circuit.compose(inplace=True)");
    ("wire_cutting_transforms:_transform_cut_wires", "pass new_circuit.compose(inplace=True)");
    ("wire_cutting_transforms:expand_observables", "call observables.phase.copy()");
    ("utils.transforms:separate_circuit", "call circuit.copy()")
  ].
Proof. reflexivity. Qed.
Print Assumptions c16_facts.

(* Properties/C13.v — The exact sampler returns the true outcome distribution of dynamic circuits.
   Only theorem statements closed by `exact`, non-vacuity examples, facts obligations, Print Assumptions.

   Model/Sim.v mirrors simulate_statevector_outcomes over an ABSTRACT instrument
       (state, apply, p1, proj, flipx)  =  what Qiskit's Statevector does;
   the theorems below hold for EVERY such instrument and every program length.  `path_law` is the
   specification: the recursive path semantics of dynamic circuits (each measurement/reset splits the path
   with weights p0 = 1 - p1 and p1; a measurement clears/sets its classical bit, later writes overwrite;
   a reset leaves the bits alone).  What is NOT proved: that Qiskit's Statevector is the Born-rule
   instrument (compared on every correspondence case against the exact simulator Common/QSim.v and
   against an independent density-matrix simulator in the harness). *)
From Coq Require Import QArith.
From Coq Require Import Permutation.
From CKT Require Import Common.Base Common.QSim Model.Sim Model.SimTree Proofs.SimP Proofs.SimTreeP.
Close Scope Q_scope.

(* tolerance 0: for every outcome k, the returned probability equals the total weight of the paths ending
   in k; the returned keys are pairwise distinct, so the returned list IS the finite map *)
Theorem c13_pushforward :
  forall (gate state : Type) (apply : gate -> list nat -> state -> state) (p1 : state -> nat -> Q)
         (proj : state -> nat -> bool -> state) (flipx : state -> nat -> state) (tol : Q),
  (tol == 0)%Q -> forall (s0 : state) (p : prog gate), existsb refusing p = false ->
  exists out, simulate apply p1 proj flipx tol s0 p = Ok out /\ NoDup (map fst out) /\
              forall k, (lookup out k == lookup (path_law apply p1 proj flipx p s0 0%N) k)%Q.
Proof. exact simulate_pushforward. Qed.

(* the same as an equality of measures: every function of the outcome has the same expectation *)
Theorem c13_expectation :
  forall (gate state : Type) (apply : gate -> list nat -> state -> state) (p1 : state -> nat -> Q)
         (proj : state -> nat -> bool -> state) (flipx : state -> nat -> state) (tol : Q),
  (tol == 0)%Q -> forall (s0 : state) (p : prog gate), existsb refusing p = false ->
  exists out, simulate apply p1 proj flipx tol s0 p = Ok out /\ NoDup (map fst out) /\
              forall phi : N -> Q, (ev phi out == ev phi (path_law apply p1 proj flipx p s0 0%N))%Q.
Proof. exact simulate_expectation. Qed.

(* tolerance 0: whatever is returned sums to one *)
Theorem c13_total :
  forall (gate state : Type) (apply : gate -> list nat -> state -> state) (p1 : state -> nat -> Q)
         (proj : state -> nat -> bool -> state) (flipx : state -> nat -> state) (tol : Q),
  (tol == 0)%Q -> forall (s0 : state) (p : prog gate) out,
  simulate apply p1 proj flipx tol s0 p = Ok out -> (total out == 1)%Q.
Proof. exact simulate_total. Qed.

(* any tolerance >= 0, p1 a probability: the returned mass is at most 1 and misses at most tol per
   truncated branch (n = ghost counter of truncations kept by the model's loop) *)
Theorem c13_pruned_bound :
  forall (gate state : Type) (apply : gate -> list nat -> state -> state) (p1 : state -> nat -> Q)
         (proj : state -> nat -> bool -> state) (flipx : state -> nat -> state) (tol : Q),
  (forall s q, 0 <= p1 s q <= 1)%Q -> (0 <= tol)%Q -> forall (s0 : state) (p : prog gate) out n,
  simulate apply p1 proj flipx tol s0 p = Ok out -> pruned_total apply p1 proj flipx tol s0 p = Ok n ->
  (1 - inject_Z (Z.of_nat n) * tol <= total out <= 1)%Q.
Proof. exact simulate_pruned_bound. Qed.

(* any tolerance >= 0, p1 a probability: EVERY outcome's returned probability is its true (path-law)
   probability up to the truncation loss: never more, and at most n * tol less (n as above).  This is the
   per-outcome statement at the tolerance the source actually uses (see c13_qsim_outcome_bound). *)
Theorem c13_outcome_bound :
  forall (gate state : Type) (apply : gate -> list nat -> state -> state) (p1 : state -> nat -> Q)
         (proj : state -> nat -> bool -> state) (flipx : state -> nat -> state) (tol : Q),
  (forall s q, 0 <= p1 s q <= 1)%Q -> (0 <= tol)%Q -> forall (s0 : state) (p : prog gate) out n,
  simulate apply p1 proj flipx tol s0 p = Ok out -> pruned_total apply p1 proj flipx tol s0 p = Ok n ->
  forall k, (lookup (path_law apply p1 proj flipx p s0 0%N) k - inject_Z (Z.of_nat n) * tol <= lookup out k
             <= lookup (path_law apply p1 proj flipx p s0 0%N) k)%Q.
Proof. exact simulate_outcome_bound. Qed.

(* the same for every event / [0,1]-valued function of the outcome *)
Theorem c13_event_bound :
  forall (gate state : Type) (apply : gate -> list nat -> state -> state) (p1 : state -> nat -> Q)
         (proj : state -> nat -> bool -> state) (flipx : state -> nat -> state) (tol : Q),
  (forall s q, 0 <= p1 s q <= 1)%Q -> (0 <= tol)%Q -> forall phi : N -> Q, (forall k, 0 <= phi k <= 1)%Q ->
  forall (s0 : state) (p : prog gate) out n,
  simulate apply p1 proj flipx tol s0 p = Ok out -> pruned_total apply p1 proj flipx tol s0 p = Ok n ->
  (ev phi (path_law apply p1 proj flipx p s0 0%N) - inject_Z (Z.of_nat n) * tol <= ev phi out
   <= ev phi (path_law apply p1 proj flipx p s0 0%N))%Q.
Proof. exact simulate_event_bound. Qed.

(* every reported outcome has positive probability (with c13_pushforward: keys = support at tolerance 0) *)
Theorem c13_support :
  forall (gate state : Type) (apply : gate -> list nat -> state -> state) (p1 : state -> nat -> Q)
         (proj : state -> nat -> bool -> state) (flipx : state -> nat -> state) (tol : Q),
  (forall s q, 0 <= p1 s q <= 1)%Q -> (0 <= tol)%Q -> forall (s0 : state) (p : prog gate) out,
  simulate apply p1 proj flipx tol s0 p = Ok out -> forall k pr, In (k, pr) out -> (0 < pr)%Q.
Proof. exact simulate_support. Qed.

(* a conditioned operation, or a non-measurement operation holding a classical bit, anywhere in the
   program: ValueError, never a result (any instrument, any tolerance) *)
Theorem c13_refuses :
  forall (gate state : Type) (apply : gate -> list nat -> state -> state) (p1 : state -> nat -> Q)
         (proj : state -> nat -> bool -> state) (flipx : state -> nat -> state) (tol : Q)
         (s0 : state) (p : prog gate),
  existsb refusing p = true -> simulate apply p1 proj flipx tol s0 p = Refused.
Proof. exact simulate_refuses. Qed.

(* the deletion bookkeeping (`del current[k][i]` in reversed recording order) never goes out of range *)
Theorem c13_never_crashes :
  forall (gate state : Type) (apply : gate -> list nat -> state -> state) (p1 : state -> nat -> Q)
         (proj : state -> nat -> bool -> state) (flipx : state -> nat -> state) (tol : Q)
         (s0 : state) (p : prog gate),
  simulate apply p1 proj flipx tol s0 p <> Crashed.
Proof. exact simulate_never_crashes. Qed.

(* ExactSampler: BaseSamplerV1.run validates first (Qiskit), then the same function *)
Theorem c13_sampler :
  forall (gate state : Type) (apply : gate -> list nat -> state -> state) (p1 : state -> nat -> Q)
         (proj : state -> nat -> bool -> state) (flipx : state -> nat -> state) (tol : Q)
         (ncl : nat) (s0 : state) (p : prog gate),
  ncl <> 0 -> existsb is_measure p = true ->
  sampler apply p1 proj flipx tol ncl s0 p = simulate apply p1 proj flipx tol s0 p.
Proof.
  intros gate state apply p1 proj flipx tol ncl s0 p Hn Hm. unfold sampler.
  apply Nat.eqb_neq in Hn. now rewrite Hn, Hm.
Qed.

(* ---- the instance used by the correspondence: exact Q(sqrt2)(i) state vectors ---- *)
From CKT Require Import Extracted.Facts.
From Coq Require Import String.

Theorem c13_qsim_instance : forall s q, (0 <= qp1 s q <= 1)%Q.
Proof. exact qp1_range. Qed.

Definition sites_of (f : string) : nat :=
  match find (fun p => String.eqb (fst p) f) value_error_sites with Some p => snd p | None => 0 end.

(* tie to the source: the tolerance of the model is the module constant; it is non-negative and tiny
   (so that the truncation bound is far below the 1e-9 used by the oracle); both truncation tests have the
   modelled shape np.isclose(<name>, 0, atol=_TOLERANCE); the function still has (at least) the two modelled
   refusals -- an ADDED refusal is left to the correspondence (it shows up there iff it hits a circuit of the
   property's domain) *)
Theorem c13_facts :
  (0 <= sim_tolerance)%Q /\ (sim_tolerance <= 1 # 1000000000000000)%Q /\ sim_isclose_sites = 2 /\
  2 <= sites_of "utils.simulation:simulate_statevector_outcomes".
Proof. repeat split; try reflexivity; try (unfold Qle; simpl; lia); vm_compute; lia. Qed.

(* with the source's tolerance on the QSim instance: the returned mass is within n * _TOLERANCE of 1 *)
Theorem c13_qsim_bound : forall nq (p : qprog) out n,
  qsimulate sim_tolerance nq p = Ok out -> qpruned sim_tolerance nq p = Ok n ->
  (1 - inject_Z (Z.of_nat n) * sim_tolerance <= total out <= 1)%Q.
Proof.
  intros nq p out n. unfold qsimulate, qpruned.
  apply (simulate_pruned_bound qgate vec qapply qp1 qproj qflipx sim_tolerance qp1_range (proj1 c13_facts)).
Qed.

(* the per-outcome statement at the source's tolerance, closed form on the exact simulator: with
   n truncated branches every outcome is at most n * _TOLERANCE (n * 1e-16) below its true probability *)
Theorem c13_qsim_outcome_bound : forall nq (p : qprog) out n,
  qsimulate sim_tolerance nq p = Ok out -> qpruned sim_tolerance nq p = Ok n ->
  forall k, (lookup (qpath nq p) k - inject_Z (Z.of_nat n) * sim_tolerance <= lookup out k <= lookup (qpath nq p) k)%Q.
Proof.
  intros nq p out n. unfold qsimulate, qpruned, qpath.
  apply (simulate_outcome_bound qgate vec qapply qp1 qproj qflipx sim_tolerance qp1_range (proj1 c13_facts)).
Qed.

(* ================= extension: leaf-by-leaf refinement, sampler wrapper, Born step of QSim ================= *)

(* ANY instrument, ANY tolerance: when the loop ends, the entries (outcome, (prob, sv)) of the dictionary are -- as a
   multiset, with Leibniz-equal weights and states -- exactly the leaves of the branch tree (Model/SimTree.v: gates
   applied with their operands in instruction order; measurement children clear/set the bit, so later writes
   overwrite; reset children keep the register and flip the 1-child; children with conditional probability within
   tol of 0 cut with their subtree).  The weight of every held branch is therefore literally the product of the
   conditional probabilities along its path, and the returned list is `finalize` of that dictionary. *)
Theorem c13_branches :
  forall (gate state : Type) (apply : gate -> list nat -> state -> state) (p1 : state -> nat -> Q)
         (proj : state -> nat -> bool -> state) (flipx : state -> nat -> state) (tol : Q)
         (s0 : state) (p : prog gate), existsb refusing p = false ->
  exists d, final_dict apply p1 proj flipx tol s0 p = Ok d /\
            simulate apply p1 proj flipx tol s0 p = Ok (finalize d) /\ NoDup (map fst d) /\
            Permutation (dict_items d) (tree apply p1 proj flipx tol p 0%N 1%Q s0).
Proof. exact simulate_tree. Qed.

(* hence at ANY tolerance (in particular the source's 1e-16, no hypothesis on p1) the returned finite map is
   EXACTLY the law of the truncated tree, for every outcome and every function of the outcome *)
Theorem c13_tree_law :
  forall (gate state : Type) (apply : gate -> list nat -> state -> state) (p1 : state -> nat -> Q)
         (proj : state -> nat -> bool -> state) (flipx : state -> nat -> state) (tol : Q)
         (s0 : state) (p : prog gate), existsb refusing p = false ->
  exists out, simulate apply p1 proj flipx tol s0 p = Ok out /\ NoDup (map fst out) /\
    (forall phi, (ev phi out == ev phi (leaf_law (tree apply p1 proj flipx tol p 0%N 1%Q s0)))%Q) /\
    (forall k, (lookup out k == lookup (leaf_law (tree apply p1 proj flipx tol p 0%N 1%Q s0)) k)%Q).
Proof. exact simulate_tree_law. Qed.

(* ExactSampler.run over several circuits: if every circuit passes Qiskit's validation and none holds a refusing
   instruction, the call answers, with one distribution per circuit, the i-th being what the function returns for
   the i-th circuit ALONE (no dependence on the other circuits of the call; the model is a function of its argument,
   so there is no dependence on earlier calls either) *)
Theorem c13_sampler_run_ok :
  forall (gate state : Type) (apply : gate -> list nat -> state -> state) (p1 : state -> nat -> Q)
         (proj : state -> nat -> bool -> state) (flipx : state -> nat -> state) (tol : Q)
         (cs : list (nat * state * prog gate)),
  cs <> [] -> forallb sampler_valid cs = true -> (forall c, In c cs -> existsb refusing (snd c) = false) ->
  exists outs, sampler_run apply p1 proj flipx tol cs = Ok outs /\
               Forall2 (fun c out => simulate apply p1 proj flipx tol (snd (fst c)) (snd c) = Ok out) cs outs.
Proof. exact sampler_run_ok. Qed.

(* ... and one invalid or refusing circuit anywhere in the call (or no circuit) refuses the whole call *)
Theorem c13_sampler_run_refuses :
  forall (gate state : Type) (apply : gate -> list nat -> state -> state) (p1 : state -> nat -> Q)
         (proj : state -> nat -> bool -> state) (flipx : state -> nat -> state) (tol : Q)
         (cs : list (nat * state * prog gate)),
  (cs = [] \/ exists c, In c cs /\ (sampler_valid c = false \/ existsb refusing (snd c) = true)) ->
  sampler_run apply p1 proj flipx tol cs = Refused.
Proof. exact sampler_run_refuses. Qed.

Theorem c13_sampler_run_single :
  forall (gate state : Type) (apply : gate -> list nat -> state -> state) (p1 : state -> nat -> Q)
         (proj : state -> nat -> bool -> state) (flipx : state -> nat -> state) (tol : Q) ncl s0 (p : prog gate),
  sampler_run apply p1 proj flipx tol [(ncl, s0, p)] = res_map (fun x => [x]) (sampler apply p1 proj flipx tol ncl s0 p).
Proof. exact sampler_run_single. Qed.

(* The measurement step of the exact simulator IS the Born rule of the vector it holds, for every vector and qubit:
   (1) the post-measurement vector qproj v q b has squared norm |P_b v|^2 = the sum of |amplitude|^2 over the indices
       whose bit q is b;  (2) |P_0 v|^2 + |P_1 v|^2 = |v|^2 exactly in Q(sqrt2);  (3) whenever the audit bit
       qp1_is_exact holds (evaluated by the correspondence on every measured state), the instrument's p1 is the exact
       quotient |P_1 v|^2 / |v|^2, unclamped, with vanishing sqrt2-part;  (4) q2div is division in Q(sqrt2).
   NOT proved: that the gate actions qapply are unitary / equal to Qiskit's matrices (compared per case). *)
Theorem c13_qsim_born_step : forall (v : vec) (q : nat),
  (forall b, norm2 (qproj v q b) = norm2_bit v q b) /\
  ((fst (q2add (norm2_bit v q false) (norm2_bit v q true)) == fst (norm2 v))%Q /\
   (snd (q2add (norm2_bit v q false) (norm2_bit v q true)) == snd (norm2 v))%Q) /\
  (qp1_is_exact v q = true ->
     (qp1 v q == fst (q2div (norm2 (qproj v q true)) (norm2 v)))%Q /\
     (snd (q2div (norm2 (qproj v q true)) (norm2 v)) == 0)%Q) /\
  (forall x y : q2, ~ (fst y * fst y - (2 # 1) * (snd y * snd y) == 0)%Q ->
     (fst (q2mul (q2div x y) y) == fst x)%Q /\ (snd (q2mul (q2div x y) y) == snd x)%Q).
Proof.
  intros v q. split; [intros b; apply qproj_norm|]. split; [apply norm2_complete|].
  split; [apply qp1_exact_value|]. intros x y; apply q2div_spec.
Qed.

(* ---- non-vacuity ---- *)
Definition canon (r : res (list (N * Q))) : res (list (N * Q)) :=
  res_map (map (fun kp : N * Q => (fst kp, Qred (snd kp)))) r.

(* a Bell pair measured twice into ONE classical bit: the second write overwrites with the same value *)
Definition ex_bell : qprog := [PGate Gh [0]; PGate Gcx [0; 1]; PMeasure 0 0; PMeasure 1 0].
Example c13_ex_bell : canon (qsimulate 0 2 ex_bell) = Ok [(0%N, (1 # 2)%Q); (1%N, (1 # 2)%Q)].
Proof. vm_compute. reflexivity. Qed.
Example c13_ex_bell_paths :
  existsb refusing ex_bell = false /\ List.length (qpath 2 ex_bell) = 4 /\
  (lookup (qpath 2 ex_bell) 1 == 1 # 2)%Q.
Proof. vm_compute. repeat split. Qed.

(* entangled measurement, overwrite with a different value, reset of the 1-branch, barrier, unused clbit 2 *)
Definition ex_mixed : qprog :=
  [PGate Gh [0]; PGate Gsx [1]; PGate Gcx [0; 1]; PMeasure 1 1; PBarrier [0; 1]; PReset 1; PGate Gh [1];
   PMeasure 1 1; PMeasure 0 0; PGate Gx [0]; PMeasure 0 3].
Example c13_ex_mixed : canon (qsimulate sim_tolerance 2 ex_mixed)
  = Ok [(1%N, (1 # 4)%Q); (3%N, (1 # 4)%Q); (8%N, (1 # 4)%Q); (10%N, (1 # 4)%Q)].
Proof. vm_compute. reflexivity. Qed.

(* dict insertion order is modelled: key 1 survives in place, key 0 is created after it *)
Example c13_ex_order :
  canon (qsimulate sim_tolerance 2 [PGate Gx [0]; PGate Gh [1]; PMeasure 0 0; PMeasure 1 0])
  = Ok [(1%N, (1 # 2)%Q); (0%N, (1 # 2)%Q)].
Proof. vm_compute. reflexivity. Qed.

(* a non-Clifford circuit (Toffoli): conditional probabilities 1/4, 5/6, 1/6 *)
Example c13_ex_ccx :
  canon (qsimulate sim_tolerance 3 [PGate Gh [0]; PGate Gh [1]; PGate Gccx [1; 0; 2]; PGate Gh [0]; PMeasure 2 0; PMeasure 0 1])
  = Ok [(0%N, (5 # 8)%Q); (1%N, (1 # 8)%Q); (2%N, (1 # 8)%Q); (3%N, (1 # 8)%Q)].
Proof. vm_compute. reflexivity. Qed.

(* the leaves of the tree: weights are products of conditional probabilities, registers by overwrite *)
Example c13_ex_tree :
  map (fun kb : N * (Q * vec) => (fst kb, Qred (fst (snd kb)))) (qtree sim_tolerance 2 ex_bell)
  = [(0%N, (1 # 2)%Q); (1%N, (1 # 2)%Q)] /\
  List.length (qtree sim_tolerance 1 [PGate Gh [0]; PMeasure 0 0; PGate Gh [0]; PMeasure 0 0]) = 4.
Proof. vm_compute. split; reflexivity. Qed.

(* operand order is part of the statement: cx [1;0] (control 1) and cx [0;1] differ *)
Example c13_ex_operand_order :
  canon (qsimulate sim_tolerance 2 [PGate Gx [1]; PGate Gcx [1; 0]; PMeasure 0 0; PMeasure 1 1]) = Ok [(3%N, 1%Q)] /\
  canon (qsimulate sim_tolerance 2 [PGate Gx [1]; PGate Gcx [0; 1]; PMeasure 0 0; PMeasure 1 1]) = Ok [(2%N, 1%Q)] /\
  canon (qsimulate sim_tolerance 3 [PGate Gx [2]; PGate Gx [0]; PGate Gccx [2; 0; 1]; PMeasure 1 0]) = Ok [(1%N, 1%Q)] /\
  canon (qsimulate sim_tolerance 3 [PGate Gx [2]; PGate Gx [0]; PGate Gccx [0; 1; 2]; PMeasure 1 0]) = Ok [(0%N, 1%Q)].
Proof. vm_compute. repeat split; reflexivity. Qed.

(* one sampler call over three circuits; a measurement-free circuit refuses the whole call *)
Example c13_ex_sampler_run :
  res_map (map (map (fun kp : N * Q => (fst kp, Qred (snd kp)))))
    (qsampler_run sim_tolerance [(2, 1, ex_bell); (1, 2, [PGate Gx [0]; PMeasure 0 1]); (2, 1, ex_bell)])
  = Ok [[(0%N, (1 # 2)%Q); (1%N, (1 # 2)%Q)]; [(2%N, 1%Q)]; [(0%N, (1 # 2)%Q); (1%N, (1 # 2)%Q)]] /\
  qsampler_run sim_tolerance [(2, 1, ex_bell); (1, 2, [PGate Gx [0]])] = Refused /\
  qsampler_run sim_tolerance [] = Refused.
Proof. vm_compute. repeat split; reflexivity. Qed.

(* the audit bit holds on a non-trivial state (hypothesis of c13_qsim_born_step (3)) *)
Definition ex_bell_vec : vec := qapply Gcx [0; 1] (qapply Gh [0] (init_vec 2)).
Example c13_ex_born_step : qp1_is_exact ex_bell_vec 1 = true /\ Qeq (qp1 ex_bell_vec 1) (1 # 2).
Proof. vm_compute. split; reflexivity. Qed.

(* deterministic branch: one child truncated at every measurement, nothing lost *)
Example c13_ex_pruned :
  canon (qsimulate sim_tolerance 1 [PGate Gx [0]; PMeasure 0 2; PReset 0; PMeasure 0 0]) = Ok [(4%N, 1%Q)] /\
  qpruned sim_tolerance 1 [PGate Gx [0]; PMeasure 0 2; PReset 0; PMeasure 0 0] = Ok 3.
Proof. vm_compute. split; reflexivity. Qed.

Example c13_ex_refuses :
  qsimulate sim_tolerance 2 [PGate Gh [0]; PMeasure 0 0; PCond; PMeasure 1 1] = Refused /\
  qsimulate sim_tolerance 2 [PGate Gh [0]; PMeasure 0 0; PGateWithClbit] = Refused.
Proof. vm_compute. split; reflexivity. Qed.

Print Assumptions c13_pushforward.
Print Assumptions c13_expectation.
Print Assumptions c13_total.
Print Assumptions c13_pruned_bound.
Print Assumptions c13_outcome_bound.
Print Assumptions c13_event_bound.
Print Assumptions c13_support.
Print Assumptions c13_refuses.
Print Assumptions c13_never_crashes.
Print Assumptions c13_sampler.
Print Assumptions c13_qsim_instance.
Print Assumptions c13_facts.
Print Assumptions c13_qsim_bound.
Print Assumptions c13_qsim_outcome_bound.
Print Assumptions c13_branches.
Print Assumptions c13_tree_law.
Print Assumptions c13_sampler_run_ok.
Print Assumptions c13_sampler_run_refuses.
Print Assumptions c13_sampler_run_single.
Print Assumptions c13_qsim_born_step.

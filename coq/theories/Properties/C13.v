(* Properties/C13.v — The exact sampler returns the true outcome distribution of dynamic circuits.
   Only theorem statements closed by `exact`, non-vacuity examples, facts obligations, Print Assumptions.

   Model/Sim.v mirrors simulate_statevector_outcomes over an ABSTRACT instrument
       (state, apply, p1, proj, flipx)  =  what Qiskit's Statevector does;
   the theorems below hold for EVERY such instrument and every program length.  `path_law` is the
   specification: the recursive path semantics of dynamic circuits (each measurement/reset splits the path
   with weights p0 = 1 - p1 and p1; a measurement clears/sets its classical bit, later writes overwrite;
   a reset leaves the bits alone).  What is NOT proved: that Qiskit's Statevector is the Born-rule
   instrument (compared on every correspondence case against the exact simulator Common/QSim.v and
   against an independent density-matrix simulator in the harness). *)
From Coq Require Import QArith.
From Coq Require Import Permutation.
From CKT Require Import Common.Base Common.QSim Model.Sim Model.SimTree Proofs.SimP Proofs.SimTreeP.
Close Scope Q_scope.

(* tolerance 0 (NOT the source's 1e-16; for that see c13_outcome_bound_static / c13_tree_law).  No premise on p1:
   this is an algebraic identity of the bookkeeping (it also holds for an 'instrument' with p1 = 3, giving negative
   'probabilities'); it speaks of probabilities only together with 0 <= p1 <= 1, see c13_distribution.
   For every outcome k, the returned value equals the total weight of the paths ending in k; the returned keys are pairwise distinct, so the returned list IS the finite map *)
Theorem c13_pushforward :
  forall (gate state : Type) (apply : gate -> list nat -> state -> state) (p1 : state -> nat -> Q)
         (proj : state -> nat -> bool -> state) (flipx : state -> nat -> state) (tol : Q),
  (tol == 0)%Q -> forall (s0 : state) (p : prog gate), existsb refusing p = false ->
  exists out, simulate apply p1 proj flipx tol s0 p = Ok out /\ NoDup (map fst out) /\
              forall k, (lookup out k == lookup (path_law apply p1 proj flipx p s0 0%N) k)%Q.
Proof. exact simulate_pushforward. Qed.

(* the same as an equality of measures: every function of the outcome has the same expectation *)
Theorem c13_expectation :
  forall (gate state : Type) (apply : gate -> list nat -> state -> state) (p1 : state -> nat -> Q)
         (proj : state -> nat -> bool -> state) (flipx : state -> nat -> state) (tol : Q),
  (tol == 0)%Q -> forall (s0 : state) (p : prog gate), existsb refusing p = false ->
  exists out, simulate apply p1 proj flipx tol s0 p = Ok out /\ NoDup (map fst out) /\
              forall phi : N -> Q, (ev phi out == ev phi (path_law apply p1 proj flipx p s0 0%N))%Q.
Proof. exact simulate_expectation. Qed.

(* tolerance 0, no premise on p1 (algebraic, see above): whatever is returned sums to one.
   At the source's tolerance only c13_total_bound_static holds: within 2 * (#measure+#reset) * tol of one. *)
Theorem c13_total :
  forall (gate state : Type) (apply : gate -> list nat -> state -> state) (p1 : state -> nat -> Q)
         (proj : state -> nat -> bool -> state) (flipx : state -> nat -> state) (tol : Q),
  (tol == 0)%Q -> forall (s0 : state) (p : prog gate) out,
  simulate apply p1 proj flipx tol s0 p = Ok out -> (total out == 1)%Q.
Proof. exact simulate_total. Qed.

(* any tolerance >= 0, p1 a probability: the returned mass is at most 1 and misses at most tol per
   truncated branch (n = ghost counter of truncations kept by the model's loop) *)
Theorem c13_pruned_bound :
  forall (gate state : Type) (apply : gate -> list nat -> state -> state) (p1 : state -> nat -> Q)
         (proj : state -> nat -> bool -> state) (flipx : state -> nat -> state) (tol : Q),
  (forall s q, 0 <= p1 s q <= 1)%Q -> (0 <= tol)%Q -> forall (s0 : state) (p : prog gate) out n,
  simulate apply p1 proj flipx tol s0 p = Ok out -> pruned_total apply p1 proj flipx tol s0 p = Ok n ->
  (1 - inject_Z (Z.of_nat n) * tol <= total out <= 1)%Q.
Proof. exact simulate_pruned_bound. Qed.

(* any tolerance >= 0, p1 a probability: EVERY outcome's returned probability is its true (path-law)
   probability up to the truncation loss: never more, and at most n * tol less (n as above).  This is the
   per-outcome statement at the tolerance the source actually uses (see c13_qsim_outcome_bound). *)
Theorem c13_outcome_bound :
  forall (gate state : Type) (apply : gate -> list nat -> state -> state) (p1 : state -> nat -> Q)
         (proj : state -> nat -> bool -> state) (flipx : state -> nat -> state) (tol : Q),
  (forall s q, 0 <= p1 s q <= 1)%Q -> (0 <= tol)%Q -> forall (s0 : state) (p : prog gate) out n,
  simulate apply p1 proj flipx tol s0 p = Ok out -> pruned_total apply p1 proj flipx tol s0 p = Ok n ->
  forall k, (lookup (path_law apply p1 proj flipx p s0 0%N) k - inject_Z (Z.of_nat n) * tol <= lookup out k
             <= lookup (path_law apply p1 proj flipx p s0 0%N) k)%Q.
Proof. exact simulate_outcome_bound. Qed.

(* the same for every event / [0,1]-valued function of the outcome *)
Theorem c13_event_bound :
  forall (gate state : Type) (apply : gate -> list nat -> state -> state) (p1 : state -> nat -> Q)
         (proj : state -> nat -> bool -> state) (flipx : state -> nat -> state) (tol : Q),
  (forall s q, 0 <= p1 s q <= 1)%Q -> (0 <= tol)%Q -> forall phi : N -> Q, (forall k, 0 <= phi k <= 1)%Q ->
  forall (s0 : state) (p : prog gate) out n,
  simulate apply p1 proj flipx tol s0 p = Ok out -> pruned_total apply p1 proj flipx tol s0 p = Ok n ->
  (ev phi (path_law apply p1 proj flipx p s0 0%N) - inject_Z (Z.of_nat n) * tol <= ev phi out
   <= ev phi (path_law apply p1 proj flipx p s0 0%N))%Q.
Proof. exact simulate_event_bound. Qed.

(* every reported outcome has positive probability (with c13_pushforward: keys = support at tolerance 0) *)
Theorem c13_support :
  forall (gate state : Type) (apply : gate -> list nat -> state -> state) (p1 : state -> nat -> Q)
         (proj : state -> nat -> bool -> state) (flipx : state -> nat -> state) (tol : Q),
  (forall s q, 0 <= p1 s q <= 1)%Q -> (0 <= tol)%Q -> forall (s0 : state) (p : prog gate) out,
  simulate apply p1 proj flipx tol s0 p = Ok out -> forall k pr, In (k, pr) out -> (0 < pr)%Q.
Proof. exact simulate_support. Qed.

(* GIVEN the classification of instructions into constructors (done by the harness: PCond = condition_bits
   non-empty, PGateWithClbit = other operation with clbits; the code's detection itself is tied by the correspondence
   only): such an instruction anywhere in the program gives ValueError, never a result, and nothing before it
   raises another exception (any instrument, any tolerance) *)
Theorem c13_refuses :
  forall (gate state : Type) (apply : gate -> list nat -> state -> state) (p1 : state -> nat -> Q)
         (proj : state -> nat -> bool -> state) (flipx : state -> nat -> state) (tol : Q)
         (s0 : state) (p : prog gate),
  existsb refusing p = true -> simulate apply p1 proj flipx tol s0 p = Refused.
Proof. exact simulate_refuses. Qed.

(* the model's ONLY source of Crashed is `del current[k][i]` going out of range (in reversed recording order): it
   never does.  Exceptions raised inside Qiskit are not modelled. *)
Theorem c13_deletes_in_range :
  forall (gate state : Type) (apply : gate -> list nat -> state -> state) (p1 : state -> nat -> Q)
         (proj : state -> nat -> bool -> state) (flipx : state -> nat -> state) (tol : Q)
         (s0 : state) (p : prog gate),
  simulate apply p1 proj flipx tol s0 p <> Crashed.
Proof. exact simulate_never_crashes. Qed.

(* DEFINITIONAL (an unfolding of Model.sampler, which restates Qiskit's BaseSamplerV1 validation -- an assumption
   monitored as oracle contract, not a result): ExactSampler = validation, then the same function.  The composed
   statement is c13_sampler_answer. *)
Theorem c13_sampler_def :
  forall (gate state : Type) (apply : gate -> list nat -> state -> state) (p1 : state -> nat -> Q)
         (proj : state -> nat -> bool -> state) (flipx : state -> nat -> state) (tol : Q)
         (ncl : nat) (s0 : state) (p : prog gate),
  ncl <> 0 -> existsb is_measure p = true ->
  sampler apply p1 proj flipx tol ncl s0 p = simulate apply p1 proj flipx tol s0 p.
Proof.
  intros gate state apply p1 proj flipx tol ncl s0 p Hn Hm. unfold sampler.
  apply Nat.eqb_neq in Hn. now rewrite Hn, Hm.
Qed.

(* ---- the instance used by the correspondence: exact Q(sqrt2)(i) state vectors ---- *)
From CKT Require Import Extracted.Facts.
From Coq Require Import String.

(* true BY THE CLAMP in the definition of qp1 (for every list of amplitudes, even the zero vector): it discharges the
   premise 0 <= p1 <= 1 of the general theorems for the QSim instance, and says nothing about qp1 being Born's
   probability -- that is c13_qsim_born_step (3), conditional on the per-state audit bit *)
Theorem c13_qsim_p1_clamped : forall s q, (0 <= qp1 s q <= 1)%Q.
Proof. exact qp1_range. Qed.

Definition sites_of (f : string) : nat :=
  match find (fun p => String.eqb (fst p) f) value_error_sites with Some p => snd p | None => 0 end.

(* tie to the source: the tolerance of the model is the exact DECIMAL value of the literal `1e-16` in the source
   (1/10^16; the binary64 number Python uses is smaller by about 2e-33 -- immaterial, rounding is not modelled); it is non-negative and tiny
   (so that the truncation bound is far below the 1e-9 used by the oracle); both truncation tests have the
   modelled shape np.isclose(<name>, 0, atol=_TOLERANCE); the function still has (at least) the two modelled
   refusals -- an ADDED refusal is left to the correspondence (it shows up there iff it hits a circuit of the
   property's domain) *)
Theorem c13_facts :
  (0 <= sim_tolerance)%Q /\ (sim_tolerance <= 1 # 1000000000000000)%Q /\ sim_isclose_sites = 2 /\
  2 <= sites_of "utils.simulation:simulate_statevector_outcomes".
Proof. repeat split; try reflexivity; try (unfold Qle; simpl; lia); vm_compute; lia. Qed.

(* with the source's tolerance on the QSim instance: the returned mass is within n * _TOLERANCE of 1 *)
Theorem c13_qsim_bound : forall nq (p : qprog) out n,
  qsimulate sim_tolerance nq p = Ok out -> qpruned sim_tolerance nq p = Ok n ->
  (1 - inject_Z (Z.of_nat n) * sim_tolerance <= total out <= 1)%Q.
Proof.
  intros nq p out n. unfold qsimulate, qpruned.
  apply (simulate_pruned_bound qgate vec qapply qp1 qproj qflipx sim_tolerance qp1_range (proj1 c13_facts)).
Qed.

(* the per-outcome statement at the source's tolerance, closed form on the exact simulator: with
   n truncated branches every outcome is at most n * _TOLERANCE (n * 1e-16) below its true probability *)
Theorem c13_qsim_outcome_bound : forall nq (p : qprog) out n,
  qsimulate sim_tolerance nq p = Ok out -> qpruned sim_tolerance nq p = Ok n ->
  forall k, (lookup (qpath nq p) k - inject_Z (Z.of_nat n) * sim_tolerance <= lookup out k <= lookup (qpath nq p) k)%Q.
Proof.
  intros nq p out n. unfold qsimulate, qpruned, qpath.
  apply (simulate_outcome_bound qgate vec qapply qp1 qproj qflipx sim_tolerance qp1_range (proj1 c13_facts)).
Qed.

(* ---- A-PRIORI truncation bounds (no ghost counter): any tolerance >= 0, 0 <= p1 <= 1.  Each measure/reset
   instruction loses at most 2 * tol of mass in total (every live branch at most 2 * tol * its weight, the live
   weights sum to <= 1).  With m = count_nonunitary p = #measure + #reset of the program: ---- *)
Theorem c13_outcome_bound_static :
  forall (gate state : Type) (apply : gate -> list nat -> state -> state) (p1 : state -> nat -> Q)
         (proj : state -> nat -> bool -> state) (flipx : state -> nat -> state) (tol : Q),
  (forall s q, 0 <= p1 s q <= 1)%Q -> (0 <= tol)%Q -> forall (s0 : state) (p : prog gate) out,
  simulate apply p1 proj flipx tol s0 p = Ok out ->
  forall k, (lookup (path_law apply p1 proj flipx p s0 0%N) k - (2 # 1) * inject_Z (Z.of_nat (count_nonunitary p)) * tol
             <= lookup out k <= lookup (path_law apply p1 proj flipx p s0 0%N) k)%Q.
Proof. exact simulate_outcome_bound_static. Qed.

Theorem c13_event_bound_static :
  forall (gate state : Type) (apply : gate -> list nat -> state -> state) (p1 : state -> nat -> Q)
         (proj : state -> nat -> bool -> state) (flipx : state -> nat -> state) (tol : Q),
  (forall s q, 0 <= p1 s q <= 1)%Q -> (0 <= tol)%Q -> forall phi : N -> Q, (forall k, 0 <= phi k <= 1)%Q ->
  forall (s0 : state) (p : prog gate) out, simulate apply p1 proj flipx tol s0 p = Ok out ->
  (ev phi (path_law apply p1 proj flipx p s0 0%N) - (2 # 1) * inject_Z (Z.of_nat (count_nonunitary p)) * tol
   <= ev phi out <= ev phi (path_law apply p1 proj flipx p s0 0%N))%Q.
Proof. exact simulate_event_bound_static. Qed.

(* "summing to one" at the source's tolerance: within 2 m tol of one, never above *)
Theorem c13_total_bound_static :
  forall (gate state : Type) (apply : gate -> list nat -> state -> state) (p1 : state -> nat -> Q)
         (proj : state -> nat -> bool -> state) (flipx : state -> nat -> state) (tol : Q),
  (forall s q, 0 <= p1 s q <= 1)%Q -> (0 <= tol)%Q -> forall (s0 : state) (p : prog gate) out,
  simulate apply p1 proj flipx tol s0 p = Ok out ->
  (1 - (2 # 1) * inject_Z (Z.of_nat (count_nonunitary p)) * tol <= total out <= 1)%Q.
Proof. exact simulate_total_bound_static. Qed.

(* tolerance 0 AND p1 a probability: the answer IS a probability distribution (distinct outcomes, every listed value
   in (0,1], total one) and equals the path law *)
Theorem c13_distribution :
  forall (gate state : Type) (apply : gate -> list nat -> state -> state) (p1 : state -> nat -> Q)
         (proj : state -> nat -> bool -> state) (flipx : state -> nat -> state) (tol : Q),
  (forall s q, 0 <= p1 s q <= 1)%Q -> (tol == 0)%Q -> forall (s0 : state) (p : prog gate), existsb refusing p = false ->
  exists out, simulate apply p1 proj flipx tol s0 p = Ok out /\ NoDup (map fst out) /\
    (forall k pr, In (k, pr) out -> 0 < pr <= 1)%Q /\ (total out == 1)%Q /\
    forall k, (lookup out k == lookup (path_law apply p1 proj flipx p s0 0%N) k)%Q.
Proof. exact simulate_distribution. Qed.

(* ExactSampler for ONE circuit, composed down to the path law.  Premises ncl <> 0 and "has a Measure" are Qiskit's
   BaseSamplerV1 validation (modelled, monitored): for circuits WITHOUT classical bits or WITHOUT a Measure -- which the
   property's quantifier includes -- ExactSampler().run raises ValueError inside Qiskit before the package's code runs
   (only simulate_statevector_outcomes answers them), so the sampler clause is NOT claimed for those circuits. *)
Theorem c13_sampler_answer :
  forall (gate state : Type) (apply : gate -> list nat -> state -> state) (p1 : state -> nat -> Q)
         (proj : state -> nat -> bool -> state) (flipx : state -> nat -> state) (tol : Q),
  (forall s q, 0 <= p1 s q <= 1)%Q -> (0 <= tol)%Q -> forall ncl (s0 : state) (p : prog gate),
  ncl <> 0 -> existsb is_measure p = true -> existsb refusing p = false ->
  exists out, sampler apply p1 proj flipx tol ncl s0 p = Ok out /\ NoDup (map fst out) /\
    forall k, (lookup (path_law apply p1 proj flipx p s0 0%N) k - (2 # 1) * inject_Z (Z.of_nat (count_nonunitary p)) * tol
               <= lookup out k <= lookup (path_law apply p1 proj flipx p s0 0%N) k)%Q.
Proof. exact sampler_answer. Qed.

(* ================= extension: leaf-by-leaf refinement, sampler wrapper, Born step of QSim ================= *)

(* ANY instrument, ANY tolerance: when the loop ends, the entries (outcome, (prob, sv)) of the dictionary are -- as a
   multiset, with Leibniz-equal weights and states -- exactly the leaves of the branch tree (Model/SimTree.v: gates
   applied with their operands in instruction order; measurement children clear/set the bit, so later writes
   overwrite; reset children keep the register and flip the 1-child; children with conditional probability within
   tol of 0 cut with their subtree).  The weight of every held branch is therefore literally the product of the
   conditional probabilities along its path, and the returned list is `finalize` of that dictionary. *)
Theorem c13_branches :
  forall (gate state : Type) (apply : gate -> list nat -> state -> state) (p1 : state -> nat -> Q)
         (proj : state -> nat -> bool -> state) (flipx : state -> nat -> state) (tol : Q)
         (s0 : state) (p : prog gate), existsb refusing p = false ->
  exists d, final_dict apply p1 proj flipx tol s0 p = Ok d /\
            simulate apply p1 proj flipx tol s0 p = Ok (finalize d) /\ NoDup (map fst d) /\
            Permutation (dict_items d) (tree apply p1 proj flipx tol p 0%N 1%Q s0).
Proof. exact simulate_tree. Qed.

(* hence at ANY tolerance (no hypothesis on p1) the returned finite map equals the law of the tree CUT BY THE SAME
   isclose0 RULE -- a specification of which branches are cut, not evidence that cutting is harmless: the distance to
   the true (uncut) path law is bounded only by c13_outcome_bound_static *)
Theorem c13_tree_law :
  forall (gate state : Type) (apply : gate -> list nat -> state -> state) (p1 : state -> nat -> Q)
         (proj : state -> nat -> bool -> state) (flipx : state -> nat -> state) (tol : Q)
         (s0 : state) (p : prog gate), existsb refusing p = false ->
  exists out, simulate apply p1 proj flipx tol s0 p = Ok out /\ NoDup (map fst out) /\
    (forall phi, (ev phi out == ev phi (leaf_law (tree apply p1 proj flipx tol p 0%N 1%Q s0)))%Q) /\
    (forall k, (lookup out k == lookup (leaf_law (tree apply p1 proj flipx tol p 0%N 1%Q s0)) k)%Q).
Proof. exact simulate_tree_law. Qed.

(* ExactSampler.run over several circuits: if every circuit passes Qiskit's validation and none holds a refusing
   instruction, the call answers, with one distribution per circuit, the i-th being what the function returns for
   the i-th circuit ALONE (no dependence on the other circuits of the call; the model is a function of its argument,
   so there is no dependence on earlier calls either) *)
Theorem c13_sampler_run_ok :
  forall (gate state : Type) (apply : gate -> list nat -> state -> state) (p1 : state -> nat -> Q)
         (proj : state -> nat -> bool -> state) (flipx : state -> nat -> state) (tol : Q)
         (cs : list (nat * state * prog gate)),
  cs <> [] -> forallb sampler_valid cs = true -> (forall c, In c cs -> existsb refusing (snd c) = false) ->
  exists outs, sampler_run apply p1 proj flipx tol cs = Ok outs /\
               Forall2 (fun c out => simulate apply p1 proj flipx tol (snd (fst c)) (snd c) = Ok out) cs outs.
Proof. exact sampler_run_ok. Qed.

(* ... and one invalid or refusing circuit anywhere in the call (or no circuit) refuses the whole call *)
Theorem c13_sampler_run_refuses :
  forall (gate state : Type) (apply : gate -> list nat -> state -> state) (p1 : state -> nat -> Q)
         (proj : state -> nat -> bool -> state) (flipx : state -> nat -> state) (tol : Q)
         (cs : list (nat * state * prog gate)),
  (cs = [] \/ exists c, In c cs /\ (sampler_valid c = false \/ existsb refusing (snd c) = true)) ->
  sampler_run apply p1 proj flipx tol cs = Refused.
Proof. exact sampler_run_refuses. Qed.

Theorem c13_sampler_run_single_def :
  forall (gate state : Type) (apply : gate -> list nat -> state -> state) (p1 : state -> nat -> Q)
         (proj : state -> nat -> bool -> state) (flipx : state -> nat -> state) (tol : Q) ncl s0 (p : prog gate),
  sampler_run apply p1 proj flipx tol [(ncl, s0, p)] = res_map (fun x => [x]) (sampler apply p1 proj flipx tol ncl s0 p).
Proof. exact sampler_run_single. Qed.

(* The measurement step of the exact simulator IS the Born rule of the vector it holds, for every vector and qubit:
   (1) qproj v q b (the projection by definition: it zeroes the other amplitudes) has squared norm |P_b v|^2 = the sum
       of |amplitude|^2 over the indices whose bit q is b;  (2) |P_0 v|^2 + |P_1 v|^2 = |v|^2 exactly in Q(sqrt2);  (3) whenever the audit bit
       qp1_is_exact holds (evaluated by the correspondence on every measured state), the instrument's p1 is the exact
       quotient |P_1 v|^2 / |v|^2, unclamped, with vanishing sqrt2-part;  (4) q2div is division in Q(sqrt2) whenever c^2 - 2 d^2 <> 0 for the divisor c + d sqrt2 (true for every non-zero
       rational pair since sqrt2 is irrational -- that fact is not proved here).
   NOT proved: that the gate actions qapply are unitary / equal to Qiskit's matrices (compared per case; the checker
   additionally tests per case that every gate application preserves the squared norm and that the program is
   well formed, Model.SimTree.wf_qprog -- on ill-formed operands QSim returns SOME vector and all c13_qsim_*
   statements, though true, are meaningless). *)
Theorem c13_qsim_born_step : forall (v : vec) (q : nat),
  (forall b, norm2 (qproj v q b) = norm2_bit v q b) /\
  ((fst (q2add (norm2_bit v q false) (norm2_bit v q true)) == fst (norm2 v))%Q /\
   (snd (q2add (norm2_bit v q false) (norm2_bit v q true)) == snd (norm2 v))%Q) /\
  (qp1_is_exact v q = true ->
     (qp1 v q == fst (q2div (norm2 (qproj v q true)) (norm2 v)))%Q /\
     (snd (q2div (norm2 (qproj v q true)) (norm2 v)) == 0)%Q) /\
  (forall x y : q2, ~ (fst y * fst y - (2 # 1) * (snd y * snd y) == 0)%Q ->
     (fst (q2mul (q2div x y) y) == fst x)%Q /\ (snd (q2mul (q2div x y) y) == snd x)%Q).
Proof.
  intros v q. split; [intros b; apply qproj_norm|]. split; [apply norm2_complete|].
  split; [apply qp1_exact_value|]. intros x y; apply q2div_spec.
Qed.

(* a-priori form on the exact simulator at the source's tolerance, for WELL-FORMED programs (operand indices in range,
   distinct operands, gate arity; the premise is not used by the proof -- it delimits where the QSim instance means
   anything): every outcome at most 2 * (#measure + #reset) * 1e-16 below its path-law value, never above *)
Theorem c13_qsim_outcome_bound_static : forall nq ncl (p : qprog) out, wf_qprog nq ncl p = true ->
  qsimulate sim_tolerance nq p = Ok out ->
  forall k, (lookup (qpath nq p) k - (2 # 1) * inject_Z (Z.of_nat (count_nonunitary p)) * sim_tolerance <= lookup out k
             <= lookup (qpath nq p) k)%Q.
Proof.
  intros nq ncl p out _. unfold qsimulate, qpath.
  apply (simulate_outcome_bound_static qgate vec qapply qp1 qproj qflipx sim_tolerance qp1_range (proj1 c13_facts)).
Qed.

(* ---- non-vacuity ---- *)
Definition canon (r : res (list (N * Q))) : res (list (N * Q)) :=
  res_map (map (fun kp : N * Q => (fst kp, Qred (snd kp)))) r.

(* a Bell pair measured twice into ONE classical bit: the second write overwrites with the same value *)
Definition ex_bell : qprog := [PGate Gh [0]; PGate Gcx [0; 1]; PMeasure 0 0; PMeasure 1 0].
Example c13_ex_bell : canon (qsimulate 0 2 ex_bell) = Ok [(0%N, (1 # 2)%Q); (1%N, (1 # 2)%Q)].
Proof. vm_compute. reflexivity. Qed.
Example c13_ex_bell_paths :
  existsb refusing ex_bell = false /\ List.length (qpath 2 ex_bell) = 4 /\
  (lookup (qpath 2 ex_bell) 1 == 1 # 2)%Q.
Proof. vm_compute. repeat split. Qed.

(* entangled measurement, overwrite with a different value, reset of the 1-branch, barrier, unused clbit 2 *)
Definition ex_mixed : qprog :=
  [PGate Gh [0]; PGate Gsx [1]; PGate Gcx [0; 1]; PMeasure 1 1; PBarrier [0; 1]; PReset 1; PGate Gh [1];
   PMeasure 1 1; PMeasure 0 0; PGate Gx [0]; PMeasure 0 3].
Example c13_ex_mixed : canon (qsimulate sim_tolerance 2 ex_mixed)
  = Ok [(1%N, (1 # 4)%Q); (3%N, (1 # 4)%Q); (8%N, (1 # 4)%Q); (10%N, (1 # 4)%Q)].
Proof. vm_compute. reflexivity. Qed.

(* dict insertion order is modelled: key 1 survives in place, key 0 is created after it *)
Example c13_ex_order :
  canon (qsimulate sim_tolerance 2 [PGate Gx [0]; PGate Gh [1]; PMeasure 0 0; PMeasure 1 0])
  = Ok [(1%N, (1 # 2)%Q); (0%N, (1 # 2)%Q)].
Proof. vm_compute. reflexivity. Qed.

(* a non-Clifford circuit (Toffoli): conditional probabilities 1/4, 5/6, 1/6 *)
Example c13_ex_ccx :
  canon (qsimulate sim_tolerance 3 [PGate Gh [0]; PGate Gh [1]; PGate Gccx [1; 0; 2]; PGate Gh [0]; PMeasure 2 0; PMeasure 0 1])
  = Ok [(0%N, (5 # 8)%Q); (1%N, (1 # 8)%Q); (2%N, (1 # 8)%Q); (3%N, (1 # 8)%Q)].
Proof. vm_compute. reflexivity. Qed.

(* the leaves of the tree: weights are products of conditional probabilities, registers by overwrite *)
Example c13_ex_tree :
  map (fun kb : N * (Q * vec) => (fst kb, Qred (fst (snd kb)))) (qtree sim_tolerance 2 ex_bell)
  = [(0%N, (1 # 2)%Q); (1%N, (1 # 2)%Q)] /\
  List.length (qtree sim_tolerance 1 [PGate Gh [0]; PMeasure 0 0; PGate Gh [0]; PMeasure 0 0]) = 4.
Proof. vm_compute. split; reflexivity. Qed.

(* operand order is part of the statement: cx [1;0] (control 1) and cx [0;1] differ *)
Example c13_ex_operand_order :
  canon (qsimulate sim_tolerance 2 [PGate Gx [1]; PGate Gcx [1; 0]; PMeasure 0 0; PMeasure 1 1]) = Ok [(3%N, 1%Q)] /\
  canon (qsimulate sim_tolerance 2 [PGate Gx [1]; PGate Gcx [0; 1]; PMeasure 0 0; PMeasure 1 1]) = Ok [(2%N, 1%Q)] /\
  canon (qsimulate sim_tolerance 3 [PGate Gx [2]; PGate Gx [0]; PGate Gccx [2; 0; 1]; PMeasure 1 0]) = Ok [(1%N, 1%Q)] /\
  canon (qsimulate sim_tolerance 3 [PGate Gx [2]; PGate Gx [0]; PGate Gccx [0; 1; 2]; PMeasure 1 0]) = Ok [(0%N, 1%Q)].
Proof. vm_compute. repeat split; reflexivity. Qed.

(* one sampler call over three circuits; a measurement-free circuit refuses the whole call *)
Example c13_ex_sampler_run :
  res_map (map (map (fun kp : N * Q => (fst kp, Qred (snd kp)))))
    (qsampler_run sim_tolerance [(2, 1, ex_bell); (1, 2, [PGate Gx [0]; PMeasure 0 1]); (2, 1, ex_bell)])
  = Ok [[(0%N, (1 # 2)%Q); (1%N, (1 # 2)%Q)]; [(2%N, 1%Q)]; [(0%N, (1 # 2)%Q); (1%N, (1 # 2)%Q)]] /\
  qsampler_run sim_tolerance [(2, 1, ex_bell); (1, 2, [PGate Gx [0]])] = Refused /\
  qsampler_run sim_tolerance [] = Refused.
Proof. vm_compute. repeat split; reflexivity. Qed.

(* the audit bit holds on a non-trivial state (hypothesis of c13_qsim_born_step (3)) *)
Definition ex_bell_vec : vec := qapply Gcx [0; 1] (qapply Gh [0] (init_vec 2)).
Example c13_ex_born_step : qp1_is_exact ex_bell_vec 1 = true /\ Qeq (qp1 ex_bell_vec 1) (1 # 2).
Proof. vm_compute. split; reflexivity. Qed.

(* tolerance 0 with a reset (c13_pushforward / c13_distribution): h; measure; reset; h; measure into the same bit *)
Definition ex_reset : qprog := [PGate Gh [0]; PMeasure 0 0; PReset 0; PGate Gh [0]; PMeasure 0 0].
Example c13_ex_reset_tol0 :
  existsb refusing ex_reset = false /\ existsb is_measure ex_reset = true /\ wf_qprog 1 1 ex_reset = true /\
  canon (qsimulate 0 1 ex_reset) = Ok [(0%N, (1 # 2)%Q); (1%N, (1 # 2)%Q)] /\
  List.length (qpath 1 ex_reset) = 8 /\ Qeq (lookup (qpath 1 ex_reset) 1) (1 # 2).
Proof. vm_compute. repeat split; reflexivity. Qed.

(* the regime where the truncation bound BITES: a toy instrument whose 1-outcome has probability 1e-17 < tol = 1e-16.
   Two measurements: the 1-children are cut, mass is really lost (total < 1, outcome 1 missing although its path-law
   probability is positive), and the loss is within the a-priori bound 2 * 2 * tol. *)
Definition toy_p1 (_ : unit) (_ : nat) : Q := (1 # 100000000000000000)%Q.
Definition toy_sim (p : prog unit) := simulate (fun _ _ s => s) toy_p1 (fun s _ _ => s) (fun s _ => s) sim_tolerance tt p.
Definition toy_path (p : prog unit) := path_law (fun _ _ s => s) toy_p1 (fun s _ _ => s) (fun s _ => s) p tt 0%N.
Definition toy_prog : prog unit := [PMeasure 0 0; PMeasure 0 1].
Example c13_ex_truncation_bites :
  (forall s q, 0 <= toy_p1 s q <= 1)%Q /\ count_nonunitary toy_prog = 2 /\
  exists w, toy_sim toy_prog = Ok [(0%N, w)] /\ (w < 1)%Q /\ (1 - (2 # 1) * (2 # 1) * sim_tolerance <= w)%Q /\
            (0 < lookup (toy_path toy_prog) 1)%Q /\ (lookup [(0%N, w)] 1 == 0)%Q /\
            (lookup (toy_path toy_prog) 1 - (2 # 1) * (2 # 1) * sim_tolerance <= 0)%Q.
Proof.
  split; [intros; unfold toy_p1; split; unfold Qle; simpl; lia|]. split; [reflexivity|].
  eexists. split; [vm_compute; reflexivity|]. vm_compute. repeat split; intros; discriminate.
Qed.

(* deterministic branch: one child truncated at every measurement, nothing lost *)
Example c13_ex_pruned :
  canon (qsimulate sim_tolerance 1 [PGate Gx [0]; PMeasure 0 2; PReset 0; PMeasure 0 0]) = Ok [(4%N, 1%Q)] /\
  qpruned sim_tolerance 1 [PGate Gx [0]; PMeasure 0 2; PReset 0; PMeasure 0 0] = Ok 3.
Proof. vm_compute. split; reflexivity. Qed.

Example c13_ex_refuses :
  qsimulate sim_tolerance 2 [PGate Gh [0]; PMeasure 0 0; PCond; PMeasure 1 1] = Refused /\
  qsimulate sim_tolerance 2 [PGate Gh [0]; PMeasure 0 0; PGateWithClbit] = Refused.
Proof. vm_compute. split; reflexivity. Qed.

Print Assumptions c13_pushforward.
Print Assumptions c13_expectation.
Print Assumptions c13_total.
Print Assumptions c13_pruned_bound.
Print Assumptions c13_outcome_bound.
Print Assumptions c13_event_bound.
Print Assumptions c13_outcome_bound_static.
Print Assumptions c13_event_bound_static.
Print Assumptions c13_total_bound_static.
Print Assumptions c13_distribution.
Print Assumptions c13_sampler_answer.
Print Assumptions c13_qsim_outcome_bound_static.
Print Assumptions c13_support.
Print Assumptions c13_refuses.
Print Assumptions c13_deletes_in_range.
Print Assumptions c13_sampler_def.
Print Assumptions c13_qsim_p1_clamped.
Print Assumptions c13_facts.
Print Assumptions c13_qsim_bound.
Print Assumptions c13_qsim_outcome_bound.
Print Assumptions c13_branches.
Print Assumptions c13_tree_law.
Print Assumptions c13_sampler_run_ok.
Print Assumptions c13_sampler_run_refuses.
Print Assumptions c13_sampler_run_single_def.
Print Assumptions c13_qsim_born_step.
